(* C12 — executable model of the query / derivation state machine over operator objects.

   Definitions only.  Every cached method is built from `py_cached` of gen/Memoize.v (the Gallina
   translation of linear_operator/utils/memoize.py regenerated on every run); the bodies below are
   line-by-line transcriptions of the cache-relevant control flow of
   linear_operator/operators/_linear_operator.py (base class LinearOperator) and of the overrides of
   the classes in the modelled universe (Dense, Sum/PsdSum/AddedDiag, ConstantMul, Cat, Toeplitz,
   Interpolated, Diag family as children).  All numerics are abstracted into the kernels of a
   record [kern]; Sym.v instantiates it symbolically (for vm_compute in the correspondence shards),
   Proofs.v assumes the kernels valid and proves the history theorems for EVERY instance.

   State: a heap of objects (list, index = object id; children have smaller ids than parents).
   Events: a query on an object, a derivation from an object (appends the new objects), a
   settings switch, direct use of the public cache utilities (add_to_cache(symeig) / clear_cache_hook). *)
From Coq Require Import List String Bool Arith ZArith.
Import ListNotations.
Require Import C12.MemoBase C12.gen.Memoize.
Open Scope string_scope.
Open Scope list_scope.
Open Scope nat_scope.

(* ------------------------------------------------------------------ settings read by the control flow *)
Record settings := {
  st_max_chol : nat;          (* settings.max_cholesky_size.value() *)
  st_fc_root : bool;          (* fast_computations.covar_root_decomposition.on() *)
  st_fc_logprob : bool;       (* fast_computations.log_prob.on() *)
  st_fc_solves : bool;        (* fast_computations.solves.on() *)
  st_ciq : bool;              (* ciq_samples.on() *)
  st_precond_size : nat;      (* max_preconditioner_size.value() *)
  st_min_precond : nat        (* min_preconditioning_size.value() *)
}.
Definition st_default : settings :=
  {| st_max_chol := 800; st_fc_root := true; st_fc_logprob := true; st_fc_solves := true; st_ciq := false;
     st_precond_size := 15; st_min_precond := 2000 |}.

(* ------------------------------------------------------------------ numerics: abstract kernels *)
(* which property of the object's matrix A a value is an answer to *)
Inductive aspect :=
| ADense                    (* the dense matrix itself *)
| AChol (upper : bool)      (* triangular factor: L L^T = A (lower) / U^T U = A (upper), honestly labelled *)
| ARoot                     (* Root/CholLinearOperator R R^T = A; a Triangular-labelled root IS (lower) triangular *)
| ARootInv                  (* R R^T = A^-1, same labelling condition *)
| AFactor                   (* the .root of a valid ARoot: a matrix R, R R^T = A, honestly labelled *)
| AInvFactor                (* the .root of a valid ARootInv *)
| AEig (vecs : bool)        (* (evals, evecs or None): A = Q diag(w) Q^T *)
| AEvals                    (* a bare eigenvalue tensor *)
| ASvd                      (* (U, S, V): A = U diag(S) V^T *)
| ASolve (rhs : nat)        (* A^-1 rhs *)
| AIqld (rhs : option nat) (logdet : bool)     (* (rhs^T A^-1 rhs, log|A| or empty) *)
| ALogdet
| ADiagonal
| APrecond                  (* (closure, P, log|P|) consistent with each other, or (None, None, None) *)
| ASample (noise : nat).    (* R z for the installed noise z, with R R^T = A *)

Record kern := {
  Mat : Type;                 (* the one dense matrix an object denotes *)
  Val : Type;                 (* run-time values: tensors, operators, tuples *)
  (* observations the control flow makes on values *)
  v_is_tri : Val -> bool;     (* isinstance(x, TriangularLinearOperator) *)
  v_tri_upper : Val -> bool;  (* getattr(x, "upper", False) *)
  v_root : Val -> Val;        (* .root of a Root/CholLinearOperator *)
  (* matrices of derived operators; the nat arguments name the tensors passed by the caller *)
  m_add_diag : Mat -> nat -> Mat;
  m_add_low_rank : Mat -> nat -> Mat;
  m_cat_rows : Mat -> nat -> nat -> Mat;
  m_getitem : Mat -> nat -> Mat;
  m_transpose : Mat -> Mat;
  m_scale : Mat -> nat -> Mat;
  m_expand : Mat -> nat -> Mat;
  (* kernels *)
  k_dense : Mat -> Val;
  k_chol : Mat -> bool -> res Val;            (* TriangularLinearOperator(psd_safe_cholesky(A, upper), upper); may raise *)
  k_tri_T : Val -> Val;                       (* TriangularLinearOperator._transpose_nonbatch *)
  k_symeig : Mat -> bool -> Val;              (* LinearOperator._symeig: torch.linalg.eigh(dense), clamp *)
  k_eig_shift : Mat -> Val -> Val;            (* AddedDiag over ConstantDiag (matrix A): child's evals + c *)
  k_svd_of_eig : Val -> Val;                  (* LinearOperator._svd *)
  k_svd_shift : Mat -> Val -> Val;
  k_diagz_lanczos : Mat -> nat -> nat -> res Val;   (* Diagonalization.apply (matrix, size, id of the run: random start vector) *)
  k_cholop : Val -> Val;                      (* CholLinearOperator(L) *)
  k_root_eig : Val -> Val;                    (* RootLinearOperator(evecs * evals.clamp_min(0).sqrt()) *)
  k_root_svd : Val -> Val;
  k_root_pivchol : Mat -> Val;
  k_root_lanczos : Mat -> nat -> Val;         (* RootLinearOperator(self._root_decomposition()) *)
  k_root_1x1 : Val -> Val;                    (* RootLinearOperator(self.to_dense().sqrt()) *)
  k_root_scale : Mat -> Val -> Val;           (* ConstantMul (matrix A): Root(ConstantMul(base_root, c ** 0.5)) *)
  k_rootinv_chol : Val -> Val;                (* Root(Triangular(solve_triangular(L, I).mT, upper=True)) *)
  k_rootinv_lanczos : Mat -> nat -> Val * Val;(* (inverse root tensor, Root(root)) of ONE Lanczos run *)
  k_wrap_root : Val -> Val;                   (* RootLinearOperator(x) *)
  k_rootinv_eig : Val -> Val;
  k_rootinv_svd : Val -> Val;
  k_rootinv_pinv : Val -> Val;
  k_rootinv_1x1 : Val -> Val;
  k_eig_drop : Val -> Val;                    (* (evals, evecs) |-> (evals, None) *)
  k_evals : Val -> Val;                       (* (evals, _) |-> evals *)
  k_solve : Mat -> settings -> nat -> res Val;        (* Solve.apply on a rebuilt copy *)
  k_iqld_chol : Val -> option nat -> bool -> Val;    (* CholLinearOperator(tri).inv_quad_logdet *)
  k_iqld_cg : Mat -> Val -> option nat -> bool -> Val;
  k_snd : Val -> Val;
  k_diagonal : Mat -> Val;
  k_no_precond : Mat -> Val;                  (* (None, None, None) *)
  k_precond : Mat -> nat -> Val;              (* pivoted-Cholesky preconditioner of the given rank *)
  k_sample_root : Val -> nat -> Val;
  k_sample_ciq : Mat -> nat -> Val;
  k_sample_1x1 : Val -> nat -> Val;
  (* transplants *)
  k_lr_update : Val -> Val -> nat -> bool -> Val * Val;   (* add_low_rank: (L, M, B, return_triangular) |-> (Root(L U S~), Root(M U S~^-1)) *)
  k_cat_update : Val -> Val -> nat -> nat -> bool -> bool -> res (Val * option Val);  (* cat_rows: (E, R, B, D, schur root triangular?, generate_inv_roots) *)
  (* KroneckerProductLinearOperator (matrix A) from the results of its factors *)
  k_eig_kron : Mat -> bool -> list Val -> Val; (* _symeig (eigenvectors?): Kronecker product of the factors' eigen-decompositions *)
  k_svd_kron : Mat -> list Val -> Val;         (* _svd *)
  k_chol_kron : Mat -> list Val -> bool -> bool -> Val;  (* (factors' Cholesky factors, upper, is the result an instance of
                                      TriangularLinearOperator?): KroneckerProductTriangularLinearOperator( *chol_factors, upper=upper) is not;
                                      BlockDiag / BatchRepeat wrap theirs in TriangularLinearOperator *)
  k_root_kron : Mat -> list Val -> Val;        (* RootLinearOperator(KroneckerProductLinearOperator( *[r.root for r in roots])) *)
  k_rootinv_kron : Mat -> list Val -> Val;
  k_iqld_kron : Mat -> option Val -> option Val -> Val;  (* (inv_quad term of super().inv_quad_logdet(rhs, logdet=False) | None,
                                                            eigen-decomposition for _logdet | None) |-> (inv_quad, logdet) *)
  (* BlockDiagLinearOperator / BatchRepeatLinearOperator (matrix A) from a result of the base operator *)
  k_deleg_lift : Mat -> Val -> Val;            (* self.__class__(base._root_inv_decomposition()) / .repeat(...): inverse-root factor *)
  k_iqld_deleg : Mat -> Val -> Val;            (* reshaped / summed (inv_quad, logdet) of base_linear_op.inv_quad_logdet *)
  k_sample_deleg : Mat -> Val -> Val           (* BlockDiag: reshaped base_linear_op.zero_mean_mvn_samples *)
}.

(* ------------------------------------------------------------------ objects *)
(* how the class computes its spectral / triangular factorizations:
   EigBase: from its own dense matrix;  EigShift c: AddedDiag with a ConstantDiag diagonal delegates to its child c;
   EigKron l: KroneckerProductLinearOperator delegates to its factors l (and overrides the cached protocol methods) *)
Inductive eig_kind := EigBase | EigShift (child : nat) | EigKron (kids : list nat).

Record profile := {
  pf_td_name : option string;   (* to_dense is @cached under this function name (None: not cached) *)
  pf_td_kids : list nat;        (* objects whose to_dense() the class's to_dense calls, in order *)
  pf_chol_ignore : bool;        (* _cholesky is @cached(name="cholesky", ignore_args=True) (Diag family) *)
  pf_eig : eig_kind;
  pf_cm_root : option nat;      (* ConstantMul with non-negative constant: root_decomposition delegates to child *)
  pf_precond : bool;            (* AddedDiag: pivoted-Cholesky preconditioner with ad-hoc caches *)
  pf_sum : bool;                (* isinstance(self, SumLinearOperator): add_low_rank rebuilds (and may densify) the sum *)
  pf_iqld_to : bool;            (* CatLinearOperator.inv_quad_logdet: tuple(r.to(self.device) for r in super()...) *)
  pf_deleg : option bool;       (* with pf_eig = EigKron [c]: NOT a Kronecker product but a class that hands _cholesky / _svd /
                                   _symeig / inv_quad_logdet / the Lanczos internals to its one base operator c and keeps
                                   the base-class cached methods: Some true = BlockDiagLinearOperator (also
                                   zero_mean_mvn_samples), Some false = BatchRepeatLinearOperator *)
  pf_iqld_norhs_raises : bool;  (* delegating classes, two history-independent reshaping errors of their inv_quad_logdet when
                                   the base operator takes the CG branch (probed on the library under test by the harness;
                                   both are repaired by the proposed C05 fixes): a missing right-hand side raises RuntimeError *)
  pf_iqld_nologdet_raises : bool; (* ... and logdet=False raises TypeError (BlockDiag: `logdet_res.view( *logdet_res.shape)`) *)
  pf_lanczos_1x1_raises : bool  (* Diagonalization.apply on a 1 x 1 operator raises IndexError (history independent; probed;
                                   repaired by the proposed Lanczos fixes) *)
}.
Definition pf_plain : profile :=
  {| pf_td_name := None; pf_td_kids := []; pf_chol_ignore := false; pf_eig := EigBase; pf_cm_root := None;
     pf_precond := false; pf_sum := false; pf_iqld_to := false; pf_deleg := None;
     pf_iqld_norhs_raises := false; pf_iqld_nologdet_raises := false; pf_lanczos_1x1_raises := false |}.

(* the factors of a class with KroneckerProductLinearOperator's overrides of the cached methods *)
Definition kron_over (p : profile) : option (list nat) :=
  match pf_deleg p with
  | Some _ => None
  | None => match pf_eig p with EigKron l => Some l | _ => None end
  end.
(* the base operator of a delegating class *)
Definition deleg_kid (p : profile) : option nat :=
  match pf_deleg p, pf_eig p with
  | Some _, EigKron [c] => Some c
  | _, _ => None
  end.

(* three facts about the pinned source that the model depends on and that the harness re-reads from
   linear_operator/operators/_linear_operator.py on every run (gen/SourceFlags.v): they are the defect sites *)
Record srcflags := {
  fl_lr_wraps : bool;         (* add_low_rank: `if return_triangular: updated_root = TriangularLinearOperator(updated_root)` *)
  fl_eigh_none : bool;        (* eigh: the pop branch returns (evals, None) *)
  fl_eigvalsh_tuple : bool;   (* eigvalsh: the pop branch returns a tuple instead of evals *)
  fl_kron_rootinv_noargs : bool  (* KroneckerProductLinearOperator.root_inv_decomposition: super().root_inv_decomposition()
                                    is called WITHOUT the arguments (kronecker_product_linear_operator.py) *)
}.
Definition fl_pinned : srcflags :=
  {| fl_lr_wraps := true; fl_eigh_none := true; fl_eigvalsh_tuple := true; fl_kron_rootinv_noargs := true |}.

Section Model.
Variable K : kern.
Variable fl : srcflags.
Notation Mat := (Mat K).
Notation Val := (Val K).

Record obj := {
  o_pf : profile;
  o_n : nat;                    (* size(-1) *)
  o_square : bool;
  o_mat : Mat;
  o_memo : memo Val;            (* obj._memoize_cache *)
  o_adhoc : option (nat * Val)  (* AddedDiag._q_cache & co: (rank it was built with, preconditioner) *)
}.

Record heap := { h_objs : list obj; h_ctr : nat (* counter naming random runs *) }.

Definition dflt_obj (m : Mat) : obj :=
  {| o_pf := pf_plain; o_n := 0; o_square := true; o_mat := m; o_memo := None; o_adhoc := None |}.

Definition H (A : Type) := M heap A.

Definition set_memo (m : memo Val) (o : obj) : obj :=
  {| o_pf := o_pf o; o_n := o_n o; o_square := o_square o; o_mat := o_mat o; o_memo := m; o_adhoc := o_adhoc o |}.
Definition set_adhoc (a : option (nat * Val)) (o : obj) : obj :=
  {| o_pf := o_pf o; o_n := o_n o; o_square := o_square o; o_mat := o_mat o; o_memo := o_memo o; o_adhoc := a |}.

Fixpoint upd {A} (i : nat) (f : A -> A) (l : list A) : list A :=
  match l, i with
  | [], _ => []
  | x :: r, O => f x :: r
  | x :: r, S j => x :: upd j f r
  end.

Definition get_obj (i : nat) (h : heap) : option obj := nth_error (h_objs h) i.

(* the lens onto object i's _memoize_cache; an id outside the heap has no attribute and ignores writes
   (never happens in a run: ids come from the heap) *)
Definition obj_lens (i : nat) : lens heap Val :=
  {| lget := fun h => match get_obj i h with Some o => o_memo o | None => None end;
     lput := fun m h => {| h_objs := upd i (set_memo m) (h_objs h); h_ctr := h_ctr h |} |}.

Definition with_obj {A} (i : nat) (f : obj -> H A) : H A :=
  fun h => match get_obj i h with Some o => f o h | None => (Raise ValueError, h) end.

Definition fresh_run : H nat := fun h => (Ok (h_ctr h), {| h_objs := h_objs h; h_ctr := S (h_ctr h) |}).

Fixpoint mapM {A} (f : nat -> H A) (l : list nat) : H (list A) :=
  match l with
  | [] => ret []
  | c :: r => x <- f c ;; xs <- mapM f r ;; ret (x :: xs)
  end.

Definition alloc (o : obj) : H nat :=
  fun h => (Ok (List.length (h_objs h)), {| h_objs := (h_objs h ++ [o])%list; h_ctr := h_ctr h |}).

(* a cached method of object i *)
Definition cached_m (i : nat) (method : string) (nm : option string) (ignore_args : bool)
           (body : list pyv -> kwargs -> H Val) (args : list pyv) (kw : kwargs) : H Val :=
  py_cached (L := obj_lens i) method nm ignore_args body args kw.

Definition add_to_cache_m (i : nat) (nm : string) (v : Val) (args : list pyv) (kw : kwargs) : H Val :=
  py_add_to_cache (L := obj_lens i) (NStr nm) v args kw.

(* ------------------------------------------------------------------ Python call binding *)
Fixpoint kw_get (kw : kwargs) (k : string) : option pyv :=
  match kw with [] => None | (k', v) :: r => if String.eqb k' k then Some v else kw_get r k end.

(* value of the p-th positional / keyword parameter `nm` (default None);  too many positionals, an unknown
   keyword or a parameter given twice raise TypeError as Python does *)
Fixpoint kw_known (names : list string) (kw : kwargs) : bool :=
  match kw with [] => true | (k, _) :: r => existsb (String.eqb k) names && kw_known names r end.
Fixpoint bind_from (names : list string) (args : list pyv) (kw : kwargs) : res (list pyv) :=
  match names with
  | [] => match args with [] => Ok [] | _ => Raise TypeError end
  | nm :: r =>
      match args with
      | a :: ar => match kw_get kw nm with
                   | Some _ => Raise TypeError
                   | None => match bind_from r ar kw with Ok l => Ok (a :: l) | Raise e => Raise e end
                   end
      | [] => match bind_from r [] kw with
              | Ok l => Ok (match kw_get kw nm with Some v => v | None => PNone end :: l)
              | Raise e => Raise e
              end
      end
  end.
Definition bind_params (names : list string) (args : list pyv) (kw : kwargs) : res (list pyv) :=
  if kw_known names kw then bind_from names args kw else Raise TypeError.

Definition pstr_is (v : pyv) (s : string) : bool := match v with PStr s' => String.eqb s' s | _ => false end.
Definition is_none (v : pyv) : bool := match v with PNone => true | _ => false end.
(* Python truthiness of the argument values that occur *)
Definition truthy (v : pyv) : bool :=
  match v with PNone => false | PBool b => b | PStr s => negb (String.eqb s "") | PInt z => negb (Z.eqb z 0) | PTen _ => true end.

(* ------------------------------------------------------------------ the base protocol *)

(* to_dense: possibly @cached under the function's own name; composite classes densify their children *)
Fixpoint to_dense (fuel : nat) (i : nat) : H Val :=
  with_obj i (fun o =>
    let body := fun (_ : list pyv) (_ : kwargs) =>
      (fix kids (l : list nat) : H unit :=
         match l with
         | [] => ret tt
         | c :: r => match fuel with
                     | O => raise ValueError
                     | S f => to_dense f c ;;; kids r
                     end
         end) (pf_td_kids (o_pf o)) ;;; ret (k_dense K (o_mat o)) in
    match pf_td_name (o_pf o) with
    | Some f => cached_m i f None false body [] []
    | None => body [] []
    end).

(* LinearOperator._symeig (not cached): torch.linalg.eigh(self.to_dense());
   AddedDiag over a ConstantDiag: self._linear_op._symeig(...) shifted *)
Fixpoint symeig (fuel : nat) (i : nat) (vecs : bool) : H Val :=
  with_obj i (fun o =>
    match pf_eig (o_pf o) with
    | EigBase => to_dense fuel i ;;; ret (k_symeig K (o_mat o) vecs)
    | EigShift c => match fuel with
                    | O => raise ValueError
                    | S f => e <- symeig f c vecs ;; ret (k_eig_shift K (o_mat o) e)
                    end
    | EigKron l => (* for lt in self.linear_ops: lt._symeig(eigenvectors=eigenvectors) *)
                   match fuel with
                   | O => raise ValueError
                   | S f => es <- mapM (fun c => symeig f c vecs) l ;; ret (k_eig_kron K (o_mat o) vecs es)
                   end
    end).

(* @cached(name="svd") _svd;  svd() = self._svd() *)
Fixpoint svd (fuel : nat) (i : nat) : H Val :=
  with_obj i (fun o =>
    cached_m i "_svd" (Some "svd") false (fun _ _ =>
      match pf_eig (o_pf o) with
      | EigBase => e <- symeig fuel i true ;; ret (k_svd_of_eig K e)
      | EigShift c => match fuel with
                      | O => raise ValueError
                      | S f => u <- svd f c ;; ret (k_svd_shift K (o_mat o) u)
                      end
      | EigKron l => (* for lt in self.linear_ops: lt.svd() *)
                     match fuel with
                     | O => raise ValueError
                     | S f => us <- mapM (svd f) l ;; ret (k_svd_kron K (o_mat o) us)
                     end
      end) [] []).

(* @cached(name="cholesky") _cholesky(upper=False): evaluate_kernel() rebuilds a fresh copy, so nothing else
   of the heap is touched *)
(* cholesky(upper=False): chol = self._cholesky(upper=False); if upper: chol = chol._transpose_nonbatch()
   (chol_ = the object's _cholesky) *)
Definition cholesky_of (chol_ : list pyv -> kwargs -> H Val) (args : list pyv) (kw : kwargs) : H Val :=
  p <- lift (bind_params ["upper"] args kw) ;;
  c <- chol_ [] [("upper", PBool false)] ;;
  ret (if truthy (nth 0 p PNone) then k_tri_T K c else c).

(* KroneckerProductLinearOperator._cholesky (same decorator): chol_factors = [lt.cholesky(upper=upper) for lt in
   self.linear_ops] - every factor's own cache is written *)
Fixpoint _cholesky (fuel : nat) (i : nat) (args : list pyv) (kw : kwargs) : H Val :=
  with_obj i (fun o =>
    cached_m i "_cholesky" (Some "cholesky") (pf_chol_ignore (o_pf o)) (fun a k =>
      p <- lift (bind_params ["upper"] a k) ;;
      match pf_eig (o_pf o) with
      | EigKron l =>
          match fuel with
          | O => raise ValueError
          | S f => cs <- mapM (fun c => cholesky_of (_cholesky f c) [] [("upper", nth 0 p PNone)]) l ;;
                   ret (k_chol_kron K (o_mat o) cs (truthy (nth 0 p PNone))
                                    (match pf_deleg (o_pf o) with Some _ => true | None => false end))
          end
      | _ => lift (k_chol K (o_mat o) (truthy (nth 0 p PNone)))
      end) args kw).

Definition cholesky (fuel : nat) (i : nat) (args : list pyv) (kw : kwargs) : H Val :=
  cholesky_of (_cholesky fuel i) args kw.

Definition in_cache_all (i : nat) (nm : string) : H bool :=
  py__is_in_cache_ignore_all_args (L := obj_lens i) (NStr nm).
Definition in_cache_bare (i : nat) (nm : string) : H bool :=
  py__is_in_cache_ignore_args (L := obj_lens i) (NStr nm).

(* _choose_root_method *)
Definition choose_root_method (st : settings) (i : nat) : H string :=
  with_obj i (fun o =>
    b1 <- in_cache_all i "symeig" ;;
    if b1 then ret "symeig" else
    b2 <- in_cache_all i "diagonalization" ;;
    if b2 then ret "diagonalization" else
    b3 <- in_cache_all i "lanczos" ;;
    if b3 then ret "lanczos" else
    if (o_n o <=? st_max_chol st) || negb (st_fc_root st) then ret "cholesky" else ret "lanczos").

Definition method_of (v : pyv) : res (option string) :=
  match v with PNone => Ok None | PStr s => Ok (Some s) | _ => Ok (Some "?") end.

(* @cached(name="diagonalization") diagonalization(method=None) *)
Definition diagonalization_base (st : settings) (fuel : nat) (i : nat) (o : obj) : list pyv -> kwargs -> H Val :=
    cached_m i "diagonalization" (Some "diagonalization") false (fun a k =>
      p <- lift (bind_params ["method"] a k) ;;
      if negb (o_square o) then raise RuntimeError else
      m0 <- lift (method_of (nth 0 p PNone)) ;;
      let m := match m0 with
               | None => if o_n o <=? st_max_chol st then "symeig" else "lanczos"
               | Some s => s end in
      if String.eqb m "lanczos" then
        r <- fresh_run ;;
        if (o_n o =? 1) && pf_lanczos_1x1_raises (o_pf o) then raise IndexError
        else lift (k_diagz_lanczos K (o_mat o) (o_n o) r)
      else if String.eqb m "symeig" then symeig fuel i true
      else raise RuntimeError).

Definition diagonalization (st : settings) (fuel : nat) (i : nat) (args : list pyv) (kw : kwargs) : H Val :=
  with_obj i (fun o =>
    let base_cached := diagonalization_base st fuel i o in
    match kron_over (o_pf o) with
    | Some _ =>
        (* KroneckerProductLinearOperator.diagonalization (not decorated): if method is None: method = "symeig";
           return super().diagonalization(method=method) *)
        p <- lift (bind_params ["method"] args kw) ;;
        base_cached [] [("method", if is_none (nth 0 p PNone) then PStr "symeig" else nth 0 p PNone)]
    | None => base_cached args kw
    end).

(* @cached(name="root_decomposition") root_decomposition(method=None) *)
Fixpoint root_decomposition (st : settings) (fuel : nat) (i : nat) (args : list pyv) (kw : kwargs) : H Val :=
  with_obj i (fun o =>
    let base := fun (a : list pyv) (k : kwargs) =>
      p <- lift (bind_params ["method"] a k) ;;
      if negb (o_square o) then raise RuntimeError else
      if o_n o =? 1 then d <- to_dense fuel i ;; ret (k_root_1x1 K d) else
      m0 <- lift (method_of (nth 0 p PNone)) ;;
      m <- match m0 with None => choose_root_method st i | Some s => ret s end ;;
      (* if method == "cholesky": try: return CholLinearOperator(self.cholesky()) except RuntimeError: method = "symeig" *)
      r <- (if String.eqb m "cholesky"
            then catch (c <- cholesky fuel i [] [] ;; ret (inl (k_cholop K c))) [RuntimeError] (ret (inr "symeig"))
            else ret (inr m)) ;;
      match r with
      | inl v => ret v
      | inr m =>
          if String.eqb m "pivoted_cholesky" then to_dense fuel i ;;; ret (k_root_pivchol K (o_mat o))
          else if String.eqb m "symeig" then e <- symeig fuel i true ;; ret (k_root_eig K e)
          else if String.eqb m "diagonalization" then e <- diagonalization st fuel i [] [] ;; ret (k_root_eig K e)
          else if String.eqb m "svd" then u <- svd fuel i ;; ret (k_root_svd K u)
          else if String.eqb m "lanczos" then r <- fresh_run ;; ret (k_root_lanczos K (o_mat o) r)
          else raise RuntimeError
      end in
    match kron_over (o_pf o) with
    | Some l =>
        (* KroneckerProductLinearOperator: @cached(name="root_decomposition") override:
           if self.shape[-1] <= max_cholesky_size: return super().root_decomposition(method=method)   (the base method,
           itself cached: a second entry under (name, (), {"method": method}));
           else the Kronecker product of the factors' roots *)
        cached_m i "root_decomposition" (Some "root_decomposition") false (fun a k =>
          p <- lift (bind_params ["method"] a k) ;;
          if o_n o <=? st_max_chol st
          then cached_m i "root_decomposition" (Some "root_decomposition") false base [] [("method", nth 0 p PNone)]
          else match fuel with
               | O => raise ValueError
               | S f => rs <- mapM (fun c => root_decomposition st f c [] [("method", nth 0 p PNone)]) l ;;
                        ret (k_root_kron K (o_mat o) rs)
               end) args kw
    | None =>
    match pf_cm_root (o_pf o), fuel with
    | Some c, S f =>
        (* ConstantMulLinearOperator: @cached(name="root_decomposition") override, non-negative constant:
           base_root = self.base_linear_op.root_decomposition(method=method).root *)
        cached_m i "root_decomposition" (Some "root_decomposition") false (fun a k =>
          p <- lift (bind_params ["method"] a k) ;;
          r <- root_decomposition st f c [] [("method", nth 0 p PNone)] ;;
          ret (k_root_scale K (o_mat o) r)) args kw
    | Some _, O => raise ValueError
    | None, _ => cached_m i "root_decomposition" (Some "root_decomposition") false base args kw
    end
    end).

(* @cached(name="root_inv_decomposition") root_inv_decomposition(initial_vectors=None, test_vectors=None, method=None) *)
Definition root_inv_base (st : settings) (fuel : nat) (i : nat) (o : obj) : list pyv -> kwargs -> H Val :=
    cached_m i "root_inv_decomposition" (Some "root_inv_decomposition") false (fun a k =>
      p <- lift (bind_params ["initial_vectors"; "test_vectors"; "method"] a k) ;;
      if negb (o_square o) then raise RuntimeError else
      if o_n o =? 1 then d <- to_dense fuel i ;; ret (k_rootinv_1x1 K d) else
      m0 <- lift (method_of (nth 2 p PNone)) ;;
      m <- match m0 with None => choose_root_method st i | Some s => ret s end ;;
      if String.eqb m "cholesky" then L <- cholesky fuel i [] [] ;; ret (k_rootinv_chol K L)
      else if String.eqb m "lanczos" then
        (* initial_vectors is None in every modelled call *)
        if negb (is_none (nth 0 p PNone)) then raise NotImplementedError else
        r <- fresh_run ;;
        match deleg_kid (o_pf o) with
        | Some c =>
            (* BlockDiag / BatchRepeat._root_inv_decomposition: self.base_linear_op._root_inv_decomposition(..): the
               by-product root is written into the cache of the BASE operator, self gets none *)
            with_obj c (fun oc =>
              let '(inv_root, root) := k_rootinv_lanczos K (o_mat oc) r in
              add_to_cache_m c "root_decomposition" root [] [] ;;;
              ret (k_wrap_root K (k_deleg_lift K (o_mat o) inv_root)))
        | None =>
        let '(inv_root, root) := k_rootinv_lanczos K (o_mat o) r in
        (* _root_inv_decomposition: add_to_cache(self, "root_decomposition", RootLinearOperator(roots)) *)
        add_to_cache_m i "root_decomposition" root [] [] ;;; ret (k_wrap_root K inv_root)
        end
      else if String.eqb m "symeig" then e <- symeig fuel i true ;; ret (k_rootinv_eig K e)
      else if String.eqb m "diagonalization" then e <- diagonalization st fuel i [] [] ;; ret (k_rootinv_eig K e)
      else if String.eqb m "svd" then u <- svd fuel i ;; ret (k_rootinv_svd K u)
      else if String.eqb m "pinverse" then r <- root_decomposition st fuel i [] [] ;; ret (k_rootinv_pinv K (v_root K r))
      else raise RuntimeError).

(* kids_call c a k = root_inv_decomposition of the factor c (open recursion: tied below) *)
Definition root_inv_body (kids_call : nat -> list pyv -> kwargs -> H Val)
           (st : settings) (fuel : nat) (i : nat) (args : list pyv) (kw : kwargs) : H Val :=
  with_obj i (fun o =>
    let base_cached := root_inv_base st fuel i o in
    match kron_over (o_pf o) with
    | Some l =>
        (* KroneckerProductLinearOperator: @cached(name="root_inv_decomposition") override:
           small: return super().root_inv_decomposition()   (NO arguments are passed on: a known finding; the
           repaired call super().root_inv_decomposition(initial_vectors=.., test_vectors=.., method=..) when the
           source flag is off);
           else the Kronecker product of lt.root_inv_decomposition().root *)
        cached_m i "root_inv_decomposition" (Some "root_inv_decomposition") false (fun a k =>
          p <- lift (bind_params ["initial_vectors"; "test_vectors"; "method"] a k) ;;
          if o_n o <=? st_max_chol st
          then (if fl_kron_rootinv_noargs fl then base_cached [] []
                else base_cached [] [("initial_vectors", nth 0 p PNone); ("test_vectors", nth 1 p PNone);
                                     ("method", nth 2 p PNone)])
          else rs <- mapM (fun c => kids_call c [] []) l ;; ret (k_rootinv_kron K (o_mat o) rs)) args kw
    | None => base_cached args kw
    end).

Fixpoint root_inv_decomposition (st : settings) (fuel : nat) (i : nat) (args : list pyv) (kw : kwargs) : H Val :=
  root_inv_body (match fuel with
                 | O => fun _ _ _ => raise ValueError
                 | S f => root_inv_decomposition st f
                 end) st fuel i args kw.

(* eigh / eigvalsh: try: evals, evecs = pop_from_cache(self, "symeig", eigenvectors=True); return evals, None *)
Definition eigh (fuel : nat) (i : nat) : H Val :=
  catch (e <- py_pop_from_cache (L := obj_lens i) (NStr "symeig") [] [("eigenvectors", PBool true)] ;;
         ret (if fl_eigh_none fl then k_eig_drop K e else e)) [CachingError]
        (symeig fuel i true).
Definition eigvalsh (fuel : nat) (i : nat) : H Val :=
  catch (e <- py_pop_from_cache (L := obj_lens i) (NStr "symeig") [] [("eigenvectors", PBool true)] ;;
         ret (if fl_eigvalsh_tuple fl then k_eig_drop K e else k_evals K e)) [CachingError]
        (e <- symeig fuel i false ;; ret (k_evals K e)).

(* _preconditioner: base class (None, None, None); AddedDiag builds _q_cache & co once and reuses them *)
Definition preconditioner (st : settings) (i : nat) : H Val :=
  with_obj i (fun o =>
    if negb (pf_precond (o_pf o)) then ret (k_no_precond K (o_mat o)) else
    if (st_precond_size st =? 0) || (o_n o <? st_min_precond st) then ret (k_no_precond K (o_mat o)) else
    match o_adhoc o with
    | Some (_, p) => ret p
    | None => let p := k_precond K (o_mat o) (st_precond_size st) in
              fun h => (Ok p, {| h_objs := upd i (set_adhoc (Some (st_precond_size st, p))) (h_objs h); h_ctr := h_ctr h |})
    end).

(* inv_quad_logdet(inv_quad_rhs, logdet) *)
Definition inv_quad_logdet_base (st : settings) (fuel : nat) (i : nat) (o : obj) (rhs : option nat) (logdet : bool) : H Val :=
    if negb (st_fc_logprob st) || (o_n o <=? st_max_chol st) then
      (* CholLinearOperator.inv_quad_logdet returns None for the term that was not asked for; the Cat override
         then calls .to(device) on it *)
      let fin := fun (v : Val) => if pf_iqld_to (o_pf o) && (match rhs with None => true | Some _ => negb logdet end)
                                  then raise AttributeError else ret v in
      (* if the root decomposition has already been computed and is triangular we can use it *)
      b <- in_cache_all i "root_decomposition" ;;
      tri <- (if b then r <- root_decomposition st fuel i [] [] ;;
                        ret (if v_is_tri K (v_root K r) then Some (v_root K r) else None)
              else ret None) ;;
      match tri with
      | Some t => fin (k_iqld_chol K t rhs logdet)
      | None => c <- cholesky fuel i [] [] ;; fin (k_iqld_chol K c rhs logdet)
      end
    else
      (* if not logdet: return self.inv_quad(inv_quad_rhs), zeros   - InvQuad works on a rebuilt copy: no cache of
         the heap (in the dict or outside it) is read or written *)
      if negb logdet then
        match rhs with
        | None => raise RuntimeError
        | Some _ => if negb (o_square o) then raise RuntimeError
                    else ret (k_iqld_cg K (o_mat o) (k_no_precond K (o_mat o)) rhs false)
        end
      else
      if negb (o_square o) then raise RuntimeError else
      p <- preconditioner st i ;; ret (k_iqld_cg K (o_mat o) p rhs logdet).

(* kid_call c rhs logdet = inv_quad_logdet of the base operator c (open recursion: tied below) *)
Definition inv_quad_logdet_body (kid_call : nat -> option nat -> bool -> H Val)
           (st : settings) (fuel : nat) (i : nat) (rhs : option nat) (logdet : bool) : H Val :=
  with_obj i (fun o =>
    let base := inv_quad_logdet_base st fuel i o in
    match deleg_kid (o_pf o) with
    | Some c =>
        (* BlockDiag / BatchRepeat.inv_quad_logdet: self.base_linear_op.inv_quad_logdet(reshaped rhs, logdet), then the
           two terms are reshaped.  History-independent quirks of the reshaping (no concern of this property, but they
           decide raised-or-not): when the base operator takes the CG branch, a missing inverse quadratic term makes
           both classes raise RuntimeError, and BlockDiag's `logdet_res.view( *logdet_res.shape)` on the 0-dim zeros
           returned for logdet=False raises TypeError *)
        with_obj c (fun oc =>
          r <- kid_call c rhs logdet ;;
          let kid_cg := negb (negb (st_fc_logprob st) || (o_n oc <=? st_max_chol st)) in
          if kid_cg && (match rhs with None => true | Some _ => false end) && pf_iqld_norhs_raises (o_pf o) then raise RuntimeError
          else if kid_cg && negb logdet && pf_iqld_nologdet_raises (o_pf o) then raise TypeError
          else ret (k_iqld_deleg K (o_mat o) r))
    | None =>
    match kron_over (o_pf o) with
    | Some _ =>
        (* KroneckerProductLinearOperator.inv_quad_logdet:
           inv_quad_term, _ = super().inv_quad_logdet(inv_quad_rhs, logdet=False) if inv_quad_rhs is not None else None
           logdet_term = self._logdet() if logdet else None       (_logdet: evals, _ = self.diagonalization()) *)
        iq <- match rhs with
              | Some r => x <- base (Some r) false ;; ret (Some x)
              | None => ret None
              end ;;
        ld <- (if logdet then e <- diagonalization st fuel i [] [] ;; ret (Some e) else ret None) ;;
        ret (k_iqld_kron K (o_mat o) iq ld)
    | None => base rhs logdet
    end
    end).

Fixpoint inv_quad_logdet (st : settings) (fuel : nat) (i : nat) (rhs : option nat) (logdet : bool) : H Val :=
  inv_quad_logdet_body (match fuel with
                        | O => fun _ _ _ => raise ValueError
                        | S f => inv_quad_logdet st f
                        end) st fuel i rhs logdet.

Definition logdet (st : settings) (fuel : nat) (i : nat) : H Val :=
  r <- inv_quad_logdet st fuel i None true ;; ret (k_snd K r).

(* solve: Solve.apply works on a copy rebuilt from the representation: no cache of the heap is read or written *)
Definition solve (st : settings) (i : nat) (rhs : nat) : H Val :=
  with_obj i (fun o => if negb (o_square o) then raise RuntimeError else lift (k_solve K (o_mat o) st rhs)).

Definition diagonal (i : nat) : H Val :=
  with_obj i (fun o => if negb (o_square o) then raise RuntimeError else ret (k_diagonal K (o_mat o))).

(* zero_mean_mvn_samples *)
Definition sample_body (kid_call : nat -> nat -> H Val) (st : settings) (fuel : nat) (i : nat) (noise : nat) : H Val :=
  with_obj i (fun o =>
    match deleg_kid (o_pf o), pf_deleg (o_pf o) with
    | Some c, Some true =>
        (* BlockDiagLinearOperator.zero_mean_mvn_samples: self.base_linear_op.zero_mean_mvn_samples(num_samples), reshaped *)
        v <- kid_call c noise ;; ret (k_sample_deleg K (o_mat o) v)
    | _, _ =>
    if st_ciq st then ret (k_sample_ciq K (o_mat o) noise)
    else if (o_n o =? 1) && o_square o then d <- to_dense fuel i ;; ret (k_sample_1x1 K d noise)
    else r <- root_decomposition st fuel i [] [] ;; ret (k_sample_root K (v_root K r) noise)
    end).

Fixpoint sample (st : settings) (fuel : nat) (i : nat) (noise : nat) : H Val :=
  sample_body (match fuel with
               | O => fun _ _ => raise ValueError
               | S f => sample st f
               end) st fuel i noise.

(* ------------------------------------------------------------------ events *)
Inductive query :=
| QToDense
| QCholesky (args : list pyv) (kw : kwargs)
| QRootDecomp (args : list pyv) (kw : kwargs)
| QRootInv (args : list pyv) (kw : kwargs)
| QDiagz (args : list pyv) (kw : kwargs)
| QSvd | QEigh | QEigvalsh
| QSolve (rhs : nat)
| QLogdet
| QIqld (rhs : nat) (logdet : bool)
| QDiagonal
| QPrecond
| QSample (noise : nat).

Definition run_query (st : settings) (i : nat) (q : query) : H Val :=
  let fuel := S i in
  match q with
  | QToDense => to_dense fuel i
  | QCholesky a k => cholesky fuel i a k
  | QRootDecomp a k => root_decomposition st fuel i a k
  | QRootInv a k => root_inv_decomposition st fuel i a k
  | QDiagz a k => diagonalization st fuel i a k
  | QSvd => svd fuel i
  | QEigh => eigh fuel i
  | QEigvalsh => eigvalsh fuel i
  | QSolve r => solve st i r
  | QLogdet => logdet st fuel i
  | QIqld r l => inv_quad_logdet st fuel i (Some r) l
  | QDiagonal => diagonal i
  | QPrecond => preconditioner st i
  | QSample z => sample st fuel i z
  end.

Definition aspect_of_query (q : query) : aspect :=
  match q with
  | QToDense => ADense
  | QCholesky a k => AChol (match bind_params ["upper"] a k with Ok [u] => truthy u | _ => false end)
  | QRootDecomp _ _ => ARoot
  | QRootInv _ _ => ARootInv
  | QDiagz _ _ => AEig true
  | QSvd => ASvd
  | QEigh => AEig true
  | QEigvalsh => AEvals
  | QSolve r => ASolve r
  | QLogdet => ALogdet
  | QIqld r l => AIqld (Some r) l
  | QDiagonal => ADiagonal
  | QPrecond => APrecond
  | QSample z => ASample z
  end.

(* a new object as described by the harness: class profile, size, and (for the children of the result) the
   matrix it denotes; the RESULT object's matrix is determined by the derivation *)
Record newobj := { no_pf : profile; no_n : nat; no_square : bool; no_mat : Mat }.
Definition mk_obj (x : newobj) (m : Mat) : obj :=
  {| o_pf := no_pf x; o_n := no_n x; o_square := no_square x; o_mat := m; o_memo := None; o_adhoc := None |}.

Inductive deriv :=
| DAddJitter (d : nat) | DAddDiagonal (d : nat)
| DAddLowRank (B : nat) (m_root m_inv : pyv) (generate_roots : bool)
| DCatRows (B D : nat) (k : nat) (generate_roots generate_inv_roots : bool)   (* k = number of new rows *)
| DGetItem (ix : nat) | DTranspose | DScale (c : nat) | DExpand (b : nat).

Definition deriv_mat (d : deriv) (A : Mat) : Mat :=
  match d with
  | DAddJitter x | DAddDiagonal x => m_add_diag K A x
  | DAddLowRank B _ _ _ => m_add_low_rank K A B
  | DCatRows B D _ _ _ => m_cat_rows K A B D
  | DGetItem ix => m_getitem K A ix
  | DTranspose => m_transpose K A
  | DScale c => m_scale K A c
  | DExpand b => m_expand K A b
  end.

Fixpoint alloc_all (l : list obj) : H unit :=
  match l with [] => ret tt | o :: r => alloc o ;;; alloc_all r end.

(* the operator is constructed first (children, then the result), then - add_low_rank / cat_rows only - the
   roots of SELF are fetched (through self's cache).  Returns the new object's id and the two roots used. *)
Definition deriv_roots (st : settings) (i : nat) (d : deriv) (kids : list newobj) (res_ : newobj)
  : H (nat * option (Val * Val)) :=
  with_obj i (fun o =>
    alloc_all (map (fun x => mk_obj x (no_mat x)) kids) ;;;
    j <- alloc (mk_obj res_ (deriv_mat d (o_mat o))) ;;
    let fuel := S i in
    (* has_roots = any(_is_in_cache_ignore_args(self, key) for key in ("root_decomposition", "root_inv_decomposition")) *)
    let has_roots := b1 <- in_cache_bare i "root_decomposition" ;;
                     if b1 then ret true else in_cache_bare i "root_inv_decomposition" in
    match d with
    | DAddLowRank B m1 m2 gen =>
        (* a SumLinearOperator is rebuilt with the new term and, if small, densified: new_linear_op.to_dense()
           densifies the children of SELF *)
        (if pf_sum (o_pf o) && (o_n o <? st_max_chol st)
         then (fix kids (l : list nat) : H unit :=
                 match l with [] => ret tt | c :: r => to_dense fuel c ;;; kids r end) (pf_td_kids (o_pf o))
         else ret tt) ;;;
        hr <- has_roots ;;
        if negb gen && negb hr then ret (j, None) else
        L <- root_decomposition st fuel i [] [("method", m1)] ;;
        Mi <- root_inv_decomposition st fuel i [] [("method", m2)] ;;
        ret (j, Some (L, Mi))
    | DCatRows B D k gen geninv =>
        hr <- has_roots ;;
        if negb gen && negb hr then ret (j, None) else
        E <- root_decomposition st fuel i [] [] ;;
        R <- root_inv_decomposition st fuel i [] [] ;;
        ret (j, Some (E, R))
    | _ => ret (j, None)
    end).

(* ... and the updated factors are written into the NEW object's cache *)
Definition deriv_finish (st : settings) (d : deriv) (x : nat * option (Val * Val)) : H nat :=
  let (j, roots) := x in
  match roots, d with
  | Some (L, Mi), DAddLowRank B _ _ _ =>
      let '(nr, ni) := k_lr_update K (v_root K L) (v_root K Mi) B (fl_lr_wraps fl && v_is_tri K (v_root K L)) in
      add_to_cache_m j "root_decomposition" nr [] [] ;;;
      add_to_cache_m j "root_inv_decomposition" ni [] [] ;;;
      ret j
  | Some (E, R), DCatRows B D k _ geninv =>
      (* schur_root = to_linear_operator(schur).root_decomposition().root : a k x k DenseLinearOperator under the
         CURRENT settings: 1x1 -> Root(sqrt); cholesky -> Triangular; lanczos -> dense *)
      let schur_tri := negb (k =? 1) && ((k <=? st_max_chol st) || negb (st_fc_root st)) in
      u <- lift (k_cat_update K (v_root K E) (v_root K R) B D schur_tri geninv) ;;
      let '(nr, ni) := u in
      match ni with
      | Some x => add_to_cache_m j "root_inv_decomposition" x [] [] ;;; ret tt
      | None => ret tt
      end ;;;
      add_to_cache_m j "root_decomposition" nr [] [] ;;;
      ret j
  | _, _ => ret j
  end.

Definition run_deriv (st : settings) (i : nat) (d : deriv) (kids : list newobj) (res_ : newobj) : H nat :=
  x <- deriv_roots st i d kids res_ ;; deriv_finish st d x.

Inductive event :=
| EQuery (i : nat) (q : query)
| EDerive (i : nat) (d : deriv) (kids : list newobj) (res_ : newobj)
| ESet (st : settings)
| ESeedSymeig (i : nat)      (* add_to_cache(op, "symeig", op._symeig(eigenvectors=True), eigenvectors=True) by a caller *)
| EClear (i : nat).          (* clear_cache_hook(op) *)

Inductive answer := AVal (v : res Val) | AObj (j : res nat) | ANone.

Definition state := (settings * heap)%type.

Definition step (s : state) (e : event) : answer * state :=
  let (st, h) := s in
  match e with
  | EQuery i q => let (r, h') := run_query st i q h in (AVal r, (st, h'))
  | EDerive i d kids x => let (r, h') := run_deriv st i d kids x h in (AObj r, (st, h'))
  | ESet st' => (ANone, (st', h))
  | ESeedSymeig i =>
      let (r, h') := (e <- symeig (S i) i true ;;
                      py_add_to_cache (L := obj_lens i) (NStr "symeig") e [] [("eigenvectors", PBool true)]) h in
      (AVal r, (st, h'))
  | EClear i => let (_, h') := py_clear_cache_hook (L := obj_lens i) h in (ANone, (st, h'))
  end.

Fixpoint run (s : state) (es : list event) : list answer * state :=
  match es with
  | [] => ([], s)
  | e :: r => let (a, s1) := step s e in let (l, s2) := run s1 r in (a :: l, s2)
  end.

End Model.
Arguments AVal {K} v.
Arguments AObj {K} j.
Arguments ANone {K}.
Arguments EQuery {K} i q.
Arguments EDerive {K} i d kids res_.
Arguments ESet {K} st.
Arguments ESeedSymeig {K} i.
Arguments EClear {K} i.

(* ------------------------------------------------------------------ what a cache entry claims *)
Fixpoint ends_with (suf s : string) : bool :=
  if String.eqb suf s then true else match s with EmptyString => false | String _ r => ends_with suf r end.

(* the aspects of the object's matrix an entry stored under key k must be a valid answer to
   (keys of other names carry no claim of this property) *)
Definition aspects_of_key (k : key) : list aspect :=
  match k with
  | KName (NStr s) => if String.eqb s "cholesky" then [AChol false; AChol true] else []
  | KName (NFun _) => []
  | KFull (NStr s) a kw =>
      if String.eqb s "cholesky" then
        match bind_params ["upper"] a kw with Ok [u] => [AChol (truthy u)] | _ => [] end
      else if String.eqb s "root_decomposition" then [ARoot]
      else if String.eqb s "root_inv_decomposition" then [ARootInv]
      else if String.eqb s "diagonalization" then [AEig true]
      else if String.eqb s "svd" then [ASvd]
      else if String.eqb s "symeig" then [AEig true]
      else []
  | KFull (NFun f) _ _ => if ends_with "to_dense" f then [ADense] else []
  end.
