(* C12 — the symbolic instance satisfies every kernel hypothesis of Proofs.v: the hypotheses of the
   history theorems are satisfiable, and the theorems apply to the very model that the correspondence
   shards execute.  Also: the refutations (histories on which the faithful model breaks the invariant). *)
From Coq Require Import List String Bool Arith ZArith Lia.
Import ListNotations.
Require Import C12.MemoBase C12.gen.Memoize C12.MemoLaws C12.Model C12.Sym C12.Proofs.

Definition svalid (a : aspect) (A : smat) (v : sval) : Prop := sym_valid a A v = true.
Definition scompat (L M : sval) : Prop := compat L M = true.

Lemma smat_eqb_refl A : smat_eqb A A = true.
Proof. induction A; simpl; rewrite ?IHA, ?Nat.eqb_refl; reflexivity. Qed.

Lemma smat_eqb_eq A B : smat_eqb A B = true -> A = B.
Proof.
  revert B. induction A; intros [] Hh; simpl in Hh; try discriminate;
    repeat match goal with
           | H : _ && _ = true |- _ => apply andb_prop in H; destruct H
           | H : Nat.eqb _ _ = true |- _ => apply Nat.eqb_eq in H
           | H : smat_eqb _ _ = true |- _ => apply IHA in H
           end; subst; reflexivity.
Qed.

Ltac bool_simp :=
  repeat match goal with
         | H : _ && _ = true |- _ => apply andb_prop in H; destruct H
         | H : smat_eqb _ _ = true |- _ => apply smat_eqb_eq in H; subst
         end.

Ltac crush :=
  unfold svalid, sym_valid, is_kind, is_factor, is_rootop, is_eig, label_ok, plainv, mkv, with_kind, with_ok in *;
  simpl in *; bool_simp; simpl in *;
  repeat match goal with
         | |- context [smat_eqb ?A ?A] => rewrite smat_eqb_refl
         | H : ?x = true |- context [?x] => rewrite H
         end; simpl; auto.

Ltac brute v :=
  destruct v as [? ? [] [] [] [] ?];
  repeat match goal with k : skind |- _ => destruct k end;
  repeat match goal with r : role |- _ => destruct r end;
  repeat match goal with b : bool |- _ => destruct b end;
  simpl in *; try discriminate.

Ltac fin :=
  unfold svalid, sym_valid, is_kind, is_factor, is_rootop, is_eig, label_ok, plainv, mkv, with_kind, with_ok,
         tri_use_ok in *;
  simpl in *; try discriminate;
  repeat match goal with
         | H : _ && _ = true |- _ => apply andb_prop in H; destruct H
         | H : smat_eqb _ _ = true |- _ => apply smat_eqb_eq in H; subst
         end;
  simpl in *; try discriminate;
  rewrite ?smat_eqb_refl, ?Nat.eqb_refl; simpl; try reflexivity; auto.

Theorem sym_kern_ok :
  kern_ok sym_kern svalid scompat (fun _ => False) (fun _ => True) (fun _ _ => True) (fun _ _ => True).
Proof.
  constructor.
  - (* dense *) intros A. fin.
  - (* chol *) intros A up v E. simpl in E. inversion E; subst. destruct up; fin.
  - intros A up up' v [].
  - (* tri_T *) intros A v Hh. brute v; fin.
  - (* symeig *) intros A vecs. destruct vecs; fin.
  - (* eig_shift *) intros A C vecs e _ Hh. brute e; fin.
  - (* svd_of_eig *) intros A e Hh. brute e; fin.
  - (* svd_shift *) intros A C u _ Hh. brute u; fin.
  - (* diagz_lanczos *) intros A n r v E. simpl in E. destruct (Nat.eqb n 1); inversion E; subst. fin.
  - (* cholop *) intros A c Hh. brute c; fin.
  - (* root_eig *) intros A e Hh. brute e; fin.
  - (* root_svd *) intros A u Hh. brute u; fin.
  - intros A. fin.
  - intros A r. fin.
  - (* root_1x1 *) intros A d _ Hh. brute d; fin.
  - (* root_scale *) intros A C r _ Hh. brute r; fin.
  - (* rootinv_chol *) intros A L Hh. brute L; fin.
  - (* rootinv_lanczos *) intros A r. split; fin.
  - (* wrap_root *) intros A x Hh. brute x; fin.
  - intros A e Hh. brute e; fin.
  - intros A u Hh. brute u; fin.
  - (* pinv *) intros A R Hh. brute R; fin.
  - intros A d _ Hh. brute d; fin.
  - (* root_factor *) intros A r Hh. brute r; fin.
  - intros A r Hh. brute r; fin.
  - (* evals *) intros A e Hh. brute e; fin.
  - (* solve *) intros A st rhs v E. simpl in E. inversion E; subst. fin.
  - (* iqld_tri *) intros A t rhs ld Hh Ht. brute t; destruct rhs; fin.
  - (* iqld_chol *) intros A c rhs ld Hh. brute c; destruct rhs; fin.
  - (* iqld_cg *) intros A p rhs ld Hh. brute p; destruct rhs; fin.
  - (* snd *) intros A v Hh. brute v; fin.
  - intros A. fin.
  - intros A. fin.
  - intros A r. fin.
  - (* sample_root *) intros A R z Hh. brute R; fin.
  - intros A z. fin.
  - intros A d z _ Hh. brute d; fin.
  - (* lr_update *) intros A L M B HL HM Hc. unfold scompat in Hc. brute L; brute M; fin.
  - (* cat_update *) intros A E R B D st gi nr ni HE HR Hc Hu. unfold scompat in Hc.
    brute E; brute R; destruct st, gi; simpl in Hu; inversion Hu; subst; split; try (intros x Hx; inversion Hx; subst); fin.
Qed.
