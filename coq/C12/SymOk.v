(* C12 — the symbolic instance satisfies every kernel hypothesis of Proofs.v: the hypotheses of the
   history theorems are satisfiable, and the theorems apply to the very model that the correspondence
   shards execute.  Also: the refutations (histories on which the faithful model breaks the invariant). *)
From Coq Require Import List String Bool Arith ZArith Lia.
Import ListNotations.
Require Import C12.MemoBase C12.gen.Memoize C12.MemoLaws C12.Model C12.Sym C12.Proofs.

Definition svalid (a : aspect) (A : smat) (v : sval) : Prop := sym_valid a A v = true.
Definition scompat (L M : sval) : Prop := compat L M = true.

Lemma smat_eqb_refl A : smat_eqb A A = true.
Proof. induction A; simpl; rewrite ?IHA, ?Nat.eqb_refl; reflexivity. Qed.

Lemma smat_eqb_eq A B : smat_eqb A B = true -> A = B.
Proof.
  revert B. induction A; intros [] Hh; simpl in Hh; try discriminate;
    repeat match goal with
           | H : _ && _ = true |- _ => apply andb_prop in H; destruct H
           | H : Nat.eqb _ _ = true |- _ => apply Nat.eqb_eq in H
           | H : smat_eqb _ _ = true |- _ => apply IHA in H
           end; subst; reflexivity.
Qed.

Ltac bool_simp :=
  repeat match goal with
         | H : _ && _ = true |- _ => apply andb_prop in H; destruct H
         | H : smat_eqb _ _ = true |- _ => apply smat_eqb_eq in H; subst
         end.

Ltac crush :=
  unfold svalid, sym_valid, is_kind, is_factor, is_rootop, is_eig, label_ok, plainv, mkv, mkv8, with_kind, with_ok in *;
  simpl in *; bool_simp; simpl in *;
  repeat match goal with
         | |- context [smat_eqb ?A ?A] => rewrite smat_eqb_refl
         | H : ?x = true |- context [?x] => rewrite H
         end; simpl; auto.

Ltac brute v :=
  destruct v as [? ? [] [] [] [] ? []];
  repeat match goal with k : skind |- _ => destruct k end;
  repeat match goal with r : role |- _ => destruct r end;
  repeat match goal with b : bool |- _ => destruct b end;
  simpl in *; try discriminate.

Ltac fin :=
  unfold svalid, sym_valid, is_kind, is_factor, is_rootop, is_eig, label_ok, plainv, mkv, mkv8, with_kind, with_ok,
         tri_use_ok in *;
  simpl in *; try discriminate;
  repeat match goal with
         | H : _ && _ = true |- _ => apply andb_prop in H; destruct H
         | H : smat_eqb _ _ = true |- _ => apply smat_eqb_eq in H; subst
         end;
  simpl in *; try discriminate;
  rewrite ?smat_eqb_refl, ?Nat.eqb_refl; simpl; try reflexivity; auto.

Lemma skind_eqb_eq a b : skind_eqb a b = true -> a = b.
Proof.
  destruct a, b; simpl; try discriminate; intros Hh; try reflexivity;
    repeat match goal with
           | H : _ && _ = true |- _ => apply andb_prop in H; destruct H
           | H : Nat.eqb _ _ = true |- _ => apply Nat.eqb_eq in H; subst
           | H : Bool.eqb _ _ = true |- _ => apply Bool.eqb_prop in H; subst
           | H : role_eqb ?r ?r' = true |- _ => destruct r, r'; try discriminate; clear H
           | H : onat_eqb ?x ?y = true |- _ => destruct x, y; simpl in H; try discriminate
           end; reflexivity.
Qed.

(* every factor's result satisfies the per-element test of the Kronecker kernels *)
Lemma all_b_of_Forall2 (a : aspect) (f : sval -> bool) ms vs :
  (forall m v, svalid a m v -> f v = true) -> Forall2 (svalid a) ms vs -> all_b f vs = true.
Proof.
  intros Hf F. unfold all_b. induction F as [|m v ms vs Hv F IH]; simpl; [reflexivity|].
  rewrite (Hf m v Hv), IH. reflexivity.
Qed.

Theorem sym_kern_ok :
  kern_ok sym_kern svalid scompat (fun _ => False) (fun _ => True) (fun _ _ => True) (fun _ _ => True) (fun _ _ => True).
Proof.
  constructor.
  - (* dense *) intros A. fin.
  - (* chol *) intros A up v E. simpl in E. inversion E; subst. destruct up; fin.
  - intros A up up' v [].
  - (* tri_T *) intros A v Hh. brute v; fin.
  - (* symeig *) intros A vecs. destruct vecs; fin.
  - (* eig_shift *) intros A C vecs e _ Hh. brute e; fin.
  - (* svd_of_eig *) intros A e Hh. brute e; fin.
  - (* svd_shift *) intros A C u _ Hh. brute u; fin.
  - (* diagz_lanczos *) intros A n r v E. simpl in E. inversion E; subst. fin.
  - (* cholop *) intros A c Hh. brute c; fin.
  - (* root_eig *) intros A e Hh. brute e; fin.
  - (* root_svd *) intros A u Hh. brute u; fin.
  - intros A. fin.
  - intros A r. fin.
  - (* root_1x1 *) intros A d _ Hh. brute d; fin.
  - (* root_scale *) intros A C r _ Hh. brute r; fin.
  - (* rootinv_chol *) intros A L Hh. brute L; fin.
  - (* rootinv_lanczos *) intros A r. split; fin.
  - (* wrap_root *) intros A x Hh. brute x; fin.
  - intros A e Hh. brute e; fin.
  - intros A u Hh. brute u; fin.
  - (* pinv *) intros A R Hh. brute R; fin.
  - intros A d _ Hh. brute d; fin.
  - (* root_factor *) intros A r Hh. brute r; fin.
  - intros A r Hh. brute r; fin.
  - (* evals *) intros A e vecs Hh. brute e; fin.
  - (* solve *) intros A st rhs v E. simpl in E. inversion E; subst. fin.
  - (* iqld_tri *) intros A t rhs ld Hh Ht. brute t; destruct rhs; fin.
  - (* iqld_chol *) intros A c rhs ld Hh. brute c; destruct rhs; fin.
  - (* iqld_cg *) intros A p rhs ld Hh. brute p; destruct rhs; fin.
  - (* snd *) intros A v Hh. brute v; fin.
  - intros A. fin.
  - intros A. fin.
  - intros A r. fin.
  - (* sample_root *) intros A R z Hh. brute R; fin.
  - intros A z. fin.
  - intros A d z _ Hh. brute d; fin.
  - (* lr_update *) intros A L M B HL HM Hc. unfold scompat in Hc.
    unfold svalid, sym_valid in HL, HM.
    repeat match goal with H : _ && _ = true |- _ => apply andb_prop in H; destruct H end.
    repeat match goal with H : smat_eqb _ _ = true |- _ => apply smat_eqb_eq in H end.
    unfold svalid, sym_valid. simpl.
    repeat match goal with H : ?x = true |- _ => rewrite H end.
    repeat match goal with H : sv_of _ = _ |- _ => rewrite H end.
    rewrite ?smat_eqb_refl, ?Nat.eqb_refl. simpl. split; reflexivity.
  - (* cat_update *) intros A E R B D st gi nr ni HE HR Hc Hu. unfold scompat in Hc.
    unfold svalid, sym_valid in HE, HR.
    repeat match goal with H : _ && _ = true |- _ => apply andb_prop in H; destruct H end.
    repeat match goal with H : smat_eqb _ _ = true |- _ => apply smat_eqb_eq in H end.
    unfold label_ok in *.
    simpl in Hu.
    repeat match goal with H : ?x = true |- _ => rewrite H in Hu end.
    repeat match goal with H : sv_of _ = _ |- _ => rewrite H in Hu end.
    simpl in Hu.
    destruct gi; [destruct (sv_inst E) eqn:Ei; destruct (sv_tri E) eqn:Et; destruct st; simpl in Hu;
                  try (destruct (sv_upper E) eqn:Eu; [discriminate|])|];
      inversion Hu; subst; unfold svalid, sym_valid; simpl; rewrite ?smat_eqb_refl, ?Nat.eqb_refl; simpl;
      (split; [|intros x Hx; inversion Hx; subst; simpl; rewrite ?smat_eqb_refl, ?Nat.eqb_refl; simpl]);
      unfold label_ok; simpl;
      repeat match goal with H : negb _ || _ = true |- _ => simpl in H end; auto.
    all: try (destruct (sv_tri_ok E); simpl in *; auto; discriminate).
  - (* eig_kron *) intros A ms vecs es _ F. unfold svalid, sym_valid. simpl.
    rewrite (all_b_of_Forall2 (AEig vecs) _ ms es);
      [rewrite smat_eqb_refl; unfold is_kind; simpl; rewrite Bool.eqb_reflx; reflexivity
      | intros m v Hv; brute v; fin | exact F].
  - (* svd_kron *) intros A ms us _ F. unfold svalid, sym_valid. simpl.
    rewrite (all_b_of_Forall2 ASvd _ ms us);
      [rewrite smat_eqb_refl; reflexivity | intros m v Hv; brute v; fin | exact F].
  - (* chol_kron *) intros A ms up inst cs _ F. unfold svalid, sym_valid. simpl.
    rewrite (all_b_of_Forall2 (AChol up) _ ms cs);
      [rewrite smat_eqb_refl; unfold is_factor; simpl; destruct up; reflexivity
      | intros m v Hv; brute v; fin | exact F].
  - (* root_kron *) intros A ms rs _ F. unfold svalid, sym_valid. simpl.
    rewrite (all_b_of_Forall2 ARoot _ ms rs);
      [rewrite smat_eqb_refl; reflexivity | intros m v Hv; brute v; fin | exact F].
  - (* rootinv_kron *) intros A ms rs _ F. unfold svalid, sym_valid. simpl.
    rewrite (all_b_of_Forall2 ARootInv _ ms rs);
      [rewrite smat_eqb_refl; reflexivity | intros m v Hv; brute v; fin | exact F].
  - (* iqld_kron *) intros A rhs ld iq e Hiq He. unfold svalid, sym_valid in *.
    destruct rhs as [r|], iq as [x|]; try contradiction; destruct ld, e as [e'|]; try contradiction;
      cbn [k_iqld_kron sym_kern plainv mkv mkv8 sv_ok sv_of sv_kind]; unfold is_kind, is_eig, iqld_rhs in *;
      cbn [sv_kind] in *;
      repeat match goal with
             | H : _ && _ = true |- _ => apply andb_prop in H; destruct H
             | H : skind_eqb _ _ = true |- _ => apply skind_eqb_eq in H
             end;
      repeat match goal with
             | H : sv_kind _ = _ |- _ => rewrite H
             | H : sv_ok _ = true |- _ => rewrite H
             | H : smat_eqb _ _ = true |- _ => rewrite H
             end;
      rewrite ?smat_eqb_refl; cbn [plainv mkv mkv8 sv_kind sv_ok andb skind_eqb onat_eqb Bool.eqb]; rewrite ?Nat.eqb_refl; reflexivity.
  - (* deleg_lift *) intros A C x _ Hh. brute x; fin.
  - (* iqld_deleg *) intros A C rhs ld r _ Hh. unfold svalid, sym_valid in *.
    apply andb_prop in Hh. destruct Hh as (H1 & H2). apply andb_prop in H1. destruct H1 as (Hok & Hof).
    unfold is_kind in H2. apply skind_eqb_eq in H2.
    cbn [k_iqld_deleg sym_kern plainv mkv mkv8 sv_ok sv_of sv_kind]. rewrite H2, Hok, smat_eqb_refl. unfold is_kind.
    cbn [plainv mkv mkv8 sv_kind andb skind_eqb]. destruct rhs; cbn [onat_eqb]; rewrite ?Nat.eqb_refl, ?Bool.eqb_reflx; reflexivity.
  - (* sample_deleg *) intros A C z v _ Hh. unfold svalid, sym_valid in *.
    apply andb_prop in Hh. destruct Hh as (H1 & H2). apply andb_prop in H1. destruct H1 as (Hok & Hof).
    unfold is_kind in H2. apply skind_eqb_eq in H2.
    cbn [k_sample_deleg sym_kern plainv mkv mkv8 sv_ok sv_of sv_kind]. rewrite H2, Hok, smat_eqb_refl. unfold is_kind.
    cbn [plainv mkv mkv8 sv_kind andb skind_eqb]. rewrite Nat.eqb_refl. reflexivity.
Qed.

(* ------------------------------------------------------------------ instances of the history predicates *)
Notation sInv := (Inv sym_kern svalid (fun _ => False) (fun _ => True) (fun _ _ => True) (fun _ _ => True) (fun _ _ => True)).
Notation sgood := (good_run sym_kern fl_pinned scompat (fun _ => False) (fun _ => True) (fun _ _ => True) (fun _ _ => True) (fun _ _ => True)).
Notation sanswers := (answers_ok sym_kern fl_pinned svalid).
Notation sevent_ok := (event_ok sym_kern fl_pinned scompat (fun _ => False) (fun _ => True) (fun _ _ => True) (fun _ _ => True) (fun _ _ => True)).

Definition dense_obj (n k : nat) : obj sym_kern := Build_obj sym_kern pf_plain n true (SBase k) None None.
Definition dense_new (n : nat) : newobj sym_kern := Build_newobj sym_kern pf_plain n true (SBase 99).
Definition heap1 : heap sym_kern := Build_heap sym_kern [dense_obj 4 0] 0.
Definition st_lanczos : settings :=
  {| st_max_chol := 0; st_fc_root := true; st_fc_logprob := true; st_fc_solves := true; st_ciq := false;
     st_precond_size := 15; st_min_precond := 2000 |}.

Lemma heap1_inv : sInv heap1.
Proof.
  apply Inv_fresh. intros [|i] o G; [|destruct i; discriminate]. inversion G; subst. simpl.
  repeat split; try discriminate; auto.
Qed.

(* the object-level state after a history, for statements about it *)
Definition final (es : list (event sym_kern)) : heap sym_kern := snd (snd (run sym_kern fl_pinned (st_default, heap1) es)).
Definition entries_bad (h : heap sym_kern) : list (nat * nat) :=
  (fix go (os : list (obj sym_kern)) (i : nat) : list (nat * nat) :=
     match os with
     | [] => []
     | o :: r =>
         (fix pos (d : list (key * sval)) (p : nat) : list (nat * nat) :=
            match d with
            | [] => []
            | kv :: d' => if forallb (fun a => sym_valid a (o_mat sym_kern o) (snd kv)) (aspects_of_key (fst kv))
                          then pos d' (S p) else (i, p) :: pos d' (S p)
            end) (dict_of (o_memo sym_kern o)) 0 ++ go r (S i)
     end) (h_objs sym_kern h) 0.

(* 1. add_low_rank with default methods on a small matrix: the Cholesky root of A is triangular, the update
      L U S~ is wrapped in TriangularLinearOperator: the entry transplanted onto the new operator is invalid,
      and logdet() of the new operator - which takes the triangular-root shortcut - is wrong *)
Definition hist_label : list (event sym_kern) :=
  [EDerive 0 (DAddLowRank 0 PNone PNone true) [] (dense_new 4); EQuery 1 QLogdet].

Theorem add_low_rank_label_refuted :
  ~ sInv (final hist_label) /\ ~ sanswers (st_default, heap1) hist_label /\
  entries_bad (final hist_label) = [(1, 0); (1, 1)].
Proof.
  split; [|split].
  - intros I. assert (G : get_obj sym_kern 1 (final hist_label) = Some (nth 1 (h_objs sym_kern (final hist_label)) (dense_obj 0 0)))
      by (vm_compute; reflexivity).
    destruct (I 1 _ G) as (Mo & _).
    assert (Hin : In (KFull (NStr "root_decomposition") [] [],
                      snd (nth 0 (dict_of (o_memo sym_kern (nth 1 (h_objs sym_kern (final hist_label)) (dense_obj 0 0))))
                               (KName (NStr ""), k_dense sym_kern (SBase 0))))
                     (dict_of (o_memo sym_kern (nth 1 (h_objs sym_kern (final hist_label)) (dense_obj 0 0)))))
      by (vm_compute; left; reflexivity).
    specialize (Mo _ _ Hin ARoot (or_introl eq_refl)). vm_compute in Mo. discriminate.
  - intros (_ & A2 & _).
    assert (G : get_obj sym_kern 1 (snd (snd (step sym_kern fl_pinned (st_default, heap1) (nth 0 hist_label (ESet st_default)))))
                = Some (nth 1 (h_objs sym_kern (snd (snd (step sym_kern fl_pinned (st_default, heap1) (nth 0 hist_label (ESet st_default))))))
                            (dense_obj 0 0)))
      by (vm_compute; reflexivity).
    specialize (A2 _ G). vm_compute in A2. discriminate.
  - vm_compute. reflexivity.
Qed.

(* 2. root and inverse root from different factorizations (symeig / cholesky): both individually valid,
      L M^T <> I, the transplanted root is invalid *)
Definition hist_methods : list (event sym_kern) :=
  [EDerive 0 (DAddLowRank 1 (PStr "symeig") (PStr "cholesky") true) [] (dense_new 4)].

Theorem add_low_rank_methods_refuted :
  entries_bad (final hist_methods) = [(1, 0)] /\
  entries_bad (snd (snd (run sym_kern fl_pinned (st_default, heap1)
     [EQuery 0 (QRootDecomp [] [("method", PStr "symeig")]); EQuery 0 (QRootInv [] [("method", PStr "cholesky")])]))) = [].
Proof. split; vm_compute; reflexivity. Qed.

(* 3. cat_rows with a root cached under Cholesky and an inverse root computed after max_cholesky_size(0)
      (Lanczos): E R^T <> I, both transplanted factors are invalid *)
Definition hist_cat : list (event sym_kern) :=
  [EQuery 0 (QRootDecomp [] []); ESet st_lanczos; EDerive 0 (DCatRows 0 0 1 true true) [] (dense_new 5)].

Theorem cat_rows_settings_refuted : entries_bad (final hist_cat) = [(1, 0); (1, 1)].
Proof. vm_compute. reflexivity. Qed.

(* 4. eigh() after a ("symeig", eigenvectors=True) entry: the entry is popped, the eigenvectors are dropped *)
Definition hist_eigh : list (event sym_kern) := [ESeedSymeig 0; EQuery 0 QEigh; EQuery 0 QEigh].

Theorem eigh_after_cached_symeig_refuted :
  map (fun a : answer sym_kern => match a with AVal (Ok v) => sym_valid (AEig true) (SBase 0) v | _ => true end)
      (fst (run sym_kern fl_pinned (st_default, heap1) hist_eigh)) = [true; false; true]
  /\ map (fun o => d_keys (dict_of (o_memo sym_kern o))) (h_objs sym_kern (final [ESeedSymeig 0; EQuery 0 QEigh])) = [[]]
  /\ ~ sanswers (st_default, heap1) hist_eigh.
Proof.
  split; [vm_compute; reflexivity|]. split; [vm_compute; reflexivity|].
  intros (_ & A2 & _).
  assert (G : get_obj sym_kern 0 (snd (snd (step sym_kern fl_pinned (st_default, heap1) (ESeedSymeig 0))))
              = Some (nth 0 (h_objs sym_kern (snd (snd (step sym_kern fl_pinned (st_default, heap1) (ESeedSymeig 0))))) (dense_obj 0 0)))
    by (vm_compute; reflexivity).
  specialize (A2 _ G). vm_compute in A2. discriminate.
Qed.

(* 5. the hypotheses of the history theorem are satisfiable on a non-trivial history: a root from symeig, an
      add_low_rank with MATCHING methods (compatible, not triangular), queries on the new operator under switched
      settings, a cat_rows whose roots come from one Lanczos run *)
Definition hist_good : list (event sym_kern) :=
  [EQuery 0 (QRootDecomp [] [("method", PStr "symeig")]);
   EDerive 0 (DAddLowRank 0 (PStr "symeig") (PStr "symeig") true) [] (dense_new 4);
   EQuery 1 QLogdet; EQuery 1 (QRootDecomp [] []); EQuery 1 (QIqld 0 true);
   ESet st_lanczos;
   EQuery 0 (QRootInv [] []); EQuery 0 (QSample 0); EQuery 1 QEigh;
   EDerive 0 (DCatRows 0 0 2 true true) [] (dense_new 6);
   EQuery 2 (QRootDecomp [] []); EQuery 2 (QCholesky [] [("upper", PBool true)])].

(* ---- a decision procedure for the side conditions of the history theorem on the symbolic instance *)
Notation swf := (obj_wf sym_kern (fun _ => False) (fun _ => True) (fun _ _ => True) (fun _ _ => True) (fun _ _ => True)).

Definition obj_wfb (h : heap sym_kern) (o : obj sym_kern) : bool :=
  (match pf_eig (o_pf sym_kern o) with
   | EigShift c => c <? List.length (h_objs sym_kern h)
   | EigBase => true
   | EigKron l => forallb (fun c => c <? List.length (h_objs sym_kern h)) l
   end) &&
  (match pf_cm_root (o_pf sym_kern o) with Some c => c <? List.length (h_objs sym_kern h) | None => true end) &&
  negb (pf_chol_ignore (o_pf sym_kern o)) &&
  (match pf_td_name (o_pf sym_kern o) with Some f => ends_with "to_dense" f | None => true end).

Lemma get_some_lt i (h : heap sym_kern) : i <? List.length (h_objs sym_kern h) = true -> exists o, get sym_kern i h = Some o.
Proof.
  intros Hl. apply Nat.ltb_lt in Hl. unfold get, get_obj.
  destruct (nth_error (h_objs sym_kern h) i) eqn:E; eauto. apply nth_error_None in E. lia.
Qed.

Lemma kids_exist (h : heap sym_kern) l : forallb (fun c => c <? List.length (h_objs sym_kern h)) l = true ->
  exists ms, Forall2 (fun c m => exists oc, get sym_kern c h = Some oc /\ o_mat sym_kern oc = m) l ms.
Proof.
  induction l as [|c r IH]; simpl; intros Hb.
  - exists []. constructor.
  - apply andb_prop in Hb. destruct Hb as (Hc & Hr). destruct (IH Hr) as (ms & F).
    destruct (get_some_lt _ _ Hc) as (oc & G). exists (o_mat sym_kern oc :: ms). constructor; eauto.
Qed.

Lemma obj_wfb_ok h o : obj_wfb h o = true -> swf h o.
Proof.
  unfold obj_wfb. intros Hb. repeat (apply andb_prop in Hb; destruct Hb as [Hb ?]).
  repeat split.
  - intros c Ec. rewrite Ec in Hb. destruct (get_some_lt _ _ Hb) as (oc & G). eauto.
  - intros c Ec. rewrite Ec in H1. destruct (get_some_lt _ _ H1) as (oc & G). eauto.
  - intros Hig. rewrite Hig in H0. discriminate.
  - intros f Ef. rewrite Ef in H. exact H.
  - intros l El. rewrite El in Hb. destruct (kids_exist _ _ Hb) as (ms & F). exists ms. split; [exact F | exact Logic.I].
Qed.

Fixpoint allocs_wfb (h : heap sym_kern) (l : list (obj sym_kern)) : bool :=
  match l with
  | [] => true
  | x :: r => (match o_memo sym_kern x with None => true | Some _ => false end) &&
              (match o_adhoc sym_kern x with None => true | Some _ => false end) &&
              obj_wfb h x && allocs_wfb (happ sym_kern h [x]) r
  end.

Lemma allocs_wfb_ok l : forall h, allocs_wfb h l = true ->
  allocs_wf sym_kern (fun _ => False) (fun _ => True) (fun _ _ => True) (fun _ _ => True) (fun _ _ => True) h l.
Proof.
  induction l as [|x r IH]; intros h Hb; simpl in *; auto.
  repeat (apply andb_prop in Hb; destruct Hb as [Hb ?]).
  destruct (o_memo sym_kern x); [discriminate|]. destruct (o_adhoc sym_kern x); [discriminate|].
  split; [reflexivity|]. split; [reflexivity|]. split; [apply obj_wfb_ok; assumption | apply IH; assumption].
Qed.

Definition symeig_key : key := KFull (NStr "symeig") [] [("eigenvectors", PBool true)].

Definition transplant_okb (d : deriv) (x : nat * option (Val sym_kern * Val sym_kern)) : bool :=
  match snd x, d with
  | Some (L, Mi), DAddLowRank _ _ _ _ => compat (v_root sym_kern L) (v_root sym_kern Mi) && negb (v_is_tri sym_kern (v_root sym_kern L))
  | Some (E, R), DCatRows _ _ _ _ _ => compat (v_root sym_kern E) (v_root sym_kern R)
  | _, _ => true
  end.

Definition event_okb (s : state sym_kern) (e : event sym_kern) : bool :=
  let (st, h) := s in
  let ex i := i <? List.length (h_objs sym_kern h) in
  match e with
  | EQuery i q =>
      ex i && match q with
              | QEigh | QEigvalsh =>
                  match get_obj sym_kern i h with
                  | Some o => negb (d_mem (dict_of (o_memo sym_kern o)) symeig_key)
                  | None => true
                  end
              | _ => true
              end
  | EDerive i d kids res_ =>
      ex i &&
      match get_obj sym_kern i h with
      | Some o => allocs_wfb h (map (fun x => mk_obj sym_kern x (no_mat sym_kern x)) kids ++
                                [mk_obj sym_kern res_ (deriv_mat sym_kern d (o_mat sym_kern o))])
      | None => true
      end &&
      match fst (deriv_roots sym_kern fl_pinned st i d kids res_ h) with
      | Ok x => transplant_okb d x
      | Raise _ => true
      end
  | ESeedSymeig i | EClear i => ex i
  | ESet _ => true
  end.

Lemma no_symeig_b i (h : heap sym_kern) :
  match get_obj sym_kern i h with
  | Some o => negb (d_mem (dict_of (o_memo sym_kern o)) symeig_key)
  | None => true
  end = true -> no_symeig sym_kern i h.
Proof.
  intros Hb o G. unfold get in G. rewrite G in Hb. unfold d_mem in Hb. fold symeig_key.
  remember (d_get (dict_of (o_memo sym_kern o)) symeig_key) as x. destruct x; [discriminate | reflexivity].
Qed.

Lemma transplant_b_ok d (r : res (nat * option (Val sym_kern * Val sym_kern))) :
  match r with Ok x => transplant_okb d x | Raise _ => true end = true ->
  res_ok r (transplant_ok sym_kern fl_pinned scompat d).
Proof.
  destruct r as [x|ex]; simpl; [|auto]. intros Ht.
  unfold transplant_ok, transplant_okb, scompat in *. destruct (snd x) as [[L Mi]|]; [|exact I].
  destruct d; auto. apply andb_prop in Ht. destruct Ht as [Hc Htri]. split; [exact Hc|].
  destruct (v_is_tri sym_kern (v_root sym_kern L)); [discriminate | reflexivity].
Qed.

Lemma event_okb_ok s e : event_okb s e = true -> sevent_ok s e.
Proof.
  destruct s as [st h]. destruct e as [i q|i d kids res_|st'|i|i]; simpl; intros Hb.
  - apply andb_prop in Hb. destruct Hb as [Hex Hq]. split; [apply get_some_lt; exact Hex|].
    destruct q; simpl; try exact I; intros _; apply no_symeig_b; exact Hq.
  - apply andb_prop in Hb. destruct Hb as [Hb Ht]. apply andb_prop in Hb. destruct Hb as [Hex Hn].
    split; [apply get_some_lt; exact Hex|]. split.
    + intros o G. unfold get in G. rewrite G in Hn. apply allocs_wfb_ok. exact Hn.
    + apply transplant_b_ok. exact Ht.
  - exact I.
  - apply get_some_lt. exact Hb.
  - apply get_some_lt. exact Hb.
Qed.

Fixpoint good_runb (s : state sym_kern) (es : list (event sym_kern)) : bool :=
  match es with
  | [] => true
  | e :: r => event_okb s e && good_runb (snd (step sym_kern fl_pinned s e)) r
  end.

Lemma good_runb_ok es : forall s, good_runb s es = true -> sgood s es.
Proof.
  induction es as [|e r IH]; intros s Hb; simpl in *; auto.
  apply andb_prop in Hb. destruct Hb as [He Hr]. split; [apply event_okb_ok; exact He | apply IH; exact Hr].
Qed.

Example hist_good_ok : sgood (st_default, heap1) hist_good.
Proof. apply good_runb_ok. vm_compute. reflexivity. Qed.

(* and the refuted histories are exactly those whose transplant / eigh side condition fails *)
Example refuted_histories_violate_the_side_condition :
  good_runb (st_default, heap1) hist_label = false /\ good_runb (st_default, heap1) hist_methods = false /\
  good_runb (st_default, heap1) hist_cat = false /\ good_runb (st_default, heap1) hist_eigh = false.
Proof. repeat split; vm_compute; reflexivity. Qed.

Example hist_good_answers : sInv (final hist_good) /\ sanswers (st_default, heap1) hist_good.
Proof.
  destruct (history_invariant_gen sym_kern fl_pinned svalid scompat _ _ _ _ _ sym_kern_ok hist_good (st_default, heap1) heap1_inv hist_good_ok)
    as (I & _ & A). split; assumption.
Qed.

(* ------------------------------------------------------------------ a Kronecker product in the heap
   objects 0, 1: the dense 2 x 2 factors; object 2: KroneckerProductLinearOperator(0, 1), 4 x 4.  The hypotheses of the
   history theorem are satisfiable on it too: queries under the default settings (the overridden cached methods
   delegate to the base class: nested cache entries), then with max_cholesky_size(0) (they delegate to the factors:
   the factors' caches are written), a derived operator, an add_low_rank whose roots are compatible factor by factor *)
Definition pf_kron (l : list nat) : profile :=
  {| pf_td_name := Some "LinearOperator.to_dense"; pf_td_kids := []; pf_chol_ignore := false; pf_eig := EigKron l;
     pf_cm_root := None; pf_precond := false; pf_sum := false; pf_iqld_to := false; pf_deleg := None;
     pf_iqld_norhs_raises := false; pf_iqld_nologdet_raises := false; pf_lanczos_1x1_raises := true |}.
Definition heap_kron : heap sym_kern :=
  Build_heap sym_kern [dense_obj 2 10; dense_obj 2 11; Build_obj sym_kern (pf_kron [0; 1]) 4 true (SBase 12) None None] 0.
Definition hist_kron : list (event sym_kern) :=
  [EQuery 2 (QRootDecomp [] []); EQuery 2 (QRootInv [] [("method", PStr "symeig")]);
   EQuery 2 (QCholesky [] [("upper", PBool true)]); EQuery 2 (QIqld 0 true); EQuery 2 QLogdet;
   ESet st_lanczos;
   EQuery 2 (QRootInv [] []); EQuery 2 (QRootDecomp [] [("method", PStr "symeig")]); EQuery 2 QSvd; EQuery 2 QEigh;
   EQuery 2 (QSample 0); EQuery 0 (QCholesky [] []);
   ESet st_default;
   EDerive 2 (DAddLowRank 0 (PStr "cholesky") (PStr "cholesky") true) [] (dense_new 4); EQuery 3 QLogdet].

Lemma heap_kron_inv : sInv heap_kron.
Proof.
  apply Inv_fresh. intros i o G.
  destruct i as [|[|[|i]]]; simpl in G; try (destruct i; discriminate); inversion G; subst;
    (split; [reflexivity | split; [reflexivity | apply obj_wfb_ok; vm_compute; reflexivity]]).
Qed.

Example hist_kron_ok : sgood (st_default, heap_kron) hist_kron.
Proof. apply good_runb_ok. vm_compute. reflexivity. Qed.

(* the nested cache entries of the override: root_decomposition() on the product under the default settings leaves
   the Cholesky factor, the entry of the BASE method (keyed by method=None) and the entry of the override (no
   arguments) on the product, and the Cholesky factor on each factor; with max_cholesky_size(0) the factors' own
   root_decomposition caches are written instead *)
Example kron_nested_cache_entries :
  map (fun o => d_keys (dict_of (o_memo sym_kern o)))
      (h_objs sym_kern (snd (snd (run sym_kern fl_pinned (st_default, heap_kron) [EQuery 2 (QRootDecomp [] [])]))))
  = [[KFull (NStr "cholesky") [] [("upper", PBool false)]];
     [KFull (NStr "cholesky") [] [("upper", PBool false)]];
     [KFull (NStr "cholesky") [] [("upper", PBool false)];
      KFull (NStr "root_decomposition") [] [("method", PNone)];
      KFull (NStr "root_decomposition") [] []]]
  /\ map (fun o => d_keys (dict_of (o_memo sym_kern o)))
      (h_objs sym_kern (snd (snd (run sym_kern fl_pinned (st_lanczos, heap_kron) [EQuery 2 (QRootDecomp [] [])]))))
  = [[KFull (NStr "root_decomposition") [] [("method", PNone)]];
     [KFull (NStr "root_decomposition") [] [("method", PNone)]];
     [KFull (NStr "root_decomposition") [] []]].
Proof. split; vm_compute; reflexivity. Qed.

(* ------------------------------------------------------------------ a delegating class in the heap
   object 0: a batch of dense blocks; object 1: BlockDiagLinearOperator(0).  Queries on the block-diagonal operator
   write the BASE operator's caches (Cholesky factor through logdet, the Lanczos by-product root through
   root_inv_decomposition(method="lanczos"), the sampling root through zero_mean_mvn_samples); the base operator is
   then queried itself, and both under a second settings regime *)
Definition pf_blockdiag (c : nat) : profile :=
  {| pf_td_name := Some "LinearOperator.to_dense"; pf_td_kids := []; pf_chol_ignore := false; pf_eig := EigKron [c];
     pf_cm_root := None; pf_precond := false; pf_sum := false; pf_iqld_to := false; pf_deleg := Some true;
     pf_iqld_norhs_raises := true; pf_iqld_nologdet_raises := true; pf_lanczos_1x1_raises := true |}.
Definition heap_block : heap sym_kern :=
  Build_heap sym_kern [dense_obj 2 20; Build_obj sym_kern (pf_blockdiag 0) 4 true (SBase 21) None None] 0.
Definition hist_block : list (event sym_kern) :=
  [EQuery 1 QLogdet; EQuery 1 (QRootInv [] [("method", PStr "lanczos")]); EQuery 1 (QSample 0); EQuery 1 QSvd;
   EQuery 0 (QRootDecomp [] []); EQuery 0 (QCholesky [] [("upper", PBool true)]);
   ESet st_lanczos;
   EQuery 1 (QIqld 0 true); EQuery 1 (QRootDecomp [] []); EQuery 1 QEigh; EQuery 0 QLogdet].

Lemma heap_block_inv : sInv heap_block.
Proof.
  apply Inv_fresh. intros i o G.
  destruct i as [|[|i]]; simpl in G; try (destruct i; discriminate); inversion G; subst;
    (split; [reflexivity | split; [reflexivity | apply obj_wfb_ok; vm_compute; reflexivity]]).
Qed.

Example hist_block_ok : sgood (st_default, heap_block) hist_block.
Proof. apply good_runb_ok. vm_compute. reflexivity. Qed.

(* what the queries on the block-diagonal operator leave in the two caches (as on the real objects) *)
Example block_writes_base_caches :
  map (fun o => d_keys (dict_of (o_memo sym_kern o)))
      (h_objs sym_kern (snd (snd (run sym_kern fl_pinned (st_default, heap_block)
         [EQuery 1 QLogdet; EQuery 1 (QRootInv [] [("method", PStr "lanczos")])]))))
  = [[KFull (NStr "cholesky") [] [("upper", PBool false)]; KFull (NStr "root_decomposition") [] []];
     [KFull (NStr "root_inv_decomposition") [] [("method", PStr "lanczos")]]].
Proof. vm_compute. reflexivity. Qed.
