(* C12 — executable comparator used by the correspondence shards (gen/cases_*.v):
   runs the model (symbolic instance) on a history and compares, after every event, with what the
   real objects did: raised or not, the ordered key list of every object's _memoize_cache, the
   validity of the answer (decided by the harness oracle against a fresh clone / the dense matrix),
   and which cache entries the oracle found invalid. *)
From Coq Require Import List String Bool Arith ZArith.
Import ListNotations.
Require Import C12.MemoBase C12.gen.Memoize C12.MemoLaws C12.Model C12.Sym C12.gen.SourceFlags.

Definition K := sym_kern.
Definition sheap := heap K.
Definition sstate := state K.

Record expect := {
  x_raised : bool;                    (* the call raised *)
  x_valid : bool;                     (* the oracle accepted the answer (true when there is no answer) *)
  x_keys : list (list key);           (* keys of every object, heap order, insertion order *)
  x_bad : list (nat * nat)            (* (object, position in its key list) of entries the oracle rejected *)
}.

Fixpoint keys_eqb (a b : list key) : bool :=
  match a, b with [], [] => true | x :: r, y :: s => key_eqb x y && keys_eqb r s | _, _ => false end.
Fixpoint keyss_eqb (a b : list (list key)) : bool :=
  match a, b with [], [] => true | x :: r, y :: s => keys_eqb x y && keyss_eqb r s | _, _ => false end.

Definition keys_of (h : sheap) : list (list key) := map (fun o => d_keys (dict_of (o_memo K o))) (h_objs K h).

Definition entry_valid (A : smat) (kv : key * sval) : bool :=
  forallb (fun a => sym_valid a A (snd kv)) (aspects_of_key (fst kv)).

Fixpoint bad_positions (A : smat) (d : list (key * sval)) (p : nat) : list nat :=
  match d with [] => [] | kv :: r => if entry_valid A kv then bad_positions A r (S p) else p :: bad_positions A r (S p) end.
(* the out-of-dict preconditioner cache (_q_cache & co) is reported at position 999 *)
Definition adhoc_pos : nat := 999.
Definition bad_adhoc (o : obj K) : list nat :=
  match o_adhoc K o with
  | Some (_, p) => if sym_valid APrecond (o_mat K o) p then [] else [adhoc_pos]
  | None => []
  end.
Fixpoint bad_entries (os : list (obj K)) (i : nat) : list (nat * nat) :=
  match os with
  | [] => []
  | o :: r => map (fun p => (i, p)) (bad_positions (o_mat K o) (dict_of (o_memo K o)) 0 ++ bad_adhoc o) ++ bad_entries r (S i)
  end.
Definition pair_eqb (a b : nat * nat) : bool := Nat.eqb (fst a) (fst b) && Nat.eqb (snd a) (snd b).
Definition subset (a b : list (nat * nat)) : bool := forallb (fun x => existsb (pair_eqb x) b) a.

Definition mat_of (h : sheap) (i : nat) : smat :=
  match get_obj K i h with Some o => o_mat K o | None => SBase 0 end.

(* 0 agree | 1 keys differ | 2 raised-or-not differs | 3 model: answer valid, oracle: invalid
   | 4 model: invalid, oracle: valid (soft: a known defect that was repaired)
   | 5 oracle rejects an entry the model holds valid | 6 model holds an entry invalid, oracle accepts (soft) *)
Definition step_code (s : sstate) (e : event K) (x : expect) : nat * sstate :=
  let (a, s') := step K flags s e in
  let h' := snd s' in
  let raised := match a with AVal (Raise _) | AObj (Raise _) => true | _ => false end in
  let mvalid := match a, e with
                | AVal (Ok v), EQuery i q => sym_valid (aspect_of_query q) (mat_of h' i) v
                | _, _ => true end in
  let mb := bad_entries (h_objs K h') 0 in
  let c :=
    if negb (Bool.eqb raised (x_raised x)) then 2
    else if negb (keyss_eqb (keys_of h') (x_keys x)) then 1
    else if mvalid && negb (x_valid x) then 3
    else if negb (subset (x_bad x) mb) then 5
    else if negb mvalid && x_valid x then 4
    else if negb (subset mb (x_bad x)) then 6
    else 0 in
  (c, s').

Definition hard (c : nat) : bool := match c with 1 | 2 | 3 | 5 => true | _ => false end.

(* first hard disagreement of a history, else its first soft one: (step, code), code 0 = agree *)
Fixpoint agree (h : list (event K * expect)) (s : sstate) (j : nat) (soft : nat * nat) : nat * nat :=
  match h with
  | [] => soft
  | (e, x) :: r =>
      let (c, s') := step_code s e x in
      if hard c then (j, c)
      else agree r s' (S j) (match c, soft with S _, (_, 0) => (j, c) | _, _ => soft end)
  end.

Definition mk_heap (os : list (obj K)) : sheap := @Build_heap K os 0.
Definition mko (pf : profile) (n : nat) (sq : bool) (m : smat) : obj K :=
  @Build_obj K pf n sq m None None.
Definition mkn (pf : profile) (n : nat) (sq : bool) (m : smat) : newobj K :=
  @Build_newobj K pf n sq m.
Definition pf (td : option string) (kids : list nat) (ig : bool) (eg : eig_kind) (cm : option nat) (pc sm it : bool)
           (dg : option bool) (q1 q2 q3 : bool) : profile :=
  {| pf_td_name := td; pf_td_kids := kids; pf_chol_ignore := ig; pf_eig := eg; pf_cm_root := cm; pf_precond := pc;
     pf_sum := sm; pf_iqld_to := it; pf_deleg := dg; pf_iqld_norhs_raises := q1; pf_iqld_nologdet_raises := q2;
     pf_lanczos_1x1_raises := q3 |}.
Definition X (r v : bool) (ks : list (list key)) (b : list (nat * nat)) : expect :=
  {| x_raised := r; x_valid := v; x_keys := ks; x_bad := b |}.

Definition case := (list (obj K) * settings * list (event K * expect))%type.

(* flattened triples [case; step; code; ...] of the cases that do not agree *)
Fixpoint bad_cases (cs : list case) (i : nat) : list nat :=
  match cs with
  | [] => []
  | (os, st, h) :: r =>
      let (j, c) := agree h (st, mk_heap os) 0 (0, 0) in
      match c with 0 => bad_cases r (S i) | _ => i :: j :: c :: bad_cases r (S i) end
  end.

(* for diagnosis: the model's key lists and validity predictions along a history *)
Fixpoint trace (h : list (event K)) (s : sstate) : list (bool * bool * list (list key) * list (nat * nat)) :=
  match h with
  | [] => []
  | e :: r =>
      let (a, s') := step K flags s e in
      let raised := match a with AVal (Raise _) | AObj (Raise _) => true | _ => false end in
      let mvalid := match a, e with
                    | AVal (Ok v), EQuery i q => sym_valid (aspect_of_query q) (mat_of (snd s') i) v
                    | _, _ => true end in
      (raised, mvalid, keys_of (snd s'), bad_entries (h_objs K (snd s')) 0) :: trace r s'
  end.
