(* C12 — cached results are transparent: answers do not depend on query history.
   Only theorem statements live here; each is closed by `exact` of a lemma proved in MemoLaws.v (about the
   functions GENERATED from linear_operator/utils/memoize.py), Proofs.v (history invariant, any kernels),
   SymOk.v (symbolic instance, refutations) or Algebra.v (MathComp). *)
From Coq Require Import List String Bool Arith ZArith.
Import ListNotations.
Require Import C12.MemoBase C12.gen.Memoize C12.gen.SourceFlags C12.MemoLaws C12.Model C12.Sym C12.Proofs C12.SymOk.
From mathcomp Require Import all_ssreflect all_algebra.
Require Import C12.Algebra.
Require Import C12.gen.CacheSites C12.Sites.

(* ---------------------------------------------------------------- the memoize protocol (translated source) *)

(* @cached honouring the arguments: a hit returns the stored value, runs nothing and changes nothing; a miss
   runs the method (which may itself write to the cache) and stores its result under (name, args, pickle(kwargs));
   a raising method stores nothing.  For any state and any lawful lens onto the object's _memoize_cache. *)
Theorem C12_cached_protocol : forall (S V : Type) (L : lens S V) (LO : lens_ok L),
  forall method nm body a kw (s : S),
  lvalid s -> (forall r s', body a kw s = (r, s') -> lvalid s') ->
  py__cached method nm body a kw s =
  let K := KFull (name_of_opt nm method) a kw in
  match d_get (dict_of (lget s)) K with
  | Some v => (Ok v, s)
  | None => match body a kw s with
            | (Ok v, s') => (Ok v, lput (Some (d_set (dict_of (lget s')) K v)) s')
            | (Raise e, s') => (Raise e, s')
            end
  end.
Proof. intros S V L LO. exact (@cached_spec S V L LO). Qed.

(* cached results under different (args, kwargs) never collide: distinct call signatures are distinct keys, a bare
   (ignore_args) key is never a tuple key, and a @cached call reads and writes no entry but the one under its own
   key (everything else that changes, the method body changed) *)
Theorem cache_keys_separate : forall (S V : Type) (L : lens S V) (LO : lens_ok L),
  (forall (n n' : name) a a' kw kw', KFull n a kw = KFull n' a' kw' -> n = n' /\ a = a' /\ kw = kw') /\
  (forall (n n' : name) a kw, KName n <> KFull n' a kw) /\
  (forall method nm body a kw (s : S) K',
     lvalid s -> (forall r s', body a kw s = (r, s') -> lvalid s') ->
     K' <> KFull (name_of_opt nm method) a kw ->
     d_get (dict_of (lget (snd (py__cached method nm body a kw s)))) K' =
     match d_get (dict_of (lget s)) (KFull (name_of_opt nm method) a kw) with
     | Some _ => d_get (dict_of (lget s)) K'
     | None => d_get (dict_of (lget (snd (body a kw s)))) K'
     end).
Proof.
  intros S V L LO. split; [exact key_injective|]. split; [exact key_bare_full|].
  intros method nm body a kw s K'. exact (@cached_frame S V L LO method nm body a kw s K').
Qed.

(* ignore_args entries are used only where the answer is argument-independent: on an object whose _cholesky is
   @cached(name="cholesky", ignore_args=True) (the Diag family, whose matrix is diagonal: hypothesis diaglike of
   the heap invariant) whatever entry sits under the bare key is a valid factor for BOTH orientations *)
Theorem ignore_args_sound : forall K valid compat diaglike is1x1 shifted scaled kron,
  kern_ok K valid compat diaglike is1x1 shifted scaled kron ->
  forall fuel h0 i o args kw, get K i h0 = Some o -> pf_chol_ignore (o_pf K o) = true ->
  sound K valid diaglike is1x1 shifted scaled kron h0 (_cholesky K fuel i args kw)
        (fun v => valid (AChol false) (o_mat K o) v /\ valid (AChol true) (o_mat K o) v).
Proof. exact sound__cholesky_ignore. Qed.

(* _is_in_cache_ignore_all_args is `name in [k[0] for k in keys]`: on a bare str key k[0] is its first character *)
Theorem ignore_all_args_bare_string_oddity : forall (V : Type) (v : V),
  let s := Some [(KName (NStr "cholesky"), v)] in
  py__is_in_cache_ignore_all_args (L := self_lens V) (NStr "c") s = (Ok true, s)
  /\ py__is_in_cache_ignore_all_args (L := self_lens V) (NStr "cholesky") s = (Ok false, s)
  /\ py__is_in_cache_ignore_all_args (L := self_lens V) (NStr "cholesky") (Some [(KName (NFun "f"), v)])
     = (Raise TypeError, Some [(KName (NFun "f"), v)]).
Proof. exact MemoLaws.ignore_all_args_bare_string_oddity. Qed.

(* ---------------------------------------------------------------- histories *)

(* For EVERY finite history of queries / derivations / settings switches / seed / clear events, from any heap that
   satisfies the invariant (e.g. freshly built objects), for every instance of the numerical kernels that is valid
   (kern_ok): if every event meets its explicit side condition (good_run: addressed objects exist, new objects are
   honestly described, eigh/eigvalsh are not called on a cached ("symeig", eigenvectors=True) entry, and each
   add_low_rank / cat_rows is handed a COMPATIBLE root / inverse-root pair - for add_low_rank a non-triangular
   root), then every cache entry of every object stays valid for that object's matrix. *)
Theorem history_invariant : forall K fl valid compat diaglike is1x1 shifted scaled kron,
  kern_ok K valid compat diaglike is1x1 shifted scaled kron ->
  forall (es : list (event K)) (s : state K),
  Inv K valid diaglike is1x1 shifted scaled kron (snd s) ->
  good_run K fl compat diaglike is1x1 shifted scaled kron s es ->
  Inv K valid diaglike is1x1 shifted scaled kron (snd (snd (run K fl s es))).
Proof.
  intros K fl valid compat diaglike is1x1 shifted scaled kron KO es s I G.
  exact (proj1 (history_invariant_gen K fl valid compat diaglike is1x1 shifted scaled kron KO es s I G)).
Qed.

(* ... and every answer of every query in the history is a valid answer for the matrix of the object it was put
   to, whatever was asked before, in whatever order, under whatever settings *)
Corollary C12_transparent : forall K fl valid compat diaglike is1x1 shifted scaled kron,
  kern_ok K valid compat diaglike is1x1 shifted scaled kron ->
  forall (es : list (event K)) (s : state K),
  Inv K valid diaglike is1x1 shifted scaled kron (snd s) ->
  good_run K fl compat diaglike is1x1 shifted scaled kron s es ->
  answers_ok K fl valid s es.
Proof.
  intros K fl valid compat diaglike is1x1 shifted scaled kron KO es s I G.
  exact (proj2 (proj2 (history_invariant_gen K fl valid compat diaglike is1x1 shifted scaled kron KO es s I G))).
Qed.

(* the side conditions that exclude the known defects are tied to the three defect sites that are re-read from
   _linear_operator.py on every run (gen/SourceFlags.v): once a site is repaired its side condition is void - every
   query is then unconditionally fine, and add_low_rank needs the compatibility of the two roots only *)
Theorem repaired_source_lifts_side_conditions : forall K fl (compat : Val K -> Val K -> Prop),
  (fl_eigh_none fl = false -> fl_eigvalsh_tuple fl = false -> forall i q h, query_ok K fl i q h) /\
  (fl_lr_wraps fl = false -> forall B m1 m2 g j L M,
     compat (v_root K L) (v_root K M) -> transplant_ok K fl compat (DAddLowRank B m1 m2 g) (j, Some (L, M))).
Proof. exact repaired_lifts. Qed.

(* hence it agrees, up to what `valid` leaves open (the tolerance / the freedom of the method), with the answer of
   the same query on a fresh clone: any object with the same matrix in any heap satisfying the invariant - in
   particular one with empty caches - gives an answer that is valid for the SAME aspect of the SAME matrix *)
Corollary C12_fresh_clone_agrees : forall K fl valid compat diaglike is1x1 shifted scaled kron,
  kern_ok K valid compat diaglike is1x1 shifted scaled kron ->
  forall st q (h hf : heap K) i j o oc,
  Inv K valid diaglike is1x1 shifted scaled kron h -> Inv K valid diaglike is1x1 shifted scaled kron hf ->
  get K i h = Some o -> get K j hf = Some oc -> o_mat K oc = o_mat K o ->
  query_ok K fl i q h -> query_ok K fl j q hf ->
  res_ok (fst (run_query K fl st i q h)) (valid (aspect_of_query q) (o_mat K o)) /\
  res_ok (fst (run_query K fl st j q hf)) (valid (aspect_of_query q) (o_mat K o)).
Proof.
  intros K fl valid compat diaglike is1x1 shifted scaled kron KO st q h hf i j o oc I If G Gf Em Q Qf.
  split.
  - exact (proj2 (proj2 (run_query_sound K fl valid compat diaglike is1x1 shifted scaled kron KO st i q h o I G Q))).
  - rewrite <- Em. exact (proj2 (proj2 (run_query_sound K fl valid compat diaglike is1x1 shifted scaled kron KO st j q hf oc If Gf Qf))).
Qed.

(* the kernel hypotheses are satisfiable, by the very instance the correspondence shards execute ... *)
Theorem kernel_hypotheses_satisfiable :
  kern_ok sym_kern svalid scompat (fun _ => False) (fun _ => True) (fun _ _ => True) (fun _ _ => True) (fun _ _ => True).
Proof. exact sym_kern_ok. Qed.

(* ... and so are the side conditions, on a non-trivial history (roots, a compatible add_low_rank, queries on the
   new operator, a settings switch, a Lanczos inverse root, a cat_rows) *)
Example history_hypotheses_satisfiable :
  good_run sym_kern fl_pinned scompat (fun _ => False) (fun _ => True) (fun _ _ => True) (fun _ _ => True) (fun _ _ => True) (st_default, heap1) hist_good
  /\ Inv sym_kern svalid (fun _ => False) (fun _ => True) (fun _ _ => True) (fun _ _ => True) (fun _ _ => True) heap1.
Proof. split; [exact hist_good_ok | exact heap1_inv]. Qed.

(* ... also on a heap with a KroneckerProductLinearOperator over two dense factors (the class overrides the cached
   protocol methods and delegates to its factors): queries under two settings regimes, on the product and on a
   factor, and an add_low_rank whose roots are compatible factor by factor *)
Example history_hypotheses_satisfiable_kron :
  good_run sym_kern fl_pinned scompat (fun _ => False) (fun _ => True) (fun _ _ => True) (fun _ _ => True) (fun _ _ => True)
           (st_default, heap_kron) hist_kron
  /\ Inv sym_kern svalid (fun _ => False) (fun _ => True) (fun _ _ => True) (fun _ _ => True) (fun _ _ => True) heap_kron.
Proof. split; [exact hist_kron_ok | exact heap_kron_inv]. Qed.

(* ... and on a heap with a BlockDiagLinearOperator over a batch of dense blocks (a class that hands its
   factorizations, inv_quad_logdet, sampling and the Lanczos internals to its base operator, whose caches it writes) *)
Example history_hypotheses_satisfiable_blockdiag :
  good_run sym_kern fl_pinned scompat (fun _ => False) (fun _ => True) (fun _ _ => True) (fun _ _ => True) (fun _ _ => True)
           (st_default, heap_block) hist_block
  /\ Inv sym_kern svalid (fun _ => False) (fun _ => True) (fun _ _ => True) (fun _ _ => True) (fun _ _ => True) heap_block.
Proof. split; [exact hist_block_ok | exact heap_block_inv]. Qed.

(* ---------------------------------------------------------------- where the pinned code falsifies the statement *)

(* add_low_rank with the default methods on a small matrix: self's root is the (triangular) Cholesky factor, the
   dense update L U S~ is wrapped in TriangularLinearOperator; the transplanted entries of the new operator are
   invalid and its logdet(), which takes the triangular-root shortcut, is wrong - with valid kernels throughout *)
Theorem add_low_rank_triangular_label_refuted :
  ~ Inv sym_kern svalid (fun _ => False) (fun _ => True) (fun _ _ => True) (fun _ _ => True) (fun _ _ => True) (final hist_label) /\
  ~ answers_ok sym_kern fl_pinned svalid (st_default, heap1) hist_label /\
  entries_bad (final hist_label) = [(1, 0); (1, 1)].
Proof. exact add_low_rank_label_refuted. Qed.

(* root and inverse root from different factorizations (root_decomp_method="symeig",
   root_inv_decomp_method="cholesky"): each is a valid entry of self's cache, the transplanted root is not *)
Theorem transplant_methods_mismatch_refuted :
  entries_bad (final hist_methods) = [(1, 0)] /\
  entries_bad (snd (snd (run sym_kern fl_pinned (st_default, heap1)
     [EQuery 0 (QRootDecomp [] [("method", PStr "symeig")]); EQuery 0 (QRootInv [] [("method", PStr "cholesky")])]))) = [].
Proof. exact add_low_rank_methods_refuted. Qed.

(* cat_rows: root_decomposition() cached under Cholesky, then max_cholesky_size(0): the inverse root is a Lanczos one *)
Theorem cat_rows_settings_switch_refuted : entries_bad (final hist_cat) = [(1, 0); (1, 1)].
Proof. exact cat_rows_settings_refuted. Qed.

(* eigh() after a cached ("symeig", eigenvectors=True) entry: returns (evals, None) and removes the entry; the
   next eigh() is fine again *)
Theorem eigh_after_cached_symeig :
  map (fun a : answer sym_kern => match a with AVal (Ok v) => sym_valid (AEig true) (SBase 0) v | _ => true end)
      (fst (run sym_kern fl_pinned (st_default, heap1) hist_eigh)) = [true; false; true]
  /\ map (fun o => d_keys (dict_of (o_memo sym_kern o))) (h_objs sym_kern (final [ESeedSymeig 0; EQuery 0 QEigh])) = [[]]
  /\ ~ answers_ok sym_kern fl_pinned svalid (st_default, heap1) hist_eigh.
Proof. exact eigh_after_cached_symeig_refuted. Qed.

(* ---------------------------------------------------------------- the transplant algebra (MathComp, any field) *)
Local Open Scope ring_scope.

(* add_low_rank:  L L^T = A,  L M^T = I (compatibility),  M^T B = U S V^T,  St St^T = I + S S^T
   ==>  (L U St)(L U St)^T = A + B B^T *)
Theorem transplant_add_low_rank_root : forall (F : fieldType) (n q : nat)
  (A L M U St : 'M[F]_n) (B S : 'M[F]_(n, q)) (V : 'M[F]_q),
  L *m L^T = A -> L *m M^T = 1%:M -> M^T *m B = U *m S *m V^T ->
  U *m U^T = 1%:M -> V^T *m V = 1%:M -> St *m St^T = 1%:M + S *m S^T ->
  (L *m U *m St) *m (L *m U *m St)^T = A + B *m B^T.
Proof. exact transplant_add_low_rank. Qed.

(* ... and M U St^-1 is a root of the inverse *)
Theorem transplant_add_low_rank_inverse_root : forall (F : fieldType) (n q : nat)
  (A L M U St Sti : 'M[F]_n) (B S : 'M[F]_(n, q)) (V : 'M[F]_q),
  L *m L^T = A -> L *m M^T = 1%:M -> M^T *m B = U *m S *m V^T ->
  U *m U^T = 1%:M -> V^T *m V = 1%:M -> St *m St^T = 1%:M + S *m S^T -> Sti^T *m St = 1%:M ->
  ((M *m U *m Sti) *m (M *m U *m Sti)^T) *m (A + B *m B^T) = 1%:M.
Proof. exact transplant_add_low_rank_inv. Qed.

(* cat_rows:  E E^T = A,  E R^T = I (compatibility),  G G^T = D - (B R)(B R)^T
   ==>  Z = [[E,0],[B R,G]] is a root of [[A,B^T],[B,D]] *)
Theorem transplant_cat_rows_root : forall (F : fieldType) (n k : nat)
  (A E R : 'M[F]_n) (B : 'M[F]_(k, n)) (D G : 'M[F]_k),
  E *m E^T = A -> E *m R^T = 1%:M -> G *m G^T = D - (B *m R) *m (B *m R)^T ->
  let Z := block_mx E 0 (B *m R) G in Z *m Z^T = block_mx A B^T B D.
Proof. exact transplant_cat_rows. Qed.

(* the compatibility hypothesis cannot be dropped: valid root, valid inverse root, genuine SVD - invalid transplant *)
Theorem transplant_needs_compatibility_refuted :
  exists (A L M U S_t : 'M[rat]_(1 + 1)) (Bm S : 'M[rat]_(1 + 1, 1)) (V : 'M[rat]_1),
    [/\ L *m L^T = A, (M *m M^T) *m A = 1%:M & M^T *m Bm = U *m S *m V^T] /\
    [/\ U *m U^T = 1%:M, V^T *m V = 1%:M & S_t *m S_t^T = 1%:M + S *m S^T]
    /\ (L *m U *m S_t) *m (L *m U *m S_t)^T != A + Bm *m Bm^T.
Proof. exact transplant_needs_compatibility_refuted_rat. Qed.

(* ---------------------------------------------------------------- derived operators and cache hand-over sites *)
Local Close Scope ring_scope.

(* every operator a derivation creates (the result and its children) ends up with a cache whose entries are all valid for
   ITS OWN matrix - empty, or the transplanted factors under the side conditions of the event - and so does every older
   object: caches are per object, nothing is carried over but what deriv_finish writes *)
Theorem derived_operator_cache_valid : forall K fl valid compat diaglike is1x1 shifted scaled kron,
  kern_ok K valid compat diaglike is1x1 shifted scaled kron ->
  forall st h i d kids res_,
  Inv K valid diaglike is1x1 shifted scaled kron h ->
  event_ok K fl compat diaglike is1x1 shifted scaled kron (st, h) (EDerive i d kids res_) ->
  forall j o', get K j (snd (snd (step K fl (st, h) (EDerive i d kids res_)))) = Some o' ->
  memo_ok K valid (o_mat K o') (o_memo K o').
Proof.
  intros K fl valid compat diaglike is1x1 shifted scaled kron KO st h i d kids res_ I Ev j o' G.
  destruct (step_sound K fl valid compat diaglike is1x1 shifted scaled kron KO st h (EDerive i d kids res_) I Ev) as (I' & _ & _).
  destruct (I' j o' G) as (Mo & _). exact Mo.
Qed.

(* a derivation other than add_low_rank / cat_rows hands NOTHING over: its result is a freshly allocated object without
   any cache, whatever the caches of self (and of the children it shares with self) hold *)
Theorem derived_operator_starts_with_empty_cache : forall K fl st i d kids res_ h o j h',
  no_handover d -> get K i h = Some o ->
  run_deriv K fl st i d kids res_ h = (Ok j, h') ->
  get K j h' = Some (mk_obj K res_ (deriv_mat K d (o_mat K o))) /\
  o_memo K (mk_obj K res_ (deriv_mat K d (o_mat K o))) = None /\ o_adhoc K (mk_obj K res_ (deriv_mat K d (o_mat K o))) = None.
Proof. exact derived_starts_empty. Qed.

(* the source's cache sites (tables regenerated from linear_operator/operators/*.py on every run; finite: by computation):
   ignore_args=True sits on a method with arguments only where its soundness is proved (ignore_args_sound) ... *)
Theorem ignore_args_only_where_proved : forallb ignore_ok cached_sites = true.
Proof. vm_compute. reflexivity. Qed.

(* ... a cache name belongs to one method name ... *)
Theorem cache_names_belong_to_one_method : names_ok cached_sites = true.
Proof. vm_compute. reflexivity. Qed.

(* ... and entries are written into a cache from outside a @cached method (add_to_cache) exactly at the sites the model
   transcribes: a new hand-over site (e.g. an indexing method passing a cached diagonal on) breaks this obligation *)
Theorem handover_sites_are_the_modelled_ones : same_set handover_sites handover_modelled = true.
Proof. vm_compute. reflexivity. Qed.
