(* C12 — cached results are transparent.  Only theorem statements live here (proved in MemoLaws / Proofs / Algebra). *)
From Coq Require Import List String Bool ZArith.
Import ListNotations.
Require Import C12.MemoBase C12.gen.Memoize C12.MemoLaws.

Theorem C12_cached_protocol : forall (S V : Type) (L : lens S V), lens_ok L ->
  forall method nm body a kw (s : S),
  lvalid s -> (forall r s', body a kw s = (r, s') -> lvalid s') ->
  py__cached method nm body a kw s =
  let K := KFull (name_of_opt nm method) a kw in
  match d_get (dict_of (lget s)) K with
  | Some v => (Ok v, s)
  | None => match body a kw s with
            | (Ok v, s') => (Ok v, lput (Some (d_set (dict_of (lget s')) K v)) s')
            | (Raise e, s') => (Raise e, s')
            end
  end.
Proof. intros S V L LO. exact (@cached_spec S V L LO). Qed.
