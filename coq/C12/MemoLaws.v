(* C12 - laws of the memoize protocol, proved about the functions GENERATED from
   linear_operator/utils/memoize.py (gen/Memoize.v).  Every lemma is a characterising equation of
   one Python function, for an arbitrary state and any lawful lens onto the object's cache attribute;
   if memoize.py changes its behaviour the corresponding proof stops checking. *)
From Coq Require Import List String Bool ZArith.
Import ListNotations.
Require Import C12.MemoBase C12.gen.Memoize.

Definition dict_of {V} (m : memo V) : dict V := match m with Some d => d | None => [] end.

Section Laws.
Context {S V : Type} {L : lens S V} {LO : lens_ok L}.
Implicit Types (s : S) (n : name) (a : list pyv) (kw : kwargs) (v : V).

Lemma is_in_cache_spec n a kw s :
  py__is_in_cache n a kw s = (Ok (d_mem (dict_of (lget s)) (KFull n a kw)), s).
Proof.
  unfold py__is_in_cache, bind, mand, hasattr_memo, memo_contains, bind, getattr_memo, ret.
  destruct (lget s) eqn:E; simpl; rewrite ?E; reflexivity.
Qed.

Lemma is_in_cache_ignore_args_spec n s :
  py__is_in_cache_ignore_args n s = (Ok (d_mem (dict_of (lget s)) (KName n)), s).
Proof.
  unfold py__is_in_cache_ignore_args, bind, mand, hasattr_memo, memo_contains, bind, getattr_memo, ret.
  destruct (lget s) eqn:E; simpl; rewrite ?E; reflexivity.
Qed.

Lemma setitem_fresh_or_not (k : key) v s : lvalid s ->
  (h <- hasattr_memo ;; when (negb h) (setattr_memo [] ;;; ret tt) ;;; (memo_setitem k v ;;; ret v)) s
  = (Ok v, lput (Some (d_set (dict_of (lget s)) k v)) s).
Proof.
  intros Hv. unfold bind, hasattr_memo, when, memo_setitem, bind, getattr_memo, setattr_memo, ret.
  destruct (lget s) eqn:E; simpl.
  - rewrite E. reflexivity.
  - rewrite (get_put _ _ Hv), put_put. reflexivity.
Qed.

Lemma _add_to_cache_spec n v a kw s : lvalid s ->
  py__add_to_cache n v a kw s = (Ok v, lput (Some (d_set (dict_of (lget s)) (KFull n a kw) v)) s).
Proof. apply setitem_fresh_or_not. Qed.

Lemma add_to_cache_spec n v a kw s : lvalid s ->
  py_add_to_cache n v a kw s = (Ok v, lput (Some (d_set (dict_of (lget s)) (KFull n a kw) v)) s).
Proof. apply _add_to_cache_spec. Qed.

Lemma _add_to_cache_ignore_args_spec n v s : lvalid s ->
  py__add_to_cache_ignore_args n v s = (Ok v, lput (Some (d_set (dict_of (lget s)) (KName n) v)) s).
Proof. apply setitem_fresh_or_not. Qed.

Lemma getitem_caught (k : key) s :
  catch (memo_getitem k) [AttributeError; KeyError] (raise CachingError) s =
  match d_get (dict_of (lget s)) k with Some v => (Ok v, s) | None => (Raise CachingError, s) end.
Proof.
  unfold catch, memo_getitem, bind, getattr_memo, ret, raise.
  destruct (lget s) as [d|]; simpl; auto. destruct (d_get d k); reflexivity.
Qed.

Lemma _get_from_cache_spec n a kw s :
  py__get_from_cache n a kw s =
  match d_get (dict_of (lget s)) (KFull n a kw) with Some v => (Ok v, s) | None => (Raise CachingError, s) end.
Proof. apply getitem_caught. Qed.

Lemma get_from_cache_spec n a kw s :
  py_get_from_cache n a kw s =
  match d_get (dict_of (lget s)) (KFull n a kw) with Some v => (Ok v, s) | None => (Raise CachingError, s) end.
Proof. apply getitem_caught. Qed.

Lemma _get_from_cache_ignore_args_spec n s :
  py__get_from_cache_ignore_args n s =
  match d_get (dict_of (lget s)) (KName n) with Some v => (Ok v, s) | None => (Raise CachingError, s) end.
Proof. apply getitem_caught. Qed.

Lemma pop_caught (k : key) s :
  catch (memo_pop k) [KeyError; AttributeError] (raise CachingError) s =
  match d_get (dict_of (lget s)) k with
  | Some v => (Ok v, lput (Some (d_remove (dict_of (lget s)) k)) s)
  | None => (Raise CachingError, s)
  end.
Proof.
  unfold catch, memo_pop, bind, getattr_memo, setattr_memo, ret, raise.
  destruct (lget s) as [d|]; simpl; auto. destruct (d_get d k); reflexivity.
Qed.

Lemma pop_from_cache_spec n a kw s :
  py_pop_from_cache n a kw s =
  match d_get (dict_of (lget s)) (KFull n a kw) with
  | Some v => (Ok v, lput (Some (d_remove (dict_of (lget s)) (KFull n a kw))) s)
  | None => (Raise CachingError, s)
  end.
Proof. apply pop_caught. Qed.

Lemma pop_from_cache_ignore_args_spec n s :
  py_pop_from_cache_ignore_args n s =
  match d_get (dict_of (lget s)) (KName n) with
  | Some v => (Ok v, lput (Some (d_remove (dict_of (lget s)) (KName n))) s)
  | None => (Raise CachingError, s)
  end.
Proof. apply pop_caught. Qed.

Lemma clear_cache_hook_spec s : py_clear_cache_hook s = (Ok tt, lput (Some (@nil (key * V))) s).
Proof. reflexivity. Qed.

(* @cached (args honoured): hit -> stored value, state untouched, method NOT run;
   miss -> the method runs (it may itself write to this or other caches), its result is stored under
   (name, args, pickle(kwargs)) in the state the method left behind; a raising method stores nothing *)
Lemma cached_spec method nm body a kw s :
  lvalid s -> (forall r s', body a kw s = (r, s') -> lvalid s') ->
  py__cached method nm body a kw s =
  let K := KFull (name_of_opt nm method) a kw in
  match d_get (dict_of (lget s)) K with
  | Some v => (Ok v, s)
  | None => match body a kw s with
            | (Ok v, s') => (Ok v, lput (Some (d_set (dict_of (lget s')) K v)) s')
            | (Raise e, s') => (Raise e, s')
            end
  end.
Proof.
  intros Hv Hb.
  unfold py__cached. cbv zeta. unfold bind at 1. rewrite is_in_cache_spec. unfold pickle_dumps, d_mem.
  destruct (d_get (dict_of (lget s)) (KFull (name_of_opt nm method) a kw)) eqn:E; simpl.
  - rewrite _get_from_cache_spec, E. reflexivity.
  - unfold bind. destruct (body a kw s) as [[v|e] s'] eqn:Eb; auto. apply _add_to_cache_spec. eapply Hb; eauto.
Qed.

Lemma cached_ignore_args_spec method nm body a kw s :
  lvalid s -> (forall r s', body a kw s = (r, s') -> lvalid s') ->
  py__cached_ignore_args method nm body a kw s =
  let K := KName (name_of_opt nm method) in
  match d_get (dict_of (lget s)) K with
  | Some v => (Ok v, s)
  | None => match body a kw s with
            | (Ok v, s') => (Ok v, lput (Some (d_set (dict_of (lget s')) K v)) s')
            | (Raise e, s') => (Raise e, s')
            end
  end.
Proof.
  intros Hv Hb.
  unfold py__cached_ignore_args. cbv zeta. unfold bind at 1. rewrite is_in_cache_ignore_args_spec. unfold d_mem.
  destruct (d_get (dict_of (lget s)) (KName (name_of_opt nm method))) eqn:E; simpl.
  - rewrite _get_from_cache_ignore_args_spec, E. reflexivity.
  - unfold bind. destruct (body a kw s) as [[v|e] s'] eqn:Eb; auto. apply _add_to_cache_ignore_args_spec. eapply Hb; eauto.
Qed.

(* a @cached call touches no entry of the object's cache but the one under its own key (name, args, pickle(kwargs)):
   whatever else changes, the method body changed it *)
Lemma cached_frame method nm body a kw s K' :
  lvalid s -> (forall r s', body a kw s = (r, s') -> lvalid s') ->
  K' <> KFull (name_of_opt nm method) a kw ->
  d_get (dict_of (lget (snd (py__cached method nm body a kw s)))) K' =
  match d_get (dict_of (lget s)) (KFull (name_of_opt nm method) a kw) with
  | Some _ => d_get (dict_of (lget s)) K'
  | None => d_get (dict_of (lget (snd (body a kw s)))) K'
  end.
Proof.
  intros Hv Hb Hne. rewrite (cached_spec _ _ _ _ _ _ Hv Hb). cbv zeta.
  destruct (d_get (dict_of (lget s)) (KFull (name_of_opt nm method) a kw)); [reflexivity|].
  destruct (body a kw s) as [[v|e] s'] eqn:Eb; cbn [fst snd]; [|reflexivity].
  rewrite get_put by (eapply Hb; eauto). simpl. apply d_get_set_neq. congruence.
Qed.

(* distinct (args, kwargs) give distinct keys, and a bare (ignore_args) key is never a full key *)
Lemma key_injective (n n' : name) a a' kw kw' : KFull n a kw = KFull n' a' kw' -> n = n' /\ a = a' /\ kw = kw'.
Proof. intros E. inversion E. auto. Qed.
Lemma key_bare_full (n n' : name) a kw : KName n <> KFull n' a kw.
Proof. discriminate. Qed.

Lemma cached_dispatch method nm ig :
  py_cached method nm ig = if ig then py__cached_ignore_args method nm else py__cached method nm.
Proof. reflexivity. Qed.

(* _is_in_cache_ignore_all_args: name in [x[0] for x in keys] *)
Lemma is_in_cache_ignore_all_args_spec n s :
  py__is_in_cache_ignore_all_args n s =
  match lget s with
  | None => (Ok false, s)
  | Some d => match listcomp key_index0 (d_keys d) with
              | Ok l => (Ok (name_in n l), s)
              | Raise e => (Raise e, s)
              end
  end.
Proof.
  unfold py__is_in_cache_ignore_all_args, bind, mand, hasattr_memo, memo_keys, bind, getattr_memo, lift, ret.
  destruct (lget s) as [d|] eqn:E; simpl; [|reflexivity]. rewrite E.
  destruct (listcomp key_index0 (d_keys d)); reflexivity.
Qed.

End Laws.

(* keys on which x[0] does what the author intended: tuples, and (oddly) bare strs of length >= 1 *)
Definition key_ok (k : key) : bool :=
  match k with KFull _ _ _ => true | KName (NStr (String _ _)) => true | _ => false end.
Definition key_first (k : key) : name :=
  match k with
  | KFull n _ _ => n
  | KName (NStr (String c _)) => NStr (String c EmptyString)
  | KName n => n
  end.

Lemma listcomp_index0_ok ks : forallb key_ok ks = true -> listcomp key_index0 ks = Ok (map key_first ks).
Proof.
  induction ks as [|k r IH]; simpl; auto.
  intros H. apply andb_prop in H. destruct H as [Hk Hr]. rewrite (IH Hr).
  destruct k as [[[|c s0]|f]|nm a kw]; simpl in *; try discriminate; reflexivity.
Qed.

Lemma is_in_cache_ignore_all_args_ok {S V} {L : lens S V} n s (d : dict V) :
  lget s = Some d -> forallb key_ok (d_keys d) = true ->
  py__is_in_cache_ignore_all_args n s = (Ok (name_in n (map key_first (d_keys d))), s).
Proof. intros E H. rewrite is_in_cache_ignore_all_args_spec, E, (listcomp_index0_ok _ H). reflexivity. Qed.

(* the odd behaviour on bare-string keys: an object whose only entry is the ignore_args key "cholesky"
   "has" an entry called "c" (and none called "cholesky"); a bare function key makes the test raise *)
Lemma ignore_all_args_bare_string_oddity (V : Type) (v : V) :
  let s := Some [(KName (NStr "cholesky"), v)] in
  py__is_in_cache_ignore_all_args (L := self_lens V) (NStr "c") s = (Ok true, s)
  /\ py__is_in_cache_ignore_all_args (L := self_lens V) (NStr "cholesky") s = (Ok false, s)
  /\ py__is_in_cache_ignore_all_args (L := self_lens V) (NStr "cholesky") (Some [(KName (NFun "f"), v)])
     = (Raise TypeError, Some [(KName (NFun "f"), v)]).
Proof. repeat split; reflexivity. Qed.
