(* C12 — the transplant algebra of add_low_rank / cat_rows on MathComp matrices over an arbitrary field,
   with the compatibility hypothesis  L M^T = I  explicit, and the proof that it cannot be dropped.
   These theorems discharge the kernel hypotheses ko_lr_update / ko_cat_update of Proofs.v for the concrete
   matrix instance (exact arithmetic; the SVD of p = M^T B is a hypothesis, S~ is any St with
   St St^T = I + S S^T, S~^-1 any Sti with Sti^T St = I). *)
From mathcomp Require Import all_ssreflect all_algebra.
Set Implicit Arguments.
Unset Strict Implicit.
Unset Printing Implicit Defensive.
Import GRing.Theory.
Local Open Scope ring_scope.

Section Transplant.
Variable F : fieldType.

Section LowRank.
Variables (n q : nat).
Variables (A L M U St Sti : 'M[F]_n) (B S : 'M[F]_(n, q)) (V : 'M[F]_q).
Hypothesis root : L *m L^T = A.
Hypothesis compat : L *m M^T = 1%:M.
Hypothesis svd : M^T *m B = U *m S *m V^T.
Hypothesis Uorth : U *m U^T = 1%:M.
Hypothesis Vorth : V^T *m V = 1%:M.
Hypothesis Stsq : St *m St^T = 1%:M + S *m S^T.

Lemma pp : (M^T *m B) *m (M^T *m B)^T = U *m (S *m S^T) *m U^T.
Proof.
rewrite svd !trmx_mul trmxK.
rewrite -!mulmxA. congr (_ *m _). congr (_ *m _).
rewrite !mulmxA Vorth mul1mx. by [].
Qed.

Lemma LpB : L *m (M^T *m B) = B.
Proof. by rewrite mulmxA compat mul1mx. Qed.

Theorem transplant_add_low_rank :
  (L *m U *m St) *m (L *m U *m St)^T = A + B *m B^T.
Proof.
have -> : (L *m U *m St) *m (L *m U *m St)^T = L *m (U *m (St *m St^T) *m U^T) *m L^T.
  by rewrite !trmx_mul !mulmxA.
rewrite Stsq mulmxDr mulmx1 mulmxDl Uorth -pp mulmxDr mulmx1 mulmxDl root.
congr (_ + _).
rewrite mulmxA LpB -mulmxA -trmx_mul LpB. by [].
Qed.

(* the inverse-root twin: M U S~^-1 is a root of (A + B B^T)^-1 *)
Hypothesis Stinv : Sti^T *m St = 1%:M.

Theorem transplant_add_low_rank_inv :
  ((M *m U *m Sti) *m (M *m U *m Sti)^T) *m (A + B *m B^T) = 1%:M.
Proof.
rewrite -transplant_add_low_rank.
set N := L *m U *m St. set Ni := M *m U *m Sti.
have MtL : M^T *m L = 1%:M by apply: mulmx1C.
have UtU : U^T *m U = 1%:M by apply: mulmx1C.
have NiN : Ni^T *m N = 1%:M.
  rewrite /Ni /N !trmx_mul -!mulmxA [M^T *m (L *m _)]mulmxA MtL mul1mx.
  by rewrite [U^T *m (U *m _)]mulmxA UtU mul1mx.
have NNi : N *m Ni^T = 1%:M by apply: mulmx1C.
by rewrite -mulmxA [Ni^T *m (N *m _)]mulmxA NiN mul1mx -[Ni *m N^T]trmxK trmx_mul trmxK NNi trmx1.
Qed.
End LowRank.

(* cat_rows: the root [[E, 0], [B R, G]] of [[A, B^T], [B, D]] *)
Section CatRows.
Variables (n k : nat).
Variables (A E R : 'M[F]_n) (B : 'M[F]_(k, n)) (D G : 'M[F]_k).
Hypothesis root : E *m E^T = A.
Hypothesis compat : E *m R^T = 1%:M.
Hypothesis schur : G *m G^T = D - (B *m R) *m (B *m R)^T.

Theorem transplant_cat_rows :
  let Z := block_mx E 0 (B *m R) G in
  Z *m Z^T = block_mx A B^T B D.
Proof.
move=> Z; rewrite /Z tr_block_mx mulmx_block !trmx0 !mulmx0 !mul0mx !addr0 root schur.
have REt : R *m E^T = 1%:M by rewrite -[R *m E^T]trmxK trmx_mul trmxK compat trmx1.
rewrite addrC subrK trmx_mul [E *m (R^T *m B^T)]mulmxA compat mul1mx -mulmxA REt mulmx1.
by [].
Qed.
End CatRows.

(* Without the compatibility hypothesis the statement is FALSE: two individually valid factors
   (L L^T = A,  M M^T = A^-1) taken from different factorizations, a genuine SVD of M^T B, and yet the
   transplanted root is not a root of A + B B^T.  Witness over any field containing s <> 0, t with
   t^2 = 1 + s^2 (e.g. s = 3/4, t = 5/4 in the rationals): A = L = I, M = the swap matrix. *)
Section Refuted.
Variables (s t : F).
Hypothesis pyth : t ^+ 2 = 1 + s ^+ 2.
Hypothesis snz : s != 0.

Let P : 'M[F]_(1 + 1) := block_mx 0 1%:M 1%:M 0.
Let B : 'M[F]_(1 + 1, 1) := col_mx s%:M 0.
Let St : 'M[F]_(1 + 1) := block_mx t%:M 0 0 1%:M.

Lemma PPt : P *m P^T = 1%:M.
Proof.
rewrite /P tr_block_mx !trmx0 !trmx1 mulmx_block ?mulmx0 ?mul0mx ?mulmx1 ?mul1mx ?addr0 ?add0r.
by rewrite -scalar_mx_block.
Qed.

Lemma BBt : B *m B^T = block_mx (s ^+ 2)%:M 0 0 0.
Proof. by rewrite /B tr_col_mx mul_col_row ?trmx0 ?mulmx0 ?mul0mx tr_scalar_mx -scalar_mxM expr2. Qed.

Lemma StSt : St *m St^T = 1%:M + B *m B^T.
Proof.
rewrite BBt /St tr_block_mx ?trmx0 ?trmx1 ?tr_scalar_mx mulmx_block ?mulmx0 ?mul0mx ?mulmx1 ?mul1mx ?addr0 ?add0r.
rewrite -scalar_mxM -expr2 pyth [X in _ = X + _]scalar_mx_block add_block_mx ?addr0 ?add0r.
by rewrite raddfD.
Qed.

Theorem transplant_needs_compatibility_refuted :
  exists (A L M U S_t : 'M[F]_(1 + 1)) (Bm S : 'M[F]_(1 + 1, 1)) (V : 'M[F]_1),
    [/\ L *m L^T = A, (M *m M^T) *m A = 1%:M & M^T *m Bm = U *m S *m V^T] /\
    [/\ U *m U^T = 1%:M, V^T *m V = 1%:M & S_t *m S_t^T = 1%:M + S *m S^T]
    /\ (L *m U *m S_t) *m (L *m U *m S_t)^T != A + Bm *m Bm^T.
Proof.
exists 1%:M, 1%:M, P, P^T, St, B, B, 1%:M; split; [|split].
- split; rewrite ?trmx1 ?mulmx1 ?mul1mx ?trmxK //; exact: PPt.
- split; rewrite ?trmx1 ?mulmx1 ?mul1mx ?trmxK //; last exact: StSt.
  by apply: mulmx1C; exact: PPt.
rewrite mul1mx trmx_mul trmxK -mulmxA [St *m (St^T *m _)]mulmxA StSt mulmxDl mul1mx mulmxDr.
have -> : P^T *m P = 1%:M by apply: mulmx1C; exact: PPt.
apply/eqP => /addrI; rewrite BBt.
rewrite /P tr_block_mx ?trmx0 ?trmx1 !mulmx_block ?mulmx0 ?mul0mx ?mulmx1 ?mul1mx ?addr0 ?add0r.
move/eq_block_mx => [/matrixP /(_ 0 0)]; rewrite !mxE eqxx mulr1n => /esym /eqP.
by rewrite sqrf_eq0 (negbTE snz).
Qed.
End Refuted.
End Transplant.

(* the witness exists in the rationals: s = 3/4, t = 5/4 *)
Lemma pyth_rat : ((5%:Q / 4%:Q) ^+ 2 = 1 + (3%:Q / 4%:Q) ^+ 2) /\ (3%:Q / 4%:Q != 0).
Proof. by split; [apply/eqP|]. Qed.

Corollary transplant_needs_compatibility_refuted_rat :
  exists (A L M U S_t : 'M[rat]_(1 + 1)) (Bm S : 'M[rat]_(1 + 1, 1)) (V : 'M[rat]_1),
    [/\ L *m L^T = A, (M *m M^T) *m A = 1%:M & M^T *m Bm = U *m S *m V^T] /\
    [/\ U *m U^T = 1%:M, V^T *m V = 1%:M & S_t *m S_t^T = 1%:M + S *m S^T]
    /\ (L *m U *m S_t) *m (L *m U *m S_t)^T != A + Bm *m Bm^T.
Proof. exact: (transplant_needs_compatibility_refuted (proj1 pyth_rat) (proj2 pyth_rat)). Qed.
