(* C16 — "never returns a factor containing NaN or Inf", for the kernel of Model.v, in ANY arithmetic whose special
   values (NaN, +-infinity) behave as in IEEE 754 (`SpecialLaws`; no rounding assumption, no exactness assumption):
   an accepted pivot d > 0 forces every entry of its row to be finite, because a NaN or infinite entry x poisons
   the pivot  a_ii - … - x*x  (it becomes NaN or -infinity and stays so), and NaN / -infinity are not > 0.
   Plain Coq.  All matrix sizes, all batch sizes, all max_tries. *)
From Coq Require Import List Bool Arith ZArith Lia.
Import ListNotations.
Require Import C16.Model C16.ProofsLoop C16.ProofsMain.

Section Finite.
Variable F : Type.
Variable ar : Arith F.
Variable afin : F -> bool.      (* finite *)
Variable astuck : F -> bool.    (* NaN or -infinity *)

Notation "x -. y" := (asub ar x y) (at level 50, left associativity).
Notation "x *. y" := (amul ar x y) (at level 40, left associativity).
Notation f0 := (a0 ar).

Record SpecialLaws : Prop := MkSL {
  sl_zero_fin : afin f0 = true;
  sl_gt_not_stuck : forall x, agtb ar x f0 = true -> astuck x = false;
  sl_stuck_stays : forall s x, astuck s = true -> astuck (s -. x *. x) = true;
  sl_bad_sticks : forall s x, afin x = false -> astuck (s -. x *. x) = true;
  sl_fin_or_stuck : forall s x, afin s = true -> afin (s -. x *. x) = true \/ astuck (s -. x *. x) = true;
  sl_sqrt_fin : forall d, afin d = true -> agtb ar d f0 = true -> afin (asqrt ar d) = true
}.
Hypothesis SL : SpecialLaws.

Definition vfin (v : list F) : bool := forallb afin v.
Definition allfin (M : matrix F) : bool := forallb vfin M.

Lemma sub_dot_sq : forall acc s,
  (astuck s = true -> astuck (sub_dot ar s acc acc) = true) /\
  (afin s = true ->
     (afin (sub_dot ar s acc acc) = true \/ astuck (sub_dot ar s acc acc) = true) /\
     (astuck (sub_dot ar s acc acc) = false -> vfin acc = true)).
Proof.
  induction acc as [|x acc IH]; intros s; cbn [sub_dot].
  - split; auto.
  - destruct (IH (s -. x *. x)) as [IHs IHf]. split.
    + intros Hs. apply IHs. apply (sl_stuck_stays SL). exact Hs.
    + intros Hf. destruct (afin x) eqn:Ex.
      * destruct (sl_fin_or_stuck SL s x Hf) as [H|H].
        -- destruct (IHf H) as [H1 H2]. split; auto. intros Hn. cbn [vfin forallb]. rewrite Ex. apply H2. exact Hn.
        -- pose proof (IHs H) as Hst. split; auto. intros Hn. congruence.
      * pose proof (IHs (sl_bad_sticks SL s x Ex)) as Hst. split; auto. intros Hn. congruence.
Qed.

Lemma nth_fin v i : vfin v = true -> afin (nth i v f0) = true.
Proof.
  revert i; induction v as [|x v IH]; intros [|i] H; cbn in H |- * ; try apply (sl_zero_fin SL);
    apply andb_prop in H as [H1 H2]; auto.
Qed.

Lemma vfin_app u v : vfin (u ++ v) = vfin u && vfin v.
Proof. unfold vfin. apply forallb_app. Qed.
Lemma allfin_app u v : allfin (u ++ v) = allfin u && allfin v.
Proof. unfold allfin. apply forallb_app. Qed.

(* whatever the outcome, the rows accepted so far are finite (diagonal of the input finite) *)
Lemma chol_rows_fin : forall Arows i Lrows,
  allfin Arows = true -> allfin Lrows = true -> allfin (fst (chol_rows ar Arows i Lrows)) = true.
Proof.
  induction Arows as [|arow Arest IH]; intros i Lrows HA HL; cbn [chol_rows].
  - exact HL.
  - cbn [allfin forallb] in HA. apply andb_prop in HA as [Hrow HA].
    set (acc := row_entries ar Lrows arow []).
    set (d := sub_dot ar (nth i arow f0) acc acc).
    destruct (agtb ar d f0) eqn:Hd; [|exact HL].
    apply IH; [exact HA|].
    rewrite allfin_app, HL. cbn [allfin forallb andb]. rewrite andb_true_r.
    destruct (sub_dot_sq acc (nth i arow f0)) as [_ Hf].
    destruct (Hf (nth_fin arow i Hrow)) as [Hd' Hacc]. fold d in Hd', Hacc.
    pose proof (sl_gt_not_stuck SL d Hd) as Hns.
    rewrite vfin_app, (Hacc Hns). cbn [vfin forallb]. rewrite andb_true_r.
    apply (sl_sqrt_fin SL); auto. destruct Hd' as [H|H]; [exact H|congruence].
Qed.

Lemma vfin_repeat0 m : vfin (repeat f0 m) = true.
Proof. induction m; cbn; auto. rewrite (sl_zero_fin SL). exact IHm. Qed.

Lemma allfin_pad n L : allfin L = true -> allfin (pad ar n L) = true.
Proof.
  intros H. unfold pad. rewrite allfin_app. apply andb_true_intro. split.
  - unfold allfin in * . rewrite forallb_forall in * . intros r Hr. apply in_map_iff in Hr as (r0 & <- & Hr0).
    unfold pad_row. rewrite vfin_app, (H r0 Hr0), vfin_repeat0. reflexivity.
  - unfold allfin. rewrite forallb_forall. intros r Hr. apply repeat_spec in Hr. subst r. apply vfin_repeat0.
Qed.

(* cholesky_ex (the kernel) on a finite matrix returns a finite tensor *)
Theorem kernel_finite (M : matrix F) : allfin M = true -> allfin (fst (chol_kernel ar M)) = true.
Proof.
  intros H. unfold chol_kernel.
  pose proof (chol_rows_fin M 0 [] H eq_refl) as H1.
  destruct (chol_rows ar M 0 []) as [L info]. cbn [fst] in H1 |- * . apply allfin_pad. exact H1.
Qed.

(* ---- the whole call: a normal return contains no NaN / Inf as long as the working copy Aprime stayed finite
        (the input is finite and adding the jitter did not overflow) *)
Notation ck := (chol_kernel ar).

Theorem psc_no_nan_inf st d32 dt n A jitter max_tries L w A' :
  trace_on st = false ->
  psc ar ck st d32 dt n A false jitter max_tries = (Ok L w, A') ->
  (forall i, i <= eff_tries F st max_tries ->
     forallb allfin (traj F ar ck d32 (eff_jitter F st dt jitter) A i) = true) ->
  forallb allfin L = true.
Proof.
  intros Ht H Hfin. rewrite psc_unfold, core_spec, Ht in H. cbn [orb] in H.
  assert (Hmap : forall Ms, forallb allfin Ms = true -> forallb allfin (map (fac F ck) Ms) = true).
  { intros Ms HM. rewrite forallb_forall in * . intros X HX. apply in_map_iff in HX as (M & <- & HMin).
    apply kernel_finite. apply HM. exact HMin. }
  destruct (allok F ck A) eqn:E0.
  - injection H as <- <- <-. apply Hmap.
    pose proof (Hfin 0 ltac:(lia)) as H0. unfold ProofsLoop.traj in H0. cbn [mtraj] in H0.
    rewrite map_id in H0. exact H0.
  - destruct (existsb (has_nan ar) A); [discriminate|]. cbv zeta in H.
    destruct (first_allok F ar ck d32 (eff_jitter F st dt jitter) A 0 (eff_tries F st max_tries)) as [m|] eqn:Em.
    + injection H as <- <- <-. cbn [orient]. apply Hmap. apply Hfin.
      pose proof (first_allok_range _ _ _ _ _ _ _ _ _ Em). lia.
    + destruct (eff_tries F st max_tries); discriminate.
Qed.

End Finite.

(* ------------------------------------------------------------------ `SpecialLaws` is satisfiable: integers extended by
   NaN and the two infinities with the IEEE rules for -, *, sqrt, > *)
Inductive xz := XF (z : Z) | XPinf | XNinf | XNan.

Definition xsub (a b : xz) : xz :=
  match a, b with
  | XNan, _ | _, XNan => XNan
  | XF x, XF y => XF (x - y)
  | XF _, XPinf => XNinf | XF _, XNinf => XPinf
  | XPinf, XPinf => XNan | XPinf, _ => XPinf
  | XNinf, XNinf => XNan | XNinf, _ => XNinf
  end.
Definition xadd (a b : xz) : xz :=
  match a, b with
  | XNan, _ | _, XNan => XNan
  | XF x, XF y => XF (x + y)
  | XF _, i => i | i, XF _ => i
  | XPinf, XPinf => XPinf | XNinf, XNinf => XNinf
  | _, _ => XNan
  end.
Definition xsgn (a : xz) : Z := match a with XF z => Z.sgn z | XPinf => 1 | XNinf => (-1) | XNan => 0 end.
Definition xmul (a b : xz) : xz :=
  match a, b with
  | XNan, _ | _, XNan => XNan
  | XF x, XF y => XF (x * y)
  | _, _ => match (xsgn a * xsgn b)%Z with Z0 => XNan | Zpos _ => XPinf | Zneg _ => XNinf end
  end.
Definition xgtb (a b : xz) : bool :=
  match a, b with
  | XNan, _ | _, XNan => false
  | XF x, XF y => Z.gtb x y
  | XPinf, XPinf => false | XPinf, _ => true
  | _, XNinf => match a with XNinf => false | _ => true end
  | _, _ => false
  end.
Definition xsqrt (a : xz) : xz :=
  match a with XF z => if Z.ltb z 0 then XNan else XF (Z.sqrt z) | XPinf => XPinf | _ => XNan end.
Definition xdiv (a b : xz) : xz :=
  match a, b with XF x, XF y => if Z.eqb y 0 then XNan else XF (x / y) | _, _ => XNan end.

Definition ArXZ : Arith xz :=
  {| a0 := XF 0; a1 := XF 1; a10 := XF 10; aadd := xadd; asub := xsub; amul := xmul; adiv := xdiv; asqrt := xsqrt;
     agtb := xgtb; aisnan := fun a => match a with XNan => true | _ => false end; around32 := fun x => x |}.
Definition xfin (a : xz) : bool := match a with XF _ => true | _ => false end.
Definition xstuck (a : xz) : bool := match a with XNan | XNinf => true | _ => false end.

Lemma ArXZ_special : SpecialLaws xz ArXZ xfin xstuck.
Proof.
  split; cbn [ArXZ a0 agtb asub amul asqrt].
  - reflexivity.
  - intros [z| | |]; cbn; auto; discriminate.
  - intros [z| | |] [y| | |]; cbn; try discriminate; auto;
      destruct (Z.sgn y * Z.sgn y)%Z; auto.
  - intros [z| | |] [y| | |]; cbn; try discriminate; auto.
  - intros [z| | |] [y| | |]; cbn; try discriminate; auto.
  - intros [z| | |]; cbn; try discriminate. intros _ Hz.
    destruct (Z.ltb_spec z 0); [|reflexivity]. apply Z.gtb_lt in Hz. lia.
Qed.
