(* C16 — PrimFloat (binary64) instance of the model and the comparators used by the generated
   case shards (gen/cases_*.v): model vs observed behaviour of the implementation. *)
From Coq Require Import List Bool Arith ZArith PrimFloat FloatOps SpecFloat.
Import ListNotations.
Require Import C16.Model.

Open Scope float_scope.

(* round-to-nearest-even to 24 significant bits = value after a cast to torch.float32 and back.
   (binary32 exponent range is not modelled: |x| is assumed in [1.2e-38, 3.4e38], true for every jitter used) *)
Definition round32 (x : float) : float :=
  match Prim2SF x with
  | S754_finite s m e =>
      let zm := Zpos m in
      let sh := (Z.log2 zm + 1 - 24)%Z in
      if (sh <=? 0)%Z then x else
      let q := Z.shiftr zm sh in
      let r := (zm - Z.shiftl q sh)%Z in
      let half := Z.shiftl 1 (sh - 1) in
      let q' := if (half <? r)%Z || ((half =? r)%Z && Z.odd q) then (q + 1)%Z else q in
      match q' with
      | Zpos p => SF2Prim (S754_finite s p (e + sh))
      | _ => x
      end
  | _ => x
  end.

Definition ArFloat : Arith float :=
  {| a0 := 0; a1 := 1; a10 := 10;
     aadd := PrimFloat.add; asub := PrimFloat.sub; amul := PrimFloat.mul; adiv := PrimFloat.div;
     asqrt := PrimFloat.sqrt;
     agtb := fun x y => PrimFloat.ltb y x;
     aisnan := fun x => negb (PrimFloat.eqb x x);
     around32 := round32 |}.

Definition fmat := matrix float.
Definition chol_float : fmat -> fmat * nat := chol_kernel ArFloat.

(* ------------------------------------------------------------------ comparison helpers *)
Definition fmax (a b : float) : float := if PrimFloat.ltb a b then b else a.
Definition is_finite (x : float) : bool := PrimFloat.ltb (abs x) infinity.

(* |a-b| <= tol * max(s, |a|, |b|) ; two NaNs agree; otherwise false if anything is NaN / infinite *)
Definition is_nan (x : float) : bool := negb (PrimFloat.eqb x x).
Definition close (tol s a b : float) : bool :=
  (is_nan a && is_nan b) ||
  (is_finite a && is_finite b && PrimFloat.leb (abs (a - b)) (tol * fmax s (fmax (abs a) (abs b)))).
Definition close_abs (tol a b : float) : bool :=
  is_finite a && is_finite b && PrimFloat.leb (abs (a - b)) tol.

Fixpoint all2 {X Y} (p : X -> Y -> bool) (a : list X) (b : list Y) : bool :=
  match a, b with
  | [], [] => true
  | x :: a', y :: b' => p x y && all2 p a' b'
  | _, _ => false
  end.

Definition vec_close tol s := all2 (close tol s).
Definition mat_close tol s := all2 (vec_close tol s).

(* bit-level equality of inputs (NaN = NaN) *)
Definition feq (a b : float) : bool :=
  match PrimFloat.compare a b with
  | FEq => true
  | FNotComparable => negb (PrimFloat.eqb a a) && negb (PrimFloat.eqb b b)
  | _ => false
  end.
Definition mats_same : list fmat -> list fmat -> bool := all2 (all2 (all2 feq)).

Fixpoint diag_from (i : nat) (M : fmat) : list float :=
  match M with [] => [] | r :: rs => nth i r 0 :: diag_from (S i) rs end.
Definition diag (M : fmat) := diag_from O M.

(* ------------------------------------------------------------------ cases *)
Record case := MkCase {
  c_api : nat;                 (* 0: psd_safe_cholesky(A, upper, jitter, max_tries) ; 1: DenseLinearOperator(A).cholesky(upper) *)
  c_dt : dtype;                (* dtype of A *)
  c_d32 : bool;                (* torch.get_default_dtype() == float32 *)
  c_st : settings float;       (* settings state outside every context (the library defaults) *)
  c_ctx : list (context float); (* the settings contexts the harness opened around the call, outermost first, with the
                                  values it ASKED for (not read back from the library) *)
  c_n : nat;
  c_A : list fmat;             (* members, row-major over the batch shape *)
  c_upper : bool;
  c_jit : option float;
  c_mt : option Z;
  (* tolerances chosen by the harness from dtype / scale / conditioning; one entry PER MEMBER for the
     factor (relative tolerance, magnitude floor) and for the diagonal increments (absolute) *)
  c_tolL : list float; c_sL : list float; c_tolinc : list float; c_tolw : float;
  (* observed on the implementation *)
  o_kind : nat;                (* 0 returned ; 1 NanError ; 2 NotPSDError ; 3 UnboundLocalError ; 4 anything else *)
  o_warns : list float;        (* jitter values of the NumericalWarnings, in order; a negative entry = the message
                                  carried no readable number (only the count is then compared) *)
  o_last : float;              (* jitter in the NotPSDError message (0 if none, negative if unreadable) *)
  o_L : list fmat;             (* returned factor, members in the same order *)
  o_inc : list (list float);   (* diag(F F^T - A) per member, F the returned factor made lower; float64, by the harness *)
  o_unchanged : bool           (* A bitwise identical and A._version unchanged after the call *)
}.

(* settings in force during the call according to the model of the contexts (Model.enter_all) *)
Definition eff_st (c : case) : settings float := enter_all (c_st c) (c_ctx c).

Definition run_model (c : case) : result float * list (list fmat) :=
  match c_api c with
  | O => psd_safe_cholesky ArFloat chol_float (eff_st c) (c_d32 c) (c_dt c) (c_n c) [c_A c] O (c_upper c) (c_jit c) (c_mt c)
  | _ => op_cholesky ArFloat chol_float (eff_st c) (c_d32 c) (c_dt c) (c_n c) (c_A c) (c_upper c)
  end.

(* increments the model added to each member's diagonal: diag(Aprime) - diag(A) (zero when no clone was made) *)
Definition model_inc (c : case) (h : list (list fmat)) : list (list float) :=
  match h with
  | [_; Ap] => map2 (fun Mp M => map2 PrimFloat.sub (diag Mp) (diag M)) Ap (c_A c)
  | _ => map (fun M => map (fun _ => 0) M) (c_A c)
  end.

(* members compared in trace mode: only those whose first factorisation succeeded (the others hold
   whatever LAPACK left behind) *)
Definition trace_sel (c : case) : list bool :=
  if trace_on (eff_st c) && Nat.eqb (c_api c) O
  then map (fun M => Nat.eqb (snd (chol_float M)) O) (c_A c)
  else map (fun _ => true) (c_A c).

Fixpoint sel_close (tol s : list float) (sel : list bool) (a b : list fmat) : bool :=
  match tol, s, sel, a, b with
  | [], [], [], [], [] => true
  | t :: tol', m :: s', k :: sel', x :: a', y :: b' => (negb k || mat_close t m x y) && sel_close tol' s' sel' a' b'
  | _, _, _, _, _ => false
  end.
Fixpoint sel_inc (tol : list float) (sel : list bool) (a b : list (list float)) : bool :=
  match tol, sel, a, b with
  | [], [], [], [] => true
  | t :: tol', k :: sel', x :: a', y :: b' => (negb k || all2 (close_abs t) x y) && sel_inc tol' sel' a' b'
  | _, _, _, _ => false
  end.

(* model value vs the number read from the message *)
Definition wclose (tol m o : float) : bool := PrimFloat.ltb o 0 || close tol 0 m o.
(* the 1 x 1 shortcut of LinearOperator._cholesky clamps instead of adding jitter: diag(F F^T - A) is then not a
   jitter increment and is not compared (the factor itself is) *)
Definition scalar_shortcut (c : case) : bool := negb (Nat.eqb (c_api c) O) && Nat.eqb (c_n c) 1.

Definition warns_close (c : case) := all2 (wclose (c_tolw c)).

(* reason code: 0 agree; 1 outcome kind; 2 warnings; 3 factor values; 4 diagonal increments;
   5 input modified; 6 jitter in the error message *)
Definition compare (c : case) : nat :=
  let '(r, h) := run_model c in
  let unchanged_model := match h with A' :: _ => mats_same A' (c_A c) | [] => false end in
  if negb (Bool.eqb unchanged_model (o_unchanged c)) then 5 else
  match r with
  | Ok L w =>
      if negb (Nat.eqb (o_kind c) 0) then 1
      else if negb (warns_close c w (o_warns c)) then 2
      else if negb (sel_close (c_tolL c) (c_sL c) (trace_sel c) L (o_L c)) then 3
      else if negb (scalar_shortcut c || sel_inc (c_tolinc c) (trace_sel c) (model_inc c h) (o_inc c)) then 4
      else 0
  | ErrNan => if Nat.eqb (o_kind c) 1 then (if warns_close c [] (o_warns c) then 0 else 2) else 1
  | ErrNotPSD w last =>
      if negb (Nat.eqb (o_kind c) 2) then 1
      else if negb (warns_close c w (o_warns c)) then 2
      else if negb (wclose (c_tolw c) last (o_last c)) then 6 else 0
  | ErrUnbound =>
      (* transcribed: UnboundLocalError (max_tries <= 0).  A repaired tree raising NotPSDError there
         is accepted as well (DESIGN 2.5 iii); the direct predicate reports the unrepaired behaviour *)
      if Nat.eqb (o_kind c) 3 || Nat.eqb (o_kind c) 2 then (if warns_close c [] (o_warns c) then 0 else 2) else 1
  end.

(* encoded as 16 * index + reason *)
Fixpoint bad_cases (cs : list case) (i : nat) : list nat :=
  match cs with
  | [] => []
  | c :: r => match compare c with
              | O => bad_cases r (S i)
              | k => (16 * i + k)%nat :: bad_cases r (S i)
              end
  end.
