(* C16 — the jitter loop of psd_safe_cholesky: closed form per batch member, exit index, errors,
   heap discipline.  Plain Coq; `chol_ex` is an arbitrary function (per-member, deterministic),
   arithmetic is any `Arith F` satisfying the few ring identities in `ExactArith`. *)
From Coq Require Import List Bool Arith ZArith Lia.
Import ListNotations.
Require Import C16.Model.



(* ------------------------------------------------------------------ list / heap lemmas (no arithmetic) *)
Section Lists.
Variable T : Type.

Lemma upd_nth_same (f : T -> T) (l : list T) i : (forall x, f x = x) -> upd_nth i f l = l.
Proof. intros H; revert i; induction l as [|x r IH]; intros [|i]; simpl; auto; rewrite ?H, ?IH; auto. Qed.

Lemma upd_nth_comp (f g : T -> T) (l : list T) i : upd_nth i f (upd_nth i g l) = upd_nth i (fun x => f (g x)) l.
Proof. revert i; induction l as [|x r IH]; intros [|i]; simpl; auto; rewrite IH; auto. Qed.

Lemma upd_nth_ext (f g : T -> T) (l : list T) i : (forall x, f x = g x) -> upd_nth i f l = upd_nth i g l.
Proof. intros H; revert i; induction l as [|x r IH]; intros [|i]; simpl; auto; rewrite ?H, ?IH; auto. Qed.

Lemma upd_nth_length (f : T -> T) (l : list T) i : length (upd_nth i f l) = length l.
Proof. revert i; induction l as [|x r IH]; intros [|i]; simpl; auto. Qed.

Lemma nth_upd_nth_eq (f : T -> T) (l : list T) i d : i < length l -> nth i (upd_nth i f l) d = f (nth i l d).
Proof. revert i; induction l as [|x r IH]; intros [|i]; simpl; intros H; try lia; auto. apply IH; lia. Qed.

Lemma nth_upd_nth_neq (f : T -> T) (l : list T) i j d : i <> j -> nth j (upd_nth i f l) d = nth j l d.
Proof. revert i j; induction l as [|x r IH]; intros [|i] [|j]; simpl; intros H; try lia; auto. Qed.

Lemma upd_nth_const_nth (l : list T) i d : upd_nth i (fun _ => nth i l d) l = l.
Proof. revert i; induction l as [|x r IH]; intros [|i]; simpl; auto. rewrite IH; auto. Qed.

Lemma upd_nth_const_twice (l : list T) i v w : upd_nth i (fun _ => w) (upd_nth i (fun _ => v) l) = upd_nth i (fun _ => w) l.
Proof. rewrite upd_nth_comp. reflexivity. Qed.
End Lists.

Section Loop.
Variable F : Type.
Variable ar : Arith F.
Variable chol_ex : matrix F -> matrix F * nat.

Notation mat := (matrix F).
Notation "x +. y" := (aadd ar x y) (at level 50, left associativity).
Notation "x -. y" := (asub ar x y) (at level 50, left associativity).
Notation "x *. y" := (amul ar x y) (at level 40, left associativity).
Notation f0 := (a0 ar).
Notation f1 := (a1 ar).

(* the identities of exact arithmetic the loop relies on (they hold in every commutative ring
   with `around32 = id`; they do NOT hold in floating point: there the statement is the tolerance
   of the correspondence check) *)
Record ExactArith : Prop := MkExact {
  ea_add0 : forall a, a +. f0 = a;
  ea_mul0 : forall x, f0 *. x = f0;
  ea_mul1 : forall x, f1 *. x = x;
  ea_sub0 : forall x, x -. f0 = x;
  ea_tele : forall a x y, (a +. x) +. (y -. x) = a +. y;
  ea_round : forall x, around32 ar x = x
}.

Definition okb (M : mat) : bool := Nat.eqb (snd (chol_ex M)) 0.
Definition fac (M : mat) : mat := fst (chol_ex M).
Definition J (jitter : F) (k : nat) : F := jitter *. pow10 ar k.
Definition Jprev (jitter : F) (i : nat) : F := match i with O => f0 | S k => J jitter k end.
Definition shift (M : mat) (d : F) : mat := add_diag ar M d.

(* one member, one execution of the `add_` statement at loop index i *)
Definition mstep (d32 : bool) (jitter : F) (i : nat) (M : mat) : mat :=
  add_diag ar M (mask ar (snd (chol_ex M)) *. cast_default ar d32 (J jitter i -. Jprev jitter i)).

(* value of Aprime[b] when iteration i is entered *)
Fixpoint mtraj (d32 : bool) (jitter : F) (M : mat) (i : nat) : mat :=
  match i with O => M | S k => mstep d32 jitter k (mtraj d32 jitter M k) end.

(* first k in [k0, k0+fuel) with  chol_ex (M + jitter 10^k I)  successful *)
Fixpoint first_ok (jitter : F) (M : mat) (k0 fuel : nat) : option nat :=
  match fuel with
  | O => None
  | S f => if okb (shift M (J jitter k0)) then Some k0 else first_ok jitter M (S k0) f
  end.

(* closed form of mtraj *)
Definition mclosed (jitter : F) (M : mat) (i : nat) : mat :=
  if okb M then M else
  match first_ok jitter M 0 i with
  | Some k => shift M (J jitter k)
  | None => match i with O => M | S i' => shift M (J jitter i') end
  end.

(* --------------------------------------------------------------- first_ok *)
Lemma first_ok_snoc jitter M k0 f :
  first_ok jitter M k0 (S f) =
  match first_ok jitter M k0 f with
  | Some x => Some x
  | None => if okb (shift M (J jitter (k0 + f))) then Some (k0 + f) else None
  end.
Proof.
  revert k0; induction f as [|f IH]; intros k0.
  - simpl. rewrite Nat.add_0_r. destruct (okb _); auto.
  - change (first_ok jitter M k0 (S (S f))) with
      (if okb (shift M (J jitter k0)) then Some k0 else first_ok jitter M (S k0) (S f)).
    rewrite IH. simpl first_ok at 2.
    destruct (okb (shift M (J jitter k0))); auto.
    replace (S k0 + f) with (k0 + S f) by lia. reflexivity.
Qed.

Lemma first_ok_some jitter M k0 f k :
  first_ok jitter M k0 f = Some k ->
  k0 <= k < k0 + f /\ okb (shift M (J jitter k)) = true /\
  (forall k', k0 <= k' < k -> okb (shift M (J jitter k')) = false).
Proof.
  revert k0; induction f as [|f IH]; intros k0; simpl; [discriminate|].
  destruct (okb (shift M (J jitter k0))) eqn:E.
  - intros [= <-]. repeat split; try lia; auto.
  - intros H. apply IH in H as (H1 & H2 & H3). repeat split; try lia; auto.
    intros k' Hk. destruct (Nat.eq_dec k' k0) as [->|]; auto. apply H3; lia.
Qed.

Lemma first_ok_none jitter M k0 f :
  first_ok jitter M k0 f = None -> forall k, k0 <= k < k0 + f -> okb (shift M (J jitter k)) = false.
Proof.
  revert k0; induction f as [|f IH]; intros k0; simpl; intros H k Hk; [lia|].
  destruct (okb (shift M (J jitter k0))) eqn:E; [discriminate|].
  destruct (Nat.eq_dec k k0) as [->|]; auto. apply (IH (S k0)); auto; lia.
Qed.

Lemma first_ok_complete jitter M k0 f k :
  k0 <= k < k0 + f -> okb (shift M (J jitter k)) = true ->
  exists k1, first_ok jitter M k0 f = Some k1 /\ k1 <= k.
Proof.
  intros Hk Ho. destruct (first_ok jitter M k0 f) as [k1|] eqn:E.
  - exists k1; split; auto. apply first_ok_some in E as (H1 & H2 & H3).
    destruct (le_lt_dec k1 k); auto. rewrite H3 in Ho; [discriminate|lia].
  - rewrite (first_ok_none _ _ _ _ E k Hk) in Ho. discriminate.
Qed.

(* --------------------------------------------------------------- add_diag under exact arithmetic *)
Hypothesis EA : ExactArith.

Lemma add_diag_from_0 i M : add_diag_from ar i M f0 = M.
Proof.
  revert i; induction M as [|r rs IH]; intros i; simpl; auto.
  rewrite IH, upd_nth_same; auto. intros; apply (ea_add0 EA).
Qed.

Lemma add_diag_from_tele i M x y :
  add_diag_from ar i (add_diag_from ar i M x) (y -. x) = add_diag_from ar i M y.
Proof.
  revert i; induction M as [|r rs IH]; intros i; simpl; auto.
  rewrite IH, upd_nth_comp. f_equal. apply upd_nth_ext. intros; apply (ea_tele EA).
Qed.

Lemma shift_0 M : shift M f0 = M.
Proof. apply add_diag_from_0. Qed.
Lemma shift_tele M x y : shift (shift M x) (y -. x) = shift M y.
Proof. apply add_diag_from_tele. Qed.

Lemma cast_id d32 x : cast_default ar d32 x = x.
Proof. unfold cast_default. destruct d32; auto. apply (ea_round EA). Qed.

Lemma mstep_ok d32 jitter i M : okb M = true -> mstep d32 jitter i M = M.
Proof.
  unfold okb, mstep. intros H. apply Nat.eqb_eq in H. rewrite H. unfold mask. simpl.
  rewrite (ea_mul0 EA). apply shift_0.
Qed.

Lemma mstep_bad d32 jitter i M : okb M = false -> mstep d32 jitter i M = shift M (J jitter i -. Jprev jitter i).
Proof.
  unfold okb, mstep. intros H. apply Nat.eqb_neq in H. unfold mask.
  destruct (snd (chol_ex M)) as [|k]; [congruence|]. simpl Nat.ltb. cbv iota.
  rewrite (ea_mul1 EA), cast_id. reflexivity.
Qed.

(* the telescope: what a member carries when iteration i is entered *)
Lemma mtraj_closed d32 jitter M i : mtraj d32 jitter M i = mclosed jitter M i.
Proof.
  induction i as [|i IH].
  - unfold mclosed. simpl. destruct (okb M); auto.
  - simpl mtraj. rewrite IH. unfold mclosed. destruct (okb M) eqn:EM.
    + apply mstep_ok; auto.
    + rewrite first_ok_snoc. simpl plus.
      destruct (first_ok jitter M 0 i) as [k|] eqn:E.
      * apply first_ok_some in E as (_ & Hk & _). apply mstep_ok; auto.
      * assert (Hbad : okb (match i with O => M | S i' => shift M (J jitter i') end) = false).
        { destruct i as [|i']; auto. apply (first_ok_none _ _ _ _ E); lia. }
        rewrite mstep_bad by exact Hbad.
        assert (Hs : shift (match i with O => M | S i' => shift M (J jitter i') end)
                           (J jitter i -. Jprev jitter i) = shift M (J jitter i)).
        { destruct i as [|i']; simpl Jprev.
          - rewrite (ea_sub0 EA). reflexivity.
          - apply shift_tele. }
        rewrite Hs. destruct (okb (shift M (J jitter i))); reflexivity.
Qed.


(* --------------------------------------------------------------- the whole batch *)
Definition traj (d32 : bool) (jitter : F) (As : list mat) (i : nat) : list mat :=
  map (fun M => mtraj d32 jitter M i) As.
Definition allok (Ms : list mat) : bool := forallb okb Ms.

(* first loop index m in [i, i+t) after whose `add_` every member factorises *)
Fixpoint first_allok (d32 : bool) (jitter : F) (As : list mat) (i t : nat) : option nat :=
  match t with
  | O => None
  | S t' => if allok (traj d32 jitter As (S i)) then Some i else first_allok d32 jitter As (S i) t'
  end.

End Loop.

(* lemmas that need no arithmetic law at all *)
Section LoopGeneric.
Variable F : Type.
Variable ar : Arith F.
Variable chol_ex : matrix F -> matrix F * nat.
Notation mat := (matrix F).
Notation okb := (okb F chol_ex).
Notation fac := (fac F chol_ex).
Notation allok := (allok F chol_ex).
Notation traj := (traj F ar chol_ex).
Notation first_allok := (first_allok F ar chol_ex).
Notation J := (J F ar).
Notation Jprev := (Jprev F ar).

Lemma any_info_allok Ms : any_info (cholesky_ex chol_ex Ms) = negb (allok Ms).
Proof.
  unfold any_info, cholesky_ex, allok. induction Ms as [|M r IH]; simpl; auto.
  rewrite IH. unfold ProofsLoop.okb. destruct (Nat.eqb (snd (chol_ex M)) 0); reflexivity.
Qed.

Lemma map2_map_self {X Y Z} (f : X -> Y -> Z) (g : X -> Y) l : map2 f l (map g l) = map (fun x => f x (g x)) l.
Proof. induction l as [|x r IH]; simpl; auto. rewrite IH; auto. Qed.

Lemma traj_step d32 jitter As i :
  map2 (add_diag ar) (traj d32 jitter As i)
       (map (fun inf => amul ar (mask ar inf) (cast_default ar d32 (asub ar (J jitter i) (Jprev jitter i))))
            (map (fun M => snd (chol_ex M)) (traj d32 jitter As i)))
  = traj d32 jitter As (S i).
Proof.
  rewrite map_map, map2_map_self. unfold ProofsLoop.traj. rewrite map_map. reflexivity.
Qed.

Lemma first_allok_range d32 jitter As i t m : first_allok d32 jitter As i t = Some m -> i <= m < i + t.
Proof.
  revert i; induction t as [|t IH]; intros i; simpl; [discriminate|].
  destruct (allok _); [intros [= <-]; lia|]. intros H; apply IH in H; lia.
Qed.

Lemma first_allok_some d32 jitter As i t m :
  first_allok d32 jitter As i t = Some m ->
  allok (traj d32 jitter As (S m)) = true /\ forall m', i <= m' < m -> allok (traj d32 jitter As (S m')) = false.
Proof.
  revert i; induction t as [|t IH]; intros i; simpl; [discriminate|].
  destruct (allok (traj d32 jitter As (S i))) eqn:E.
  - intros [= <-]. split; auto. intros; lia.
  - intros H. destruct (IH _ H) as [H1 H2]. split; auto.
    intros m' Hm. destruct (Nat.eq_dec m' i) as [->|]; auto. apply H2; lia.
Qed.

Lemma first_allok_none d32 jitter As i t :
  first_allok d32 jitter As i t = None -> forall m, i <= m < i + t -> allok (traj d32 jitter As (S m)) = false.
Proof.
  revert i; induction t as [|t IH]; intros i; simpl; intros H m Hm; [lia|].
  destruct (allok (traj d32 jitter As (S i))) eqn:E; [discriminate|].
  destruct (Nat.eq_dec m i) as [->|]; auto. apply (IH (S i)); auto; lia.
Qed.

Lemma rd_wr (h : mem F) p v : p < length h -> rd (wr h p v) p = v.
Proof. intros H. unfold rd, wr. rewrite nth_upd_nth_eq; auto. Qed.
Lemma rd_wr_other (h : mem F) p q v : p <> q -> rd (wr h p v) q = rd h q.
Proof. intros H. unfold rd, wr. apply nth_upd_nth_neq; auto. Qed.
Lemma wr_rd (h : mem F) p : wr h p (rd h p) = h.
Proof. unfold rd, wr. apply upd_nth_const_nth. Qed.
Lemma wr_wr (h : mem F) p v w : wr (wr h p v) p w = wr h p w.
Proof. unfold wr. apply upd_nth_const_twice. Qed.
Lemma wr_length (h : mem F) p v : length (wr h p v) = length h.
Proof. apply upd_nth_length. Qed.

(* the for-loop, entered at index i with Aprime = traj i, runs to the first all-ok index *)
Lemma for_loop_spec d32 jitter As : forall t i h p warns,
  p < length h -> rd h p = traj d32 jitter As i ->
  for_loop ar chol_ex d32 t i jitter (Jprev jitter i) h p (map (fun M => snd (chol_ex M)) (rd h p)) warns =
  match first_allok d32 jitter As i t with
  | Some m => (Ok (map fac (traj d32 jitter As (S m))) (warns ++ map (J jitter) (seq i (S m - i))),
               wr h p (traj d32 jitter As (S m)))
  | None => (match i + t with
             | O => ErrUnbound
             | S _ => ErrNotPSD (warns ++ map (J jitter) (seq i t)) (Jprev jitter (i + t))
             end, wr h p (traj d32 jitter As (i + t)))
  end.
Proof.
  induction t as [|t IH]; intros i h p warns Hp Hrd.
  - simpl. rewrite Nat.add_0_r, app_nil_r, <- Hrd, wr_rd. destruct i; reflexivity.
  - cbn [for_loop first_allok].
    change (amul ar jitter (pow10 ar i)) with (J jitter i).
    rewrite Hrd, traj_step.
    rewrite rd_wr by exact Hp.
    rewrite any_info_allok.
    destruct (allok (traj d32 jitter As (S i))) eqn:E; cbn [negb].
    + replace (S i - i) with 1 by lia. cbn [seq map]. unfold cholesky_ex. rewrite map_map. reflexivity.
    + unfold cholesky_ex at 1. rewrite map_map.
      specialize (IH (S i) (wr h p (traj d32 jitter As (S i))) p (warns ++ [J jitter i])).
      rewrite rd_wr in IH by exact Hp.
      cbn [ProofsLoop.Jprev] in IH. fold (J jitter i) in IH.
      rewrite IH; [| rewrite wr_length; exact Hp | reflexivity].
      destruct (first_allok d32 jitter As (S i) t) as [m|] eqn:Em.
      * apply first_allok_range in Em. rewrite wr_wr, <- app_assoc. cbn [app].
        replace (S m - i) with (S (S m - S i)) by lia. cbn [seq map]. reflexivity.
      * rewrite wr_wr, <- app_assoc. cbn [app]. replace (S i + t) with (i + S t) by lia.
        cbn [seq map]. reflexivity.
Qed.

(* the for-loop never writes to a buffer other than Aprime *)
Lemma for_loop_frame d32 jitter : forall t i jprev h p info warns q,
  p <> q -> rd (snd (for_loop ar chol_ex d32 t i jitter jprev h p info warns)) q = rd h q.
Proof.
  induction t as [|t IH]; intros i jprev h p info warns q Hpq; cbn [for_loop].
  - reflexivity.
  - destruct (any_info _).
    + rewrite IH by exact Hpq. apply rd_wr_other; auto.
    + cbn [snd]. apply rd_wr_other; auto.
Qed.

(* ---------------------------------------------------------------- top level, heap [A] *)
Definition eff_jitter (st : settings F) (dt : dtype) (jitter : option F) : F :=
  match jitter with Some j => j | None => cholesky_jitter_value st dt end.
Definition eff_tries (st : settings F) (max_tries : option Z) : nat :=
  Z.to_nat (match max_tries with Some m => m | None => cmt_value st end).

Lemma core_spec st d32 dt A jitter max_tries :
  _psd_safe_cholesky ar chol_ex st d32 dt [A] 0 jitter max_tries =
  if trace_on st || allok A then (Ok (map fac A) [], [A])
  else if existsb (has_nan ar) A then (ErrNan, [A])
  else
    let j := eff_jitter st dt jitter in
    let t := eff_tries st max_tries in
    match first_allok d32 j A 0 t with
    | Some m => (Ok (map fac (traj d32 j A (S m))) (map (J j) (seq 0 (S m))), [A; traj d32 j A (S m)])
    | None => (match t with
               | O => ErrUnbound
               | S _ => ErrNotPSD (map (J j) (seq 0 t)) (Jprev j t)
               end, [A; traj d32 j A t])
    end.
Proof.
  unfold _psd_safe_cholesky. cbn [rd nth]. rewrite any_info_allok.
  unfold cholesky_ex at 1. rewrite map_map.
  destruct (trace_on st || allok A) eqn:E1.
  - rewrite negb_involutive in *. rewrite E1. reflexivity.
  - rewrite negb_involutive, E1.
    destruct (existsb (has_nan ar) A); [reflexivity|].
    unfold clone. cbn [rd nth app length].
    fold (eff_jitter st dt jitter). fold (eff_tries st max_tries).
    cbv zeta.
    pose proof (for_loop_spec d32 (eff_jitter st dt jitter) A (eff_tries st max_tries) 0 [A; A] 1 []) as H.
    cbn [rd nth length ProofsLoop.Jprev] in H.
    unfold cholesky_ex. rewrite map_map.
    rewrite H; [| lia | unfold ProofsLoop.traj; cbn [mtraj]; rewrite map_id; reflexivity].
    destruct (first_allok d32 (eff_jitter st dt jitter) A 0 (eff_tries st max_tries)) as [m|].
    + rewrite Nat.sub_0_r. reflexivity.
    + reflexivity.
Qed.

End LoopGeneric.
