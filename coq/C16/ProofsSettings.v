(* C16 — where jitter / max_tries come from (explicit argument, settings contexts, nesting, defaults), the ladder
   jitter * 10^i, and the boundary value jitter = 0 ("never perturb: fail loudly"). *)
From Coq Require Import List Bool Arith ZArith Lia.
Import ListNotations.
Require Import C16.Model C16.ProofsLoop C16.ProofsMain.

(* ------------------------------------------------------------------ settings contexts (no arithmetic involved) *)
Section Contexts.
Variable F : Type.
Notation context := (context F).

(* specification: scanning the stack of open contexts from the innermost one, the first that SPECIFIES the value
   (for cholesky_jitter: a non-None argument in the slot of the dtype; any value, 0 included) *)
Fixpoint innermost_jitter (dt : dtype) (cs : list context) : option F :=
  match cs with
  | [] => None
  | c :: r => match innermost_jitter dt r with
              | Some v => Some v
              | None => match c with CtxJitter fv dv hv => jitter_slot dt fv dv hv | _ => None end
              end
  end.
Fixpoint innermost_tries (cs : list context) : option Z :=
  match cs with
  | [] => None
  | c :: r => match innermost_tries r with
              | Some v => Some v
              | None => match c with CtxMaxTries v => Some v | _ => None end
              end
  end.
Fixpoint innermost_trace (cs : list context) : option bool :=
  match cs with
  | [] => None
  | c :: r => match innermost_trace r with
              | Some v => Some v
              | None => match c with CtxTrace b => Some b | _ => None end
              end
  end.

Lemma set_jitter_value (st : settings F) fv dv hv dt :
  cholesky_jitter_value (set_cholesky_jitter st fv dv hv) dt =
  match jitter_slot dt fv dv hv with Some v => v | None => cholesky_jitter_value st dt end.
Proof. destruct dt, fv, dv, hv; reflexivity. Qed.

Lemma enter_all_jitter (st : settings F) cs dt :
  cholesky_jitter_value (enter_all st cs) dt =
  match innermost_jitter dt cs with Some v => v | None => cholesky_jitter_value st dt end.
Proof.
  revert st; induction cs as [|c r IH]; intros st; [reflexivity|].
  unfold enter_all in *. cbn [fold_left innermost_jitter]. rewrite IH.
  destruct (innermost_jitter dt r); [reflexivity|].
  destruct c as [fv dv hv|v|b]; cbn [enter]; [apply set_jitter_value| |]; destruct dt; reflexivity.
Qed.

Lemma enter_all_tries (st : settings F) cs :
  cmt_value (enter_all st cs) = match innermost_tries cs with Some v => v | None => cmt_value st end.
Proof.
  revert st; induction cs as [|c r IH]; intros st; [reflexivity|].
  unfold enter_all in *. cbn [fold_left innermost_tries]. rewrite IH.
  destruct (innermost_tries r); [reflexivity|]. destruct c; reflexivity.
Qed.

Lemma enter_all_trace (st : settings F) cs :
  trace_on (enter_all st cs) = match innermost_trace cs with Some v => v | None => trace_on st end.
Proof.
  revert st; induction cs as [|c r IH]; intros st; [reflexivity|].
  unfold enter_all in *. cbn [fold_left innermost_trace]. rewrite IH.
  destruct (innermost_trace r); [reflexivity|]. destruct c; reflexivity.
Qed.

End Contexts.

(* ------------------------------------------------------------------ the ladder, any arithmetic *)
Section Ladder.
Variable F : Type.
Variable ar : Arith F.
Variable chol_ex : matrix F -> matrix F * nat.
Notation J := (J F ar).
Notation allok := (allok F chol_ex).

(* the jitters announced by the warnings of a result *)
Definition warnings_of (r : result F) : list F :=
  match r with Ok _ w => w | ErrNotPSD w _ => w | _ => [] end.

(* whatever the outcome: the i-th try announces (and, C16_telescope, has on the diagonal) exactly jitter * 10^i,
   and there are at most max_tries tries *)
Lemma psc_ladder st d32 dt n A upper jitter max_tries :
  let j := eff_jitter F st dt jitter in
  let w := warnings_of (fst (psc ar chol_ex st d32 dt n A upper jitter max_tries)) in
  w = map (J j) (seq 0 (length w)) /\ length w <= eff_tries F st max_tries.
Proof.
  intros j w. subst w. rewrite psc_unfold, core_spec. cbn [fst].
  destruct (trace_on st || allok A); [split; [reflexivity|cbn; lia]|].
  destruct (existsb (has_nan ar) A); [split; [reflexivity|cbn; lia]|].
  cbv zeta. fold j.
  destruct (first_allok F ar chol_ex d32 j A 0 (eff_tries F st max_tries)) as [m|] eqn:Em.
  - cbn [fst warnings_of]. rewrite map_length, seq_length. split; [reflexivity|].
    pose proof (first_allok_range _ _ _ _ _ _ _ _ _ Em). lia.
  - cbn [fst]. destruct (eff_tries F st max_tries) as [|t]; cbn [warnings_of]; [split; [reflexivity|cbn; lia]|].
    rewrite map_length, seq_length. split; [reflexivity|lia].
Qed.

Lemma pow10_unfold i : pow10 ar (S i) = amul ar (pow10 ar i) (a10 ar).
Proof. reflexivity. Qed.

End Ladder.

Lemma J_Z j i : ProofsLoop.J Z ArZ j i = (j * 10 ^ Z.of_nat i)%Z.
Proof.
  unfold ProofsLoop.J. cbn [amul ArZ]. f_equal.
  induction i as [|i IH]; [reflexivity|].
  rewrite Nat2Z.inj_succ, Z.pow_succ_r by lia. cbn [pow10]. rewrite IH. cbn [amul a10 ArZ]. ring.
Qed.

(* ------------------------------------------------------------------ jitter = 0, exact arithmetic *)
Section ZeroJitter.
Variable F : Type.
Variable ar : Arith F.
Variable chol_ex : matrix F -> matrix F * nat.
Hypothesis EA : ExactArith F ar.
Notation J := (J F ar).
Notation allok := (allok F chol_ex).
Notation f0 := (a0 ar).

Lemma J_zero k : J f0 k = f0.
Proof. unfold ProofsLoop.J. apply (ea_mul0 F ar EA). Qed.

Lemma ladder_zero t : map (J f0) (seq 0 t) = repeat f0 t.
Proof.
  generalize 0. induction t as [|t IH]; intros s; [reflexivity|].
  cbn [seq map repeat]. rewrite J_zero, IH. reflexivity.
Qed.

Lemma hopeless_zero t M : okb F chol_ex M = false -> hopeless F ar chol_ex f0 t M.
Proof.
  intros H. split; [exact H|]. intros k _. rewrite J_zero, (shift_0 F ar EA). exact H.
Qed.

(* jitter 0 (argument, settings value or default): a batch with a member whose plain factorisation fails is never
   repaired — NotPSDError after max_tries warnings that all announce 0 (the transcribed UnboundLocalError when
   max_tries <= 0); in particular never a normal return *)
Lemma psc_zero_jitter st d32 dt n A upper jitter max_tries :
  trace_on st = false -> allok A = false -> existsb (has_nan ar) A = false ->
  eff_jitter F st dt jitter = f0 ->
  psc ar chol_ex st d32 dt n A upper jitter max_tries =
  (match eff_tries F st max_tries with
   | O => ErrUnbound
   | S t' => ErrNotPSD (repeat f0 (S t')) f0
   end, A).
Proof.
  intros Ht H0 Hn Hj.
  destruct (eff_tries F st max_tries) as [|t'] eqn:Et.
  - apply psc_no_tries; assumption.
  - destruct (allok_false_ex F chol_ex A H0) as (M & HM & Hbad).
    rewrite (psc_not_psd F ar chol_ex EA st d32 dt n A upper jitter max_tries t' Ht H0 Hn Et).
    + rewrite Hj, ladder_zero, J_zero. reflexivity.
    + exists M. split; [exact HM|]. rewrite Hj. apply hopeless_zero; exact Hbad.
Qed.

Lemma psc_zero_jitter_never_ok st d32 dt n A upper jitter max_tries L w :
  trace_on st = false -> allok A = false ->
  eff_jitter F st dt jitter = f0 ->
  fst (psc ar chol_ex st d32 dt n A upper jitter max_tries) <> Ok L w.
Proof.
  intros Ht H0 Hj.
  destruct (existsb (has_nan ar) A) eqn:Hn.
  - rewrite (psc_nan F ar chol_ex st d32 dt n A upper jitter max_tries Ht H0 Hn). discriminate.
  - rewrite (psc_zero_jitter st d32 dt n A upper jitter max_tries Ht H0 Hn Hj).
    destruct (eff_tries F st max_tries); discriminate.
Qed.

(* the same when the 0 arrives through a settings context (the seeded regression "x or previous" in _set_value):
   innermost context that specifies the slot of the dtype says 0, no explicit argument *)
Lemma psc_zero_jitter_via_context st0 cs d32 dt n A upper max_tries L w :
  trace_on (enter_all st0 cs) = false -> allok A = false ->
  innermost_jitter F dt cs = Some f0 ->
  fst (psc ar chol_ex (enter_all st0 cs) d32 dt n A upper None max_tries) <> Ok L w.
Proof.
  intros Ht H0 Hi. apply psc_zero_jitter_never_ok; auto.
  cbn [eff_jitter]. rewrite enter_all_jitter, Hi. reflexivity.
Qed.

End ZeroJitter.

(* ------------------------------------------------------------------ balanced histories of __enter__ / __exit__ *)
Section Histories.
Variable F : Type.
Notation context := (context F).

(* well-nested sequences; the SAME object may occur again inside its own bracket (re-entrant use) or later (re-use) *)
Inductive balanced : list event -> Prop :=
| bal_nil : balanced []
| bal_app w1 w2 : balanced w1 -> balanced w2 -> balanced (w1 ++ w2)
| bal_wrap k w : balanced w -> balanced (Enter k :: w ++ [Exit k]).

Lemma restore_enter (c : context) (st : settings F) : restore c st (enter st c) = st.
Proof. destruct c, st; reflexivity. Qed.

Lemma run_app (objs : list context) w e1 e2 : run objs w (e1 ++ e2) = run objs (run objs w e1) e2.
Proof. unfold run. apply fold_left_app. Qed.

Lemma run_length (objs : list context) evs : forall st stacks, length (snd (run objs (st, stacks) evs)) = length stacks.
Proof.
  induction evs as [|e r IH]; intros st stacks; [reflexivity|].
  unfold run in *. cbn [fold_left]. destruct e as [k|k]; cbn [step].
  - destruct (nth_error objs k); [rewrite IH, upd_nth_length; reflexivity|apply IH].
  - destruct (nth_error objs k); [|apply IH].
    destruct (nth k stacks []); [apply IH|rewrite IH, upd_nth_length; reflexivity].
Qed.

(* after a balanced history the global settings AND every object's stack are exactly what they were: for any nesting depth,
   any mixture of objects, the same object any number of times *)
Lemma run_balanced (objs : list context) evs : balanced evs ->
  forall st stacks, length objs <= length stacks -> run objs (st, stacks) evs = (st, stacks).
Proof.
  induction 1 as [|w1 w2 _ IH1 _ IH2|k w _ IH]; intros st stacks Hl.
  - reflexivity.
  - rewrite run_app, IH1, IH2; auto.
  - change (Enter k :: w ++ [Exit k]) with ([Enter k] ++ w ++ [Exit k]). rewrite !run_app.
    unfold run at 3. cbn [fold_left step].
    destruct (nth_error objs k) as [c|] eqn:Ec.
    + assert (Hk : k < length stacks).
      { apply Nat.lt_le_trans with (length objs); [|exact Hl]. apply nth_error_Some. congruence. }
      rewrite IH by (rewrite upd_nth_length; exact Hl).
      unfold run. cbn [fold_left step]. rewrite Ec.
      rewrite nth_upd_nth_eq by exact Hk. rewrite restore_enter, upd_nth_comp.
      f_equal. apply upd_nth_same. reflexivity.
    + rewrite IH by exact Hl. unfold run. cbn [fold_left step]. rewrite Ec. reflexivity.
Qed.

End Histories.

Section CallAfterHistory.
Variable F : Type.
Variable ar : Arith F.
Variable chol_ex : matrix F -> matrix F * nat.

Lemma psc_after_balanced (objs : list (context F)) evs st stacks d32 dt n A upper jitter max_tries :
  balanced evs -> length objs <= length stacks ->
  psc ar chol_ex (fst (run objs (st, stacks) evs)) d32 dt n A upper jitter max_tries
  = psc ar chol_ex st d32 dt n A upper jitter max_tries.
Proof. intros H1 H2. rewrite (run_balanced F objs evs H1 st stacks H2). reflexivity. Qed.

End CallAfterHistory.
