(* C16 — executable model of linear_operator/utils/cholesky.py (psd_safe_cholesky) and of the
   dense `_cholesky` / `cholesky` path of operators/_linear_operator.py.

   Definitions only.  Everything is polymorphic in an arithmetic record `Arith F`; the same terms
   are (i) executed on PrimFloat (binary64) by the correspondence shards (Check.v) and
   (ii) reasoned about over exact arithmetic (Proofs*.v: any `F` with the ring laws `ExactArith`,
   resp. any MathComp `rcfType` for the factorisation kernel).

   Batches: a batched tensor `(batch.., n, n)` is the row-major list of its members (`list matrix`);
   the library code never looks at the batch shape except through elementwise / per-member
   primitives, so the flattened list is the whole story (the harness flattens (), (2,), (2,3), (0,)…).

   Memory: tensors live in a heap `mem` (storage id -> contents) so that `A.clone()` and the
   in-place `Aprime.diagonal().add_(…)` are explicit; `psc_input_unchanged` is about that heap. *)
From Coq Require Import List Bool Arith ZArith.
Import ListNotations.

Set Implicit Arguments.

Record Arith (F : Type) := MkArith {
  a0 : F; a1 : F; a10 : F;
  aadd : F -> F -> F; asub : F -> F -> F; amul : F -> F -> F; adiv : F -> F -> F;
  asqrt : F -> F;
  agtb : F -> F -> bool;       (* x > y ; false when either side is NaN *)
  aisnan : F -> bool;
  around32 : F -> F            (* value -> torch.float32 -> back (identity in exact arithmetic) *)
}.

Definition matrix (F : Type) := list (list F).

Inductive dtype := Float32 | Float64 | Float16.

(* the part of the global settings state that the code reads *)
Record settings (F : Type) := MkSettings {
  cj_float : F; cj_double : F; cj_half : F;     (* cholesky_jitter._global_{float,double,half}_value *)
  cmt_value : Z;                                 (* cholesky_max_tries._global_value *)
  trace_on : bool                                (* trace_mode.on() *)
}.

Inductive result (F : Type) :=
| Ok (L : list (matrix F)) (warns : list F)      (* returned factor(s); NumericalWarnings emitted (their jitter_new) *)
| ErrNan                                          (* NanError *)
| ErrNotPSD (warns : list F) (last : F)           (* NotPSDError after the warnings; `last` = jitter_new in the message *)
| ErrUnbound.                                     (* max_tries <= 0: `jitter_new` is unbound in the raise statement *)
Arguments ErrNan {F}.
Arguments ErrUnbound {F}.

Section Generic.
Variable F : Type.
Variable ar : Arith F.


(* ---------------------------------------------------------------- small tensor primitives *)

Fixpoint upd_nth {T} (i : nat) (f : T -> T) (l : list T) : list T :=
  match l, i with
  | [], _ => []
  | x :: r, O => f x :: r
  | x :: r, S k => x :: upd_nth k f r
  end.

(* M.diagonal(dim1=-1, dim2=-2).add_(d): d is added to M[i][i] for every row i *)
Fixpoint add_diag_from (i : nat) (M : matrix F) (d : F) : matrix F :=
  match M with
  | [] => []
  | r :: rs => upd_nth i (fun x => aadd ar x d) r :: add_diag_from (S i) rs d
  end.
Definition add_diag (M : matrix F) (d : F) : matrix F := add_diag_from O M d.

Fixpoint map2 {X Y Z} (f : X -> Y -> Z) (a : list X) (b : list Y) : list Z :=
  match a, b with
  | x :: a', y :: b' => f x y :: map2 f a' b'
  | _, _ => []
  end.

(* M.mT of a single member *)
Definition col (j : nat) (M : matrix F) : list F := map (fun r => nth j r (a0 ar)) M.
Definition transpose (n : nat) (M : matrix F) : matrix F := map (fun j => col j M) (seq O n).

Definition has_nan (M : matrix F) : bool := existsb (existsb (aisnan ar)) M.

(* 10**i as the library forms it (Python int, converted when multiplied with the float jitter;
   exact in binary64 for i <= 22) *)
Fixpoint pow10 (i : nat) : F :=
  match i with O => (a1 ar) | S k => amul ar (pow10 k) (a10 ar) end.

(* ---------------------------------------------------------------- the factorisation primitive
   torch.linalg.cholesky_ex on ONE member: (L, info).  Section variable here; instantiated by
   `chol_kernel` below for execution and for the closed theorems. *)
Variable chol_ex : matrix F -> matrix F * nat.

Definition cholesky_ex (A : list (matrix F)) : list (matrix F * nat) := map chol_ex A.
Definition any_info (r : list (matrix F * nat)) : bool := existsb (fun p => negb (Nat.eqb (snd p) O)) r.

(* ---------------------------------------------------------------- heap *)
Definition mem := list (list (matrix F)).
Definition rd (h : mem) (p : nat) : list (matrix F) := nth p h [].
Definition clone (h : mem) (p : nat) : mem * nat := (h ++ [rd h p], length h).
Definition wr (h : mem) (p : nat) (v : list (matrix F)) : mem := upd_nth p (fun _ => v) h.

(* (info > 0) as a 0/1 value *)
Definition mask (info : nat) : F := if Nat.ltb O info then (a1 ar) else (a0 ar).

(* `(info > 0) * (jitter_new - jitter_prev)`: bool tensor times Python float -> tensor of the DEFAULT
   dtype; with torch's default float32 the increment is rounded to binary32 before it is added *)
Definition cast_default (default32 : bool) (x : F) : F := if default32 then around32 ar x else x.

(* for i in range(max_tries): …   (t = iterations left, i = loop index) *)
Fixpoint for_loop (default32 : bool) (t i : nat) (jitter jitter_prev : F) (h : mem) (pAprime : nat)
         (info : list nat) (warns : list F) : result F * mem :=
  match t with
  | O =>
      (* raise NotPSDError(f"… up to {jitter_new:.1e}.")  — jitter_new is the last value assigned,
         which equals jitter_prev; if the loop never ran the name is unbound *)
      (match i with O => ErrUnbound | S _ => ErrNotPSD warns jitter_prev end, h)
  | S t' =>
      let jitter_new := amul ar jitter (pow10 i) in
      let diag_add := map (fun inf => amul ar (mask inf) (cast_default default32 (asub ar jitter_new jitter_prev))) info in
      let h' := wr h pAprime (map2 add_diag (rd h pAprime) diag_add) in       (* Aprime.diagonal().add_(diag_add) *)
      let warns' := warns ++ [jitter_new] in                                  (* warnings.warn(…, NumericalWarning) *)
      let r := cholesky_ex (rd h' pAprime) in                                 (* L, info = cholesky_ex(Aprime) *)
      if any_info r
      then for_loop default32 t' (S i) jitter jitter_new h' pAprime (map snd r) warns'
      else (Ok (map fst r) warns', h')
  end.

Definition cholesky_jitter_value (st : settings F) (dt : dtype) : F :=
  match dt with Float32 => cj_float st | Float64 => cj_double st | Float16 => cj_half st end.

(* _psd_safe_cholesky(A, out=None, jitter, max_tries) ; A is the tensor stored at pA *)
Definition _psd_safe_cholesky (st : settings F) (default32 : bool) (dt : dtype) (h : mem) (pA : nat)
           (jitter : option F) (max_tries : option Z) : result F * mem :=
  let r := cholesky_ex (rd h pA) in
  if trace_on st || negb (any_info r) then (Ok (map fst r) [], h)
  else if existsb has_nan (rd h pA) then (ErrNan, h)
  else
    let jitter := match jitter with Some j => j | None => cholesky_jitter_value st dt end in
    let max_tries := match max_tries with Some m => m | None => cmt_value st end in
    let '(h1, pAprime) := clone h pA in
    for_loop default32 (Z.to_nat max_tries) O jitter (a0 ar) h1 pAprime (map snd r) [].

(* psd_safe_cholesky(A, upper=False, out=None, jitter=None, max_tries=None); n = A.size(-1) *)
Definition psd_safe_cholesky (st : settings F) (default32 : bool) (dt : dtype) (n : nat) (h : mem) (pA : nat)
           (upper : bool) (jitter : option F) (max_tries : option Z) : result F * mem :=
  match _psd_safe_cholesky st default32 dt h pA jitter max_tries with
  | (Ok L w, h') => (Ok (if upper then map (transpose n) L else L) w, h')
  | e => e
  end.

(* the same, started from a heap that holds only A (what a caller observes) *)
Definition psc (st : settings F) (default32 : bool) (dt : dtype) (n : nat) (A : list (matrix F))
           (upper : bool) (jitter : option F) (max_tries : option Z) : result F * list (matrix F) :=
  let '(r, h) := psd_safe_cholesky st default32 dt n [A] O upper jitter max_tries in (r, rd h O).

(* ---------------------------------------------------------------- LinearOperator._cholesky / .cholesky
   on a dense-backed operator: size-1 shortcut `clamp_min(0).sqrt()`, otherwise psd_safe_cholesky;
   public `cholesky(upper)` = `_cholesky(upper=False)` followed by `_transpose_nonbatch()` *)
Definition clamp_min0 (x : F) : F := if agtb ar x (a0 ar) then x else if aisnan ar x then x else (a0 ar).

Definition op_cholesky (st : settings F) (default32 : bool) (dt : dtype) (n : nat) (A : list (matrix F))
           (upper : bool) : result F * mem :=
  let '(r, h) :=
    if Nat.eqb n 1%nat then (Ok (map (map (map (fun x => asqrt ar (clamp_min0 x)))) A) [], [A])
    else psd_safe_cholesky st default32 dt n [A] O false None None in
  match r with
  | Ok L w => (Ok (if upper then map (transpose n) L else L) w, h)
  | e => (e, h)
  end.

End Generic.

(* ---------------------------------------------------------------- Cholesky–Banachiewicz kernel
   (row by row; the instance of `chol_ex` used for execution and for the closed theorems).
   During the computation row j of L is the list l_j0 … l_jj (length j+1). *)
Section Kernel.
Variable F : Type.
Variable ar : Arith F.

(* s - sum_k u_k v_k over the common prefix, accumulated left to right *)
Fixpoint sub_dot (s : F) (u v : list F) : F :=
  match u, v with
  | x :: u', y :: v' => sub_dot (asub ar s (amul ar x y)) u' v'
  | _, _ => s
  end.

(* entries l_i0 … l_i(i-1) of row i: `prev` = the rows j, j+1, … of L still to be visited,
   `arow` = a_ij, a_i(j+1), …, `acc` = l_i0 … l_i(j-1) *)
Fixpoint row_entries (prev : list (list F)) (arow : list F) (acc : list F) : list F :=
  match prev, arow with
  | rj :: prev', aij :: arow' =>
      let s := sub_dot aij acc rj in
      row_entries prev' arow' (acc ++ [adiv ar s (last rj (a0 ar))])
  | _, _ => acc
  end.

(* rows i, i+1, … of A still to be factorised; Lrows = rows 0 … i-1 of L.
   info = 0 on success, otherwise (1-based) index of the first pivot that is not > 0 (NaN included) *)
Fixpoint chol_rows (Arows : list (list F)) (i : nat) (Lrows : list (list F)) : list (list F) * nat :=
  match Arows with
  | [] => (Lrows, O)
  | arow :: Arest =>
      let acc := row_entries Lrows arow [] in
      let d := sub_dot (nth i arow (a0 ar)) acc acc in
      if agtb ar d (a0 ar) then chol_rows Arest (S i) (Lrows ++ [acc ++ [asqrt ar d]])
      else (Lrows, S i)
  end.

(* zero-fill to n x n (cholesky_ex returns a full square tensor with a zero upper triangle) *)
Definition pad_row (n : nat) (r : list F) : list F := r ++ repeat (a0 ar) (n - length r).
Definition pad (n : nat) (L : list (list F)) : matrix F :=
  map (pad_row n) L ++ repeat (repeat (a0 ar) n) (n - length L).

Definition chol_kernel (A : matrix F) : matrix F * nat :=
  let '(L, info) := chol_rows A O [] in (pad (length A) L, info).

End Kernel.

(* ---------------------------------------------------------------- the settings contexts themselves
   (linear_operator/settings.py).  `settings.cholesky_jitter` is a `_dtype_value_context`, `settings.cholesky_max_tries`
   a `_value_context`, `settings.trace_mode` a `_feature_flag`; `__enter__` calls `_set_value` / `_set_state` with the
   constructor arguments.  The state a `with` body sees is modelled here; that `__exit__` restores the previous
   state is the subject of C17. *)
Section SettingsContexts.
Variable F : Type.

(* _dtype_value_context._set_value(float_value, double_value, half_value):
       if float_value is not None:  cls._global_float_value = float_value      (same for double, half)
   `None` = "not specified" keeps the value in force; every other value — 0.0 included — replaces it *)
Definition set_cholesky_jitter (st : settings F) (fv dv hv : option F) : settings F :=
  MkSettings (match fv with Some x => x | None => cj_float st end)
             (match dv with Some x => x | None => cj_double st end)
             (match hv with Some x => x | None => cj_half st end)
             (cmt_value st) (trace_on st).

(* _value_context._set_value(value):  cls._global_value = value *)
Definition set_cholesky_max_tries (st : settings F) (v : Z) : settings F :=
  MkSettings (cj_float st) (cj_double st) (cj_half st) v (trace_on st).

(* _feature_flag._set_state(state); on() = state when it is not None *)
Definition set_trace_mode (st : settings F) (b : bool) : settings F :=
  MkSettings (cj_float st) (cj_double st) (cj_half st) (cmt_value st) b.

Inductive context :=
| CtxJitter (fv dv hv : option F)      (* with settings.cholesky_jitter(float_value=fv, double_value=dv, half_value=hv): *)
| CtxMaxTries (v : Z)                   (* with settings.cholesky_max_tries(v): *)
| CtxTrace (b : bool).                  (* with settings.trace_mode(b): *)

Definition enter (st : settings F) (c : context) : settings F :=
  match c with
  | CtxJitter fv dv hv => set_cholesky_jitter st fv dv hv
  | CtxMaxTries v => set_cholesky_max_tries st v
  | CtxTrace b => set_trace_mode st b
  end.

(* with c1: with c2: … with ck: <body>   — the state the body runs in (outermost context first) *)
Definition enter_all (st : settings F) (cs : list context) : settings F := fold_left enter cs st.

(* the constructor argument of a cholesky_jitter context that belongs to dtype dt *)
Definition jitter_slot (dt : dtype) (fv dv hv : option F) : option F :=
  match dt with Float32 => fv | Float64 => dv | Float16 => hv end.

End SettingsContexts.
Arguments CtxMaxTries {F}.
Arguments CtxTrace {F}.

(* ---------------------------------------------------------------- histories of __enter__ / __exit__ on context OBJECTS
   Every context object keeps its own stack of saved values (`self._orig_*_values` / `self._orig_values` / `self._prev_states`):
   __enter__ pushes the values in force and sets its own, __exit__ pops and restores.  One object may be entered again while it is
   still open (re-entrant use) or after it was left (re-use).  `objs` = the context objects (by index), the state is the global
   settings together with one stack per object.  (The whole settings record is pushed; only the components the object's class owns
   are restored — the same as saving only those.) *)
Section SettingsHistories.
Variable F : Type.

Inductive event := Enter (k : nat) | Exit (k : nat).

Definition restore (c : context F) (saved st : settings F) : settings F :=
  match c with
  | CtxJitter _ _ _ => MkSettings (cj_float saved) (cj_double saved) (cj_half saved) (cmt_value st) (trace_on st)
  | CtxMaxTries _ => MkSettings (cj_float st) (cj_double st) (cj_half st) (cmt_value saved) (trace_on st)
  | CtxTrace _ => MkSettings (cj_float st) (cj_double st) (cj_half st) (cmt_value st) (trace_on saved)
  end.

Definition step (objs : list (context F)) (w : settings F * list (list (settings F))) (e : event)
  : settings F * list (list (settings F)) :=
  let '(st, stacks) := w in
  match e with
  | Enter k => match nth_error objs k with
               | Some c => (enter st c, upd_nth k (cons st) stacks)
               | None => w
               end
  | Exit k => match nth_error objs k, nth k stacks [] with
              | Some c, saved :: _ => (restore c saved st, upd_nth k (@tl _) stacks)
              | _, _ => w                                   (* pop from an empty list: IndexError in the library *)
              end
  end.

Definition run (objs : list (context F)) (w : settings F * list (list (settings F))) (evs : list event) :=
  fold_left (step objs) evs w.

End SettingsHistories.
