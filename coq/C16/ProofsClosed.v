(* C16 — every real closed field is an instance of the exact arithmetic the C16 theorems are stated over
   (`ExactField`, ProofsKernel.v), with `Num.sqrt`, `<`, no NaN and a cast that does not round.  The theorems of
   Property.v, section RealClosedField, are therefore hypothesis-free for every `R : rcfType`
   (the real algebraic numbers `realalg` are a concrete, axiom-free instance; the reals are another). *)
From mathcomp Require Import all_ssreflect all_algebra.
From mathcomp Require Import realalg.
From Coq Require Import Ring_theory.
Require Import C16.Model C16.ProofsKernel.
Import Order.Theory GRing.Theory Num.Theory.

Local Open Scope ring_scope.

(* aliases usable from files that do not import MathComp (Property.v) *)
Definition rcf : Type := rcfType.
Definition carrier (R : rcf) : Type := (R : rcfType).
(* the hypotheses are satisfiable: the real algebraic numbers are a real closed field (constructed, no axiom) *)
Definition realalg_rcf : rcf := [rcfType of realalg].

Section Rcf.
Variable R : rcfType.

Definition ArRcf : Arith (carrier R) :=
  {| a0 := 0; a1 := 1; a10 := 10%:R;
     aadd := +%R; asub := fun x y => x - y; amul := *%R; adiv := fun x y => x / y;
     asqrt := Num.sqrt;
     agtb := fun x y => y < x;
     aisnan := fun _ => false;
     around32 := id |}.

Lemma ArRcf_round (x : R) : around32 ArRcf x = x.
Proof. by []. Qed.

Lemma ArRcf_field : ExactField R ArRcf.
Proof.
split; rewrite /pos /aopp /=.
- split=> /=.
  + exact: add0r.
  + exact: addrC.
  + exact: addrA.
  + exact: mul1r.
  + exact: mulrC.
  + exact: mulrA.
  + exact: mulrDl.
  + by move=> x y; rewrite sub0r.
  + by move=> x; rewrite sub0r subrr.
- by move=> s y /eqP ny0; rewrite divfK.
- by move=> x y /eqP ny0; rewrite mulfK.
- by move=> x x0 xe; rewrite xe ltxx in x0.
- by move=> d d0; rewrite -expr2 sqr_sqrtr // ltW.
- by move=> d d0; rewrite sqrtr_gt0.
- by move=> g g0; rewrite mulr_gt0.
- by move=> g g0; rewrite -expr2 sqrtr_sqr gtr0_norm.
Qed.

End Rcf.
