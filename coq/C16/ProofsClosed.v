(* C16 — every real closed field is an instance of the exact arithmetic the C16 theorems are stated over
   (`ExactField`, ProofsKernel.v), with `Num.sqrt`, `<`, no NaN and a cast that does not round.  The theorems of
   Property.v, section RealClosedField, are therefore hypothesis-free for every `R : rcfType`
   (the real algebraic numbers `realalg` are a concrete, axiom-free instance; the reals are another). *)
From mathcomp Require Import all_ssreflect all_algebra.
From mathcomp Require Import realalg.
From Coq Require Import Ring_theory.
Require Import C16.Model C16.ProofsKernel.
Import Order.Theory GRing.Theory Num.Theory.

Local Open Scope ring_scope.

(* aliases usable from files that do not import MathComp (Property.v) *)
Definition rcf : Type := rcfType.
Definition carrier (R : rcf) : Type := (R : rcfType).
(* the hypotheses are satisfiable: the real algebraic numbers are a real closed field (constructed, no axiom) *)
Definition realalg_rcf : rcf := [rcfType of realalg].

Section Rcf.
Variable R : rcfType.

Definition ArRcf : Arith (carrier R) :=
  {| a0 := 0; a1 := 1; a10 := 10%:R;
     aadd := +%R; asub := fun x y => x - y; amul := *%R; adiv := fun x y => x / y;
     asqrt := Num.sqrt;
     agtb := fun x y => y < x;
     aisnan := fun _ => false;
     around32 := id |}.

Lemma ArRcf_round (x : R) : around32 ArRcf x = x.
Proof. by []. Qed.

Lemma ArRcf_field : ExactField R ArRcf.
Proof.
split; rewrite /pos /aopp /=.
- split=> /=.
  + exact: add0r.
  + exact: addrC.
  + exact: addrA.
  + exact: mul1r.
  + exact: mulrC.
  + exact: mulrA.
  + exact: mulrDl.
  + by move=> x y; rewrite sub0r.
  + by move=> x; rewrite sub0r subrr.
- by move=> s y /eqP ny0; rewrite divfK.
- by move=> x y /eqP ny0; rewrite mulfK.
- by move=> x x0 xe; rewrite xe ltxx in x0.
- by move=> d d0; rewrite -expr2 sqr_sqrtr // ltW.
- by move=> d d0; rewrite sqrtr_gt0.
- by move=> g g0; rewrite mulr_gt0.
- by move=> g g0; rewrite -expr2 sqrtr_sqr gtr0_norm.
Qed.

End Rcf.

(* ------------------------------------------------------------------ the factor in MathComp matrix form:
   for a symmetric input the returned (zero-filled) L satisfies  L *m L^T = M  as 'M[R]_n *)
Section Bridge.
Variable R : rcfType.
Notation arR := (ArRcf R).
Notation T := (carrier R).

(* list matrix -> MathComp matrix *)
Definition mx_of (n : nat) (M : matrix T) : 'M[R]_n := \matrix_(i, j) (ent T arR M i j : R).

Lemma dot_sum (n : nat) : forall (u v : list T), length u = n -> length v = n ->
  (dot T arR u v : R) = \sum_(k < n) (List.nth k u (0 : R)) * (List.nth k v (0 : R)).
Proof.
elim: n => [|n IH] [|x u] [|y v] //= Hu Hv.
- by rewrite big_ord0.
- rewrite big_ord_recl /=. congr (_ + _). apply: IH; congruence.
Qed.

(* stated as a definition so that Property.v (which does not import MathComp notations) can name it *)
Definition is_matrix_root (n : nat) (L M : matrix T) : Prop := mx_of n L *m (mx_of n L)^T = mx_of n M.

Theorem chol_spec_mx n (M L : matrix T) :
  chol_spec T arR n M L -> sym T arR n M -> is_matrix_root n L M.
Proof.
rewrite /is_matrix_root => Hs Hsym. apply/matrixP => i j. rewrite !mxE.
have Hi := ssrnat.ltP (ltn_ord i).
have Hj := ssrnat.ltP (ltn_ord j).
rewrite -(chol_spec_sym T arR (ArRcf_field R) n M L Hs Hsym i j Hi Hj).
have [Hl Hr] := cs_dims _ _ _ _ _ Hs.
rewrite (dot_sum n) ?Hr //.
by apply: eq_bigr => k _; rewrite !mxE.
Qed.
End Bridge.
