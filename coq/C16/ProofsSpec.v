(* C16 — the loop theorems (ProofsMain.v) composed with the kernel theorems (ProofsKernel.v): what
   psd_safe_cholesky returns when `cholesky_ex` IS the Cholesky–Banachiewicz kernel of Model.v, in exact
   arithmetic (`ExactField` + a cast to the default dtype that does not round).  Plain Coq. *)
From Coq Require Import List Bool Arith ZArith Lia Ring Ring_theory.
Import ListNotations.
Require Import C16.Model C16.ProofsLoop C16.ProofsMain C16.ProofsKernel.

Section Spec.
Variable F : Type.
Variable ar : Arith F.
Hypothesis EF : ExactField F ar.
Hypothesis Hround : forall x, around32 ar x = x.
Add Ring C16SpecRing : (ef_ring F ar EF).

Notation ck := (chol_kernel ar).
Notation okb := (okb F ck).
Notation fac := (fac F ck).
Notation J := (J F ar).
Notation shift := (shift F ar).

Lemma exact_of_field : ExactArith F ar.
Proof.
  split; intros; try ring. apply Hround.
Qed.

(* M (its lower triangle) has a Cholesky factor: rows l_i0 … l_ii with l_ii > 0 and (G G^T)_ij = M_ij, j <= i *)
Definition has_factor (n : nat) (M : matrix F) (G : list (list F)) : Prop :=
  length G = n /\ rowsOK F ar G /\
  forall i j, j <= i -> i < n -> ent F ar M i j = dot F ar (nth i G []) (nth j G []).

(* "numerically positive definite" in exact arithmetic = has a Cholesky factor = the kernel succeeds *)
Lemma okb_of_factor n M G : wf F n M -> has_factor n M G -> okb M = true /\ fac M = pad ar n G.
Proof.
  intros Hwf (H1 & H2 & H3). unfold ProofsLoop.okb, ProofsLoop.fac.
  rewrite (chol_kernel_complete F ar EF n G M H1 H2 Hwf H3). split; reflexivity.
Qed.

Lemma factor_of_okb n M : wf F n M -> okb M = true -> chol_spec F ar n M (fac M).
Proof.
  intros Hwf H. apply (chol_kernel_sound F ar EF n M Hwf). apply Nat.eqb_eq. exact H.
Qed.

Lemma no_factor_of_not_okb n M : wf F n M -> okb M = false -> forall G, ~ has_factor n M G.
Proof.
  intros Hwf H G HG. destruct (okb_of_factor n M G Hwf HG) as [H1 _]. congruence.
Qed.

Lemma Forall2_impl_in {X Y} (P P' : X -> Y -> Prop) (Q : X -> Prop) A L :
  Forall2 P A L -> Forall Q A -> (forall a l, P a l -> Q a -> P' a l) -> Forall2 P' A L.
Proof.
  intros H HQ Himp. induction H; constructor.
  - apply Himp; auto. inversion HQ; auto.
  - apply IHForall2. inversion HQ; auto.
Qed.

(* ---- every factor returned by a normal call is a Cholesky factor of exactly A_b or A_b + jitter*10^k I,
        k minimal (no smaller exponent gives a matrix that has a Cholesky factor) *)
Inductive returned_factor (n : nat) (jitter : F) (m : nat) (M L : matrix F) : Prop :=
| RF_exact :                          (* nothing was added to this member *)
    chol_spec F ar n M L -> returned_factor n jitter m M L
| RF_jitter (k : nat) :               (* exactly jitter*10^k was added, k <= m minimal *)
    k <= m ->
    (forall G, ~ has_factor n M G) ->
    (forall k', k' < k -> forall G, ~ has_factor n (shift M (J jitter k')) G) ->
    chol_spec F ar n (shift M (J jitter k)) L ->
    returned_factor n jitter m M L.

Theorem psc_kernel_factor st d32 dt n A jitter max_tries L w A' :
  Forall (wf F n) A ->
  trace_on st = false ->
  psc ar ck st d32 dt n A false jitter max_tries = (Ok L w, A') ->
  let j := eff_jitter F st dt jitter in
  A' = A /\
  exists m, (w = [] \/ w = map (J j) (seq 0 (S m)) /\ m < eff_tries F st max_tries) /\
            Forall2 (returned_factor n j m) A L.
Proof.
  intros Hwf Ht H j.
  pose proof (psc_input_unchanged F ar ck st d32 dt n A false jitter max_tries) as Hu.
  rewrite H in Hu. cbn [snd] in Hu. split; [exact Hu|].
  destruct (psc_factor F ar ck exact_of_field (fun M L => wf F n M -> chol_spec F ar n M L)
              (fun M Hok Hw => factor_of_okb n M Hw Hok) st d32 dt n A jitter max_tries L w A' Ht H)
    as (m & Hw & HF).
  exists m. split; [exact Hw|].
  apply (Forall2_impl_in _ _ _ _ _ HF Hwf).
  intros M l [Hok Hs | k Hbad Hk Hmin Hs] HwfM.
  - apply RF_exact. apply Hs. exact HwfM.
  - apply (RF_jitter n j m M l k); auto.
    + apply no_factor_of_not_okb; auto.
    + intros k' Hk' G. apply no_factor_of_not_okb; [apply wf_add_diag; exact HwfM | apply Hmin; exact Hk'].
    + apply Hs. apply wf_add_diag. exact HwfM.
Qed.

(* ---- "returns the exact Cholesky factor whenever A is positive definite": if every member has a Cholesky
        factor G_b, the call returns exactly those factors, warns about nothing and adds nothing *)
Theorem psc_kernel_pd_exact st d32 dt n A Gs upper jitter max_tries :
  Forall2 (fun M G => wf F n M /\ has_factor n M G) A Gs ->
  psc ar ck st d32 dt n A upper jitter max_tries = (Ok (orient F ar n upper (map (pad ar n) Gs)) [], A).
Proof.
  intros H.
  assert (Hok : allok F ck A = true /\ map fac A = map (pad ar n) Gs).
  { induction H as [|M G A' Gs' [Hw Hf] _ [IH1 IH2]]; [split; reflexivity|].
    destruct (okb_of_factor n M G Hw Hf) as [H1 H2].
    unfold ProofsLoop.allok in *. cbn [forallb map]. rewrite H1, IH1, H2, IH2. split; reflexivity. }
  destruct Hok as [H1 H2].
  rewrite (psc_pd_exact F ar ck st d32 dt n A upper jitter max_tries H1), H2. reflexivity.
Qed.

(* ---- NotPSDError is raised (max_tries >= 1) as soon as one member has no Cholesky factor at any rung of
        the ladder *)
Theorem psc_kernel_not_psd st d32 dt n A upper jitter max_tries t' M :
  trace_on st = false -> existsb (has_nan ar) A = false ->
  let j := eff_jitter F st dt jitter in
  eff_tries F st max_tries = S t' ->
  In M A -> okb M = false -> (forall k, k < S t' -> okb (shift M (J j k)) = false) ->
  psc ar ck st d32 dt n A upper jitter max_tries = (ErrNotPSD (map (J j) (seq 0 (S t'))) (J j t'), A).
Proof.
  intros Ht Hn j Et HM H0 Hk.
  apply (psc_not_psd F ar ck exact_of_field); auto.
  - unfold ProofsLoop.allok. apply not_true_is_false. intros Hall.
    rewrite forallb_forall in Hall. specialize (Hall M HM). unfold ProofsLoop.okb in *. congruence.
  - exists M. split; auto. split; auto.
Qed.

End Spec.
