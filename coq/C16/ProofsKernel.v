(* C16 — the factorisation kernel `chol_kernel` (Cholesky–Banachiewicz, Model.v) in exact arithmetic:
   soundness   info = 0  ->  the returned L is n x n, lower triangular with positive diagonal and
                             (L L^T)_ij = A_ij on the lower triangle (everywhere when A is symmetric);
   completeness / uniqueness   if the lower triangle of A is G G^T for a lower-triangular G with positive
                             diagonal, then info = 0 and the returned factor IS G.
   Plain Coq; arithmetic = any `Arith F` satisfying the field identities `ExactField` (every real closed
   field does: ProofsClosed.v).  All matrix sizes. *)
From Coq Require Import List Bool Arith ZArith Lia Ring Ring_theory.
Import ListNotations.
Require Import C16.Model.

Section Kernel.
Variable F : Type.
Variable ar : Arith F.

Notation "x +. y" := (aadd ar x y) (at level 50, left associativity).
Notation "x -. y" := (asub ar x y) (at level 50, left associativity).
Notation "x *. y" := (amul ar x y) (at level 40, left associativity).
Notation "x /. y" := (adiv ar x y) (at level 40, left associativity).
Notation f0 := (a0 ar).
Notation f1 := (a1 ar).

Definition aopp (x : F) : F := f0 -. x.
Definition pos (x : F) : Prop := agtb ar x f0 = true.

Record ExactField : Prop := MkEF {
  ef_ring : ring_theory f0 f1 (aadd ar) (amul ar) (asub ar) aopp eq;
  ef_div : forall s y, y <> f0 -> (s /. y) *. y = s;
  ef_div_mul : forall x y, y <> f0 -> (x *. y) /. y = x;
  ef_pos_ne0 : forall x, pos x -> x <> f0;
  ef_sqrt_sq : forall d, pos d -> asqrt ar d *. asqrt ar d = d;
  ef_sqrt_pos : forall d, pos d -> pos (asqrt ar d);
  ef_sq_pos : forall g, pos g -> pos (g *. g);
  ef_sqrt_of_sq : forall g, pos g -> asqrt ar (g *. g) = g
}.

(* entry (i,j) of a list matrix, 0 outside *)
Definition ent (M : matrix F) (i j : nat) : F := nth j (nth i M []) f0.
(* n x n *)
Definition wf (n : nat) (M : matrix F) : Prop := length M = n /\ forall i, i < n -> length (nth i M []) = n.
Definition sym (n : nat) (M : matrix F) : Prop := forall i j, i < n -> j < n -> ent M i j = ent M j i.

(* sum_k u_k v_k over the common prefix *)
Fixpoint dot (u v : list F) : F :=
  match u, v with
  | x :: u', y :: v' => (x *. y) +. dot u' v'
  | _, _ => f0
  end.

(* what `cholesky_ex` promises on success, for an n x n input M and the returned (zero-filled) L *)
Record chol_spec (n : nat) (M L : matrix F) : Prop := MkCS {
  cs_dims : wf n L;
  cs_lower : forall i j, i < j -> j < n -> ent L i j = f0;
  cs_posdiag : forall i, i < n -> pos (ent L i i);
  cs_llt : forall i j, j <= i -> i < n -> dot (nth i L []) (nth j L []) = ent M i j
}.

(* ------------------------------------------------------------------ generic list facts *)
Lemma skipn_nth_cons {T} (l : list T) j d : j < length l -> skipn j l = nth j l d :: skipn (S j) l.
Proof.
  revert j; induction l as [|x r IH]; intros [|j] H; simpl in *; try lia; auto. apply IH; lia.
Qed.

Lemma nth_last_len {T} (r : list T) i d : length r = S i -> nth i r d = last r d.
Proof.
  revert i; induction r as [|x r IH]; intros i H; simpl in *; [lia|].
  destruct r as [|y r']; simpl in * .
  - assert (i = 0) by lia. subst. reflexivity.
  - destruct i as [|i]; [lia|]. apply IH. simpl. lia.
Qed.

Lemma split_last {T} (r : list T) i d : length r = S i -> r = firstn i r ++ [last r d] /\ length (firstn i r) = i.
Proof.
  intros H. split.
  - rewrite <- (nth_last_len r i d H).
    rewrite <- (firstn_skipn i r) at 1. f_equal.
    rewrite (skipn_nth_cons r i d) by lia. f_equal.
    apply skipn_all2. lia.
  - rewrite firstn_length. lia.
Qed.

Lemma firstn_snoc {T} (l : list T) i d : i < length l -> firstn (S i) l = firstn i l ++ [nth i l d].
Proof.
  revert i; induction l as [|x r IH]; intros [|i] H; simpl in *; try lia; auto. f_equal. apply IH. lia.
Qed.

(* ------------------------------------------------------------------ arithmetic *)
Hypothesis EF : ExactField.
Add Ring C16KernelRing : (ef_ring EF).

Lemma dot_nil_r u : dot u [] = f0.
Proof. destruct u; reflexivity. Qed.

Lemma dot_comm : forall u v, dot u v = dot v u.
Proof. induction u as [|x u IH]; intros [|y v]; simpl; auto. rewrite IH. ring. Qed.

Lemma sub_dot_dot : forall u v s, sub_dot ar s u v = s -. dot u v.
Proof.
  induction u as [|x u IH]; intros [|y v] s; simpl; try ring. rewrite IH. ring.
Qed.

Lemma dot_zeros_r : forall u m, dot u (repeat f0 m) = f0.
Proof. induction u as [|x u IH]; intros [|m]; simpl; auto. rewrite IH. ring. Qed.
Lemma dot_zeros_l u m : dot (repeat f0 m) u = f0.
Proof. rewrite dot_comm. apply dot_zeros_r. Qed.

Lemma dot_pad : forall u v a b, dot (u ++ repeat f0 a) (v ++ repeat f0 b) = dot u v.
Proof.
  induction u as [|x u IH]; intros [|y v] a b; simpl.
  - apply dot_zeros_r.
  - apply (dot_zeros_l (y :: v ++ repeat f0 b)).
  - apply (dot_zeros_r (x :: u ++ repeat f0 a)).
  - rewrite IH. reflexivity.
Qed.

(* appending to the longer vector does not change the (truncated) dot product *)
Lemma dot_app_short : forall u w v, length v <= length u -> dot (u ++ w) v = dot u v.
Proof.
  induction u as [|x u IH]; intros w [|y v] H; simpl in *; try lia.
  - apply dot_nil_r.
  - reflexivity.
  - rewrite IH by lia. reflexivity.
Qed.

Lemma dot_snoc : forall u v x y, length u = length v -> dot (u ++ [x]) (v ++ [y]) = dot u v +. x *. y.
Proof.
  induction u as [|a u IH]; intros [|b v] x y H; simpl in *; try lia.
  - ring.
  - rewrite IH by lia. ring.
Qed.

Lemma dot_short_r u v y : length u = length v -> dot u (v ++ [y]) = dot u v.
Proof. intros H. rewrite dot_comm, dot_app_short by lia. apply dot_comm. Qed.

(* ------------------------------------------------------------------ the rows built so far *)
(* row j has the j+1 entries l_j0 … l_jj and a positive last entry *)
Definition rowsOK (Lrows : list (list F)) : Prop :=
  forall j, j < length Lrows -> length (nth j Lrows []) = S j /\ pos (last (nth j Lrows []) f0).
(* (L L^T)_ij = A_ij for j <= i < number of rows *)
Definition lowerOK (A : matrix F) (Lrows : list (list F)) : Prop :=
  forall i j, j <= i -> i < length Lrows -> dot (nth i Lrows []) (nth j Lrows []) = ent A i j.

Lemma row_entries_spec (Lrows : list (list F)) (arow : list F) :
  rowsOK Lrows -> length Lrows <= length arow ->
  forall k j acc, j + k = length Lrows -> length acc = j ->
    (forall j', j' < j -> dot acc (nth j' Lrows []) = nth j' arow f0) ->
    let R := row_entries ar (skipn j Lrows) (skipn j arow) acc in
    length R = length Lrows /\ forall j', j' < length Lrows -> dot R (nth j' Lrows []) = nth j' arow f0.
Proof.
  intros HL Hlen. induction k as [|k IH]; intros j acc Hj Hacc Hinv; cbv zeta.
  - assert (E : j = length Lrows) by lia. rewrite E.
    rewrite skipn_all. simpl. split; [lia|]. intros j' Hj'. apply Hinv. lia.
  - rewrite (skipn_nth_cons Lrows j []) by lia.
    rewrite (skipn_nth_cons arow j f0) by lia.
    cbn [row_entries].
    destruct (HL j ltac:(lia)) as [Hrl Hpos].
    destruct (split_last (nth j Lrows []) j f0 Hrl) as [Hsplit Hfl].
    set (rj := nth j Lrows []) in * .
    set (y := last rj f0) in * .
    set (x := sub_dot ar (nth j arow f0) acc rj /. y).
    apply (IH (S j) (acc ++ [x])).
    + lia.
    + rewrite app_length. simpl. lia.
    + intros j' Hj'. destruct (Nat.eq_dec j' j) as [->|Hne].
      * fold rj.
        assert (Hd : dot acc rj = dot acc (firstn j rj)).
        { rewrite Hsplit at 1. apply dot_short_r. lia. }
        rewrite Hsplit. rewrite dot_snoc by lia.
        unfold x. rewrite sub_dot_dot, Hd.
        rewrite (ef_div EF) by (apply (ef_pos_ne0 EF); exact Hpos). ring.
      * rewrite dot_app_short.
        -- apply Hinv. lia.
        -- destruct (HL j' ltac:(lia)) as [Hl' _]. lia.
Qed.

Lemma rowsOK_snoc Lrows acc x :
  rowsOK Lrows -> length acc = length Lrows -> pos x -> rowsOK (Lrows ++ [acc ++ [x]]).
Proof.
  intros H Ha Hx j Hj. rewrite app_length in Hj. simpl in Hj.
  destruct (Nat.eq_dec j (length Lrows)) as [->|Hne].
  - rewrite app_nth2 by lia. rewrite Nat.sub_diag. simpl. rewrite app_length, last_last. simpl. split; [lia|exact Hx].
  - rewrite app_nth1 by lia. apply H. lia.
Qed.

Lemma chol_rows_sound (A : matrix F) n : wf n A ->
  forall k i Lrows, i + k = n -> length Lrows = i -> rowsOK Lrows -> lowerOK A Lrows ->
  forall L, chol_rows ar (skipn i A) i Lrows = (L, 0) -> length L = n /\ rowsOK L /\ lowerOK A L.
Proof.
  intros [HlA HrA]. induction k as [|k IH]; intros i Lrows Hi Hlen HR HLo L.
  - assert (i = n) by lia. subst i. rewrite skipn_all2 by lia. simpl. intros [= <-]. auto.
  - rewrite (skipn_nth_cons A i []) by lia. cbn [chol_rows].
    set (arow := nth i A []).
    assert (Harow : length arow = n) by (apply HrA; lia).
    destruct (row_entries_spec Lrows arow HR ltac:(lia) i 0 [] ltac:(lia) eq_refl ltac:(intros; lia)) as [Hlacc Hacc].
    cbn [skipn] in Hlacc, Hacc.
    set (acc := row_entries ar Lrows arow []) in * .
    set (d := sub_dot ar (nth i arow f0) acc acc).
    destruct (agtb ar d f0) eqn:Hd; [|intros [= _ H]; discriminate].
    intros Hrec.
    apply (IH (S i) (Lrows ++ [acc ++ [asqrt ar d]])) in Hrec; auto.
    + lia.
    + rewrite app_length. simpl. lia.
    + apply rowsOK_snoc; auto. apply (ef_sqrt_pos EF). exact Hd.
    + intros i' j Hji Hi'. rewrite app_length in Hi'. simpl in Hi'.
      destruct (Nat.eq_dec i' (length Lrows)) as [->|Hne].
      * rewrite (app_nth2 Lrows _ _ (le_n _)). rewrite Nat.sub_diag. cbn [nth].
        destruct (Nat.eq_dec j (length Lrows)) as [->|Hnj].
        -- rewrite (app_nth2 Lrows _ _ (le_n _)). rewrite Nat.sub_diag. cbn [nth].
           rewrite dot_snoc by reflexivity.
           rewrite (ef_sqrt_sq EF) by exact Hd.
           unfold d. rewrite sub_dot_dot. unfold ent. rewrite Hlen. change (nth i A []) with arow. ring.
        -- rewrite app_nth1 by lia.
           rewrite dot_app_short by (destruct (HR j ltac:(lia)) as [Hl _]; lia).
           rewrite Hacc by lia. unfold ent. rewrite Hlen. reflexivity.
      * rewrite !app_nth1 by lia. apply HLo; lia.
Qed.

(* ------------------------------------------------------------------ zero filling *)
Lemma pad_rows n L : length L = n -> pad ar n L = map (pad_row ar n) L.
Proof. intros H. unfold pad. rewrite H, Nat.sub_diag. simpl. apply app_nil_r. Qed.

Lemma nth_pad n L i : length L = n -> i < n -> nth i (pad ar n L) [] = pad_row ar n (nth i L []).
Proof.
  intros H Hi. rewrite pad_rows by exact H.
  rewrite (nth_indep _ [] (pad_row ar n [])) by (rewrite map_length; lia).
  apply map_nth.
Qed.

Lemma nth_repeat0 m k : nth k (repeat f0 m) f0 = f0.
Proof. revert k; induction m as [|m IH]; intros [|k]; simpl; auto. Qed.

Theorem chol_kernel_sound n (M : matrix F) :
  wf n M -> snd (chol_kernel ar M) = 0 -> chol_spec n M (fst (chol_kernel ar M)).
Proof.
  intros Hwf. unfold chol_kernel.
  destruct (chol_rows ar M 0 []) as [L info] eqn:E. cbn [fst snd]. intros ->.
  destruct Hwf as [HlM HrM].
  destruct (chol_rows_sound M n (conj HlM HrM) n 0 [] ltac:(lia) eq_refl) with (L := L) as (HlL & HR & HLo).
  - intros j Hj. simpl in Hj. lia.
  - intros i j _ Hi. simpl in Hi. lia.
  - exact E.
  - rewrite HlM.
    assert (Hrow : forall i, i < n -> length (nth i L []) = S i /\ pos (last (nth i L []) f0))
      by (intros i Hi; apply HR; lia).
    split.
    + split.
      * rewrite pad_rows, map_length by exact HlL. exact HlL.
      * intros i Hi. rewrite nth_pad by auto. unfold pad_row. rewrite app_length, repeat_length.
        destruct (Hrow i Hi) as [Hl _]. lia.
    + intros i j Hij Hj. unfold ent. rewrite nth_pad by (auto; lia). unfold pad_row.
      destruct (Hrow i ltac:(lia)) as [Hl _].
      rewrite app_nth2 by lia. apply nth_repeat0.
    + intros i Hi. unfold ent, pos. rewrite nth_pad by auto. unfold pad_row.
      destruct (Hrow i Hi) as [Hl Hp].
      rewrite app_nth1 by lia. rewrite (nth_last_len _ i f0 Hl). exact Hp.
    + intros i j Hji Hi. rewrite !nth_pad by (auto; lia). unfold pad_row.
      rewrite dot_pad. apply HLo; lia.
Qed.

(* symmetric input: L L^T = M everywhere *)
Corollary chol_spec_sym n M L : chol_spec n M L -> sym n M ->
  forall i j, i < n -> j < n -> dot (nth i L []) (nth j L []) = ent M i j.
Proof.
  intros H Hs i j Hi Hj. destruct (le_lt_dec j i) as [Hle|Hlt].
  - apply (cs_llt _ _ _ H); auto.
  - rewrite dot_comm, Hs by auto. apply (cs_llt _ _ _ H); auto; lia.
Qed.

(* ------------------------------------------------------------------ completeness / uniqueness *)
Lemma row_entries_complete (G : list (list F)) (g arow : list F) i :
  rowsOK G -> i <= length G -> length g = S i -> i <= length arow ->
  (forall j, j < i -> nth j arow f0 = dot g (nth j G [])) ->
  forall k j, j + k = i ->
    row_entries ar (skipn j (firstn i G)) (skipn j arow) (firstn j g) = firstn i g.
Proof.
  intros HG Hi Hg Ha Hrow. induction k as [|k IH]; intros j Hj.
  - assert (j = i) by lia. subst j.
    rewrite (skipn_all2 (firstn i G)) by (rewrite firstn_length; lia). reflexivity.
  - assert (Hlf : length (firstn i G) = i) by (rewrite firstn_length; lia).
    rewrite (skipn_nth_cons (firstn i G) j []) by lia.
    rewrite (skipn_nth_cons arow j f0) by lia.
    cbn [row_entries].
    assert (Hnth : nth j (firstn i G) [] = nth j G []).
    { rewrite <- (firstn_skipn i G) at 2. rewrite app_nth1 by lia. reflexivity. }
    rewrite Hnth.
    destruct (HG j ltac:(lia)) as [Hrl Hpos].
    destruct (split_last (nth j G []) j f0 Hrl) as [Hsplit Hfl].
    set (rj := nth j G []) in * . set (y := last rj f0) in * .
    assert (Hx : sub_dot ar (nth j arow f0) (firstn j g) rj /. y = nth j g f0).
    { rewrite sub_dot_dot, (Hrow j ltac:(lia)). fold rj.
      assert (Hgs : dot g rj = dot (firstn j g) (firstn j rj) +. nth j g f0 *. y).
      { rewrite <- (firstn_skipn (S j) g) at 1.
        rewrite dot_app_short by (rewrite firstn_length; lia).
        rewrite (firstn_snoc g j f0) by lia.
        rewrite Hsplit at 1. apply dot_snoc. rewrite !firstn_length. lia. }
      rewrite Hgs.
      assert (Hd : dot (firstn j g) rj = dot (firstn j g) (firstn j rj)).
      { rewrite Hsplit at 1. apply dot_short_r. rewrite !firstn_length. lia. }
      rewrite Hd.
      replace (dot (firstn j g) (firstn j rj) +. nth j g f0 *. y -. dot (firstn j g) (firstn j rj))
        with (nth j g f0 *. y) by ring.
      apply (ef_div_mul EF). apply (ef_pos_ne0 EF). exact Hpos. }
    rewrite Hx. rewrite <- (firstn_snoc g j f0) by lia.
    apply (IH (S j)). lia.
Qed.

Lemma chol_rows_complete (G : list (list F)) (M : matrix F) n :
  length G = n -> rowsOK G -> wf n M ->
  (forall i j, j <= i -> i < n -> ent M i j = dot (nth i G []) (nth j G [])) ->
  forall k i, i + k = n -> chol_rows ar (skipn i M) i (firstn i G) = (G, 0).
Proof.
  intros HlG HG [HlM HrM] HM. induction k as [|k IH]; intros i Hi.
  - assert (i = n) by lia. subst i. rewrite skipn_all2 by lia. simpl. rewrite <- HlG, firstn_all. reflexivity.
  - rewrite (skipn_nth_cons M i []) by lia. cbn [chol_rows].
    set (arow := nth i M []).
    assert (Harow : length arow = n) by (apply HrM; lia).
    destruct (HG i ltac:(lia)) as [Hrl Hpos].
    set (g := nth i G []) in * .
    assert (Hacc : row_entries ar (firstn i G) arow [] = firstn i g).
    { apply (row_entries_complete G g arow i HG ltac:(lia) Hrl ltac:(lia)) with (k := i) (j := 0); [|lia].
      intros j Hj. change (nth j arow f0) with (ent M i j). rewrite HM by lia. reflexivity. }
    rewrite Hacc.
    destruct (split_last g i f0 Hrl) as [Hsplit Hfl].
    set (y := last g f0) in * .
    assert (Hd : sub_dot ar (nth i arow f0) (firstn i g) (firstn i g) = y *. y).
    { rewrite sub_dot_dot. change (nth i arow f0) with (ent M i i). rewrite HM by lia. fold g.
      rewrite Hsplit at 1 2. rewrite dot_snoc by reflexivity. ring. }
    rewrite Hd. rewrite (ef_sq_pos EF y Hpos). rewrite (ef_sqrt_of_sq EF y Hpos).
    rewrite <- Hsplit. unfold g. rewrite <- (firstn_snoc G i []) by lia.
    apply IH. lia.
Qed.

(* if the lower triangle of M is G G^T (G given by its rows l_i0 … l_ii, positive diagonal) then the kernel
   succeeds and returns exactly G (zero-filled) *)
Theorem chol_kernel_complete n (G : list (list F)) (M : matrix F) :
  length G = n -> rowsOK G -> wf n M ->
  (forall i j, j <= i -> i < n -> ent M i j = dot (nth i G []) (nth j G [])) ->
  chol_kernel ar M = (pad ar n G, 0).
Proof.
  intros HlG HG Hwf HM. unfold chol_kernel.
  pose proof (chol_rows_complete G M n HlG HG Hwf HM n 0 ltac:(lia)) as H.
  cbn [skipn firstn] in H. rewrite H. destruct Hwf as [-> _]. reflexivity.
Qed.

(* ------------------------------------------------------------------ jitter keeps the shape *)
Lemma add_diag_from_length i M d : length (add_diag_from ar i M d) = length M.
Proof. revert i; induction M as [|r rs IH]; intros i; simpl; auto. Qed.

Lemma upd_nth_len {T} (f : T -> T) (l : list T) i : length (upd_nth i f l) = length l.
Proof. revert i; induction l as [|x r IH]; intros [|i]; simpl; auto. Qed.

Lemma nth_add_diag_from i M d k :
  nth k (add_diag_from ar i M d) [] = upd_nth (i + k) (fun x => x +. d) (nth k M []).
Proof.
  revert i k; induction M as [|r rs IH]; intros i k; simpl.
  - destruct k; simpl; destruct (i + _); reflexivity.
  - destruct k as [|k]; [rewrite Nat.add_0_r; reflexivity|].
    rewrite IH. replace (S i + k) with (i + S k) by lia. reflexivity.
Qed.

Lemma wf_add_diag n M d : wf n M -> wf n (add_diag ar M d).
Proof.
  intros [H1 H2]. split.
  - unfold add_diag. rewrite add_diag_from_length. exact H1.
  - intros i Hi. unfold add_diag. rewrite nth_add_diag_from, upd_nth_len. apply H2; exact Hi.
Qed.

Lemma nth_upd_nth {T} (f : T -> T) (l : list T) i j d :
  nth j (upd_nth i f l) d = if Nat.eqb i j then (if Nat.ltb j (length l) then f (nth j l d) else d) else nth j l d.
Proof.
  revert i j; induction l as [|x r IH]; intros i j.
  - destruct i, j; simpl; try reflexivity; destruct (Nat.eqb _ _); reflexivity.
  - destruct i as [|i], j as [|j]; simpl; try reflexivity.
    rewrite IH. destruct (Nat.eqb i j); reflexivity.
Qed.

(* entries of A + d I *)
Lemma ent_add_diag n M d i j : wf n M -> i < n -> j < n ->
  ent (add_diag ar M d) i j = if Nat.eqb i j then ent M i j +. d else ent M i j.
Proof.
  intros [H1 H2] Hi Hj. unfold ent, add_diag. rewrite nth_add_diag_from. cbn [plus].
  rewrite nth_upd_nth. destruct (Nat.eqb i j) eqn:E; auto.
  rewrite H2 by exact Hi. destruct (Nat.ltb_spec j n); [reflexivity|lia].
Qed.

Lemma sym_add_diag n M d : wf n M -> sym n M -> sym n (add_diag ar M d).
Proof.
  intros Hwf Hs i j Hi Hj. rewrite !(ent_add_diag n) by auto.
  rewrite (Nat.eqb_sym j i). destruct (Nat.eqb i j); rewrite (Hs i j) by auto; reflexivity.
Qed.

End Kernel.
