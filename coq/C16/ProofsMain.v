(* C16 — theorems about psd_safe_cholesky derived from the loop analysis of ProofsLoop.v. *)
From Coq Require Import List Bool Arith ZArith Lia.
Import ListNotations.
Require Import C16.Model C16.ProofsLoop.

(* ------------------------------------------------------------------ facts valid for ANY arithmetic
   (binary64 included) and ANY factorisation primitive *)
Section AnyArith.
Variable F : Type.
Variable ar : Arith F.
Variable chol_ex : matrix F -> matrix F * nat.
Notation mat := (matrix F).
Notation okb := (okb F chol_ex).
Notation fac := (fac F chol_ex).
Notation allok := (allok F chol_ex).

Definition orient (n : nat) (upper : bool) (L : list mat) : list mat :=
  if upper then map (transpose ar n) L else L.

(* no tensor that existed before the call is modified (A itself in particular) *)
Lemma psd_safe_cholesky_frame st d32 dt n (h : mem F) pA upper jitter max_tries q :
  q < length h ->
  rd (snd (psd_safe_cholesky ar chol_ex st d32 dt n h pA upper jitter max_tries)) q = rd h q.
Proof.
  intros Hq. unfold psd_safe_cholesky.
  assert (H : rd (snd (_psd_safe_cholesky ar chol_ex st d32 dt h pA jitter max_tries)) q = rd h q).
  { unfold _psd_safe_cholesky.
    destruct (trace_on st || negb (any_info (cholesky_ex chol_ex (rd h pA)))); [reflexivity|].
    destruct (existsb (has_nan ar) (rd h pA)); [reflexivity|].
    unfold clone. rewrite for_loop_frame by lia.
    unfold rd. apply app_nth1; exact Hq. }
  destruct (_psd_safe_cholesky ar chol_ex st d32 dt h pA jitter max_tries) as [[L w| |w l|] h']; exact H.
Qed.

Lemma psc_input_unchanged st d32 dt n A upper jitter max_tries :
  snd (psc ar chol_ex st d32 dt n A upper jitter max_tries) = A.
Proof.
  unfold psc.
  pose proof (psd_safe_cholesky_frame st d32 dt n [A] 0 upper jitter max_tries 0 (Nat.lt_0_succ _)) as H.
  destruct (psd_safe_cholesky ar chol_ex st d32 dt n [A] 0 upper jitter max_tries) as [r h]. exact H.
Qed.

(* shape of psc in terms of the core *)
Lemma psc_unfold st d32 dt n A upper jitter max_tries :
  psc ar chol_ex st d32 dt n A upper jitter max_tries =
  (match fst (_psd_safe_cholesky ar chol_ex st d32 dt [A] 0 jitter max_tries) with
   | Ok L w => Ok (orient n upper L) w
   | e => e
   end, A).
Proof.
  pose proof (psc_input_unchanged st d32 dt n A upper jitter max_tries) as H.
  unfold psc, psd_safe_cholesky in *.
  destruct (_psd_safe_cholesky ar chol_ex st d32 dt [A] 0 jitter max_tries) as [[L w| |w l|] h'];
    cbn [fst snd] in *; rewrite H; reflexivity.
Qed.

(* first attempt succeeds for every member: exactly those factors, no warning, nothing added *)
Lemma psc_pd_exact st d32 dt n A upper jitter max_tries :
  allok A = true ->
  psc ar chol_ex st d32 dt n A upper jitter max_tries = (Ok (orient n upper (map fac A)) [], A).
Proof.
  intros H. rewrite psc_unfold, core_spec, H, orb_true_r. reflexivity.
Qed.

(* trace mode: first attempt returned whatever it is, no warning, no error *)
Lemma psc_trace_mode st d32 dt n A upper jitter max_tries :
  trace_on st = true ->
  psc ar chol_ex st d32 dt n A upper jitter max_tries = (Ok (orient n upper (map fac A)) [], A).
Proof.
  intros H. rewrite psc_unfold, core_spec, H. reflexivity.
Qed.

(* upper=True is the transpose of upper=False, with the same warnings / the same error *)
Lemma psc_upper st d32 dt n A jitter max_tries :
  psc ar chol_ex st d32 dt n A true jitter max_tries =
  match psc ar chol_ex st d32 dt n A false jitter max_tries with
  | (Ok L w, A') => (Ok (map (transpose ar n) L) w, A')
  | e => e
  end.
Proof.
  rewrite !psc_unfold.
  destruct (fst (_psd_safe_cholesky ar chol_ex st d32 dt [A] 0 jitter max_tries)); reflexivity.
Qed.

Definition get (M : mat) (i j : nat) : F := nth j (nth i M []) (a0 ar).

Lemma transpose_get n M i j : i < n -> get (transpose ar n M) i j = get M j i.
Proof.
  intros Hi. unfold get, transpose.
  rewrite (nth_indep _ [] (col ar 0 M)) by (rewrite map_length, seq_length; exact Hi).
  rewrite (map_nth (fun j => col ar j M) (seq 0 n) 0 i).
  rewrite seq_nth by exact Hi. cbn [plus]. unfold col.
  destruct (lt_dec j (length M)) as [Hj|Hj].
  - rewrite (nth_indep _ (a0 ar) (nth i [] (a0 ar))) by (rewrite map_length; exact Hj).
    rewrite (map_nth (fun r => nth i r (a0 ar)) M [] j). reflexivity.
  - rewrite (nth_overflow (map _ M)) by (rewrite map_length; lia).
    rewrite (nth_overflow M) by lia. destruct i; reflexivity.
Qed.

(* jitter=None / max_tries=None read the settings *)
Lemma psc_defaults_from_settings st d32 dt n A upper :
  psc ar chol_ex st d32 dt n A upper None None =
  psc ar chol_ex st d32 dt n A upper (Some (cholesky_jitter_value st dt)) (Some (cmt_value st)).
Proof. reflexivity. Qed.

Lemma psc_settings_only_via_values st st' d32 dt n A upper jitter max_tries :
  trace_on st = trace_on st' ->
  eff_jitter F st dt jitter = eff_jitter F st' dt jitter ->
  eff_tries F st max_tries = eff_tries F st' max_tries ->
  psc ar chol_ex st d32 dt n A upper jitter max_tries = psc ar chol_ex st' d32 dt n A upper jitter max_tries.
Proof.
  intros H1 H2 H3. rewrite !psc_unfold, !core_spec, H1, H2, H3. reflexivity.
Qed.

(* NaN screening happens only after a failed first attempt *)
Lemma psc_nan st d32 dt n A upper jitter max_tries :
  trace_on st = false -> allok A = false -> existsb (has_nan ar) A = true ->
  psc ar chol_ex st d32 dt n A upper jitter max_tries = (ErrNan, A).
Proof.
  intros H1 H2 H3. rewrite psc_unfold, core_spec, H1, H2, H3. reflexivity.
Qed.

(* max_tries <= 0 with a failing first attempt: the transcribed code raises UnboundLocalError, not
   NotPSDError (known finding C16-max-tries-zero) *)
Lemma psc_no_tries st d32 dt n A upper jitter max_tries :
  trace_on st = false -> allok A = false -> existsb (has_nan ar) A = false ->
  eff_tries F st max_tries = 0 ->
  psc ar chol_ex st d32 dt n A upper jitter max_tries = (ErrUnbound, A).
Proof.
  intros H1 H2 H3 H4. rewrite psc_unfold, core_spec, H1, H2, H3, H4. reflexivity.
Qed.

(* the operator route LinearOperator.cholesky(upper) on a dense n x n operator, n <> 1: exactly
   psd_safe_cholesky(A, upper) with jitter / max_tries from the settings *)
Lemma op_cholesky_route st d32 dt n A upper : n <> 1 ->
  (fst (op_cholesky ar chol_ex st d32 dt n A upper), rd (snd (op_cholesky ar chol_ex st d32 dt n A upper)) 0)
  = psc ar chol_ex st d32 dt n A upper None None.
Proof.
  intros Hn. unfold op_cholesky, psc. apply Nat.eqb_neq in Hn. rewrite Hn.
  unfold psd_safe_cholesky.
  destruct (_psd_safe_cholesky ar chol_ex st d32 dt [A] 0 None None) as [[L w| |w l|] h]; destruct upper; reflexivity.
Qed.

End AnyArith.

(* ------------------------------------------------------------------ exact arithmetic *)
Section Exact.
Variable F : Type.
Variable ar : Arith F.
Variable chol_ex : matrix F -> matrix F * nat.
Hypothesis EA : ExactArith F ar.
Notation mat := (matrix F).
Notation okb := (okb F chol_ex).
Notation fac := (fac F chol_ex).
Notation allok := (allok F chol_ex).
Notation J := (J F ar).
Notation shift := (shift F ar).
Notation first_ok := (first_ok F ar chol_ex).
Notation mclosed := (mclosed F ar chol_ex).
Notation traj := (traj F ar chol_ex).
Notation first_allok := (first_allok F ar chol_ex).

(* what happened to one member when the loop returned after index m, and its returned factor *)
Inductive member_outcome (jitter : F) (m : nat) (M L : mat) : Prop :=
| MO_untouched :                       (* first factorisation fine: nothing is ever added *)
    okb M = true -> L = fac M -> member_outcome jitter m M L
| MO_jittered (k : nat) :              (* carries exactly jitter*10^k, k the FIRST exponent that works *)
    okb M = false -> k <= m ->
    okb (shift M (J jitter k)) = true ->
    (forall k', k' < k -> okb (shift M (J jitter k')) = false) ->
    L = fac (shift M (J jitter k)) ->
    member_outcome jitter m M L.

Lemma traj_closed d32 jitter A i : traj d32 jitter A i = map (fun M => mclosed jitter M i) A.
Proof. unfold ProofsLoop.traj. apply map_ext. intros M. apply mtraj_closed; exact EA. Qed.

Lemma allok_forall Ms : allok Ms = true <-> forall M, In M Ms -> okb M = true.
Proof. unfold ProofsLoop.allok. apply forallb_forall. Qed.

Lemma allok_false_ex Ms : allok Ms = false -> exists M, In M Ms /\ okb M = false.
Proof.
  unfold ProofsLoop.allok. induction Ms as [|M r IH]; simpl; [discriminate|].
  destruct (ProofsLoop.okb F chol_ex M) eqn:E; simpl.
  - intros H. destruct (IH H) as (M' & H1 & H2). exists M'; auto.
  - intros _. exists M; auto.
Qed.

Lemma member_outcome_of_closed jitter m M :
  okb (mclosed jitter M (S m)) = true -> member_outcome jitter m M (fac (mclosed jitter M (S m))).
Proof.
  unfold ProofsLoop.mclosed. destruct (ProofsLoop.okb F chol_ex M) eqn:EM.
  - intros _. apply MO_untouched; auto.
  - destruct (ProofsLoop.first_ok F ar chol_ex jitter M 0 (S m)) as [k|] eqn:E.
    + intros _. apply first_ok_some in E as (H1 & H2 & H3).
      apply (MO_jittered jitter m M _ k); auto; try lia. intros; apply H3; lia.
    + intros H. rewrite (first_ok_none _ _ _ _ _ _ _ E m) in H; [discriminate|lia].
Qed.

Lemma outcomes jitter m A :
  allok (map (fun M => mclosed jitter M (S m)) A) = true ->
  Forall2 (member_outcome jitter m) A (map fac (map (fun M => mclosed jitter M (S m)) A)).
Proof.
  induction A as [|M r IH]; simpl; intros H; constructor.
  - apply member_outcome_of_closed. unfold ProofsLoop.allok in H. simpl in H.
    apply andb_prop in H as [H _]. exact H.
  - apply IH. unfold ProofsLoop.allok in *. simpl in H. apply andb_prop in H as [_ H]. exact H.
Qed.

(* a member whose own minimal exponent is exactly m: the loop did not stop earlier than necessary *)
Definition needs_exactly (jitter : F) (m : nat) (M : mat) : Prop :=
  okb M = false /\ okb (shift M (J jitter m)) = true /\ forall k', k' < m -> okb (shift M (J jitter k')) = false.

Lemma exit_is_minimal d32 jitter A t m :
  allok A = false ->
  first_allok d32 jitter A 0 t = Some m -> exists M, In M A /\ needs_exactly jitter m M.
Proof.
  intros H0 Hm. destruct (first_allok_some _ _ _ _ _ _ _ _ _ Hm) as [Hok Hbefore].
  rewrite traj_closed in Hok.
  destruct m as [|m'].
  - destruct (allok_false_ex _ H0) as (M & HM & Hbad). exists M; split; auto.
    pose proof (proj1 (allok_forall _) Hok (mclosed jitter M 1) (in_map _ _ _ HM)) as H1.
    unfold ProofsLoop.mclosed in H1. rewrite Hbad in H1. cbn [ProofsLoop.first_ok] in H1.
    destruct (ProofsLoop.okb F chol_ex (ProofsLoop.shift F ar M (ProofsLoop.J F ar jitter 0))) eqn:E.
    + repeat split; auto. intros; lia.
    + rewrite E in H1. discriminate.
  - assert (Hb : allok (traj d32 jitter A (S m')) = false) by (apply Hbefore; lia).
    rewrite traj_closed in Hb. destruct (allok_false_ex _ Hb) as (X & HX & Hbad).
    apply in_map_iff in HX as (M & <- & HM). exists M; split; auto.
    pose proof (proj1 (allok_forall _) Hok _ (in_map (fun M => mclosed jitter M (S (S m'))) _ _ HM)) as H1.
    cbv beta in H1.
    unfold ProofsLoop.mclosed in Hbad, H1.
    destruct (ProofsLoop.okb F chol_ex M) eqn:EM; [congruence|].
    rewrite first_ok_snoc in H1. cbn [plus] in H1.
    destruct (ProofsLoop.first_ok F ar chol_ex jitter M 0 (S m')) as [k|] eqn:E.
    + apply first_ok_some in E as (_ & Hk & _). congruence.
    + destruct (ProofsLoop.okb F chol_ex (ProofsLoop.shift F ar M (ProofsLoop.J F ar jitter (S m')))) eqn:E2.
      * repeat split; auto. intros k' Hk'. apply (first_ok_none _ _ _ _ _ _ _ E); lia.
      * rewrite E2 in H1. discriminate.
Qed.

(* ---- the main characterisation of a normal return (upper = false; see psc_upper for true) *)
Theorem psc_ok_inv st d32 dt n A jitter max_tries L w A' :
  trace_on st = false ->
  psc ar chol_ex st d32 dt n A false jitter max_tries = (Ok L w, A') ->
  let j := eff_jitter F st dt jitter in
  A' = A /\
  ( (allok A = true /\ w = [] /\ L = map fac A)
    \/
    (allok A = false /\ existsb (has_nan ar) A = false /\
     exists m, m < eff_tries F st max_tries /\
       w = map (J j) (seq 0 (S m)) /\
       Forall2 (member_outcome j m) A L /\
       exists M, In M A /\ needs_exactly j m M) ).
Proof.
  intros Ht H j. rewrite psc_unfold, core_spec, Ht in H. cbn [orb] in H.
  destruct (ProofsLoop.allok F chol_ex A) eqn:E0.
  - injection H as <- <- <-. split; auto.
  - destruct (existsb (has_nan ar) A) eqn:En; [discriminate|].
    cbv zeta in H. fold j in H.
    destruct (ProofsLoop.first_allok F ar chol_ex d32 j A 0 (eff_tries F st max_tries)) as [m|] eqn:Em.
    + injection H as <- <- <-. split; auto. right. repeat split; auto.
      exists m. pose proof (first_allok_range _ _ _ _ _ _ _ _ _ Em) as Hr.
      destruct (first_allok_some _ _ _ _ _ _ _ _ _ Em) as [Hok _].
      split; [lia|]. split; [reflexivity|]. split.
      * cbn [orient]. rewrite traj_closed in *. apply outcomes; exact Hok.
      * apply (exit_is_minimal d32 j A _ m E0 Em).
    + destruct (eff_tries F st max_tries); discriminate.
Qed.

(* ---- and conversely: what the function returns, decided per member (existence direction) *)
Theorem psc_returns st d32 dt n A jitter max_tries m :
  trace_on st = false -> allok A = false -> existsb (has_nan ar) A = false ->
  let j := eff_jitter F st dt jitter in
  first_allok d32 j A 0 (eff_tries F st max_tries) = Some m ->
  psc ar chol_ex st d32 dt n A false jitter max_tries =
    (Ok (map (fun M => fac (mclosed j M (S m))) A) (map (J j) (seq 0 (S m))), A).
Proof.
  intros Ht H0 Hn j Hm. rewrite psc_unfold, core_spec, Ht, H0, Hn. cbn [orb]. cbv zeta. fold j.
  rewrite Hm. cbn [fst orient]. rewrite traj_closed, map_map. reflexivity.
Qed.

(* ---- NotPSDError: exactly when some member fails at every exponent below max_tries *)
Definition hopeless (jitter : F) (t : nat) (M : mat) : Prop :=
  okb M = false /\ forall k, k < t -> okb (shift M (J jitter k)) = false.

Lemma hopeless_not_ok jitter t M i : hopeless jitter t M -> i <= t -> okb (mclosed jitter M i) = false.
Proof.
  intros [H0 H1] Hi. unfold ProofsLoop.mclosed. rewrite H0.
  destruct (ProofsLoop.first_ok F ar chol_ex jitter M 0 i) as [k|] eqn:E.
  - apply first_ok_some in E as (Hk & Hok & _). rewrite H1 in Hok; [discriminate|lia].
  - destruct i as [|i']; auto; try (apply H1; lia).
Qed.

Theorem psc_not_psd st d32 dt n A upper jitter max_tries t' :
  trace_on st = false -> allok A = false -> existsb (has_nan ar) A = false ->
  let j := eff_jitter F st dt jitter in
  eff_tries F st max_tries = S t' ->
  (exists M, In M A /\ hopeless j (S t') M) ->
  psc ar chol_ex st d32 dt n A upper jitter max_tries = (ErrNotPSD (map (J j) (seq 0 (S t'))) (J j t'), A).
Proof.
  intros Ht H0 Hn j Et (M & HM & Hh). rewrite psc_unfold, core_spec, Ht, H0, Hn. cbn [orb]. cbv zeta. fold j.
  rewrite Et.
  destruct (ProofsLoop.first_allok F ar chol_ex d32 j A 0 (S t')) as [m|] eqn:Em.
  - exfalso. pose proof (first_allok_range _ _ _ _ _ _ _ _ _ Em) as Hr.
    destruct (first_allok_some _ _ _ _ _ _ _ _ _ Em) as [Hok _].
    rewrite traj_closed in Hok.
    pose proof (proj1 (allok_forall _) Hok _ (in_map (fun M => mclosed j M (S m)) _ _ HM)) as H1.
    cbv beta in H1. rewrite (hopeless_not_ok j (S t') M (S m) Hh) in H1; [discriminate|lia].
  - reflexivity.
Qed.

Theorem psc_not_psd_inv st d32 dt n A upper jitter max_tries w last A' :
  trace_on st = false ->
  psc ar chol_ex st d32 dt n A upper jitter max_tries = (ErrNotPSD w last, A') ->
  let j := eff_jitter F st dt jitter in
  let t := eff_tries F st max_tries in
  A' = A /\ 0 < t /\ w = map (J j) (seq 0 t) /\ last = J j (t - 1) /\
  existsb (has_nan ar) A = false /\ exists M, In M A /\ hopeless j t M.
Proof.
  intros Ht H j t. rewrite psc_unfold, core_spec, Ht in H. cbn [orb] in H.
  destruct (ProofsLoop.allok F chol_ex A) eqn:E0; [discriminate|].
  destruct (existsb (has_nan ar) A) eqn:En; [discriminate|].
  cbv zeta in H. fold j t in H.
  destruct (ProofsLoop.first_allok F ar chol_ex d32 j A 0 t) as [m|] eqn:Em; [discriminate|].
  destruct t as [|t'] eqn:Et; [discriminate|].
  injection H as <- <- <-. cbn [ProofsLoop.Jprev]. replace (S t' - 1) with t' by lia.
  repeat split; auto; try lia.
  pose proof (first_allok_none _ _ _ _ _ _ _ _ Em t') as Hb. rewrite traj_closed in Hb.
  destruct (allok_false_ex _ (Hb ltac:(lia))) as (X & HX & Hbad).
  apply in_map_iff in HX as (M & <- & HM). exists M; split; auto.
  unfold ProofsLoop.mclosed in Hbad.
  destruct (ProofsLoop.okb F chol_ex M) eqn:EM; [congruence|]. split; auto.
  destruct (ProofsLoop.first_ok F ar chol_ex j M 0 (S t')) as [k|] eqn:E.
  - apply first_ok_some in E as (_ & Hk & _). congruence.
  - intros k Hk. apply (first_ok_none _ _ _ _ _ _ _ E); lia.
Qed.

(* ---- what the specification of the primitive gives for the returned factors *)
Section WithSpec.
Variable Spec : mat -> mat -> Prop.
Hypothesis chol_spec : forall M, okb M = true -> Spec M (fac M).

(* every returned member is a `Spec`-factor of exactly  A_b  or  A_b + jitter*10^k I *)
Inductive factor_of (jitter : F) (m : nat) (M L : mat) : Prop :=
| FO_exact : okb M = true -> Spec M L -> factor_of jitter m M L
| FO_jitter (k : nat) : okb M = false -> k <= m ->
    (forall k', k' < k -> okb (shift M (J jitter k')) = false) ->
    Spec (shift M (J jitter k)) L -> factor_of jitter m M L.

Lemma factor_of_outcome jitter m M L : member_outcome jitter m M L -> factor_of jitter m M L.
Proof.
  intros [H ->|k H0 Hk Hok Hmin ->].
  - apply FO_exact; auto.
  - apply (FO_jitter jitter m M _ k); auto.
Qed.

Theorem psc_factor st d32 dt n A jitter max_tries L w A' :
  trace_on st = false ->
  psc ar chol_ex st d32 dt n A false jitter max_tries = (Ok L w, A') ->
  exists m, (w = [] \/ w = map (J (eff_jitter F st dt jitter)) (seq 0 (S m)) /\ m < eff_tries F st max_tries) /\
            Forall2 (factor_of (eff_jitter F st dt jitter) m) A L.
Proof.
  intros Ht H. destruct (psc_ok_inv st d32 dt n A jitter max_tries L w A' Ht H) as [_ [(H0 & -> & ->)|(H0 & Hn & m & Hm & -> & HF & _)]].
  - exists 0. split; auto. clear H. induction A as [|M r IH]; simpl; constructor.
    + apply FO_exact; [|apply chol_spec]; apply (proj1 (allok_forall _) H0); simpl; auto.
    + apply IH. apply allok_forall. intros X HX. apply (proj1 (allok_forall _) H0). simpl; auto.
  - exists m. split; auto. clear H H0 Hn. induction HF; constructor; auto. apply factor_of_outcome; auto.
Qed.
End WithSpec.

End Exact.

(* ------------------------------------------------------------------ an exact arithmetic that computes: Z
   (used by the Examples of Property.v: the hypotheses of the theorems are satisfiable on concrete inputs).
   Z.sqrt / Z.div are not exact, which the loop theorems do not need (`ExactArith` has ring identities only). *)
Definition ArZ : Arith Z :=
  {| a0 := 0%Z; a1 := 1%Z; a10 := 10%Z;
     aadd := Z.add; asub := Z.sub; amul := Z.mul; adiv := Z.div; asqrt := Z.sqrt;
     agtb := Z.gtb; aisnan := fun _ => false; around32 := fun x => x |}.

Lemma ArZ_exact : ExactArith Z ArZ.
Proof. split; cbn [ArZ a0 a1 aadd asub amul around32]; intros; try ring; reflexivity. Qed.
