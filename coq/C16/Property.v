(* C16 — psd_safe_cholesky perturbs minimally, per batch member, or fails loudly.
   Proof obligations (statements only; proofs are in ProofsLoop.v / ProofsMain.v / ProofsKernel.v /
   ProofsSpec.v / ProofsClosed.v).  Everything is about the transcription coq/C16/Model.v of
   linear_operator/utils/cholesky.py; `psc … A upper jitter max_tries` is the call
   `psd_safe_cholesky(A, upper, jitter=…, max_tries=…)` on the flattened batch `A : list matrix`
   and returns (outcome, contents of A after the call).

   Quantification: every theorem holds for ALL batch sizes (any list of members, the empty batch
   included), ALL matrix sizes, ALL max_tries (incl. <= 0, given explicitly or by settings), ALL
   jitter values and ALL settings states.
   - Section AnyArithmetic: every arithmetic (binary64 included), every factorisation primitive.
   - Section ExactArithmetic: arithmetic with the ring identities `ExactArith` (no rounding), every
     (deterministic, per-member) factorisation primitive `chol_ex`.
   - Section ExactKernel: `chol_ex` := the Cholesky–Banachiewicz kernel of Model.v (the instance the
     correspondence shards execute), arithmetic with the field identities `ExactField`.
   - Section RealClosedField: the same with every hypothesis discharged, for every real closed field
     (MathComp `rcfType`; `realalg` is a constructed instance, so the hypotheses are satisfiable).
   - Section SpecialValues: any arithmetic with IEEE-like NaN / infinities (`SpecialLaws`), rounding allowed:
     no NaN / Inf in a returned factor.
   Examples at the end instantiate the hypotheses on concrete inputs (arithmetic on Z). *)
From Coq Require Import List Bool Arith ZArith Lia.
Import ListNotations.
Require Import C16.Model C16.ProofsLoop C16.ProofsMain C16.ProofsKernel C16.ProofsSpec C16.ProofsClosed C16.ProofsFinite C16.ProofsSettings.

Section AnyArithmetic.
Variable F : Type.
Variable ar : Arith F.
Variable chol_ex : matrix F -> matrix F * nat.     (* cholesky_ex on one member: (L, info) *)

(* A is never modified — more generally no tensor that existed before the call is written to
   (the jitter goes to a fresh clone) *)
Theorem C16_input_unchanged st d32 dt n A upper jitter max_tries :
  snd (psc ar chol_ex st d32 dt n A upper jitter max_tries) = A.
Proof. exact (psc_input_unchanged F ar chol_ex st d32 dt n A upper jitter max_tries). Qed.

Theorem C16_no_preexisting_tensor_written st d32 dt n (h : mem F) pA upper jitter max_tries q :
  q < length h ->
  rd (snd (psd_safe_cholesky ar chol_ex st d32 dt n h pA upper jitter max_tries)) q = rd h q.
Proof. exact (psd_safe_cholesky_frame F ar chol_ex st d32 dt n h pA upper jitter max_tries q). Qed.

(* first attempt succeeds for every member: exactly those factors, no warning, nothing added *)
Theorem C16_pd_exact st d32 dt n A upper jitter max_tries :
  allok F chol_ex A = true ->
  psc ar chol_ex st d32 dt n A upper jitter max_tries
  = (Ok (orient F ar n upper (map (fac F chol_ex) A)) [], A).
Proof. exact (psc_pd_exact F ar chol_ex st d32 dt n A upper jitter max_tries). Qed.

(* upper=True: the transposed factors, the same warnings, the same errors *)
Theorem C16_upper st d32 dt n A jitter max_tries :
  psc ar chol_ex st d32 dt n A true jitter max_tries =
  match psc ar chol_ex st d32 dt n A false jitter max_tries with
  | (Ok L w, A') => (Ok (map (transpose ar n) L) w, A')
  | e => e
  end.
Proof. exact (psc_upper F ar chol_ex st d32 dt n A jitter max_tries). Qed.

Theorem C16_transpose_entries n (M : matrix F) i j :
  i < n -> get F ar (transpose ar n M) i j = get F ar M j i.
Proof. exact (transpose_get F ar n M i j). Qed.

(* jitter=None / max_tries=None are read from settings.cholesky_jitter.value(dtype) /
   settings.cholesky_max_tries.value(); nothing else of the settings matters except trace_mode *)
Theorem C16_defaults_from_settings st d32 dt n A upper :
  psc ar chol_ex st d32 dt n A upper None None =
  psc ar chol_ex st d32 dt n A upper (Some (cholesky_jitter_value st dt)) (Some (cmt_value st)).
Proof. exact (psc_defaults_from_settings F ar chol_ex st d32 dt n A upper). Qed.

Theorem C16_settings_only_via_values st st' d32 dt n A upper jitter max_tries :
  trace_on st = trace_on st' ->
  eff_jitter F st dt jitter = eff_jitter F st' dt jitter ->
  eff_tries F st max_tries = eff_tries F st' max_tries ->
  psc ar chol_ex st d32 dt n A upper jitter max_tries = psc ar chol_ex st' d32 dt n A upper jitter max_tries.
Proof. exact (psc_settings_only_via_values F ar chol_ex st st' d32 dt n A upper jitter max_tries). Qed.

(* NaN anywhere in A and a failed first attempt: NanError, no warning, nothing tried *)
Theorem C16_nan st d32 dt n A upper jitter max_tries :
  trace_on st = false -> allok F chol_ex A = false -> existsb (has_nan ar) A = true ->
  psc ar chol_ex st d32 dt n A upper jitter max_tries = (ErrNan, A).
Proof. exact (psc_nan F ar chol_ex st d32 dt n A upper jitter max_tries). Qed.

Theorem C16_trace_mode st d32 dt n A upper jitter max_tries :
  trace_on st = true ->
  psc ar chol_ex st d32 dt n A upper jitter max_tries
  = (Ok (orient F ar n upper (map (fac F chol_ex) A)) [], A).
Proof. exact (psc_trace_mode F ar chol_ex st d32 dt n A upper jitter max_tries). Qed.

(* KNOWN FINDING C16-max-tries-zero (refutation of "NotPSDError if every try fails" for
   max_tries <= 0): the transcribed code reaches `raise NotPSDError(f"… {jitter_new:.1e}")` with
   `jitter_new` unbound.  This is why C16_not_psd below carries the hypothesis `eff_tries = S t'`. *)
Theorem C16_max_tries_zero_refuted st d32 dt n A upper jitter max_tries :
  trace_on st = false -> allok F chol_ex A = false -> existsb (has_nan ar) A = false ->
  eff_tries F st max_tries = 0 ->
  psc ar chol_ex st d32 dt n A upper jitter max_tries = (ErrUnbound, A).
Proof. exact (psc_no_tries F ar chol_ex st d32 dt n A upper jitter max_tries). Qed.

(* the operator route DenseLinearOperator(A).cholesky(upper), n <> 1 (n = 1 is the documented sqrt(clamp_min(a, 0))
   shortcut), is psd_safe_cholesky(A, upper) with jitter / max_tries from the settings: every theorem about `psc`
   with `None None` applies to it *)
Theorem C16_operator_route st d32 dt n A upper : n <> 1 ->
  (fst (op_cholesky ar chol_ex st d32 dt n A upper), rd (snd (op_cholesky ar chol_ex st d32 dt n A upper)) 0)
  = psc ar chol_ex st d32 dt n A upper None None.
Proof. exact (op_cholesky_route F ar chol_ex st d32 dt n A upper). Qed.

(* WHERE jitter / max_tries COME FROM.  `enter_all st cs` is the settings state seen by the body of
   `with c1: with c2: ... with ck:` (Model.v: transcription of _dtype_value_context._set_value — "if x is not None" —,
   _value_context._set_value and _feature_flag._set_state), for ANY nesting depth and any mixture of contexts:
   the value in force is the one given by the innermost context that SPECIFIES it (for cholesky_jitter: a non-None
   argument in the slot of the dtype; ANY value counts, 0 included), otherwise the one in force outside. *)
Theorem C16_context_values_in_force (st : settings F) (cs : list (context F)) dt :
  cholesky_jitter_value (enter_all st cs) dt
    = match innermost_jitter F dt cs with Some v => v | None => cholesky_jitter_value st dt end /\
  cmt_value (enter_all st cs) = match innermost_tries F cs with Some v => v | None => cmt_value st end /\
  trace_on (enter_all st cs) = match innermost_trace F cs with Some v => v | None => trace_on st end.
Proof. exact (conj (enter_all_jitter F st cs dt) (conj (enter_all_tries F st cs) (enter_all_trace F st cs))). Qed.

(* HISTORIES of context objects (Model.v, Section SettingsHistories: every object keeps its own STACK of saved values, __enter__ pushes,
   __exit__ pops and restores).  After ANY balanced (well-nested) sequence of __enter__ / __exit__ — any depth, any mixture of
   cholesky_jitter / cholesky_max_tries / trace_mode objects, the SAME object entered again while still open (re-entrant) or after it
   was left (re-use) — the settings in force and every object's stack are exactly the initial ones ... *)
Theorem C16_balanced_history_restores (objs : list (context F)) evs st stacks :
  balanced evs -> length objs <= length stacks ->
  run objs (st, stacks) evs = (st, stacks).
Proof. exact (fun H => run_balanced F objs evs H st stacks). Qed.

(* ... so a call made afterwards behaves exactly as under the initial (fresh) settings *)
Theorem C16_call_after_balanced_history (objs : list (context F)) evs st stacks d32 dt n A upper jitter max_tries :
  balanced evs -> length objs <= length stacks ->
  psc ar chol_ex (fst (run objs (st, stacks) evs)) d32 dt n A upper jitter max_tries
  = psc ar chol_ex st d32 dt n A upper jitter max_tries.
Proof. exact (psc_after_balanced F ar chol_ex objs evs st stacks d32 dt n A upper jitter max_tries). Qed.

(* THE LADDER (minimality statement instantiated on the announced values), whatever the outcome (normal return or
   NotPSDError), any batch, any arithmetic: the i-th try announces exactly jitter * 10^i (`J j i = j * pow10 i`,
   pow10 0 = 1, pow10 (S i) = pow10 i * 10), i < number of tries <= max_tries; C16_telescope / C16_ok_characterisation
   say that this is also what the failing members carry on the diagonal *)
Theorem C16_ladder st d32 dt n A upper jitter max_tries :
  let j := eff_jitter F st dt jitter in
  let w := warnings_of F (fst (psc ar chol_ex st d32 dt n A upper jitter max_tries)) in
  w = map (J F ar j) (seq 0 (length w)) /\ length w <= eff_tries F st max_tries.
Proof. exact (psc_ladder F ar chol_ex st d32 dt n A upper jitter max_tries). Qed.

Theorem C16_pow10_step i : pow10 ar 0 = a1 ar /\ pow10 ar (S i) = amul ar (pow10 ar i) (a10 ar).
Proof. exact (conj eq_refl (pow10_unfold F ar i)). Qed.

End AnyArithmetic.

Section ExactArithmetic.
Variable F : Type.
Variable ar : Arith F.
Variable chol_ex : matrix F -> matrix F * nat.
Hypothesis EA : ExactArith F ar.

(* A normal return (trace mode off, upper=False; C16_upper covers upper=True) is one of:
   - every member factorised at once: no warning, L = those factors;
   - otherwise there is an m < max_tries such that the warnings are exactly jitter*10^0 … jitter*10^m,
     every member b is either UNTOUCHED (its first factorisation was fine; L_b is that factor) or carries
     exactly jitter*10^k_b with k_b <= m the FIRST exponent whose factorisation succeeds (every
     smaller one fails) and L_b is the factor of A_b + jitter*10^k_b I; and some member needs
     exactly m (the loop does not run longer than necessary). *)
Theorem C16_ok_characterisation st d32 dt n A jitter max_tries L w A' :
  trace_on st = false ->
  psc ar chol_ex st d32 dt n A false jitter max_tries = (Ok L w, A') ->
  let j := eff_jitter F st dt jitter in
  A' = A /\
  ( (allok F chol_ex A = true /\ w = [] /\ L = map (fac F chol_ex) A)
    \/
    (allok F chol_ex A = false /\ existsb (has_nan ar) A = false /\
     exists m, m < eff_tries F st max_tries /\
       w = map (J F ar j) (seq 0 (S m)) /\
       Forall2 (member_outcome F ar chol_ex j m) A L /\
       exists M, In M A /\ needs_exactly F ar chol_ex j m M) ).
Proof. exact (psc_ok_inv F ar chol_ex EA st d32 dt n A jitter max_tries L w A'). Qed.

(* existence direction: if m is the first loop index after which all members factorise, the call
   returns, member by member, the factor of the closed-form matrix `mclosed` (A_b, or A_b plus its
   own minimal jitter) and the warnings 10^0 … 10^m *)
Theorem C16_returns st d32 dt n A jitter max_tries m :
  trace_on st = false -> allok F chol_ex A = false -> existsb (has_nan ar) A = false ->
  let j := eff_jitter F st dt jitter in
  first_allok F ar chol_ex d32 j A 0 (eff_tries F st max_tries) = Some m ->
  psc ar chol_ex st d32 dt n A false jitter max_tries =
    (Ok (map (fun M => fac F chol_ex (mclosed F ar chol_ex j M (S m))) A) (map (J F ar j) (seq 0 (S m))), A).
Proof. exact (psc_returns F ar chol_ex EA st d32 dt n A jitter max_tries m). Qed.

(* the telescope itself: what member M carries when loop iteration i is entered *)
Theorem C16_telescope d32 jitter M i :
  mtraj F ar chol_ex d32 jitter M i = mclosed F ar chol_ex jitter M i.
Proof. exact (mtraj_closed F ar chol_ex EA d32 jitter M i). Qed.

(* NotPSDError exactly when some member fails at every exponent < max_tries (max_tries >= 1);
   all max_tries warnings have been emitted, the message names the last jitter *)
Theorem C16_not_psd st d32 dt n A upper jitter max_tries t' :
  trace_on st = false -> allok F chol_ex A = false -> existsb (has_nan ar) A = false ->
  let j := eff_jitter F st dt jitter in
  eff_tries F st max_tries = S t' ->
  (exists M, In M A /\ hopeless F ar chol_ex j (S t') M) ->
  psc ar chol_ex st d32 dt n A upper jitter max_tries
  = (ErrNotPSD (map (J F ar j) (seq 0 (S t'))) (J F ar j t'), A).
Proof. exact (psc_not_psd F ar chol_ex EA st d32 dt n A upper jitter max_tries t'). Qed.

Theorem C16_not_psd_inv st d32 dt n A upper jitter max_tries w last A' :
  trace_on st = false ->
  psc ar chol_ex st d32 dt n A upper jitter max_tries = (ErrNotPSD w last, A') ->
  let j := eff_jitter F st dt jitter in
  let t := eff_tries F st max_tries in
  A' = A /\ 0 < t /\ w = map (J F ar j) (seq 0 t) /\ last = J F ar j (t - 1) /\
  existsb (has_nan ar) A = false /\ exists M, In M A /\ hopeless F ar chol_ex j t M.
Proof. exact (psc_not_psd_inv F ar chol_ex EA st d32 dt n A upper jitter max_tries w last A'). Qed.

(* whatever the primitive guarantees on success (`Spec`: lower triangular, L L^T = M, finite …)
   holds for every returned member w.r.t. exactly A_b resp. A_b + jitter*10^k_b I *)
Theorem C16_factor (Spec : matrix F -> matrix F -> Prop) :
  (forall M, okb F chol_ex M = true -> Spec M (fac F chol_ex M)) ->
  forall st d32 dt n A jitter max_tries L w A',
  trace_on st = false ->
  psc ar chol_ex st d32 dt n A false jitter max_tries = (Ok L w, A') ->
  exists m, (w = [] \/ w = map (J F ar (eff_jitter F st dt jitter)) (seq 0 (S m)) /\ m < eff_tries F st max_tries) /\
            Forall2 (factor_of F ar chol_ex Spec (eff_jitter F st dt jitter) m) A L.
Proof. intros H st d32 dt n A jitter max_tries L w A'. exact (psc_factor F ar chol_ex EA Spec H st d32 dt n A jitter max_tries L w A'). Qed.

(* BOUNDARY jitter = 0 ("never perturb; fail loudly"): every rung of the ladder is 0 ... *)
Theorem C16_zero_jitter_ladder k : J F ar (a0 ar) k = a0 ar.
Proof. exact (J_zero F ar EA k). Qed.

(* ... so a batch with a member whose plain factorisation fails is NEVER repaired, for every max_tries, every batch
   shape, wherever the 0 comes from (argument, settings value, default): NotPSDError after max_tries warnings that all
   announce 0 (for max_tries <= 0 the transcribed code raises UnboundLocalError: C16_max_tries_zero_refuted) *)
Theorem C16_zero_jitter_never_repairs st d32 dt n A upper jitter max_tries :
  trace_on st = false -> allok F chol_ex A = false -> existsb (has_nan ar) A = false ->
  eff_jitter F st dt jitter = a0 ar ->
  psc ar chol_ex st d32 dt n A upper jitter max_tries =
  (match eff_tries F st max_tries with
   | O => ErrUnbound
   | S t' => ErrNotPSD (repeat (a0 ar) (S t')) (a0 ar)
   end, A).
Proof. exact (psc_zero_jitter F ar chol_ex EA st d32 dt n A upper jitter max_tries). Qed.

Theorem C16_zero_jitter_fails_loudly st d32 dt n A upper jitter max_tries L w :
  trace_on st = false -> allok F chol_ex A = false ->
  eff_jitter F st dt jitter = a0 ar ->
  fst (psc ar chol_ex st d32 dt n A upper jitter max_tries) <> Ok L w.
Proof. exact (psc_zero_jitter_never_ok F ar chol_ex EA st d32 dt n A upper jitter max_tries L w). Qed.

(* the same when the 0 is requested through `with settings.cholesky_jitter(...)` (arbitrarily nested with other
   contexts) and no jitter argument is passed: a settings mechanism that treats 0 as "not specified" contradicts this *)
Theorem C16_zero_jitter_via_settings_context st0 (cs : list (context F)) d32 dt n A upper max_tries L w :
  trace_on (enter_all st0 cs) = false -> allok F chol_ex A = false ->
  innermost_jitter F dt cs = Some (a0 ar) ->
  fst (psc ar chol_ex (enter_all st0 cs) d32 dt n A upper None max_tries) <> Ok L w.
Proof. exact (psc_zero_jitter_via_context F ar chol_ex EA st0 cs d32 dt n A upper max_tries L w). Qed.

End ExactArithmetic.

(* the ladder over Z (the arithmetic of the Examples): jitter * 10^i with the usual integer power *)
Theorem C16_ladder_values_Z j i : J Z ArZ j i = (j * 10 ^ Z.of_nat i)%Z.
Proof. exact (J_Z j i). Qed.


Section ExactKernel.
Variable F : Type.
Variable ar : Arith F.
Hypothesis EF : ExactField F ar.
Hypothesis Hround : forall x, around32 ar x = x.

(* cholesky_ex on one member, modelled by the kernel: info = 0  =>  the returned L is n x n, lower
   triangular with a positive diagonal, and (L L^T)_ij = M_ij for j <= i (guard: M is n x n) *)
Theorem C16_kernel_sound n (M : matrix F) :
  wf F n M -> snd (chol_kernel ar M) = 0 -> chol_spec F ar n M (fst (chol_kernel ar M)).
Proof. exact (chol_kernel_sound F ar EF n M). Qed.

(* … and L L^T = M everywhere when M is symmetric *)
Theorem C16_kernel_sound_sym n (M L : matrix F) :
  chol_spec F ar n M L -> sym F ar n M ->
  forall i j, i < n -> j < n -> dot F ar (nth i L []) (nth j L []) = ent F ar M i j.
Proof. exact (chol_spec_sym F ar EF n M L). Qed.

(* completeness and uniqueness: if (the lower triangle of) M is G G^T for a lower-triangular G with
   positive diagonal, the kernel reports success and returns exactly G *)
Theorem C16_kernel_complete n (G : list (list F)) (M : matrix F) :
  length G = n -> rowsOK F ar G -> wf F n M ->
  (forall i j, j <= i -> i < n -> ent F ar M i j = dot F ar (nth i G []) (nth j G [])) ->
  chol_kernel ar M = (pad ar n G, 0).
Proof. exact (chol_kernel_complete F ar EF n G M). Qed.

(* jitter keeps the matrix square and symmetric, and changes exactly the diagonal *)
Theorem C16_jitter_entries n (M : matrix F) d i j : wf F n M -> i < n -> j < n ->
  ent F ar (add_diag ar M d) i j = if Nat.eqb i j then aadd ar (ent F ar M i j) d else ent F ar M i j.
Proof. exact (ent_add_diag F ar n M d i j). Qed.

(* THE PROPERTY, positive-definite half: every member has a Cholesky factor  =>  exactly those factors are
   returned (transposed for upper=True), no warning, nothing added, A unchanged *)
Theorem C16_exact_factor_when_pd st d32 dt n A Gs upper jitter max_tries :
  Forall2 (fun M G => wf F n M /\ has_factor F ar n M G) A Gs ->
  psc ar (chol_kernel ar) st d32 dt n A upper jitter max_tries
  = (Ok (orient F ar n upper (map (pad ar n) Gs)) [], A).
Proof. exact (psc_kernel_pd_exact F ar EF st d32 dt n A Gs upper jitter max_tries). Qed.

(* THE PROPERTY, jitter half: on a normal return every member b carries either nothing (then L_b is a
   Cholesky factor of A_b) or exactly jitter*10^k_b with k_b <= m minimal — A_b and A_b + jitter*10^k' I,
   k' < k_b, have NO Cholesky factor — and L_b is a Cholesky factor of exactly A_b + jitter*10^k_b I;
   the warnings are jitter*10^0 … jitter*10^m with m < max_tries; A is unchanged *)
Theorem C16_minimal_jitter_per_member st d32 dt n A jitter max_tries L w A' :
  Forall (wf F n) A ->
  trace_on st = false ->
  psc ar (chol_kernel ar) st d32 dt n A false jitter max_tries = (Ok L w, A') ->
  let j := eff_jitter F st dt jitter in
  A' = A /\
  exists m, (w = [] \/ w = map (J F ar j) (seq 0 (S m)) /\ m < eff_tries F st max_tries) /\
            Forall2 (returned_factor F ar n j m) A L.
Proof. exact (psc_kernel_factor F ar EF Hround st d32 dt n A jitter max_tries L w A'). Qed.

(* THE PROPERTY, failure half: a member for which the kernel fails at every rung below max_tries (>= 1)
   => NotPSDError after exactly max_tries warnings *)
Theorem C16_not_psd_kernel st d32 dt n A upper jitter max_tries t' M :
  trace_on st = false -> existsb (has_nan ar) A = false ->
  let j := eff_jitter F st dt jitter in
  eff_tries F st max_tries = S t' ->
  In M A -> okb F (chol_kernel ar) M = false ->
  (forall k, k < S t' -> okb F (chol_kernel ar) (shift F ar M (J F ar j k)) = false) ->
  psc ar (chol_kernel ar) st d32 dt n A upper jitter max_tries
  = (ErrNotPSD (map (J F ar j) (seq 0 (S t'))) (J F ar j t'), A).
Proof. exact (psc_kernel_not_psd F ar EF Hround st d32 dt n A upper jitter max_tries t' M). Qed.

End ExactKernel.

Section RealClosedField.
Variable R : rcf.
Notation T := (carrier R).
Notation arR := (ArRcf R).

(* the hypotheses of Section ExactKernel hold in every real closed field *)
Theorem C16_rcf_is_exact : ExactField T arR /\ (forall x : T, around32 arR x = x) /\ ExactArith T arR.
Proof.
  exact (conj (ArRcf_field R) (conj (ArRcf_round R) (exact_of_field T arR (ArRcf_field R) (ArRcf_round R)))).
Qed.

Theorem C16_rcf_exact_factor_when_pd st d32 dt n (A : list (matrix T)) Gs upper jitter max_tries :
  Forall2 (fun M G => wf T n M /\ has_factor T arR n M G) A Gs ->
  psc arR (chol_kernel arR) st d32 dt n A upper jitter max_tries
  = (Ok (orient T arR n upper (map (pad arR n) Gs)) [], A).
Proof. exact (psc_kernel_pd_exact T arR (ArRcf_field R) st d32 dt n A Gs upper jitter max_tries). Qed.

Theorem C16_rcf_minimal_jitter_per_member st d32 dt n (A : list (matrix T)) jitter max_tries L w A' :
  Forall (wf T n) A ->
  trace_on st = false ->
  psc arR (chol_kernel arR) st d32 dt n A false jitter max_tries = (Ok L w, A') ->
  let j := eff_jitter T st dt jitter in
  A' = A /\
  exists m, (w = [] \/ w = map (J T arR j) (seq 0 (S m)) /\ m < eff_tries T st max_tries) /\
            Forall2 (returned_factor T arR n j m) A L.
Proof. exact (psc_kernel_factor T arR (ArRcf_field R) (ArRcf_round R) st d32 dt n A jitter max_tries L w A'). Qed.

Theorem C16_rcf_not_psd st d32 dt n (A : list (matrix T)) upper jitter max_tries t' M :
  trace_on st = false -> existsb (has_nan arR) A = false ->
  let j := eff_jitter T st dt jitter in
  eff_tries T st max_tries = S t' ->
  In M A -> okb T (chol_kernel arR) M = false ->
  (forall k, k < S t' -> okb T (chol_kernel arR) (shift T arR M (J T arR j k)) = false) ->
  psc arR (chol_kernel arR) st d32 dt n A upper jitter max_tries
  = (ErrNotPSD (map (J T arR j) (seq 0 (S t'))) (J T arR j t'), A).
Proof. exact (psc_kernel_not_psd T arR (ArRcf_field R) (ArRcf_round R) st d32 dt n A upper jitter max_tries t' M). Qed.

(* the kernel's guarantee in MathComp matrix form: for a symmetric n x n input, L *m L^T = M in 'M[R]_n *)
Theorem C16_rcf_factor_is_matrix_root n (M L : matrix T) :
  chol_spec T arR n M L -> sym T arR n M ->
  is_matrix_root R n L M.       (* := mx_of n L *m (mx_of n L)^T = mx_of n M   (ProofsClosed.v) *)
Proof. exact (chol_spec_mx R n M L). Qed.

End RealClosedField.

(* a real closed field exists (constructed: the real algebraic numbers), so Section RealClosedField is not vacuous *)
Example C16_rcf_inhabited : rcf.
Proof. exact realalg_rcf. Qed.

Section SpecialValues.
(* ANY arithmetic (rounding allowed) whose NaN / infinities follow the IEEE rules `SpecialLaws`:
   afin = "is finite", astuck = "is NaN or -infinity" *)
Variable F : Type.
Variable ar : Arith F.
Variables afin astuck : F -> bool.
Hypothesis SL : SpecialLaws F ar afin astuck.

(* cholesky_ex (the kernel) never produces NaN / Inf from a finite matrix: an accepted pivot d > 0 certifies that
   its whole row is finite *)
Theorem C16_kernel_finite (M : matrix F) :
  allfin F afin M = true -> allfin F afin (fst (chol_kernel ar M)) = true.
Proof. exact (kernel_finite F ar afin astuck SL M). Qed.

(* a normal return of psd_safe_cholesky contains no NaN / Inf provided the working copy stayed finite (finite
   input, no overflow when the jitter was added) *)
Theorem C16_no_nan_inf st d32 dt n A jitter max_tries L w A' :
  trace_on st = false ->
  psc ar (chol_kernel ar) st d32 dt n A false jitter max_tries = (Ok L w, A') ->
  (forall i, i <= eff_tries F st max_tries ->
     forallb (allfin F afin) (traj F ar (chol_kernel ar) d32 (eff_jitter F st dt jitter) A i) = true) ->
  forallb (allfin F afin) L = true.
Proof. exact (psc_no_nan_inf F ar afin astuck SL st d32 dt n A jitter max_tries L w A'). Qed.

End SpecialValues.

(* `SpecialLaws` is satisfiable: Z extended by NaN, +infinity, -infinity with the IEEE rules *)
Example C16_special_laws_inhabited : SpecialLaws xz ArXZ xfin xstuck.
Proof. exact ArXZ_special. Qed.

(* ------------------------------------------------------------------ Examples: the hypotheses are satisfiable.
   Arithmetic on Z (`ArZ`, satisfies `ExactArith`: ArZ_exact); the factorisation primitive is the kernel run
   on Z; batches of 1 x 1 and 2 x 2 integer matrices. *)
Section Examples.
Let ck := chol_kernel ArZ.
Let st : settings Z := MkSettings 1%Z 1%Z 1%Z 3%Z false.     (* jitter 1 for every dtype, max_tries 3 *)
(* members: [[4]] p.d. ; [[0]] singular (needs 10^0) ; [[-5]] needs 10^1 ; [[-200]] hopeless for 3 tries *)
Let pd := [[4%Z]]. Let sing := [[0%Z]]. Let neg5 := [[(-5)%Z]]. Let hopeless200 := [[(-200)%Z]].

Example ex_hyp_pd_exact : allok Z ck [pd; [[9%Z]]] = true.
Proof. reflexivity. Qed.

Example ex_hyp_returns :   (* hypotheses of C16_returns for a mixed batch: exit after loop index 1 *)
  allok Z ck [pd; sing; neg5] = false /\ existsb (has_nan ArZ) [pd; sing; neg5] = false /\
  first_allok Z ArZ ck true (eff_jitter Z st Float64 None) [pd; sing; neg5] 0 (eff_tries Z st None) = Some 1.
Proof. repeat split; reflexivity. Qed.

Example ex_mixed_batch :   (* … and what the call returns: pd untouched, sing + 1, neg5 + 10; two warnings 1, 10 *)
  psc ArZ ck st true Float64 1 [pd; sing; neg5] false None None
  = (Ok [[[2%Z]]; [[1%Z]]; [[2%Z]]] [1%Z; 10%Z], [pd; sing; neg5]).
Proof. reflexivity. Qed.

Example ex_member_outcomes :   (* the per-member alternatives of C16_ok_characterisation are all inhabited *)
  member_outcome Z ArZ ck 1%Z 1 pd [[2%Z]] /\ member_outcome Z ArZ ck 1%Z 1 sing [[1%Z]] /\
  member_outcome Z ArZ ck 1%Z 1 neg5 [[2%Z]] /\ needs_exactly Z ArZ ck 1%Z 1 neg5.
Proof.
  split; [|split; [|split]].
  - apply MO_untouched; reflexivity.
  - apply (MO_jittered Z ArZ ck 1%Z 1 sing _ 0); try reflexivity; try lia.
  - apply (MO_jittered Z ArZ ck 1%Z 1 neg5 _ 1); try reflexivity; try lia.
    intros k' Hk'. assert (k' = 0) by lia. subst. reflexivity.
  - repeat split. intros k' Hk'. assert (k' = 0) by lia. subst. reflexivity.
Qed.

Example ex_hyp_not_psd :   (* hypotheses of C16_not_psd: a hopeless member among good ones, max_tries = 3 *)
  eff_tries Z st None = 3 /\ In hopeless200 [pd; hopeless200] /\ hopeless Z ArZ ck 1%Z 3 hopeless200.
Proof.
  repeat split; [right; left; reflexivity|].
  intros k Hk. destruct k as [|[|[|k]]]; try reflexivity. lia.
Qed.

Example ex_not_psd_call :
  psc ArZ ck st true Float64 1 [pd; hopeless200] false None None = (ErrNotPSD [1%Z; 10%Z; 100%Z] 100%Z, [pd; hopeless200]).
Proof. reflexivity. Qed.

Example ex_max_tries_zero :   (* the known finding: max_tries = 0 reaches the raise with jitter_new unbound *)
  psc ArZ ck st true Float64 1 [sing] false None (Some 0%Z) = (ErrUnbound, [sing]).
Proof. reflexivity. Qed.

Example ex_hyp_kernel_2x2 :   (* wf / has-factor hypotheses on a 2 x 2 matrix with an exact integer factor *)
  chol_kernel ArZ [[4%Z; 2%Z]; [2%Z; 10%Z]] = ([[2%Z; 0%Z]; [1%Z; 3%Z]], 0) /\ wf Z 2 [[4%Z; 2%Z]; [2%Z; 10%Z]].
Proof. split; [reflexivity|]. split; [reflexivity|]. intros [|[|i]] Hi; try reflexivity. lia. Qed.

(* jitter 0 requested by a NESTED settings context (outer context says 5, inner one says 0 for the double slot only):
   hypotheses of C16_zero_jitter_via_settings_context, what the call does, and the contrast without the context *)
Example ex_zero_jitter_context :
  let cs := [CtxJitter (Some 5%Z) (Some 5%Z) None; CtxMaxTries 2%Z; CtxJitter None (Some 0%Z) None] in
  innermost_jitter Z Float64 cs = Some 0%Z /\ innermost_jitter Z Float32 cs = Some 5%Z /\ innermost_tries Z cs = Some 2%Z /\
  allok Z ck [pd; sing] = false /\
  psc ArZ ck (enter_all st cs) true Float64 1 [pd; sing] false None None = (ErrNotPSD [0%Z; 0%Z] 0%Z, [pd; sing]) /\
  psc ArZ ck (enter_all st cs) true Float32 1 [pd; sing] false None None = (Ok [[[2%Z]]; [[2%Z]]] [5%Z], [pd; sing]) /\
  psc ArZ ck st true Float64 1 [pd; sing] false None None = (Ok [[[2%Z]]; [[1%Z]]] [1%Z], [pd; sing]).
Proof. repeat split; reflexivity. Qed.

Example ex_ladder :   (* C16_ladder on the hopeless batch: 3 tries announce 1*10^0, 1*10^1, 1*10^2 *)
  warnings_of Z (fst (psc ArZ ck st true Float64 1 [pd; hopeless200] false None None))
  = map (J Z ArZ 1%Z) (seq 0 3) /\ map (J Z ArZ 1%Z) (seq 0 3) = [1%Z; 10%Z; 100%Z].
Proof. split; reflexivity. Qed.

(* re-entrant use of ONE cholesky_jitter object (entered twice, left twice) around a cholesky_max_tries object: the hypotheses of
   C16_balanced_history_restores; inside, the object's value is in force; afterwards everything is as before *)
Example ex_reentrant_history :
  let objs := [CtxJitter (Some 7%Z) (Some 7%Z) None; CtxMaxTries 5%Z] in
  balanced [Enter 0; Enter 1; Enter 0; Exit 0; Exit 1; Exit 0] /\
  fst (run objs (st, [[]; []]) [Enter 0; Enter 1; Enter 0]) = MkSettings 7%Z 7%Z 1%Z 5%Z false /\
  run objs (st, [[]; []]) [Enter 0; Enter 1; Enter 0; Exit 0; Exit 1; Exit 0] = (st, [[]; []]).
Proof.
  split; [|split; reflexivity].
  apply (bal_wrap 0 [Enter 1; Enter 0; Exit 0; Exit 1]).
  apply (bal_wrap 1 [Enter 0; Exit 0]). apply (bal_wrap 0 []). apply bal_nil.
Qed.

End Examples.
