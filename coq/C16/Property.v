(* C16 — psd_safe_cholesky perturbs minimally, per batch member, or fails loudly.
   Proof obligations (statements only; proofs are in ProofsLoop.v / ProofsMain.v / ProofsKernel.v /
   ProofsClosed.v).  Everything is about the transcription coq/C16/Model.v of
   linear_operator/utils/cholesky.py; `psc … A upper jitter max_tries` is the call
   `psd_safe_cholesky(A, upper, jitter=…, max_tries=…)` on the flattened batch `A : list matrix`
   and returns (outcome, contents of A after the call).

   Quantification: every theorem holds for ALL batch sizes (any list of members, the empty batch
   included), ALL matrix sizes, ALL max_tries (incl. <= 0, given explicitly or by settings), ALL
   jitter values and ALL settings states.  Theorems in `Section AnyArithmetic` hold for every
   arithmetic (binary64 included) and every factorisation primitive; those in `Section
   ExactArithmetic` need the ring identities `ExactArith` (exact arithmetic, no rounding) and
   are instantiated without any hypothesis for the Cholesky–Banachiewicz kernel over an arbitrary
   real closed field at the end of the file. *)
From Coq Require Import List Bool Arith ZArith Lia.
Import ListNotations.
Require Import C16.Model C16.ProofsLoop C16.ProofsMain.

Section AnyArithmetic.
Variable F : Type.
Variable ar : Arith F.
Variable chol_ex : matrix F -> matrix F * nat.     (* cholesky_ex on one member: (L, info) *)

(* A is never modified — more generally no tensor that existed before the call is written to
   (the jitter goes to a fresh clone) *)
Theorem C16_input_unchanged st d32 dt n A upper jitter max_tries :
  snd (psc ar chol_ex st d32 dt n A upper jitter max_tries) = A.
Proof. exact (psc_input_unchanged F ar chol_ex st d32 dt n A upper jitter max_tries). Qed.

Theorem C16_no_preexisting_tensor_written st d32 dt n (h : mem F) pA upper jitter max_tries q :
  q < length h ->
  rd (snd (psd_safe_cholesky ar chol_ex st d32 dt n h pA upper jitter max_tries)) q = rd h q.
Proof. exact (psd_safe_cholesky_frame F ar chol_ex st d32 dt n h pA upper jitter max_tries q). Qed.

(* first attempt succeeds for every member: exactly those factors, no warning, nothing added *)
Theorem C16_pd_exact st d32 dt n A upper jitter max_tries :
  allok F chol_ex A = true ->
  psc ar chol_ex st d32 dt n A upper jitter max_tries
  = (Ok (orient F ar n upper (map (fac F chol_ex) A)) [], A).
Proof. exact (psc_pd_exact F ar chol_ex st d32 dt n A upper jitter max_tries). Qed.

(* upper=True: the transposed factors, the same warnings, the same errors *)
Theorem C16_upper st d32 dt n A jitter max_tries :
  psc ar chol_ex st d32 dt n A true jitter max_tries =
  match psc ar chol_ex st d32 dt n A false jitter max_tries with
  | (Ok L w, A') => (Ok (map (transpose ar n) L) w, A')
  | e => e
  end.
Proof. exact (psc_upper F ar chol_ex st d32 dt n A jitter max_tries). Qed.

Theorem C16_transpose_entries n (M : matrix F) i j :
  i < n -> get F ar (transpose ar n M) i j = get F ar M j i.
Proof. exact (transpose_get F ar n M i j). Qed.

(* jitter=None / max_tries=None are read from settings.cholesky_jitter.value(dtype) /
   settings.cholesky_max_tries.value(); nothing else of the settings matters except trace_mode *)
Theorem C16_defaults_from_settings st d32 dt n A upper :
  psc ar chol_ex st d32 dt n A upper None None =
  psc ar chol_ex st d32 dt n A upper (Some (cholesky_jitter_value st dt)) (Some (cmt_value st)).
Proof. exact (psc_defaults_from_settings F ar chol_ex st d32 dt n A upper). Qed.

Theorem C16_settings_only_via_values st st' d32 dt n A upper jitter max_tries :
  trace_on st = trace_on st' ->
  eff_jitter F st dt jitter = eff_jitter F st' dt jitter ->
  eff_tries F st max_tries = eff_tries F st' max_tries ->
  psc ar chol_ex st d32 dt n A upper jitter max_tries = psc ar chol_ex st' d32 dt n A upper jitter max_tries.
Proof. exact (psc_settings_only_via_values F ar chol_ex st st' d32 dt n A upper jitter max_tries). Qed.

(* NaN anywhere in A and a failed first attempt: NanError, no warning, nothing tried *)
Theorem C16_nan st d32 dt n A upper jitter max_tries :
  trace_on st = false -> allok F chol_ex A = false -> existsb (has_nan ar) A = true ->
  psc ar chol_ex st d32 dt n A upper jitter max_tries = (ErrNan, A).
Proof. exact (psc_nan F ar chol_ex st d32 dt n A upper jitter max_tries). Qed.

Theorem C16_trace_mode st d32 dt n A upper jitter max_tries :
  trace_on st = true ->
  psc ar chol_ex st d32 dt n A upper jitter max_tries
  = (Ok (orient F ar n upper (map (fac F chol_ex) A)) [], A).
Proof. exact (psc_trace_mode F ar chol_ex st d32 dt n A upper jitter max_tries). Qed.

(* KNOWN FINDING C16-max-tries-zero (refutation of "NotPSDError if every try fails" for
   max_tries <= 0): the transcribed code reaches `raise NotPSDError(f"… {jitter_new:.1e}")` with
   `jitter_new` unbound.  This is why C16_not_psd below carries the hypothesis `eff_tries = S t'`. *)
Theorem C16_max_tries_zero_refuted st d32 dt n A upper jitter max_tries :
  trace_on st = false -> allok F chol_ex A = false -> existsb (has_nan ar) A = false ->
  eff_tries F st max_tries = 0 ->
  psc ar chol_ex st d32 dt n A upper jitter max_tries = (ErrUnbound, A).
Proof. exact (psc_no_tries F ar chol_ex st d32 dt n A upper jitter max_tries). Qed.

End AnyArithmetic.

Section ExactArithmetic.
Variable F : Type.
Variable ar : Arith F.
Variable chol_ex : matrix F -> matrix F * nat.
Hypothesis EA : ExactArith F ar.

(* A normal return (trace mode off, upper=False; C16_upper covers upper=True) is one of:
   - every member factorised at once: no warning, L = those factors;
   - otherwise there is an m < max_tries such that the warnings are exactly jitter*10^0 … jitter*10^m,
     every member b is either UNTOUCHED (its first factorisation was fine; L_b is that factor) or carries
     exactly jitter*10^k_b with k_b <= m the FIRST exponent whose factorisation succeeds (every
     smaller one fails) and L_b is the factor of A_b + jitter*10^k_b I; and some member needs
     exactly m (the loop does not run longer than necessary). *)
Theorem C16_ok_characterisation st d32 dt n A jitter max_tries L w A' :
  trace_on st = false ->
  psc ar chol_ex st d32 dt n A false jitter max_tries = (Ok L w, A') ->
  let j := eff_jitter F st dt jitter in
  A' = A /\
  ( (allok F chol_ex A = true /\ w = [] /\ L = map (fac F chol_ex) A)
    \/
    (allok F chol_ex A = false /\ existsb (has_nan ar) A = false /\
     exists m, m < eff_tries F st max_tries /\
       w = map (J F ar j) (seq 0 (S m)) /\
       Forall2 (member_outcome F ar chol_ex j m) A L /\
       exists M, In M A /\ needs_exactly F ar chol_ex j m M) ).
Proof. exact (psc_ok_inv F ar chol_ex EA st d32 dt n A jitter max_tries L w A'). Qed.

(* existence direction: if m is the first loop index after which all members factorise, the call
   returns, member by member, the factor of the closed-form matrix `mclosed` (A_b, or A_b plus its
   own minimal jitter) and the warnings 10^0 … 10^m *)
Theorem C16_returns st d32 dt n A jitter max_tries m :
  trace_on st = false -> allok F chol_ex A = false -> existsb (has_nan ar) A = false ->
  let j := eff_jitter F st dt jitter in
  first_allok F ar chol_ex d32 j A 0 (eff_tries F st max_tries) = Some m ->
  psc ar chol_ex st d32 dt n A false jitter max_tries =
    (Ok (map (fun M => fac F chol_ex (mclosed F ar chol_ex j M (S m))) A) (map (J F ar j) (seq 0 (S m))), A).
Proof. exact (psc_returns F ar chol_ex EA st d32 dt n A jitter max_tries m). Qed.

(* the telescope itself: what member M carries when loop iteration i is entered *)
Theorem C16_telescope d32 jitter M i :
  mtraj F ar chol_ex d32 jitter M i = mclosed F ar chol_ex jitter M i.
Proof. exact (mtraj_closed F ar chol_ex EA d32 jitter M i). Qed.

(* NotPSDError exactly when some member fails at every exponent < max_tries (max_tries >= 1);
   all max_tries warnings have been emitted, the message names the last jitter *)
Theorem C16_not_psd st d32 dt n A upper jitter max_tries t' :
  trace_on st = false -> allok F chol_ex A = false -> existsb (has_nan ar) A = false ->
  let j := eff_jitter F st dt jitter in
  eff_tries F st max_tries = S t' ->
  (exists M, In M A /\ hopeless F ar chol_ex j (S t') M) ->
  psc ar chol_ex st d32 dt n A upper jitter max_tries
  = (ErrNotPSD (map (J F ar j) (seq 0 (S t'))) (J F ar j t'), A).
Proof. exact (psc_not_psd F ar chol_ex EA st d32 dt n A upper jitter max_tries t'). Qed.

Theorem C16_not_psd_inv st d32 dt n A upper jitter max_tries w last A' :
  trace_on st = false ->
  psc ar chol_ex st d32 dt n A upper jitter max_tries = (ErrNotPSD w last, A') ->
  let j := eff_jitter F st dt jitter in
  let t := eff_tries F st max_tries in
  A' = A /\ 0 < t /\ w = map (J F ar j) (seq 0 t) /\ last = J F ar j (t - 1) /\
  existsb (has_nan ar) A = false /\ exists M, In M A /\ hopeless F ar chol_ex j t M.
Proof. exact (psc_not_psd_inv F ar chol_ex EA st d32 dt n A upper jitter max_tries w last A'). Qed.

(* whatever the primitive guarantees on success (`Spec`: lower triangular, L L^T = M, finite …)
   holds for every returned member w.r.t. exactly A_b resp. A_b + jitter*10^k_b I *)
Theorem C16_factor (Spec : matrix F -> matrix F -> Prop) :
  (forall M, okb F chol_ex M = true -> Spec M (fac F chol_ex M)) ->
  forall st d32 dt n A jitter max_tries L w A',
  trace_on st = false ->
  psc ar chol_ex st d32 dt n A false jitter max_tries = (Ok L w, A') ->
  exists m, (w = [] \/ w = map (J F ar (eff_jitter F st dt jitter)) (seq 0 (S m)) /\ m < eff_tries F st max_tries) /\
            Forall2 (factor_of F ar chol_ex Spec (eff_jitter F st dt jitter) m) A L.
Proof. intros H st d32 dt n A jitter max_tries L w A'. exact (psc_factor F ar chol_ex EA Spec H st d32 dt n A jitter max_tries L w A'). Qed.

End ExactArithmetic.
