(* C18 — Gaussian sampling uses a true square root of the covariance.
   Only theorem statements live here; each is closed by `exact` of a lemma proved in Proofs*.v about the
   executable model of Model.v (instantiated on an arbitrary real closed field F: exact arithmetic).
   All statements quantify over ALL sampler expressions (any nesting), batch shapes, sizes and sample counts. *)
From mathcomp Require Import all_ssreflect all_algebra.
Require Import C18.Model C18.ModelBatch C18.ProofsIdx C18.ProofsLinear C18.ProofsGram C18.ProofsMx C18.ProofsCoord C18.ProofsChol
  C18.ProofsBatch.
Set Implicit Arguments.
Unset Strict Implicit.
Import GRing.Theory Num.Theory.
Local Open Scope ring_scope.

(* Layout: permute(-1, *range(dim-1)) turns the (batch.., n, k) product into draws of shape (k, batch.., n):
   out[t, b, i] = in[b, i, t] (flat row-major indices; B = product of the batch shape). *)
Theorem C18_sample_layout : forall (F : rcfType) B n k (x : seq F),
  size (t_last_to_first (RA F) (B * n) k x) = (k * B * n)%N /\
  forall t b i, (t < k)%N -> (b < B)%N -> (i < n)%N ->
    rd (RA F) (t_last_to_first (RA F) (B * n) k x) ((t * B + b) * n + i) = rd (RA F) x ((b * n + i) * k + t).
Proof. exact: layout_last_to_first. Qed.

(* Every sampler is a fixed linear map applied to the noise: for every sampler expression (any nesting of
   Diag / Identity / generic / BlockDiag / BlockInterleaved / SumBatch / Interpolated / PsdSum), every k and
   every content of the randn tensors of the requested sizes, the returned tensor has k*B*n entries and
       draws[t, b, i] = \sum_a root e b i a * coord k e zs b a t,
   where `root` does not depend on the noise and `coord` only selects noise entries. *)
Theorem C18_sample_linear : forall (F : rcfType) (st : sett) k (e : sx F) zs s,
  wf (RA F) st e -> noise_ok (RA F) st k e zs -> alg_sample (RA F) st k e zs = Some s ->
  size s = (k * BB e * NN e)%N /\
  forall t b i, (t < k)%N -> (b < BB e)%N -> (i < NN e)%N ->
    rd (RA F) s ((t * BB e + b) * NN e + i) = \sum_(a < nd (RA F) st e) root (RA F) st e b i a * coord (RA F) st k e zs b a t.
Proof. move=> F st k e zs s; exact: sample_linear. Qed.

(* The same as a matrix identity per batch member: S_b = R_b Z_b. *)
Theorem C18_sample_linear_mx : forall (F : rcfType) (st : sett) k (e : sx F) zs s b,
  wf (RA F) st e -> noise_ok (RA F) st k e zs -> alg_sample (RA F) st k e zs = Some s -> (b < BB e)%N ->
  size s = (k * BB e * NN e)%N /\ mx_draws k e s b = mx_root st e b *m mx_noise st k e zs b.
Proof. move=> F st k e zs s b; exact: sample_linear_mx. Qed.

(* The noise coordinates are distinct, in-range entries of the randn tensors: `coord` reads the tensor of call
   (coord_idx ..).1 at offset (coord_idx ..).2, the address map is injective on (batch member, coordinate, draw) and
   never leaves the tensors.  Hence, for i.i.d. standard-normal randn entries, each draw of each batch member is R_b
   applied to its own fresh standard-normal vector: draws are independent across t and across batch members, and no
   two summands of a PsdSum / blocks of a block operator share noise. *)
Theorem C18_noise_coordinates_read : forall (F : rcfType) (st : sett) k (e : sx F) zs b a t,
  (a < nd (RA F) st e)%N ->
  coord (RA F) st k e zs b a t =
  rd (RA F) (nth [::] zs (coord_idx (RA F) st k e b a t).1) (coord_idx (RA F) st k e b a t).2.
Proof. move=> F st k e zs b a t; exact: coordE. Qed.

Theorem C18_noise_coordinates_distinct : forall (F : rcfType) (st : sett) k (e : sx F),
  wf (RA F) st e ->
  forall b a t b' a' t', in_range st k e b a t -> in_range st k e b' a' t' ->
  coord_idx (RA F) st k e b a t = coord_idx (RA F) st k e b' a' t' -> [/\ b = b', a = a' & t = t'].
Proof. move=> F st k e; exact: coord_idx_inj. Qed.

Theorem C18_noise_coordinates_in_range : forall (F : rcfType) (st : sett) k (e : sx F) zs,
  wf (RA F) st e -> noise_ok (RA F) st k e zs ->
  forall b a t, in_range st k e b a t ->
  ((coord_idx (RA F) st k e b a t).2 < size (nth [::] zs (coord_idx (RA F) st k e b a t).1))%N.
Proof. move=> F st k e zs; exact: coord_idx_in_range. Qed.

(* R R^T = A for every sampler, given valid roots at the generic leaves (C06), non-negative diagonals, and
   W_r = W_l at every interpolated node. *)
Theorem C18_sample_root : forall (F : rcfType) (st : sett) (e : sx F) b,
  wf (RA F) st e -> leaves_ok st e -> interp_sym e -> (b < BB e)%N ->
  mx_root st e b *m (mx_root st e b)^T = mx_den e b.
Proof. move=> F st e b; exact: sample_root_mx. Qed.

(* Interpolated operators: whatever the right interpolation is, the sampler's covariance is that of the
   left-symmetrised operator, W_l A_base W_l^T ... *)
Theorem C18_sample_interp : forall (F : rcfType) (st : sett) (e : sx F) b,
  wf (RA F) st e -> leaves_ok st e -> (b < BB e)%N ->
  mx_root st e b *m (mx_root st e b)^T = \matrix_(i, j) den (RA F) (symmetrize e) b i j.
Proof. move=> F st e b; exact: sample_interp_mx. Qed.

(* ... which is the represented matrix when W_r = W_l ... *)
Theorem C18_interp_symmetric_same : forall (F : rcfType) (st : sett) (e : sx F),
  wf (RA F) st e -> interp_sym e ->
  forall b i j, (b < BB e)%N -> (i < NN e)%N -> (j < NN e)%N ->
  den (RA F) (symmetrize e) b i j = den (RA F) e b i j.
Proof. move=> F st e; exact: den_symmetrize. Qed.

(* ... and is NOT in general when W_r <> W_l although the pinned code samples such operators all the same
   (witness: base Identity(1), W_l = [1], W_r = [2]: the operator is the PSD matrix [2], draws have variance 1). *)
Theorem C18_sample_interp_asymmetric_refuted : forall (F : rcfType) (st : sett),
  exists e : sx F, wf (RA F) st e /\ leaves_ok st e /\
    (exists s, alg_sample (RA F) st 1 e [:: [:: 1]] = Some s) /\
    gram st e 0 0 0 != den (RA F) e 0 0 0.
Proof. exact: interp_asymmetric_refuted. Qed.

(* 1x1 operators: the generic sampler takes sqrt(to_dense()); this leaf is valid whenever the entries are >= 0. *)
Theorem C18_leaf_sqrt_valid : forall (F : rcfType) (st : sett) bs (A : seq F) rk,
  ciq_on st = false -> size A = prodn bs ->
  (forall b, (b < prodn bs)%N -> 0 <= rd (RA F) A b) -> leaves_ok st (SGen bs 1 A rk).
Proof. move=> F st bs A rk; exact: leaf_sqrt_ok. Qed.

(* The Cholesky transcription used by the model on the `cholesky` path really factorises: for a symmetric matrix
   whose factorisation meets no non-positive pivot (torch.linalg.cholesky_ex: info = 0), L L^T = A, L lower
   triangular — for every size n (induction over the row-by-row recurrence). *)
Theorem C18_chol_factorizes : forall (F : rcfType) n (A : nat -> nat -> F),
  (forall i j, (i < n)%N -> (j < n)%N -> A i j = A j i) -> pivots_pos n A ->
  (forall i j, (i < n)%N -> (j < n)%N -> \sum_(l < n) Lent n A i l * Lent n A j l = A i j) /\
  (forall i j, (i < n)%N -> (i < j)%N -> Lent n A i j = 0).
Proof. move=> F n A hs hp; split; [exact: chol_gram | by move=> i j; exact: Lent_upper]. Qed.

(* ... hence the generic leaf on the Cholesky path (size <= max_cholesky_size, or fast root decomposition off; not 1x1,
   not CIQ) is a valid leaf for C18_sample_root whenever every batch member is symmetric with positive pivots. *)
Theorem C18_leaf_chol_valid : forall (F : rcfType) (st : sett) bs n (A : seq F) lz,
  gen_method st n (RAuto lz) = MChol -> chol_ok (prodn bs) n A -> leaves_ok st (SGen bs n A (RAuto lz)).
Proof. move=> F st bs n A lz; exact: leaf_chol_ok. Qed.

(* Covariance of a linear image of white noise, expectation-free (E[z z^T] = I  =>  E[(Rz)(Rz)^T] = R R^T):
   the outer products of the images of the basis vectors sum to R R^T; with a general second moment M of
   the noise the draws have second moment R M R^T. *)
Theorem C18_cov_linear_image : forall (F : rcfType) n d (R : 'M[F]_(n, d)),
  \sum_(a < d) (R *m delta_mx a 0) *m (R *m (delta_mx a 0 : 'M[F]_(d, 1)))^T = R *m R^T.
Proof. move=> F n d R; exact: cov_linear_image. Qed.

Theorem C18_cov_linear_image_gen : forall (F : rcfType) n d (R : 'M[F]_(n, d)) (M : 'M[F]_(d, d)),
  \sum_(a < d) \sum_(c < d) M a c *: ((R *m delta_mx a 0) *m (R *m (delta_mx c 0 : 'M[F]_(d, 1)))^T) = R *m M *m R^T.
Proof. move=> F n d R M; exact: cov_linear_image_gen. Qed.

(* CIQ branch (settings.ciq_samples): NOT modelled (alg_sample = None); what is proved is only the algebra the
   branch relies on: IF contour_integral_quad returns S z for a symmetric S with S S = A (the unproved quadrature
   statement of property C11), THEN the draws S z have covariance S S^T = A. *)
Theorem C18_ciq_partial : forall (F : rcfType) n (S A : 'M[F]_(n, n)),
  S^T = S -> S *m S = A -> S *m S^T = A.
Proof. by move=> F n S A -> . Qed.

(* non-vacuity: a concrete nested expression (PsdSum of a Diag, a BlockDiag of Identity and a symmetric
   Interpolated over a generic leaf with a valid root) satisfies all hypotheses, and the model returns draws for it *)
Section NonVacuous.
Variable F : rcfType.
Let st0 := MkSett false 800 true.
Definition nv_leaf : sx F := SGen [:: 2%N] 2 [:: 1; 0; 0; 1; 4%:R; 0; 0; 4%:R] (RGiven 2 [:: 1; 0; 0; 1; 2%:R; 0; 0; 2%:R]).
Definition nv_ex : sx F :=
  SAdd (SAdd (SAdd (SZero F [:: 2%N] 2) (SDiag [:: 2%N] 2 [:: 1; 4%:R; 9%:R; 1]))
             (SBlockDiag [:: 2%N] 2 (SIdent F [:: 2%N; 2%N] 1)))
       (SInterp [:: 2%N] 2 1 [:: 0%N; 1%N; 1%N; 0%N] [:: 1; 1; 2%:R; 1] [:: 0%N; 1%N; 1%N; 0%N] [:: 1; 1; 2%:R; 1] nv_leaf).

Example C18_nonvacuous :
  wf (RA F) st0 nv_ex /\ leaves_ok st0 nv_ex /\ interp_sym nv_ex /\ BB nv_ex = 2%N /\ NN nv_ex = 2%N /\
  nd (RA F) st0 nv_ex = 6%N /\
  exists s, alg_sample (RA F) st0 3 nv_ex [:: nseq 12 1; nseq 12 1; nseq 12 1] = Some s.
Proof.
split; first by [].
split.
  rewrite /=; split; last first.
    move=> b i j; rewrite /gen_root /= => hb hi hj.
    rewrite big_ord_recl big_ord_recl big_ord0 /=.
    case: b hb => [|[|//]] _; case: i hi => [|[|//]] _; case: j hj => [|[|//]] _;
      rewrite /Model.rd /= ?mulr0 ?mul0r ?addr0 ?add0r ?mulr1 //; by rewrite -natrM.
  split; last by [].
  split=> // x; do 4 (case: x => [|x] //=; rewrite ?ler01 ?ler0n //).
split; first by [].
split; first by [].
split; first by [].
split; first by [].
by eexists; rewrite /=; reflexivity.
Qed.

(* non-vacuity of chol_ok: A = [[1,1],[1,2]] (one batch member) is symmetric with pivots 1 and 1 *)
Definition nv_A2 : seq F := [:: 1; 1; 1; 2%:R].
Lemma nv_L00 : Lent 2 (Ab 2 nv_A2 0) 0 0 = 1.
Proof. by rewrite Lent_diag // big_ord0 subr0 /Ab /= /Model.rd /= sqrtr1. Qed.
Lemma nv_L10 : Lent 2 (Ab 2 nv_A2 0) 1 0 = 1.
Proof. by rewrite Lent_lower // big_ord0 subr0 nv_L00 divr1. Qed.
Example C18_chol_nonvacuous : chol_ok 1 2 nv_A2 /\ gen_method st0 2 (@RAuto F None) = MChol.
Proof.
split; last by [].
move=> b; rewrite ltnS leqn0 => /eqP ->; split.
  by move=> i j; case: i => [|[|//]] _; case: j => [|[|//]] _.
move=> i; case: i => [|[|//]] _.
  by rewrite big_ord0 subr0 /Ab /= /Model.rd /= ltr01.
rewrite big_ord_recl big_ord0 addr0 nv_L10 mulr1 /Ab /= /Model.rd /=.
have -> : (2%:R - 1 : F) = 1 by rewrite -[X in _ - X]/(1%:R) -natrB.
exact: ltr01.
Qed.
End NonVacuous.

(* ------------------------------------------------------------------------------------------------------------------
   Batch / sample index layout for ALL batch shapes and sample counts, the CIQ broadcast, and histories.          *)

(* Model.v flattens a batch shape bs to B = prod bs.  `ravel` is the row-major address torch uses; it is a bijection
   between the multi-indices inside a shape and [0, prod shape) — so "batch member b" of the theorems above is exactly
   one multi-index of the real batch shape, for every number and size of batch dimensions. *)
Theorem C18_batch_index_bijection : forall (shape : seq nat),
  (forall idx, in_shape shape idx -> (ravel shape idx < prodn shape)%N /\ unravel shape (ravel shape idx) = idx) /\
  (forall x, (x < prodn shape)%N -> in_shape shape (unravel shape x) /\ ravel shape (unravel shape x) = x) /\
  (forall idx idx', in_shape shape idx -> in_shape shape idx' -> ravel shape idx = ravel shape idx' -> idx = idx').
Proof.
move=> shape; split; [|split].
- by move=> idx h; split; [exact: ravel_lt | exact: unravel_ravel].
- by move=> x h; split; [exact: unravel_in_shape | exact: ravel_unravel].
- by move=> idx idx'; exact: ravel_inj.
Qed.

(* The sampler's linear map of a batch is the per-member map: in the returned tensor of shape (k, batch.., n), the entry
   at multi-index (t, idx.., i) is row i of R_idx applied to the noise coordinates of (member idx, draw t) — whatever the
   batch shape, the sample count and the nesting of samplers.  No entry mixes members or draws. *)
Theorem C18_sample_linear_nd : forall (F : rcfType) (st : sett) k (e : sx F) zs s,
  wf (RA F) st e -> noise_ok (RA F) st k e zs -> alg_sample (RA F) st k e zs = Some s ->
  size s = prodn (k :: bshape e ++ [:: NN e]) /\
  forall t idx i, (t < k)%N -> in_shape (bshape e) idx -> (i < NN e)%N ->
    rd (RA F) s (ravel (k :: bshape e ++ [:: NN e]) (t :: idx ++ [:: i])) =
    \sum_(a < nd (RA F) st e) root (RA F) st e (ravel (bshape e) idx) i a *
                               coord (RA F) st k e zs (ravel (bshape e) idx) a t.
Proof. move=> F st k e zs s; exact: sample_linear_nd. Qed.

(* ... and every position of the returned tensor is such an address. *)
Theorem C18_sample_positions : forall k bs n x, (x < prodn (k :: bs ++ [:: n]))%N ->
  exists t idx i, [/\ (t < k)%N, in_shape bs idx, (i < n)%N & x = ravel (k :: bs ++ [:: n]) (t :: idx ++ [:: i])].
Proof. exact: sample_positions. Qed.

(* CIQ branch, index layout (the quadrature's accuracy stays C11's): contour_integral_quad computes ONE rule (weights
   w[., b], shifts sh[., b]) per batch member and `expand`s it over the leading sample axis of the right-hand side.
   With MINRES-then-matmul standing for a per-member, per-shift matrix res b s, draw t of member b is
       S_b z_{b,t},   S_b = sum_q w[q,b] * res b sh[q+1,b],
   for all Q, k, B, n: the same matrix for every draw t, built from member b's own rule only. *)
Theorem C18_ciq_batch_layout : forall (F : rcfType) (res : nat -> F -> nat -> nat -> F) Q k B n (w sh z : seq F),
  size (ciq_sample (RA F) res Q k B n w sh z) = (k * B * n)%N /\
  forall t b i, (t < k)%N -> (b < B)%N -> (i < n)%N ->
    rd (RA F) (ciq_sample (RA F) res Q k B n w sh z) ((t * B + b) * n + i) =
    \sum_(j < n) ciq_root (RA F) res Q B w sh b i j * rd (RA F) z ((b * n + j) * k + t).
Proof. move=> F res Q k B n w sh z; exact: ciq_linear. Qed.

(* The statement has content: broadcasting with repeat_interleave(k).view(Q, k, B) instead of expand gives a sampler
   that violates it (two members, two draws: draw 0 of member 1 is computed with member 0's weight). *)
Theorem C18_ciq_interleaved_broadcast_refuted : forall (F : rcfType),
  exists (res : nat -> F -> nat -> nat -> F) Q k B n (w sh z : seq F) t b i,
    [/\ (t < k)%N, (b < B)%N & (i < n)%N] /\
    [/\ size w = (Q * B)%N, size sh = (Q.+1 * B)%N & size z = (B * n * k)%N] /\
    rd (RA F) (ciq_sample_with (RA F) (t_interleave_view (RA F)) res Q k B n w sh z) ((t * B + b) * n + i) !=
    \sum_(j < n) ciq_root (RA F) res Q B w sh b i j * rd (RA F) z ((b * n + j) * k + t).
Proof. exact: ciq_interleave_refuted. Qed.

(* The last step of the branch multiplies every shifted solve by K.  Replacing that matmul by `s x - b` is correct exactly
   when x solves (s I - K) x = b: true for an exact un-preconditioned solve, not for an arbitrary x (e.g. the iterate of a
   preconditioned MINRES in its preconditioned geometry) — witness K = [1], x = b = [1], s = 1. *)
Theorem C18_ciq_shortcut_iff : forall (F : rcfType) n (K : 'M[F]_n) (x b : 'cV[F]_n) (s : F),
  (K *m x == s *: x - b) = ((s%:M - K) *m x == b).
Proof. move=> F n K x b s; exact: ciq_shortcut_iff. Qed.

Theorem C18_ciq_shortcut_needs_exact_solve : forall (F : rcfType),
  exists (K : 'M[F]_1) (x b : 'cV[F]_1) (s : F), K *m x != s *: x - b.
Proof. exact: ciq_shortcut_refuted. Qed.

(* Histories.  The generic sampler reads the memoize entry 'root_decomposition'.  Its writers are root_decomposition()
   itself (only when the entry is absent) and _root_inv_decomposition (overwrites; stores `roots`, or `roots[0]` when the
   initial vectors have more than one column).  For EVERY sequence of such calls (and arbitrary other calls in between),
   if each call's own result is valid — Lanczos roots of the shape RootDecomposition returns whose first probe is a root
   of every member (C06 / C09) — the entry the sampler finds has the operator's full batch shape and member b's slice
   is a root of member b. *)
Theorem C18_history_entry_valid : forall (F : rcfType) (bs : seq nat) n (A : seq F) (hs : seq (hstep F)),
  steps_valid bs n A hs -> if hist_run hs is Some x then entry_valid bs n A x else True.
Proof. move=> F bs n A hs; exact: hist_run_valid. Qed.

(* Hence sampling after any such history: draws[t, b, :] = R_b z_{b,t} with R_b read from member b's slice of the entry
   (torch.matmul's broadcast of the stored root is the identity on members) and R_b R_b^T = A_b. *)
Theorem C18_history_sample : forall (F : rcfType) (bs : seq nat) n (A : seq F) (hs : seq (hstep F)) x k (z : seq F),
  steps_valid bs n A hs -> hist_run hs = Some x ->
  size (sample_entry (RA F) k bs n x z) = (k * prodn bs * n)%N /\
  (forall t b i, (t < k)%N -> (b < prodn bs)%N -> (i < n)%N ->
     rd (RA F) (sample_entry (RA F) k bs n x z) ((t * prodn bs + b) * n + i) =
     \sum_(a < entry_r x) rd (RA F) x.2 ((b * n + i) * entry_r x + a) * rd (RA F) z ((b * entry_r x + a) * k + t)) /\
  (forall b i j, (b < prodn bs)%N -> (i < n)%N -> (j < n)%N ->
     \sum_(a < entry_r x) rd (RA F) x.2 ((b * n + i) * entry_r x + a) * rd (RA F) x.2 ((b * n + j) * entry_r x + a) =
     rd (RA F) A ((b * n + i) * n + j)).
Proof.
move=> F bs n A hs x k z hv hr.
have hx : entry_valid bs n A x by have := hist_run_valid hv; rewrite hr.
case: (sample_entry_linear k z hx) => h1 h2; split=> //; split=> //.
by move=> b i j; exact: sample_entry_gram.
Qed.

(* ... and the entry is a valid generic leaf (RGiven) of the sampler expressions, so C18_sample_linear / C18_sample_root
   cover every nesting (PsdSum, Block*, Interpolated, ...) whose leaves were sampled after a history. *)
Theorem C18_history_entry_is_leaf : forall (F : rcfType) (st : sett) (bs : seq nat) n (A : seq F) (hs : seq (hstep F)) x,
  steps_valid bs n A hs -> hist_run hs = Some x ->
  ciq_on st = false -> n != 1%N -> size A = (prodn bs * n * n)%N ->
  wf (RA F) st (SGen bs n A (RGiven (entry_r x) x.2)) /\ leaves_ok st (SGen bs n A (RGiven (entry_r x) x.2)).
Proof.
move=> F st bs n A hs x hv hr; apply: entry_leaf_ok.
by have := hist_run_valid hv; rewrite hr.
Qed.

(* The storing rule matters: `initial_vectors is not None and roots.dim() > 2` (instead of `initial_vectors.size(-1) > 1`)
   stores member 0's root without batch dimension for a batch operator and ONE initial vector; the broadcast then
   samples every member with member 0's root. *)
Theorem C18_root_inv_entry_by_dim_refuted : forall (F : rcfType),
  exists (bs : seq nat) (n : nat) (A : seq F) (iv : option nat) (roots : tens F) (z : seq F) (p : nat),
    step_valid bs n A (HRootInv iv roots) /\
    rd (RA F) (sample_entry (RA F) 1 bs n (root_inv_entry_by_dim iv roots) z) p !=
    rd (RA F) (sample_entry (RA F) 1 bs n (root_inv_entry iv roots) z) p.
Proof. exact: root_inv_entry_by_dim_refuted. Qed.

(* The root METHOD is chosen from the cache state: _choose_root_method returns symeig / diagonalization / lanczos when such
   an entry is cached (in that order), else cholesky or lanczos by size and fast_computations; root_decomposition() then builds
   evecs * sqrt(clamp_min(evals, 0)) from the eigendecomposition, the Cholesky factor (or, when the factorization raises, the
   symeig root), or the Lanczos root.  For EVERY cache state, setting and size the root returned is a true root of every batch
   member, given that the ingredients are what their routines promise (C06): eigendecompositions of every member with
   eigenvalues >= 0, a valid Lanczos root, symmetric members with positive pivots when Cholesky does not raise. *)
Theorem C18_every_method_true_root : forall (F : rcfType) (bs : seq nat) n (A : seq F) (st : sett) (c : cstate)
    (sym dia : seq F * seq F) (lz : nat * seq F) (chol_fails : bool),
  eig_valid bs n A sym -> eig_valid bs n A dia -> root_valid bs n A lz.1 lz.2 ->
  (chol_fails = false -> chol_ok (prodn bs) n A) ->
  let rR := method_root (RA F) (@clamp0 F) (choose_root_method st c n) (prodn bs) n A sym dia lz chol_fails in
  root_valid bs n A rR.1 rR.2.
Proof. move=> F bs n A st c sym dia lz cf; exact: every_method_root. Qed.

Theorem C18_eig_root_valid : forall (F : rcfType) (bs : seq nat) n (A : seq F) (wQ : seq F * seq F),
  eig_valid bs n A wQ -> root_valid bs n A n (eig_root (RA F) (@clamp0 F) (prodn bs) n wQ.1 wQ.2).
Proof. move=> F bs n A wQ; exact: eig_root_valid. Qed.

(* The eigenvalue filter must act per member: `evals > evals.max() * n * eps` with the maximum over the whole batch gives a
   zero root to a member that is small relative to another one — the class of seed 11. *)
Theorem C18_eig_root_batch_cutoff_refuted : forall (F : rcfType),
  exists (bs : seq nat) (n : nat) (A : seq F) (wQ : seq F * seq F) (wmax eps : F),
    [/\ 0 < eps, eig_valid bs n A wQ, (forall x, x \in wQ.1 -> x <= wmax) &
        ~ root_valid bs n A n (eig_root (RA F) (fun x => if wmax * n%:R * eps < x then x else 0) (prodn bs) n wQ.1 wQ.2)].
Proof. exact: eig_root_batch_cutoff_refuted. Qed.

(* non-vacuity: a history mixing all step kinds on a batch of two 2x2 members (I and 4 I) satisfies steps_valid and
   leaves an entry *)
Section NonVacuousHistory.
Variable F : rcfType.
Definition nvh_A : seq F := [:: 1; 0; 0; 1; 4%:R; 0; 0; 4%:R].
Definition nvh_R : seq F := [:: 1; 0; 0; 1; 2%:R; 0; 0; 2%:R].
Definition nvh_hist : seq (hstep F) :=
  [:: HOther F; HRootDec ([:: 2%N; 2%N; 2%N], nvh_R); HRootInv (Some 2%N) ([:: 2%N; 2%N; 2%N; 2%N], nvh_R ++ nvh_R);
      HOther F; HRootInv (Some 1%N) ([:: 2%N; 2%N; 2%N], nvh_R); HRootInv None ([:: 2%N; 2%N; 2%N], nvh_R)].

Lemma nvh_valid : root_valid [:: 2%N] 2 nvh_A 2 nvh_R.
Proof.
move=> b i j; rewrite /prodn /= muln1 => hb hi hj.
rewrite big_ord_recl big_ord_recl big_ord0 /=.
case: b hb => [|[|//]] _; case: i hi => [|[|//]] _; case: j hj => [|[|//]] _;
  rewrite /Model.rd /= ?mulr0 ?mul0r ?addr0 ?add0r ?mulr1 //; by rewrite -natrM.
Qed.

Lemma nvh_valid2 : root_valid [:: 2%N] 2 nvh_A 2 (nvh_R ++ nvh_R).
Proof.
move=> b i j; rewrite /prodn /= muln1 => hb hi hj.
rewrite big_ord_recl big_ord_recl big_ord0 /=.
case: b hb => [|[|//]] _; case: i hi => [|[|//]] _; case: j hj => [|[|//]] _;
  rewrite /Model.rd /= ?mulr0 ?mul0r ?addr0 ?add0r ?mulr1 //; by rewrite -natrM.
Qed.

Example C18_history_nonvacuous :
  steps_valid [:: 2%N] 2 nvh_A nvh_hist /\ exists x, hist_run nvh_hist = Some x.
Proof.
split; last by eexists; rewrite /hist_run /=; reflexivity.
rewrite /=; split=> //; split.
  by split=> //; exact: nvh_valid.
split; first by exists 2%N; split=> //; exact: nvh_valid2.
split=> //; split; first by exists 2%N; split=> //; exact: nvh_valid.
by split=> //; exists 2%N; split=> //; exact: nvh_valid.
Qed.
End NonVacuousHistory.
