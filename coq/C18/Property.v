(* C18 — Gaussian sampling uses a true square root of the covariance.
   Only theorem statements live here; each is closed by `exact` of a lemma proved in Proofs*.v about the
   executable model of Model.v (instantiated on an arbitrary real closed field F: exact arithmetic).
   All statements quantify over ALL sampler expressions (any nesting), batch shapes, sizes and sample counts. *)
From mathcomp Require Import all_ssreflect all_algebra.
Require Import C18.Model C18.ProofsIdx C18.ProofsLinear C18.ProofsGram C18.ProofsMx C18.ProofsCoord C18.ProofsChol.
Set Implicit Arguments.
Unset Strict Implicit.
Import GRing.Theory Num.Theory.
Local Open Scope ring_scope.

(* Layout: permute(-1, *range(dim-1)) turns the (batch.., n, k) product into draws of shape (k, batch.., n):
   out[t, b, i] = in[b, i, t] (flat row-major indices; B = product of the batch shape). *)
Theorem C18_sample_layout : forall (F : rcfType) B n k (x : seq F),
  size (t_last_to_first (RA F) (B * n) k x) = (k * B * n)%N /\
  forall t b i, (t < k)%N -> (b < B)%N -> (i < n)%N ->
    rd (RA F) (t_last_to_first (RA F) (B * n) k x) ((t * B + b) * n + i) = rd (RA F) x ((b * n + i) * k + t).
Proof. exact: layout_last_to_first. Qed.

(* Every sampler is a fixed linear map applied to the noise: for every sampler expression (any nesting of
   Diag / Identity / generic / BlockDiag / BlockInterleaved / SumBatch / Interpolated / PsdSum), every k and
   every content of the randn tensors of the requested sizes, the returned tensor has k*B*n entries and
       draws[t, b, i] = \sum_a root e b i a * coord k e zs b a t,
   where `root` does not depend on the noise and `coord` only selects noise entries. *)
Theorem C18_sample_linear : forall (F : rcfType) (st : sett) k (e : sx F) zs s,
  wf (RA F) st e -> noise_ok (RA F) st k e zs -> alg_sample (RA F) st k e zs = Some s ->
  size s = (k * BB e * NN e)%N /\
  forall t b i, (t < k)%N -> (b < BB e)%N -> (i < NN e)%N ->
    rd (RA F) s ((t * BB e + b) * NN e + i) = \sum_(a < nd (RA F) st e) root (RA F) st e b i a * coord (RA F) st k e zs b a t.
Proof. move=> F st k e zs s; exact: sample_linear. Qed.

(* The same as a matrix identity per batch member: S_b = R_b Z_b. *)
Theorem C18_sample_linear_mx : forall (F : rcfType) (st : sett) k (e : sx F) zs s b,
  wf (RA F) st e -> noise_ok (RA F) st k e zs -> alg_sample (RA F) st k e zs = Some s -> (b < BB e)%N ->
  size s = (k * BB e * NN e)%N /\ mx_draws k e s b = mx_root st e b *m mx_noise st k e zs b.
Proof. move=> F st k e zs s b; exact: sample_linear_mx. Qed.

(* The noise coordinates are distinct, in-range entries of the randn tensors: `coord` reads the tensor of call
   (coord_idx ..).1 at offset (coord_idx ..).2, the address map is injective on (batch member, coordinate, draw) and
   never leaves the tensors.  Hence, for i.i.d. standard-normal randn entries, each draw of each batch member is R_b
   applied to its own fresh standard-normal vector: draws are independent across t and across batch members, and no
   two summands of a PsdSum / blocks of a block operator share noise. *)
Theorem C18_noise_coordinates_read : forall (F : rcfType) (st : sett) k (e : sx F) zs b a t,
  (a < nd (RA F) st e)%N ->
  coord (RA F) st k e zs b a t =
  rd (RA F) (nth [::] zs (coord_idx (RA F) st k e b a t).1) (coord_idx (RA F) st k e b a t).2.
Proof. move=> F st k e zs b a t; exact: coordE. Qed.

Theorem C18_noise_coordinates_distinct : forall (F : rcfType) (st : sett) k (e : sx F),
  wf (RA F) st e ->
  forall b a t b' a' t', in_range st k e b a t -> in_range st k e b' a' t' ->
  coord_idx (RA F) st k e b a t = coord_idx (RA F) st k e b' a' t' -> [/\ b = b', a = a' & t = t'].
Proof. move=> F st k e; exact: coord_idx_inj. Qed.

Theorem C18_noise_coordinates_in_range : forall (F : rcfType) (st : sett) k (e : sx F) zs,
  wf (RA F) st e -> noise_ok (RA F) st k e zs ->
  forall b a t, in_range st k e b a t ->
  ((coord_idx (RA F) st k e b a t).2 < size (nth [::] zs (coord_idx (RA F) st k e b a t).1))%N.
Proof. move=> F st k e zs; exact: coord_idx_in_range. Qed.

(* R R^T = A for every sampler, given valid roots at the generic leaves (C06), non-negative diagonals, and
   W_r = W_l at every interpolated node. *)
Theorem C18_sample_root : forall (F : rcfType) (st : sett) (e : sx F) b,
  wf (RA F) st e -> leaves_ok st e -> interp_sym e -> (b < BB e)%N ->
  mx_root st e b *m (mx_root st e b)^T = mx_den e b.
Proof. move=> F st e b; exact: sample_root_mx. Qed.

(* Interpolated operators: whatever the right interpolation is, the sampler's covariance is that of the
   left-symmetrised operator, W_l A_base W_l^T ... *)
Theorem C18_sample_interp : forall (F : rcfType) (st : sett) (e : sx F) b,
  wf (RA F) st e -> leaves_ok st e -> (b < BB e)%N ->
  mx_root st e b *m (mx_root st e b)^T = \matrix_(i, j) den (RA F) (symmetrize e) b i j.
Proof. move=> F st e b; exact: sample_interp_mx. Qed.

(* ... which is the represented matrix when W_r = W_l ... *)
Theorem C18_interp_symmetric_same : forall (F : rcfType) (st : sett) (e : sx F),
  wf (RA F) st e -> interp_sym e ->
  forall b i j, (b < BB e)%N -> (i < NN e)%N -> (j < NN e)%N ->
  den (RA F) (symmetrize e) b i j = den (RA F) e b i j.
Proof. move=> F st e; exact: den_symmetrize. Qed.

(* ... and is NOT in general when W_r <> W_l although the pinned code samples such operators all the same
   (witness: base Identity(1), W_l = [1], W_r = [2]: the operator is the PSD matrix [2], draws have variance 1). *)
Theorem C18_sample_interp_asymmetric_refuted : forall (F : rcfType) (st : sett),
  exists e : sx F, wf (RA F) st e /\ leaves_ok st e /\
    (exists s, alg_sample (RA F) st 1 e [:: [:: 1]] = Some s) /\
    gram st e 0 0 0 != den (RA F) e 0 0 0.
Proof. exact: interp_asymmetric_refuted. Qed.

(* 1x1 operators: the generic sampler takes sqrt(to_dense()); this leaf is valid whenever the entries are >= 0. *)
Theorem C18_leaf_sqrt_valid : forall (F : rcfType) (st : sett) bs (A : seq F) rk,
  ciq_on st = false -> size A = prodn bs ->
  (forall b, (b < prodn bs)%N -> 0 <= rd (RA F) A b) -> leaves_ok st (SGen bs 1 A rk).
Proof. move=> F st bs A rk; exact: leaf_sqrt_ok. Qed.

(* The Cholesky transcription used by the model on the `cholesky` path really factorises: for a symmetric matrix
   whose factorisation meets no non-positive pivot (torch.linalg.cholesky_ex: info = 0), L L^T = A, L lower
   triangular — for every size n (induction over the row-by-row recurrence). *)
Theorem C18_chol_factorizes : forall (F : rcfType) n (A : nat -> nat -> F),
  (forall i j, (i < n)%N -> (j < n)%N -> A i j = A j i) -> pivots_pos n A ->
  (forall i j, (i < n)%N -> (j < n)%N -> \sum_(l < n) Lent n A i l * Lent n A j l = A i j) /\
  (forall i j, (i < n)%N -> (i < j)%N -> Lent n A i j = 0).
Proof. move=> F n A hs hp; split; [exact: chol_gram | by move=> i j; exact: Lent_upper]. Qed.

(* ... hence the generic leaf on the Cholesky path (size <= max_cholesky_size, or fast root decomposition off; not 1x1,
   not CIQ) is a valid leaf for C18_sample_root whenever every batch member is symmetric with positive pivots. *)
Theorem C18_leaf_chol_valid : forall (F : rcfType) (st : sett) bs n (A : seq F) lz,
  gen_method st n (RAuto lz) = MChol -> chol_ok (prodn bs) n A -> leaves_ok st (SGen bs n A (RAuto lz)).
Proof. move=> F st bs n A lz; exact: leaf_chol_ok. Qed.

(* Covariance of a linear image of white noise, expectation-free (E[z z^T] = I  =>  E[(Rz)(Rz)^T] = R R^T):
   the outer products of the images of the basis vectors sum to R R^T; with a general second moment M of
   the noise the draws have second moment R M R^T. *)
Theorem C18_cov_linear_image : forall (F : rcfType) n d (R : 'M[F]_(n, d)),
  \sum_(a < d) (R *m delta_mx a 0) *m (R *m (delta_mx a 0 : 'M[F]_(d, 1)))^T = R *m R^T.
Proof. move=> F n d R; exact: cov_linear_image. Qed.

Theorem C18_cov_linear_image_gen : forall (F : rcfType) n d (R : 'M[F]_(n, d)) (M : 'M[F]_(d, d)),
  \sum_(a < d) \sum_(c < d) M a c *: ((R *m delta_mx a 0) *m (R *m (delta_mx c 0 : 'M[F]_(d, 1)))^T) = R *m M *m R^T.
Proof. move=> F n d R M; exact: cov_linear_image_gen. Qed.

(* CIQ branch (settings.ciq_samples): NOT modelled (alg_sample = None); what is proved is only the algebra the
   branch relies on: IF contour_integral_quad returns S z for a symmetric S with S S = A (the unproved quadrature
   statement of property C11), THEN the draws S z have covariance S S^T = A. *)
Theorem C18_ciq_partial : forall (F : rcfType) n (S A : 'M[F]_(n, n)),
  S^T = S -> S *m S = A -> S *m S^T = A.
Proof. by move=> F n S A -> . Qed.

(* non-vacuity: a concrete nested expression (PsdSum of a Diag, a BlockDiag of Identity and a symmetric
   Interpolated over a generic leaf with a valid root) satisfies all hypotheses, and the model returns draws for it *)
Section NonVacuous.
Variable F : rcfType.
Let st0 := MkSett false 800 true.
Definition nv_leaf : sx F := SGen [:: 2%N] 2 [:: 1; 0; 0; 1; 4%:R; 0; 0; 4%:R] (RGiven 2 [:: 1; 0; 0; 1; 2%:R; 0; 0; 2%:R]).
Definition nv_ex : sx F :=
  SAdd (SAdd (SAdd (SZero F [:: 2%N] 2) (SDiag [:: 2%N] 2 [:: 1; 4%:R; 9%:R; 1]))
             (SBlockDiag [:: 2%N] 2 (SIdent F [:: 2%N; 2%N] 1)))
       (SInterp [:: 2%N] 2 1 [:: 0%N; 1%N; 1%N; 0%N] [:: 1; 1; 2%:R; 1] [:: 0%N; 1%N; 1%N; 0%N] [:: 1; 1; 2%:R; 1] nv_leaf).

Example C18_nonvacuous :
  wf (RA F) st0 nv_ex /\ leaves_ok st0 nv_ex /\ interp_sym nv_ex /\ BB nv_ex = 2%N /\ NN nv_ex = 2%N /\
  nd (RA F) st0 nv_ex = 6%N /\
  exists s, alg_sample (RA F) st0 3 nv_ex [:: nseq 12 1; nseq 12 1; nseq 12 1] = Some s.
Proof.
split; first by [].
split.
  rewrite /=; split; last first.
    move=> b i j; rewrite /gen_root /= => hb hi hj.
    rewrite big_ord_recl big_ord_recl big_ord0 /=.
    case: b hb => [|[|//]] _; case: i hi => [|[|//]] _; case: j hj => [|[|//]] _;
      rewrite /Model.rd /= ?mulr0 ?mul0r ?addr0 ?add0r ?mulr1 //; by rewrite -natrM.
  split; last by [].
  split=> // x; do 4 (case: x => [|x] //=; rewrite ?ler01 ?ler0n //).
split; first by [].
split; first by [].
split; first by [].
split; first by [].
by eexists; rewrite /=; reflexivity.
Qed.

(* non-vacuity of chol_ok: A = [[1,1],[1,2]] (one batch member) is symmetric with pivots 1 and 1 *)
Definition nv_A2 : seq F := [:: 1; 1; 1; 2%:R].
Lemma nv_L00 : Lent 2 (Ab 2 nv_A2 0) 0 0 = 1.
Proof. by rewrite Lent_diag // big_ord0 subr0 /Ab /= /Model.rd /= sqrtr1. Qed.
Lemma nv_L10 : Lent 2 (Ab 2 nv_A2 0) 1 0 = 1.
Proof. by rewrite Lent_lower // big_ord0 subr0 nv_L00 divr1. Qed.
Example C18_chol_nonvacuous : chol_ok 1 2 nv_A2 /\ gen_method st0 2 (@RAuto F None) = MChol.
Proof.
split; last by [].
move=> b; rewrite ltnS leqn0 => /eqP ->; split.
  by move=> i j; case: i => [|[|//]] _; case: j => [|[|//]] _.
move=> i; case: i => [|[|//]] _.
  by rewrite big_ord0 subr0 /Ab /= /Model.rd /= ltr01.
rewrite big_ord_recl big_ord0 addr0 nv_L10 mulr1 /Ab /= /Model.rd /=.
have -> : (2%:R - 1 : F) = 1 by rewrite -[X in _ - X]/(1%:R) -natrB.
exact: ltr01.
Qed.
End NonVacuous.
