(* C18 — executable model of the Gaussian samplers of linear_operator (zero_mean_mvn_samples).

   Definitions only.  Everything is polymorphic in an arithmetic record `Arith F`; the same terms are
   (i) executed on PrimFloat (binary64) by the correspondence shards (Check.v) and
   (ii) reasoned about over exact arithmetic (Proofs*.v: any MathComp comRingType / rcfType).

   Tensors are flat row-major sequences; their shape is carried separately.  A batch shape `bs` is
   flattened to B = \prod bs (row-major), which is the whole story because the samplers only use
   per-member primitives, reshapes (identity on flat data) and permutations of whole axes.

   A sampler expression `sx` is the tree of *samplers* a call of `op.zero_mean_mvn_samples(k)`
   runs through (the harness maps a real operator to it; the map is checked on every run by comparing
   `den` with the independent dense oracle and `alg_sample` with the observed draws):

     SDiag   diag_linear_operator.py        base_samples(k,bs..,n) * self._diag.sqrt()
     SIdent  identity_linear_operator.py    base_samples(k,bs..,n)
     SGen    _linear_operator.py            generic sampler: ciq branch | 1x1: to_dense().sqrt() |
                                            root_decomposition().root ; randn(bs.., r, k) ;
                                            covar_root.matmul(base).permute(-1, *range(dim-1))
     SBlockDiag / SBlockInter / SSumBatch   block_linear_operator.py: base sampler on batch (bs.., nb), then
                                            self._remove_batch_dim(res.unsqueeze(-1)).squeeze(-1)
     SInterp interpolated_linear_operator.py  base draws, permute, left_interp(left indices/values), permute back
     SZero / SAdd                           psd_sum_linear_operator.py: python `sum(...)` = ((0 + s_1) + s_2) + ...
*)
From mathcomp Require Import ssreflect ssrfun ssrbool eqtype ssrnat seq div.
Set Implicit Arguments.
Unset Strict Implicit.
Unset Printing Implicit Defensive.

Record Arith (F : Type) := MkArith {
  a0 : F; a1 : F;
  aadd : F -> F -> F; asub : F -> F -> F; amul : F -> F -> F; adiv : F -> F -> F;
  asqrt : F -> F }.

(* the part of the global settings the samplers read *)
Record sett := MkSett {
  ciq_on : bool;        (* settings.ciq_samples.on() *)
  max_chol : nat;       (* settings.max_cholesky_size.value() *)
  fast_root : bool      (* settings.fast_computations.covar_root_decomposition.on() *)
}.

(* which root the generic sampler ends up with *)
Inductive meth := MCiq | MSqrt | MChol | MLanczos | MGiven.

Section Model.
Variable F : Type.
Variable ar : Arith F.

Definition rd (s : seq F) (i : nat) : F := nth (a0 ar) s i.
Definition rdn (s : seq nat) (i : nat) : nat := nth 0 s i.

Fixpoint sumn_ (f : nat -> F) (k : nat) : F :=
  if k is k'.+1 then aadd ar (sumn_ f k') (f k') else a0 ar.

Definition prodn (s : seq nat) : nat := foldr muln 1 s.

(* flat row-major tabulation *)
Definition tab2 (d1 d2 : nat) (f : nat -> nat -> F) : seq F :=
  mkseq (fun x => f (x %/ d2) (x %% d2)) (d1 * d2).
Definition tab3 (d1 d2 d3 : nat) (f : nat -> nat -> nat -> F) : seq F :=
  mkseq (fun x => f (x %/ (d2 * d3)) ((x %/ d3) %% d2) (x %% d3)) (d1 * d2 * d3).

(* ------------------------------------------------------------------ torch primitives (by meaning) *)

(* x.sqrt() *)
Definition t_sqrt (x : seq F) : seq F := map (asqrt ar) x.

(* torch.matmul of R:(B,n,r) with z:(B,r,k)  ->  (B,n,k) *)
Definition t_bmm (B n r k : nat) (R z : seq F) : seq F :=
  tab3 B n k (fun b i t => sumn_ (fun a => amul ar (rd R ((b * n + i) * r + a)) (rd z ((b * r + a) * k + t))) r).

(* x:(P.., k).permute(-1, *range(dim-1)).contiguous()  ->  (k, P..)        [P = product of the leading dims] *)
Definition t_last_to_first (P k : nat) (x : seq F) : seq F :=
  tab2 k P (fun t p => rd x (p * k + t)).

(* x:(k, P..).permute(1, .., dim-1, 0)  ->  (P.., k) *)
Definition t_first_to_last (k P : nat) (x : seq F) : seq F :=
  tab2 P k (fun p t => rd x (t * P + p)).

(* x:(k, P..) * d:(P..)   (broadcast over the leading sample axis) *)
Definition t_mul_bcast (k P : nat) (x d : seq F) : seq F :=
  tab2 k P (fun t p => amul ar (rd x (t * P + p)) (rd d p)).

(* x:(Q.., nb, n, 1).transpose(-2,-3).contiguous()  ->  (Q.., n, nb, 1) *)
Definition t_swap23 (Q nb n : nat) (x : seq F) : seq F :=
  tab3 Q n nb (fun q i j => rd x ((q * nb + j) * n + i)).

(* x:(Q.., nb, n, 1).sum(-3)  ->  (Q.., n, 1) *)
Definition t_sum3 (Q nb n : nat) (x : seq F) : seq F :=
  tab2 Q n (fun q i => sumn_ (fun j => rd x ((q * nb + j) * n + i)) nb).

(* x + y, same shape *)
Definition t_add (x y : seq F) : seq F := mkseq (fun p => aadd ar (rd x p) (rd y p)) (size x).

(* utils/interpolation.py left_interp, matrix rhs:
     rhs:(B, n0, k); indices, values:(B, m, q)
     rhs.unsqueeze(-2).expand(.., n0, q, k).gather(-3, idx.unsqueeze(-1).expand(.., m, q, k)).mul(values..).sum(-2) *)
Definition t_left_interp (B m q n0 k : nat) (idx : seq nat) (val x : seq F) : seq F :=
  tab3 B m k (fun b i t =>
    sumn_ (fun l => amul ar (rd x ((b * n0 + rdn idx ((b * m + i) * q + l)) * k + t)) (rd val ((b * m + i) * q + l))) q).

(* ------------------------------------------------------------------ dense Cholesky (torch.linalg.cholesky, lower)
   Cholesky-Banachiewicz, row by row; A given as a function.  No jitter (psd_safe_cholesky succeeds at the
   first attempt on the well-conditioned inputs of the grid; the jitter loop is property C16). *)
Definition dotp (x y : seq F) (j : nat) : F := sumn_ (fun l => amul ar (rd x l) (rd y l)) j.

Definition chol_row_step (rows : seq (seq F)) (i : nat) (Ai : nat -> F) (cur : seq F) (j : nat) : seq F :=
  if j < i then
    let rj := nth [::] rows j in
    rcons cur (adiv ar (asub ar (Ai j) (dotp cur rj j)) (rd rj j))
  else rcons cur (asqrt ar (asub ar (Ai i) (dotp cur cur i))).

Definition chol_row (rows : seq (seq F)) (n i : nat) (Ai : nat -> F) : seq F :=
  foldl (chol_row_step rows i Ai) [::] (iota 0 i.+1) ++ nseq (n - i.+1) (a0 ar).

Definition chol_rows (n : nat) (A : nat -> nat -> F) : seq (seq F) :=
  foldl (fun rows i => rcons rows (chol_row rows n i (A i))) [::] (iota 0 n).

(* batched: A:(B,n,n) flat -> L:(B,n,n) flat *)
Definition chol_flat (B n : nat) (A : seq F) : seq F :=
  let Ls := mkseq (fun b => chol_rows n (fun i j => rd A ((b * n + i) * n + j))) B in
  tab3 B n n (fun b i j => rd (nth [::] (nth [::] Ls b) i) j).

(* ------------------------------------------------------------------ sampler expressions *)

Inductive rootkind :=
| RAuto (lz : option (nat * seq F))   (* LinearOperator.root_decomposition of the base class: cholesky, or lanczos whose
                                         (randomised) result, when observed, is supplied as (rank, R:(B,n,rank)) *)
| RGiven (r : nat) (R : seq F).       (* the class overrides root_decomposition (Root, LowRankRoot, Chol, Kron, ConstantMul, ...):
                                         root supplied, R:(B,n,r) *)

Inductive sx :=
| SDiag (bs : seq nat) (n : nat) (d : seq F)
| SIdent (bs : seq nat) (n : nat)
| SGen (bs : seq nat) (n : nat) (A : seq F) (rk : rootkind)
| SBlockDiag (bs : seq nat) (nb : nat) (c : sx)
| SBlockInter (bs : seq nat) (nb : nat) (c : sx)
| SSumBatch (bs : seq nat) (nb : nat) (c : sx)
| SInterp (bs : seq nat) (m q : nat) (li : seq nat) (lv : seq F) (ri : seq nat) (rv : seq F) (c : sx)
| SZero (bs : seq nat) (n : nat)
| SAdd (l r : sx).

Fixpoint bshape (e : sx) : seq nat :=
  match e with
  | SDiag bs _ _ | SIdent bs _ | SGen bs _ _ _ | SBlockDiag bs _ _ | SBlockInter bs _ _ | SSumBatch bs _ _
  | SInterp bs _ _ _ _ _ _ _ | SZero bs _ => bs
  | SAdd l _ => bshape l
  end.
Definition BB (e : sx) : nat := prodn (bshape e).

Fixpoint NN (e : sx) : nat :=
  match e with
  | SDiag _ n _ | SIdent _ n | SGen _ n _ _ | SZero _ n => n
  | SBlockDiag _ nb c | SBlockInter _ nb c => nb * NN c
  | SSumBatch _ _ c => NN c
  | SInterp _ m _ _ _ _ _ _ => m
  | SAdd l _ => NN l
  end.

Variable st : sett.

(* _choose_root_method (no cached decompositions) inside root_decomposition, preceded by the tests of
   zero_mean_mvn_samples:  ciq_samples.on() ; size()[-2:] == (1,1) *)
Definition gen_method (n : nat) (rk : rootkind) : meth :=
  if ciq_on st then MCiq
  else if n == 1 then MSqrt
  else match rk with
       | RGiven _ _ => MGiven
       | RAuto _ => if (n <= max_chol st) || ~~ fast_root st then MChol else MLanczos
       end.

(* covar_root as (inner size r, flat (B,n,r)); None = not computable in the model (CIQ, unobserved Lanczos) *)
Definition gen_root (B n : nat) (A : seq F) (rk : rootkind) : option (nat * seq F) :=
  match gen_method n rk with
  | MCiq => None
  | MSqrt => Some (1, t_sqrt A)
  | MChol => Some (n, chol_flat B n A)
  | MLanczos => match rk with RAuto lz => lz | RGiven r R => Some (r, R) end
  | MGiven => match rk with RGiven r R => Some (r, R) | RAuto lz => lz end
  end.

(* number of torch.randn calls made from sampler frames, in program order *)
Fixpoint ncalls (e : sx) : nat :=
  match e with
  | SDiag _ _ _ | SIdent _ _ | SGen _ _ _ _ => 1
  | SBlockDiag _ _ c | SBlockInter _ _ c | SSumBatch _ _ c | SInterp _ _ _ _ _ _ _ c => ncalls c
  | SZero _ _ => 0
  | SAdd l r => ncalls l + ncalls r
  end.

(* the shapes requested from torch.randn, in program order (None where the inner size is unknown to the model) *)
Fixpoint noise_shapes (k : nat) (e : sx) : seq (option (seq nat)) :=
  match e with
  | SDiag bs n _ | SIdent bs n => [:: Some (k :: bs ++ [:: n])]
  | SGen bs n A rk =>
      if ciq_on st then [:: Some (bs ++ [:: n; k])]
      else [:: omap (fun rR : nat * seq F => bs ++ [:: rR.1; k]) (gen_root (prodn bs) n A rk)]
  | SBlockDiag _ _ c | SBlockInter _ _ c | SSumBatch _ _ c | SInterp _ _ _ _ _ _ _ c => noise_shapes k c
  | SZero _ _ => [::]
  | SAdd l r => noise_shapes k l ++ noise_shapes k r
  end.

Definition out_shape (k : nat) (e : sx) : seq nat := k :: bshape e ++ [:: NN e].

(* ------------------------------------------------------------------ the samplers
   zs = the tensors returned by the successive torch.randn calls (flat). *)
Fixpoint alg_sample (k : nat) (e : sx) (zs : seq (seq F)) : option (seq F) :=
  match e with
  | SDiag bs n d =>
      (* base_samples = randn(k, *diag.shape) ; return base_samples * self._diag.sqrt() *)
      Some (t_mul_bcast k (prodn bs * n) (head [::] zs) (t_sqrt d))
  | SIdent bs n =>
      (* return randn(k, *self.shape[:-1]) *)
      Some (head [::] zs)
  | SGen bs n A rk =>
      (* covar_root.matmul(base_samples).permute(-1, *range(self.dim() - 1)).contiguous() *)
      let B := prodn bs in
      match gen_root B n A rk with
      | None => None
      | Some (r, R) => Some (t_last_to_first (B * n) k (t_bmm B n r k R (head [::] zs)))
      end
  | SBlockDiag bs nb c =>
      (* res:(k,bs..,nb,n0) -> unsqueeze(-1) -> reshape(k,bs..,nb*n0,1) -> squeeze(-1): identity on flat data *)
      alg_sample k c zs
  | SBlockInter bs nb c =>
      (* unsqueeze(-1) -> transpose(-2,-3).contiguous() -> reshape(k,bs..,n0*nb,1) -> squeeze(-1) *)
      omap (t_swap23 (k * prodn bs) nb (NN c)) (alg_sample k c zs)
  | SSumBatch bs nb c =>
      (* unsqueeze(-1) -> sum(-3) -> squeeze(-1) *)
      omap (t_sum3 (k * prodn bs) nb (NN c)) (alg_sample k c zs)
  | SInterp bs m q li lv ri rv c =>
      (* base_samples.permute(1..,0) ; left_interp(left_interp_indices, left_interp_values, .) ; permute(-1, ...) *)
      let B := prodn bs in
      omap (fun s => t_last_to_first (B * m) k
                       (t_left_interp B m q (NN c) k li lv (t_first_to_last k (B * NN c) s)))
           (alg_sample k c zs)
  | SZero bs n =>
      (* the python int 0 that `sum` starts from (broadcast) *)
      Some (nseq (k * prodn bs * n) (a0 ar))
  | SAdd l r =>
      match alg_sample k l (take (ncalls l) zs), alg_sample k r (drop (ncalls l) zs) with
      | Some x, Some y => Some (t_add x y)
      | _, _ => None
      end
  end.

(* ------------------------------------------------------------------ the linear map (specification side, still executable)
   nd e        : number of standard-normal coordinates each batch member of a draw depends on
   root e b i a: entry (i,a) of the n x nd matrix R_b with  draw_b = R_b z_b
   coord ...   : which element of which randn tensor is coordinate a of batch member b in draw t
   den e b i j : the dense covariance the expression denotes *)

Fixpoint nd (e : sx) : nat :=
  match e with
  | SDiag _ n _ | SIdent _ n => n
  | SGen bs n A rk => if gen_root (prodn bs) n A rk is Some (r, _) then r else 0
  | SBlockDiag _ nb c | SBlockInter _ nb c | SSumBatch _ nb c => nb * nd c
  | SInterp _ _ _ _ _ _ _ c => nd c
  | SZero _ _ => 0
  | SAdd l r => nd l + nd r
  end.

(* interpolation matrix W:(B, m, n0):  W[b,i,c] = sum_l [idx[b,i,l] == c] val[b,i,l] *)
Definition wmat (m q : nat) (idx : seq nat) (val : seq F) (b i c : nat) : F :=
  sumn_ (fun l => if rdn idx ((b * m + i) * q + l) == c then rd val ((b * m + i) * q + l) else a0 ar) q.

Fixpoint root (e : sx) (b i a : nat) : F :=
  match e with
  | SDiag bs n d => if i == a then asqrt ar (rd d (b * n + i)) else a0 ar
  | SIdent bs n => if i == a then a1 ar else a0 ar
  | SGen bs n A rk => if gen_root (prodn bs) n A rk is Some (r, R) then rd R ((b * n + i) * r + a) else a0 ar
  | SBlockDiag _ nb c =>
      if i %/ NN c == a %/ nd c then root c (b * nb + i %/ NN c) (i %% NN c) (a %% nd c) else a0 ar
  | SBlockInter _ nb c =>
      if i %% nb == a %/ nd c then root c (b * nb + i %% nb) (i %/ nb) (a %% nd c) else a0 ar
  | SSumBatch _ nb c => root c (b * nb + a %/ nd c) i (a %% nd c)
  | SInterp _ m q li lv _ _ c => sumn_ (fun j => amul ar (wmat m q li lv b i j) (root c b j a)) (NN c)
  | SZero _ _ => a0 ar
  | SAdd l r => if a < nd l then root l b i a else root r b i (a - nd l)
  end.

Fixpoint coord (k : nat) (e : sx) (zs : seq (seq F)) (b a t : nat) : F :=
  match e with
  | SDiag bs n _ | SIdent bs n => rd (head [::] zs) ((t * prodn bs + b) * n + a)
  | SGen bs n A rk => rd (head [::] zs) ((b * nd e + a) * k + t)
  | SBlockDiag _ nb c | SBlockInter _ nb c | SSumBatch _ nb c =>
      coord k c zs (b * nb + a %/ nd c) (a %% nd c) t
  | SInterp _ _ _ _ _ _ _ c => coord k c zs b a t
  | SZero _ _ => a0 ar
  | SAdd l r => if a < nd l then coord k l (take (ncalls l) zs) b a t
                else coord k r (drop (ncalls l) zs) b (a - nd l) t
  end.

(* the same selection as an address: (index of the randn call, flat offset in its tensor) *)
Fixpoint coord_idx (k : nat) (e : sx) (b a t : nat) : nat * nat :=
  match e with
  | SDiag bs n _ | SIdent bs n => (0, (t * prodn bs + b) * n + a)
  | SGen bs n A rk => (0, (b * nd e + a) * k + t)
  | SBlockDiag _ nb c | SBlockInter _ nb c | SSumBatch _ nb c =>
      coord_idx k c (b * nb + a %/ nd c) (a %% nd c) t
  | SInterp _ _ _ _ _ _ _ c => coord_idx k c b a t
  | SZero _ _ => (0, 0)
  | SAdd l r => if a < nd l then coord_idx k l b a t
                else let p := coord_idx k r b (a - nd l) t in (ncalls l + p.1, p.2)
  end.

Fixpoint den (e : sx) (b i j : nat) : F :=
  match e with
  | SDiag bs n d => if i == j then rd d (b * n + i) else a0 ar
  | SIdent bs n => if i == j then a1 ar else a0 ar
  | SGen bs n A rk => rd A ((b * n + i) * n + j)
  | SBlockDiag _ nb c =>
      if i %/ NN c == j %/ NN c then den c (b * nb + i %/ NN c) (i %% NN c) (j %% NN c) else a0 ar
  | SBlockInter _ nb c =>
      if i %% nb == j %% nb then den c (b * nb + i %% nb) (i %/ nb) (j %/ nb) else a0 ar
  | SSumBatch _ nb c => sumn_ (fun u => den c (b * nb + u) i j) nb
  | SInterp _ m q li lv ri rv c =>
      sumn_ (fun x => sumn_ (fun y => amul ar (amul ar (wmat m q li lv b i x) (den c b x y)) (wmat m q ri rv b j y)) (NN c)) (NN c)
  | SZero _ _ => a0 ar
  | SAdd l r => aadd ar (den l b i j) (den r b i j)
  end.

(* flat tables for the correspondence comparators *)
Definition root_tab (e : sx) : seq F := tab3 (BB e) (NN e) (nd e) (root e).
Definition den_tab (e : sx) : seq F := tab3 (BB e) (NN e) (NN e) (den e).

(* ------------------------------------------------------------------ well-formedness (sizes and index ranges) *)
Fixpoint wf (e : sx) : bool :=
  match e with
  | SDiag bs n d => size d == prodn bs * n
  | SIdent _ _ => true
  | SGen bs n A rk =>
      (size A == prodn bs * n * n) &&
      (if gen_root (prodn bs) n A rk is Some (r, R) then size R == prodn bs * n * r else true)
  | SBlockDiag bs nb c | SBlockInter bs nb c | SSumBatch bs nb c => (bshape c == rcons bs nb) && wf c
  | SInterp bs m q li lv ri rv c =>
      [&& bshape c == bs, size li == prodn bs * m * q, size lv == prodn bs * m * q,
          size ri == prodn bs * m * q, size rv == prodn bs * m * q,
          all (fun x => x < NN c) li, all (fun x => x < NN c) ri & wf c]
  | SZero _ _ => true
  | SAdd l r => [&& bshape r == bshape l, NN r == NN l, wf l & wf r]
  end.

(* the randn tensors have the sizes the code asked for *)
Fixpoint noise_ok (k : nat) (e : sx) (zs : seq (seq F)) : bool :=
  match e with
  | SDiag bs n _ | SIdent bs n => size (head [::] zs) == k * prodn bs * n
  | SGen bs n A rk => size (head [::] zs) == prodn bs * nd e * k
  | SBlockDiag _ _ c | SBlockInter _ _ c | SSumBatch _ _ c | SInterp _ _ _ _ _ _ _ c => noise_ok k c zs
  | SZero _ _ => true
  | SAdd l r => noise_ok k l (take (ncalls l) zs) && noise_ok k r (drop (ncalls l) zs)
  end.

End Model.
