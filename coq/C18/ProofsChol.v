(* C18 — the dense Cholesky transcription of Model.v really factorises: if no pivot is non-positive
   (what torch.linalg.cholesky_ex reports as info = 0) then L L^T = A, so the generic leaf on the
   Cholesky path satisfies `leaves_ok` (this discharges, for the model's own factorisation, the hypothesis
   that property C06 is about). *)
From mathcomp Require Import all_ssreflect all_algebra.
From mathcomp Require Import zify.
Require Import C18.Model C18.ProofsIdx C18.ProofsLinear C18.ProofsGram.
Set Implicit Arguments.
Unset Strict Implicit.
Unset Printing Implicit Defensive.
Import GRing.Theory Num.Theory.
Local Open Scope ring_scope.

Section Chol.
Variable F : rcfType.
Notation RA := (RA F).
Notation rd := (@rd F RA).

Lemma foldl_iotaS (T : Type) (f : T -> nat -> T) z m :
  foldl f z (iota 0 m.+1) = f (foldl f z (iota 0 m)) m.
Proof. by rewrite -addn1 iotaD foldl_cat /= add0n. Qed.

Lemma rd_rcons (s : seq F) x j : rd (rcons s x) j = if (j < size s)%N then rd s j else if j == size s then x else 0.
Proof. by rewrite /Model.rd nth_rcons. Qed.

Lemma dotpE (x y : seq F) j : dotp RA x y j = \sum_(l < j) rd x l * rd y l.
Proof. by rewrite /dotp sumn_big. Qed.

(* ---------------------------------------------------------------- one row *)
Section Row.
Variables (rows : seq (seq F)) (i : nat) (Ai : nat -> F).

Definition prefix (m : nat) : seq F := foldl (chol_row_step RA rows i Ai) [::] (iota 0 m).

Lemma prefixS m : prefix m.+1 = chol_row_step RA rows i Ai (prefix m) m.
Proof. exact: foldl_iotaS. Qed.

Lemma size_prefix m : size (prefix m) = m.
Proof.
elim: m => [|m IH] //; rewrite prefixS /chol_row_step.
by case: ifP => _; rewrite size_rcons IH.
Qed.

Lemma prefix_stable m m' j : (j < m)%N -> (m <= m')%N -> rd (prefix m') j = rd (prefix m) j.
Proof.
move=> hj; elim: m' => [|m' IH]; first by rewrite leqn0 => /eqP e; rewrite e in hj.
rewrite leq_eqVlt => /orP [/eqP -> //|]; rewrite ltnS => hm.
rewrite prefixS /chol_row_step.
have hlt : (j < size (prefix m'))%N by rewrite size_prefix; apply: leq_trans hj hm.
by case: ifP => _; rewrite rd_rcons hlt IH.
Qed.

Definition entry (j : nat) : F := rd (prefix j.+1) j.

Lemma dotp_prefix m (y : seq F) j : (j <= m)%N -> dotp RA (prefix m) y j = \sum_(l < j) entry l * rd y l.
Proof.
move=> hj; rewrite dotpE; apply: eq_bigr => l _; congr (_ * _).
by rewrite /entry; apply: prefix_stable => //; apply: leq_trans (ltn_ord l) hj.
Qed.

Lemma entry_lt j : (j < i)%N ->
  entry j = (Ai j - \sum_(l < j) entry l * rd (nth [::] rows j) l) / rd (nth [::] rows j) j.
Proof.
move=> hj; rewrite /entry prefixS /chol_row_step hj rd_rcons size_prefix ltnn eqxx /=.
by rewrite dotp_prefix.
Qed.

Lemma entry_diag : entry i = Num.sqrt (Ai i - \sum_(l < i) entry l * entry l).
Proof.
rewrite {1}/entry prefixS /chol_row_step ltnn rd_rcons size_prefix ltnn eqxx /=.
rewrite dotp_prefix //; congr (Num.sqrt (_ - _)); apply: eq_bigr => l _; congr (_ * _).
by rewrite /entry; apply: prefix_stable => //; apply: ltnW.
Qed.

Lemma rd_chol_row n j : (i < n)%N ->
  rd (chol_row RA rows n i Ai) j = if (j <= i)%N then entry j else 0.
Proof.
move=> hi; rewrite /chol_row -/(prefix i.+1) /Model.rd nth_cat size_prefix ltnS.
case: leqP => hj; first by rewrite /entry -/(Model.rd RA _ _); apply: prefix_stable.
by rewrite nth_nseq; case: ifP.
Qed.

Lemma size_chol_row n : (i < n)%N -> size (chol_row RA rows n i Ai) = n.
Proof. by move=> hi; rewrite /chol_row size_cat -/(prefix i.+1) size_prefix size_nseq; lia. Qed.

End Row.

(* ---------------------------------------------------------------- all rows *)
Section Rows.
Variables (n : nat) (A : nat -> nat -> F).

Definition rows_upto (m : nat) : seq (seq F) :=
  foldl (fun rows i => rcons rows (chol_row RA rows n i (A i))) [::] (iota 0 m).

Lemma rows_uptoS m : rows_upto m.+1 = rcons (rows_upto m) (chol_row RA (rows_upto m) n m (A m)).
Proof. exact: foldl_iotaS. Qed.

Lemma size_rows_upto m : size (rows_upto m) = m.
Proof. by elim: m => [|m IH] //; rewrite rows_uptoS size_rcons IH. Qed.

Lemma rows_stable m m' i : (i < m)%N -> (m <= m')%N -> nth [::] (rows_upto m') i = nth [::] (rows_upto m) i.
Proof.
move=> hi; elim: m' => [|m' IH]; first by rewrite leqn0 => /eqP e; rewrite e in hi.
rewrite leq_eqVlt => /orP [/eqP -> //|]; rewrite ltnS => hm.
by rewrite rows_uptoS nth_rcons size_rows_upto (leq_trans hi hm) IH.
Qed.

Definition Lrow (i : nat) : seq F := nth [::] (rows_upto n) i.
Definition Lent (i j : nat) : F := rd (Lrow i) j.

Lemma LrowE i : (i < n)%N -> Lrow i = chol_row RA (rows_upto i) n i (A i).
Proof.
move=> hi; rewrite /Lrow (@rows_stable i.+1 n i) // rows_uptoS nth_rcons size_rows_upto ltnn eqxx //.
Qed.

(* entries of row i only read the rows j < i of the final result *)
Lemma entry_rows i j : (i < n)%N -> (j <= i)%N ->
  entry (rows_upto i) i (A i) j = Lent i j.
Proof. by move=> hi hj; rewrite /Lent LrowE // rd_chol_row // hj. Qed.

Lemma Lent_upper i j : (i < n)%N -> (i < j)%N -> Lent i j = 0.
Proof. by move=> hi hj; rewrite /Lent LrowE // rd_chol_row // leqNgt hj. Qed.

Lemma Lent_lower i j : (i < n)%N -> (j < i)%N ->
  Lent i j = (A i j - \sum_(l < j) Lent i l * Lent j l) / Lent j j.
Proof.
move=> hi hj; rewrite -entry_rows //; last exact: ltnW.
rewrite entry_lt //.
have hrow : nth [::] (rows_upto i) j = Lrow j by rewrite /Lrow (@rows_stable i n j) //; apply: ltnW.
rewrite hrow -/(Lent j j); congr ((_ - _) / _); apply: eq_bigr => l _.
rewrite entry_rows //; apply: ltnW; exact: ltn_trans (ltn_ord l) hj.
Qed.

Lemma Lent_diag i : (i < n)%N ->
  Lent i i = Num.sqrt (A i i - \sum_(l < i) Lent i l * Lent i l).
Proof.
move=> hi; rewrite -entry_rows // entry_diag; congr (Num.sqrt (_ - _)); apply: eq_bigr => l _.
by rewrite !entry_rows //; apply: ltnW.
Qed.

(* pivots: what cholesky_ex checks *)
Definition pivots_pos : Prop := forall i, (i < n)%N -> 0 < A i i - \sum_(l < i) Lent i l * Lent i l.

Lemma sum_trunc i j (hj : (j < n)%N) : (j <= i)%N ->
  \sum_(l < n) Lent i l * Lent j l = \sum_(l < j.+1) Lent i l * Lent j l.
Proof.
move=> hji; rewrite (big_ord_widen n (fun l => Lent i l * Lent j l) hj) [RHS]big_mkcond /=.
apply: eq_bigr => l _; case: ltnP => // hl; by rewrite (Lent_upper hj hl) mulr0.
Qed.

Lemma chol_gram_le i j : pivots_pos -> (i < n)%N -> (j <= i)%N ->
  \sum_(l < n) Lent i l * Lent j l = A i j.
Proof.
move=> hp hi hji; have hj : (j < n)%N by exact: leq_ltn_trans hji hi.
rewrite (sum_trunc hj hji) big_ord_recr /=.
move: hji; rewrite leq_eqVlt => /orP [/eqP e|hlt].
  rewrite e Lent_diag // -expr2 sqr_sqrtr; last by apply: Order.POrderTheory.ltW; apply: hp.
  by rewrite addrC subrK.
rewrite (Lent_lower hi hlt) divfK; first by rewrite addrC subrK.
by rewrite Lent_diag // sqrtr_eq0 -Order.TotalTheory.ltNge; apply: hp.
Qed.

Theorem chol_gram : (forall i j, (i < n)%N -> (j < n)%N -> A i j = A j i) -> pivots_pos ->
  forall i j, (i < n)%N -> (j < n)%N -> \sum_(l < n) Lent i l * Lent j l = A i j.
Proof.
move=> hsym hp i j hi hj; case: (leqP j i) => hji; first exact: chol_gram_le.
rewrite hsym // -(chol_gram_le hp hj (ltnW hji)); apply: eq_bigr => l _; exact: mulrC.
Qed.

End Rows.

(* ---------------------------------------------------------------- the generic leaf on the Cholesky path *)
Variable st : sett.

Definition Ab (n : nat) (A : seq F) (b : nat) : nat -> nat -> F := fun i j => rd A ((b * n + i) * n + j).

Lemma rd_chol_flat B n (A : seq F) b i j : (b < B)%N -> (i < n)%N -> (j < n)%N ->
  rd (chol_flat RA B n A) ((b * n + i) * n + j) = Lent n (Ab n A b) i j.
Proof.
move=> hb hi hj; rewrite /chol_flat rd_tab3 // nth_mkseq //.
Qed.

(* symmetric members whose factorisation meets no non-positive pivot *)
Definition chol_ok (B n : nat) (A : seq F) : Prop :=
  forall b, (b < B)%N ->
    (forall i j, (i < n)%N -> (j < n)%N -> Ab n A b i j = Ab n A b j i) /\ pivots_pos n (Ab n A b).

Theorem leaf_chol_ok bs n (A : seq F) lz :
  gen_method st n (RAuto lz) = MChol -> chol_ok (prodn bs) n A -> leaves_ok st (SGen bs n A (RAuto lz)).
Proof.
move=> hm hok; rewrite /= /gen_root hm => b i j hb hi hj.
case: (hok b hb) => hsym hp.
rewrite -[RHS]/(Ab n A b i j) -(chol_gram hsym hp hi hj); apply: eq_bigr => l _.
by rewrite !rd_chol_flat.
Qed.

End Chol.
