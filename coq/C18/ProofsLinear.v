(* C18 — every sampler is the linear map `root` applied to the noise coordinates `coord`, in the
   samples-first layout (k, *batch, n).   [sample_linear] *)
From mathcomp Require Import all_ssreflect all_algebra.
From mathcomp Require Import zify.
Require Import C18.Model C18.ProofsIdx.
Set Implicit Arguments.
Unset Strict Implicit.
Unset Printing Implicit Defensive.
Import GRing.Theory Num.Theory.
Local Open Scope ring_scope.

Section Lin.
Variable F : rcfType.
Variable st : sett.

Notation RA := (RA F).
Notation rd := (@rd F RA).
Notation alg_sample := (@alg_sample F RA st).
Notation root := (@root F RA st).
Notation nd := (@nd F RA st).
Notation coord := (@coord F RA st).
Notation wf := (@wf F RA st).
Notation noise_ok := (@noise_ok F RA st).

Definition lin_spec (k : nat) (e : sx F) (zs : seq (seq F)) (s : seq F) : Prop :=
  size s = (k * BB e * NN e)%N /\
  forall t b i, (t < k)%N -> (b < BB e)%N -> (i < NN e)%N ->
    rd s ((t * BB e + b) * NN e + i) = \sum_(a < nd e) root e b i a * coord k e zs b a t.

Lemma idx_lt t k b B i n : (t < k)%N -> (b < B)%N -> (i < n)%N -> ((t * B + b) * n + i < k * B * n)%N.
Proof. by move=> h1 h2 h3; apply: lt_mul_add => //; apply: lt_mul_add. Qed.

Lemma if_mull (c : bool) (x y : F) : (if c then x else 0) * y = if c then x * y else 0.
Proof. by case: c; rewrite ?mul0r. Qed.

Lemma rd_sqrt (d : seq F) p : (p < size d)%N -> rd (t_sqrt RA d) p = Num.sqrt (rd d p).
Proof. by move=> h; rewrite /t_sqrt /Model.rd (nth_map (a0 RA)). Qed.

(* ------------------------------------------------------------------ leaves *)

Lemma lin_diag k bs n d zs s :
  wf (SDiag bs n d) -> noise_ok k (SDiag bs n d) zs ->
  alg_sample k (SDiag bs n d) zs = Some s -> lin_spec k (SDiag bs n d) zs s.
Proof.
rewrite /= => /eqP hd /eqP hz [<-]; split; first by rewrite size_tab2 /BB /= mulnA.
move=> t b i ht; rewrite /BB /=; set B := prodn bs => hb hi.
have -> : ((t * B + b) * n + i = t * (B * n) + (b * n + i))%N by lia.
have hbi : (b * n + i < B * n)%N by exact: lt_mul_add.
rewrite rd_tab2 // rd_sqrt ?hd //.
under eq_bigr => a _ do rewrite if_mull.
rewrite (sum_delta_l (fun a => Num.sqrt (rd d (b * n + i)) * rd (head [::] zs) ((t * B + b) * n + a))) //.
rewrite /= mulrC; congr (_ * rd _ _); lia.
Qed.

Lemma lin_ident k bs n zs s :
  noise_ok k (SIdent F bs n) zs ->
  alg_sample k (SIdent F bs n) zs = Some s -> lin_spec k (SIdent F bs n) zs s.
Proof.
rewrite /= => /eqP hz [<-]; split; first by rewrite hz.
move=> t b i ht; rewrite /BB /=; set B := prodn bs => hb hi.
under eq_bigr => a _ do rewrite if_mull mul1r.
by rewrite (sum_delta_l (fun a => rd (head [::] zs) ((t * B + b) * n + a))).
Qed.

Lemma lin_gen k bs n A rk zs s :
  alg_sample k (SGen bs n A rk) zs = Some s -> lin_spec k (SGen bs n A rk) zs s.
Proof.
rewrite /lin_spec /BB /=; set B := prodn bs.
case: (gen_root RA st B n A rk) => [[r R]|] // [<-]; split.
  by rewrite size_tab2 mulnA.
move=> t b i ht hb hi.
have -> : ((t * B + b) * n + i = t * (B * n) + (b * n + i))%N by lia.
rewrite rd_tab2 //; last exact: lt_mul_add.
by rewrite /t_bmm rd_tab3 // sumn_big.
Qed.

Lemma lin_zero k bs n zs : lin_spec k (SZero F bs n) zs (nseq (k * prodn bs * n) 0).
Proof.
split; first by rewrite size_nseq.
move=> t b i ht hb hi; rewrite big_ord0 /Model.rd nth_nseq; by case: ifP.
Qed.

(* ------------------------------------------------------------------ block structures *)

Section Blocks.
Variables (k : nat) (bs : seq nat) (nb : nat) (c : sx F) (zs : seq (seq F)) (s0 : seq F).
Hypothesis hbs : bshape c = rcons bs nb.
Hypothesis IH : lin_spec k c zs s0.

Let B := prodn bs.
Let n0 := NN c.
Let d0 := nd c.

Lemma BBc : BB c = (B * nb)%N.
Proof. by rewrite /BB hbs prodn_rcons. Qed.

Lemma IHrd t b j i0 : (t < k)%N -> (b < B)%N -> (j < nb)%N -> (i0 < n0)%N ->
  rd s0 (((t * B + b) * nb + j) * n0 + i0) = \sum_(a' < d0) root c (b * nb + j) i0 a' * coord k c zs (b * nb + j) a' t.
Proof.
move=> ht hb hj hi; case: IH => _ /(_ t (b * nb + j)%N i0 ht).
rewrite BBc => /(_ (lt_mul_add hb hj) hi) <-.
congr (rd _ _); rewrite -/n0; lia.
Qed.

Lemma lin_blockdiag : lin_spec k (SBlockDiag bs nb c) zs s0.
Proof.
split; first by case: IH => -> _; rewrite BBc /BB /= -/B; lia.
move=> t b i ht; rewrite /BB /= -/B -/n0 -/d0 => hb hi.
have hn0 : (0 < n0)%N by case: (n0) hi => //; rewrite muln0.
have hj : (i %/ n0 < nb)%N by rewrite ltn_divLR.
have hi0 : (i %% n0 < n0)%N by rewrite ltn_pmod.
have -> : ((t * B + b) * (nb * n0) + i = ((t * B + b) * nb + i %/ n0) * n0 + i %% n0)%N.
  by rewrite {1}(divn_eq i n0); lia.
rewrite IHrd // -(sum_block d0 (fun a' => root c (b * nb + i %/ n0) (i %% n0) a' * coord k c zs (b * nb + i %/ n0) a' t) hj).
apply: eq_bigr => a _.
by rewrite if_mull; case: eqP => // <-.
Qed.

Lemma lin_blockinter : lin_spec k (SBlockInter bs nb c) zs (t_swap23 RA (k * B) nb n0 s0).
Proof.
split; first by rewrite size_tab3 /BB /= -/B -/n0; lia.
move=> t b i ht; rewrite /BB /= -/B -/n0 -/d0 => hb hi.
have hnb : (0 < nb)%N by case: (nb) hi.
have hj : (i %% nb < nb)%N by rewrite ltn_pmod.
have hi0 : (i %/ nb < n0)%N by rewrite ltn_divLR // mulnC.
have -> : ((t * B + b) * (nb * n0) + i = ((t * B + b) * n0 + i %/ nb) * nb + i %% nb)%N.
  by rewrite {1}(divn_eq i nb); lia.
rewrite /t_swap23 rd_tab3 //; last exact: lt_mul_add.
rewrite IHrd // -(sum_block d0 (fun a' => root c (b * nb + i %% nb) (i %/ nb) a' * coord k c zs (b * nb + i %% nb) a' t) hj).
apply: eq_bigr => a _.
by rewrite if_mull; case: eqP => // <-.
Qed.

Lemma lin_sumbatch : lin_spec k (SSumBatch bs nb c) zs (t_sum3 RA (k * B) nb n0 s0).
Proof.
split; first by rewrite size_tab2 /BB /= -/B -/n0.
move=> t b i ht; rewrite /BB /= -/B -/n0 -/d0 => hb hi.
rewrite /t_sum3 rd_tab2 //; last exact: lt_mul_add.
rewrite sumn_big (sum_divmod nb d0 (fun j a' => root c (b * nb + j) i a' * coord k c zs (b * nb + j) a' t)).
by apply: eq_bigr => j _; rewrite IHrd.
Qed.

End Blocks.

(* ------------------------------------------------------------------ interpolation: draws of W_l R_base *)

Section Interp.
Variables (k : nat) (bs : seq nat) (m q : nat) (li : seq nat) (lv : seq F) (ri : seq nat) (rv : seq F).
Variables (c : sx F) (zs : seq (seq F)) (s0 : seq F).
Hypothesis hbs : bshape c = bs.
Hypothesis hli : size li = (prodn bs * m * q)%N.
Hypothesis hrange : all (fun x => (x < NN c)%N) li.
Hypothesis IH : lin_spec k c zs s0.

Let B := prodn bs.
Let n0 := NN c.

Lemma li_lt b i l : (b < B)%N -> (i < m)%N -> (l < q)%N -> (rdn li ((b * m + i) * q + l) < n0)%N.
Proof.
move=> hb hi hl; move/all_nthP: hrange; apply.
by rewrite hli; apply: lt_mul_add => //; apply: lt_mul_add.
Qed.

Lemma wmat_gather b i (f : nat -> F) : (b < B)%N -> (i < m)%N ->
  \sum_(j < n0) wmat RA m q li lv b i j * f j =
  \sum_(l < q) f (rdn li ((b * m + i) * q + l)) * rd lv ((b * m + i) * q + l).
Proof.
move=> hb hi; rewrite /wmat.
under eq_bigr => j _ do rewrite sumn_big mulr_suml.
rewrite exchange_big /=; apply: eq_bigr => l _.
under eq_bigr => j _ do rewrite if_mull.
rewrite (sum_delta_l (fun j => rd lv ((b * m + i) * q + l) * f j)); [by rewrite mulrC | exact: li_lt].
Qed.

Lemma lin_interp :
  lin_spec k (SInterp bs m q li lv ri rv c) zs
    (t_last_to_first RA (B * m) k (t_left_interp RA B m q n0 k li lv (t_first_to_last RA k (B * n0) s0))).
Proof.
have hBB : BB c = B by rewrite /BB hbs.
split; first by rewrite size_tab2 /BB /= -/B; lia.
move=> t b i ht; rewrite /BB /= -/B -/n0 => hb hi.
have -> : ((t * B + b) * m + i = t * (B * m) + (b * m + i))%N by lia.
rewrite rd_tab2 //; last exact: lt_mul_add.
rewrite /t_left_interp rd_tab3 // sumn_big.
pose f j := \sum_(a < nd c) root c b j a * coord k c zs b a t.
have -> : \sum_(a < nd c) sumn_ RA (fun j => amul RA (wmat RA m q li lv b i j) (root c b j a)) n0 * coord k c zs b a t
        = \sum_(j < n0) wmat RA m q li lv b i j * f j.
  under eq_bigr => a _ do rewrite sumn_big mulr_suml.
  rewrite exchange_big /=; apply: eq_bigr => j _.
  by rewrite /f mulr_sumr; apply: eq_bigr => a _; rewrite /= mulrA.
rewrite (wmat_gather f hb hi); apply: eq_bigr => l _; rewrite /=; congr (_ * _).
have hl := li_lt hb hi (ltn_ord l).
rewrite /t_first_to_last rd_tab2 //; last exact: lt_mul_add.
rewrite /f; case: IH => _ /(_ t b _ ht); rewrite hBB => /(_ _ hb hl) <-.
congr (rd _ _); rewrite -/n0; lia.
Qed.

End Interp.

(* ------------------------------------------------------------------ sums of independent draws *)

Lemma lin_add k l r zs x y :
  bshape r = bshape l -> NN r = NN l ->
  lin_spec k l (take (ncalls l) zs) x -> lin_spec k r (drop (ncalls l) zs) y ->
  lin_spec k (SAdd l r) zs (t_add RA x y).
Proof.
move=> hb hn [sx hx] [sy hy]; split; first by rewrite /t_add size_mkseq sx.
move=> t b i ht; rewrite {1 2}/BB /= -/(BB l) => hbb hi.
rewrite /t_add rd_mkseq; last by rewrite sx; apply: idx_lt.
rewrite hx // big_split_ord /=; congr (_ + _).
  by apply: eq_bigr => a _; rewrite ltn_ord.
have -> : rd y ((t * BB l + b) * NN l + i) = rd y ((t * BB r + b) * NN r + i) by rewrite /BB hb hn.
rewrite hy ?hn ?/BB ?hb //; apply: eq_bigr => a _.
by rewrite ltnNge leq_addr /= addKn.
Qed.

(* ------------------------------------------------------------------ the theorem *)

Theorem sample_linear k (e : sx F) : forall zs s,
  wf e -> noise_ok k e zs -> alg_sample k e zs = Some s -> lin_spec k e zs s.
Proof.
elim: e => [bs n d|bs n|bs n A rk|bs nb c IH|bs nb c IH|bs nb c IH|bs m q li lv ri rv c IH|bs n|l IHl r IHr] zs s.
- exact: lin_diag.
- by move=> _; exact: lin_ident.
- by move=> _ _; exact: lin_gen.
- move=> /= /andP [/eqP hbs hw] hz hs; apply: lin_blockdiag => //; exact: IH.
- move=> /= /andP [/eqP hbs hw] hz.
  case hs0 : (alg_sample k c zs) => [s0|] //= [<-].
  apply: lin_blockinter => //; exact: IH.
- move=> /= /andP [/eqP hbs hw] hz.
  case hs0 : (alg_sample k c zs) => [s0|] //= [<-].
  apply: lin_sumbatch => //; exact: IH.
- move=> /= /andP [/eqP hbs /andP [/eqP hli /andP [_ /andP [_ /andP [_ /andP [hrange /andP [_ hw]]]]]]] hz.
  case hs0 : (alg_sample k c zs) => [s0|] //= [<-].
  apply: lin_interp => //; exact: IH.
- by move=> _ _ /= [<-]; exact: lin_zero.
- move=> /= /and4P [/eqP hb /eqP hn hwl hwr] /andP [hzl hzr].
  case hx : (alg_sample k l _) => [x|] //; case hy : (alg_sample k r _) => [y|] // [<-].
  apply: lin_add => //; [exact: IHl | exact: IHr].
Qed.

End Lin.
