(* C18 — the linear map of every sampler is a square root of the covariance the expression denotes:
     \sum_a root e b i a * root e b j a = den e b i j        [root_gram / sample_root]
   Interpolated operators: the sampler only uses the LEFT interpolation, so its covariance is
   W_l A_base W_l^T  (den of `symmetrize e`) ; it is the represented matrix when W_r = W_l. *)
From mathcomp Require Import all_ssreflect all_algebra.
From mathcomp Require Import zify.
Require Import C18.Model C18.ProofsIdx C18.ProofsLinear.
Set Implicit Arguments.
Unset Strict Implicit.
Unset Printing Implicit Defensive.
Import GRing.Theory Num.Theory.
Local Open Scope ring_scope.

Section Gram.
Variable F : rcfType.
Variable st : sett.

Notation RA := (RA F).
Notation rd := (@rd F RA).
Notation root := (@root F RA st).
Notation nd := (@nd F RA st).
Notation wf := (@wf F RA st).
Notation den := (@den F RA).
Notation wmat := (@wmat F RA).

(* validity of the roots handed to the samplers by the decompositions (property C06), and PSD-ness of leaves *)
Fixpoint leaves_ok (e : sx F) : Prop :=
  match e with
  | SDiag bs n d => forall x, (x < prodn bs * n)%N -> 0 <= rd d x
  | SIdent _ _ => True
  | SGen bs n A rk =>
      match gen_root RA st (prodn bs) n A rk with
      | Some (r, R) => forall b i j, (b < prodn bs)%N -> (i < n)%N -> (j < n)%N ->
          \sum_(a < r) rd R ((b * n + i) * r + a) * rd R ((b * n + j) * r + a) = rd A ((b * n + i) * n + j)
      | None => False
      end
  | SBlockDiag _ _ c | SBlockInter _ _ c | SSumBatch _ _ c => leaves_ok c
  | SInterp _ _ _ _ _ _ _ c => leaves_ok c
  | SZero _ _ => True
  | SAdd l r => leaves_ok l /\ leaves_ok r
  end.

(* every interpolated node has W_r = W_l (as matrices; the index/value arrays may differ) *)
Fixpoint interp_sym (e : sx F) : Prop :=
  match e with
  | SDiag _ _ _ | SIdent _ _ | SGen _ _ _ _ | SZero _ _ => True
  | SBlockDiag _ _ c | SBlockInter _ _ c | SSumBatch _ _ c => interp_sym c
  | SInterp bs m q li lv ri rv c =>
      (forall b i x, (b < prodn bs)%N -> (i < m)%N -> (x < NN c)%N -> wmat m q ri rv b i x = wmat m q li lv b i x)
      /\ interp_sym c
  | SAdd l r => interp_sym l /\ interp_sym r
  end.

(* the expression with every right interpolation replaced by the left one *)
Fixpoint symmetrize (e : sx F) : sx F :=
  match e with
  | SDiag _ _ _ | SIdent _ _ | SGen _ _ _ _ | SZero _ _ => e
  | SBlockDiag bs nb c => SBlockDiag bs nb (symmetrize c)
  | SBlockInter bs nb c => SBlockInter bs nb (symmetrize c)
  | SSumBatch bs nb c => SSumBatch bs nb (symmetrize c)
  | SInterp bs m q li lv ri rv c => SInterp bs m q li lv li lv (symmetrize c)
  | SAdd l r => SAdd (symmetrize l) (symmetrize r)
  end.

Lemma NN_sym e : NN (symmetrize e) = NN e.
Proof. by elim: e => //= [bs nb c ->|bs nb c ->] //. Qed.

Definition gram (e : sx F) (b i j : nat) : F := \sum_(a < nd e) root e b i a * root e b j a.

Lemma if_mulr (c : bool) (x y : F) : y * (if c then x else 0) = if c then y * x else 0.
Proof. by case: c; rewrite ?mulr0. Qed.

Lemma BBc bs nb (c : sx F) : bshape c = rcons bs nb -> BB c = (prodn bs * nb)%N.
Proof. by move=> h; rewrite /BB h prodn_rcons. Qed.

(* ------------------------------------------------------------------ cases *)

Lemma gram_diag bs n d b i j :
  wf (SDiag bs n d) -> leaves_ok (SDiag bs n d) -> (b < prodn bs)%N -> (i < n)%N -> (j < n)%N ->
  gram (SDiag bs n d) b i j = den (SDiag bs n d) b i j.
Proof.
rewrite /gram /= => _ hpos hb hi hj.
under eq_bigr => a _ do rewrite if_mull.
rewrite (sum_delta_l (fun a => Num.sqrt (rd d (b * n + i)) * (if j == a then Num.sqrt (rd d (b * n + j)) else 0))) //.
rewrite eq_sym; case: eqP => [->|_]; last by rewrite mulr0.
by rewrite -expr2 sqr_sqrtr //; apply: hpos; apply: lt_mul_add.
Qed.

Lemma gram_ident bs n b i j : (i < n)%N -> gram (SIdent F bs n) b i j = den (SIdent F bs n) b i j.
Proof.
rewrite /gram /= => hi.
under eq_bigr => a _ do rewrite if_mull mul1r.
by rewrite (sum_delta_l (fun a => if j == a then 1 else 0)) // eq_sym.
Qed.

Section Blocks.
Variables (bs : seq nat) (nb : nat) (c : sx F) (D : nat -> nat -> nat -> F).
Hypothesis hbs : bshape c = rcons bs nb.
Hypothesis IH : forall b i j, (b < BB c)%N -> (i < NN c)%N -> (j < NN c)%N -> gram c b i j = D b i j.
Let B := prodn bs.
Let n0 := NN c.
Let d0 := nd c.

Lemma gram_blockdiag b i j : (b < B)%N -> (i < nb * n0)%N -> (j < nb * n0)%N ->
  gram (SBlockDiag bs nb c) b i j =
  if (i %/ n0 == j %/ n0)%N then D (b * nb + i %/ n0)%N (i %% n0)%N (j %% n0)%N else 0.
Proof.
move=> hb hi hj; rewrite /gram /= -/n0 -/d0.
have hn0 : (0 < n0)%N by case: (n0) hi => //; rewrite muln0.
have hJ : (i %/ n0 < nb)%N by rewrite ltn_divLR.
case: eqP => [e|ne].
  rewrite -IH ?(BBc hbs) ?ltn_pmod //; last exact: lt_mul_add.
  rewrite /gram -/d0.
  rewrite -(sum_block d0 (fun a' => root c (b * nb + i %/ n0) (i %% n0) a' * root c (b * nb + i %/ n0) (j %% n0) a') hJ).
  by apply: eq_bigr => a _; rewrite -e if_mull; case: eqP => //; rewrite mul0r.
rewrite big1 // => a _; case: eqP => [e1|]; last by rewrite mul0r.
by case: eqP => [e2|]; rewrite ?mulr0 //; case: ne; rewrite e1 e2.
Qed.

Lemma gram_blockinter b i j : (b < B)%N -> (i < nb * n0)%N -> (j < nb * n0)%N ->
  gram (SBlockInter bs nb c) b i j =
  if (i %% nb == j %% nb)%N then D (b * nb + i %% nb)%N (i %/ nb)%N (j %/ nb)%N else 0.
Proof.
move=> hb hi hj; rewrite /gram /= -/n0 -/d0.
have hnb : (0 < nb)%N by case: (nb) hi.
have hJ : (i %% nb < nb)%N by rewrite ltn_pmod.
case: eqP => [e|ne].
  have hb' : (b * nb + i %% nb < BB c)%N by rewrite (BBc hbs); apply: lt_mul_add.
  have hi' : (i %/ nb < n0)%N by rewrite ltn_divLR // mulnC.
  have hj' : (j %/ nb < n0)%N by rewrite ltn_divLR // mulnC.
  rewrite -(IH hb' hi' hj') /gram -/d0.
  rewrite -(sum_block d0 (fun a' => root c (b * nb + i %% nb) (i %/ nb) a' * root c (b * nb + i %% nb) (j %/ nb) a') hJ).
  by apply: eq_bigr => a _; rewrite -e if_mull; case: eqP => //; rewrite mul0r.
rewrite big1 // => a _; case: eqP => [e1|]; last by rewrite mul0r.
by case: eqP => [e2|]; rewrite ?mulr0 //; case: ne; rewrite e1 e2.
Qed.

Lemma gram_sumbatch b i j : (b < B)%N -> (i < n0)%N -> (j < n0)%N ->
  gram (SSumBatch bs nb c) b i j = \sum_(u < nb) D (b * nb + u)%N i j.
Proof.
move=> hb hi hj; rewrite /gram /= -/n0 -/d0.
rewrite (sum_divmod nb d0 (fun u a' => root c (b * nb + u) i a' * root c (b * nb + u) j a')).
by apply: eq_bigr => u _; rewrite -IH // (BBc hbs); apply: lt_mul_add.
Qed.

End Blocks.

Lemma gram_interp bs m q li lv ri rv (c : sx F) (D : nat -> nat -> nat -> F) b i j :
  (forall x y, (x < NN c)%N -> (y < NN c)%N -> gram c b x y = D b x y) ->
  gram (SInterp bs m q li lv ri rv c) b i j =
  \sum_(x < NN c) \sum_(y < NN c) wmat m q li lv b i x * D b x y * wmat m q li lv b j y.
Proof.
move=> IH; rewrite /gram /=.
under eq_bigr => a _ do rewrite !sumn_big big_distrlr /=.
rewrite exchange_big /=; apply: eq_bigr => x _.
rewrite exchange_big /=; apply: eq_bigr => y _.
rewrite -IH // /gram mulr_sumr mulr_suml; apply: eq_bigr => a _.
by rewrite /= mulrACA -mulrA (mulrC (wmat _ _ _ _ b j y)) !mulrA.
Qed.

Lemma gram_add (l r : sx F) b i j :
  gram (SAdd l r) b i j = gram l b i j + gram r b i j.
Proof.
rewrite /gram /= big_split_ord /=; congr (_ + _).
  by apply: eq_bigr => a _; rewrite ltn_ord.
by apply: eq_bigr => a _; rewrite ltnNge leq_addr /= addKn.
Qed.

(* ------------------------------------------------------------------ main theorems *)

(* covariance of the sampler = den of the left-symmetrised expression (no assumption on W_r) *)
Theorem root_gram_left (e : sx F) : wf e -> leaves_ok e ->
  forall b i j, (b < BB e)%N -> (i < NN e)%N -> (j < NN e)%N ->
  gram e b i j = den (symmetrize e) b i j.
Proof.
elim: e => [bs n d|bs n|bs n A rk|bs nb c IH|bs nb c IH|bs nb c IH|bs m q li lv ri rv c IH|bs n|l IHl r IHr].
- by move=> hw ho b i j hb hi hj; exact: gram_diag.
- by move=> _ _ b i j _ hi _; exact: gram_ident.
- move=> _; rewrite /gram /BB /=.
  by case: (gen_root RA st (prodn bs) n A rk) => [[r R]|] // h b i j hb hi hj; exact: h.
- move=> /= /andP [/eqP hbs hw] ho b i j; rewrite /BB /= => hb hi hj.
  by rewrite (gram_blockdiag hbs (IH hw ho)) // NN_sym.
- move=> /= /andP [/eqP hbs hw] ho b i j; rewrite /BB /= => hb hi hj.
  by rewrite (gram_blockinter hbs (IH hw ho)).
- move=> /= /andP [/eqP hbs hw] ho b i j; rewrite /BB /= => hb hi hj.
  by rewrite (gram_sumbatch hbs (IH hw ho)) // sumn_big.
- move=> /= /andP [/eqP hbs /andP [_ /andP [_ /andP [_ /andP [_ /andP [_ /andP [_ hw]]]]]]] ho b i j.
  rewrite /BB /= => hb hi hj.
  rewrite (@gram_interp _ _ _ _ _ _ _ _ (den (symmetrize c))); last first.
    by move=> x y hx hy; apply: IH => //; rewrite /BB hbs.
  rewrite NN_sym sumn_big; apply: eq_bigr => x _; by rewrite sumn_big.
- by move=> _ _ b i j _ _ _; rewrite /gram /= big_ord0.
- move=> /= /and4P [/eqP hb /eqP hn hwl hwr] [hol hor] b i j; rewrite {1}/BB /= -/(BB l) => hbb hi hj.
  rewrite gram_add IHl // IHr //; by rewrite ?hn // /BB hb.
Qed.

(* with symmetric interpolation the left-symmetrised expression denotes the same matrix *)
Theorem den_symmetrize (e : sx F) : wf e -> interp_sym e ->
  forall b i j, (b < BB e)%N -> (i < NN e)%N -> (j < NN e)%N ->
  den (symmetrize e) b i j = den e b i j.
Proof.
elim: e => [bs n d|bs n|bs n A rk|bs nb c IH|bs nb c IH|bs nb c IH|bs m q li lv ri rv c IH|bs n|l IHl r IHr] //.
- move=> /= /andP [/eqP hbs hw] hs b i j; rewrite /BB /= => hb hi hj.
  rewrite NN_sym; case: eqP => // _.
  have hn0 : (0 < NN c)%N by case: (NN c) hi => //; rewrite muln0.
  have hb' : (b * nb + i %/ NN c < BB c)%N.
    by rewrite (BBc hbs); apply: lt_mul_add => //; rewrite ltn_divLR.
  by apply: IH => //; rewrite ltn_pmod.
- move=> /= /andP [/eqP hbs hw] hs b i j; rewrite /BB /= => hb hi hj.
  have hnb : (0 < nb)%N by case: (nb) hi.
  case: eqP => // _.
  have hb' : (b * nb + i %% nb < BB c)%N.
    by rewrite (BBc hbs); apply: lt_mul_add => //; rewrite ltn_pmod.
  by apply: IH => //; rewrite ltn_divLR // mulnC.
- move=> /= /andP [/eqP hbs hw] hs b i j; rewrite /BB /= => hb hi hj.
  rewrite !sumn_big; apply: eq_bigr => u _; apply: IH => //.
  by rewrite (BBc hbs); apply: lt_mul_add.
- move=> /= /andP [/eqP hbs /andP [_ /andP [_ /andP [_ /andP [_ /andP [_ /andP [_ hw]]]]]]] [hsym hs] b i j.
  rewrite /BB /= => hb hi hj.
  rewrite NN_sym !sumn_big; apply: eq_bigr => x _.
  rewrite !sumn_big; apply: eq_bigr => y _.
  by rewrite /= hsym // IH // /BB hbs.
- move=> /= /and4P [/eqP hb /eqP hn hwl hwr] [hsl hsr] b i j; rewrite {1}/BB /= -/(BB l) => hbb hi hj.
  by rewrite IHl // IHr // ?hn // /BB hb.
Qed.

Theorem root_gram (e : sx F) : wf e -> leaves_ok e -> interp_sym e ->
  forall b i j, (b < BB e)%N -> (i < NN e)%N -> (j < NN e)%N ->
  gram e b i j = den e b i j.
Proof. by move=> hw ho hs b i j hb hi hj; rewrite root_gram_left // den_symmetrize. Qed.

(* ------------------------------------------------------------------ leaves: when is the generic leaf valid *)

(* 1x1 operators (not CIQ): the sampler takes sqrt(to_dense()); valid iff the entries are >= 0 *)
Lemma leaf_sqrt_ok bs (A : seq F) rk :
  ciq_on st = false -> size A = prodn bs ->
  (forall b, (b < prodn bs)%N -> 0 <= rd A b) -> leaves_ok (SGen bs 1 A rk).
Proof.
move=> hc hs hpos; rewrite /= /gen_root /gen_method hc /= => b i j hb.
rewrite !ltnS !leqn0 => /eqP -> /eqP ->.
rewrite big_ord_recl big_ord0 addr0 !muln1 !addn0 rd_sqrt ?hs //.
by rewrite -expr2 sqr_sqrtr //; apply: hpos.
Qed.

End Gram.
