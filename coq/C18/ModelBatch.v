(* C18 — batch / sample index layout beyond the flattened batch of Model.v (definitions only, executable):

   (1) multi-dimensional indices: `ravel` is the row-major address torch uses for a tensor of a given shape;
       Model.v flattens every batch shape bs to B = prodn bs, this file relates the two for ALL batch shapes.
   (2) the contour-integral (CIQ) branch of zero_mean_mvn_samples, as far as its index layout goes:
       _linear_operator.py        base_samples = randn(batch.., n, k).permute(-1, 0 .. dim-2).unsqueeze(-1)
                                   solves, weights, _, _ = contour_integral_quad(self.evaluate_kernel(), base_samples)
                                   return (solves * weights).sum(0).squeeze(-1)
       contour_integral_quad.py   one quadrature rule per batch MEMBER (weights (Q, batch..), shifts (Q+1, batch..), row 0
                                   of the shifts is the unshifted system), broadcast to the rhs' extra leading sample axis by
                                       weights = stack([w.expand(output_batch_shape.., 1, 1) for w in weights], 0)
                                       shifts  = stack([s.expand(output_batch_shape) for s in shifts], 0)
                                   solves = minres(K, rhs, value=-1, shifts)[1:] ; solves = K._matmul(solves)
       MINRES followed by the matmul is modelled by its MEANING: a per-member, per-shift matrix `res b s` (the
       implementation's is K_b (K_b - s I)^-1 up to the MINRES tolerance: property C11).
   (3) the memoize entry 'root_decomposition' that the generic sampler reads, and its two writers in
       _linear_operator.py:  root_decomposition() itself (@cached: computed only when the entry is absent) and
       _root_inv_decomposition(initial_vectors) (add_to_cache, unconditional overwrite, of the Lanczos `roots`,
       or of `roots[0]` when initial_vectors has more than one column: RootDecomposition then returns one root per
       probe column in a leading dimension).  The sampler multiplies the stored root with randn(batch.., r, k) by
       torch.matmul, which broadcasts a root that has fewer leading batch dimensions (member b -> b mod prod cs). *)
From mathcomp Require Import ssreflect ssrfun ssrbool eqtype ssrnat seq div.
Require Import C18.Model.
Set Implicit Arguments.
Unset Strict Implicit.
Unset Printing Implicit Defensive.

(* ------------------------------------------------------------------ (1) multi-dimensional indices *)

Fixpoint ravel (shape idx : seq nat) : nat :=
  match shape, idx with
  | d :: shape', i :: idx' => i * prodn shape' + ravel shape' idx'
  | _, _ => 0
  end.

Fixpoint in_shape (shape idx : seq nat) : bool :=
  match shape, idx with
  | [::], [::] => true
  | d :: shape', i :: idx' => (i < d) && in_shape shape' idx'
  | _, _ => false
  end.

Fixpoint unravel (shape : seq nat) (x : nat) : seq nat :=
  match shape with
  | [::] => [::]
  | d :: shape' => x %/ prodn shape' :: unravel shape' (x %% prodn shape')
  end.

Section ModelBatch.
Variable F : Type.
Variable ar : Arith F.

Notation rd := (rd ar).

(* ------------------------------------------------------------------ (2) CIQ branch: broadcast of the per-member rule *)

(* x:(Q, B) -> stack([row.expand(k, B) for row in x], 0) : (Q, k, B) *)
Definition t_expand_lead (Q k B : nat) (x : seq F) : seq F :=
  tab3 Q k B (fun q t b => rd x (q * B + b)).

(* the NON-equivalent 'vectorisation'  x.repeat_interleave(k, dim=-1).view(Q, k, B): element p of a row is x[q, p / k] *)
Definition t_interleave_view (Q k B : nat) (x : seq F) : seq F :=
  tab3 Q k B (fun q t b => rd x (q * B + (t * B + b) %/ k)).

(* the sampler, parametrised by the broadcast `bc` used for weights and shifts;
   w:(Q, B) weights, sh:(Q+1, B) shifts (row 0 = unshifted), z:(B, n, k) the randn tensor; result (k, B, n) *)
Definition ciq_sample_with (bc : nat -> nat -> nat -> seq F -> seq F)
           (res : nat -> F -> nat -> nat -> F) (Q k B n : nat) (w sh z : seq F) : seq F :=
  let rhs := t_last_to_first ar (B * n) k z in                       (* (k, B, n) [, 1] *)
  let W := bc Q k B w in                                             (* (Q, k, B) [, 1, 1] *)
  let S := bc Q k B (drop B sh) in                                   (* rows 1..Q of the shifts: (Q, k, B) *)
  let solves := tab3 Q (k * B) n (fun q p i =>                       (* K_b (K_b - s)^-1 rhs[p], b = p mod B *)
       sumn_ ar (fun j => amul ar (res (p %% B) (rd S (q * (k * B) + p)) i j) (rd rhs (p * n + j))) n) in
  tab2 (k * B) n (fun p i =>                                         (* (solves * weights).sum(0).squeeze(-1) *)
       sumn_ ar (fun q => amul ar (rd solves ((q * (k * B) + p) * n + i)) (rd W (q * (k * B) + p))) Q).

Definition ciq_sample := ciq_sample_with t_expand_lead.

(* specification side: the matrix member b applies to its noise: S_b = sum_q w[q,b] * res b sh[q+1,b] *)
Definition ciq_root (res : nat -> F -> nat -> nat -> F) (Q B : nat) (w sh : seq F) (b i j : nat) : F :=
  sumn_ ar (fun q => amul ar (rd w (q * B + b)) (res b (rd sh (q.+1 * B + b)) i j)) Q.

(* ------------------------------------------------------------------ (3) the 'root_decomposition' cache entry *)

(* a stored tensor: (shape, flat data) *)
Definition tens := (seq nat * seq F)%type.

(* x[0] *)
Definition strip0 (x : tens) : tens := (behead x.1, take (prodn (behead x.1)) x.2).

(* initial_vectors: None | Some c (c = number of columns) *)
Definition has_probe_dim (iv : option nat) : bool := if iv is Some c then 1 < c else false.

(* shape of `roots` as RootDecomposition returns it for an operator of batch shape bs, size n, Lanczos rank r *)
Definition roots_shape (iv : option nat) (bs : seq nat) (n r : nat) : seq nat :=
  (if iv is Some c then (if 1 < c then [:: c] else [::]) else [::]) ++ bs ++ [:: n; r].

(* _root_inv_decomposition:
     if initial_vectors is not None and initial_vectors.size(-1) > 1: add_to_cache(.., RootLinearOperator(roots[0]))
     else:                                                            add_to_cache(.., RootLinearOperator(roots)) *)
Definition root_inv_entry (iv : option nat) (roots : tens) : tens :=
  if has_probe_dim iv then strip0 roots else roots.

(* a rule that looks equivalent but is not: strip whenever initial vectors were given and `roots.dim() > 2` *)
Definition root_inv_entry_by_dim (iv : option nat) (roots : tens) : tens :=
  if (iv != None) && (2 < size roots.1) then strip0 roots else roots.

(* history of calls on one operator object, as far as the entry is concerned *)
Inductive hstep :=
| HRootInv (iv : option nat) (roots : tens)     (* root_inv_decomposition on the Lanczos path, `roots` as returned *)
| HRootDec (R : tens)                           (* root_decomposition(): R is what it computes IF the entry is absent *)
| HOther.                                       (* any call that does not touch the entry *)

Definition hist_step (c : option tens) (h : hstep) : option tens :=
  match h with
  | HRootInv iv roots => Some (root_inv_entry iv roots)
  | HRootDec R => if c is Some _ then c else Some R
  | HOther => c
  end.
Definition hist_run (hs : seq hstep) : option tens := foldl hist_step None hs.

(* the generic sampler on an operator of batch shape bs and size n whose entry holds x = (cs ++ [n; r], R):
   covar_root.matmul(randn(bs.., r, k)).permute(-1, ...); matmul broadcasts the root's batch shape cs against bs
   (modelled for cs a suffix of bs — missing leading dimensions —: member b reads member b mod prod cs) *)
Definition entry_cs (x : tens) : seq nat := take (size x.1 - 2) x.1.
Definition entry_r (x : tens) : nat := last 0 x.1.
Definition entry_member (x : tens) (b : nat) : nat := b %% prodn (entry_cs x).
Definition sample_entry (k : nat) (bs : seq nat) (n : nat) (x : tens) (z : seq F) : seq F :=
  let B := prodn bs in let r := entry_r x in
  t_last_to_first ar (B * n) k
    (tab3 B n k (fun b i t =>
       sumn_ ar (fun a => amul ar (rd x.2 ((entry_member x b * n + i) * r + a)) (rd z ((b * r + a) * k + t))) r)).

End ModelBatch.

(* ------------------------------------------------------------------ (4) the root METHOD chosen from the cache state
   _linear_operator.py  _choose_root_method: the first cached eigendecomposition wins, then a cached lanczos entry, then the
   size / fast_computations rule; root_decomposition(): cholesky -> CholLinearOperator(self.cholesky()) (falling back to
   'symeig' when the factorization raises), symeig / diagonalization -> evecs * evals.clamp_min(0.0).sqrt().unsqueeze(-2),
   lanczos -> self._root_decomposition(). *)
Inductive rmethod := RMSymeig | RMDiag | RMLanczos | RMCholesky.

(* which entries the memoize cache of the operator holds (any arguments) *)
Record cstate := MkCState { has_symeig : bool; has_diag : bool; has_lanczos : bool }.

Definition choose_root_method (st : sett) (c : cstate) (n : nat) : rmethod :=
  if has_symeig c then RMSymeig
  else if has_diag c then RMDiag
  else if has_lanczos c then RMLanczos
  else if (n <= max_chol st) || ~~ fast_root st then RMCholesky
  else RMLanczos.

Definition rmethod_code (m : rmethod) : nat :=
  match m with RMSymeig => 0 | RMDiag => 1 | RMLanczos => 2 | RMCholesky => 3 end.

Section ModelMethod.
Variable F : Type.
Variable ar : Arith F.
Notation rd := (rd ar).

(* evecs * flt(evals).sqrt().unsqueeze(-2):  w:(B, n) eigenvalues, Q:(B, n, n) eigenvectors in columns; the code's filter
   is clamp_min(0.0) *)
Definition eig_root (flt : F -> F) (B n : nat) (w Q : seq F) : seq F :=
  tab3 B n n (fun b i a => amul ar (rd Q ((b * n + i) * n + a)) (asqrt ar (flt (rd w (b * n + a))))).

(* what root_decomposition() returns for the method chosen (rank, root:(B, n, rank)); the ingredients that are results
   of other routines (eigendecompositions, Lanczos root) are inputs *)
Definition method_root (flt : F -> F) (m : rmethod) (B n : nat) (A : seq F)
           (sym dia : seq F * seq F) (lz : nat * seq F) (chol_fails : bool) : nat * seq F :=
  match m with
  | RMCholesky => if chol_fails then (n, eig_root flt B n sym.1 sym.2) else (n, chol_flat ar B n A)
  | RMSymeig => (n, eig_root flt B n sym.1 sym.2)
  | RMDiag => (n, eig_root flt B n dia.1 dia.2)
  | RMLanczos => lz
  end.

End ModelMethod.
