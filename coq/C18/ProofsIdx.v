(* C18 — index arithmetic of the flat row-major tensors, and finite-sum lemmas used by the sampler proofs.
   Model instantiated on an arbitrary real closed field F (exact arithmetic; R is an instance). *)
From mathcomp Require Import all_ssreflect all_algebra.
From mathcomp Require Import zify.
Require Import C18.Model.
Set Implicit Arguments.
Unset Strict Implicit.
Unset Printing Implicit Defensive.
Import GRing.Theory Num.Theory.
Local Open Scope ring_scope.

Section Idx.
Variable F : rcfType.

Definition RA : Arith F :=
  MkArith 0 1 +%R (fun x y => x - y) *%R (fun x y => x / y) Num.sqrt.

Notation rd := (@rd F RA).

Lemma sumn_big (f : nat -> F) k : sumn_ RA f k = \sum_(l < k) f l.
Proof. elim: k => [|k IH] /=; first by rewrite big_ord0. by rewrite big_ord_recr /= IH. Qed.

Lemma rd_mkseq (f : nat -> F) n i : (i < n)%N -> rd (mkseq f n) i = f i.
Proof. by move=> h; rewrite /Model.rd nth_mkseq. Qed.

Lemma lt_mul_add a A b n : (a < A)%N -> (b < n)%N -> (a * n + b < A * n)%N.
Proof. move=> h1 h2; nia. Qed.

Lemma divmod_a a d b : (b < d)%N -> ((a * d + b) %/ d)%N = a.
Proof. move=> h; rewrite divnMDl; last by lia. by rewrite divn_small // addn0. Qed.

Lemma divmod_b a d b : (b < d)%N -> ((a * d + b) %% d)%N = b.
Proof. by move=> h; rewrite modnMDl modn_small. Qed.

Lemma size_tab2 d1 d2 (f : nat -> nat -> F) : size (tab2 d1 d2 f) = (d1 * d2)%N.
Proof. by rewrite /tab2 size_mkseq. Qed.

Lemma size_tab3 d1 d2 d3 (f : nat -> nat -> nat -> F) : size (tab3 d1 d2 d3 f) = (d1 * d2 * d3)%N.
Proof. by rewrite /tab3 size_mkseq. Qed.

Lemma rd_tab2 d1 d2 (f : nat -> nat -> F) a b :
  (a < d1)%N -> (b < d2)%N -> rd (tab2 d1 d2 f) (a * d2 + b) = f a b.
Proof.
move=> ha hb; rewrite /tab2 rd_mkseq; last exact: lt_mul_add.
by rewrite divmod_a // divmod_b.
Qed.

Lemma rd_tab3 d1 d2 d3 (f : nat -> nat -> nat -> F) a b c :
  (a < d1)%N -> (b < d2)%N -> (c < d3)%N ->
  rd (tab3 d1 d2 d3 f) ((a * d2 + b) * d3 + c) = f a b c.
Proof.
move=> ha hb hc; rewrite /tab3 rd_mkseq; last first.
  by apply: lt_mul_add => //; apply: lt_mul_add.
have -> : (((a * d2 + b) * d3 + c) %/ (d2 * d3))%N = a.
  have -> : ((a * d2 + b) * d3 + c = a * (d2 * d3) + (b * d3 + c))%N by lia.
  by rewrite divmod_a //; apply: lt_mul_add.
by rewrite divmod_a // divmod_b // divmod_b.
Qed.

Lemma prodn_rcons bs nb : prodn (rcons bs nb) = (prodn bs * nb)%N.
Proof. rewrite /prodn; elim: bs => [|x s IH] /=; first by rewrite muln1 mul1n. by rewrite IH mulnA. Qed.

(* ------------------------------------------------------------------ sums *)

Lemma sum_delta_l n c (f : nat -> F) :
  (c < n)%N -> \sum_(x < n) (if c == x :> nat then f x else 0) = f c.
Proof.
move=> hc; rewrite (bigD1 (Ordinal hc)) //= eqxx big1 ?addr0 // => i hi.
case: eqP => // e; case/eqP: hi; apply: val_inj => /=; by rewrite e.
Qed.

Lemma sum_delta_r n c (f : nat -> F) :
  (c < n)%N -> \sum_(x < n) (if (x : nat) == c then f x else 0) = f c.
Proof.
move=> hc; rewrite -(sum_delta_l f hc); apply: eq_bigr => i _; by rewrite eq_sym.
Qed.

(* sum over a flat index a = j*d0 + a'  ==  double sum *)
Lemma sum_divmod nb d0 (h : nat -> nat -> F) :
  \sum_(a < nb * d0) h (a %/ d0)%N (a %% d0)%N = \sum_(j < nb) \sum_(a' < d0) h j a'.
Proof.
elim: nb => [|nb IH]; first by rewrite mul0n !big_ord0.
rewrite big_ord_recr /= -IH.
have -> : (nb.+1 * d0 = nb * d0 + d0)%N by lia.
rewrite big_split_ord /=; congr (_ + _).
apply: eq_bigr => i _.
have hi : (i < d0)%N by [].
by rewrite divmod_a // divmod_b.
Qed.

(* only the block j survives *)
Lemma sum_block nb d0 j (g : nat -> F) :
  (j < nb)%N ->
  \sum_(a < nb * d0) (if j == (a %/ d0)%N then g (a %% d0)%N else 0) = \sum_(a' < d0) g a'.
Proof.
move=> hj.
rewrite (sum_divmod nb d0 (fun u a' => if j == u then g a' else 0)).
rewrite (bigD1 (Ordinal hj)) //= eqxx [X in _ + X]big1 ?addr0 // => i hi.
rewrite big1 // => a _; case: eqP => // e; case/eqP: hi; apply: val_inj => /=; by rewrite e.
Qed.

End Idx.
