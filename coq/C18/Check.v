(* C18 — executable comparators used by the correspondence shards (gen/cases_*.v):
   the model on PrimFloat (binary64) against what the implementation did on the same inputs. *)
From mathcomp Require Import ssreflect ssrfun ssrbool eqtype ssrnat seq div.
From Coq Require Import PrimFloat.
Require Import C18.Model.
Set Implicit Arguments.
Unset Strict Implicit.

Definition ArF : Arith float :=
  MkArith 0%float 1%float PrimFloat.add PrimFloat.sub PrimFloat.mul PrimFloat.div PrimFloat.sqrt.

Definition fmax (a b : float) : float := if PrimFloat.ltb a b then b else a.
(* |a-b| <= tol * max(1,|a|,|b|) ; false as soon as a NaN is involved *)
Definition close (tol a b : float) : bool :=
  PrimFloat.leb (PrimFloat.abs (PrimFloat.sub a b))
                (PrimFloat.mul tol (fmax 1%float (fmax (PrimFloat.abs a) (PrimFloat.abs b)))).
Fixpoint all_close (tol : float) (x y : seq float) : bool :=
  match x, y with
  | [::], [::] => true
  | a :: x', b :: y' => close tol a b && all_close tol x' y'
  | _, _ => false
  end.

(* the number of noise entries of every randn call must agree; the way the request groups its axes is an
   internal choice (BlockDiag(Diag) is constructed as one Diag operator and asks for (k,b,nb*n) not (k,b,nb,n)) *)
Fixpoint shapes_agree (m : seq (option (seq nat))) (o : seq (seq nat)) : bool :=
  match m, o with
  | [::], [::] => true
  | Some s :: m', s' :: o' => (prodn s == prodn s') && shapes_agree m' o'
  | None :: m', _ :: o' => shapes_agree m' o'
  | _, _ => false
  end.

Record case := MkCase {
  c_st : sett;
  c_k : nat;
  c_e : sx float;
  c_opaque : bool;                 (* the sampler contains a CIQ leaf: the model has no value for it *)
  c_zs : seq (seq float);          (* the tensors the patched torch.randn returned, in call order *)
  c_shapes : seq (seq nat);        (* the shapes it was asked for *)
  c_out_shape : seq nat;           (* shape of the returned draws *)
  c_samples : seq float;           (* the returned draws (flat) *)
  c_root : option (seq float);     (* the linear map reconstructed from unit noise, layout (B, n, nd) *)
  c_den : seq float;               (* independent dense oracle, (B, n, n) *)
  c_tol : float
}.

(* Evaluation sharing.  Model.root / nd / alg_sample call gen_root at every entry they compute, and vm_compute does not
   memoise: a Cholesky leaf under Block / SumBatch nodes was refactorised once per entry of the root table (one quick
   cell took 105 s).  norm replaces the root kind of every generic leaf by the root gen_root returns for it, computed
   ONCE (RGiven r R); by norm_rk_root the leaf's gen_root — the only thing root / nd / alg_sample / noise_shapes read
   from a leaf's root kind — is unchanged. *)
Section Norm.
Variables (F : Type) (ar : Arith F) (st : sett).

Definition norm_rk (B n : nat) (A : seq F) (rk : rootkind F) : rootkind F :=
  if ciq_on st || (n == 1) then rk
  else match gen_root ar st B n A rk with Some (r, R) => RGiven r R | None => rk end.

Lemma norm_rk_root B n A rk : gen_root ar st B n A (norm_rk B n A rk) = gen_root ar st B n A rk.
Proof.
rewrite /norm_rk; case hc: (ciq_on st) => //=; case hn: (n == 1) => //=.
rewrite /gen_root /gen_method hc hn.
case: rk => [lz|r R] //=.
case: ifP => _ //=.
by case: lz => [[r R]|].
Qed.

Fixpoint norm (e : sx F) : sx F :=
  match e with
  | SGen bs n A rk => SGen bs n A (norm_rk (prodn bs) n A rk)
  | SBlockDiag bs nb c => SBlockDiag bs nb (norm c)
  | SBlockInter bs nb c => SBlockInter bs nb (norm c)
  | SSumBatch bs nb c => SSumBatch bs nb (norm c)
  | SInterp bs m q li lv ri rv c => SInterp bs m q li lv ri rv (norm c)
  | SAdd l r => SAdd (norm l) (norm r)
  | _ => e
  end.
End Norm.

(* 0 = agreement; otherwise the first failing comparison:
   1 wf   2 randn shapes   3 output shape   4 model has no value   5 draws   6 root   7 dense meaning *)
Definition check (c : case) : nat :=
  let st := c_st c in let e0 := c_e c in let k := c_k c in
  if ~~ wf ArF st e0 then 1 else
  let e := norm ArF st e0 in
  if ~~ shapes_agree (noise_shapes ArF st k e) (c_shapes c) then 2
  else if ~~ (out_shape k e == c_out_shape c) then 3
  else if ~~ all_close (c_tol c) (den_tab ArF e) (c_den c) then 7
  else if c_opaque c then 0
  else match alg_sample ArF st k e (c_zs c) with
       | None => 4
       | Some s =>
           if ~~ all_close (c_tol c) s (c_samples c) then 5
           else match c_root c with
                | None => 0
                | Some R => if all_close (c_tol c) (root_tab ArF st e) R then 0 else 6
                end
       end.

Fixpoint bad_cases (cs : seq case) (i : nat) : seq nat :=
  match cs with
  | [::] => [::]
  | c :: r => let code := check c in
              if code == 0 then bad_cases r i.+1 else (i * 8 + code) :: bad_cases r i.+1
  end.

(* ------------------------------------------------------------------ CIQ broadcast (ModelBatch.t_expand_lead)
   what contour_integral_quad handed to MINRES for a right-hand side with an extra leading sample axis
   (W:(Q,k,B), S:(Q+1,k,B)) against the rule it builds for the first slice alone (w:(Q,B), sh:(Q+1,B)) *)
Require Import C18.ModelBatch.

Record ciqcase := MkCiq {
  q_Q : nat; q_k : nat; q_B : nat;
  q_w : seq float; q_sh : seq float;
  q_W : seq float; q_S : seq float;
  q_tol : float
}.

(* entrywise RELATIVE comparison |a-b| <= tol * max(|a|,|b|) (exact zeros, e.g. the unshifted row of the shifts, must
   agree exactly): the quadrature weights / shifts scale with each member's own spectrum, and the reference rule is only
   reproducible up to the solver round-off of the (preconditioned) eigenvalue estimate — a rule taken from ANOTHER member
   differs by O(1) relative *)
Definition close_rel (tol a b : float) : bool :=
  PrimFloat.leb (PrimFloat.abs (PrimFloat.sub a b))
                (PrimFloat.mul tol (fmax (PrimFloat.abs a) (PrimFloat.abs b))).
Fixpoint all_close_rel (tol : float) (x y : seq float) : bool :=
  match x, y with
  | [::], [::] => true
  | a :: x', b :: y' => close_rel tol a b && all_close_rel tol x' y'
  | _, _ => false
  end.

(* 0 = agreement; 1 sizes of the per-member rule; 2 weights; 3 shifts *)
Definition check_ciq (c : ciqcase) : nat :=
  if ~~ ((size (q_w c) == q_Q c * q_B c) && (size (q_sh c) == (q_Q c).+1 * q_B c)) then 1
  else if ~~ all_close_rel (q_tol c) (t_expand_lead ArF (q_Q c) (q_k c) (q_B c) (q_w c)) (q_W c) then 2
  else if ~~ all_close_rel (q_tol c) (t_expand_lead ArF (q_Q c).+1 (q_k c) (q_B c) (q_sh c)) (q_S c) then 3
  else 0.

Fixpoint bad_ciq (cs : seq ciqcase) (i : nat) : seq nat :=
  match cs with
  | [::] => [::]
  | c :: r => let code := check_ciq c in
              if code == 0 then bad_ciq r i.+1 else (i * 8 + code) :: bad_ciq r i.+1
  end.

(* ------------------------------------------------------------------ the root-method table (ModelBatch.choose_root_method)
   against LinearOperator._choose_root_method probed on a real operator whose memoize cache holds the given entries *)
Record methcase := MkMeth { m_st : sett; m_c : cstate; m_n : nat; m_obs : nat }.

Fixpoint bad_meth (cs : seq methcase) (i : nat) : seq nat :=
  match cs with
  | [::] => [::]
  | c :: r => if rmethod_code (choose_root_method (m_st c) (m_c c) (m_n c)) == m_obs c then bad_meth r i.+1
              else (i * 8 + 1) :: bad_meth r i.+1
  end.
