(* C18 — batch / sample index layout for all batch shapes, the CIQ broadcast, and the root cache under histories. *)
From mathcomp Require Import all_ssreflect all_algebra.
From mathcomp Require Import zify.
Require Import C18.Model C18.ModelBatch C18.ProofsIdx C18.ProofsLinear C18.ProofsGram C18.ProofsChol.
Set Implicit Arguments.
Unset Strict Implicit.
Unset Printing Implicit Defensive.
Import GRing.Theory Num.Theory.
Local Open Scope ring_scope.

(* ------------------------------------------------------------------ (1) ravel / unravel *)
Section Ravel.

Lemma prodn_cons d s : prodn (d :: s) = (d * prodn s)%N.
Proof. by []. Qed.

Lemma prodn_cat s1 s2 : prodn (s1 ++ s2) = (prodn s1 * prodn s2)%N.
Proof. elim: s1 => [|d s IH]; first by rewrite /prodn /= mul1n. by rewrite cat_cons !prodn_cons IH mulnA. Qed.

Lemma in_shape_size shape idx : in_shape shape idx -> size idx = size shape.
Proof.
elim: shape idx => [|d s IH] [|i idx] //= /andP [_ h]; by rewrite (IH _ h).
Qed.

Lemma ravel_lt shape idx : in_shape shape idx -> (ravel shape idx < prodn shape)%N.
Proof.
elim: shape idx => [|d s IH] [|i idx] //= /andP [hi h].
rewrite -/(prodn s); have := IH _ h; nia.
Qed.

Lemma ravel_inj shape idx idx' :
  in_shape shape idx -> in_shape shape idx' -> ravel shape idx = ravel shape idx' -> idx = idx'.
Proof.
elim: shape idx idx' => [|d s IH] [|i idx] [|i' idx'] //= /andP [hi h] /andP [hi' h'] e.
have l := ravel_lt h; have l' := ravel_lt h'.
have ei : i = i' by nia.
have er : ravel s idx = ravel s idx' by nia.
by rewrite ei (IH _ _ h h' er).
Qed.

Lemma unravel_in_shape shape x : (x < prodn shape)%N -> in_shape shape (unravel shape x).
Proof.
elim: shape x => [|d s IH] x //=; rewrite -/(prodn s) => hx.
have hP : (0 < prodn s)%N by case: (prodn s) hx => //; rewrite muln0.
by rewrite ltn_divLR // hx /= IH // ltn_mod.
Qed.

Lemma ravel_unravel shape x : (x < prodn shape)%N -> ravel shape (unravel shape x) = x.
Proof.
elim: shape x => [|d s IH] x /=; first by rewrite /prodn /= ltnS leqn0 => /eqP ->.
rewrite -/(prodn s) => hx.
have hP : (0 < prodn s)%N by case: (prodn s) hx => //; rewrite muln0.
by rewrite IH ?ltn_mod // -divn_eq.
Qed.

Lemma unravel_ravel shape idx : in_shape shape idx -> unravel shape (ravel shape idx) = idx.
Proof.
elim: shape idx => [|d s IH] [|i idx] //= /andP [hi h].
have l := ravel_lt h.
by rewrite divmod_a // divmod_b // IH.
Qed.

Lemma in_shape_cat s1 s2 i1 i2 :
  size i1 = size s1 -> in_shape (s1 ++ s2) (i1 ++ i2) = in_shape s1 i1 && in_shape s2 i2.
Proof.
elim: s1 i1 => [|d s IH] [|i i1] //= [e]; by rewrite IH // andbA.
Qed.

Lemma ravel_cat s1 s2 i1 i2 :
  size i1 = size s1 -> ravel (s1 ++ s2) (i1 ++ i2) = (ravel s1 i1 * prodn s2 + ravel s2 i2)%N.
Proof.
elim: s1 i1 => [|d s IH] [|i i1] //= [e]; rewrite IH // prodn_cat; lia.
Qed.

(* address of draw t, batch member idx, coordinate i in the returned tensor of shape (k, batch.., n) *)
Lemma ravel_sample bs idx k n t i :
  in_shape bs idx -> ravel (k :: bs ++ [:: n]) (t :: idx ++ [:: i]) = ((t * prodn bs + ravel bs idx) * n + i)%N.
Proof.
move=> h; rewrite /= ravel_cat ?(in_shape_size h) // prodn_cat /= /prodn /= !muln1 addn0; lia.
Qed.

(* address of entry (a, t) of member idx in a tensor of shape (batch.., r, k) *)
Lemma ravel_inner bs idx r k a t :
  in_shape bs idx -> ravel (bs ++ [:: r; k]) (idx ++ [:: a; t]) = ((ravel bs idx * r + a) * k + t)%N.
Proof.
move=> h; rewrite ravel_cat ?(in_shape_size h) //= /prodn /= !muln1 addn0; lia.
Qed.

End Ravel.

(* ------------------------------------------------------------------ the sampler's map, batch member by batch member,
   addressed with the real multi-dimensional indices of the returned tensor of shape (k, batch.., n) *)
Section LinearNd.
Variable F : rcfType.
Variable st : sett.
Notation RA := (RA F).

Theorem sample_linear_nd k (e : sx F) zs s :
  wf RA st e -> noise_ok RA st k e zs -> alg_sample RA st k e zs = Some s ->
  size s = prodn (k :: bshape e ++ [:: NN e]) /\
  forall t idx i, (t < k)%N -> in_shape (bshape e) idx -> (i < NN e)%N ->
    rd RA s (ravel (k :: bshape e ++ [:: NN e]) (t :: idx ++ [:: i])) =
    \sum_(a < nd RA st e) root RA st e (ravel (bshape e) idx) i a * coord RA st k e zs (ravel (bshape e) idx) a t.
Proof.
move=> hw hz hs; case: (sample_linear hw hz hs) => hsz h; split.
  by rewrite hsz /BB /prodn /= -!/(prodn _) prodn_cat /prodn /= muln1 mulnA.
move=> t idx i ht hidx hi; rewrite ravel_sample //.
by apply: h => //; exact: ravel_lt.
Qed.

(* every in-range flat position of the returned tensor is such an address (the multi-index view loses nothing) *)
Lemma sample_positions k bs n x :
  (x < prodn (k :: bs ++ [:: n]))%N ->
  exists t idx i, [/\ (t < k)%N, in_shape bs idx, (i < n)%N & x = ravel (k :: bs ++ [:: n]) (t :: idx ++ [:: i])].
Proof.
move=> hx0.
have hx : (x < k * (prodn bs * n))%N by move: hx0; rewrite prodn_cons prodn_cat /prodn /= muln1.
set B := prodn bs in hx.
have hBn : (0 < B * n)%N by move: hx; case: (B * n)%N => //; rewrite muln0.
have hn : (0 < n)%N by move: hBn; rewrite muln_gt0 => /andP [].
have hb : (x %% (B * n) %/ n < B)%N by rewrite ltn_divLR // ltn_mod.
exists (x %/ (B * n))%N, (unravel bs (x %% (B * n) %/ n)), (x %% (B * n) %% n)%N.
split; [by rewrite ltn_divLR | exact: unravel_in_shape | by rewrite ltn_mod |].
rewrite ravel_sample ?ravel_unravel //; last exact: unravel_in_shape.
rewrite -/B mulnDl -mulnA -addnA -divn_eq -divn_eq //.
Qed.

End LinearNd.

(* ------------------------------------------------------------------ (2) CIQ: the per-member quadrature rule reaches
   exactly the draws of its own member, for every sample index *)
Section Ciq.
Variable F : rcfType.
Notation RA := (RA F).
Notation rd := (@rd F RA).

Lemma amulE (x y : F) : amul RA x y = x * y.
Proof. by []. Qed.

Lemma rd_expand_lead Q k B (x : seq F) q t b :
  (q < Q)%N -> (t < k)%N -> (b < B)%N ->
  rd (t_expand_lead RA Q k B x) (q * (k * B) + (t * B + b)) = rd x (q * B + b).
Proof.
move=> hq ht hb.
have -> : (q * (k * B) + (t * B + b) = (q * k + t) * B + b)%N by lia.
by rewrite /t_expand_lead rd_tab3.
Qed.

Theorem ciq_linear (res : nat -> F -> nat -> nat -> F) Q k B n (w sh z : seq F) :
  size (ciq_sample RA res Q k B n w sh z) = (k * B * n)%N /\
  forall t b i, (t < k)%N -> (b < B)%N -> (i < n)%N ->
    rd (ciq_sample RA res Q k B n w sh z) ((t * B + b) * n + i) =
    \sum_(j < n) ciq_root RA res Q B w sh b i j * rd z ((b * n + j) * k + t).
Proof.
split; first by rewrite /ciq_sample /ciq_sample_with size_tab2.
move=> t b i ht hb hi.
have hp : (t * B + b < k * B)%N by exact: lt_mul_add.
rewrite /ciq_sample /ciq_sample_with rd_tab2 // sumn_big.
under eq_bigr => q _.
  have hq : (q < Q)%N by [].
  rewrite rd_tab3 // sumn_big rd_expand_lead // rd_expand_lead // divmod_b //.
  rewrite /Model.rd nth_drop -/(Model.rd RA sh _).
  have -> : (B + (q * B + b) = q.+1 * B + b)%N by lia.
  rewrite amulE mulr_suml.
  under eq_bigr => j _.
    have hj : (j < n)%N by [].
    have -> : ((t * B + b) * n + j = t * (B * n) + (b * n + j))%N by lia.
    rewrite amulE -/(Model.rd RA _ _) /t_last_to_first rd_tab2 //; last exact: lt_mul_add.
    over.
  over.
rewrite exchange_big /=; apply: eq_bigr => j _.
rewrite /ciq_root sumn_big mulr_suml; apply: eq_bigr => q _.
by rewrite amulE mulrAC; congr (_ * _); exact: mulrC.
Qed.

(* the `repeat_interleave(k).view(Q, k, B)` broadcast is a different function: with two members and two samples,
   draw 0 of member 1 is computed with member 0's weight *)
Theorem ciq_interleave_refuted :
  exists (res : nat -> F -> nat -> nat -> F) Q k B n (w sh z : seq F) t b i,
    [/\ (t < k)%N, (b < B)%N & (i < n)%N] /\
    [/\ size w = (Q * B)%N, size sh = (Q.+1 * B)%N & size z = (B * n * k)%N] /\
    rd (ciq_sample_with RA (t_interleave_view RA) res Q k B n w sh z) ((t * B + b) * n + i) !=
    \sum_(j < n) ciq_root RA res Q B w sh b i j * rd z ((b * n + j) * k + t).
Proof.
exists (fun _ _ _ _ => 1), 1%N, 2%N, 2%N, 1%N, [:: 1; 2%:R], [:: 0; 0; 0; 0], [:: 1; 1; 1; 1], 0%N, 1%N, 0%N.
split=> //; split=> //.
rewrite big_ord_recl big_ord0 /ciq_root /= /ciq_sample_with /t_interleave_view /tab3 /tab2 /= /Model.rd /=.
rewrite !mul1r !mulr1 !add0r !addr0.
by rewrite eq_sym -[1]/(1%:R) eqr_nat.
Qed.

End Ciq.

(* ------------------------------------------------------------------ (3) the 'root_decomposition' entry under histories *)
Section Cache.
Variable F : rcfType.
Variable st : sett.
Notation RA := (RA F).
Notation rd := (@rd F RA).

(* operator: batch shape bs, size n, dense members A:(B, n, n) *)
Variables (bs : seq nat) (n : nat) (A : seq F).
Let B := prodn bs.

(* per-member validity of a root R:(B, n, r) *)
Definition root_valid (r : nat) (R : seq F) : Prop :=
  forall b i j, (b < B)%N -> (i < n)%N -> (j < n)%N ->
    \sum_(a < r) rd R ((b * n + i) * r + a) * rd R ((b * n + j) * r + a) = rd A ((b * n + i) * n + j).

(* a stored entry is valid: it has the operator's own batch shape (so that the matmul broadcast is the identity on
   members) and every member's slice is a root of that member *)
Definition entry_valid (x : tens F) : Prop :=
  [/\ x.1 = bs ++ [:: n; entry_r x], size x.2 = (B * n * entry_r x)%N & root_valid (entry_r x) x.2].

(* what the history steps are assumed to deliver (C06 / C09): Lanczos roots of the shape RootDecomposition returns,
   whose FIRST probe is a valid root of every member; a valid result of root_decomposition() *)
Definition step_valid (h : hstep F) : Prop :=
  match h with
  | HRootInv iv roots =>
      exists r, [/\ roots.1 = roots_shape iv bs n r, size roots.2 = prodn roots.1 & root_valid r roots.2]
  | HRootDec R => entry_valid R
  | HOther => True
  end.

Lemma entry_r_shape (s : seq nat) r x : entry_r ((s ++ [:: n; r], x) : tens F) = r.
Proof. by rewrite /entry_r /= last_cat. Qed.

Lemma entry_cs_shape (s : seq nat) r x : entry_cs ((s ++ [:: n; r], x) : tens F) = s.
Proof. by rewrite /entry_cs /= size_cat /= addnK take_size_cat. Qed.

Lemma root_valid_take r R m : (B * n * r <= m)%N -> root_valid r R -> root_valid r (take m R).
Proof.
move=> hm h b i j hb hi hj; rewrite -h //; apply: eq_bigr => a _.
have ha : (a < r)%N by [].
have l1 : ((b * n + i) * r + a < B * n * r)%N by apply: lt_mul_add => //; apply: lt_mul_add.
have l2 : ((b * n + j) * r + a < B * n * r)%N by apply: lt_mul_add => //; apply: lt_mul_add.
by rewrite /Model.rd !nth_take //; lia.
Qed.

(* _root_inv_decomposition stores a valid entry, whatever the number of initial vectors *)
Lemma prodn_nr (s : seq nat) r : prodn (s ++ [:: n; r]) = (prodn s * n * r)%N.
Proof. by rewrite prodn_cat /prodn /= muln1 mulnA. Qed.

Lemma root_inv_entry_valid iv roots : step_valid (HRootInv iv roots) -> entry_valid (root_inv_entry iv roots).
Proof.
case: roots => sh dat [r [/= hs hsz hv]]; rewrite /root_inv_entry.
have plain : sh = bs ++ [:: n; r] -> entry_valid (sh, dat).
  move=> e; move: hsz; rewrite e prodn_nr => hsz.
  by split; rewrite /= ?entry_r_shape.
case: iv hs => [c|] /=; last exact: plain.
rewrite /roots_shape; case: ifP => hc; last exact: plain.
move=> e; move: hsz; rewrite e (_ : [:: c] ++ bs ++ [:: n; r] = c :: (bs ++ [:: n; r])) // prodn_cons prodn_nr -/B => hsz.
rewrite /strip0 /=; split; rewrite /= ?entry_r_shape //.
  rewrite prodn_nr -/B size_take hsz; case: ifP => // /negbT; rewrite -leqNgt => hle.
  nia.
by apply: root_valid_take => //; rewrite prodn_nr.
Qed.

Lemma hist_step_valid c h :
  (if c is Some x then entry_valid x else True) -> step_valid h ->
  if hist_step c h is Some x then entry_valid x else True.
Proof.
case: h => [iv roots|R|] //= hc hh; first exact: root_inv_entry_valid.
by case: c hc.
Qed.

(* after ANY history of calls whose individual results are valid, the entry the sampler will read is valid *)
Fixpoint steps_valid (hs : seq (hstep F)) : Prop :=
  if hs is h :: hs' then step_valid h /\ steps_valid hs' else True.

Lemma hist_fold_valid (hs : seq (hstep F)) c :
  (if c is Some x then entry_valid x else True) -> steps_valid hs ->
  if foldl (@hist_step F) c hs is Some x then entry_valid x else True.
Proof.
elim: hs c => [|h hs IH] c hc //= [hh hv].
by apply: IH => //; apply: hist_step_valid.
Qed.

Theorem hist_run_valid (hs : seq (hstep F)) :
  steps_valid hs -> if hist_run hs is Some x then entry_valid x else True.
Proof. exact: hist_fold_valid. Qed.

(* with a valid entry the broadcast in covar_root.matmul(randn(bs.., r, k)) is trivial: member b reads member b *)
Lemma entry_member_valid x b : entry_valid x -> (b < B)%N -> entry_member x b = b.
Proof.
case: x => sh dat [/= hs _ _] hb; rewrite /entry_member /entry_cs /=.
by rewrite hs size_cat /= addnK take_size_cat // modn_small.
Qed.

(* the sampler on a valid entry is the generic sampler of Model.v with that root given (so C18_sample_linear /
   C18_sample_root apply to it): draws[t, b, :] = R_b z_{b,t} with R_b R_b^T = A_b *)
Theorem sample_entry_linear k x (z : seq F) :
  entry_valid x ->
  size (sample_entry RA k bs n x z) = (k * B * n)%N /\
  forall t b i, (t < k)%N -> (b < B)%N -> (i < n)%N ->
    rd (sample_entry RA k bs n x z) ((t * B + b) * n + i) =
    \sum_(a < entry_r x) rd x.2 ((b * n + i) * entry_r x + a) * rd z ((b * entry_r x + a) * k + t).
Proof.
move=> hx; split; first by rewrite /sample_entry size_tab2 mulnA.
move=> t b i ht hb hi; rewrite /sample_entry -/B.
have -> : ((t * B + b) * n + i = t * (B * n) + (b * n + i))%N by lia.
rewrite /t_last_to_first rd_tab2 //; last exact: lt_mul_add.
by rewrite rd_tab3 // sumn_big entry_member_valid.
Qed.

Theorem sample_entry_gram x b i j :
  entry_valid x -> (b < B)%N -> (i < n)%N -> (j < n)%N ->
  \sum_(a < entry_r x) rd x.2 ((b * n + i) * entry_r x + a) * rd x.2 ((b * n + j) * entry_r x + a) =
  rd A ((b * n + i) * n + j).
Proof. by case=> _ _ hv hb hi hj; exact: hv. Qed.

(* ... and it is a valid generic leaf of the sampler expressions (not 1x1, CIQ off: the root branch is taken) *)
Theorem entry_leaf_ok x :
  entry_valid x -> ciq_on st = false -> n != 1%N -> size A = (B * n * n)%N ->
  wf RA st (SGen bs n A (RGiven (entry_r x) x.2)) /\ leaves_ok st (SGen bs n A (RGiven (entry_r x) x.2)).
Proof.
case=> hs hsz hv hc hn hA.
rewrite /= /gen_root /gen_method hc (negbTE hn) /= -/B hA hsz !eqxx; split=> //.
Qed.

End Cache.

(* the rule `initial_vectors is not None and roots.dim() > 2` is NOT equivalent: for a batch operator and a single
   initial vector it stores member 0's root without batch dimension, the matmul broadcast then hands member 0's
   root to every member *)
Section CacheRefute.
Variable F : rcfType.
Notation RA := (RA F).

Theorem root_inv_entry_by_dim_refuted :
  exists (bs : seq nat) (n : nat) (A : seq F) (iv : option nat) (roots : tens F) (z : seq F) (p : nat),
    step_valid bs n A (HRootInv iv roots) /\
    rd RA (sample_entry RA 1 bs n (root_inv_entry_by_dim iv roots) z) p !=
    rd RA (sample_entry RA 1 bs n (root_inv_entry iv roots) z) p.
Proof.
exists [:: 2%N], 2%N, [:: 1; 0; 0; 1; 4%:R; 0; 0; 4%:R], (Some 1%N),
       ([:: 2%N; 2%N; 2%N], [:: 1; 0; 0; 1; 2%:R; 0; 0; 2%:R]), [:: 1; 0; 1; 0], 2%N.
split.
  exists 2%N; split=> // b i j; rewrite /prodn /= muln1 => hb hi hj.
  rewrite big_ord_recl big_ord_recl big_ord0 /=.
  case: b hb => [|[|//]] _; case: i hi => [|[|//]] _; case: j hj => [|[|//]] _;
    rewrite /Model.rd /= ?mulr0 ?mul0r ?addr0 ?add0r ?mulr1 //; by rewrite -natrM.
rewrite /sample_entry /root_inv_entry_by_dim /root_inv_entry /strip0 /entry_member /entry_cs /entry_r /=.
rewrite /t_last_to_first /tab2 /tab3 /prodn /= /Model.rd /=.
rewrite !mulr0 !mul1r !mulr1 !add0r !addr0.
by rewrite -[1]/(1%:R) eqr_nat.
Qed.

End CacheRefute.

(* ------------------------------------------------------------------ the last step of the CIQ branch: K applied to each shifted solve.
   `K x = s x - b` is the same statement as `(s I - K) x = b`: the matmul can be replaced by that shortcut exactly when x is
   the exact resolvent applied to b — not for what a preconditioned MINRES returns before the preconditioner is undone. *)
Section CiqShortcut.
Variable F : rcfType.

Lemma ciq_shortcut_iff n (K : 'M[F]_n) (x b : 'cV[F]_n) (s : F) :
  (K *m x == s *: x - b) = ((s%:M - K) *m x == b).
Proof.
rewrite mulmxBl mul_scalar_mx.
by rewrite [LHS]eq_sym !subr_eq [K *m x + b]addrC.
Qed.

Lemma ciq_shortcut_refuted :
  exists (K : 'M[F]_1) (x b : 'cV[F]_1) (s : F), K *m x != s *: x - b.
Proof.
exists 1%:M, (const_mx 1), (const_mx 1), 1.
rewrite mul1mx scale1r subrr; apply/eqP => /matrixP /(_ ord0 ord0); rewrite !mxE => /eqP.
by rewrite oner_eq0.
Qed.

End CiqShortcut.


(* ------------------------------------------------------------------ (4) every selectable root method returns a true root
   of every batch member *)
Section Method.
Variable F : rcfType.
Notation RA := (RA F).
Notation rd := (@rd F RA).
Variables (bs : seq nat) (n : nat) (A : seq F).
Let B := prodn bs.

(* evals.clamp_min(0.0) *)
Definition clamp0 (x : F) : F := if 0 <= x then x else 0.

(* (w, Q): an eigendecomposition of every member, eigenvalues >= 0 (the operator is PSD) *)
Definition eig_valid (wQ : seq F * seq F) : Prop :=
  (forall b a, (b < B)%N -> (a < n)%N -> 0 <= rd wQ.1 (b * n + a)) /\
  (forall b i j, (b < B)%N -> (i < n)%N -> (j < n)%N ->
     \sum_(a < n) rd wQ.2 ((b * n + i) * n + a) * rd wQ.1 (b * n + a) * rd wQ.2 ((b * n + j) * n + a) =
     rd A ((b * n + i) * n + j)).

Lemma eig_root_valid wQ : eig_valid wQ -> root_valid bs n A n (eig_root RA clamp0 B n wQ.1 wQ.2).
Proof.
case=> hpos hdec b i j hb hi hj; rewrite -hdec //; apply: eq_bigr => a _.
have ha : (a < n)%N by [].
rewrite /eig_root !rd_tab3 //= /clamp0 hpos //.
by rewrite mulrACA -expr2 sqr_sqrtr ?hpos // mulrAC.
Qed.

Lemma chol_root_valid : chol_ok B n A -> root_valid bs n A n (chol_flat RA B n A).
Proof.
move=> hok b i j hb hi hj; case: (hok b hb) => hsym hp.
rewrite -[RHS]/(Ab n A b i j) -(chol_gram hsym hp hi hj); apply: eq_bigr => l _.
by rewrite !rd_chol_flat.
Qed.

Theorem every_method_root (st : sett) (c : cstate) sym dia lz chol_fails :
  eig_valid sym -> eig_valid dia -> root_valid bs n A lz.1 lz.2 -> (chol_fails = false -> chol_ok B n A) ->
  let rR := method_root RA clamp0 (choose_root_method st c n) B n A sym dia lz chol_fails in
  root_valid bs n A rR.1 rR.2.
Proof.
move=> hs hd hl hc; case: (choose_root_method st c n) => /=.
- exact: eig_root_valid.
- exact: eig_root_valid.
- exact: hl.
- case: chol_fails hc => hc /=; first exact: eig_root_valid.
  by apply: chol_root_valid; apply: hc.
Qed.

End Method.

(* a rank cut-off `evals > evals.max() * n * eps` with the max over the WHOLE batch is not a per-member filter: a valid
   eigendecomposition of a PSD batch whose second member is smaller than the first gets a zero root for that member *)
Section MethodRefute.
Variable F : rcfType.
Notation RA := (RA F).

Theorem eig_root_batch_cutoff_refuted :
  exists (bs : seq nat) (n : nat) (A : seq F) (wQ : seq F * seq F) (wmax eps : F),
    [/\ 0 < eps, eig_valid bs n A wQ, (forall x, x \in wQ.1 -> x <= wmax) &
        ~ root_valid bs n A n (eig_root RA (fun x => if wmax * n%:R * eps < x then x else 0) (prodn bs) n wQ.1 wQ.2)].
Proof.
exists [:: 2%N], 1%N, [:: 2%:R; 1], ([:: 2%:R; 1], [:: 1; 1]), 2%:R, 1.
split; first exact: ltr01.
- split.
    move=> b a; rewrite /prodn /= muln1 => hb; rewrite ltnS leqn0 => /eqP ->.
    by case: b hb => [|[|//]] _; rewrite /Model.rd /= ?ler0n ?ler01.
  move=> b i j; rewrite /prodn /= muln1 => hb; rewrite !ltnS !leqn0 => /eqP -> /eqP ->.
  rewrite big_ord_recl big_ord0 addr0.
  by case: b hb => [|[|//]] _; rewrite /Model.rd /= ?mul1r ?mulr1.
- move=> x; rewrite !inE => /orP [/eqP ->|/eqP ->] //.
  by rewrite -[1]/(1%:R) ler_nat.
move=> /(_ 1%N 0%N 0%N); rewrite /prodn /= => /(_ isT isT isT).
rewrite big_ord_recl big_ord0 addr0 /eig_root /tab3 /= /Model.rd /= !mulr1.
rewrite -[1]/(1%:R) ltr_nat /= sqrtr0 mulr0 mul0r => /eqP.
by rewrite eq_sym oner_eq0.
Qed.

End MethodRefute.
