(* C18 — matrix-level (MathComp 'M[F]) restatements, the expectation-free covariance identity, the layout
   lemma and the refutation witness for asymmetric interpolation. *)
From mathcomp Require Import all_ssreflect all_algebra.
From mathcomp Require Import zify.
Require Import C18.Model C18.ProofsIdx C18.ProofsLinear C18.ProofsGram.
Set Implicit Arguments.
Unset Strict Implicit.
Unset Printing Implicit Defensive.
Import GRing.Theory Num.Theory.
Local Open Scope ring_scope.

Section Mx.
Variable F : rcfType.
Variable st : sett.

Notation RA := (RA F).
Notation rd := (@rd F RA).

(* R_b : the n x nd matrix each batch member applies;  A_b : the dense covariance *)
Definition mx_root (e : sx F) (b : nat) : 'M[F]_(NN e, nd RA st e) := \matrix_(i, a) root RA st e b i a.
Definition mx_den (e : sx F) (b : nat) : 'M[F]_(NN e, NN e) := \matrix_(i, j) den RA e b i j.
(* Z_b : nd x k, column t = the standard-normal coordinates draw t of member b depends on *)
Definition mx_noise (k : nat) (e : sx F) (zs : seq (seq F)) (b : nat) : 'M[F]_(nd RA st e, k) :=
  \matrix_(a, t) coord RA st k e zs b a t.
(* S_b : n x k, column t = draw t of member b, read from the returned tensor of shape (k, batch.., n) *)
Definition mx_draws (k : nat) (e : sx F) (s : seq F) (b : nat) : 'M[F]_(NN e, k) :=
  \matrix_(i, t) rd s ((t * BB e + b) * NN e + i).

Theorem sample_root_mx (e : sx F) b :
  wf RA st e -> leaves_ok st e -> interp_sym e -> (b < BB e)%N ->
  mx_root e b *m (mx_root e b)^T = mx_den e b.
Proof.
move=> hw ho hs hb; apply/matrixP => i j; rewrite !mxE.
under eq_bigr => a _ do rewrite !mxE.
exact: (root_gram hw ho hs).
Qed.

Theorem sample_interp_mx (e : sx F) b :
  wf RA st e -> leaves_ok st e -> (b < BB e)%N ->
  mx_root e b *m (mx_root e b)^T = \matrix_(i, j) den RA (symmetrize e) b i j.
Proof.
move=> hw ho hb; apply/matrixP => i j; rewrite !mxE.
under eq_bigr => a _ do rewrite !mxE.
exact: (root_gram_left hw ho).
Qed.

Theorem sample_linear_mx k (e : sx F) zs s b :
  wf RA st e -> noise_ok RA st k e zs -> alg_sample RA st k e zs = Some s -> (b < BB e)%N ->
  size s = (k * BB e * NN e)%N /\ mx_draws k e s b = mx_root e b *m mx_noise k e zs b.
Proof.
move=> hw hz hs hb; case: (sample_linear hw hz hs) => hsz h; split=> //.
apply/matrixP => i t; rewrite !mxE h //.
by apply: eq_bigr => a _; rewrite !mxE.
Qed.

(* Covariance of a linear image of white noise, expectation-free: summing the outer products of the
   images of the basis vectors gives R R^T.  (For z with E[z z^T] = I:  E[(Rz)(Rz)^T] = R E[z z^T] R^T.) *)
Theorem cov_linear_image n d (R : 'M[F]_(n, d)) :
  \sum_(a < d) (R *m delta_mx a 0) *m (R *m (delta_mx a 0 : 'M[F]_(d, 1)))^T = R *m R^T.
Proof.
apply/matrixP => i j; rewrite summxE !mxE; apply: eq_bigr => a _.
rewrite -!colE !mxE big_ord_recl big_ord0 addr0 !mxE; by [].
Qed.

(* ... and for any second-moment matrix M of the noise: the draws' second moment is R M R^T *)
Theorem cov_linear_image_gen n d (R : 'M[F]_(n, d)) (M : 'M[F]_(d, d)) :
  \sum_(a < d) \sum_(c < d) M a c *: ((R *m delta_mx a 0) *m (R *m (delta_mx c 0 : 'M[F]_(d, 1)))^T) = R *m M *m R^T.
Proof.
apply/matrixP => i j; rewrite summxE !mxE.
under [RHS]eq_bigr => c _ do rewrite !mxE mulr_suml.
rewrite exchange_big /=; apply: eq_bigr => a _.
rewrite summxE; apply: eq_bigr => c _.
rewrite !mxE -!colE big_ord_recl big_ord0 addr0 !mxE.
by rewrite mulrCA mulrA.
Qed.

End Mx.

(* ------------------------------------------------------------------ layout: permute(-1, range..) *)
Section Layout.
Variable F : rcfType.
Notation RA := (RA F).

(* x of shape (batch.., n, k) (flat, B = prod batch)  |->  shape (k, batch.., n):
   out[t, b, i] = x[b, i, t], for every batch shape (flattened), n and k *)
Theorem layout_last_to_first B n k (x : seq F) :
  size (t_last_to_first RA (B * n) k x) = (k * B * n)%N /\
  forall t b i, (t < k)%N -> (b < B)%N -> (i < n)%N ->
    rd RA (t_last_to_first RA (B * n) k x) ((t * B + b) * n + i) = rd RA x ((b * n + i) * k + t).
Proof.
split; first by rewrite size_tab2 mulnA.
move=> t b i ht hb hi.
have -> : ((t * B + b) * n + i = t * (B * n) + (b * n + i))%N by lia.
by rewrite rd_tab2 //; apply: lt_mul_add.
Qed.

End Layout.

(* ------------------------------------------------------------------ asymmetric interpolation is sampled wrongly *)
Section Refute.
Variable F : rcfType.
Variable st : sett.
Notation RA := (RA F).

(* 1 x 1 example: base = Identity(1), W_l = [1], W_r = [2]:  the operator is the PSD matrix [2],
   the sampler returns z (covariance [1]). *)
Definition asym_ex : sx F := SInterp [::] 1 1 [:: 0%N] [:: 1] [:: 0%N] [:: 2%:R] (SIdent F [::] 1).

Lemma asym_ex_facts :
  wf RA st asym_ex /\ leaves_ok st asym_ex /\
  (forall z, exists s, alg_sample RA st 1 asym_ex [:: [:: z]] = Some s) /\
  gram st asym_ex 0 0 0 = 1 /\ den RA asym_ex 0 0 0 = 2%:R.
Proof.
split; first by [].
split; first by [].
split.
  by move=> z; eexists; rewrite /=; reflexivity.
split.
  rewrite /gram /= big_ord_recl big_ord0 /=.
  by rewrite /wmat /= !add0r !mulr1 addr0.
by rewrite /= /wmat /= !add0r !mul1r.
Qed.

Theorem interp_asymmetric_refuted :
  exists e : sx F, wf RA st e /\ leaves_ok st e /\
    (exists s, alg_sample RA st 1 e [:: [:: 1]] = Some s) /\
    gram st e 0 0 0 != den RA e 0 0 0.
Proof.
exists asym_ex; case: asym_ex_facts => hw [ho [hs [hg hd]]].
split=> //; split=> //; split; first exact: hs.
rewrite hg hd; have -> : (1 : F) = 1%:R by [].
by rewrite eqr_nat.
Qed.

End Refute.
