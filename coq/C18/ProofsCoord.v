(* C18 — the noise coordinates of a sampler are distinct, in-range entries of the randn tensors:
   `coord` is `rd` at the address `coord_idx`, the address map is injective on
   (batch member, coordinate, draw) and stays inside the tensors.  Together with sample_linear this says:
   with i.i.d. standard-normal randn entries, every draw of every batch member is R_b applied to its own,
   fresh, standard-normal vector (draws are independent across t and across batch members). *)
From mathcomp Require Import all_ssreflect all_algebra.
From mathcomp Require Import zify.
Require Import C18.Model C18.ProofsIdx C18.ProofsLinear.
Set Implicit Arguments.
Unset Strict Implicit.
Unset Printing Implicit Defensive.
Import GRing.Theory Num.Theory.
Local Open Scope ring_scope.

Section Coord.
Variable F : rcfType.
Variable st : sett.

Notation RA := (RA F).
Notation rd := (@rd F RA).
Notation nd := (@nd F RA st).
Notation coord := (@coord F RA st).
Notation coord_idx := (@coord_idx F RA st).
Notation wf := (@wf F RA st).
Notation noise_ok := (@noise_ok F RA st).

Lemma radix_inj n x a x' a' : (a < n)%N -> (a' < n)%N -> (x * n + a = x' * n + a')%N -> x = x' /\ a = a'.
Proof.
move=> h h' e; split.
  by rewrite -(divmod_a x h) e divmod_a.
by rewrite -(divmod_b x h) e divmod_b.
Qed.

Lemma coord_call_lt k (e : sx F) b a t : (a < nd e)%N -> ((coord_idx k e b a t).1 < ncalls e)%N.
Proof.
elim: e b a => [bs n d|bs n|bs n A rk|bs nb c IH|bs nb c IH|bs nb c IH|bs m q li lv ri rv c IH|bs n|l IHl r IHr] b a //=.
- move=> ha; apply: IH; have h0 : (0 < Model.nd RA st c)%N by case: (Model.nd RA st c) ha => //; rewrite muln0.
  by rewrite ltn_pmod.
- move=> ha; apply: IH; have h0 : (0 < Model.nd RA st c)%N by case: (Model.nd RA st c) ha => //; rewrite muln0.
  by rewrite ltn_pmod.
- move=> ha; apply: IH; have h0 : (0 < Model.nd RA st c)%N by case: (Model.nd RA st c) ha => //; rewrite muln0.
  by rewrite ltn_pmod.
- exact: IH.
- move=> ha; case: (ltnP a (Model.nd RA st l)) => hl /=.
    by have := IHl b a hl; lia.
  rewrite ltn_add2l; apply: IHr; lia.
Qed.

(* coord is a read at the address coord_idx *)
Lemma coordE k (e : sx F) zs b a t : (a < nd e)%N ->
  coord k e zs b a t = rd (nth [::] zs (coord_idx k e b a t).1) (coord_idx k e b a t).2.
Proof.
elim: e zs b a => [bs n d|bs n|bs n A rk|bs nb c IH|bs nb c IH|bs nb c IH|bs m q li lv ri rv c IH|bs n|l IHl r IHr] zs b a /=.
- by move=> _; rewrite nth0.
- by move=> _; rewrite nth0.
- by move=> _; rewrite nth0.
- move=> ha; apply: IH; have h0 : (0 < Model.nd RA st c)%N by case: (Model.nd RA st c) ha => //; rewrite muln0.
  by rewrite ltn_pmod.
- move=> ha; apply: IH; have h0 : (0 < Model.nd RA st c)%N by case: (Model.nd RA st c) ha => //; rewrite muln0.
  by rewrite ltn_pmod.
- move=> ha; apply: IH; have h0 : (0 < Model.nd RA st c)%N by case: (Model.nd RA st c) ha => //; rewrite muln0.
  by rewrite ltn_pmod.
- exact: IH.
- by [].
- move=> ha; case: (ltnP a (Model.nd RA st l)) => hl /=.
    by rewrite IHl // nth_take //; apply: coord_call_lt.
  by rewrite IHr ?nth_drop //; lia.
Qed.

Definition in_range k (e : sx F) (b a t : nat) : Prop := (b < BB e)%N /\ (a < nd e)%N /\ (t < k)%N.

Theorem coord_idx_inj k (e : sx F) : wf e ->
  forall b a t b' a' t', in_range k e b a t -> in_range k e b' a' t' ->
  coord_idx k e b a t = coord_idx k e b' a' t' -> [/\ b = b', a = a' & t = t'].
Proof.
elim: e => [bs n d|bs n|bs n A rk|bs nb c IH|bs nb c IH|bs nb c IH|bs m q li lv ri rv c IH|bs n|l IHl r IHr].
- move=> _ b a t b' a' t' [hb [ha ht]] [hb' [ha' ht']] /= [e].
  rewrite /BB /= in hb hb'; rewrite /= in ha ha'.
  case: (radix_inj ha ha' e) => e1 ->; by case: (radix_inj hb hb' e1) => -> ->.
- move=> _ b a t b' a' t' [hb [ha ht]] [hb' [ha' ht']] /= [e].
  rewrite /BB /= in hb hb'; rewrite /= in ha ha'.
  case: (radix_inj ha ha' e) => e1 ->; by case: (radix_inj hb hb' e1) => -> ->.
- move=> _ b a t b' a' t' [hb [ha ht]] [hb' [ha' ht']] /= [e].
  case: (radix_inj ht ht' e) => e1 ->; by case: (radix_inj ha ha' e1) => -> ->.
- move=> /= /andP [/eqP hbs hw] b a t b' a' t' [hb [ha ht]] [hb' [ha' ht']] e.
  rewrite /BB /= in hb hb'; rewrite /= in ha ha'.
  have h0 : (0 < Model.nd RA st c)%N by case: (Model.nd RA st c) ha => //; rewrite muln0.
  have hq : (a %/ Model.nd RA st c < nb)%N by rewrite ltn_divLR.
  have hq' : (a' %/ Model.nd RA st c < nb)%N by rewrite ltn_divLR.
  have BBc : BB c = (prodn bs * nb)%N by rewrite /BB hbs prodn_rcons.
  case: (IH hw _ _ _ _ _ _ _ _ e) => [||e1 e2 ->].
  + by split; [rewrite BBc; apply: lt_mul_add | split=> //; rewrite ltn_pmod].
  + by split; [rewrite BBc; apply: lt_mul_add | split=> //; rewrite ltn_pmod].
  case: (radix_inj hq hq' e1) => -> e3; split=> //.
  by rewrite (divn_eq a (Model.nd RA st c)) (divn_eq a' (Model.nd RA st c)) e2 e3.
- move=> /= /andP [/eqP hbs hw] b a t b' a' t' [hb [ha ht]] [hb' [ha' ht']] e.
  rewrite /BB /= in hb hb'; rewrite /= in ha ha'.
  have h0 : (0 < Model.nd RA st c)%N by case: (Model.nd RA st c) ha => //; rewrite muln0.
  have hq : (a %/ Model.nd RA st c < nb)%N by rewrite ltn_divLR.
  have hq' : (a' %/ Model.nd RA st c < nb)%N by rewrite ltn_divLR.
  have BBc : BB c = (prodn bs * nb)%N by rewrite /BB hbs prodn_rcons.
  case: (IH hw _ _ _ _ _ _ _ _ e) => [||e1 e2 ->].
  + by split; [rewrite BBc; apply: lt_mul_add | split=> //; rewrite ltn_pmod].
  + by split; [rewrite BBc; apply: lt_mul_add | split=> //; rewrite ltn_pmod].
  case: (radix_inj hq hq' e1) => -> e3; split=> //.
  by rewrite (divn_eq a (Model.nd RA st c)) (divn_eq a' (Model.nd RA st c)) e2 e3.
- move=> /= /andP [/eqP hbs hw] b a t b' a' t' [hb [ha ht]] [hb' [ha' ht']] e.
  rewrite /BB /= in hb hb'; rewrite /= in ha ha'.
  have h0 : (0 < Model.nd RA st c)%N by case: (Model.nd RA st c) ha => //; rewrite muln0.
  have hq : (a %/ Model.nd RA st c < nb)%N by rewrite ltn_divLR.
  have hq' : (a' %/ Model.nd RA st c < nb)%N by rewrite ltn_divLR.
  have BBc : BB c = (prodn bs * nb)%N by rewrite /BB hbs prodn_rcons.
  case: (IH hw _ _ _ _ _ _ _ _ e) => [||e1 e2 ->].
  + by split; [rewrite BBc; apply: lt_mul_add | split=> //; rewrite ltn_pmod].
  + by split; [rewrite BBc; apply: lt_mul_add | split=> //; rewrite ltn_pmod].
  case: (radix_inj hq hq' e1) => -> e3; split=> //.
  by rewrite (divn_eq a (Model.nd RA st c)) (divn_eq a' (Model.nd RA st c)) e2 e3.
- move=> /= /andP [/eqP hbs /andP [_ /andP [_ /andP [_ /andP [_ /andP [_ /andP [_ hw]]]]]]] b a t b' a' t'.
  rewrite /in_range /BB /= => h h' e; apply: (IH hw) e; by rewrite /in_range /BB hbs.
- by move=> _ b a t b' a' t' [_ [ha _]].
- move=> /= /and4P [/eqP hb /eqP hn hwl hwr] b a t b' a' t'.
  rewrite /in_range /BB /= -!/(BB l) => -[hbb [ha ht]] [hbb' [ha' ht']].
  have hBr : BB r = BB l by rewrite /BB hb.
  case: (ltnP a (Model.nd RA st l)) => hl; case: (ltnP a' (Model.nd RA st l)) => hl' /=.
  + by apply: IHl.
  + move=> e; have := coord_call_lt k b t hl; rewrite e /=; lia.
  + move=> e; have := coord_call_lt k b' t' hl'; rewrite -e /=; lia.
  + move=> [e1 e2].
    have e : coord_idx k r b (a - Model.nd RA st l) t = coord_idx k r b' (a' - Model.nd RA st l) t'.
      by rewrite [LHS]surjective_pairing [RHS]surjective_pairing e2; congr (_, _); lia.
    case: (IHr hwr _ _ _ _ _ _ _ _ e) => [||-> e3 ->]; try (split; [by rewrite hBr | split=> //; lia]).
    split=> //; lia.
Qed.

Theorem coord_idx_in_range k (e : sx F) zs : wf e -> noise_ok k e zs ->
  forall b a t, in_range k e b a t ->
  ((coord_idx k e b a t).2 < size (nth [::] zs (coord_idx k e b a t).1))%N.
Proof.
elim: e zs => [bs n d|bs n|bs n A rk|bs nb c IH|bs nb c IH|bs nb c IH|bs m q li lv ri rv c IH|bs n|l IHl r IHr] zs.
- move=> _ /= /eqP hz b a t [hb [ha ht]]; rewrite nth0 hz; rewrite /BB /= in hb; rewrite /= in ha.
  by apply: idx_lt.
- move=> _ /= /eqP hz b a t [hb [ha ht]]; rewrite nth0 hz; rewrite /BB /= in hb; rewrite /= in ha.
  by apply: idx_lt.
- move=> _ /= /eqP hz b a t [hb [ha ht]]; rewrite nth0 hz; rewrite /BB /= in hb.
  by apply: idx_lt.
- move=> /= /andP [/eqP hbs hw] hz b a t [hb [ha ht]]; rewrite /BB /= in hb; rewrite /= in ha.
  have h0 : (0 < Model.nd RA st c)%N by case: (Model.nd RA st c) ha => //; rewrite muln0.
  apply: IH => //; split; last by split=> //; rewrite ltn_pmod.
  by rewrite /BB hbs prodn_rcons; apply: lt_mul_add => //; rewrite ltn_divLR.
- move=> /= /andP [/eqP hbs hw] hz b a t [hb [ha ht]]; rewrite /BB /= in hb; rewrite /= in ha.
  have h0 : (0 < Model.nd RA st c)%N by case: (Model.nd RA st c) ha => //; rewrite muln0.
  apply: IH => //; split; last by split=> //; rewrite ltn_pmod.
  by rewrite /BB hbs prodn_rcons; apply: lt_mul_add => //; rewrite ltn_divLR.
- move=> /= /andP [/eqP hbs hw] hz b a t [hb [ha ht]]; rewrite /BB /= in hb; rewrite /= in ha.
  have h0 : (0 < Model.nd RA st c)%N by case: (Model.nd RA st c) ha => //; rewrite muln0.
  apply: IH => //; split; last by split=> //; rewrite ltn_pmod.
  by rewrite /BB hbs prodn_rcons; apply: lt_mul_add => //; rewrite ltn_divLR.
- move=> /= /andP [/eqP hbs /andP [_ /andP [_ /andP [_ /andP [_ /andP [_ /andP [_ hw]]]]]]] hz b a t.
  by rewrite /in_range /BB /= => h; apply: IH => //; rewrite /in_range /BB hbs.
- by move=> _ _ b a t [_ [ha _]].
- move=> /= /and4P [/eqP hb /eqP hn hwl hwr] /andP [hzl hzr] b a t.
  rewrite /in_range {1}/BB /= -/(BB l) => -[hbb [ha ht]].
  case: (ltnP a (Model.nd RA st l)) => hl /=.
    have := IHl _ hwl hzl b a t; rewrite nth_take; last exact: coord_call_lt.
    by apply.
  have := IHr _ hwr hzr b (a - Model.nd RA st l)%N t; rewrite nth_drop; apply.
  by split; [rewrite /BB hb | split=> //; lia].
Qed.

End Coord.
