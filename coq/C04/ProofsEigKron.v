(* C04 — the executable eigen-shift kernel [eigshift_solve] (KroneckerProductAddedDiag._solve, constant diagonal) for any
   number of Kronecker factors: with orthogonal per-factor eigenvector matrices Q_i and eigenvalues w_i,
       (Qb diag(Wb) Qb^T + sigma I) * eigshift_solve … = rhs ,   Qb = ⊗ Q_i ,  Wb = ⊗ w_i ,
   and Qb diag(Wb) Qb^T = ⊗ (Q_i diag(w_i) Q_i^T)  (entrywise, [kron_eig_decomp]). *)
From mathcomp Require Import all_ssreflect all_algebra.
Require Import C04.Model C04.ProofsBridge C04.ProofsKron C04.ProofsEig C04.ProofsCholFactor.
Set Implicit Arguments.
Unset Strict Implicit.
Unset Printing Implicit Defensive.
Import Order.Theory GRing.Theory Num.Theory.
Local Open Scope ring_scope.

Section Forward.
Variable F : fieldType.
Variable sq : F -> F.
Variable lt : F -> F -> bool.
Local Notation FA := (FA sq lt).
Local Notation vget := (vget FA).
Local Notation get := (get FA).

(* the rotation applies the Kronecker product of square factor actions *)
Lemma kron_apply_mul fs (ops : seq (fac F)) c (X : cols F) I col :
  lin_acts sq lt fs ops -> allpos ops -> (0 < c)%N -> (I < prodm ops)%N -> (col < c)%N ->
  vget (nth [::] (kron_apply FA fs c X) col) I
  = \sum_(J < prodn ops) kron ops I J * vget (nth [::] X col) J.
Proof.
move=> la pos c0 IM colc.
have [h1 h2] := lin_acts_prod la.
set N := Model.prodm fs.
have IN : (I < N)%N by rewrite /N h1.
have bound (K : nat) : (K < N)%N -> (K * c + col < N * c)%N.
  by move=> KN; apply: (@leq_trans (K.+1 * c)); [rewrite mulSn [(c + _)%N]addnC ltn_add2l | rewrite leq_mul2r KN orbT].
rewrite /kron_apply -/N /cols_of_flat /Model.vget nth_mkseq // nth_mkseq // -/(Model.vget FA _ _).
rewrite (krun_run _ la pos c0); last by rewrite muln1 -h1; exact: bound.
have -> : (I * c + col = (0 * prodm ops + I) * c + col)%N by rewrite mul0n add0n.
rewrite (run_correct _ pos c0 (ltn0Sn 0) (ltn0Sn 0) IM colc).
apply: eq_bigr => J _; congr (_ * _).
have JN : (J < N)%N by rewrite /N h2.
rewrite muln1 addn0 /flat_of_cols /Model.vget nth_mkseq; last exact: bound.
by rewrite modnMDl modn_small // divnMDl // divn_small // addn0.
Qed.

Lemma matvec_lin_act m (M : mat F) : lin_act sq lt m (matvec FA m m M) (get M).
Proof. by move=> v i im; rewrite /matvec vget_vtab // sumn_big. Qed.

End Forward.

Section EigKron.
Variable F : rcfType.
Local Notation RA := (FA (@rsq F) (@rlt F)).
Local Notation vget := (vget RA).
Local Notation get := (get RA).

Definition eigd := (nat * mat F * vec F)%type.            (* (m, Q, w) *)
Definition qfac (e : eigd) : fac F := Fac e.1.1 e.1.1 (get e.1.2).
Definition qtfac (e : eigd) : fac F := Fac e.1.1 e.1.1 (get (trm RA e.1.1 e.1.2)).

(* per-factor oracle specification used here: positive size, Q^T Q = I, one eigenvalue per column *)
Definition eig_wf (e : eigd) : Prop :=
  [/\ (0 < e.1.1)%N, size e.2 = e.1.1
    & forall i l, (i < e.1.1)%N -> (l < e.1.1)%N ->
        \sum_(a < e.1.1) get e.1.2 a i * get e.1.2 a l = (i == l)%:R].
Fixpoint all_eig_wf (es : seq eigd) : Prop := if es is e :: es' then eig_wf e /\ all_eig_wf es' else True.

Lemma q_lin_acts es : lin_acts (@rsq F) (@rlt F) (map (fun e : eigd => (e.1.1, matvec RA e.1.1 e.1.1 e.1.2)) es) (map qfac es).
Proof. by elim: es => [|e es IH] //=; split=> //; exact: matvec_lin_act. Qed.
Lemma qt_lin_acts es :
  lin_acts (@rsq F) (@rlt F) (map (fun e : eigd => (e.1.1, matvec RA e.1.1 e.1.1 (trm RA e.1.1 e.1.2))) es) (map qtfac es).
Proof. by elim: es => [|e es IH] //=; split=> //; exact: matvec_lin_act. Qed.

Lemma q_allpos es : all_eig_wf es -> allpos (map qfac es) /\ allpos (map qtfac es).
Proof. by elim: es => [|e es IH] //= [[m0 _ _] /IH [-> ->]]; rewrite m0. Qed.

Lemma qt_q_inv es : all_eig_wf es -> inv_pairs (map qtfac es) (map qfac es).
Proof.
elim: es => [|e es IH] //= [[m0 sw orth] /IH h]; split=> // i l im lm.
by rewrite -(orth i l im lm); apply: eq_bigr => a _; rewrite get_mtab.
Qed.

Lemma prod_q es : prodm (map qfac es) = foldr (fun (e : eigd) p => e.1.1 * p)%N 1%N es
               /\ prodn (map qfac es) = prodm (map qfac es)
               /\ prodm (map qtfac es) = prodm (map qfac es) /\ prodn (map qtfac es) = prodm (map qfac es).
Proof.
rewrite /prodm /prodn !big_map; split; last by [].
by elim: es => [|e es IH] /=; rewrite ?big_nil ?big_cons // IH.
Qed.

(* kron of the transposed factors is the transposed kron *)
Lemma kron_qt es I J : all_eig_wf es -> (I < prodm (map qfac es))%N -> (J < prodm (map qfac es))%N ->
  kron (map qtfac es) I J = kron (map qfac es) J I.
Proof.
elim: es I J => [|e es IH] I J //= [[m0 _ _] wf].
have [_ [pn [ptm ptn]]] := prod_q es.
have [pos _] := q_allpos wf. have P0 := prodm_gt0 pos.
rewrite /prodm big_cons -/(prodm _) => IM JM.
rewrite -/(prodm (map qtfac es)) ptm ptn pn IH ?ltn_mod // get_mtab // ltn_divLR // mulnC //.
Qed.

Lemma size_kron_evals (ws : seq (vec F)) : size (kron_evals RA ws) = foldr (fun w p => size w * p)%N 1%N ws.
Proof.
elim: ws => [|w ws IH] //=; rewrite size_flatten /shape -map_comp.
rewrite (eq_map (f2 := fun _ => size (kron_evals RA ws))); last by move=> x /=; rewrite size_map.
by rewrite IH; elim: (w) => [|x l ih] //=; rewrite ih mulSn.
Qed.

(* THE KERNEL.  Qb = ⊗ Q_i (entries kron …), Wb = the list kron_evals of the w_i *)
Theorem eigshift_solve_correct (es : seq eigd) (sigma : F) c (X : cols F) col :
  all_eig_wf es -> (0 < c)%N -> (col < c)%N ->
  let N := prodm (map qfac es) in
  let Qb : 'M[F]_N := \matrix_(I, J) kron (map qfac es) I J in
  let Wb : 'rV[F]_N := \row_J vget (kron_evals RA (map snd es)) J in
  (forall J : 'I_N, 0 < Wb 0 J + sigma) ->
  (Qb *m diag_mx Wb *m Qb^T + sigma%:M) *m cv_of (@rsq F) (@rlt F) N (nth [::] (eigshift_solve RA es sigma c X) col)
  = cv_of (@rsq F) (@rlt F) N (nth [::] X col).
Proof.
move=> wf c0 colc N Qb Wb pos.
have [pN [pn [ptm ptn]]] := prod_q es.
have [posq posqt] := q_allpos wf.
have QtQ : Qb^T *m Qb = 1%:M.
  apply/matrixP => I L; rewrite !mxE.
  under eq_bigr => J _ do rewrite !mxE -(kron_qt wf (ltn_ord I) (ltn_ord J)).
  rewrite -(inj_eq val_inj) /= -(@kron_inv_delta _ (map qtfac es) (map qfac es)) ?ptm ?ptn //; exact: qt_q_inv.
rewrite -[RHS](eigshift_identity QtQ pos); congr (_ *m _).
(* the kernel computes Qb S (S (Qb^T x)) *)
rewrite /eigshift_solve -pN -/N.
set sv := map _ (kron_evals RA _).
set Y := kron_apply RA _ c X.
have sY : size Y = c by rewrite /Y /kron_apply /cols_of_flat size_mkseq.
have ssv : size sv = N.
  rewrite size_map size_kron_evals /N pN.
  by elim: (es) wf => [|e l ih] //= [[_ -> _] /ih ->].
apply/colP => I; rewrite mxE.
rewrite (kron_apply_mul _ (q_lin_acts es) posq c0 (ltn_ord I) colc) pn -/N.
rewrite -!mulmxA mxE; apply: eq_bigr => J _; rewrite mxE; congr (_ * _).
rewrite (nth_map [::]); last by rewrite size_map sY.
rewrite (nth_map [::]); last by rewrite sY.
rewrite {1}/Model.vget nth_mkseq // /Model.vget (nth_mkseq _ _ (ltn_ord J)) /=.
rewrite -/(Model.vget RA (nth [::] Y col) J).
have svJ : nth 0 sv J = (sinv Wb sigma) 0 J.
  rewrite /sv (nth_map 0); last by move: ssv; rewrite /sv size_map => ->.
  by rewrite /sinv !mxE /= div1r.
rewrite svJ !mul_diag_mx !mxE /=; congr (_ * (_ * _)).
have JM : (J < prodm (map qtfac es))%N by rewrite ptm.
rewrite /Y (kron_apply_mul _ (qt_lin_acts es) posqt c0 JM colc) ptn -/N.
by apply: eq_bigr => L _; rewrite !mxE (kron_qt wf).
Qed.

(* ---------------------------------------------------------------- Qb diag(Wb) Qb^T is the Kronecker product of the
   factor matrices K_i = Q_i diag(w_i) Q_i^T *)
Definition dfac (e : eigd) : fac F := Fac e.1.1 e.1.1 (fun i j => if i == j then vget e.2 i else 0).

Definition wsize (ws : seq (vec F)) : nat := foldr (fun w p => size w * p)%N 1%N ws.
Fixpoint evf (ws : seq (vec F)) (J : nat) : F :=
  if ws is w :: ws' then vget w (J %/ wsize ws') * evf ws' (J %% wsize ws') else 1.

Lemma nth_flatten_unif (ss : seq (seq F)) k a b : all (fun s => size s == k) ss -> (b < k)%N ->
  nth 0 (flatten ss) (a * k + b) = nth 0 (nth [::] ss a) b.
Proof.
elim: ss a => [|s ss IH] a /=; first by rewrite !nth_nil.
case/andP => /eqP sk al bk; rewrite nth_cat sk; case: a => [|a] /=; first by rewrite mul0n add0n bk.
by rewrite mulSn -addnA ltnNge leq_addr /= addKn; exact: IH.
Qed.

Lemma wsize_gt0 ws : all (fun w => 0 < size w)%N ws -> (0 < wsize ws)%N.
Proof. by elim: ws => [|w ws IH] //= /andP[w0 /IH h]; rewrite muln_gt0 w0. Qed.

Lemma nth_kron_evals ws J : all (fun w => 0 < size w)%N ws -> (J < wsize ws)%N ->
  nth 0 (kron_evals RA ws) J = evf ws J.
Proof.
elim: ws J => [|w ws IH] J /=; first by rewrite ltnS leqn0 => _ /eqP ->.
case/andP => w0 pos JM.
have P0 := wsize_gt0 pos.
have aw : (J %/ wsize ws < size w)%N by rewrite ltn_divLR // mulnC.
have bP : (J %% wsize ws < wsize ws)%N by rewrite ltn_mod.
rewrite [in LHS](divn_eq J (wsize ws)).
rewrite (@nth_flatten_unif _ (wsize ws)) //; last first.
  by apply/allP => s /mapP[x _ ->]; rewrite size_map size_kron_evals.
rewrite (nth_map 0) // (nth_map 0) ?size_kron_evals //= IH //.
Qed.

Lemma prod_d es : prodm (map dfac es) = prodm (map qfac es) /\ prodn (map dfac es) = prodm (map qfac es).
Proof. by rewrite /prodm /prodn !big_map. Qed.

Lemma wsize_es es : all_eig_wf es -> wsize (map snd es) = prodm (map qfac es)
                    /\ all (fun w => 0 < size w)%N (map snd es).
Proof.
elim: es => [|e es IH] /=; first by rewrite /prodm big_nil.
by case=> [[m0 sw _] /IH [-> ->]]; rewrite /prodm big_cons sw m0.
Qed.

Lemma kron_dfac es I J : all_eig_wf es -> (I < prodm (map qfac es))%N -> (J < prodm (map qfac es))%N ->
  kron (map dfac es) I J = if I == J then evf (map snd es) I else 0.
Proof.
elim: es I J => [|e es IH] I J /=.
- by rewrite /prodm big_nil !ltnS !leqn0 => _ /eqP -> /eqP ->; rewrite eqxx.
- case=> [[m0 sw _] wf].
  have [pm pn] := prod_d es. have [ws _] := wsize_es wf.
  have [pos _] := q_allpos wf. have P0 := prodm_gt0 pos.
  rewrite /prodm big_cons -/(prodm _) /= => IM JM.
  rewrite -/(prodm (map dfac es)) pm pn IH ?ltn_mod // ws.
  case: (altP (I =P J)) => [->|ne]; first by rewrite !eqxx.
  case: eqP => [eq1|_]; last by rewrite mul0r.
  case: eqP => [eq2|_]; last by rewrite mulr0.
  by move: ne; rewrite (divn_eq I (prodm (map qfac es))) (divn_eq J (prodm (map qfac es))) eq1 eq2 eqxx.
Qed.

Theorem kron_eig_decomp es (I L : 'I_(prodm (map qfac es))) : all_eig_wf es ->
  let N := prodm (map qfac es) in
  let Qb : 'M[F]_N := \matrix_(I, J) kron (map qfac es) I J in
  let Wb : 'rV[F]_N := \row_J vget (kron_evals RA (map snd es)) J in
  (Qb *m diag_mx Wb *m Qb^T) I L = kron (zipmul (zipmul (map qfac es) (map dfac es)) (map qtfac es)) I L.
Proof.
move=> wf N Qb Wb.
have [pN [pn [ptm ptn]]] := prod_q es. have [pdm pdn] := prod_d es.
have [posq posqt] := q_allpos wf.
have posd : allpos (map dfac es) by elim: (es) wf => [|e l ih] //= [[m0 _ _] /ih ->]; rewrite m0.
have c1 : compat (map qfac es) (map dfac es) by elim: (es) => [|e l ih] //=; rewrite eqxx.
have c2 : compat (zipmul (map qfac es) (map dfac es)) (map qtfac es) by elim: (es) => [|e l ih] //=; rewrite eqxx.
have pz := zipmul_allpos c1 posq posd.
have [ws wpos] := wsize_es wf.
rewrite -(kron_mul _ _ c2 pz posqt) (zipmul_prodn c1) pdn -/N.
rewrite mxE; apply: eq_bigr => J _; rewrite [in X in _ * X]mxE (kron_qt wf) // [in X in _ * X]mxE; congr (_ * _).
rewrite -(kron_mul _ _ c1 posq posd) pn -/N mxE.
apply: eq_bigr => J0 _; rewrite !mxE kron_dfac //; congr (_ * _).
rewrite -(inj_eq val_inj) /=; case: eqP => _; rewrite ?mulr0n // mulr1n /Model.vget nth_kron_evals // ws.
exact: ltn_ord.
Qed.

End EigKron.
