(* C04 — KroneckerProductAddedDiagLinearOperator._solve with a Kronecker-structured diagonal
   (KroneckerProductDiagLinearOperator, one diagonal factor per Kronecker factor), both branches:
     every diagonal factor constant   (K + D)^-1 = D^-1 Q (kron (Lambda_i / c_i) + I)^-1 Q^T            (K_i = Q_i Lambda_i Q_i^T)
     general diagonal factors         (K + D)^-1 = D^-1/2 Q~ (Lambda~ + I)^-1 Q~^T D^-1/2   (D_i^-1/2 K_i D_i^-1/2 = Q~_i Lambda~_i Q~_i^T)
   1. the matrix identity behind both ([qsq_identity]),
   2. the executable kernel [qsq_solve] computes  diag(s2) Qb diag(p) Qb^T diag(s1) b  with Qb = kron Q_i (any number of factors),
   3. [keig_solve] solves (kron K_i + kron D_i) x = b in both branches, given the eigh oracle's per-factor specification. *)
From mathcomp Require Import all_ssreflect all_algebra.
Require Import C04.Model C04.ProofsBridge C04.ProofsKron C04.ProofsEig C04.ProofsCholFactor C04.ProofsEigKron.
Set Implicit Arguments.
Unset Strict Implicit.
Unset Printing Implicit Defensive.
Import Order.Theory GRing.Theory Num.Theory.
Local Open Scope ring_scope.

(* ---------------------------------------------------------------- 1. the identity *)
Section Identity.
Variable F : fieldType.
Variable n : nat.

Lemma diag_mx_mul (u v : 'rV[F]_n) : diag_mx u *m diag_mx v = diag_mx (\row_j (u 0 j * v 0 j)).
Proof.
apply/matrixP => i j; rewrite mul_diag_mx !mxE.
by case: eqP => [->|_]; rewrite ?mulr1n ?mulr0n ?mulr0.
Qed.

Lemma diag_mx_inv (u v : 'rV[F]_n) : (forall j, u 0 j * v 0 j = 1) -> diag_mx u *m diag_mx v = 1%:M.
Proof.
move=> H; rewrite diag_mx_mul; apply/matrixP => i j; rewrite !mxE H.
by case: eqP.
Qed.

Lemma diag_sandwich (u v : 'rV[F]_n) (M : 'M[F]_n) i j : (diag_mx u *m M *m diag_mx v) i j = u 0 i * M i j * v 0 j.
Proof. by rewrite -mulmxA mul_diag_mx mxE mul_mx_diag mxE mulrA. Qed.

(* A = S1^-1 Q P^-1 Q^T S2^-1 (diagonal S1, S2, P; Q orthogonal)  ==>  A (S2 Q P Q^T S1 b) = b *)
Theorem qsq_identity (A Q : 'M[F]_n) (s1 s2 p s1i s2i pi : 'rV[F]_n) (b : 'cV[F]_n) :
  Q^T *m Q = 1%:M ->
  (forall j, s1i 0 j * s1 0 j = 1) -> (forall j, s2i 0 j * s2 0 j = 1) -> (forall j, pi 0 j * p 0 j = 1) ->
  A = diag_mx s1i *m Q *m diag_mx pi *m Q^T *m diag_mx s2i ->
  A *m (diag_mx s2 *m (Q *m (diag_mx p *m (Q^T *m (diag_mx s1 *m b))))) = b.
Proof.
move=> QtQ h1 h2 hp ->.
have QQt : Q *m Q^T = 1%:M by exact: (mulmx1C QtQ).
rewrite -!mulmxA.
rewrite [diag_mx s2i *m (_ *m _)]mulmxA (diag_mx_inv h2) mul1mx.
rewrite [Q^T *m (Q *m _)]mulmxA QtQ mul1mx.
rewrite [diag_mx pi *m (_ *m _)]mulmxA (diag_mx_inv hp) mul1mx.
rewrite [Q *m (Q^T *m _)]mulmxA QQt mul1mx.
by rewrite mulmxA (diag_mx_inv h1) mul1mx.
Qed.

End Identity.

(* ---------------------------------------------------------------- 2. the executable kernel *)
Section Kernel.
Variable F : rcfType.
Local Notation RA := (FA (@rsq F) (@rlt F)).
Local Notation cvo := (cv_of (@rsq F) (@rlt F)).
Local Notation vget := (vget RA).
Local Notation get := (get RA).

Lemma vget_vscale N (sv x : vec F) I : (I < N)%N -> vget (vscale RA N sv x) I = vget sv I * vget x I.
Proof. by move=> h; rewrite /vscale /Model.vget nth_mkseq. Qed.

Lemma qsq_solve_correct (es : seq (eigd F)) (s1 : option (vec F)) (pinv s2 : vec F) c (X : cols F) col :
  all_eig_wf es -> (0 < c)%N -> (col < c)%N -> size X = c ->
  let N := prodm (map (@qfac F) es) in
  let Qb : 'M[F]_N := \matrix_(I, J) kron (map (@qfac F) es) I J in
  let S1 : 'rV[F]_N := \row_J (if s1 is Some sv then vget sv J else 1) in
  let P : 'rV[F]_N := \row_J vget pinv J in
  let S2 : 'rV[F]_N := \row_J vget s2 J in
  cvo N (nth [::] (qsq_solve RA es s1 pinv s2 c X) col)
  = diag_mx S2 *m (Qb *m (diag_mx P *m (Qb^T *m (diag_mx S1 *m cvo N (nth [::] X col))))).
Proof.
move=> wf c0 colc sX N Qb S1 P S2.
have [pN [pn [ptm ptn]]] := prod_q es.
have [posq posqt] := q_allpos wf.
rewrite /qsq_solve -pN -/N.
set X1 := if s1 is Some sv then _ else X.
set W := kron_apply RA _ c X1.
set Z := map _ W.
set Y := kron_apply RA _ c Z.
have sW : size W = c by rewrite /W /kron_apply /cols_of_flat size_mkseq.
have sY : size Y = c by rewrite /Y /kron_apply /cols_of_flat size_mkseq.
have sZ : size Z = c by rewrite /Z size_map.
have eX1 (L : 'I_N) : vget (nth [::] X1 col) L = S1 0 L * vget (nth [::] X col) L.
  rewrite /X1 mxE; case: (s1) => [sv|]; last by rewrite mul1r.
  by rewrite (nth_map [::]) ?sX // vget_vscale.
apply/colP => I; rewrite mxE (nth_map [::]) ?sY // vget_vscale //.
rewrite mul_diag_mx mxE; congr (_ * _); first by rewrite mxE.
rewrite /Y (kron_apply_mul _ (q_lin_acts es) posq c0 (ltn_ord I) colc) pn -/N mxE.
apply: eq_bigr => J _; congr (_ * _); first by rewrite mxE.
rewrite /Z (nth_map [::]) ?sW // vget_vscale // mul_diag_mx mxE; congr (_ * _); first by rewrite mxE.
have JM : (J < prodm (map (@qtfac F) es))%N by rewrite ptm.
rewrite /W (kron_apply_mul _ (qt_lin_acts es) posqt c0 JM colc) ptn -/N mxE.
apply: eq_bigr => L _; congr (_ * _); first by rewrite !mxE (kron_qt wf).
by rewrite eX1 mul_diag_mx !mxE.
Qed.

End Kernel.

(* ---------------------------------------------------------------- 3. the two branches *)
Section Branches.
Variable F : rcfType.
Local Notation RA := (FA (@rsq F) (@rlt F)).
Local Notation cvo := (cv_of (@rsq F) (@rlt F)).
Local Notation vget := (vget RA).
Local Notation get := (get RA).
Local Notation eigd := (eigd F).

Fixpoint all3P (T U V : Type) (P : T -> U -> V -> Prop) (a : seq T) (b : seq U) (c : seq V) : Prop :=
  match a, b, c with
  | x :: a', y :: b', z :: c' => P x y z /\ all3P P a' b' c'
  | [::], [::], [::] => True
  | _, _, _ => False
  end.

(* entries of Q diag(w) Q^T for one factor *)
Definition qwq (e : eigd) (i j : nat) : F := \sum_(a < e.1.1) get e.1.2 i a * (vget e.2 a * get e.1.2 j a).

Lemma qdq_entry (e : eigd) i j : (i < e.1.1)%N -> (j < e.1.1)%N ->
  fe (mulfac (mulfac (qfac e) (dfac e)) (qtfac e)) i j = qwq e i j.
Proof.
move=> li lj; rewrite /qwq /=; apply: eq_bigr => b _.
rewrite get_mtab // (bigD1 b) //= eqxx big1 ?addr0 ?mulrA //.
by move=> a /negbTE ne; rewrite -(inj_eq val_inj) /= in ne; rewrite ne mulr0.
Qed.

(* the Kronecker diagonal of per-factor vectors transformed by g, as a product over the digits of J *)
Fixpoint evfg (g : F -> F) (ws : seq (vec F)) (J : nat) : F :=
  if ws is w :: ws' then g (vget w (J %/ wsize ws')) * evfg g ws' (J %% wsize ws') else 1.

Lemma wsize_map (g : F -> F) ws : wsize (map (map g) ws) = wsize ws.
Proof. by elim: ws => [|w ws IH] //=; rewrite size_map IH. Qed.

Lemma evf_mapg (g : F -> F) ws J : all (fun w => 0 < size w)%N ws -> (J < wsize ws)%N ->
  evf (map (map g) ws) J = evfg g ws J.
Proof.
elim: ws J => [|w ws IH] J //= /andP[w0 pos] JM.
have P0 := wsize_gt0 pos.
rewrite wsize_map IH ?ltn_mod //; congr (_ * _).
by rewrite /Model.vget (nth_map 0) // ltn_divLR // mulnC.
Qed.

(* Qb = kron Q_i is orthogonal, and Qb diag(Wb) Qb^T is the Kronecker product of the Q_i diag(w_i) Q_i^T *)
Definition zz (es : seq eigd) := zipmul (zipmul (map (@qfac F) es) (map (@dfac F) es)) (map (@qtfac F) es).

Lemma prod_zz es : prodm (zz es) = prodm (map (@qfac F) es) /\ prodn (zz es) = prodm (map (@qfac F) es).
Proof.
rewrite /zz /prodm /prodn; elim: es => [|e es [IH1 IH2]] /=; first by rewrite !big_nil.
by rewrite !big_cons /= IH1 IH2.
Qed.

Lemma Qb_orth es : all_eig_wf es ->
  let N := prodm (map (@qfac F) es) in
  let Qb : 'M[F]_N := \matrix_(I, J) kron (map (@qfac F) es) I J in
  Qb^T *m Qb = 1%:M.
Proof.
move=> wf N Qb.
have [pN [pn [ptm ptn]]] := prod_q es.
apply/matrixP => I L; rewrite !mxE.
under eq_bigr => J _ do rewrite !mxE -(kron_qt wf (ltn_ord I) (ltn_ord J)).
rewrite -(inj_eq val_inj) /= -(@kron_inv_delta _ (map (@qtfac F) es) (map (@qfac F) es)) ?ptm ?ptn //; first exact: qt_q_inv.
by have [] := q_allpos wf.
Qed.

Lemma QWQ_entry es (I L : 'I_(prodm (map (@qfac F) es))) : all_eig_wf es ->
  let N := prodm (map (@qfac F) es) in
  let Qb : 'M[F]_N := \matrix_(I, J) kron (map (@qfac F) es) I J in
  let Wb : 'rV[F]_N := \row_J vget (kron_evals RA (map snd es)) J in
  (Qb *m diag_mx Wb *m Qb^T) I L = kron (zz es) I L.
Proof. exact: kron_eig_decomp. Qed.

Lemma prodm_cons (A : fac F) As : prodm (A :: As) = (fm A * prodm As)%N.
Proof. by rewrite /prodm big_cons. Qed.
Lemma prodn_cons (A : fac F) As : prodn (A :: As) = (fn A * prodn As)%N.
Proof. by rewrite /prodn big_cons. Qed.

(* ---- general diagonal factors: D_i^-1/2 K_i D_i^-1/2 = Q_i diag(w_i) Q_i^T *)
Definition rsq1 (x : F) : F := 1 / Num.sqrt x.

Definition kd_spec (Kf : fac F) (e : eigd) (dv : vec F) : Prop :=
  [/\ eig_wf e, fm Kf = e.1.1 /\ fn Kf = e.1.1, size dv = e.1.1, (forall a, (a < e.1.1)%N -> 0 < vget dv a)
    & forall i j, (i < e.1.1)%N -> (j < e.1.1)%N -> qwq e i j = rsq1 (vget dv i) * fe Kf i j * rsq1 (vget dv j)].

Lemma kd_global Ks es ds : all3P kd_spec Ks es ds ->
  let N := prodm (map (@qfac F) es) in
  [/\ all_eig_wf es, prodm Ks = N /\ prodn Ks = N, wsize ds = N /\ all (fun w => 0 < size w)%N ds,
      forall I J, (I < N)%N -> (J < N)%N -> kron (zz es) I J = evfg rsq1 ds I * kron Ks I J * evfg rsq1 ds J
    & forall I, (I < N)%N -> evfg rsq1 ds I != 0 /\ (evfg rsq1 ds I)^-1 * (evfg rsq1 ds I)^-1 = evf ds I].
Proof.
elim: Ks es ds => [|Kf Ks IH] [|e es] [|dv ds] //=.
  rewrite /prodm /prodn !big_nil => _; split=> // [I J _ _|I _]; first by rewrite !mul1r.
  by rewrite oner_neq0 invr1 mulr1.
case=> [[wfe [em en] sd dpos spec] /IH [wfa [pKm pKn] [wsz wpos] Hk Hr]].
have [m0 _ _] := wfe.
have [pzm pzn] := prod_zz es.
have [posq _] := q_allpos wfa. have P0 := prodm_gt0 posq.
rewrite !prodm_cons !prodn_cons /= em en pKm pKn wsz sd; split=> //.
- by rewrite m0.
- move=> I J IM JM; rewrite -/(zz es) pzm pzn.
  have Id : (I %/ prodm (map (@qfac F) es) < e.1.1)%N by rewrite ltn_divLR // mulnC.
  have Jd : (J %/ prodm (map (@qfac F) es) < e.1.1)%N by rewrite ltn_divLR // mulnC.
  have := qdq_entry Id Jd; rewrite /= => ->.
  rewrite spec // Hk ?ltn_mod //.
  by rewrite mulrACA; congr (_ * _); rewrite mulrACA.
- move=> I IM.
  have Id : (I %/ prodm (map (@qfac F) es) < e.1.1)%N by rewrite ltn_divLR // mulnC.
  have [nz sq] := Hr _ (ltn_pmod I P0).
  have dp := dpos _ Id.
  have snz : Num.sqrt (vget dv (I %/ prodm (map (@qfac F) es))) != 0 by rewrite gt_eqF // sqrtr_gt0.
  split; first by rewrite mulf_neq0 // /rsq1 div1r invr_neq0.
  by rewrite invfM mulrACA sq /rsq1 div1r invrK -expr2 sqr_sqrtr // ltW.
Qed.

Lemma vget_kron_evals_g (g : F -> F) ds J : all (fun w => 0 < size w)%N ds -> (J < wsize ds)%N ->
  vget (kron_evals RA (map (map g) ds)) J = evfg g ds J.
Proof.
move=> pos JM; rewrite /Model.vget nth_kron_evals ?wsize_map //; first exact: evf_mapg.
by rewrite all_map; apply: sub_all pos => w /=; rewrite size_map.
Qed.

Lemma vget_pinv (ev : vec F) J : (J < size ev)%N ->
  vget (map (fun x => 1 / (x + 1)) ev) J = 1 / (vget ev J + 1).
Proof. by move=> h; rewrite /Model.vget (nth_map 0). Qed.

Theorem keig_diag_correct Ks es ds c (X : cols F) col :
  all3P kd_spec Ks es ds -> (0 < c)%N -> (col < c)%N -> size X = c ->
  let N := prodm (map (@qfac F) es) in
  let Kb : 'M[F]_N := \matrix_(I, J) kron Ks I J in
  let Db : 'rV[F]_N := \row_J vget (kron_evals RA ds) J in
  let Wb : 'rV[F]_N := \row_J vget (kron_evals RA (map snd es)) J in
  (forall J : 'I_N, Wb 0 J + 1 != 0) ->
  (Kb + diag_mx Db) *m cvo N (nth [::] (keig_solve RA false es ds c X) col) = cvo N (nth [::] X col).
Proof.
move=> H c0 colc sX N Kb Db Wb posW.
have [wfa [pKm pKn] [wsz wpos] Hk Hr] := kd_global H.
have [wse _] := wsize_es wfa.
rewrite /keig_solve.
set r := kron_evals RA _.
set pinv := map _ (kron_evals RA (map snd es)).
rewrite (qsq_solve_correct (Some r) pinv r wfa c0 colc sX) -/N.
set Qb : 'M[F]_N := \matrix_(I, J) kron (map (@qfac F) es) I J.
have er (J : 'I_N) : vget r J = evfg rsq1 ds J by rewrite /r (vget_kron_evals_g rsq1) // wsz.
have ep (J : 'I_N) : vget pinv J = 1 / (vget (kron_evals RA (map snd es)) J + 1).
  by rewrite /pinv vget_pinv // size_kron_evals -/(wsize _) wse.
pose Si : 'rV[F]_N := \row_J (vget r J)^-1.
pose Pi : 'rV[F]_N := \row_J (Wb 0 J + 1).
apply: (@qsq_identity _ _ _ Qb _ _ _ Si Si Pi) => [||j|j|].
- exact: (Qb_orth wfa).
- by move=> j; rewrite !mxE mulVf // er; have [] := Hr _ (ltn_ord j).
- by rewrite !mxE mulVf // er; have [] := Hr _ (ltn_ord j).
- by rewrite !mxE ep mulrC div1r mulVf //; have := posW j; rewrite mxE.
- apply/matrixP => I J.
  have -> : diag_mx Si *m Qb *m diag_mx Pi *m Qb^T *m diag_mx Si
          = diag_mx Si *m (Qb *m diag_mx Wb *m Qb^T + 1%:M) *m diag_mx Si.
    rewrite -!mulmxA; congr (_ *m _); rewrite !mulmxA; congr (_ *m _).
    have -> : diag_mx Pi = diag_mx Wb + 1%:M.
      by apply/matrixP => a b; rewrite !mxE; case: eqP => _; rewrite ?mulr1n ?mulr0n ?addr0.
    by rewrite mulmxDr mulmxDl mulmx1 -mulmxA (mulmx1C (Qb_orth wfa)).
  rewrite diag_sandwich [X in _ = _ * X * _]mxE (QWQ_entry I J wfa) Hk // -!er [Si 0 I]mxE [Si 0 J]mxE.
  rewrite [LHS]mxE [Kb I J]mxE [in LHS]mxE [(1%:M : 'M[F]_N) I J]mxE.
  have nzI : vget r I != 0 by rewrite er; have [] := Hr _ (ltn_ord I).
  have nzJ : vget r J != 0 by rewrite er; have [] := Hr _ (ltn_ord J).
  rewrite mulrDr mulrDl; congr (_ + _).
    by rewrite !mulrA mulVf // mul1r -mulrA mulfV // mulr1.
  rewrite -(inj_eq val_inj) /=; case: eqP => [eIJ|_]; last by rewrite !mulr0n mulr0 mul0r.
  have -> : J = I by apply: val_inj.
  have eD : vget (kron_evals RA ds) I = evf ds I by rewrite /Model.vget nth_kron_evals ?wsz.
  rewrite !mulr1n mulr1 mxE eD.
  by have [_ <-] := Hr _ (ltn_ord I); rewrite -er.
Qed.

(* ---- every diagonal factor constant: K_i = Q_i diag(w_i) Q_i^T, D_i = c_i I *)
Definition kc_spec (Kf : fac F) (e : eigd) (dv : vec F) : Prop :=
  [/\ eig_wf e, fm Kf = e.1.1 /\ fn Kf = e.1.1, size dv = e.1.1,
      (forall a, (a < e.1.1)%N -> vget dv a = vget dv 0) /\ vget dv 0 != 0
    & forall i j, (i < e.1.1)%N -> (j < e.1.1)%N -> qwq e i j = fe Kf i j].

Definition cprod (ds : seq (vec F)) : F := foldr (fun dv p => vget dv 0 * p) 1 ds.
Definition wcs (es : seq eigd) (ds : seq (vec F)) : seq (vec F) :=
  map (fun ed : eigd * vec F => map (fun w => w / vget ed.2 0) ed.1.2) (zip es ds).

Lemma kc_global Ks es ds : all3P kc_spec Ks es ds ->
  let N := prodm (map (@qfac F) es) in
  [/\ all_eig_wf es, prodm Ks = N /\ prodn Ks = N,
      [/\ wsize ds = N, all (fun w => 0 < size w)%N ds, wsize (wcs es ds) = N, all (fun w => 0 < size w)%N (wcs es ds)
         & cprod ds != 0],
      forall I J, (I < N)%N -> (J < N)%N -> kron (zz es) I J = kron Ks I J
    & forall I, (I < N)%N ->
        [/\ evf ds I = cprod ds, evfg (fun x => 1 / x) ds I = (cprod ds)^-1
           & evf (wcs es ds) I = evf (map snd es) I / cprod ds]].
Proof.
elim: Ks es ds => [|Kf Ks IH] [|e es] [|dv ds] //=.
  rewrite /prodm /prodn !big_nil => _; split=> //; first by rewrite oner_neq0.
  by move=> I _; rewrite invr1 mulr1.
case=> [[wfe [em en] sd [dc dnz] spec] /IH [wfa [pKm pKn] [wsz wpos wcz wcpos cnz] Hk Hr]].
have [m0 sw _] := wfe.
have [pzm pzn] := prod_zz es.
have [posq _] := q_allpos wfa. have P0 := prodm_gt0 posq.
have [wse _] := wsize_es wfa.
rewrite !prodm_cons !prodn_cons /= em en pKm pKn wsz sd -/(wcs es ds) wcz size_map sw; split=> //.
- by rewrite m0 wpos wcpos mulf_neq0.
- move=> I J IM JM; rewrite -/(zz es) pzm pzn.
  have Id : (I %/ prodm (map (@qfac F) es) < e.1.1)%N by rewrite ltn_divLR // mulnC.
  have Jd : (J %/ prodm (map (@qfac F) es) < e.1.1)%N by rewrite ltn_divLR // mulnC.
  have := qdq_entry Id Jd; rewrite /= => ->.
  by rewrite spec // Hk ?ltn_mod.
- move=> I IM.
  have Id : (I %/ prodm (map (@qfac F) es) < e.1.1)%N by rewrite ltn_divLR // mulnC.
  have [h1 h2 h3] := Hr _ (ltn_pmod I P0).
  rewrite h1 h2 h3 wse dc //; split=> //; first by rewrite invfM div1r.
  rewrite /Model.vget (nth_map 0) ?sw // -/(Model.vget RA e.2 _).
  by rewrite invfM mulrACA.
Qed.

Theorem keig_const_correct Ks es ds c (X : cols F) col :
  all3P kc_spec Ks es ds -> (0 < c)%N -> (col < c)%N -> size X = c ->
  let N := prodm (map (@qfac F) es) in
  let Kb : 'M[F]_N := \matrix_(I, J) kron Ks I J in
  let Db : 'rV[F]_N := \row_J vget (kron_evals RA ds) J in
  let Wb : 'rV[F]_N := \row_J vget (kron_evals RA (map snd es)) J in
  (forall J : 'I_N, Wb 0 J / cprod ds + 1 != 0) ->
  (Kb + diag_mx Db) *m cvo N (nth [::] (keig_solve RA true es ds c X) col) = cvo N (nth [::] X col).
Proof.
move=> H c0 colc sX N Kb Db Wb posW.
have [wfa [pKm pKn] [wsz wpos wcz wcpos cnz] Hk Hr] := kc_global H.
have [wse wepos] := wsize_es wfa.
rewrite /keig_solve -/(wcs es ds).
set dinv := kron_evals RA (map _ ds).
set pinv := map _ (kron_evals RA (wcs es ds)).
rewrite (qsq_solve_correct None pinv dinv wfa c0 colc sX) -/N.
set Qb : 'M[F]_N := \matrix_(I, J) kron (map (@qfac F) es) I J.
set C := cprod ds in posW cnz Hr.
have ed (J : 'I_N) : vget dinv J = C^-1.
  by rewrite /dinv (vget_kron_evals_g (fun x => 1 / x)) ?wsz //; have [_ -> _] := Hr _ (ltn_ord J).
have eW (J : 'I_N) : vget (kron_evals RA (map snd es)) J = evf (map snd es) J.
  by rewrite /Model.vget nth_kron_evals ?wse.
have ep (J : 'I_N) : vget pinv J = 1 / (vget (kron_evals RA (map snd es)) J / C + 1).
  rewrite /pinv vget_pinv ?size_kron_evals -/(wsize _) ?wcz // eW.
  by rewrite /Model.vget nth_kron_evals ?wcz //; have [_ _ ->] := Hr _ (ltn_ord J).
pose Ones : 'rV[F]_N := \row_J 1.
pose Cs : 'rV[F]_N := \row_J C.
pose Pi : 'rV[F]_N := \row_J (Wb 0 J / C + 1).
apply: (@qsq_identity _ _ _ Qb _ _ _ Ones Cs Pi) => [||j|j|].
- exact: (Qb_orth wfa).
- by move=> j; rewrite !mxE mulr1.
- by rewrite !mxE ed mulfV.
- by rewrite !mxE ep mulrC div1r mulVf //; have := posW j; rewrite mxE.
- apply/matrixP => I J.
  have -> : diag_mx Ones *m Qb *m diag_mx Pi *m Qb^T *m diag_mx Cs
          = diag_mx Ones *m (C^-1 *: (Qb *m diag_mx Wb *m Qb^T) + 1%:M) *m diag_mx Cs.
    rewrite -!mulmxA; congr (_ *m _); rewrite !mulmxA; congr (_ *m _).
    have -> : diag_mx Pi = C^-1 *: diag_mx Wb + 1%:M.
      apply/matrixP => a b; rewrite !mxE; case: eqP => _; rewrite ?mulr1n ?mulr0n ?addr0 ?mulr0 //.
      by rewrite mulrC.
    by rewrite mulmxDr mulmxDl mulmx1 (mulmx1C (Qb_orth wfa)) -scalemxAr -scalemxAl.
  rewrite diag_sandwich [Ones 0 I]mxE [Cs 0 J]mxE mul1r [X in _ = X * _]mxE [X in _ = (X + _) * _]mxE.
  rewrite (QWQ_entry I J wfa) Hk // [LHS]mxE [Kb I J]mxE [in LHS]mxE [(1%:M : 'M[F]_N) I J]mxE.
  rewrite mulrDl; congr (_ + _); first by rewrite mulrAC mulVf // mul1r.
  rewrite -(inj_eq val_inj) /=; case: eqP => _; last by rewrite !mulr0n mul0r.
  rewrite !mulr1n mul1r mxE /Model.vget nth_kron_evals ?wsz //.
  by have [-> _ _] := Hr _ (ltn_ord I).
Qed.

End Branches.
