(* C04 — PrimFloat (binary64) instance of the model and the comparators used by the generated case
   shards (gen/cases_*.v): model vs observed behaviour of the implementation.

   Per solve call the harness records (i) the kernel events the verbose_linalg logger / the wrapped
   linear_cg show and (ii) the returned tensor, member by member.  A case is bad when
     1  the events differ from  method_events (select_solve settings class)            (path, exact)
     2  a member's values differ from  alg_solve  by more than tol * scale              (direct methods)
     3  the model has no value although the selected method is direct (factorisation failed on a PD input)
     4  the selected method is CG, no warning was raised, and the mean relative residual of the
        returned solution exceeds cg_tolerance (1 + 1e-3) + 1e-7                        (property predicate)
     5  the eigh oracle handed to the model violates its specification (harness error)
     6  BatchRepeat column folding (fold, base solve, unfold) differs from the observed values     *)
From mathcomp Require Import ssreflect ssrfun ssrbool eqtype ssrnat seq div.
From Coq Require Import PrimFloat.
Require Import C04.Model.
Set Implicit Arguments.
Unset Strict Implicit.
Unset Printing Implicit Defensive.

Open Scope float_scope.

Definition ArFloat : Arith float :=
  MkArith 0 1 PrimFloat.add PrimFloat.sub PrimFloat.mul PrimFloat.div PrimFloat.sqrt PrimFloat.ltb.

Notation fvec := (vec float).
Notation fmat := (mat float).
Notation fcols := (cols float).

Definition fmax (a b : float) : float := if PrimFloat.ltb a b then b else a.
Definition is_finite (x : float) : bool := PrimFloat.ltb (abs x) infinity.
Definition vmaxabs (v : fvec) : float := foldl (fun m x => fmax m (abs x)) 0 v.
Definition cmaxabs (X : fcols) : float := foldl (fun m v => fmax m (vmaxabs v)) 0 X.

(* |a - b| <= tol * scale ; false if anything is NaN / infinite *)
Definition close (tol scale a b : float) : bool :=
  is_finite a && is_finite b && PrimFloat.leb (abs (a - b)) (tol * scale).

Fixpoint all2 {X Y} (p : X -> Y -> bool) (a : seq X) (b : seq Y) : bool :=
  match a, b with
  | [::], [::] => true
  | x :: a', y :: b' => p x y && all2 p a' b'
  | _, _ => false
  end.

(* norm-wise comparison of two (n, c) results: scale = max(1, max |observed|) *)
Definition cols_close (tol : float) (X Y : fcols) : bool :=
  let sc := fmax 1 (cmaxabs Y) in all2 (all2 (close tol sc)) X Y.

(* ---------------------------------------------------------------- events *)
Fixpoint seqnat_eqb (a b : seq nat) : bool :=
  match a, b with
  | [::], [::] => true
  | x :: a', y :: b' => (x == y) && seqnat_eqb a' b'
  | _, _ => false
  end.
Definition event_eqb (x y : event) : bool :=
  match x, y with
  | EChol a, EChol b => seqnat_eqb a b
  | ECG p a k, ECG q b l => (p == q) && seqnat_eqb a b && (k == l)
  | EEig a, EEig b => seqnat_eqb a b
  | EPivChol a k, EPivChol b l => seqnat_eqb a b && (k == l)
  | _, _ => false
  end.

(* ---------------------------------------------------------------- residual predicate (CG)
   relative residual of one column; a right-hand side of norm < 1e-10 counts as solved (the library
   masks such columns) *)
Definition fsum (v : fvec) : float := foldl PrimFloat.add 0 v.
Definition norm2 (v : fvec) : float := PrimFloat.sqrt (fsum (map (fun x => x * x) v)).
Definition rel_resid (n : nat) (M : fmat) (x b : fvec) : float :=
  let nb := norm2 b in
  if PrimFloat.ltb nb 0x1.b7cdfd9d7bdbbp-34 (* 1e-10 *) then 0
  else norm2 (vsub ArFloat n b (matvec ArFloat n n M x)) / nb.

(* ---------------------------------------------------------------- eigh oracle specification *)
Definition eig_ok (tol : float) (f : opd float) (e : nat * fmat * fvec) : bool :=
  let: (n, Q, w) := e in
  let K := dense_of ArFloat f in
  let sc := fmax 1 (cmaxabs K) in
  (n == osize f) &&
  all (fun i => all (fun j =>
        close tol 1 (sumn_ ArFloat (fun l => get ArFloat Q l i * get ArFloat Q l j) n) (if i == j then 1 else 0)
        && close tol sc (sumn_ ArFloat (fun l => get ArFloat Q i l * (vget ArFloat w l * get ArFloat Q j l)) n) (get ArFloat K i j))
      (iota 0%N n)) (iota 0%N n).

(* the same against an explicit matrix *)
Definition eig_ok_mat (tol : float) (n0 : nat) (K : fmat) (e : nat * fmat * fvec) : bool :=
  let: (n, Q, w) := e in
  let sc := fmax 1 (cmaxabs K) in
  (n == n0) &&
  all (fun i => all (fun j =>
        close tol 1 (sumn_ ArFloat (fun l => get ArFloat Q l i * get ArFloat Q l j) n) (if i == j then 1 else 0)
        && close tol sc (sumn_ ArFloat (fun l => get ArFloat Q i l * (vget ArFloat w l * get ArFloat Q j l)) n) (get ArFloat K i j))
      (iota 0%N n)) (iota 0%N n).

Fixpoint all3 {X Y Z} (p : X -> Y -> Z -> bool) (a : seq X) (b : seq Y) (c : seq Z) : bool :=
  match a, b, c with
  | [::], [::], [::] => true
  | x :: a', y :: b', z :: c' => p x y z && all3 p a' b' c'
  | _, _, _ => false
  end.

Definition oracle_ok (s0 : settings) (tol : float) (o : opd float) : bool :=
  match o with
  | DKronAddedDiag fs DConst _ eig => all2 (eig_ok tol) fs eig
  | DKronAddedKronDiag true fs _ eig => all2 (eig_ok tol) fs eig
  | DKronAddedKronDiag false fs ds eig =>
      all3 (fun f dv e => eig_ok_mat tol (osize f) (sym_scaled ArFloat (osize f) (dense_of ArFloat f) dv) e) fs ds eig
  | DSumKron fs1 fs2 eig =>
      (* the oracle is that of  R_i^T A_i R_i  with the model's own inverse roots (a Lanczos root has no model: accept) *)
      all3 (fun f1 f2 e =>
              match inv_root ArFloat s0 (osize f2) (dense_of ArFloat f2) with
              | Some R => eig_ok_mat tol (osize f2) (congr_t ArFloat (osize f2) R (dense_of ArFloat f1)) e
              | None => true
              end) fs1 fs2 eig
  | _ => true
  end.

(* ---------------------------------------------------------------- cases *)
Record member := MkMem {
  m_op : opd float;
  m_right : fcols;
  m_left : option (nat * fmat);
  m_out : fcols;                      (* observed result columns of this member *)
  m_spec : option (opd float);        (* cells of a known finding: the operator as SPECIFIED (the transcribed one is m_op);
                                         the case is accepted when either agrees, so a repair never raises an alarm *)
  m_tol : option float                (* value tolerance of THIS member (members of one batch that differ in conditioning);
                                         None: the tolerance of the case *)
}.

Record case := MkCase {
  c_set : settings;
  c_obs : seq nat; c_rbs : seq nat; c_bb : seq nat;      (* operator / rhs / broadcast batch shapes *)
  c_cols : nat;                       (* rhs columns *)
  c_members : seq member;
  c_tol : float;                      (* value tolerance *)
  c_cgtol : float;                    (* cg_tolerance in force *)
  c_fold : nat;                       (* R > 0: also check BatchRepeat folding over R repeats of an unbatched base *)
  o_events : seq event;               (* observed events *)
  o_cgtols : seq float;               (* tolerance printed by every CG log line *)
  o_events2 : seq event;              (* events of a second solve on the same object (cached factors) *)
  o_warn : bool                       (* a CG-not-converged warning was observed *)
}.

Definition case_method (c : case) : method :=
  if c_members c is m :: _ then select_solve (c_set c) (cls_of (m_op m)) else MIdentity.
Definition case_cls (c : case) : cls :=
  if c_members c is m :: _ then cls_of (m_op m) else CIdentity 0.

Definition path_ok (c : case) : bool :=
  let lo := if c_members c is m :: _ then (if m_left m is Some (o, _) then o else 0%N) else 0%N in
  all (fun t => PrimFloat.eqb t (c_cgtol c)) (o_cgtols c) &&
  all2 event_eqb (method_events (c_set c) (c_obs c) (c_rbs c) (c_bb c) (solver_cols (case_cls c) lo (c_cols c))
                                (case_cls c) (case_method c))
       (o_events c)
  && all2 event_eqb (method_events_again (c_set c) (c_obs c) (c_rbs c) (c_bb c) (solver_cols (case_cls c) lo (c_cols c))
                                (case_cls c) (case_method c))
       (o_events2 c).

(* value tolerance of a case: c_tol is the tolerance of the OPERATOR's dtype (binary64: 1e-9 / 1e-7 by condition number,
   binary32: 2e-3); an eigen-structured method under linalg_dtypes(symeig = float32) computes in binary32 *)
Definition case_tol (c : case) : float :=
  if uses_symeig (case_method c) && linalg_symeig_single (c_set c) then fmax (c_tol c) 0x1.0624dd2f1a9fcp-9 (* 2e-3 *) else c_tol c.

(* per-member verdict: 0 ok, otherwise the reason code *)
Definition member_code (c : case) (m : member) : nat :=
  if ~~ oracle_ok (c_set c) 0x1.ad7f29abcaf48p-24 (* 1e-7 *) (m_op m) then 5%N else
  match alg_solve ArFloat (c_set c) (m_op m) (m_right m) (m_left m) with
  | Some X => if cols_close (if m_tol m is Some t then t else case_tol c) X (m_out m) then 0%N else 2%N
  | None =>
      if direct (case_method c) then 3%N else 0%N      (* residual: judged over the whole call, see resid_call_ok *)
  end.

(* mean relative residual over every column of every member (the quantity linear_cg compares with
   the tolerance; all columns are observed when there is no left factor) *)
Definition resid_call_ok (c : case) : bool :=
  if direct (case_method c) || o_warn c then true else
  if has (fun m => isSome (m_left m)) (c_members c) then true else
  let rs := flatten (map (fun m => let n := osize (m_op m) in let M := dense_of ArFloat (m_op m) in
                                   map (fun xb => rel_resid n M xb.1 xb.2) (zip (m_out m) (m_right m))) (c_members c)) in
  let k := size rs in
  if k == 0%N then true else
  let mean := fsum rs / (foldl (fun a _ => a + 1) 0 rs) in
  is_finite mean && PrimFloat.leb mean (c_cgtol c * 0x1.004189374bc6ap+0 (* 1.001 *) + 0x1.ad7f29abcaf48p-24 (* 1e-7 *)).

(* BatchRepeat folding on the Cholesky path *)
Definition fold_ok (c : case) : bool :=
  let R := c_fold c in
  if R == 0%N then true else
  match c_members c with
  | m :: _ =>
      match m_op m with
      | DBatchRepeat b =>
          let cc := size (m_right m) in
          let base X := if alg_solve ArFloat (c_set c) b X None is Some Y then Y else [::] in
          let Ys := batch_repeat_solve R cc base (map m_right (c_members c)) in
          all2 (fun Y m' => cols_close (c_tol c) Y (m_out m')) Ys (c_members c)
      | _ => false
      end
  | _ => false
  end.

Definition with_spec (c : case) : option case :=
  if all (fun m => isSome (m_spec m)) (c_members c) && (0 < size (c_members c))%N then
    Some (MkCase (c_set c) (c_obs c) (c_rbs c) (c_bb c) (c_cols c)
                 (map (fun m => MkMem (if m_spec m is Some o then o else m_op m) (m_right m) (m_left m) (m_out m) None (m_tol m)) (c_members c))
                 (c_tol c) (c_cgtol c) (c_fold c) (o_events c) (o_cgtols c) (o_events2 c) (o_warn c))
  else None.

Definition case_codes0 (c : case) : seq nat :=
  (if path_ok c then [::] else [:: 1%N])
  ++ undup (filter (fun x => x != 0%N) (map (member_code c) (c_members c)))
  ++ (if resid_call_ok c then [::] else [:: 4%N])
  ++ (if fold_ok c then [::] else [:: 6%N]).

Definition case_codes (c : case) : seq nat :=
  let k := case_codes0 c in
  if nilp k then k else
  match with_spec c with
  | Some c' => if nilp (case_codes0 c') then [::] else k
  | None => k
  end.

(* result: i * 10 + code for every failed check of case i *)
Fixpoint bad_cases (cs : seq case) (i : nat) : seq nat :=
  match cs with
  | [::] => [::]
  | c :: r => map (fun k => (i * 10 + k)%N) (case_codes c) ++ bad_cases r i.+1
  end.
