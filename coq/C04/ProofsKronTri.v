(* C04 — substitution is a linear map (multiplication by the inverse matrix), hence the Kronecker rotation with
   per-factor triangular solves solves with the Kronecker product of the triangular factors, and the two sweeps of
   KroneckerProductTriangularLinearOperator._cholesky_solve solve with  ⊗ (L_i L_i^T).  Any number of factors. *)
From mathcomp Require Import all_ssreflect all_algebra.
Require Import C04.Model C04.ProofsBridge C04.ProofsTri C04.ProofsChol C04.ProofsAlg C04.ProofsKron.
Set Implicit Arguments.
Unset Strict Implicit.
Unset Printing Implicit Defensive.
Import GRing.Theory.
Local Open Scope ring_scope.

Section KronTri.
Variable F : fieldType.
Variable sq : F -> F.
Variable lt : F -> F -> bool.
Local Notation FA := (FA sq lt).
Local Notation mxo := (mx_of sq lt).
Local Notation cvo := (cv_of sq lt).
Local Notation get := (get FA).
Local Notation vget := (vget FA).

(* entries of a MathComp matrix as a total function on nat *)
Definition mxfun n (M : 'M[F]_n) (i a : nat) : F :=
  if insub i is Some i' then (if insub a is Some a' then M i' a' else 0) else 0.

Lemma mxfunE n (M : 'M[F]_n) (i a : 'I_n) : mxfun M i a = M i a.
Proof. by rewrite /mxfun !insubT // => h1 h2; congr (M _ _); apply: val_inj. Qed.

Lemma tri_unit upper n T : tri_flag sq lt upper n T -> diag_nz sq lt n T -> mxo n n T \in unitmx.
Proof.
move=> tr nz.
pose e (j : nat) : vec F := mkseq (fun k => (k == j)%:R) n.
pose X : 'M[F]_n := \matrix_(i, j) vget (tri_solve FA upper n T (e j)) i.
suff H : mxo n n T *m X = 1%:M by case: (mulmx1_unit H).
apply/matrixP => i j.
have /colP/(_ i) := tri_solve_correct (e j) tr nz.
rewrite !mxE /e /Model.vget nth_mkseq // => <-.
by apply: eq_bigr => k _; rewrite !mxE.
Qed.

Lemma tri_solve_lin upper n T v : tri_flag sq lt upper n T -> diag_nz sq lt n T ->
  cvo n (tri_solve FA upper n T v) = invmx (mxo n n T) *m cvo n v.
Proof. by move=> tr nz; apply: solve_unique (tri_unit tr nz) (tri_solve_correct v tr nz). Qed.

Lemma tri_lin_act upper n T : tri_flag sq lt upper n T -> diag_nz sq lt n T ->
  lin_act sq lt n (tri_solve FA upper n T) (mxfun (invmx (mxo n n T))).
Proof.
move=> tr nz v i lin.
have /colP/(_ (Ordinal lin)) := tri_solve_lin v tr nz; rewrite !mxE /= => ->.
by apply: eq_bigr => a _; rewrite (mxfunE _ (Ordinal lin) a) !mxE.
Qed.

(* a list of triangular factors (size, matrix) *)
Definition tfac := (nat * mat F)%type.
Definition tri_ok (upper : bool) (t : tfac) : Prop :=
  [/\ (0 < t.1)%N, tri_flag sq lt upper t.1 t.2 & diag_nz sq lt t.1 t.2].
Fixpoint all_tri (upper : bool) (ts : seq tfac) : Prop :=
  if ts is t :: ts' then tri_ok upper t /\ all_tri upper ts' else True.

Definition fac_of (t : tfac) : fac F := Fac t.1 t.1 (get t.2).
Definition inv_fac_of (t : tfac) : fac F := Fac t.1 t.1 (mxfun (invmx (mxo t.1 t.1 t.2))).
Definition act_of (upper : bool) (t : tfac) : nat * (vec F -> vec F) := (t.1, tri_solve FA upper t.1 t.2).

Lemma tri_lin_acts upper ts : all_tri upper ts ->
  lin_acts sq lt (map (act_of upper) ts) (map inv_fac_of ts).
Proof. by elim: ts => [|t ts IH] //= [[m0 tr nz] /IH h]; split=> //; exact: tri_lin_act. Qed.

Lemma tri_inv_pairs upper ts : all_tri upper ts -> inv_pairs (map fac_of ts) (map inv_fac_of ts).
Proof.
elim: ts => [|t ts IH] //= [[m0 tr nz] /IH h]; split=> // i l im lm.
have /matrixP/(_ (Ordinal im) (Ordinal lm)) := mulmxV (tri_unit tr nz).
rewrite !mxE -(inj_eq val_inj) /= => <-.
by apply: eq_bigr => a _; rewrite (mxfunE _ a (Ordinal lm)) !mxE.
Qed.

Lemma tri_allpos upper ts : all_tri upper ts -> allpos (map fac_of ts).
Proof. by elim: ts => [|t ts IH] //= [[m0 _ _] /IH ->]; rewrite m0. Qed.

(* KroneckerProductLinearOperator._solve over triangular factors (every factor solved by substitution) *)
Theorem kron_tri_solve_correct upper ts c (X : cols F) I col :
  all_tri upper ts -> (0 < c)%N -> (I < prodm (map fac_of ts))%N -> (col < c)%N ->
  \sum_(I' < prodn (map fac_of ts))
     kron (map fac_of ts) I I' * vget (nth [::] (kron_apply FA (map (act_of upper) ts) c X) col) I'
  = vget (nth [::] X col) I.
Proof.
move=> ok c0 IM colc.
exact: (kron_apply_correct X (tri_lin_acts ok) (tri_inv_pairs ok) (tri_allpos ok) c0 IM colc).
Qed.

(* ---------------------------------------------------------------- the two sweeps of the Cholesky path *)
Definition tr_of (t : tfac) : tfac := (t.1, trm FA t.1 t.2).

Lemma all_tri_tr ts : all_tri false ts -> all_tri true (map tr_of ts).
Proof.
elim: ts => [|t ts IH] //= [[m0 tr nz] /IH h]; split=> //; split=> //=.
- exact: trm_upper.
- exact: trm_diag.
Qed.

Lemma compat_tr ts : compat (map fac_of ts) (map fac_of (map tr_of ts)).
Proof. by elim: ts => [|t ts IH] //=; rewrite eqxx. Qed.

Lemma prod_tr ts : prodm (map fac_of (map tr_of ts)) = prodm (map fac_of ts)
                /\ prodn (map fac_of (map tr_of ts)) = prodn (map fac_of ts).
Proof. by rewrite /prodm /prodn !big_map. Qed.

Lemma prod_sq ts : prodn (map fac_of ts) = prodm (map fac_of ts).
Proof. by rewrite /prodm /prodn !big_map. Qed.

(* entries of L_i L_i^T *)
Lemma mulfac_LLt (t : tfac) (i l : 'I_t.1) :
  fe (mulfac (fac_of t) (fac_of (tr_of t))) i l = (mxo t.1 t.1 t.2 *m (mxo t.1 t.1 t.2)^T) i l.
Proof. by rewrite /= !mxE; apply: eq_bigr => a _; rewrite !mxE get_mtab. Qed.

(* KroneckerProductTriangularLinearOperator._cholesky_solve(upper=False):
   w = (⊗ L_i)^-1 rhs by forward substitutions, then (⊗ L_i^T)^-1 w by back substitutions;
   the result solves with ⊗ (L_i L_i^T) *)
Theorem kron_chol_solve_correct ts c (X : cols F) I col :
  all_tri false ts -> (0 < c)%N -> (I < prodm (map fac_of ts))%N -> (col < c)%N ->
  let Y := kron_apply FA (map (act_of true) (map tr_of ts)) c (kron_apply FA (map (act_of false) ts) c X) in
  \sum_(I' < prodn (map fac_of ts))
     kron (zipmul (map fac_of ts) (map fac_of (map tr_of ts))) I I' * vget (nth [::] Y col) I'
  = vget (nth [::] X col) I.
Proof.
move=> ok c0 IM colc Y.
have okt := all_tri_tr ok.
have [pm pn] := prod_tr ts.
have pA := tri_allpos ok. have pB := tri_allpos okt.
have cmp := compat_tr ts.
rewrite -(kron_tri_solve_correct X ok c0 IM colc).
under eq_bigr => I' _ do rewrite -(kron_mul _ _ cmp pA pB) mulr_suml.
rewrite exchange_big /=; apply: eq_bigr => J _.
under eq_bigr => I' _ do rewrite -mulrA.
rewrite -mulr_sumr; congr (_ * _).
have JM : (J < prodm (map fac_of (map tr_of ts)))%N by rewrite pm -prod_sq.
rewrite -(kron_tri_solve_correct (kron_apply FA (map (act_of false) ts) c X) okt c0 JM colc) pn.
by [].
Qed.

End KronTri.
