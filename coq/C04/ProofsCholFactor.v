(* C04 — the Cholesky–Banachiewicz kernel [chol] really factorises: when it reports info = 0 on a symmetric
   matrix M, the returned L is lower triangular with a positive diagonal and L L^T = M.  Real closed field
   (Num.sqrt, <); every size, by induction on the number of finished rows. *)
From mathcomp Require Import all_ssreflect all_algebra.
Require Import C04.Model C04.ProofsBridge C04.ProofsTri.
Set Implicit Arguments.
Unset Strict Implicit.
Unset Printing Implicit Defensive.
Import Order.Theory GRing.Theory Num.Theory.
Local Open Scope ring_scope.

Section CholFactor.
Variable F : rcfType.
Definition rsq : F -> F := Num.sqrt.
Definition rlt : F -> F -> bool := fun x y => x < y.
Local Notation RA := (FA rsq rlt).
Local Notation get := (get RA).
Local Notation vget := (vget RA).
Local Notation crow := (crow RA).
Local Notation crows := (crows RA).

Section Row.
Variables (Ls : mat F) (arow : vec F).

Lemma size_crow j : size (crow Ls arow j) = j.
Proof. by elim: j => [|j IH] //=; rewrite size_rcons IH. Qed.

Lemma crow_nth j k : (k < j)%N -> vget (crow Ls arow j) k = vget (crow Ls arow k.+1) k.
Proof.
elim: j => [|j IH] //; rewrite ltnS leq_eqVlt => /orP[/eqP -> //|kj].
by rewrite /= /Model.vget nth_rcons size_crow kj; exact: IH.
Qed.

Lemma crow_last j :
  vget (crow Ls arow j.+1) j =
  (vget arow j - \sum_(k < j) vget (crow Ls arow j) k * get Ls j k) / get Ls j j.
Proof. by rewrite /= /Model.vget nth_rcons size_crow ltnn eqxx /= sumn_big. Qed.

Lemma crow_eq j c : (c < j)%N -> get Ls c c != 0 ->
  \sum_(k < c) vget (crow Ls arow j) k * get Ls c k + vget (crow Ls arow j) c * get Ls c c = vget arow c.
Proof.
move=> cj nz; rewrite (crow_nth cj) crow_last.
have -> : \sum_(k < c) vget (crow Ls arow j) k * get Ls c k = \sum_(k < c) vget (crow Ls arow c) k * get Ls c k.
  apply: eq_bigr => k _; congr (_ * _).
  by rewrite (@crow_nth j k) ?(@crow_nth c k) // (ltn_trans _ cj).
by rewrite divfK // addrC subrK.
Qed.
End Row.

(* what the finished rows satisfy *)
Definition chol_inv (M : mat F) (i : nat) (L : mat F) : Prop :=
  [/\ size L = i,
      forall r, (r < i)%N -> size (nth [::] L r) = r.+1,
      forall r, (r < i)%N -> 0 < get L r r
    & forall r c, (c <= r)%N -> (r < i)%N ->
        \sum_(k < c) get L r k * get L c k + get L r c * get L c c = get M r c].

Lemma get_rcons_old (L : mat F) row r k : (r < size L)%N -> get (rcons L row) r k = get L r k.
Proof. by move=> h; rewrite /Model.get nth_rcons h. Qed.

Lemma get_rcons_new (L : mat F) row k : get (rcons L row) (size L) k = nth 0 row k.
Proof. by rewrite /Model.get nth_rcons ltnn eqxx. Qed.

Lemma crows_inv M i L : crows M i = (L, 0%N) -> chol_inv M i L.
Proof.
elim: i L => [|i IH] L /=; first by case=> <-; split.
case E: (crows M i) => [Ls info]; case: (altP (info =P 0%N)) => [e0|ne] /=; last first.
  by case=> _ e; rewrite e eqxx in ne.
rewrite e0 in E; have [sL rows pos eqs] := IH _ E.
set arow := nth [::] M i. set acc := crow Ls arow i.
set d := _ - _; case: ifP => // dpos [<-].
have sacc : size acc = i by rewrite size_crow.
have old r k : (r < i)%N -> get (rcons Ls (rcons acc (rsq d))) r k = get Ls r k.
  by move=> ri; rewrite get_rcons_old // sL.
have new_lt k : (k < i)%N -> get (rcons Ls (rcons acc (rsq d))) i k = vget acc k.
  by move=> ki; rewrite -{1}sL get_rcons_new nth_rcons sacc ki.
have new_eq : get (rcons Ls (rcons acc (rsq d))) i i = rsq d.
  by rewrite -{1}sL get_rcons_new nth_rcons sacc ltnn eqxx.
have d0 : 0 < d by move: dpos; rewrite /= /rlt.
split.
- by rewrite size_rcons sL.
- move=> r; rewrite ltnS leq_eqVlt => /orP[/eqP ->|ri].
  + by rewrite -{1}sL nth_rcons ltnn eqxx size_rcons sacc.
  + by rewrite nth_rcons sL ri; exact: rows.
- move=> r; rewrite ltnS leq_eqVlt => /orP[/eqP ->|ri].
  + by rewrite new_eq /rsq sqrtr_gt0.
  + by rewrite old //; exact: pos.
- move=> r c cr; rewrite ltnS leq_eqVlt => /orP[/eqP er|ri].
  + (* the new row *)
    rewrite er in cr *.
    move: cr; rewrite leq_eqVlt => /orP[/eqP ec|ci].
    * (* diagonal entry *)
      rewrite ec new_eq -expr2 /rsq sqr_sqrtr ?(ltW d0) //.
      under eq_bigr => k _ do rewrite new_lt //.
      by rewrite /d sumn_big addrC subrK.
    * (* entry c < i *)
      rewrite new_lt // (old c c ci).
      under eq_bigr => k _ do rewrite new_lt ?(ltn_trans _ ci) // (old c k ci).
      by apply: crow_eq => //; rewrite gt_eqF // pos.
  + have ci : (c < i)%N by exact: leq_ltn_trans cr ri.
    rewrite !old //; under eq_bigr => k _ do rewrite !old //.
    exact: eqs.
Qed.

Definition symmetric n (M : mat F) := forall i j, (i < n)%N -> (j < n)%N -> get M i j = get M j i.

Theorem chol_factor_correct n (M L : mat F) : chol RA n M = (L, 0%N) -> symmetric n M ->
  [/\ lower_tri rsq rlt n L, diag_nz rsq rlt n L
    & mx_of rsq rlt n n L *m (mx_of rsq rlt n n L)^T = mx_of rsq rlt n n M].
Proof.
move=> /crows_inv [sL rows pos eqs] sym.
have lo : lower_tri rsq rlt n L.
  move=> i j ij jn; rewrite /Model.get nth_default // rows //; exact: ltn_trans jn.
split => //; first by move=> i lin; rewrite gt_eqF // pos.
have half (r c : 'I_n) : (c <= r)%N -> \sum_(k < n) get L r k * get L c k = get M r c.
  move=> cr; rewrite (@sum_split3 _ n (fun k => get L r k * get L c k) c) //.
  have -> : \sum_(c.+1 <= k < n) get L r k * get L c k = 0.
    by rewrite big_nat_cond big1 // => k /andP[/andP[ck kn] _]; rewrite (lo c k) // mulr0.
  by rewrite addr0; exact: eqs.
apply/matrixP => r c; rewrite !mxE.
under eq_bigr => k _ do rewrite !mxE.
case: (leqP c r) => [cr|rc]; first exact: half.
rewrite sym //; under eq_bigr => k _ do rewrite mulrC.
by apply: half; exact: ltnW.
Qed.

End CholFactor.
