(* C04 — Kronecker products with any number of factors:
   (1) the rotation algorithm of KroneckerProductLinearOperator._matmul / _solve computes the Kronecker
       product of the per-factor actions        (run_correct, from DESIGN.md A.1)
   (2) mixed product  (⊗A_i)(⊗B_i) = ⊗(A_i B_i)  and  ⊗I = I                         (kron_mul, kron_delta)
   (3) hence per-factor solves give the solve with the Kronecker product           (kron_solve_fun)
   (4) the list-level kernel [krun] of Model.v is that algorithm                    (krun_run)          *)
From mathcomp Require Import all_ssreflect all_algebra.
From mathcomp Require Import zify.
From Coq Require Import Lia.
Require Import C04.Model C04.ProofsBridge.
Set Implicit Arguments.
Unset Strict Implicit.
Unset Printing Implicit Defensive.
Import GRing.Theory.

Section Kron.
Variable R : comRingType.
(* a factor: (m, n, entry function) *)
Record fac := Fac { fm : nat; fn : nat; fe : nat -> nat -> R }.
Definition prodm (ops: seq fac) : nat := (\prod_(o <- ops) fm o)%N.
Definition prodn (ops: seq fac) : nat := (\prod_(o <- ops) fn o)%N.

Fixpoint kron (ops: seq fac) (I J : nat) : R :=
  match ops with
  | [::] => 1%R
  | K :: ops' => (fe K (I %/ prodm ops') (J %/ prodn ops') * kron ops' (I %% prodm ops') (J %% prodn ops'))%R
  end.

(* one step of the library algorithm on a flat array f (function nat -> R), c columns *)
Definition step (K: fac) (Q c : nat) (f : nat -> R) : nat -> R :=
  fun idx => let col := idx %% c in let r := idx %/ c in
             let i := r %% fm K in let q := r %/ fm K in
             (\sum_(a < fn K) fe K i a * f ((a * Q + q) * c + col)%N)%R.

Fixpoint run (ops: seq fac) (P c : nat) (f : nat -> R) : nat -> R :=
  match ops with
  | [::] => f
  | K :: ops' => run ops' (P * fm K) c (step K (prodn ops' * P) c f)
  end.

Lemma sum_split (n N : nat) (F : nat -> R) :
  (\sum_(J < n * N) F J = \sum_(a < n) \sum_(J' < N) F (a * N + J')%N)%R.
Proof.
elim: n F => [|n IH] F; first by rewrite mul0n !big_ord0.
rewrite mulSn big_split_ord big_ord_recl /=.
rewrite [X in (_ = X + _)%R](eq_bigr (fun j : 'I_N => F j)); last by move=> j _; rewrite mul0n add0n.
congr (_ + _)%R. rewrite (IH (fun j => F (N + j)%N)).
apply: eq_bigr => a _; apply: eq_bigr => j _. by rewrite /bump /= add1n mulSn addnA.
Qed.

Fixpoint allpos (ops: seq fac) : bool :=
  if ops is o :: l then [&& 0 < fm o, 0 < fn o & allpos l] else true.

Lemma prodm_gt0 ops : allpos ops -> 0 < prodm ops.
Proof. rewrite /prodm; elim: ops => [|o l IH] /=; first by rewrite big_nil.
by case/and3P => a b /IH h; rewrite big_cons muln_gt0 a h. Qed.
Lemma prodn_gt0 ops : allpos ops -> 0 < prodn ops.
Proof. rewrite /prodn; elim: ops => [|o l IH] /=; first by rewrite big_nil.
by case/and3P => a b /IH h; rewrite big_cons muln_gt0 b h. Qed.

Theorem run_correct ops : forall P c (f : nat -> R) p I col,
  allpos ops -> 0 < c -> 0 < P ->
  p < P -> I < prodm ops -> col < c ->
  run ops P c f ((p * prodm ops + I) * c + col)
  = (\sum_(J < prodn ops) kron ops I J * f ((J * P + p) * c + col)%N)%R.
Proof.
elim: ops => [|K ops IH] P c f p I col Hpos c0 P0 pP IM colc.
- rewrite /prodm /prodn !big_nil in IM *. rewrite big_ord_recl big_ord0 /= addr0 mul1r.
  by move: IM; rewrite ltnS leqn0 => /eqP ->; rewrite muln1 addn0 mul0n add0n.
- case/and3P: Hpos => m0 n0 Hpos'.
  have M0 := prodm_gt0 Hpos'. have N0 := prodn_gt0 Hpos'.
  have eM : prodm (K :: ops) = fm K * prodm ops by rewrite /prodm big_cons.
  have eN : prodn (K :: ops) = fn K * prodn ops by rewrite /prodn big_cons.
  rewrite eM in IM. rewrite /= eM eN.
  set i1 := I %/ prodm ops. set I' := I %% prodm ops.
  have i1m : i1 < fm K by rewrite /i1 ltn_divLR // mulnC.
  have I'M : I' < prodm ops by rewrite /I' ltn_mod.
  have -> : (p * (fm K * prodm ops) + I) = ((p * fm K + i1) * prodm ops + I').
    by rewrite [in LHS](divn_eq I (prodm ops)) -/i1 -/I' mulnDl addnA mulnA.
  rewrite IH //; last first.
  + by apply: (@leq_trans (p.+1 * fm K)); [rewrite mulSn [fm K + _]addnC ltn_add2l | rewrite leq_pmul2r].
  + by rewrite muln_gt0 P0.
  rewrite (sum_split (fn K) (prodn ops) (fun J => fe K i1 (J %/ prodn ops) * kron ops I' (J %% prodn ops) * f ((J * P + p) * c + col)%N)%R).
  rewrite [RHS]exchange_big /=. apply: eq_bigr => J' _.
  have J'N : (J' : nat) < prodn ops by [].
  rewrite /step.
  have -> : ((J' * (P * fm K) + (p * fm K + i1)) * c + col) %% c = col.
    by rewrite modnMDl modn_small.
  have -> : ((J' * (P * fm K) + (p * fm K + i1)) * c + col) %/ c = (J' * P + p) * fm K + i1.
    by rewrite divnMDl // divn_small // addn0 mulnDl addnA mulnA.
  rewrite modnMDl modn_small // divnMDl // divn_small // addn0.
  rewrite big_distrr /=. apply: eq_bigr => a _.
  rewrite divnMDl // (divn_small J'N) addn0 modnMDl (modn_small J'N).
  rewrite mulrA [(kron _ _ _ * _)%R]mulrC -!mulrA. congr (_ * (_ * f _))%R.
  nia.
Qed.

(* ---------------------------------------------------------------- mixed product *)
Definition mulfac (A B : fac) : fac :=
  Fac (fm A) (fn B) (fun i l => \sum_(a < fn A) fe A i a * fe B a l)%R.

Fixpoint compat (As Bs : seq fac) : bool :=
  match As, Bs with
  | A :: As', B :: Bs' => (fn A == fm B) && compat As' Bs'
  | [::], [::] => true
  | _, _ => false
  end.

Fixpoint zipmul (As Bs : seq fac) : seq fac :=
  match As, Bs with
  | A :: As', B :: Bs' => mulfac A B :: zipmul As' Bs'
  | _, _ => [::]
  end.

Lemma compat_prod As Bs : compat As Bs -> prodn As = prodm Bs.
Proof.
elim: As Bs => [|A As IH] [|B Bs] //=; first by rewrite /prodn /prodm !big_nil.
by case/andP => /eqP e /IH h; rewrite /prodn /prodm !big_cons e -/(prodn As) -/(prodm Bs) h.
Qed.
Lemma zipmul_prodm As Bs : compat As Bs -> prodm (zipmul As Bs) = prodm As.
Proof.
elim: As Bs => [|A As IH] [|B Bs] //=.
by case/andP => _ /IH h; rewrite /prodm !big_cons -/(prodm _) h.
Qed.
Lemma zipmul_prodn As Bs : compat As Bs -> prodn (zipmul As Bs) = prodn Bs.
Proof.
elim: As Bs => [|A As IH] [|B Bs] //=.
by case/andP => _ /IH h; rewrite /prodn !big_cons -/(prodn _) h.
Qed.

Theorem kron_mul As : forall Bs I L, compat As Bs -> allpos As -> allpos Bs ->
  (\sum_(J < prodn As) kron As I J * kron Bs J L = kron (zipmul As Bs) I L)%R.
Proof.
elim: As => [|A As IH] [|B Bs] I L //=.
- by move=> _ _ _; rewrite /prodn big_nil big_ord_recl big_ord0 addr0 mulr1.
- case/andP => /eqP eAB cmp /and3P[_ nA pA] /and3P[mB _ pB].
  have eN : prodn (A :: As) = fn A * prodn As by rewrite /prodn big_cons.
  have N0 := prodn_gt0 pA.
  rewrite (zipmul_prodm cmp) (zipmul_prodn cmp) -(compat_prod cmp) eN.
  rewrite (sum_split (fn A) (prodn As) (fun J => fe A (I %/ prodm As) (J %/ prodn As) * kron As (I %% prodm As) (J %% prodn As) *
      (fe B (J %/ prodn As) (L %/ prodn Bs) * kron Bs (J %% prodn As) (L %% prodn Bs)))%R).
  rewrite mulr_suml; apply: eq_bigr => a _.
  rewrite -(IH Bs _ _ cmp pA pB) mulr_sumr; apply: eq_bigr => J' _.
  have J'N : (J' : nat) < prodn As by [].
  rewrite divnMDl // (divn_small J'N) addn0 modnMDl (modn_small J'N).
  by rewrite mulrACA.
Qed.

(* factors that are identity matrices *)
Definition idfac (m : nat) : fac := Fac m m (fun i j => (i == j)%:R)%R.

Lemma prodm_idfac ms : prodm (map idfac ms) = (\prod_(m <- ms) m)%N.
Proof. by rewrite /prodm big_map. Qed.
Lemma prodn_idfac ms : prodn (map idfac ms) = (\prod_(m <- ms) m)%N.
Proof. by rewrite /prodn big_map. Qed.
Lemma prod_gt0 (ms : seq nat) : all (fun m => 0 < m) ms -> 0 < (\prod_(m <- ms) m)%N.
Proof. by elim: ms => [|x l ih] /=; rewrite ?big_nil ?big_cons // => /andP[x0 /ih h]; rewrite muln_gt0 x0. Qed.

Lemma kron_delta ms I J : all (fun m => 0 < m) ms ->
  I < prodm (map idfac ms) -> J < prodm (map idfac ms) ->
  kron (map idfac ms) I J = ((I == J)%:R)%R.
Proof.
elim: ms I J => [|m ms IH] I J /=.
- by rewrite /prodm big_nil !ltnS !leqn0 => _ /eqP -> /eqP ->; rewrite eqxx.
- case/andP => m0 pos.
  have P0 : 0 < prodm (map idfac ms) by rewrite prodm_idfac prod_gt0.
  have eP : prodn (map idfac ms) = prodm (map idfac ms) by rewrite prodm_idfac prodn_idfac.
  rewrite /prodm big_cons -/(prodm _) eP => IM JM.
  rewrite IH ?ltn_mod // /= -natrM mulnb; congr (_%:R)%R; congr nat_of_bool.
  apply/andP/eqP => [[/eqP h1 /eqP h2]|-> //].
  by rewrite (divn_eq I (prodm (map idfac ms))) (divn_eq J (prodm (map idfac ms))) h1 h2.
Qed.

(* ---------------------------------------------------------------- extensionality on the index ranges *)
Fixpoint same_on (As Bs : seq fac) : Prop :=
  match As, Bs with
  | A :: As', B :: Bs' =>
      [/\ fm A = fm B, fn A = fn B, (forall i j, i < fm A -> j < fn A -> fe A i j = fe B i j) & same_on As' Bs']
  | [::], [::] => True
  | _, _ => False
  end.

Lemma same_on_prod As Bs : same_on As Bs -> prodm As = prodm Bs /\ prodn As = prodn Bs.
Proof.
elim: As Bs => [|A As IH] [|B Bs] //= [em en _ /IH [hm hn]].
by rewrite /prodm /prodn !big_cons -/(prodm As) -/(prodn As) -/(prodm Bs) -/(prodn Bs) em en hm hn.
Qed.

Lemma kron_ext As : forall Bs I J, same_on As Bs -> allpos As ->
  I < prodm As -> J < prodn As -> kron As I J = kron Bs I J.
Proof.
elim: As => [|A As IH] [|B Bs] I J //= [em en ee so] /and3P[m0 n0 pA].
have [hm hn] := same_on_prod so.
have M0 := prodm_gt0 pA. have N0 := prodn_gt0 pA.
rewrite /prodm /prodn !big_cons -/(prodm As) -/(prodn As) => IM JN.
rewrite -/(prodm Bs) -/(prodn Bs) -hm -hn ee ?(IH Bs) ?ltn_mod //.
- by rewrite ltn_divLR // mulnC.
- by rewrite ltn_divLR // mulnC.
Qed.

(* per-factor inverses give the inverse of the Kronecker product, any number of factors *)
Fixpoint inv_pairs (As Bs : seq fac) : Prop :=
  match As, Bs with
  | A :: As', B :: Bs' =>
      [/\ fm A = fn A, fm B = fm A, fn B = fm A,
          (forall i l, i < fm A -> l < fm A -> (\sum_(a < fm A) fe A i a * fe B a l)%R = ((i == l)%:R)%R)
        & inv_pairs As' Bs']
  | [::], [::] => True
  | _, _ => False
  end.

Lemma inv_pairs_compat As Bs : inv_pairs As Bs -> compat As Bs.
Proof. by elim: As Bs => [|A As IH] [|B Bs] //= [e1 e2 e3 _ /IH ->]; rewrite -e1 e2 eqxx. Qed.

Lemma inv_pairs_same As Bs : inv_pairs As Bs -> same_on (zipmul As Bs) (map idfac (map fm As)).
Proof.
elim: As Bs => [|A As IH] [|B Bs] //= [e1 e2 e3 H /IH h]; split => //.
by move=> i j im; rewrite e3 => jm; rewrite -e1; exact: H.
Qed.

Lemma inv_pairs_pos As Bs : inv_pairs As Bs -> allpos As -> allpos Bs.
Proof.
elim: As Bs => [|A As IH] [|B Bs] //= [e1 e2 e3 _ /IH h] /and3P[m0 _ /h ->].
by rewrite e2 e3 m0.
Qed.

Lemma zipmul_allpos As Bs : compat As Bs -> allpos As -> allpos Bs -> allpos (zipmul As Bs).
Proof.
elim: As Bs => [|A As IH] [|B Bs] //= /andP[_ /IH h] /and3P[m0 _ /h h'] /and3P[_ n0 /h' ->].
by rewrite m0 n0.
Qed.

(* (⊗ A_i)(⊗ B_i) = I when A_i B_i = I for every factor *)
Lemma kron_inv_delta As Bs I L : inv_pairs As Bs -> allpos As -> I < prodm As -> L < prodm As ->
  (\sum_(J < prodn As) kron As I J * kron Bs J L)%R = ((I == L)%:R)%R.
Proof.
move=> ip pA IM LM.
have cmp := inv_pairs_compat ip. have pB := inv_pairs_pos ip pA.
have pZ := zipmul_allpos cmp pA pB.
have eZm := zipmul_prodm cmp. have eZn := zipmul_prodn cmp.
have sm := inv_pairs_same ip.
have [sm1 sm2] := same_on_prod sm.
have sq : prodn Bs = prodm As by rewrite -eZn sm2 prodn_idfac -prodm_idfac -sm1 eZm.
have pos : all (fun m => 0 < m) (map fm As) by elim: (As) pA => [|A l ih] //= /and3P[-> _ /ih].
rewrite (kron_mul _ _ cmp pA pB) (kron_ext sm pZ) ?eZm ?eZn ?sq //.
by rewrite kron_delta // prodm_idfac -prodm_idfac -sm1 eZm.
Qed.

Theorem kron_solve_fun As Bs c (f : nat -> R) I col :
  inv_pairs As Bs -> allpos As -> 0 < c -> I < prodm As -> col < c ->
  (\sum_(I' < prodn As) kron As I I' * run Bs 1 c f (I' * c + col)%N)%R = f (I * c + col)%N.
Proof.
move=> ip pA c0 IM colc.
have cmp := inv_pairs_compat ip. have pB := inv_pairs_pos ip pA.
have eNM := compat_prod cmp.
have pZ : allpos (zipmul As Bs).
  elim: As Bs cmp pA pB {ip eNM IM} => [|A As IH] [|B Bs] //= /andP[_ /IH h] /and3P[m0 _ /h h'] /and3P[_ n0 /h' ->].
  by rewrite m0 n0.
have eZm := zipmul_prodm cmp. have eZn := zipmul_prodn cmp.
have sm := inv_pairs_same ip.
have [sm1 sm2] := same_on_prod sm.
have sq : prodn Bs = prodm As.
  by rewrite -eZn sm2 prodn_idfac -prodm_idfac -sm1 eZm.
transitivity (\sum_(I' < prodn As) kron As I I' * (\sum_(J < prodn Bs) kron Bs I' J * f ((J * 1 + 0) * c + col)%N))%R.
  apply: eq_bigr => I' _; congr (_ * _)%R.
  have I'M : (I' : nat) < prodm Bs by rewrite -eNM.
  by rewrite -(run_correct f pB c0 (ltn0Sn 0) (ltn0Sn 0) I'M colc) mul0n add0n.
under eq_bigr => I' _ do rewrite mulr_sumr.
rewrite exchange_big /=.
under eq_bigr => J _ do (under eq_bigr => I' _ do rewrite mulrA); rewrite /=.
under eq_bigr => J _ do rewrite -mulr_suml (kron_mul _ _ cmp pA pB).
have pos : all (fun m => 0 < m) (map fm As).
  by elim: (As) pA => [|A l ih] //= /and3P[-> _ /ih].
rewrite sq.
rewrite (bigD1 (Ordinal IM)) //= big1 ?addr0; last first.
  move=> J ne; rewrite (kron_ext sm pZ) ?eZm ?eZn ?sq //.
  rewrite kron_delta // ?prodm_idfac -?prodm_idfac -?sm1 ?eZm //.
  by rewrite -(inj_eq val_inj) /= eq_sym in ne; rewrite (negbTE ne) mul0r.
rewrite (kron_ext sm pZ) ?eZm ?eZn ?sq // kron_delta // ?prodm_idfac -?prodm_idfac -?sm1 ?eZm //.
by rewrite eqxx mul1r muln1 addn0.
Qed.

End Kron.

(* ======================================================================================== *)
(* the list-level kernel of Model.v is the algorithm above *)
Section KronBridge.
Variable F : fieldType.
Variable sq : F -> F.
Variable lt : F -> F -> bool.
Local Notation FA := (FA sq lt).
Local Notation vget := (vget FA).

Lemma idx_bound a y q Q col c : a < y -> q < Q -> col < c -> (a * Q + q) * c + col < y * Q * c.
Proof.
move=> ay qQ cc; apply: (@leq_trans ((a * Q + q).+1 * c)); first by rewrite mulSn [c + _]addnC ltn_add2l.
rewrite leq_mul2r; apply/orP; right; apply: (@leq_trans (a.+1 * Q)).
  by rewrite mulSn [Q + _]addnC -addnS leq_add2l.
by rewrite leq_mul2r ay orbT.
Qed.

Lemma run_ext (ops : seq (fac F)) : forall P c (f g : nat -> F),
  allpos ops -> 0 < c ->
  (forall idx, idx < prodn ops * P * c -> f idx = g idx) ->
  forall idx, idx < prodm ops * P * c -> run ops P c f idx = run ops P c g idx.
Proof.
elim: ops => [|K ops IH] P c f g //=.
- by move=> _ _ H idx; rewrite /prodm /prodn !big_nil in H *; exact: H.
- case/and3P => m0 n0 pos c0 H idx.
  rewrite /prodm /prodn !big_cons -/(prodm ops) -/(prodn ops) in H * => lt_idx.
  apply: IH => //; last by move: lt_idx; move: (prodm ops) (fm K) => x y; nia.
  move=> j ltj; rewrite /step; apply: eq_bigr => a _; congr (_ * _)%R; apply: H.
  have a_lt : (a : nat) < fn K by [].
  have : j %/ c %/ fm K < prodn ops * P.
    rewrite !ltn_divLR //; move: ltj; move: (prodn ops) (fm K) => x y; nia.
  have : j %% c < c by rewrite ltn_mod.
  by move=> colc qQ; rewrite -[fn K * _ * _]mulnA; exact: idx_bound.
Qed.

(* a list-level factor action is multiplication by the m x m matrix with entries e *)
Definition lin_act (m : nat) (act : vec F -> vec F) (e : nat -> nat -> F) : Prop :=
  forall v i, i < m -> vget (act v) i = (\sum_(a < m) e i a * vget v a)%R.

Fixpoint lin_acts (fs : seq (nat * (vec F -> vec F))) (ops : seq (fac F)) : Prop :=
  match fs, ops with
  | (m, act) :: fs', K :: ops' => [/\ fm K = m, fn K = m, lin_act m act (fe K) & lin_acts fs' ops']
  | [::], [::] => True
  | _, _ => False
  end.

Lemma lin_acts_prod fs ops : lin_acts fs ops -> Model.prodm fs = prodm ops /\ Model.prodm fs = prodn ops.
Proof.
elim: fs ops => [|[m act] fs IH] [|K ops] //=; first by rewrite /prodm /prodn !big_nil.
by case=> em en _ /IH [h1 h2]; rewrite /prodm /prodn !big_cons -/(prodm ops) -/(prodn ops) em en -h1 -h2.
Qed.

Lemma kstep_step m act e Q c (f : vec F) idx : lin_act m act e -> 0 < c -> 0 < m ->
  idx < m * Q * c ->
  vget (kstep FA act m Q c f) idx = step (Fac m m e) Q c (vget f) idx.
Proof.
move=> la c0 m0 lt_idx; rewrite /kstep /Model.vget nth_mkseq // -/(Model.vget FA _ _) la /=; last by rewrite ltn_mod.
by rewrite /step /=; apply: eq_bigr => a _; rewrite /Model.vget nth_mkseq.
Qed.

Lemma krun_run fs : forall ops P c (f : vec F), lin_acts fs ops -> allpos ops -> 0 < c ->
  forall idx, idx < prodm ops * P * c -> vget (krun FA fs P c f) idx = run ops P c (vget f) idx.
Proof.
elim: fs => [|[m act] fs IH] [|K ops] P c f //= [em en la ls] /and3P[m0 n0 pos] c0 idx.
rewrite /prodm big_cons -/(prodm ops) => lt_idx.
have [h1 h2] := lin_acts_prod ls.
rewrite (IH ops) //; last by move: lt_idx; rewrite em; move: (prodm ops) => x; nia.
rewrite [P * fm K]/(P * _) em.
apply: run_ext => //; last by move: lt_idx; rewrite em; move: (prodm ops) => x; nia.
move=> j ltj.
have -> : K = Fac m m (fe K) by case: (K) em en => a b e /= -> ->.
rewrite h2; apply: kstep_step => //=; first by rewrite -em.
by move: ltj; move: (prodn ops) => x; nia.
Qed.

(* KroneckerProductLinearOperator._solve / KroneckerProductTriangular solves, list level:
   if every factor action is multiplication by B_i and A_i B_i = I, then the Kronecker product of the
   A_i applied to the result of the rotation algorithm gives back the right-hand side — any number of factors. *)
Theorem kron_apply_correct fs (As Bs : seq (fac F)) c (X : cols F) I col :
  lin_acts fs Bs -> inv_pairs As Bs -> allpos As -> 0 < c -> I < prodm As -> col < c ->
  (\sum_(I' < prodn As) kron As I I' * vget (nth [::] (kron_apply FA fs c X) col) I')%R
  = vget (nth [::] X col) I.
Proof.
move=> la ip pA c0 IM colc.
have [h1 h2] := lin_acts_prod la.
have cmp := inv_pairs_compat ip. have pB := inv_pairs_pos ip pA.
have eNM := compat_prod cmp.
set N := Model.prodm fs.
set f := flat_of_cols FA N c X.
have ef idx : idx < N * c -> vget f idx = vget (nth [::] X (idx %% c)) (idx %/ c).
  by move=> h; rewrite /f /flat_of_cols /Model.vget nth_mkseq.
rewrite -[RHS](_ : vget f (I * c + col) = _); last first.
  have sqm : prodm As = N.
    have sm := inv_pairs_same ip. have [sm1 sm2] := same_on_prod sm.
    by rewrite /N h2 -(zipmul_prodn cmp) sm2 (@prodn_idfac F) -(@prodm_idfac F) -sm1 (zipmul_prodm cmp).
  rewrite ef; first by rewrite modnMDl modn_small // divnMDl // divn_small // addn0.
  by rewrite -sqm; apply: (@leq_trans (I.+1 * c)); [rewrite mulSn [c + _]addnC ltn_add2l | rewrite leq_mul2r IM orbT].
rewrite -(kron_solve_fun (vget f) ip pA c0 IM colc).
apply: eq_bigr => I' _; congr (_ * _)%R.
have I'N : (I' : nat) < N by rewrite /N h1 -eNM.
rewrite /kron_apply -/N -/f /cols_of_flat /Model.vget nth_mkseq // nth_mkseq // -/(Model.vget FA _ _).
apply: krun_run => //; rewrite muln1 -h1 -/N.
by apply: (@leq_trans (I'.+1 * c)); [rewrite mulSn [c + _]addnC ltn_add2l | rewrite leq_mul2r I'N orbT].
Qed.

End KronBridge.
