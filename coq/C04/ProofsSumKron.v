(* C04 — SumKroneckerLinearOperator._solve (structured branch, exact roots):
     (kron A_i + kron C_i) x = b   is solved by   x = (kron R_i) (S + I)^-1 (kron R_i)^T b,
   R_i an inverse root of C_i (R_i^T C_i R_i = I), S = kron (R_i^T A_i R_i) = Qb diag(Wb) Qb^T (eigh oracle),
   (S + I)^-1 by the eigen-shift with sigma = 1.  Any number of factors.
   [sumkron_apply] is the executable kernel of Model.v. *)
From mathcomp Require Import all_ssreflect all_algebra.
Require Import C04.Model C04.ProofsBridge C04.ProofsKron C04.ProofsEig C04.ProofsCholFactor C04.ProofsEigKron C04.ProofsKronDiag.
Set Implicit Arguments.
Unset Strict Implicit.
Unset Printing Implicit Defensive.
Import Order.Theory GRing.Theory Num.Theory.
Local Open Scope ring_scope.

Section SumKron.
Variable F : rcfType.
Local Notation RA := (FA (@rsq F) (@rlt F)).
Local Notation cvo := (cv_of (@rsq F) (@rlt F)).
Local Notation vget := (vget RA).
Local Notation get := (get RA).
Local Notation eigd := (eigd F).

(* one Kronecker position: size m, the entries of A_i and C_i, the inverse root R_i, the oracle (Q_i, w_i) *)
Record skf := Skf { skm : nat; skA : nat -> nat -> F; skC : nat -> nat -> F; skR : mat F; skQ : mat F; skw : vec F }.

Definition eig_of (p : skf) : eigd := (skm p, skQ p, skw p).
Definition afac (p : skf) : fac F := Fac (skm p) (skm p) (skA p).
Definition cfac (p : skf) : fac F := Fac (skm p) (skm p) (skC p).
Definition rfac (p : skf) : fac F := Fac (skm p) (skm p) (get (skR p)).
Definition rtfac (p : skf) : fac F := Fac (skm p) (skm p) (get (trm RA (skm p) (skR p))).

Definition sk_ok (p : skf) : Prop :=
  [/\ eig_wf (eig_of p),
      (forall i j, (i < skm p)%N -> (j < skm p)%N -> fe (mulfac (mulfac (rtfac p) (cfac p)) (rfac p)) i j = (i == j)%:R)
    & forall i j, (i < skm p)%N -> (j < skm p)%N -> fe (mulfac (mulfac (rtfac p) (afac p)) (rfac p)) i j = qwq (eig_of p) i j].

Fixpoint all_sk (ps : seq skf) : Prop := if ps is p :: ps' then sk_ok p /\ all_sk ps' else True.

Definition es_of (ps : seq skf) := map eig_of ps.
Definition As_of (ps : seq skf) := map afac ps.
Definition Cs_of (ps : seq skf) := map cfac ps.
Definition Rs_of (ps : seq skf) := map rfac ps.
Definition Rts_of (ps : seq skf) := map rtfac ps.

Lemma sk_global ps : all_sk ps ->
  let N := prodm (map (@qfac F) (es_of ps)) in
  [/\ all_eig_wf (es_of ps),
      [/\ prodm (As_of ps) = N, prodn (As_of ps) = N, prodm (Cs_of ps) = N & prodn (Cs_of ps) = N],
      [/\ prodm (Rs_of ps) = N, prodn (Rs_of ps) = N, prodm (Rts_of ps) = N & prodn (Rts_of ps) = N],
      [/\ allpos (As_of ps), allpos (Cs_of ps), allpos (Rs_of ps) & allpos (Rts_of ps)]
    & [/\ compat (Rts_of ps) (As_of ps), compat (zipmul (Rts_of ps) (As_of ps)) (Rs_of ps),
          compat (Rts_of ps) (Cs_of ps), compat (zipmul (Rts_of ps) (Cs_of ps)) (Rs_of ps)
        & same_on (zipmul (zipmul (Rts_of ps) (As_of ps)) (Rs_of ps)) (zz (es_of ps)) /\
          same_on (zipmul (zipmul (Rts_of ps) (Cs_of ps)) (Rs_of ps)) (map (@idfac F) (map skm ps))]].
Proof.
elim: ps => [|p ps IH] /=; first by rewrite /prodm /prodn !big_nil.
case=> [[wfe hC hA] /IH [wfa [pa1 pa2 pc1 pc2] [pr1 pr2 pt1 pt2] [qa qc qr qt] [k1 k2 k3 k4 [s1 s2]]]].
have [m0 _ _] := wfe.
rewrite !prodm_cons !prodn_cons /= pa1 pa2 pc1 pc2 pr1 pr2 pt1 pt2.
have m0' : (0 < skm p)%N := m0.
split=> //.
- by rewrite m0' qa qc qr qt.
- rewrite !eqxx k1 k2 k3 k4; split=> //; split.
  + split=> //= i j li lj; have := hA i j li lj; rewrite /= => ->.
    by rewrite -(@qdq_entry F (eig_of p) i j li lj).
  + by split=> //= i j li lj; have := hC i j li lj; rewrite /= => ->.
Qed.

(* kron of the transposed roots is the transposed kron *)
Lemma kron_rt ps I J : all_sk ps ->
  (I < prodm (map (@qfac F) (es_of ps)))%N -> (J < prodm (map (@qfac F) (es_of ps)))%N ->
  kron (Rts_of ps) I J = kron (Rs_of ps) J I.
Proof.
elim: ps I J => [|p ps IH] I J //= [[wfe _ _] wf].
have [wfa _ [pr1 pr2 pt1 pt2] _ _] := sk_global wf.
have [m0 _ _] := wfe.
have [posq _] := q_allpos wfa. have P0 := prodm_gt0 posq.
rewrite prodm_cons /= => IM JM.
rewrite -/(Rts_of ps) -/(Rs_of ps) pr1 pr2 pt1 pt2 IH ?ltn_mod // get_mtab // ltn_divLR // mulnC //.
Qed.

Lemma r_lin_acts ps :
  lin_acts (@rsq F) (@rlt F) (map (fun x : nat * mat F => (x.1, matvec RA x.1 x.1 x.2)) (map (fun p => (skm p, skR p)) ps)) (Rs_of ps) /\
  lin_acts (@rsq F) (@rlt F) (map (fun x : nat * mat F => (x.1, matvec RA x.1 x.1 (trm RA x.1 x.2))) (map (fun p => (skm p, skR p)) ps)) (Rts_of ps).
Proof. by elim: ps => [|p ps [IH1 IH2]] //=; split; split=> //; exact: matvec_lin_act. Qed.

Theorem sumkron_apply_correct ps c (X : cols F) col :
  all_sk ps -> (0 < c)%N -> (col < c)%N ->
  let N := prodm (map (@qfac F) (es_of ps)) in
  let Ab : 'M[F]_N := \matrix_(I, J) kron (As_of ps) I J in
  let Cb : 'M[F]_N := \matrix_(I, J) kron (Cs_of ps) I J in
  let Wb : 'rV[F]_N := \row_J vget (kron_evals RA (map snd (es_of ps))) J in
  (forall J : 'I_N, 0 < Wb 0 J + 1) ->
  (Ab + Cb) *m cvo N (nth [::] (sumkron_apply RA (map (fun p => (skm p, skR p)) ps) (es_of ps) c X) col)
  = cvo N (nth [::] X col).
Proof.
move=> H c0 colc N Ab Cb Wb posW.
have [wfa [pa1 pa2 pc1 pc2] [pr1 pr2 pt1 pt2] [qa qc qr qt] [k1 k2 k3 k4 [s1 s2]]] := sk_global H.
have [la lat] := r_lin_acts ps.
pose Rb : 'M[F]_N := \matrix_(I, J) kron (Rs_of ps) I J.
pose Qb : 'M[F]_N := \matrix_(I, J) kron (map (@qfac F) (es_of ps)) I J.
pose S : 'M[F]_N := Qb *m diag_mx Wb *m Qb^T.
have pzA : allpos (zipmul (Rts_of ps) (As_of ps)) by exact: zipmul_allpos.
have pzC : allpos (zipmul (Rts_of ps) (Cs_of ps)) by exact: zipmul_allpos.
have pzzA : allpos (zipmul (zipmul (Rts_of ps) (As_of ps)) (Rs_of ps)) by exact: zipmul_allpos.
have pzzC : allpos (zipmul (zipmul (Rts_of ps) (Cs_of ps)) (Rs_of ps)) by exact: zipmul_allpos.
(* Rb^T A Rb = S,  Rb^T C Rb = I *)
have triple (Ms : seq (fac F)) (Mb : 'M[F]_N) (I J : 'I_N) : compat (Rts_of ps) Ms -> compat (zipmul (Rts_of ps) Ms) (Rs_of ps) ->
    allpos Ms -> prodm Ms = N -> prodn Ms = N -> (forall a b, Mb a b = kron Ms a b) ->
    (Rb^T *m Mb *m Rb) I J = kron (zipmul (zipmul (Rts_of ps) Ms) (Rs_of ps)) I J.
  move=> cm1 cm2 pM em en eM.
  rewrite -(kron_mul _ _ cm2 (zipmul_allpos cm1 qt pM) qr) (zipmul_prodn cm1) en mxE.
  apply: eq_bigr => b _; rewrite [Rb b J]mxE; congr (_ * _).
  rewrite -(kron_mul _ _ cm1 qt pM) pt2 mxE.
  by apply: eq_bigr => a _; rewrite eM !mxE (kron_rt H).
have M1 : Rb^T *m Ab *m Rb = S.
  apply/matrixP => I J; rewrite (triple (As_of ps) Ab I J) // ?(QWQ_entry I J wfa); last by move=> a b; rewrite mxE.
  by rewrite (kron_ext s1 pzzA) // ?(zipmul_prodm k2) ?(zipmul_prodn k2) ?(zipmul_prodm k1) ?pt1 ?pr2.
have M2 : Rb^T *m Cb *m Rb = 1%:M.
  apply/matrixP => I J; rewrite (triple (Cs_of ps) Cb I J) //; last by move=> a b; rewrite mxE.
  rewrite (kron_ext s2 pzzC) ?(zipmul_prodm k4) ?(zipmul_prodn k4) ?(zipmul_prodm k3) ?pt1 ?pr2 //.
  have posm : all (fun m => 0 < m)%N (map skm ps) by elim: (ps) H => [|p l ih] //= [[[m0 _ _] _ _] /ih ->]; rewrite andbT.
  have em : prodm (map (@idfac F) (map skm ps)) = N.
    by rewrite prodm_idfac /N /es_of /prodm !big_map.
  by rewrite kron_delta ?em // mxE -(inj_eq val_inj).
have un : Rb^T \in unitmx by move: M2; rewrite -mulmxA => /mulmx1_unit [].
(* the kernel *)
rewrite /sumkron_apply.
set Z := kron_apply RA _ c X.
set Y := eigshift_solve RA _ _ c Z.
have eY := eigshift_solve_correct Z wfa c0 colc posW; rewrite -/Qb -/S -/Y in eY.
have eZ : cvo N (nth [::] Z col) = Rb^T *m cvo N (nth [::] X col).
  apply/colP => I; rewrite !mxE.
  have IM : (I < prodm (Rts_of ps))%N by rewrite pt1.
  rewrite /Z (kron_apply_mul _ lat qt c0 IM colc) pt2.
  by apply: eq_bigr => J _; rewrite !mxE (kron_rt H).
have eX : cvo N (nth [::] (kron_apply RA [seq (x.1, matvec RA x.1 x.1 x.2) | x <- [seq (skm p, skR p) | p <- ps]] c Y) col)
        = Rb *m cvo N (nth [::] Y col).
  apply/colP => I; rewrite !mxE.
  have IM : (I < prodm (Rs_of ps))%N by rewrite pr1.
  rewrite (kron_apply_mul _ la qr c0 IM colc) pr2.
  by apply: eq_bigr => J _; rewrite !mxE.
rewrite eX; apply: (can_inj (mulKmx un)).
rewrite !mulmxA mulmxDr mulmxDl M1 M2 -eZ.
exact: eY.
Qed.

End SumKron.
