(* C04 — executable Gallina model of how `solve` picks its algorithm and of every direct solve
   kernel the selected paths run.

   Transcribed code (linear_operator/…):
     operators/_linear_operator.py   LinearOperator.solve, _cholesky (size-1 shortcut, psd_safe_cholesky),
                                     cholesky, _solve (linear_cg), _solve_preconditioner, _preconditioner
     functions/_solve.py             _solve (the three-way branch), Solve.forward (left factor handling)
     operators/chol_linear_operator.py, triangular_linear_operator.py, dense_linear_operator.py,
     diag_linear_operator.py, identity_linear_operator.py, kronecker_product_linear_operator.py,
     kronecker_product_added_diag_linear_operator.py, low_rank_root_added_diag_linear_operator.py,
     block_diag_linear_operator.py, block_interleaved_linear_operator.py, batch_repeat_linear_operator.py,
     added_diag_linear_operator.py (_preconditioner guard), permutation_linear_operator.py

   Definitions only.  Everything numeric is polymorphic in an arithmetic record [Arith F]: the same
   terms are executed on PrimFloat (binary64) by the correspondence shards (Check.v) and reasoned
   about over an arbitrary field / real closed field (Proofs*.v).

   Data layout.  A matrix is the list of its rows; a right-hand side / solution of shape (n, c) is the
   list of its c COLUMNS (every kernel acts column by column); flat row-major arrays are used where
   the library reshapes (Kronecker rotation).  Batches are handled member by member by the harness
   (the library code only uses per-member primitives on these paths), except BatchRepeat whose column
   folding is modelled explicitly.

   torch primitives modelled by their mathematical meaning:
     torch.linalg.cholesky_ex      -> [chol]  (Cholesky–Banachiewicz, row by row; info = first bad pivot)
     torch.linalg.solve_triangular -> [tri_solve] (forward / back substitution; reads ONLY the triangle
                                      named by `upper`, like LAPACK trtrs)
     torch.cholesky_solve          -> [chol_solve] (potrs: two substitutions on the named triangle)
     torch.linalg.eigh             -> an oracle: the eigen-pairs are inputs whose specification
                                      (Q^T Q = I, Q diag(w) Q^T = K) is a hypothesis of the theorems and is
                                      checked numerically by Check.v on every case
     matmul / elementwise ops / view / permute / reshape -> sums and index maps
     linear_cg                     -> not transcribed here (C08); its result is characterised by the
                                      residual predicate [resid_ok] (Check.v)                                   *)
From mathcomp Require Import ssreflect ssrfun ssrbool eqtype ssrnat seq div.
Set Implicit Arguments.
Unset Strict Implicit.
Unset Printing Implicit Defensive.

Record Arith (F : Type) := MkArith {
  a0 : F; a1 : F;
  aadd : F -> F -> F; asub : F -> F -> F; amul : F -> F -> F; adiv : F -> F -> F;
  asqrt : F -> F;
  altb : F -> F -> bool          (* x < y ; false when either side is NaN *)
}.

(* ======================================================================================== *)
(* 1. numeric kernels                                                                        *)
Section Kernels.
Variable F : Type.
Variable A : Arith F.

Definition vec := seq F.
Definition mat := seq (seq F).     (* rows *)
Definition cols := seq vec.        (* columns of an (n, c) tensor *)

Definition vget (v : vec) (i : nat) : F := nth (a0 A) v i.
Definition get (M : mat) (i j : nat) : F := nth (a0 A) (nth [::] M i) j.
Definition vtab (n : nat) (f : nat -> F) : vec := mkseq f n.
Definition mtab (m n : nat) (f : nat -> nat -> F) : mat := mkseq (fun i => mkseq (f i) n) m.

(* sequential sum ((0 + f 0) + f 1) + … *)
Fixpoint sumn_ (f : nat -> F) (k : nat) : F :=
  if k is k'.+1 then aadd A (sumn_ f k') (f k') else a0 A.

Definition trm (n : nat) (M : mat) : mat := mtab n n (fun i j => get M j i).          (* M.mT *)
Definition matvec (m n : nat) (M : mat) (x : vec) : vec :=
  vtab m (fun i => sumn_ (fun j => amul A (get M i j) (vget x j)) n).
Definition vsub (n : nat) (x y : vec) : vec := vtab n (fun i => asub A (vget x i) (vget y i)).
Definition dot (n : nat) (x y : vec) : F := sumn_ (fun i => amul A (vget x i) (vget y i)) n.

(* ---------------------------------------------------------------- triangular substitution
   forward substitution: the first k entries of the solution of T x = b for LOWER triangular T;
   only entries T[i][j], j <= i, are read *)
Fixpoint fsub (T : mat) (b : vec) (k : nat) : vec :=
  if k is k'.+1 then
    let xs := fsub T b k' in
    rcons xs (adiv A (asub A (vget b k') (sumn_ (fun j => amul A (get T k' j) (vget xs j)) k'))
                     (get T k' k'))
  else [::].

(* reversal of both index directions turns the upper triangle into the lower one *)
Definition flip (n : nat) (T : mat) : mat := mtab n n (fun i j => get T (n.-1 - i) (n.-1 - j)).
Definition vrev (n : nat) (b : vec) : vec := vtab n (fun i => vget b (n.-1 - i)).

(* torch.linalg.solve_triangular(T, b, upper=upper) for one column.
   upper: back substitution (x_{n-1} first), expressed through the index reversal *)
Definition tri_solve (upper : bool) (n : nat) (T : mat) (b : vec) : vec :=
  if upper then vrev n (fsub (flip n T) (vrev n b) n) else fsub T b n.

(* torch.cholesky_solve(b, Fm, upper=upper):
     upper = false: A = Fm Fm^T, Fm's LOWER triangle is read;   x = Fm^-T (Fm^-1 b)
     upper = true : A = Fm^T Fm, Fm's UPPER triangle is read;   x = Fm^-1 (Fm^-T b)          *)
(* The same two substitutions are the FALL-BACK of TriangularLinearOperator._cholesky_solve for a factor that wraps a tensor without
   a structured _cholesky_solve (a ConstantMul after `chol_op * c`, an AddedDiag after `tri + Diag` / add_diagonal):
     upper: w = self._transpose_nonbatch().solve(rhs); res = self.solve(w)       lower: w = self.solve(rhs); res = self^T.solve(w) *)
Definition chol_solve (upper : bool) (n : nat) (Fm : mat) (b : vec) : vec :=
  if upper then tri_solve true n Fm (tri_solve false n (trm n Fm) b)
  else tri_solve true n (trm n Fm) (tri_solve false n Fm b).

(* ---------------------------------------------------------------- Cholesky–Banachiewicz
   entries 0 … j-1 of row i of L, given the finished rows Ls = rows 0 … i-1 and row i of the matrix *)
Fixpoint crow (Ls : mat) (arow : vec) (j : nat) : vec :=
  if j is j'.+1 then
    let acc := crow Ls arow j' in
    let lj := nth [::] Ls j' in
    rcons acc (adiv A (asub A (vget arow j') (sumn_ (fun k => amul A (vget acc k) (vget lj k)) j'))
                      (vget lj j'))
  else [::].

(* rows 0 … i-1 of L and `info` (0 = success, otherwise the 1-based index of the first pivot that
   is not > 0, NaN included — the convention of cholesky_ex) *)
Fixpoint crows (M : mat) (i : nat) : mat * nat :=
  if i is i'.+1 then
    let: (Ls, info) := crows M i' in
    if info != 0 then (Ls, info) else
    let arow := nth [::] M i' in
    let acc := crow Ls arow i' in
    let d := asub A (vget arow i') (sumn_ (fun k => amul A (vget acc k) (vget acc k)) i') in
    if altb A (a0 A) d then (rcons Ls (rcons acc (asqrt A d)), 0) else (Ls, i'.+1)
  else ([::], 0).
Definition chol (n : nat) (M : mat) : mat * nat := crows M n.
(* rows of L are ragged (row i has i+1 entries); [get] reads the missing upper part as 0 *)

(* ---------------------------------------------------------------- psd_safe_cholesky (utils/cholesky.py)
   _psd_safe_cholesky factorises a whole BATCH in one call.  If any member fails, the loop
       for i in range(max_tries):
           jitter_new = jitter * (10**i)
           diag_add = (info > 0) * (jitter_new - jitter_prev)      # "add jitter only where needed"
           Aprime.diagonal().add_(diag_add);  jitter_prev = jitter_new
           L, info = cholesky_ex(Aprime);   if not any(info): return L
       raise NotPSDError
   runs for all members together: a member that already factorised gets 0 added and is factorised again from the
   same matrix.  [jstep] is one pass of the loop body for one member, [jloop] the loop over the batch.
   jitter = settings.cholesky_jitter.value(dtype) is 10^-e in the model's settings (e = 8 for double, 6 for float);
   10^k is computed by repeated multiplication (exact in binary64 for k <= 22, like Python's float(10**i)). *)
Definition aten : F :=
  let two := aadd A (a1 A) (a1 A) in let four := aadd A two two in aadd A (aadd A four four) two.
Fixpoint apow10 (k : nat) : F := if k is k'.+1 then amul A (apow10 k') aten else a1 A.

Definition add_diag (n : nat) (M : mat) (x : F) : mat :=
  mtab n n (fun i j => if i == j then aadd A (get M i j) x else get M i j).

(* state of one member: (Aprime, L, info) *)
Definition jstate := (mat * mat * nat)%type.
Definition jinit (n : nat) (M : mat) : jstate := let: (L, info) := chol n M in (M, L, info).
Definition jstep (n : nat) (jit jprev : F) (i : nat) (st : jstate) : jstate :=
  let: (Ap, _, info) := st in
  let jnew := amul A jit (apow10 i) in
  let Ap' := add_diag n Ap (if info != 0 then asub A jnew jprev else a0 A) in
  let: (L', info') := chol n Ap' in (Ap', L', info').
Definition jok (st : jstate) : bool := st.2 == 0.
Definition jfac (st : jstate) : mat := st.1.2.

Fixpoint jloop (n : nat) (jit : F) (sts : seq jstate) (jprev : F) (i k : nat) : option (seq mat) :=
  if k is k'.+1 then
    let sts' := map (jstep n jit jprev i) sts in
    if all jok sts' then Some (map jfac sts') else jloop n jit sts' (amul A jit (apow10 i)) i.+1 k'
  else None.

(* the lower factors of a batch, or None = NotPSDError.  jexp, tries: the two settings *)
Definition psd_safe_batch (jexp tries : nat) (n : nat) (Ms : seq mat) : option (seq mat) :=
  let sts := map (jinit n) Ms in
  if all jok sts then Some (map jfac sts)
  else jloop n (adiv A (a1 A) (apow10 jexp)) sts (a0 A) 0 tries.

(* one member on its own = a batch of one *)
Definition psd_safe_chol (jexp tries : nat) (n : nat) (M : mat) : option mat :=
  if psd_safe_batch jexp tries n [:: M] is Some [:: L] then Some L else None.

(* ---------------------------------------------------------------- diagonal / identity
   DiagLinearOperator.solve: self.inverse()._matmul(rhs) = (1/d) * rhs *)
Definition diag_solve (n : nat) (d : vec) (b : vec) : vec :=
  vtab n (fun i => amul A (adiv A (a1 A) (vget d i)) (vget b i)).
(* DiagLinearOperator._cholesky_solve (self = sqrt of the operator): rhs / diag^2 *)
Definition diag_chol_solve (n : nat) (s : vec) (b : vec) : vec :=
  vtab n (fun i => adiv A (vget b i) (amul A (vget s i) (vget s i))).

(* ---------------------------------------------------------------- Woodbury (LowRankRootAddedDiag)
   U : n x k root, d : the diagonal.  chol_cap_mat = chol(I_k + U^T D^-1 U)
   _solve: A_inv rhs - A_inv U cholesky_solve(U^T A_inv rhs, chol_cap_mat)                 *)
Definition cap_mat (n k : nat) (U : mat) (d : vec) : mat :=
  mtab k k (fun i j => aadd A (if i == j then a1 A else a0 A)
                              (sumn_ (fun l => amul A (get U l i) (amul A (adiv A (a1 A) (vget d l)) (get U l j))) n)).
Definition woodbury_solve (n k : nat) (U : mat) (d : vec) (Lc : mat) (b : vec) : vec :=
  let ainvb := diag_solve n d b in
  let r1 := vtab k (fun i => sumn_ (fun l => amul A (get U l i) (vget ainvb l)) n) in     (* V (A_inv rhs) *)
  let r2 := chol_solve false k Lc r1 in
  let r3 := diag_solve n d (matvec n k U r2) in                                         (* A_inv (U r2) *)
  vsub n ainvb r3.

(* ---------------------------------------------------------------- Kronecker rotation
   One factor step of KroneckerProductLinearOperator._solve / _matmul on a flat row-major array f
   of shape (m * Q, c) viewed as (m, Q * c):
       y = act(y.reshape(m, -1)); y = y.reshape(m, Q, c).permute(1, 0, 2).reshape(Q * m, c)
   [act] is what the factor does to one column of length m (its solve, or its matmul). *)
Definition kstep (act : vec -> vec) (m Q c : nat) (f : vec) : vec :=
  mkseq (fun idx => let col := idx %% c in let r := idx %/ c in
                    let i := r %% m in let q := r %/ m in
                    vget (act (mkseq (fun a => vget f ((a * Q + q) * c + col)) m)) i)
        (m * Q * c).

Definition prodm (fs : seq (nat * (vec -> vec))) : nat := foldr (fun x p => x.1 * p) 1 fs.

Fixpoint krun (fs : seq (nat * (vec -> vec))) (P c : nat) (f : vec) : vec :=
  if fs is (m, act) :: fs' then krun fs' (P * m) c (kstep act m (prodm fs' * P) c f) else f.

(* columns <-> flat row-major (N, c) *)
Definition flat_of_cols (N c : nat) (X : cols) : vec := mkseq (fun idx => vget (nth [::] X (idx %% c)) (idx %/ c)) (N * c).
Definition cols_of_flat (N c : nat) (f : vec) : cols := mkseq (fun j => mkseq (fun i => vget f (i * c + j)) N) c.

Definition kron_apply (fs : seq (nat * (vec -> vec))) (c : nat) (X : cols) : cols :=
  let N := prodm fs in cols_of_flat N c (krun fs 1 c (flat_of_cols N c X)).

(* ---------------------------------------------------------------- Kron + constant diagonal (eigen shift)
   KroneckerProductAddedDiagLinearOperator._solve, constant diagonal:
     evals, Q = kron.diagonalization();  s = (evals + sigma)^(1/2);  S = Diag(1/s)
     res = Q^T rhs ; res2 = S res ; return (Q S) res2
   evals of the Kronecker product = products of factor eigenvalues in Kronecker order. *)
Fixpoint kron_evals (ws : seq vec) : vec :=
  if ws is w :: ws' then
    let rest := kron_evals ws' in flatten (map (fun x => map (amul A x) rest) w)
  else [:: a1 A].

Definition eigshift_solve (eig : seq (nat * mat * vec)) (sigma : F) (c : nat) (X : cols) : cols :=
  let N := foldr (fun e p => e.1.1 * p) 1 eig in
  let qt := map (fun e => (e.1.1, matvec e.1.1 e.1.1 (trm e.1.1 e.1.2))) eig in
  let q := map (fun e => (e.1.1, matvec e.1.1 e.1.1 e.1.2)) eig in
  let ev := kron_evals (map snd eig) in
  let sinv := map (fun w => adiv A (a1 A) (asqrt A (aadd A w sigma))) ev in
  let scale := map (fun x => mkseq (fun i => amul A (vget sinv i) (vget x i)) N) in
  kron_apply q c (scale (scale (kron_apply qt c X))).

(* ---------------------------------------------------------------- Kron + Kronecker-structured diagonal
   KroneckerProductAddedDiagLinearOperator._solve when the diagonal is a KroneckerProductDiagLinearOperator with one
   factor per Kronecker factor.  [kron_evals] is also what _kron_diag computes for the diagonal of a Kronecker product
   of diagonal operators.  Both branches have the shape   s2 * (Q (p * (Q^T (s1 * rhs))))   with Q = kron Q_i:
     every diagonal factor constant (_constant_kpadlt_constructor):
         evals = kron (w_i / c_i);  res1 = Diag(evals + 1).solve(Q^T rhs);  res = dlt.solve(Q res1)
         (Q_i, w_i = eigen-pairs of K_i;  dlt.solve = multiplication by the Kronecker diagonal of the 1 / c_i)
     general diagonal factors (_symmetrize_kpadlt_constructor):
         r = dlt.sqrt().inverse() (Kronecker diagonal of the 1 / sqrt d_i);  Q_i, w_i = eigen-pairs of
         D_i^-1/2 K_i D_i^-1/2;  res = r * (Q (Diag(evals + 1).solve(Q^T (r * rhs))))                       *)
Definition vscale (N : nat) (sv x : vec) : vec := mkseq (fun i => amul A (vget sv i) (vget x i)) N.

Definition qsq_solve (eig : seq (nat * mat * vec)) (s1 : option vec) (pinv s2 : vec) (c : nat) (X : cols) : cols :=
  let N := foldr (fun e p => e.1.1 * p) 1 eig in
  let qt := map (fun e => (e.1.1, matvec e.1.1 e.1.1 (trm e.1.1 e.1.2))) eig in
  let q := map (fun e => (e.1.1, matvec e.1.1 e.1.1 e.1.2)) eig in
  let X1 := if s1 is Some sv then map (vscale N sv) X else X in
  map (vscale N s2) (kron_apply q c (map (vscale N pinv) (kron_apply qt c X1))).

Definition keig_solve (constf : bool) (eig : seq (nat * mat * vec)) (ds : seq vec) (c : nat) (X : cols) : cols :=
  if constf then
    let ev := kron_evals (map (fun ed => map (fun w => adiv A w (vget ed.2 0)) ed.1.2) (zip eig ds)) in
    let pinv := map (fun x => adiv A (a1 A) (aadd A x (a1 A))) ev in
    let dinv := kron_evals (map (map (fun x => adiv A (a1 A) x)) ds) in
    qsq_solve eig None pinv dinv c X
  else
    let r := kron_evals (map (map (fun x => adiv A (a1 A) (asqrt A x))) ds) in
    let pinv := map (fun x => adiv A (a1 A) (aadd A x (a1 A))) (kron_evals (map snd eig)) in
    qsq_solve eig (Some r) pinv r c X.

(* D_i^-1/2 K_i D_i^-1/2 as the library forms it: d.matmul(k).matmul(d), d = Diag(1 / sqrt d_i) *)
Definition sym_scaled (m : nat) (K : mat) (dv : vec) : mat :=
  mtab m m (fun i j => amul A (amul A (adiv A (a1 A) (asqrt A (vget dv i))) (get K i j)) (adiv A (a1 A) (asqrt A (vget dv j)))).

(* ---------------------------------------------------------------- sum of two Kronecker products
   SumKroneckerLinearOperator._solve for  kron A_i + kron C_i :
       R_i = C_i.root_inv_decomposition().root     (Cholesky method: (L_i^-1)^T by solve_triangular(L_i, I); size 1: 1/sqrt)
       inner = kron (R_i^T A_i R_i) + 1.0 * I      (a KroneckerProductAddedDiag with constant diagonal: eigen-shift, sigma = 1)
       res = (kron R_i) inner.solve((kron R_i)^T rhs)
   [unitv], [tri_inv_t]: the rows of (L^-1)^T are the columns of L^-1 = the solutions of L x = e_a *)
Definition unitv (n a : nat) : vec := mkseq (fun i => if i == a then a1 A else a0 A) n.
Definition tri_inv_t (n : nat) (L : mat) : mat := mkseq (fun a => tri_solve false n L (unitv n a)) n.
Definition matmul (n : nat) (X Y : mat) : mat := mtab n n (fun i j => sumn_ (fun k => amul A (get X i k) (get Y k j)) n).
(* rm.mT.matmul(lt).matmul(rm) *)
Definition congr_t (n : nat) (R K : mat) : mat := matmul n (matmul n (trm n R) K) R.

Definition sumkron_apply (Rs : seq (nat * mat)) (eig : seq (nat * mat * vec)) (c : nat) (X : cols) : cols :=
  let rt := map (fun x => (x.1, matvec x.1 x.1 (trm x.1 x.2))) Rs in
  let r := map (fun x => (x.1, matvec x.1 x.1 x.2)) Rs in
  kron_apply r c (eigshift_solve eig (a1 A) c (kron_apply rt c X)).

(* ---------------------------------------------------------------- block-diagonal layouts
   BlockDiag: _add_batch_dim = view(k, m, c): block b owns rows b*m … b*m+m-1
   BlockInterleaved: view(m, k, c).transpose: block b owns rows r*k + b                      *)
Definition block_rows (inter : bool) (k m b : nat) (v : vec) : vec :=
  mkseq (fun r => vget v (if inter then r * k + b else b * m + r)) m.
Definition block_join (inter : bool) (k m : nat) (xs : seq vec) : vec :=
  mkseq (fun i => if inter then vget (nth [::] xs (i %% k)) (i %/ k) else vget (nth [::] xs (i %/ m)) (i %% m)) (k * m).
Definition block_solve (inter : bool) (k m : nat) (solvers : seq (vec -> vec)) (v : vec) : vec :=
  block_join inter k m (mkseq (fun b => nth id solvers b (block_rows inter k m b v)) k).

(* ---------------------------------------------------------------- BatchRepeat column folding
   _move_repeat_batches_to_columns for one repeated batch dimension of size R over an unbatched base:
   view(R, 1, n, c).permute(1, 2, 3, 0).view(n, c * R): column index c' * R + r;  the base solves all
   columns at once; _move_repeat_batches_back undoes the folding. *)
Definition fold_repeats (R c : nat) (Xs : seq cols) : cols :=
  mkseq (fun j => nth [::] (nth [::] Xs (j %% R)) (j %/ R)) (c * R).
Definition unfold_repeats (R c : nat) (Y : cols) : seq cols :=
  mkseq (fun r => mkseq (fun j => nth [::] Y (j * R + r)) c) R.
Definition batch_repeat_solve (R c : nat) (base : cols -> cols) (Xs : seq cols) : seq cols :=
  unfold_repeats R c (base (fold_repeats R c Xs)).

(* ---------------------------------------------------------------- permutation
   (P x)[i] = x[perm[i]];  _solve: self.inverse() @ rhs with inverse() = operator of inv_perm = argsort(perm),
   so (P^T x)[i] = x[inv_perm[i]] and inv_perm[i] is the position of i in perm *)
Definition perm_matmul (perm : seq nat) (x : vec) : vec := map (fun p => vget x p) perm.
Definition perm_solve (perm : seq nat) (b : vec) : vec :=
  mkseq (fun i => vget b (index i perm)) (size perm).

(* ---------------------------------------------------------------- left factor
   res = left_tensor @ res ; L is o x n *)
Definition left_mul (o n : nat) (L : mat) (X : cols) : cols := map (matvec o n L) X.

End Kernels.

(* ======================================================================================== *)
(* 2. the selector                                                                           *)

(* the part of the global settings the solve path reads *)
Record settings := MkSettings {
  max_cholesky_size : nat;
  fast_solves : bool;                 (* fast_computations.solves *)
  max_cg_iterations : nat;
  max_preconditioner_size : nat;
  min_preconditioning_size : nat;
  memory_efficient : bool;            (* read by Solve.forward only to decide what to save for backward *)
  default_preconditioner : bool;      (* beta_features.default_preconditioner *)
  cholesky_jitter_exp : nat;          (* cholesky_jitter.value(dtype) = 10^-e  (defaults: 8 for double, 6 for float) *)
  cholesky_max_tries : nat;           (* cholesky_max_tries *)
  max_root_decomposition_size : nat;  (* read by _root_decomposition_size(): the Lanczos budget of a root decomposition; on the
                                         pinned tree it does NOT enter the choice of the root method *)
  linalg_symeig_single : bool;        (* linalg_dtypes: _linalg_dtype_symeig is float32 (the eigen-structured solves of
                                         KroneckerProductAddedDiag and every _symeig run in that dtype)  *)
  linalg_cholesky_single : bool       (* linalg_dtypes: _linalg_dtype_cholesky is float32 (read by no solve path) *)
}.

(* LinearOperator._choose_root_method (no cached decomposition, fast_computations.covar_root_decomposition on):
   the method root_inv_decomposition() uses for an operator of size n *)
Inductive root_method := RootCholesky | RootLanczos.
Definition choose_root_method (s : settings) (n : nat) : root_method :=
  if n <= max_cholesky_size s then RootCholesky else RootLanczos.

Inductive diag_kind :=
| DConst      (* ConstantDiagLinearOperator *)
| DGeneral    (* any other DiagLinearOperator *)
| DKConst     (* KroneckerProductDiagLinearOperator, one ConstantDiag factor per Kronecker factor *)
| DKDiag.     (* KroneckerProductDiagLinearOperator, one (general) Diag factor per Kronecker factor *)

(* what the routing looks at: the operator class, its size, its children's classes *)
Inductive cls :=
| CGeneric (n : nat)           (* no solve-related override: Dense, Sum, ConstantMul, Toeplitz, Root, PsdSum … *)
| CAddedDiag (n : nat)         (* AddedDiagLinearOperator: generic + pivoted-Cholesky preconditioner *)
| CDiag (n : nat)              (* Diag, ConstantDiag, KroneckerProductDiag *)
| CIdentity (n : nat)
| CChol (n : nat)
| CTriDense (n : nat)          (* TriangularLinearOperator over a dense tensor *)
| CTriOver (base : cls)        (* TriangularLinearOperator over a non-dense, non-BatchRepeat operator *)
| CKron (fs : seq cls)
| CKronAddedDiag (fs : seq cls) (dk : diag_kind)
| CLowRankRootAddedDiag (n k : nat)
| CBlockDiag (k : nat) (base : cls)
| CBlockInterleaved (k : nat) (base : cls)
| CBatchRepeat (base : cls)
| CPermutation (n : nat)
| CSumKron (fs : seq cls).     (* SumKroneckerLinearOperator: kron A_i + kron C_i; fs = the classes of the C_i (same sizes as the A_i) *)

Fixpoint csize (c : cls) : nat :=
  match c with
  | CGeneric n | CAddedDiag n | CDiag n | CIdentity n | CChol n | CTriDense n | CPermutation n => n
  | CTriOver b | CBatchRepeat b => csize b
  | CKron fs | CKronAddedDiag fs _ | CSumKron fs => foldr (fun f p => csize f * p) 1 fs
  | CLowRankRootAddedDiag n _ => n
  | CBlockDiag k b | CBlockInterleaved k b => k * csize b
  end.

(* how `cholesky()` of a class factorises (the `_cholesky` overrides) *)
Inductive cplan :=
| PDense (n : nat)        (* base class: to_dense + psd_safe_cholesky (n > 1) *)
| PScalar                 (* base class, n = 1: clamp_min(0).sqrt(), no factorisation call *)
| PDiag | PIdentity       (* sqrt of the diagonal / self *)
| PRoot                   (* CholLinearOperator: the stored factor *)
| PKron (ps : seq cplan)  (* one Cholesky per factor -> KroneckerProductTriangular *)
| PBlocks (k : nat) (p : cplan)   (* batched Cholesky of the blocks *)
| PRepeat (p : cplan)     (* Cholesky of the base, repeated *)
| PNotPSD.                (* TriangularLinearOperator._cholesky raises NotPSDError *)

Fixpoint cholesky_plan (c : cls) : cplan :=
  match c with
  | CGeneric n | CAddedDiag n | CLowRankRootAddedDiag n _ | CPermutation n => if n == 1 then PScalar else PDense n
  | CKronAddedDiag fs _ | CSumKron fs => let n := csize (CKron fs) in if n == 1 then PScalar else PDense n
  | CDiag _ => PDiag
  | CIdentity _ => PIdentity
  | CChol _ => PRoot
  | CTriDense _ | CTriOver _ => PNotPSD
  | CKron fs => PKron (map cholesky_plan fs)
  | CBlockDiag k b | CBlockInterleaved k b => PBlocks k (cholesky_plan b)
  | CBatchRepeat b => PRepeat (cholesky_plan b)
  end.

Inductive method :=
| MDiagDiv                         (* DiagLinearOperator.solve *)
| MIdentity                        (* IdentityLinearOperator.solve *)
| MCholFactor                      (* CholLinearOperator.solve / _solve: root._cholesky_solve(upper=self.upper) *)
| MTriSubst                        (* TriangularLinearOperator.solve over a dense tensor: solve_triangular *)
| MTriViaBase (m : method)         (* TriangularLinearOperator.solve over another operator: base.solve (symmetric path!) *)
| MWoodbury (k : nat)              (* LowRankRootAddedDiagLinearOperator.solve *)
| MCholesky (p : cplan)            (* functions/_solve.py: linear_op.cholesky()._cholesky_solve(rhs) *)
| MCG (precond : bool) (rank : nat)(* base-class _solve: linear_cg (rank = pivoted-Cholesky rank when preconditioned) *)
| MKronFactors (ms : seq method)   (* KroneckerProductLinearOperator._solve: every factor's own solve *)
| MEigShift (sizes : seq nat)      (* KroneckerProductAddedDiag._solve, constant diagonal *)
| MEigKron (constf : bool) (sizes : seq nat)   (* the same, Kronecker-structured diagonal (constant / general factors) *)
| MBlocks (k : nat) (m : method)   (* Block*._solve: base_linear_op._solve on the blocked rhs *)
| MPermT                           (* permutation: inverse() @ rhs *)
| MSumKron (exact : bool) (sizes : seq nat).
                                   (* SumKroneckerLinearOperator._solve: inverse roots of the C_i + eigen-shift of the inner matrix;
                                      exact = every root is a Cholesky root (_choose_root_method: factor size <= max_cholesky_size),
                                      otherwise some root is a Lanczos approximation (no value model) *)

Section Select.
Variable s : settings.

(* AddedDiagLinearOperator._preconditioner guard + LinearOperator._solve_preconditioner *)
Definition added_diag_precond (n : nat) : bool * nat :=
  if (max_preconditioner_size s == 0) || (n < min_preconditioning_size s) then (false, 0)
  else (true, minn (max_preconditioner_size s) n).   (* pivoted_cholesky: max_iter = min(rank, n) *)

(* functions/_solve.py _solve, given the result of the class's own `solve` (branch 1) and `_solve` (branch 3) *)
Definition solve_fn (c : cls) (own class_solve : method) : method :=
  match c with
  | CChol _ | CTriDense _ | CTriOver _ | CDiag _ | CIdentity _ => own     (* isinstance(op, (Chol, Triangular)) *)
  | _ => if ~~ fast_solves s || (csize c <= max_cholesky_size s) then MCholesky (cholesky_plan c)
         else class_solve
  end.

(* route c = (what c.solve(rhs) runs , what c._solve(rhs, preconditioner) runs) *)
Fixpoint route (c : cls) : method * method :=
  match c with
  | CGeneric n => let cs := MCG (default_preconditioner s) 0 in (solve_fn c cs cs, cs)
  | CAddedDiag n =>
      let: (p, r) := added_diag_precond n in
      let cs := if p then MCG true r else MCG (default_preconditioner s) 0 in (solve_fn c cs cs, cs)
  | CDiag n => (MDiagDiv, MDiagDiv)        (* DiagLinearOperator is a TriangularLinearOperator: _solve = self.solve *)
  | CIdentity n => (MIdentity, MIdentity)
  | CChol n => (MCholFactor, MCholFactor)
  | CTriDense n => (MTriSubst, MTriSubst)
  | CTriOver b => let m := MTriViaBase (route b).1 in (m, m)
  | CKron fs => let cs := MKronFactors (map (fun f => (route f).1) fs) in (solve_fn c cs cs, cs)
  | CKronAddedDiag fs dk =>
      let cs := match dk with
                | DConst => MEigShift (map csize fs)
                | DGeneral => MCG (default_preconditioner s) 0         (* _preconditioner overridden: None *)
                | DKConst => MEigKron true (map csize fs)
                | DKDiag => MEigKron false (map csize fs)
                end in (solve_fn c cs cs, cs)
  | CLowRankRootAddedDiag n k => (MWoodbury k, MWoodbury k)
  | CBlockDiag k b => let cs := MBlocks k (route b).2 in (solve_fn c cs cs, cs)
  | CBlockInterleaved k b => let cs := MBlocks k (route b).2 in (solve_fn c cs cs, cs)
  | CBatchRepeat b => let cs := MCG (default_preconditioner s) 0 in (solve_fn c cs cs, cs)
  | CPermutation n => let cs := MPermT in (solve_fn c cs cs, cs)
  | CSumKron fs =>
      let exact := all (fun f => if choose_root_method s (csize f) is RootCholesky then true else csize f == 1) fs in
      let cs := MSumKron exact (map csize fs) in (solve_fn c cs cs, cs)
  end.

Definition select_solve (c : cls) : method := (route c).1.

End Select.

(* ---------------------------------------------------------------- what the verbose_linalg logger shows
   Shapes are torch.Size lists.  [bs] = the batch shape the kernel sees, [n] rows, [c] columns. *)
Inductive event :=
| EChol (shape : seq nat)                                   (* "Running Cholesky on a matrix of size S" *)
| ECG (precond : bool) (rhs_shape : seq nat) (maxiter : nat) (* "Running CG on a S RHS for K iterations" (+ wrapped call) *)
| EEig (shape : seq nat)                                    (* "Running symeig on a matrix of size S" *)
| EPivChol (shape : seq nat) (rank : nat).                  (* "Running Pivoted Cholesky on a S RHS for K iterations" *)

Fixpoint plan_events (obs : seq nat) (p : cplan) (sizes : cls) : seq event :=
  match p, sizes with
  | PDense n, _ => [:: EChol (obs ++ [:: n; n])]
  | PKron ps, CKron fs =>
      (fix go (ps : seq cplan) (fs : seq cls) : seq event :=
         match ps, fs with
         | p :: ps', f :: fs' => plan_events obs p f ++ go ps' fs'
         | _, _ => [::]
         end) ps fs
  | PBlocks k p, (CBlockDiag _ b | CBlockInterleaved _ b) => plan_events (obs ++ [:: k]) p b
  | PRepeat p, CBatchRepeat b => plan_events [:: 1] p b
  | _, _ => [::]
  end.

Definition symeig_logs (c : cls) : bool := match c with CDiag _ | CIdentity _ => false | _ => true end.

(* events of running method m on class c; obs = operator batch shape, rbs = rhs batch shape,
   bb = broadcast of the two, cc = number of rhs columns *)
Fixpoint method_events (s : settings) (obs rbs bb : seq nat) (cc : nat) (c : cls) (m : method) : seq event :=
  match m, c with
  | MCholesky p, _ => plan_events obs p c
  | MWoodbury k, _ => [:: EChol (obs ++ [:: k; k])]
  | MCG p r, _ =>
      (if p then [:: EPivChol (obs ++ [:: csize c; csize c]) r] else [::])
      ++ [:: ECG p (rbs ++ [:: csize c; cc]) (max_cg_iterations s)]
  | MKronFactors ms, CKron fs =>
      let N := csize c in
      (fix go (ms : seq method) (fs : seq cls) : seq event :=
         match ms, fs with
         | m :: ms', f :: fs' =>
             method_events s obs bb bb (N %/ csize f * cc) f m ++ go ms' fs'
         | _, _ => [::]
         end) ms fs
  (* one symeig per Kronecker factor - except for Diag / Identity factors, whose _symeig reads the diagonal off *)
  | MEigShift _, CKronAddedDiag fs _ =>
      flatten (map (fun f => if symeig_logs f then [:: EEig (obs ++ [:: csize f; csize f])] else [::]) fs)
  | MEigKron true _, CKronAddedDiag fs _ =>
      flatten (map (fun f => if symeig_logs f then [:: EEig (obs ++ [:: csize f; csize f])] else [::]) fs)
  | MEigShift sizes, _ => map (fun n => EEig (obs ++ [:: n; n])) sizes
  | MEigKron _ sizes, _ => map (fun n => EEig (obs ++ [:: n; n])) sizes      (* (symmetrised factors are dense) *)
  | MSumKron _ sizes, CSumKron fs =>
      (* as below; a Diag / Identity factor has a diagonal inverse root: no factorisation event *)
      flatten (map (fun f => if (csize f == 1) || ~~ symeig_logs f then [::] else
                             match choose_root_method s (csize f) with
                             | RootCholesky => [:: EChol (obs ++ [:: csize f; csize f])]
                             | RootLanczos => [::]
                             end) fs)
      ++ map (fun n => EEig (obs ++ [:: n; n])) sizes
  | MSumKron _ sizes, _ =>
      (* root_inv_decomposition() of every C_i with the method _choose_root_method picks (Cholesky below max_cholesky_size:
         one factorisation event, none for size 1; the Lanczos branch is the listed defect and has no event model), then
         the eigen-shift of the inner Kronecker matrix: one symeig per factor *)
      flatten (map (fun n => if n == 1 then [::] else
                             match choose_root_method s n with
                             | RootCholesky => [:: EChol (obs ++ [:: n; n])]
                             | RootLanczos => [::]
                             end) sizes)
      ++ map (fun n => EEig (obs ++ [:: n; n])) sizes
  | MBlocks k m, (CBlockDiag _ b | CBlockInterleaved _ b) =>
      method_events s (obs ++ [:: k]) (rbs ++ [:: k]) (bb ++ [:: k]) cc b m
  | MTriViaBase m, CTriOver b => method_events s obs rbs bb cc b m
  | _, _ => [::]
  end.

(* ======================================================================================== *)
(* 3. operators with data and the solve algorithm                                            *)
Section Alg.
Variable F : Type.
Variable A : Arith F.
Local Notation vec := (vec F).
Local Notation mat := (mat F).
Local Notation cols := (cols F).

(* one (non-batch) member of an operator, with the tensors its constructor holds *)
Inductive opd :=
| DGeneric (n : nat) (M : mat)                 (* a class without overrides; M = the matrix to_dense() returns *)
| DAddedDiag (n : nat) (M : mat)               (* AddedDiagLinearOperator; M = base + diag *)
| DDiag (n : nat) (d : vec)
| DIdentity (n : nat)
| DChol (upper : bool) (n : nat) (T : mat)     (* CholLinearOperator(Triangular(T, …), upper=upper) *)
| DTriDense (upper : bool) (n : nat) (T : mat) (* TriangularLinearOperator(T, upper=upper) *)
| DTriOver (upper : bool) (base : opd)         (* TriangularLinearOperator(<operator>, upper=upper) *)
| DKron (fs : seq opd)
| DKronAddedDiag (fs : seq opd) (dk : diag_kind) (d : vec) (eig : seq (nat * mat * vec))
                                               (* d = the added diagonal; eig = eigh oracle of the factors (Q, w) *)
| DLowRankRootAddedDiag (n k : nat) (U : mat) (d : vec)
| DBlockDiag (k : nat) (blocks : seq opd)
| DBlockInterleaved (k : nat) (blocks : seq opd)
| DBatchRepeat (base : opd)
| DPerm (perm : seq nat)
| DKronAddedKronDiag (constf : bool) (fs : seq opd) (ds : seq vec) (eig : seq (nat * mat * vec))
                                               (* Kron(fs) + KroneckerProductDiag(ds): ds = the factor diagonals (constf: every one a
                                                  ConstantDiagLinearOperator); eig = eigh oracle of the K_i (constf) resp. of the
                                                  D_i^-1/2 K_i D_i^-1/2 *)
| DCholOf (upper : bool) (base : opd)
| DSumKron (fs1 fs2 : seq opd) (eig : seq (nat * mat * vec)).
                                               (* kron fs1 + kron fs2 (SumKroneckerLinearOperator) - EXACTLY TWO Kronecker products: the
                                                  library's _solve / _logdet / roots read linear_ops[0] and [1] only; an instance with more
                                                  operands is outside the model and is flagged by the harness (model-arity);
                                                  eig = eigh oracle of the
                                                  R_i^T A_i R_i, R_i the inverse root of the i-th factor of fs2 *)         (* CholLinearOperator(base.cholesky(upper=upper), upper=upper): a solve routed
                                                  through the factor operator cholesky() returns for the class of `base` *)

Fixpoint cls_of (o : opd) : cls :=
  match o with
  | DGeneric n _ => CGeneric n
  | DAddedDiag n _ => CAddedDiag n
  | DDiag n _ => CDiag n
  | DIdentity n => CIdentity n
  | DChol _ n _ => CChol n
  | DTriDense _ n _ => CTriDense n
  | DTriOver _ b => CTriOver (cls_of b)
  | DKron fs => CKron (map cls_of fs)
  | DKronAddedDiag fs dk _ _ => CKronAddedDiag (map cls_of fs) dk
  | DLowRankRootAddedDiag n k _ _ => CLowRankRootAddedDiag n k
  | DBlockDiag k bs => CBlockDiag k (if bs is b :: _ then cls_of b else CGeneric 0)
  | DBlockInterleaved k bs => CBlockInterleaved k (if bs is b :: _ then cls_of b else CGeneric 0)
  | DBatchRepeat b => CBatchRepeat (cls_of b)
  | DPerm p => CPermutation (size p)
  | DKronAddedKronDiag cf fs _ _ => CKronAddedDiag (map cls_of fs) (if cf then DKConst else DKDiag)
  | DCholOf _ b => CChol (csize (cls_of b))
  | DSumKron _ fs2 _ => CSumKron (map cls_of fs2)
  end.

(* the matrix an operator denotes (what to_dense() returns; used by the base-class _cholesky) *)
Definition kron2 (m1 : nat) (M1 : mat) (m2 : nat) (M2 : mat) : mat :=
  mtab (m1 * m2) (m1 * m2) (fun i j => amul A (get A M1 (i %/ m2) (j %/ m2)) (get A M2 (i %% m2) (j %% m2))).

(* Kronecker product of a list of (size, matrix): sizes multiply, entries as in kron2 *)
Fixpoint kron_mats (ms : seq (nat * mat)) : nat * mat :=
  if ms is (m1, M1) :: ms' then let: (m2, M2) := kron_mats ms' in (m1 * m2, kron2 m1 M1 m2 M2)
  else (1, [:: [:: a1 A]]).

Fixpoint dense_of (o : opd) : mat :=
  match o with
  | DGeneric _ M | DAddedDiag _ M => M
  | DDiag n d => mtab n n (fun i j => if i == j then vget A d i else a0 A)
  | DIdentity n => mtab n n (fun i j => if i == j then a1 A else a0 A)
  | DChol up n T =>
      mtab n n (fun i j => if up then sumn_ A (fun l => amul A (get A T l i) (get A T l j)) n
                             else sumn_ A (fun l => amul A (get A T i l) (get A T j l)) n)
  | DTriDense _ _ T => T
  | DTriOver _ b => dense_of b
  | DKron fs => (kron_mats (map (fun f => (csize (cls_of f), dense_of f)) fs)).2
  | DKronAddedDiag fs _ d _ =>
      let: (N, K) := kron_mats (map (fun f => (csize (cls_of f), dense_of f)) fs) in
      mtab N N (fun i j => if i == j then aadd A (get A K i j) (vget A d i) else get A K i j)
  | DLowRankRootAddedDiag n k U d =>
      mtab n n (fun i j => let uu := sumn_ A (fun l => amul A (get A U i l) (get A U j l)) k in
                             if i == j then aadd A uu (vget A d i) else uu)
  | DBlockDiag k bs =>
      let m := if bs is b :: _ then csize (cls_of b) else 0 in
      let Ms := map dense_of bs in
      mtab (k * m) (k * m) (fun i j => if i %/ m == j %/ m then get A (nth [::] Ms (i %/ m)) (i %% m) (j %% m) else a0 A)
  | DBlockInterleaved k bs =>
      let m := if bs is b :: _ then csize (cls_of b) else 0 in
      let Ms := map dense_of bs in
      mtab (k * m) (k * m) (fun i j => if i %% k == j %% k then get A (nth [::] Ms (i %% k)) (i %/ k) (j %/ k) else a0 A)
  | DBatchRepeat b => dense_of b
  | DPerm p => mtab (size p) (size p) (fun i j => if nth 0 p i == j then a1 A else a0 A)
  | DKronAddedKronDiag _ fs ds _ =>
      let: (N, K) := kron_mats (map (fun f => (csize (cls_of f), dense_of f)) fs) in
      let dfull := kron_evals A ds in                            (* _kron_diag of the factor diagonals *)
      mtab N N (fun i j => if i == j then aadd A (get A K i j) (vget A dfull i) else get A K i j)
  | DCholOf _ b => dense_of b                   (* R^T R = L L^T = the matrix of the base *)
  | DSumKron fs1 fs2 _ =>
      let: (N, K1) := kron_mats (map (fun f => (csize (cls_of f), dense_of f)) fs1) in
      let: (_, K2) := kron_mats (map (fun f => (csize (cls_of f), dense_of f)) fs2) in
      mtab N N (fun i j => aadd A (get A K1 i j) (get A K2 i j))
  end.

Definition osize (o : opd) : nat := csize (cls_of o).

(* map a partial per-column kernel over columns *)
Definition omap (f : vec -> vec) (X : cols) : option cols := Some (map f X).

(* base-class _cholesky on the dense matrix of ONE batch member: the lower factor psd_safe_cholesky returns (with the
   jitter IT needed - the other members of the batch do not matter: ProofsJitter.psd_safe_batch_member), or None when
   the jitter ladder is exhausted (NotPSDError) *)
Definition dense_cholesky (s : settings) (n : nat) (M : mat) : option mat :=
  if n == 1 then
    let x := get A M 0 0 in Some [:: [:: asqrt A (if altb A x (a0 A) then a0 A else x)]]   (* clamp_min(0).sqrt() *)
  else psd_safe_chol A (cholesky_jitter_exp s) (cholesky_max_tries s) n M.

(* lt.root_inv_decomposition().root of a dense PD matrix with the method _choose_root_method picks.
   Cholesky: (L^-1)^T (size 1: 1 / sqrt); Lanczos (size above max_cholesky_size): not modelled - the listed defect *)
Definition inv_root (s : settings) (n : nat) (M : mat) : option mat :=
  if n == 1 then Some [:: [:: adiv A (a1 A) (asqrt A (get A M 0 0))]]
  else match choose_root_method s n with
       | RootCholesky => if dense_cholesky s n M is Some L then Some (tri_inv_t A n L) else None
       | RootLanczos => None
       end.

Definition ohead (x : option cols) : vec := if x is Some (v :: _) then v else [::].

(* linear_op.cholesky(upper=up)._cholesky_solve(rhs, upper=up) for a class whose plan is p.
   up = false is what functions/_solve.py runs (linear_op.cholesky()._cholesky_solve(rhs)); up = true is a solve routed
   through the upper factor (CholLinearOperator(op.cholesky(upper=True), upper=True)).  cholesky(upper=True) is the
   lower factor transposed (LinearOperator.cholesky), and every structured factor hands `upper` down to its parts. *)
Fixpoint run_plan (s : settings) (up : bool) (o : opd) (p : cplan) (X : cols) {struct o} : option cols :=
  match p, o with
  | (PDense _ | PScalar), _ =>
      let n := osize o in
      if dense_cholesky s n (dense_of o) is Some L then
        omap (if up then chol_solve A true n (trm A n L) else chol_solve A false n L) X
      else None
  | PDiag, DDiag n d => omap (diag_chol_solve A n (map (asqrt A) d)) X
  | PIdentity, _ => Some X
  | PRoot, DChol up0 n T =>
      (* CholLinearOperator._cholesky(upper): the root if the orientations agree, else its transpose *)
      omap (chol_solve A up n (if up == up0 then T else trm A n T)) X
  | PKron ps, DKron fs =>
      (* KroneckerProductTriangular._cholesky_solve: w = (kron L_i)^-1 rhs ; (kron L_i^T)^-1 w, factor by factor - the same
         two sweeps for either orientation (upper: the stored factors are the L_i^T and the first sweep uses their transposes) *)
      let Ls := map (fun f => (osize f, dense_cholesky s (osize f) (dense_of f))) fs in
      if all (fun x => isSome x.2) Ls then
        let fw := map (fun x => (x.1, tri_solve A false x.1 (if x.2 is Some L then L else [::]))) Ls in
        let bw := map (fun x => (x.1, tri_solve A true x.1 (trm A x.1 (if x.2 is Some L then L else [::])))) Ls in
        let c := size X in
        Some (kron_apply A bw c (kron_apply A fw c X))
      else None
  | PBlocks k p', DBlockDiag _ bs =>
      let m := if bs is b :: _ then osize b else 0 in
      let sv := map (fun b v => ohead (run_plan s up b p' [:: v])) bs in
      if all (fun b => isSome (run_plan s up b p' [::])) bs then omap (block_solve A false k m sv) X else None
  | PBlocks k p', DBlockInterleaved _ bs =>
      let m := if bs is b :: _ then osize b else 0 in
      let sv := map (fun b v => ohead (run_plan s up b p' [:: v])) bs in
      if all (fun b => isSome (run_plan s up b p' [::])) bs then omap (block_solve A true k m sv) X else None
  | PRepeat p', DBatchRepeat b => run_plan s up b p' X
  | _, _ => None
  end.

(* a method has a value model iff no CG is involved *)
Fixpoint direct (m : method) : bool :=
  match m with
  | MCG _ _ => false
  | MSumKron exact _ => exact
  | MTriViaBase m' | MBlocks _ m' => direct m'
  | MKronFactors ms => all direct ms
  | _ => true
  end.

(* run method m on operator o.  None = no value model (CG, or a factorisation failed) *)
Fixpoint run_method (s : settings) (o : opd) (m : method) (X : cols) {struct o} : option cols :=
  if ~~ direct m then None else
  match m, o with
  | MDiagDiv, DDiag n d => omap (diag_solve A n d) X
  | MIdentity, _ => Some X
  | MCholFactor, DChol up n T => omap (chol_solve A up n T) X
  | MCholFactor, DCholOf up b => run_plan s up b (cholesky_plan (cls_of b)) X      (* root._cholesky_solve(rhs, upper=self.upper) *)
  | MTriSubst, DTriDense up n T => omap (tri_solve A up n T) X
  | MTriViaBase m', DTriOver _ b => run_method s b m' X
  | MWoodbury _, DLowRankRootAddedDiag n k U d =>
      if dense_cholesky s k (cap_mat A n k U d) is Some Lc then omap (woodbury_solve A n k U d Lc) X else None
  | MCholesky p, _ => run_plan s false o p X
  | MKronFactors ms, DKron fs =>
      let acts := (fix go (fs : seq opd) (ms : seq method) : seq (nat * (vec -> vec)) :=
                     match fs, ms with
                     | f :: fs', m' :: ms' => (osize f, fun v => ohead (run_method s f m' [:: v])) :: go fs' ms'
                     | _, _ => [::]
                     end) fs ms in
      Some (kron_apply A acts (size X) X)
  | MEigShift _, DKronAddedDiag _ DConst d eig => Some (eigshift_solve A eig (vget A d 0) (size X) X)
  | MEigKron cf _, DKronAddedKronDiag _ _ ds eig => Some (keig_solve A cf eig ds (size X) X)
  | MBlocks k m', DBlockDiag _ bs =>
      let mm := if bs is b :: _ then osize b else 0 in
      omap (block_solve A false k mm (map (fun b v => ohead (run_method s b m' [:: v])) bs)) X
  | MBlocks k m', DBlockInterleaved _ bs =>
      let mm := if bs is b :: _ then osize b else 0 in
      omap (block_solve A true k mm (map (fun b v => ohead (run_method s b m' [:: v])) bs)) X
  | MPermT, DPerm p => omap (perm_solve A p) X
  | MSumKron _ _, DSumKron _ fs2 eig =>
      let Rs := map (fun f => (osize f, inv_root s (osize f) (dense_of f))) fs2 in
      if all (fun x => isSome x.2) Rs then
        Some (sumkron_apply A (map (fun x => (x.1, if x.2 is Some R then R else [::])) Rs) eig (size X) X)
      else None
  | _, _ => None
  end.

(* classes whose own `solve` handles the left factor itself (res = left @ res afterwards);
   every other class goes through Solve.forward, which solves [left^T | right] and slices *)
Definition own_solve (c : cls) : bool :=
  match c with
  | CDiag _ | CIdentity _ | CChol _ | CTriDense _ | CTriOver _ | CLowRankRootAddedDiag _ _ => true
  | _ => false
  end.

(* number of columns the solver kernels see for `cc` rhs columns and a left factor with `lo` rows (0 = none):
   Solve.forward concatenates left^T in front of the rhs; the classes with their own `solve` do not —
   except TriangularLinearOperator over another operator, which passes `left` on to base.solve *)
Definition solver_cols (c : cls) (lo cc : nat) : nat :=
  match c with
  | CTriOver b => if own_solve b then cc else lo + cc
  | _ => if own_solve c then cc else lo + cc
  end.

(* op.solve(right, left): right = columns of the rhs, left = Some (o, L) with L an o x n matrix.
   (TriangularLinearOperator over another operator hands `left` to the base AND applies it again:
    transcribed in [tri_over_left].) *)
Definition alg_solve (s : settings) (o : opd) (right : cols) (left : option (nat * mat)) : option cols :=
  let n := osize o in
  let m := select_solve s (cls_of o) in
  if own_solve (cls_of o) then
    if run_method s o m right is Some X then
      Some (if left is Some (k, L) then left_mul A k n L X else X)
    else None
  else
    match left with
    | None => run_method s o m right
    | Some (k, L) =>
        (* rhs = cat([left.mT, right], -1); res = left @ solves[..., left.size(-2):] *)
        let lt := mkseq (fun i => mkseq (fun j => get A L i j) n) k in
        if run_method s o m (lt ++ right) is Some Sol then Some (left_mul A k n L (drop k Sol)) else None
    end.

End Alg.

(* methods that run a symmetric eigen-decomposition: their arithmetic is carried out in settings._linalg_dtype_symeig,
   so their answers are only as accurate as that dtype (Check.v widens the value tolerance accordingly) *)
Fixpoint uses_symeig (m : method) : bool :=
  match m with
  | MEigShift _ | MEigKron _ _ | MSumKron _ _ => true
  | MTriViaBase m' | MBlocks _ m' => uses_symeig m'
  | MKronFactors ms => has uses_symeig ms
  | _ => false
  end.

(* a SECOND solve on the same operator object.  Solve.forward rebuilds the operator from its representation
   tree on every call, so factorisations cached on the original object are not reused; only a class with its own
   `solve` keeps its cache: LowRankRootAddedDiag (chol_cap_mat) — no event the second time *)
Definition method_events_again (s : settings) (obs rbs bb : seq nat) (cc : nat) (c : cls) (m : method) : seq event :=
  match m with
  | MWoodbury _ => [::]
  | _ => method_events s obs rbs bb cc c m
  end.
