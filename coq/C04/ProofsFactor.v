(* C04 — solves routed through FACTOR operators: CholLinearOperator(A.cholesky(upper=u), upper=u).solve(B), i.e.
   [alg_solve s (DCholOf u A) B], returns A^-1 B for either orientation u —
     * for the leaf classes (dense-like, AddedDiag, Diag, Identity, Chol with any stored orientation), and
     * for block-diagonal / block-interleaved operators over such blocks (any number of blocks, any block size): the
       factor is itself block structured and hands `upper` down to every block.
   Together with ProofsSound: the answer does not depend on whether the library solves directly (whatever
   select_solve picks for the settings in force) or through a factor operator of either orientation. *)
From mathcomp Require Import all_ssreflect all_algebra.
Require Import C04.Model C04.ProofsBridge C04.ProofsTri C04.ProofsChol C04.ProofsStruct C04.ProofsCholFactor
               C04.ProofsKron C04.ProofsBlock C04.ProofsAlg C04.ProofsJitter C04.ProofsSound.
Set Implicit Arguments.
Unset Strict Implicit.
Unset Printing Implicit Defensive.
Import Order.Theory GRing.Theory Num.Theory.
Local Open Scope ring_scope.

Section Factor.
Variable F : rcfType.
Local Notation RA := (FA (@rsq F) (@rlt F)).
Local Notation mxo := (mx_of (@rsq F) (@rlt F)).
Local Notation cvo := (cv_of (@rsq F) (@rlt F)).
Local Notation get := (get RA).
Local Notation vget := (vget RA).

(* operators whose Cholesky factor operator is modelled end to end *)
Definition wf_chol_base (o : opd F) : Prop :=
  match o with
  | DGeneric n M | DAddedDiag n M => [/\ symmetric n M, (n = 1%N -> 0 < get M 0 0) & chol_ok n M]
  | DDiag n d => forall i, (i < n)%N -> 0 < vget d i
  | DIdentity _ => True
  | DChol up n T => tri_flag (@rsq F) (@rlt F) up n T /\ diag_nz (@rsq F) (@rlt F) n T
  | _ => False
  end.

(* the per-column kernel a dense factor runs, either orientation *)
Definition dense_factor_solve (up : bool) n (L : mat F) : vec F -> vec F :=
  if up then chol_solve RA true n (trm RA n L) else chol_solve RA false n L.

Lemma dense_factor_solve_correct up n (L : mat F) (v : vec F) :
  lower_tri (@rsq F) (@rlt F) n L -> diag_nz (@rsq F) (@rlt F) n L ->
  (mxo n n L *m (mxo n n L)^T) *m cvo n (dense_factor_solve up n L v) = cvo n v.
Proof.
move=> lo nz; rewrite /dense_factor_solve; case: up.
- have := @chol_solve_correct _ (@rsq F) (@rlt F) true n (trm RA n L) v (trm_upper lo) (trm_diag nz).
  by rewrite /chol_denote mx_of_trm trmxK.
- exact: (@chol_solve_correct _ (@rsq F) (@rlt F) false n L v lo nz).
Qed.

(* a stored factor T with orientation up0, used with orientation up (CholLinearOperator._cholesky) *)
Lemma root_solve_correct up up0 n (T : mat F) (v : vec F) :
  tri_flag (@rsq F) (@rlt F) up0 n T -> diag_nz (@rsq F) (@rlt F) n T ->
  chol_denote (@rsq F) (@rlt F) up0 n T
    *m cvo n (chol_solve RA up n (if up == up0 then T else trm RA n T) v) = cvo n v.
Proof.
case: up; case: up0 => /= tr nz.
- exact: (@chol_solve_correct _ (@rsq F) (@rlt F) true).
- have := @chol_solve_correct _ (@rsq F) (@rlt F) true n (trm RA n T) v (trm_upper tr) (trm_diag nz).
  by rewrite /chol_denote mx_of_trm trmxK.
- have := @chol_solve_correct _ (@rsq F) (@rlt F) false n (trm RA n T) v (trm_lower tr) (trm_diag nz).
  by rewrite /chol_denote mx_of_trm trmxK.
- exact: (@chol_solve_correct _ (@rsq F) (@rlt F) false).
Qed.

Lemma vget_map_sqrt (d : vec F) i : vget (map (asqrt RA) d) i = Num.sqrt (vget d i).
Proof.
rewrite /Model.vget /=; case: (ltnP i (size d)) => h; first by rewrite (nth_map 0).
by rewrite !nth_default ?size_map // sqrtr0.
Qed.

Lemma diag_factor_solve_correct n (d v : vec F) : (forall i, (i < n)%N -> 0 < vget d i) ->
  mxo n n (dense_of RA (DDiag n d)) *m cvo n (diag_chol_solve RA n (map (asqrt RA) d) v) = cvo n v.
Proof.
move=> pos.
have nz : all_nz (@rsq F) (@rlt F) n (map (asqrt RA) d).
  by move=> i li; rewrite vget_map_sqrt gt_eqF // sqrtr_gt0 pos.
rewrite -(diag_chol_solve_correct v nz); congr (_ *m _).
rewrite dense_diag; apply/matrixP => i j; rewrite dmx_mulE !mxE !vget_map_sqrt.
case: eqP => [->|_]; last by rewrite mulr0.
by rewrite -expr2 sqr_sqrtr // ltW // pos.
Qed.

(* ---- run_plan on a base: either the factorisation fails for every right-hand side, or it is column-wise a solver *)
Definition plan_solver s up (o : opd F) (f : vec F -> vec F) : Prop :=
  (forall v, solves o (f v) v) /\ forall B, run_plan RA s up o (cholesky_plan (cls_of o)) B = Some (map f B).

Lemma run_plan_dense s up (o : opd F) n (B : cols F) : osize o = n ->
  run_plan RA s up o (if n == 1%N then PScalar else PDense n) B =
  if dense_cholesky RA s n (dense_of RA o) is Some L then Some (map (dense_factor_solve up n L) B) else None.
Proof.
move=> <-; rewrite /dense_factor_solve.
by case: (osize o == 1%N); case: o => //=; case: up.
Qed.

Lemma run_plan_blocks s up inter k (bs : seq (opd F)) p' (B : cols F) :
  run_plan RA s up (if inter then DBlockInterleaved k bs else DBlockDiag k bs) (PBlocks k p') B =
  if all (fun b => isSome (run_plan RA s up b p' [::])) bs
  then Some (map (block_solve RA inter k (if bs is b :: _ then osize b else 0%N)
                    (map (fun b v => ohead (run_plan RA s up b p' [:: v])) bs)) B)
  else None.
Proof. by case: inter. Qed.

Local Arguments run_plan : simpl never.

Lemma run_plan_base s up (o : opd F) : wf_chol_base o ->
  (forall B, run_plan RA s up o (cholesky_plan (cls_of o)) B = None) \/ exists f, plan_solver s up o f.
Proof.
case: o => //=.
- (* DGeneric *)
  move=> n M [sym p1 ok].
  case E: (dense_cholesky RA s n M) => [L|]; last by left=> B; rewrite (@run_plan_dense s up (DGeneric n M) n B erefl) /= E.
  right; exists (dense_factor_solve up n L); split=> [v|B]; last by rewrite (@run_plan_dense s up (DGeneric n M) n B erefl) /= E.
  have [lo nz HL] := dense_cholesky_correct sym p1 ok E.
  by rewrite /solves /= -HL; exact: dense_factor_solve_correct.
- (* DAddedDiag *)
  move=> n M [sym p1 ok].
  case E: (dense_cholesky RA s n M) => [L|]; last by left=> B; rewrite (@run_plan_dense s up (DAddedDiag n M) n B erefl) /= E.
  right; exists (dense_factor_solve up n L); split=> [v|B]; last by rewrite (@run_plan_dense s up (DAddedDiag n M) n B erefl) /= E.
  have [lo nz HL] := dense_cholesky_correct sym p1 ok E.
  by rewrite /solves /= -HL; exact: dense_factor_solve_correct.
- (* DDiag *)
  move=> n d pos; right; exists (diag_chol_solve RA n (map (asqrt RA) d)); split=> // v.
  by rewrite /solves /osize /=; exact: diag_factor_solve_correct.
- (* DIdentity *)
  move=> n _; right; exists id; split=> [v|B]; last by rewrite map_id.
  rewrite /solves /osize /=.
  have -> : mxo n n (mtab n n (fun i j => if i == j then 1 else 0)) = 1%:M.
    by apply/matrixP => i k; rewrite !mxE get_mtab // -(inj_eq val_inj) /=; case: eqP.
  by rewrite mul1mx.
- (* DChol *)
  move=> up0 n T [tr nz]; right.
  exists (chol_solve RA up n (if up == up0 then T else trm RA n T)); split=> // v.
  by rewrite /solves /osize dense_chol; exact: root_solve_correct.
Qed.

(* ---- THE THEOREM, leaf bases: a solve routed through the factor operator of either orientation *)
Lemma alg_solve_cholof s up (o : opd F) (B : cols F) left :
  alg_solve RA s (DCholOf up o) B left =
  if run_plan RA s up o (cholesky_plan (cls_of o)) B is Some X
  then Some (if left is Some (k, L) then left_mul RA k (osize o) L X else X) else None.
Proof. by []. Qed.

Theorem alg_solve_sound_cholof (s : settings) up (o : opd F) (B X : cols F) :
  wf_chol_base o -> alg_solve RA s (DCholOf up o) B None = Some X ->
  size X = size B /\ forall j, (j < size B)%N -> solves o (nth [::] X j) (nth [::] B j).
Proof.
move=> wf; rewrite alg_solve_cholof.
case: (run_plan_base s up wf) => [-> //|[f [sol ->]] [<-]].
by rewrite size_map; split=> // j jB; rewrite (nth_map [::]).
Qed.

Theorem alg_solve_sound_cholof_left (s : settings) up (o : opd F) (B Y : cols F) k (L : mat F) :
  wf_chol_base o -> alg_solve RA s (DCholOf up o) B (Some (k, L)) = Some Y ->
  exists X, [/\ size X = size B, forall j, (j < size B)%N -> solves o (nth [::] X j) (nth [::] B j)
              & Y = left_mul RA k (osize o) L X].
Proof.
move=> wf; rewrite alg_solve_cholof.
case: (run_plan_base s up wf) => [-> //|[f [sol ->]] [<-]].
exists (map f B); split=> //; first by rewrite size_map.
by move=> j jB; rewrite (nth_map [::]).
Qed.

(* a solve through a factor operator takes the factor route under every settings record (CholLinearOperator has its own
   solve: max_cholesky_size, fast_computations, the CG settings are never consulted) *)
Lemma cholof_route (s : settings) up (o : opd F) : select_solve s (cls_of (DCholOf up o)) = MCholFactor.
Proof. by []. Qed.

(* the orientation flag is observable: solving with an upper factor R as if it were a lower one (what a structured
   factor that forgets to hand `upper` down does) gives a different answer *)
Lemma factor_flag_observable :
  let R : mat F := [:: [:: 1; 1]; [:: 0; 1]] in let b : vec F := [:: 1; 0] in
  chol_solve RA true 2 R b <> chol_solve RA false 2 R b.
Proof.
rewrite /chol_solve /tri_solve /= /vrev /flip /trm /vtab /mtab /= /Model.vget /Model.get /= /mkseq /=.
rewrite !(subr0, divr1, mulr1, mul1r, add0r, mulr0, mul0r, addr0, sub0r).
by move=> -[_ /eqP]; rewrite eqr_opp oner_eq0.
Qed.

(* the route does not matter: solving directly under ANY settings and solving through the factor operator of EITHER
   orientation under ANY other settings give the same columns (invertible matrix: the solution is unique) *)
Theorem route_independent_leaf (s1 s2 : settings) up (o : opd F) (B X1 X2 : cols F) :
  wf_leaf o -> wf_chol_base o -> all (fun b => size b == osize o) B ->
  mxo (osize o) (osize o) (dense_of RA o) \in unitmx ->
  alg_solve RA s1 o B None = Some X1 -> alg_solve RA s2 (DCholOf up o) B None = Some X2 ->
  forall j, (j < size B)%N -> cvo (osize o) (nth [::] X1 j) = cvo (osize o) (nth [::] X2 j).
Proof.
move=> wl wb sz un H1 H2 j jB.
have [_ /(_ j jB) S1] := alg_solve_sound_leaf wl sz H1.
have [_ /(_ j jB) S2] := alg_solve_sound_cholof wb H2.
exact: (method_independent un S1 S2).
Qed.

(* ---------------------------------------------------------------- block-structured bases
   BlockDiag / BlockInterleaved over k blocks of one class and size m, each a base as above.  cholesky(upper=u) is
   Triangular(Block*(blocks' factors)); its _cholesky_solve blocks the right-hand side and hands `upper` to every block. *)
Definition wf_blocks (k : nat) (bs : seq (opd F)) : Prop :=
  let b0 := head (DIdentity F 0) bs in
  [/\ size bs = k, (0 < k)%N, (0 < osize b0)%N
     & forall i, (i < k)%N -> wf_chol_base (nth (DIdentity F 0) bs i) /\ cls_of (nth (DIdentity F 0) bs i) = cls_of b0].

Definition blocks_op (inter : bool) k (bs : seq (opd F)) : opd F :=
  if inter then DBlockInterleaved k bs else DBlockDiag k bs.

Lemma block_solver s up (b : opd F) : wf_chol_base b ->
  isSome (run_plan RA s up b (cholesky_plan (cls_of b)) [::]) ->
  forall v, solves b (ohead (run_plan RA s up b (cholesky_plan (cls_of b)) [:: v])) v.
Proof.
move=> wf; case: (run_plan_base s up wf) => [-> //|[f [sol H]] _ v].
by rewrite H /=; exact: sol.
Qed.

Lemma head_size (bs : seq (opd F)) : (0 < size bs)%N ->
  (if bs is b :: _ then osize b else 0%N) = osize (head (DIdentity F 0) bs).
Proof. by case: bs. Qed.

Lemma head_plan inter k (bs : seq (opd F)) : (0 < size bs)%N ->
  cholesky_plan (cls_of (blocks_op inter k bs)) = PBlocks k (cholesky_plan (cls_of (head (DIdentity F 0) bs))).
Proof. by case: bs => // b bs' _; case: inter. Qed.

Lemma blocks_size inter k (bs : seq (opd F)) : (0 < size bs)%N ->
  osize (blocks_op inter k bs) = (k * osize (head (DIdentity F 0) bs))%N.
Proof. by case: bs => // b bs' _; case: inter. Qed.

Lemma dense_blocks inter k (bs : seq (opd F)) I J :
  let b0 := head (DIdentity F 0) bs in let m := osize b0 in
  size bs = k -> (I < k * m)%N -> (J < k * m)%N ->
  get (dense_of RA (blocks_op inter k bs)) I J
  = blk_entry inter k m (fun b i j => get (dense_of RA (nth (DIdentity F 0) bs b)) i j) I J.
Proof.
move=> b0 m sz IM JM.
have m0 : (0 < m)%N by rewrite lt0n; apply/eqP => e; rewrite e muln0 in IM.
have k0 : (0 < k)%N by rewrite lt0n; apply/eqP => e; rewrite e mul0n in IM.
have hm : (if bs is b :: _ then osize b else 0%N) = m by rewrite head_size // sz.
rewrite /blocks_op /blk_entry; case: inter => /=; rewrite -/(osize _) hm get_mtab //.
- case: ifP => // _; rewrite (nth_map (DIdentity F 0)) // sz ltn_mod //.
- by case: ifP => // _; rewrite (nth_map (DIdentity F 0)) // sz ltn_divLR // mulnC.
Qed.

Theorem alg_solve_sound_cholof_blocks (s : settings) up inter k (bs : seq (opd F)) (B X : cols F) :
  wf_blocks k bs -> alg_solve RA s (DCholOf up (blocks_op inter k bs)) B None = Some X ->
  size X = size B /\
  forall j, (j < size B)%N -> solves (blocks_op inter k bs) (nth [::] X j) (nth [::] B j).
Proof.
move=> [sz k0 m0 wfb]; rewrite alg_solve_cholof.
set b0 := head (DIdentity F 0) bs in m0 wfb.
set m := osize b0 in m0.
have hm : (if bs is b :: _ then osize b else 0%N) = m by rewrite head_size // sz.
rewrite head_plan ?sz // /blocks_op run_plan_blocks hm.
case: ifP => // /(all_nthP (DIdentity F 0)) ok [<-]; rewrite size_map; split=> // j jB; rewrite (nth_map [::]) //.
set v := nth [::] B j.
set sv := map _ bs.
pose e b i l := get (dense_of RA (nth (DIdentity F 0) bs b)) i l.
have Hsv b : (b < k)%N -> solves_block (@rsq F) (@rlt F) m (e b) (nth id sv b).
  move=> bk; have bsz : (b < size bs)%N by rewrite sz.
  have [wf ec] := wfb _ bk.
  rewrite /sv (nth_map (DIdentity F 0)) ?sz // => u i im.
  have := @block_solver s up _ wf; rewrite ec => /(_ (ok _ bsz) u).
  rewrite /solves /osize ec -/(osize b0) -/m => /colP/(_ (Ordinal im)).
  rewrite !mxE => <-; apply: eq_bigr => l _.
  by rewrite !mxE.
rewrite /solves.
have -> : osize (if inter then DBlockInterleaved k bs else DBlockDiag k bs) = (k * m)%N.
  by rewrite -/(blocks_op inter k bs) blocks_size // sz.
apply/colP => I; rewrite !mxE.
rewrite -(block_solve_correct inter v m0 k0 Hsv (ltn_ord I)).
apply: eq_bigr => J _; rewrite !mxE; congr (_ * _).
exact: (@dense_blocks inter k bs I J sz (ltn_ord I) (ltn_ord J)).
Qed.

End Factor.
