(* C04 — matrix-level (MathComp) facts: uniqueness of the solution, hence method independence. *)
From mathcomp Require Import all_ssreflect all_algebra.
Set Implicit Arguments.
Unset Strict Implicit.
Unset Printing Implicit Defensive.
Import GRing.Theory.
Local Open Scope ring_scope.

Section Unique.
Variable F : fieldType.

Lemma solve_unique n c (A : 'M[F]_n) (B X : 'M[F]_(n, c)) :
  A \in unitmx -> A *m X = B -> X = invmx A *m B.
Proof. by move=> uA <-; rewrite mulmxA mulVmx // mul1mx. Qed.

Lemma method_independent n c (A : 'M[F]_n) (B X1 X2 : 'M[F]_(n, c)) :
  A \in unitmx -> A *m X1 = B -> A *m X2 = B -> X1 = X2.
Proof. by move=> uA /(solve_unique uA) -> /(solve_unique uA) ->. Qed.

Lemma method_independent_left n c o (A : 'M[F]_n) (L : 'M[F]_(o, n)) (B X1 X2 : 'M[F]_(n, c)) :
  A \in unitmx -> A *m X1 = B -> A *m X2 = B ->
  L *m X1 = L *m invmx A *m B /\ L *m X2 = L *m invmx A *m B.
Proof. by move=> uA /(solve_unique uA) -> /(solve_unique uA) ->; rewrite !mulmxA. Qed.

End Unique.
