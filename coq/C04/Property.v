(* C04 — solve returns A^{-1}B whichever algorithm the library selects.
   Only theorem statements; each is closed by `exact` of a lemma proved in Proofs*.v.
   The kernels (tri_solve, chol_solve, woodbury_solve, krun / kron_apply, block_solve, perm_solve,
   batch_repeat_solve, diag_solve) are the executable definitions of Model.v that the correspondence
   shards run on PrimFloat against the implementation; here they are instantiated on an arbitrary
   field F (FA sq lt: exact arithmetic, any choice of sqrt / order) or real closed field.
   All statements are for ALL sizes n, k, c, numbers of factors / blocks / repeats. *)
From mathcomp Require Import all_ssreflect all_algebra.
Require Import C04.Model C04.ProofsBridge C04.ProofsTri C04.ProofsChol C04.ProofsStruct C04.ProofsKron
               C04.ProofsEig C04.ProofsBlock C04.ProofsAlg C04.ProofsCholFactor C04.ProofsSound C04.ProofsSelect C04.ProofsKronTri C04.ProofsEigKron C04.ProofsJitter C04.ProofsFactor C04.ProofsKronDiag C04.ProofsSumKron C04.ProofsAll.
Set Implicit Arguments.
Unset Strict Implicit.
Unset Printing Implicit Defensive.
Import GRing.Theory Num.Theory.
Local Open Scope ring_scope.

Section Statements.
Variable F : fieldType.
Variable sq : F -> F.
Variable lt : F -> F -> bool.
Local Notation FA := (FA sq lt).
Local Notation mx_of := (mx_of sq lt).
Local Notation cv_of := (cv_of sq lt).

(* forward / back substitution (torch.linalg.solve_triangular): T triangular per the flag with a
   non-zero diagonal  ==>  T (tri_solve upper T b) = b.   Induction on n. *)
Theorem C04_tri_solve_correct upper n (T : mat F) (b : vec F) :
  tri_flag sq lt upper n T -> diag_nz sq lt n T ->
  mx_of n n T *m cv_of n (tri_solve FA upper n T b) = cv_of n b.
Proof. exact: tri_solve_correct. Qed.

(* torch.cholesky_solve with either orientation: Fm Fm^T (lower) resp. Fm^T Fm (upper) times the result is b *)
Theorem C04_chol_solve_correct upper n (Fm : mat F) (b : vec F) :
  tri_flag sq lt upper n Fm -> diag_nz sq lt n Fm ->
  chol_denote sq lt upper n Fm *m cv_of n (chol_solve FA upper n Fm b) = cv_of n b.
Proof. exact: chol_solve_correct. Qed.

(* DiagLinearOperator.solve and ._cholesky_solve *)
Theorem C04_diag_solve_correct n (d b : vec F) : all_nz sq lt n d ->
  dmx sq lt n d *m cv_of n (diag_solve FA n d b) = cv_of n b.
Proof. exact: diag_solve_correct. Qed.

Theorem C04_diag_chol_solve_correct n (s b : vec F) : all_nz sq lt n s ->
  (dmx sq lt n s *m dmx sq lt n s) *m cv_of n (diag_chol_solve FA n s b) = cv_of n b.
Proof. exact: diag_chol_solve_correct. Qed.

(* Woodbury identity: D invertible, C r = U^T D^-1 b with C = I + U^T D^-1 U  ==>
   (D + U U^T)(D^-1 b - D^-1 U r) = b *)
Theorem C04_woodbury_identity n k (D : 'M[F]_n) (U : 'M[F]_(n, k)) (b : 'cV[F]_n) (r : 'cV[F]_k) :
  D \in unitmx -> (1%:M + U^T *m invmx D *m U) *m r = U^T *m invmx D *m b ->
  (D + U *m U^T) *m (invmx D *m b - invmx D *m (U *m r)) = b.
Proof. exact: woodbury_mx. Qed.

(* LowRankRootAddedDiagLinearOperator._solve, the executable kernel, given the Cholesky factor of the
   capacitance matrix *)
Theorem C04_woodbury_solve_correct n k (U : mat F) (d : vec F) (Lc : mat F) (b : vec F) :
  all_nz sq lt n d -> lower_tri sq lt k Lc -> diag_nz sq lt k Lc ->
  mx_of k k Lc *m (mx_of k k Lc)^T = mx_of k k (cap_mat FA n k U d) ->
  (dmx sq lt n d + mx_of n k U *m (mx_of n k U)^T) *m cv_of n (woodbury_solve FA n k U d Lc b) = cv_of n b.
Proof. exact: woodbury_solve_correct. Qed.

(* the reshape / permute rotation of KroneckerProductLinearOperator computes the Kronecker product of
   the per-factor actions: any number of (rectangular) factors, any passive-row count P, any c *)
Theorem C04_kron_rotation (ops : seq (fac F)) P c (f : nat -> F) p I col :
  allpos ops -> (0 < c)%N -> (0 < P)%N -> (p < P)%N -> (I < prodm ops)%N -> (col < c)%N ->
  run ops P c f ((p * prodm ops + I) * c + col)
  = \sum_(J < prodn ops) kron ops I J * f ((J * P + p) * c + col)%N.
Proof. exact: run_correct. Qed.

(* mixed product (⊗ A_i)(⊗ B_i) = ⊗ (A_i B_i) *)
Theorem C04_kron_mixed_product (As Bs : seq (fac F)) I L : compat As Bs -> allpos As -> allpos Bs ->
  \sum_(J < prodn As) kron As I J * kron Bs J L = kron (zipmul As Bs) I L.
Proof. exact: kron_mul. Qed.

(* Kronecker solve, the executable kernel: if every factor action multiplies by B_i and A_i B_i = I,
   then (⊗ A_i) (kron_apply actions X) = X *)
Theorem C04_kron_solve_correct fs (As Bs : seq (fac F)) c (X : cols F) I col :
  lin_acts sq lt fs Bs -> inv_pairs As Bs -> allpos As -> (0 < c)%N -> (I < prodm As)%N -> (col < c)%N ->
  \sum_(I' < prodn As) kron As I I' * vget FA (nth [::] (kron_apply FA fs c X) col) I'
  = vget FA (nth [::] X col) I.
Proof. exact: kron_apply_correct. Qed.

(* substitution is a linear map: multiplication by the inverse matrix *)
Theorem C04_tri_solve_linear upper n (T : mat F) (v : vec F) :
  tri_flag sq lt upper n T -> diag_nz sq lt n T ->
  cv_of n (tri_solve FA upper n T v) = invmx (mx_of n n T) *m cv_of n v.
Proof. exact: tri_solve_lin. Qed.

(* Kronecker product of triangular factors solved factor by factor through the rotation (KroneckerProductTriangular
   solve / Kron._solve over Cholesky factors): any number of factors *)
Theorem C04_kron_tri_solve_correct upper (ts : seq (tfac F)) c (X : cols F) I col :
  all_tri sq lt upper ts -> (0 < c)%N -> (I < prodm (map (@fac_of F sq lt) ts))%N -> (col < c)%N ->
  \sum_(I' < prodn (map (@fac_of F sq lt) ts))
     kron (map (@fac_of F sq lt) ts) I I' * vget FA (nth [::] (kron_apply FA (map (act_of sq lt upper) ts) c X) col) I'
  = vget FA (nth [::] X col) I.
Proof. exact: kron_tri_solve_correct. Qed.

(* the Cholesky path of a Kronecker product (KroneckerProductTriangular._cholesky_solve): forward sweep with the
   L_i, backward sweep with the L_i^T; the result solves with ⊗ (L_i L_i^T) *)
Theorem C04_kron_chol_solve_correct (ts : seq (tfac F)) c (X : cols F) I col :
  all_tri sq lt false ts -> (0 < c)%N -> (I < prodm (map (@fac_of F sq lt) ts))%N -> (col < c)%N ->
  let Y := kron_apply FA (map (act_of sq lt true) (map (@tr_of F sq lt) ts)) c
             (kron_apply FA (map (act_of sq lt false) ts) c X) in
  \sum_(I' < prodn (map (@fac_of F sq lt) ts))
     kron (zipmul (map (@fac_of F sq lt) ts) (map (@fac_of F sq lt) (map (@tr_of F sq lt) ts))) I I'
       * vget FA (nth [::] Y col) I'
  = vget FA (nth [::] X col) I.
Proof. exact: kron_chol_solve_correct. Qed.

(* block-diagonal / block-interleaved: solving block-wise solves the block-structured system *)
Theorem C04_block_solve_correct inter k m (e : nat -> nat -> nat -> F) (solvers : seq (vec F -> vec F)) (v : vec F) I :
  (0 < m)%N -> (0 < k)%N -> (forall b, (b < k)%N -> solves_block sq lt m (e b) (nth id solvers b)) -> (I < k * m)%N ->
  \sum_(J < k * m) blk_entry inter k m e I J * vget FA (block_solve FA inter k m solvers v) J = vget FA v I.
Proof. exact: block_solve_correct. Qed.

(* permutation operators: P (P^T b) = b *)
Theorem C04_perm_solve_correct (perm : seq nat) (b : vec F) :
  uniq perm -> all (fun p => (p < size perm)%N) perm -> size b = size perm ->
  perm_matmul FA perm (perm_solve FA perm b) = b.
Proof. exact: perm_solve_correct. Qed.

(* any two methods agree: for invertible A all exact results coincide with A^-1 B; with a left factor L A^-1 B *)
Theorem C04_method_independent n c (A : 'M[F]_n) (B X1 X2 : 'M[F]_(n, c)) :
  A \in unitmx -> A *m X1 = B -> A *m X2 = B -> X1 = X2.
Proof. exact: method_independent. Qed.

Theorem C04_method_independent_left n c o (A : 'M[F]_n) (L : 'M[F]_(o, n)) (B X1 X2 : 'M[F]_(n, c)) :
  A \in unitmx -> A *m X1 = B -> A *m X2 = B ->
  L *m X1 = L *m invmx A *m B /\ L *m X2 = L *m invmx A *m B.
Proof. exact: method_independent_left. Qed.

(* Kron + Kronecker-structured diagonal (KroneckerProductAddedDiagLinearOperator._solve, both structured branches) rest on:
   A = S1^-1 Q P^-1 Q^T S2^-1 with diagonal S1, S2, P and orthogonal Q  ==>  A (S2 Q P Q^T S1 b) = b     (any size) *)
Theorem C04_qsq_identity n (A Q : 'M[F]_n) (s1 s2 p s1i s2i pi : 'rV[F]_n) (b : 'cV[F]_n) :
  Q^T *m Q = 1%:M ->
  (forall j, s1i 0 j * s1 0 j = 1) -> (forall j, s2i 0 j * s2 0 j = 1) -> (forall j, pi 0 j * p 0 j = 1) ->
  A = diag_mx s1i *m Q *m diag_mx pi *m Q^T *m diag_mx s2i ->
  A *m (diag_mx s2 *m (Q *m (diag_mx p *m (Q^T *m (diag_mx s1 *m b))))) = b.
Proof. exact: qsq_identity. Qed.

(* psd_safe_cholesky factorises a whole batch in one call and, when a member fails, retries with jitter "only where
   needed".  For ANY batch (any number of members, any sizes, any jitter 10^-e, any max_tries): if the batch call
   returns factors, member m's factor is exactly the one psd_safe_cholesky returns for that member alone - the result
   for a positive-definite matrix does not depend on which other matrices share its batch. *)
Theorem C04_psd_safe_batch_member jexp tries n (Ms : seq (mat F)) (Ls : seq (mat F)) m :
  psd_safe_batch FA jexp tries n Ms = Some Ls -> (m < size Ms)%N ->
  psd_safe_chol FA jexp tries n (nth [::] Ms m) = Some (nth [::] Ls m).
Proof. exact: psd_safe_batch_member. Qed.

(* ... and a matrix whose plain factorisation succeeds is returned without jitter, for every setting of the ladder *)
Theorem C04_psd_safe_nojitter jexp tries n (M L : mat F) :
  chol FA n M = (L, 0%N) -> psd_safe_chol FA jexp tries n M = Some L.
Proof. exact: psd_safe_nojitter. Qed.

End Statements.

(* BatchRepeat: folding the repeats into columns, solving once with the base (any column-wise solver f)
   and unfolding equals solving every repeat separately *)
Theorem C04_batch_repeat_fold (T : Type) (R c : nat) (f : seq T -> seq T) (Xs : seq (seq (seq T))) :
  size Xs = R -> all (fun X => size X == c) Xs ->
  batch_repeat_solve R c (map f) Xs = map (map f) Xs.
Proof. exact: batch_repeat_fold_correct. Qed.

(* Kron + constant diagonal: eigen-shift with the eigh oracle's specification as hypotheses *)
Theorem C04_eigshift_identity (F : rcfType) n (Q : 'M[F]_n) (w : 'rV[F]_n) (sigma : F) (b : 'cV[F]_n) :
  Q^T *m Q = 1%:M -> (forall i, 0 < w 0 i + sigma) ->
  (Q *m diag_mx w *m Q^T + sigma%:M) *m
    (Q *m diag_mx (sinv w sigma) *m (diag_mx (sinv w sigma) *m (Q^T *m b))) = b.
Proof. by move=> QtQ pos; exact: eigshift_identity. Qed.

(* ---------------------------------------------------------------- real closed field: square roots *)
Section Rcf.
Variable F : rcfType.
Local Notation RA := (FA (@rsq F) (@rlt F)).

(* the Cholesky–Banachiewicz kernel (model of cholesky_ex) really factorises: info = 0 on a symmetric M
   ==> L lower triangular, non-zero diagonal, L L^T = M *)
Theorem C04_chol_factor_correct n (M L : mat F) : chol RA n M = (L, 0%N) -> symmetric n M ->
  [/\ lower_tri (@rsq F) (@rlt F) n L, diag_nz (@rsq F) (@rlt F) n L
    & mx_of (@rsq F) (@rlt F) n n L *m (mx_of (@rsq F) (@rlt F) n n L)^T = mx_of (@rsq F) (@rlt F) n n M].
Proof. exact: chol_factor_correct. Qed.

(* whatever psd_safe_cholesky returns for a symmetric M is the Cholesky factor of M + sigma I, where sigma = 0 or a rung
   jitter * 10^j (j < max_tries) of the ladder, jitter = 10^-e *)
Theorem C04_psd_safe_chol_correct jexp tries n (M L : mat F) :
  psd_safe_chol RA jexp tries n M = Some L -> symmetric n M ->
  exists sigma, [/\ sigma = 0 \/ exists2 j, (j < tries)%N & sigma = 1 / apow10 RA jexp * apow10 RA j,
                    lower_tri (@rsq F) (@rlt F) n L, diag_nz (@rsq F) (@rlt F) n L
                  & mx_of (@rsq F) (@rlt F) n n L *m (mx_of (@rsq F) (@rlt F) n n L)^T
                    = mx_of (@rsq F) (@rlt F) n n M + sigma%:M].
Proof. exact: psd_safe_chol_correct. Qed.

(* THE ALGORITHM, leaf classes (Dense-like, AddedDiag, Diag, Identity, Chol, Triangular over a dense tensor,
   LowRankRootAddedDiag): for EVERY settings record, whatever method select_solve picks, a value returned by
   alg_solve solves the system column by column *)
Theorem C04_alg_solve_sound_leaf (s : settings) (o : opd F) (B X : cols F) :
  wf_leaf o -> all (fun b => size b == osize o) B ->
  alg_solve RA s o B None = Some X ->
  size X = size B /\ forall j, (j < size B)%N -> solves o (nth [::] X j) (nth [::] B j).
Proof. exact: alg_solve_sound_leaf. Qed.

(* … and with a left factor the result is L times such a solution (own-solve classes and Solve.forward) *)
Theorem C04_alg_solve_sound_leaf_left (s : settings) (o : opd F) (B Y : cols F) k (L : mat F) :
  wf_leaf o -> all (fun b => size b == osize o) B ->
  alg_solve RA s o B (Some (k, L)) = Some Y ->
  exists X, [/\ size X = size B, forall j, (j < size B)%N -> solves o (nth [::] X j) (nth [::] B j)
              & Y = left_mul RA k (osize o) L X].
Proof. exact: alg_solve_sound_leaf_left. Qed.

(* SOLVES ROUTED THROUGH FACTOR OPERATORS.  DCholOf up o = CholLinearOperator(o.cholesky(upper=up), upper=up): its solve is
   o.cholesky(upper=up)._cholesky_solve(rhs, upper=up) with the factor operator the class of o builds.  For every settings
   record, EITHER orientation, every leaf base o (dense-like, AddedDiag, Diag, Identity, Chol with any stored orientation,
   all sizes): a returned value solves the system of o itself, column by column *)
Theorem C04_alg_solve_sound_cholof (s : settings) up (o : opd F) (B X : cols F) :
  wf_chol_base o -> alg_solve RA s (DCholOf up o) B None = Some X ->
  size X = size B /\ forall j, (j < size B)%N -> solves o (nth [::] X j) (nth [::] B j).
Proof. exact: alg_solve_sound_cholof. Qed.

Theorem C04_alg_solve_sound_cholof_left (s : settings) up (o : opd F) (B Y : cols F) k (L : mat F) :
  wf_chol_base o -> alg_solve RA s (DCholOf up o) B (Some (k, L)) = Some Y ->
  exists X, [/\ size X = size B, forall j, (j < size B)%N -> solves o (nth [::] X j) (nth [::] B j)
              & Y = left_mul RA k (osize o) L X].
Proof. exact: alg_solve_sound_cholof_left. Qed.

(* ... and for block-diagonal / block-interleaved operators over k such blocks of one class (ANY k, any block size): the
   factor is block structured and hands `upper` down to every block's factor *)
Theorem C04_alg_solve_sound_cholof_blocks (s : settings) up inter k (bs : seq (opd F)) (B X : cols F) :
  wf_blocks k bs -> alg_solve RA s (DCholOf up (blocks_op inter k bs)) B None = Some X ->
  size X = size B /\
  forall j, (j < size B)%N -> solves (blocks_op inter k bs) (nth [::] X j) (nth [::] B j).
Proof. exact: alg_solve_sound_cholof_blocks. Qed.

(* THE ROUTE DOES NOT MATTER: for ANY two settings records s1, s2, either orientation, every leaf operator with an invertible
   matrix: what solve returns directly (whatever method select_solve s1 picks) and what it returns through the factor operator
   (under s2) are the same columns *)
Theorem C04_route_independent_leaf (s1 s2 : settings) up (o : opd F) (B X1 X2 : cols F) :
  wf_leaf o -> wf_chol_base o -> all (fun b => size b == osize o) B ->
  mx_of (@rsq F) (@rlt F) (osize o) (osize o) (dense_of RA o) \in unitmx ->
  alg_solve RA s1 o B None = Some X1 -> alg_solve RA s2 (DCholOf up o) B None = Some X2 ->
  forall j, (j < size B)%N ->
    cv_of (@rsq F) (@rlt F) (osize o) (nth [::] X1 j) = cv_of (@rsq F) (@rlt F) (osize o) (nth [::] X2 j).
Proof. exact: route_independent_leaf. Qed.

(* the factor route is taken under EVERY settings record (size thresholds, fast_computations, CG settings never consulted) *)
Theorem C04_cholof_route (s : settings) up (o : opd F) : select_solve s (cls_of (DCholOf up o)) = MCholFactor.
Proof. exact: cholof_route. Qed.

(* non-vacuity of the orientation: an upper factor read as a lower one gives a different answer *)
Example C04_factor_flag_observable :
  let R : mat F := [:: [:: 1; 1]; [:: 0; 1]] in let b : vec F := [:: 1; 0] in
  chol_solve RA true 2 R b <> chol_solve RA false 2 R b.
Proof. exact: factor_flag_observable. Qed.

Example C04_wf_blocks_sat : wf_blocks 2 [:: DDiag 1 [:: 1 : F]; DDiag 1 [:: 1 : F]].
Proof. by split=> // -[|[|i]] //= _; split=> // -[|j] //= _; rewrite /Model.vget /= ltr01. Qed.

Example C04_cholof_returns (s : settings) up :
  exists X, alg_solve RA s (DCholOf up (DDiag 2 [:: 1; 1 : F])) [:: [:: 1; 0]] None = Some X.
Proof. by eexists; rewrite /alg_solve /select_solve /=; reflexivity. Qed.

(* the executable kernel both structured-diagonal branches share: with Qb = kron Q_i (ANY number of factors, eigh oracle:
   Q_i^T Q_i = I), it computes  diag(s2) Qb diag(p) Qb^T diag(s1) b  through the Kronecker rotation *)
Theorem C04_qsq_solve_correct (es : seq (eigd F)) (s1 : option (vec F)) (pinv s2 : vec F) c (X : cols F) col :
  all_eig_wf es -> (0 < c)%N -> (col < c)%N -> size X = c ->
  let N := prodm (map (@qfac F) es) in
  let Qb : 'M[F]_N := \matrix_(I, J) kron (map (@qfac F) es) I J in
  let S1 : 'rV[F]_N := \row_J (if s1 is Some sv then vget RA sv J else 1) in
  let P : 'rV[F]_N := \row_J vget RA pinv J in
  let S2 : 'rV[F]_N := \row_J vget RA s2 J in
  cv_of (@rsq F) (@rlt F) N (nth [::] (qsq_solve RA es s1 pinv s2 c X) col)
  = diag_mx S2 *m (Qb *m (diag_mx P *m (Qb^T *m (diag_mx S1 *m cv_of (@rsq F) (@rlt F) N (nth [::] X col))))).
Proof. exact: qsq_solve_correct. Qed.

(* every diagonal factor constant (_constant_kpadlt_constructor): Ks = the factor matrices with K_i = Q_i diag(w_i) Q_i^T,
   ds = constant factor diagonals c_i != 0; any number of factors:  (kron K_i + kron D_i) * result = rhs *)
Theorem C04_keig_const_correct (Ks : seq (fac F)) (es : seq (eigd F)) (ds : seq (vec F)) c (X : cols F) col :
  all3P (@kc_spec F) Ks es ds -> (0 < c)%N -> (col < c)%N -> size X = c ->
  let N := prodm (map (@qfac F) es) in
  let Kb : 'M[F]_N := \matrix_(I, J) kron Ks I J in
  let Db : 'rV[F]_N := \row_J vget RA (kron_evals RA ds) J in
  let Wb : 'rV[F]_N := \row_J vget RA (kron_evals RA (map snd es)) J in
  (forall J : 'I_N, Wb 0 J / cprod ds + 1 != 0) ->
  (Kb + diag_mx Db) *m cv_of (@rsq F) (@rlt F) N (nth [::] (keig_solve RA true es ds c X) col)
  = cv_of (@rsq F) (@rlt F) N (nth [::] X col).
Proof. exact: keig_const_correct. Qed.

(* general (positive) diagonal factors (_symmetrize_kpadlt_constructor): D_i^-1/2 K_i D_i^-1/2 = Q_i diag(w_i) Q_i^T *)
Theorem C04_keig_diag_correct (Ks : seq (fac F)) (es : seq (eigd F)) (ds : seq (vec F)) c (X : cols F) col :
  all3P (@kd_spec F) Ks es ds -> (0 < c)%N -> (col < c)%N -> size X = c ->
  let N := prodm (map (@qfac F) es) in
  let Kb : 'M[F]_N := \matrix_(I, J) kron Ks I J in
  let Db : 'rV[F]_N := \row_J vget RA (kron_evals RA ds) J in
  let Wb : 'rV[F]_N := \row_J vget RA (kron_evals RA (map snd es)) J in
  (forall J : 'I_N, Wb 0 J + 1 != 0) ->
  (Kb + diag_mx Db) *m cv_of (@rsq F) (@rlt F) N (nth [::] (keig_solve RA false es ds c X) col)
  = cv_of (@rsq F) (@rlt F) N (nth [::] X col).
Proof. exact: keig_diag_correct. Qed.

Example C04_kc_spec_sat : all3P (@kc_spec F) [:: Fac 1 1 (fun _ _ => 1)] [:: (1%N, [:: [:: 1]], [:: 1])] [:: [:: 1 : F]].
Proof.
split=> //; split=> //=.
- by split=> // -[|i] [|l] // _ _; rewrite big_ord_recl big_ord0 /Model.get /= mulr1 addr0.
- by split=> [[|a]|] //; rewrite /Model.vget /= oner_neq0.
- by move=> [|i] [|j] // _ _; rewrite /qwq big_ord_recl big_ord0 /Model.get /Model.vget /= !mulr1 addr0.
Qed.

Example C04_kd_spec_sat : all3P (@kd_spec F) [:: Fac 1 1 (fun _ _ => 1)] [:: (1%N, [:: [:: 1]], [:: 1])] [:: [:: 1 : F]].
Proof.
split=> //; split=> //=.
- by split=> // -[|i] [|l] // _ _; rewrite big_ord_recl big_ord0 /Model.get /= mulr1 addr0.
- by move=> [|a] // _; rewrite /Model.vget /= ltr01.
- move=> [|i] [|j] // _ _; rewrite /qwq big_ord_recl big_ord0 /Model.get /Model.vget /= !mulr1 addr0.
  by rewrite /rsq1 sqrtr1 divr1 mulr1.
Qed.

(* SumKroneckerLinearOperator._solve with exact inverse roots, ANY number of factors: per Kronecker position (record skf: size, entries
   of A_i and C_i, root R_i, oracle Q_i, w_i) R_i^T C_i R_i = I and R_i^T A_i R_i = Q_i diag(w_i) Q_i^T, shifted eigenvalues positive ==>
   (kron A_i + kron C_i) * sumkron_apply = rhs   (x = (kron R_i) (S + I)^-1 (kron R_i)^T b, the inner solve by the eigen-shift, sigma = 1) *)
Theorem C04_sumkron_apply_correct (ps : seq (skf F)) c (X : cols F) col :
  all_sk ps -> (0 < c)%N -> (col < c)%N ->
  let N := prodm (map (@qfac F) (es_of ps)) in
  let Ab : 'M[F]_N := \matrix_(I, J) kron (As_of ps) I J in
  let Cb : 'M[F]_N := \matrix_(I, J) kron (Cs_of ps) I J in
  let Wb : 'rV[F]_N := \row_J vget RA (kron_evals RA (map snd (es_of ps))) J in
  (forall J : 'I_N, 0 < Wb 0 J + 1) ->
  (Ab + Cb) *m cv_of (@rsq F) (@rlt F) N (nth [::] (sumkron_apply RA (map (fun p => (skm p, skR p)) ps) (es_of ps) c X) col)
  = cv_of (@rsq F) (@rlt F) N (nth [::] X col).
Proof. exact: sumkron_apply_correct. Qed.

(* the inverse root root_inv_decomposition(method="cholesky") computes - (L^-1)^T by substitution against the identity, 1/sqrt for
   size 1 - satisfies R^T C R = I for a symmetric C whose plain Cholesky succeeds (all sizes) *)
Theorem C04_inv_root_correct m (C : mat F) : (0 < m)%N -> symmetric m C -> (m = 1%N -> 0 < get RA C 0 0) -> chol_ok m C ->
  (mx_of (@rsq F) (@rlt F) m m (inv_root_spec m C))^T *m mx_of (@rsq F) (@rlt F) m m C *m mx_of (@rsq F) (@rlt F) m m (inv_root_spec m C) = 1%:M.
Proof. exact: inv_root_spec_ok. Qed.

(* ======================================================================================================
   THE ALGORITHM OVER EVERY MODELLED POSITIVE-DEFINITE CLASS, AT ANY NESTING DEPTH.
   wfpd o (ProofsAll.v) : o is a tree of Dense-like / AddedDiag / Diag (positive) / Identity / Chol / LowRankRootAddedDiag leaves
   under Kron (any number of factors), KronAddedDiag (general, constant, or Kronecker-structured diagonal with constant /
   general factors; the structured ones with the eigh oracle's specification per factor), SumKron (structured route with exact
   inverse roots, i.e. every factor within max_cholesky_size; with a Lanczos root the route has no value), BlockDiag / BlockInterleaved (any number of blocks of one class) and BatchRepeat, every dense
   matrix that gets factorised being symmetric with a successful plain Cholesky (numerically PD).
   For EVERY settings record, whatever select_solve picks at every level (Cholesky of the dense matrix, one Cholesky per Kronecker
   factor + two sweeps, per-factor solves through the rotation, eigen-shift, Woodbury, block-wise solves with the base's _solve,
   diagonal / triangular kernels): a value returned by alg_solve solves  dense_of o * x = b  column by column.
   (CG routes return no value in the model: residual predicate, C08.) *)
Theorem C04_alg_solve_sound_all (s : settings) (o : opd F) (B X : cols F) :
  wfpd o -> alg_solve RA s o B None = Some X ->
  size X = size B /\ forall j, (j < size B)%N -> solves o (nth [::] X j) (nth [::] B j).
Proof. exact: alg_solve_sound_all. Qed.

(* ... with a left factor L: L times such a solution (own-solve classes multiply afterwards; Solve.forward solves [L^T | B]) *)
Theorem C04_alg_solve_sound_all_left (s : settings) (o : opd F) (B Y : cols F) k (L : mat F) :
  wfpd o -> alg_solve RA s o B (Some (k, L)) = Some Y ->
  exists X, [/\ size X = size B, forall j, (j < size B)%N -> solves o (nth [::] X j) (nth [::] B j)
              & Y = left_mul RA k (osize o) L X].
Proof. exact: alg_solve_sound_all_left. Qed.

(* ... and for a solve routed through the factor operator of either orientation of ANY such operator *)
Theorem C04_alg_solve_sound_cholof_all (s : settings) up (o : opd F) (B X : cols F) :
  wfpd o -> alg_solve RA s (DCholOf up o) B None = Some X ->
  size X = size B /\ forall j, (j < size B)%N -> solves o (nth [::] X j) (nth [::] B j).
Proof. exact: alg_solve_sound_cholof_all. Qed.

Theorem C04_alg_solve_sound_cholof_all_left (s : settings) up (o : opd F) (B Y : cols F) k (L : mat F) :
  wfpd o -> alg_solve RA s (DCholOf up o) B (Some (k, L)) = Some Y ->
  exists X, [/\ size X = size B, forall j, (j < size B)%N -> solves o (nth [::] X j) (nth [::] B j)
              & Y = left_mul RA k (osize o) L X].
Proof. exact: alg_solve_sound_cholof_all_left. Qed.

(* METHOD INDEPENDENCE OVER ALL MODELLED CLASSES: for any two settings records and any two routes (direct = whatever the selector
   picks; or through the factor operator of an orientation), the returned columns coincide.  No invertibility hypothesis: the
   matrix of a well-formed operator is invertible (C04_wfpd_unit). *)
Theorem C04_method_independent_all (s1 s2 : settings) (r1 r2 : route_kind) (o : opd F) (B X1 X2 : cols F) :
  wfpd o -> solve_via s1 r1 o B = Some X1 -> solve_via s2 r2 o B = Some X2 ->
  forall j, (j < size B)%N ->
    cv_of (@rsq F) (@rlt F) (osize o) (nth [::] X1 j) = cv_of (@rsq F) (@rlt F) (osize o) (nth [::] X2 j).
Proof. exact: method_independent_all. Qed.

Theorem C04_method_independent_all_left (s1 s2 : settings) (o : opd F) (B Y1 Y2 : cols F) k (L : mat F) :
  wfpd o -> alg_solve RA s1 o B (Some (k, L)) = Some Y1 -> alg_solve RA s2 o B (Some (k, L)) = Some Y2 -> Y1 = Y2.
Proof. exact: method_independent_all_left. Qed.

Theorem C04_wfpd_unit (o : opd F) : wfpd o ->
  mx_of (@rsq F) (@rlt F) (osize o) (osize o) (dense_of RA o) \in unitmx.
Proof. exact: wfpd_unit. Qed.

(* the Cholesky route on its own, either orientation: o.cholesky(upper=up)._cholesky_solve(., upper=up) is total on well-formed
   operators and solves the system (this is what functions/_solve.py runs below max_cholesky_size, with up = false) *)
Theorem C04_cholesky_route_sound (s : settings) up (o : opd F) : wfpd o ->
  sound_fn o (run_plan RA s up o (cholesky_plan (cls_of o))).
Proof. exact: plan_sound. Qed.

(* every route the selector can take is sound when it is direct: the class's solve (.1) and the class's _solve (.2) *)
Theorem C04_route_sound (s : settings) (o : opd F) : wfpd o -> route_ok s o.
Proof. exact: route_sound. Qed.

(* KroneckerProductLinearOperator._solve, the per-factor loop with the index rotation, for ANY factor classes: whatever (direct, sound)
   method is used for each factor - dense Cholesky, substitution, Diag, the IDENTITY, a nested structured solve ... - running it through
   the reshape / permute rotation factor by factor solves the Kronecker system.  (An identity factor still has to be rotated: skipping
   the step for it is wrong - C04_kron_identity_rotation_observable.) *)
Theorem C04_kron_factors_sound (s : settings) (fs : seq (opd F)) (sel : opd F -> method) :
  allc (fun f => (0 < osize f)%N) fs -> all direct (map sel fs) ->
  allc (fun f => sound_fn f (run_method RA s f (sel f))) fs ->
  sound_fn (DKron fs) (run_method RA s (DKron fs) (MKronFactors (map sel fs))).
Proof. exact: kron_factors_sound. Qed.

(* one step of the loop with the IDENTITY action on a (2 x 2, one column) array is not the identity map: it transposes the index *)
Example C04_kron_identity_rotation_observable :
  kstep RA id 2 2 1 [:: 0; 1; 0; 0 : F] = [:: 0; 0; 1; 0].
Proof. by []. Qed.

Example C04_wfpd_kron_identity_sat : wfpd (DKron [:: DIdentity F 1; DDiag 2 [:: 1; 1 : F]; DIdentity F 1]).
Proof.
split=> /=; first by split=> //; split=> // -[|[|i]] //= _; rewrite /Model.vget /= ltr01.
have idwf : dense_wf (DIdentity F 1).
  by split=> [[|i] [|j]|_|] //; rewrite /Model.get /= ltr01.
by split=> //; split; first (split=> //; exact: dense_wf_diag2).
Qed.

Example C04_wfpd_kron_sat : wfpd (DKron [:: DDiag 2 [:: 1; 1 : F]; DIdentity F 1]).
Proof. exact: wfpd_kron_sat. Qed.
Example C04_wfpd_blocks_sat : wfpd (DBlockDiag 2 [:: DDiag 1 [:: 1 : F]; DDiag 1 [:: 1 : F]]).
Proof. exact: wfpd_blocks_sat. Qed.
(* the structured Kronecker route (per-factor solves) does return a value *)
Example C04_kron_structured_returns :
  let s := MkSettings 0 true 1000 15 2000 false false 8 3 100 false false in
  exists X, alg_solve RA s (DKron [:: DDiag 2 [:: 1; 1 : F]; DIdentity F 1]) [:: [:: 1; 0]] None = Some X.
Proof. by eexists; rewrite /alg_solve /select_solve /=; reflexivity. Qed.

(* permutation operators on the structured branch *)
Theorem C04_alg_solve_sound_perm (s : settings) (p : seq nat) (B X : cols F) :
  uniq p -> all (fun x => (x < size p)%N) p -> all (fun b => size b == size p) B ->
  fast_solves s -> (max_cholesky_size s < size p)%N ->
  alg_solve RA s (DPerm F p) B None = Some X ->
  size X = size B /\ forall j, (j < size B)%N -> solves (DPerm F p) (nth [::] X j) (nth [::] B j).
Proof. exact: alg_solve_sound_perm. Qed.

Theorem C04_alg_solve_sound_perm_left (s : settings) (p : seq nat) (B Y : cols F) k (L : mat F) :
  uniq p -> all (fun x => (x < size p)%N) p -> all (fun b => size b == size p) B ->
  fast_solves s -> (max_cholesky_size s < size p)%N ->
  alg_solve RA s (DPerm F p) B (Some (k, L)) = Some Y ->
  exists X, [/\ size X = size B, forall j, (j < size B)%N -> solves (DPerm F p) (nth [::] X j) (nth [::] B j)
              & Y = left_mul RA k (size p) L X].
Proof. exact: alg_solve_sound_perm_left. Qed.

(* the executable eigen-shift kernel (KroneckerProductAddedDiag._solve, constant diagonal), any number of factors:
   with Qb = ⊗ Q_i and Wb = ⊗ w_i (eigh oracle: Q_i^T Q_i = I),  (Qb diag(Wb) Qb^T + sigma I) * result = rhs *)
Theorem C04_eigshift_solve_correct (es : seq (eigd F)) (sigma : F) c (X : cols F) col :
  all_eig_wf es -> (0 < c)%N -> (col < c)%N ->
  let N := prodm (map (@qfac F) es) in
  let Qb : 'M[F]_N := \matrix_(I, J) kron (map (@qfac F) es) I J in
  let Wb : 'rV[F]_N := \row_J vget RA (kron_evals RA (map snd es)) J in
  (forall J : 'I_N, 0 < Wb 0 J + sigma) ->
  (Qb *m diag_mx Wb *m Qb^T + sigma%:M) *m cv_of (@rsq F) (@rlt F) N (nth [::] (eigshift_solve RA es sigma c X) col)
  = cv_of (@rsq F) (@rlt F) N (nth [::] X col).
Proof. exact: eigshift_solve_correct. Qed.

(* … and Qb diag(Wb) Qb^T is the Kronecker product of the factor matrices Q_i diag(w_i) Q_i^T *)
Theorem C04_kron_eig_decomp (es : seq (eigd F)) (I L : 'I_(prodm (map (@qfac F) es))) : all_eig_wf es ->
  let N := prodm (map (@qfac F) es) in
  let Qb : 'M[F]_N := \matrix_(I, J) kron (map (@qfac F) es) I J in
  let Wb : 'rV[F]_N := \row_J vget RA (kron_evals RA (map snd es)) J in
  (Qb *m diag_mx Wb *m Qb^T) I L
  = kron (zipmul (zipmul (map (@qfac F) es) (map (@dfac F) es)) (map (@qtfac F) es)) I L.
Proof. exact: kron_eig_decomp. Qed.

(* hypotheses are satisfiable, and alg_solve does return a value there *)
Example C04_wf_leaf_sat :
  wf_leaf (DDiag 2 [:: 1; 1 : F]) /\ wf_leaf (DGeneric 2 [:: [:: 1; 0]; [:: 0; 1 : F]]) /\
  wf_leaf (DTriDense true 2 [:: [:: 1; 1]; [:: 0; 1 : F]]).
Proof.
split; first by move=> [|[|i]] //= _; rewrite /Model.vget /= oner_neq0.
split.
  split=> [[|[|i]] [|[|j]]|//|_] //.
  by rewrite /chol /= /Model.vget /= /rlt /rsq !(subr0, mulr0, mul0r, add0r, addr0, sqrtr1, divr1, ltr01, mulr1).
split; first by move=> [|[|i]] [|[|j]].
by move=> [|[|i]] //= _; rewrite /Model.get /= oner_neq0.
Qed.

Example C04_alg_solve_returns (s : settings) :
  exists X, alg_solve RA s (DDiag 2 [:: 1; 1 : F]) [:: [:: 1; 0]] None = Some X.
Proof. by eexists; rewrite /alg_solve /select_solve /=; reflexivity. Qed.

End Rcf.

(* ---------------------------------------------------------------- the selector: all settings, all class trees *)
(* fast_computations.solves off, or size within max_cholesky_size: every class, at any nesting depth, is
   solved by a direct method (no conjugate gradients) *)
Theorem C04_select_direct (s : settings) (c : cls) :
  ~~ fast_solves s || (csize c <= max_cholesky_size s)%N -> direct (select_solve s c).
Proof. exact: select_direct. Qed.

(* conjugate gradients at the top level only with fast solves on and size above max_cholesky_size *)
Theorem C04_select_cg_only_when (s : settings) (c : cls) p r :
  select_solve s c = MCG p r -> fast_solves s /\ (max_cholesky_size s < csize c)%N.
Proof. exact: select_cg_only_when. Qed.

(* the threshold is observable (non-vacuity): just above it the generic class switches to CG *)
Example C04_select_threshold :
  let s := MkSettings 5 true 1000 15 2000 false false 8 3 100 false false in
  select_solve s (CGeneric 5) = MCholesky (PDense 5) /\ select_solve s (CGeneric 6) = MCG false 0.
Proof. by []. Qed.

(* ---------------------------------------------------------------- non-vacuity *)
Section Examples.
Variable F : fieldType.
Variable sq : F -> F.
Variable lt : F -> F -> bool.

(* the hypotheses of the triangular theorems are satisfiable, and the flag is observable:
   on a full matrix the two orientations give different answers *)
Example C04_tri_hyps_sat :
  let T : mat F := [:: [:: 1; 0]; [:: 1; 1]] in
  tri_flag sq lt false 2 T /\ diag_nz sq lt 2 T.
Proof.
split; first by move=> [|[|i]] [|[|j]].
by move=> [|[|i]] //= _; rewrite /get /= oner_neq0.
Qed.

Example C04_tri_flag_observable :
  let T : mat F := [:: [:: 1; 1]; [:: 1; 1]] in let b : vec F := [:: 1; 0] in
  tri_solve (FA sq lt) false 2 T b <> tri_solve (FA sq lt) true 2 T b.
Proof.
rewrite /tri_solve /= /vrev /flip /vtab /mtab /= /Model.vget /Model.get /= /mkseq /=.
by move=> -[_ /eqP]; rewrite !subr0 !divr1 !mulr1 !add0r oppr_eq0 oner_eq0.
Qed.

End Examples.
