(* C04 — facts about the selector, for every settings record and every class tree (any nesting). *)
From mathcomp Require Import all_ssreflect.
Require Import C04.Model.
Set Implicit Arguments.
Unset Strict Implicit.
Unset Printing Implicit Defensive.

Section Select.
Variable s : settings.

Lemma solve_fn_small c own cs :
  ~~ fast_solves s || (csize c <= max_cholesky_size s) -> direct own -> direct (solve_fn s c own cs).
Proof. by move=> h d; rewrite /solve_fn h; case: c h. Qed.

(* fast_computations.solves off, or size within max_cholesky_size: no conjugate gradients anywhere *)
Theorem select_direct c :
  ~~ fast_solves s || (csize c <= max_cholesky_size s) -> direct (select_solve s c).
Proof.
rewrite /select_solve; elim: c => //=.
- by move=> n h; rewrite /solve_fn h.
- by move=> n h; case: (added_diag_precond s n) => p r /=; rewrite /solve_fn h.
- by move=> fs h; rewrite /solve_fn h.
- by move=> fs dk h; rewrite /solve_fn h.
- by move=> k b _ h; rewrite /solve_fn h.
- by move=> k b _ h; rewrite /solve_fn h.
- by move=> b _ h; rewrite /solve_fn h.
- by move=> n h; rewrite /solve_fn h.
- by move=> fs h; rewrite /solve_fn h.
Qed.

(* conjugate gradients at the top level only for large operators with fast solves on *)
Theorem select_cg_only_when c p r :
  select_solve s c = MCG p r -> fast_solves s /\ max_cholesky_size s < csize c.
Proof.
move=> H; have := @select_direct c; rewrite H /= => h.
have : ~~ (~~ fast_solves s || (csize c <= max_cholesky_size s)) by apply/negP => /h.
by rewrite negb_or negbK -ltnNge => /andP.
Qed.

End Select.
