(* C04 — bridge from the list model (Model.v, generic arithmetic) to MathComp matrices over a field. *)
From mathcomp Require Import all_ssreflect all_algebra.
Require Import C04.Model.
Set Implicit Arguments.
Unset Strict Implicit.
Unset Printing Implicit Defensive.
Import GRing.Theory.
Local Open Scope ring_scope.

Section Bridge.
Variable F : fieldType.
(* square root and strict order are parameters: the field-only theorems hold for any choice *)
Variable sq : F -> F.
Variable lt : F -> F -> bool.

Definition FA : Arith F := MkArith 0 1 +%R (fun x y => x - y) *%R (fun x y => x / y) sq lt.

Definition mx_of m n (M : mat F) : 'M[F]_(m, n) := \matrix_(i < m, j < n) get FA M i j.
Definition cv_of n (v : vec F) : 'cV[F]_n := \col_(i < n) vget FA v i.

Lemma sumn_big (f : nat -> F) k : sumn_ FA f k = \sum_(l < k) f l.
Proof. elim: k => [|k IH] /=; first by rewrite big_ord0. by rewrite big_ord_recr /= IH. Qed.

Lemma vget_vtab n (f : nat -> F) i : (i < n)%N -> vget FA (vtab n f) i = f i.
Proof. by move=> hi; rewrite /vget /vtab nth_mkseq. Qed.

Lemma get_mtab m n (f : nat -> nat -> F) i j : (i < m)%N -> (j < n)%N -> get FA (mtab m n f) i j = f i j.
Proof. by move=> hi hj; rewrite /get /mtab nth_mkseq // nth_mkseq. Qed.

Lemma size_vtab n (f : nat -> F) : size (vtab n f) = n.
Proof. by rewrite size_mkseq. Qed.

Lemma mx_of_trm n (M : mat F) : mx_of n n (trm FA n M) = (mx_of n n M)^T.
Proof. by apply/matrixP => i j; rewrite !mxE get_mtab. Qed.

Lemma cv_of_matvec m n (M : mat F) (x : vec F) :
  cv_of m (matvec FA m n M x) = mx_of m n M *m cv_of n x.
Proof.
apply/colP => i; rewrite !mxE vget_vtab // sumn_big.
by apply: eq_bigr => j _; rewrite !mxE.
Qed.

Lemma cv_of_vsub n (x y : vec F) : cv_of n (vsub FA n x y) = cv_of n x - cv_of n y.
Proof. by apply/colP => i; rewrite !mxE vget_vtab. Qed.

(* columns of an (n, c) tensor as a matrix *)
Definition cols_mx n c (X : cols F) : 'M[F]_(n, c) := \matrix_(i < n, j < c) vget FA (nth [::] X j) i.

Lemma cols_mx_map n c (f : vec F -> vec F) (g : 'cV[F]_n -> 'cV[F]_n) (X : cols F) :
  size X = c -> (forall v, cv_of n (f v) = g (cv_of n v)) ->
  forall j : 'I_c, col j (cols_mx n c (map f X)) = g (col j (cols_mx n c X)).
Proof.
move=> sX H j; have jX : (j < size X)%N by rewrite sX.
have -> : col j (cols_mx n c (map f X)) = cv_of n (f (nth [::] X j)).
  by apply/colP => i; rewrite !mxE (nth_map [::]).
by rewrite H; congr g; apply/colP => i; rewrite !mxE.
Qed.

End Bridge.
