(* C04 — soundness of the whole solve algorithm on the leaf classes, for EVERY settings record:
   whatever method [select_solve] picks, if [alg_solve] returns a value (i.e. the method is direct and its
   factorisation succeeded) then  dense_of o * X = B  column by column.
   (CG paths return no value in the model: they are characterised by the residual predicate.)
   Composite classes (Kron, Block*, BatchRepeat, KronAddedDiag) are covered kernel-wise by
   ProofsKron / ProofsBlock / ProofsEig. *)
From mathcomp Require Import all_ssreflect all_algebra.
Require Import C04.Model C04.ProofsBridge C04.ProofsTri C04.ProofsChol C04.ProofsStruct C04.ProofsCholFactor C04.ProofsJitter.
Set Implicit Arguments.
Unset Strict Implicit.
Unset Printing Implicit Defensive.
Import Order.Theory GRing.Theory Num.Theory.
Local Open Scope ring_scope.

Section Sound.
Variable F : rcfType.
Local Notation RA := (FA (@rsq F) (@rlt F)).
Local Notation mxo := (mx_of (@rsq F) (@rlt F)).
Local Notation cvo := (cv_of (@rsq F) (@rlt F)).
Local Notation get := (get RA).
Local Notation vget := (vget RA).

(* the plain factorisation succeeds (numerically positive definite): psd_safe_cholesky then adds no jitter and the
   factor is the factor of the matrix itself.  (When it fails the library factorises M + jitter I instead - see
   ProofsJitter.psd_safe_chol_correct - and what solve returns is the solution of THAT system.) *)
Definition chol_ok n (M : mat F) : Prop := n != 1%N -> (chol RA n M).2 = 0%N.

(* well-formed leaf operators *)
Definition wf_leaf (o : opd F) : Prop :=
  match o with
  | DGeneric n M | DAddedDiag n M => [/\ symmetric n M, (n = 1%N -> 0 < get M 0 0) & chol_ok n M]
  | DDiag n d => all_nz (@rsq F) (@rlt F) n d
  | DIdentity _ => True
  | DChol up n T | DTriDense up n T => tri_flag (@rsq F) (@rlt F) up n T /\ diag_nz (@rsq F) (@rlt F) n T
  | DLowRankRootAddedDiag n k U d =>
      [/\ all_nz (@rsq F) (@rlt F) n d, (k = 1%N -> 0 < get (cap_mat RA n k U d) 0 0) & chol_ok k (cap_mat RA n k U d)]
  | _ => False
  end.

(* base-class _cholesky on a dense symmetric matrix *)
Lemma dense_cholesky_correct s n M L : symmetric n M -> (n = 1%N -> 0 < get M 0 0) -> chol_ok n M ->
  dense_cholesky RA s n M = Some L ->
  [/\ lower_tri (@rsq F) (@rlt F) n L, diag_nz (@rsq F) (@rlt F) n L & mxo n n L *m (mxo n n L)^T = mxo n n M].
Proof.
move=> sym p1 ok; rewrite /dense_cholesky; case: eqP => [e1|/eqP ne1].
- move: (p1 e1) => m0 [<-]; rewrite e1 /= /rlt ltNge (ltW m0) /=.
  split.
  + by move=> [|i] [|j].
  + by move=> [|i] // _; rewrite /Model.get /= gt_eqF // sqrtr_gt0.
  + apply/matrixP => i j; rewrite !mxE big_ord_recl big_ord0 addr0 !mxE !ord1 /Model.get /=.
    by rewrite -expr2 sqr_sqrtr // ltW.
- have := ok ne1; case E: (chol RA n M) => [L' info] /= e0; rewrite e0 in E.
  by rewrite (psd_safe_nojitter _ _ E) => -[<-]; exact: chol_factor_correct E sym.
Qed.

Lemma cap_symmetric n k U d : symmetric k (cap_mat RA n k U d).
Proof.
move=> i j ik jk; rewrite !get_mtab // eq_sym; congr (_ + _).
by rewrite !sumn_big; apply: eq_bigr => l _; rewrite /= mulrCA [RHS]mulrCA; congr (_ * _); exact: mulrC.
Qed.

(* the matrix a leaf denotes, as MathComp matrix *)
Lemma dense_diag n d : mxo n n (dense_of RA (DDiag n d)) = dmx (@rsq F) (@rlt F) n d.
Proof. by apply/matrixP => i j; rewrite !mxE get_mtab // -(inj_eq val_inj). Qed.

Lemma dense_chol up n T : mxo n n (dense_of RA (DChol up n T)) = chol_denote (@rsq F) (@rlt F) up n T.
Proof.
apply/matrixP => i j; rewrite /chol_denote !mxE get_mtab //; case: up; rewrite sumn_big !mxE;
  by apply: eq_bigr => l _; rewrite !mxE.
Qed.

Lemma dense_lrrad n k U d :
  mxo n n (dense_of RA (DLowRankRootAddedDiag n k U d)) = dmx (@rsq F) (@rlt F) n d + mxo n k U *m (mxo n k U)^T.
Proof.
apply/matrixP => i j; rewrite !mxE get_mtab // sumn_big -(inj_eq val_inj) /=.
have -> : \sum_(l < k) get U i l * get U j l = \sum_(l < k) mxo n k U i l * (mxo n k U)^T l j.
  by apply: eq_bigr => l _; rewrite !mxE.
by case: eqP => _; rewrite ?add0r // addrC.
Qed.

Lemma dense_perm_mul p (x : vec F) : size x = size p -> all (fun y => (y < size p)%N) p ->
  mxo (size p) (size p) (dense_of RA (DPerm F p)) *m cvo (size p) x = cvo (size p) (perm_matmul RA p x).
Proof.
move=> sx bnd; apply/colP => i; rewrite !mxE /perm_matmul /Model.vget (nth_map 0%N) //.
have pi : (nth 0%N p i < size p)%N by rewrite (allP bnd) // mem_nth.
rewrite (bigD1 (Ordinal pi)) //= big1 ?addr0; last first.
  move=> j ne; rewrite !mxE get_mtab //.
  by rewrite -(inj_eq val_inj) /= eq_sym in ne; rewrite (negbTE ne) mul0r.
by rewrite !mxE get_mtab // eqxx mul1r.
Qed.

(* ---- the theorem: one column *)
Definition solves (o : opd F) (x b : vec F) : Prop :=
  let n := osize o in mxo n n (dense_of RA o) *m cvo n x = cvo n b.

Lemma omap_some (f : vec F -> vec F) (B X : cols F) : omap f B = Some X -> X = map f B.
Proof. by case. Qed.

Lemma run_cg s o p r (B : cols F) : run_method RA s o (MCG p r) B = None.
Proof. by case: o. Qed.

Lemma run_chol_generic s n M (B : cols F) :
  run_method RA s (DGeneric n M) (MCholesky (if n == 1%N then PScalar else PDense n)) B
  = if dense_cholesky RA s n M is Some L then omap (chol_solve RA false n L) B else None.
Proof. by case: (n == 1%N). Qed.

Lemma run_chol_added s n M (B : cols F) :
  run_method RA s (DAddedDiag n M) (MCholesky (if n == 1%N then PScalar else PDense n)) B
  = if dense_cholesky RA s n M is Some L then omap (chol_solve RA false n L) B else None.
Proof. by case: (n == 1%N). Qed.

Lemma run_diag s n d (B : cols F) : run_method RA s (DDiag n d) MDiagDiv B = omap (diag_solve RA n d) B.
Proof. by []. Qed.
Lemma run_ident s n (B : cols F) : run_method RA s (DIdentity F n) MIdentity B = Some B.
Proof. by []. Qed.
Lemma run_cholfac s up n T (B : cols F) : run_method RA s (DChol up n T) MCholFactor B = omap (chol_solve RA up n T) B.
Proof. by []. Qed.
Lemma run_tri s up n T (B : cols F) : run_method RA s (DTriDense up n T) MTriSubst B = omap (tri_solve RA up n T) B.
Proof. by []. Qed.
Lemma run_wood s n k U d (B : cols F) :
  run_method RA s (DLowRankRootAddedDiag n k U d) (MWoodbury k) B =
  if dense_cholesky RA s k (cap_mat RA n k U d) is Some Lc then omap (woodbury_solve RA n k U d Lc) B else None.
Proof. by []. Qed.
Lemma run_perm s p (B : cols F) : run_method RA s (DPerm F p) MPermT B = omap (perm_solve RA p) B.
Proof. by []. Qed.

Local Arguments run_method : simpl never.
Local Arguments dense_cholesky : simpl never.
Local Arguments omap : simpl never.

Theorem alg_solve_sound_leaf (s : settings) (o : opd F) (B X : cols F) :
  wf_leaf o -> all (fun b => size b == osize o) B ->
  alg_solve RA s o B None = Some X ->
  size X = size B /\ forall j, (j < size B)%N -> solves o (nth [::] X j) (nth [::] B j).
Proof.
case: o => //=.
- (* DGeneric *)
  move=> n M [sym p1 ok] sz; rewrite /alg_solve /select_solve /= /solve_fn /=.
  case: ifP => _; last by rewrite run_cg.
  rewrite run_chol_generic.
  case E: (dense_cholesky RA s n M) => [L|//] /omap_some ->; rewrite size_map; split=> // j jB.
  have [lo nz HL] := dense_cholesky_correct sym p1 ok E.
  rewrite /solves /= (nth_map [::]) // -HL.
  exact: (@chol_solve_correct _ (@rsq F) (@rlt F) false).
- (* DAddedDiag *)
  move=> n M [sym p1 ok] sz; rewrite /alg_solve /select_solve /= /solve_fn /=.
  case: (added_diag_precond s n) => pc rk /=.
  case: ifP => _; last by case: pc; rewrite run_cg.
  rewrite run_chol_added.
  case E: (dense_cholesky RA s n M) => [L|//] /omap_some ->; rewrite size_map; split=> // j jB.
  have [lo nz HL] := dense_cholesky_correct sym p1 ok E.
  rewrite /solves /= (nth_map [::]) // -HL.
  exact: (@chol_solve_correct _ (@rsq F) (@rlt F) false).
- (* DDiag *)
  move=> n d nz sz; rewrite /alg_solve /select_solve /= => -[<-]; rewrite size_map; split=> // j jB.
  by rewrite /solves (nth_map [::]) // dense_diag; exact: diag_solve_correct.
- (* DIdentity *)
  move=> n _ sz; rewrite /alg_solve /select_solve /= => -[<-]; split=> // j jB.
  rewrite /solves /=.
  have -> : mxo n n (mtab n n (fun i j => if i == j then 1 else 0)) = 1%:M.
    by apply/matrixP => i k; rewrite !mxE get_mtab // -(inj_eq val_inj) /=; case: eqP.
  by rewrite mul1mx.
- (* DChol *)
  move=> up n T [tr nz] sz; rewrite /alg_solve /select_solve /= => -[<-]; rewrite size_map; split=> // j jB.
  by rewrite /solves (nth_map [::]) // dense_chol; exact: chol_solve_correct.
- (* DTriDense *)
  move=> up n T [tr nz] sz; rewrite /alg_solve /select_solve /= => -[<-]; rewrite size_map; split=> // j jB.
  by rewrite /solves (nth_map [::]) //=; exact: tri_solve_correct.
- (* DLowRankRootAddedDiag *)
  move=> n k U d [nz p1 ok] sz; rewrite /alg_solve /select_solve /= run_wood.
  case E: (dense_cholesky RA s k (cap_mat RA n k U d)) => [Lc|//]; rewrite /omap => -[<-]; rewrite size_map; split=> // j jB.
  have [lo dz HL] := dense_cholesky_correct (@cap_symmetric n k U d) p1 ok E.
  rewrite /solves (nth_map [::]) // dense_lrrad.
  exact: woodbury_solve_correct.
Qed.

(* with a left factor L (k x n): the result is L times a solution — the own-solve classes multiply afterwards,
   the others go through Solve.forward (solve [L^T | B], slice, multiply) *)
Theorem alg_solve_sound_leaf_left (s : settings) (o : opd F) (B Y : cols F) k (L : mat F) :
  wf_leaf o -> all (fun b => size b == osize o) B ->
  alg_solve RA s o B (Some (k, L)) = Some Y ->
  exists X, [/\ size X = size B, forall j, (j < size B)%N -> solves o (nth [::] X j) (nth [::] B j)
              & Y = left_mul RA k (osize o) L X].
Proof.
move=> wf sz H.
suff [X [HX ->]] : exists X, alg_solve RA s o B None = Some X /\ Y = left_mul RA k (osize o) L X.
  by have [s1 s2] := alg_solve_sound_leaf wf sz HX; exists X.
case: o wf sz H => //=.
- move=> n M _ _; rewrite /alg_solve /select_solve /= /solve_fn /=.
  case: ifP => _; last by rewrite run_cg.
  rewrite !run_chol_generic; case: (dense_cholesky RA s n M) => [Lc|//]; rewrite /omap => -[<-].
  by eexists; split; first reflexivity; rewrite -map_drop drop_size_cat // size_mkseq.
- move=> n M _ _; rewrite /alg_solve /select_solve /= /solve_fn /=.
  case: (added_diag_precond s n) => pc rk /=.
  case: ifP => _; last by case: pc; rewrite run_cg.
  rewrite !run_chol_added; case: (dense_cholesky RA s n M) => [Lc|//]; rewrite /omap => -[<-].
  by eexists; split; first reflexivity; rewrite -map_drop drop_size_cat // size_mkseq.
- by move=> n d _ _; rewrite /alg_solve /select_solve /= => -[<-]; eexists; split; first reflexivity.
- by move=> n _ _; rewrite /alg_solve /select_solve /= => -[<-]; eexists; split; first reflexivity.
- by move=> up n T _ _; rewrite /alg_solve /select_solve /= => -[<-]; eexists; split; first reflexivity.
- by move=> up n T _ _; rewrite /alg_solve /select_solve /= => -[<-]; eexists; split; first reflexivity.
- move=> n k' U d _ _; rewrite /alg_solve /select_solve /= run_wood.
  case: (dense_cholesky RA s k' (cap_mat RA n k' U d)) => [Lc|//]; rewrite /omap => -[<-].
  by eexists; split; first reflexivity.
Qed.

(* permutation operators are not PD: only the structured branch (fast solves on, n > max_cholesky_size) is in scope *)
Theorem alg_solve_sound_perm (s : settings) (p : seq nat) (B X : cols F) :
  uniq p -> all (fun x => (x < size p)%N) p -> all (fun b => size b == size p) B ->
  fast_solves s -> (max_cholesky_size s < size p)%N ->
  alg_solve RA s (DPerm F p) B None = Some X ->
  size X = size B /\ forall j, (j < size B)%N -> solves (DPerm F p) (nth [::] X j) (nth [::] B j).
Proof.
move=> un bnd sz fs big; rewrite /alg_solve /select_solve /= /solve_fn /= fs /= leqNgt big /= run_perm.
move=> /omap_some ->; rewrite size_map; split=> // j jB.
have sb : size (nth [::] B j) = size p by apply/eqP; apply: (all_nthP [::] sz).
rewrite /solves /= (nth_map [::]) // /osize /= dense_perm_mul //; last by rewrite /perm_solve size_mkseq.
by rewrite perm_solve_correct.
Qed.

(* ... and with a left factor (Solve.forward: solve [L^T | B], slice, multiply) *)
Theorem alg_solve_sound_perm_left (s : settings) (p : seq nat) (B Y : cols F) k (L : mat F) :
  uniq p -> all (fun x => (x < size p)%N) p -> all (fun b => size b == size p) B ->
  fast_solves s -> (max_cholesky_size s < size p)%N ->
  alg_solve RA s (DPerm F p) B (Some (k, L)) = Some Y ->
  exists X, [/\ size X = size B, forall j, (j < size B)%N -> solves (DPerm F p) (nth [::] X j) (nth [::] B j)
              & Y = left_mul RA k (size p) L X].
Proof.
move=> un bnd sz fs big H.
suff [X [HX ->]] : exists X, alg_solve RA s (DPerm F p) B None = Some X /\ Y = left_mul RA k (size p) L X.
  by have [s1 s2] := alg_solve_sound_perm un bnd sz fs big HX; exists X.
move: H; rewrite /alg_solve /select_solve /= /solve_fn /= fs /= leqNgt big /= !run_perm /omap => -[<-].
by eexists; split; first reflexivity; rewrite -map_drop drop_size_cat // size_mkseq.
Qed.

End Sound.
