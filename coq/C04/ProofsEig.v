(* C04 — eigen-shift identity of KroneckerProductAddedDiagLinearOperator._solve (constant diagonal):
   with K = Q diag(w) Q^T, Q orthogonal and w_i + sigma > 0,
       (K + sigma I) (Q S (S (Q^T b))) = b      where S = diag (1 / sqrt (w_i + sigma)).
   Real closed field (square roots); every size. *)
From mathcomp Require Import all_ssreflect all_algebra.
Set Implicit Arguments.
Unset Strict Implicit.
Unset Printing Implicit Defensive.
Import Order.Theory GRing.Theory Num.Theory.
Local Open Scope ring_scope.

Section Eig.
Variable F : rcfType.
Variable n : nat.
Variables (Q : 'M[F]_n) (w : 'rV[F]_n) (sigma : F).
Hypothesis QtQ : Q^T *m Q = 1%:M.
Hypothesis pos : forall i, 0 < w 0 i + sigma.

Definition sinv : 'rV[F]_n := \row_i (Num.sqrt (w 0 i + sigma))^-1.

Lemma QQt : Q *m Q^T = 1%:M.
Proof. exact: mulmx1C QtQ. Qed.

Lemma shift_scale : (diag_mx w + sigma%:M) *m diag_mx sinv *m diag_mx sinv = 1%:M.
Proof.
have -> : diag_mx w + sigma%:M = diag_mx (\row_i (w 0 i + sigma)).
  apply/matrixP => i j; rewrite !mxE; case: eqP => _; rewrite ?mulr1n ?mulr0n ?addr0 //.
rewrite !mulmx_diag -diag_const_mx; congr diag_mx.
apply/rowP => i; rewrite !mxE -mulrA -invfM -expr2 sqr_sqrtr ?divff //; first exact: lt0r_neq0 (pos i).
exact: ltW (pos i).
Qed.

Theorem eigshift_identity (b : 'cV[F]_n) :
  (Q *m diag_mx w *m Q^T + sigma%:M) *m (Q *m diag_mx sinv *m (diag_mx sinv *m (Q^T *m b))) = b.
Proof.
have -> : Q *m diag_mx w *m Q^T + sigma%:M = Q *m (diag_mx w + sigma%:M) *m Q^T.
  by rewrite mulmxDr mulmxDl mul_mx_scalar -scalemxAl QQt scalemx1.
rewrite !mulmxA -[_ *m Q^T *m Q]mulmxA QtQ mulmx1.
have -> : Q *m (diag_mx w + sigma%:M) *m diag_mx sinv *m diag_mx sinv
          = Q *m ((diag_mx w + sigma%:M) *m diag_mx sinv *m diag_mx sinv) by rewrite !mulmxA.
by rewrite shift_scale mulmx1 QQt mul1mx.
Qed.

End Eig.
