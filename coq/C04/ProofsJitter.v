(* C04 — psd_safe_cholesky's jitter loop (utils/cholesky.py, [psd_safe_batch] in Model.v).
   1. a matrix whose plain factorisation succeeds is never jittered            (psd_safe_nojitter, any field)
   2. a member of a batch is factorised exactly as it would be on its own: the jitter the OTHER members
      need does not touch it ("add jitter only where needed")                  (psd_safe_batch_member, any field,
      any batch size, any number of tries)
   3. whatever comes back is the Cholesky factor of  M + sigma I  with sigma = 0 or a rung jitter * 10^j of the
      ladder, j < max_tries                                                     (psd_safe_chol_correct, real closed field) *)
From mathcomp Require Import all_ssreflect all_algebra.
Require Import C04.Model C04.ProofsBridge C04.ProofsTri C04.ProofsCholFactor.
Set Implicit Arguments.
Unset Strict Implicit.
Unset Printing Implicit Defensive.
Import Order.Theory GRing.Theory Num.Theory.
Local Open Scope ring_scope.

(* ---------------------------------------------------------------- the factorisation reads M only through its
   entries (i, j), j <= i < n *)
Section Ext.
Variable F : fieldType.
Variable sq : F -> F.
Variable lt : F -> F -> bool.
Local Notation FA := (FA sq lt).
Local Notation get := (get FA).
Local Notation vget := (vget FA).

Lemma crow_ext Ls (a a' : vec F) j :
  (forall j', (j' < j)%N -> vget a j' = vget a' j') -> crow FA Ls a j = crow FA Ls a' j.
Proof.
elim: j => [|j IH] //= H; rewrite IH; last by move=> j' lj; apply: H; rewrite ltnS ltnW.
by rewrite H.
Qed.

Lemma crows_ext (M M' : mat F) i :
  (forall i' j, (i' < i)%N -> (j <= i')%N -> get M i' j = get M' i' j) -> crows FA M i = crows FA M' i.
Proof.
elim: i => [|i IH] //= H.
rewrite IH; last by move=> i' j li lj; apply: H => //; rewrite ltnS ltnW.
case: (crows FA M' i) => Ls info; case: ifP => // _.
have e j : (j <= i)%N -> Model.vget FA (nth [::] M i) j = Model.vget FA (nth [::] M' i) j.
  by move=> lj; apply: (H i j).
rewrite (@crow_ext Ls (nth [::] M i) (nth [::] M' i) i); last by move=> j' lj; apply: e; rewrite ltnW.
by rewrite e.
Qed.

Lemma chol_ext n (M M' : mat F) :
  (forall i j, (i < n)%N -> (j < n)%N -> get M i j = get M' i j) -> chol FA n M = chol FA n M'.
Proof. by move=> H; rewrite /chol; apply: crows_ext => i j li lj; apply: H => //; apply: leq_ltn_trans lj li. Qed.

Lemma get_add_diag n (M : mat F) x i j : (i < n)%N -> (j < n)%N ->
  get (add_diag FA n M x) i j = if i == j then get M i j + x else get M i j.
Proof. by move=> li lj; rewrite /add_diag get_mtab. Qed.

Lemma chol_add_diag0 n (M : mat F) : chol FA n (add_diag FA n M 0) = chol FA n M.
Proof. by apply: chol_ext => i j li lj; rewrite get_add_diag //; case: eqP => // _; rewrite addr0. Qed.

(* ---------------------------------------------------------------- the loop *)
Local Notation jstate := (jstate F).
Local Notation jstep := (jstep FA).
Local Notation jloop := (jloop FA).
Local Notation jok := (@jok F).
Local Notation jfac := (@jfac F).

(* a state carries the factorisation of its matrix *)
Definition consistent n (st : jstate) : Prop := chol FA n st.1.1 = (st.1.2, st.2).

Lemma jinit_consistent n M : consistent n (jinit FA n M).
Proof. by rewrite /consistent /jinit; case E: (chol FA n M) => [L info]. Qed.

Lemma jstep_consistent n jit jprev i st : consistent n (jstep n jit jprev i st).
Proof.
rewrite /consistent /Model.jstep; case: st => [[Ap L] info] /=.
set Ap' := add_diag _ _ _ _.
by case E: (chol FA n Ap') => [L' info'].
Qed.

(* a member that has factorised is a fixed point of the loop body: 0 is added, the same factor comes back *)
Lemma jstep_fix n jit jprev i st : consistent n st -> jok st ->
  jok (jstep n jit jprev i st) /\ jfac (jstep n jit jprev i st) = jfac st.
Proof.
case: st => [[Ap L] info]; rewrite /consistent /Model.jok /Model.jfac /= => C /eqP e0.
rewrite /Model.jstep e0 /= chol_add_diag0 C e0 /=.
by [].
Qed.

Lemma all1 (T : Type) (p : pred T) (x : T) : all p [:: x] = p x.
Proof. by rewrite /= andbT. Qed.

Lemma jloopS n jit sts jprev i k :
  jloop n jit sts jprev i k.+1 =
  if all jok (map (jstep n jit jprev i) sts) then Some (map jfac (map (jstep n jit jprev i) sts))
  else jloop n jit (map (jstep n jit jprev i) sts) (jit * apow10 FA i) i.+1 k.
Proof. by []. Qed.

(* what member m of the batch sees: its own factor if it has already factorised, else the result of ITS loop *)
Definition member_res n jit k jprev i (st : jstate) (L : mat F) : Prop :=
  if jok st then L = jfac st else jloop n jit [:: st] jprev i k = Some [:: L].

(* the loop over a batch, seen from member m *)
Lemma jloop_member n jit k : forall (sts : seq jstate) jprev i Ls,
  (forall m, (m < size sts)%N -> consistent n (nth (jinit FA n [::]) sts m)) ->
  jloop n jit sts jprev i k = Some Ls ->
  forall m, (m < size sts)%N -> member_res n jit k jprev i (nth (jinit FA n [::]) sts m) (nth [::] Ls m).
Proof.
elim: k => [|k IH] sts jprev i Ls cons; first by [].
set d := jinit FA n [::].
set sts' := map (jstep n jit jprev i) sts.
have nthmap m : (m < size sts)%N -> nth d sts' m = jstep n jit jprev i (nth d sts m).
  by move=> lm; rewrite (nth_map d).
have cons' m : (m < size sts')%N -> consistent n (nth d sts' m).
  by rewrite size_map => lm; rewrite nthmap //; exact: jstep_consistent.
rewrite jloopS -/sts' => H m lm; rewrite /member_res jloopS [map _ [:: _]]/= all1.
case: ifP H => [allok [<-]|notall H].
- (* every member has factorised: the loop returns *)
  have okm : jok (jstep n jit jprev i (nth d sts m)).
    by move/allP: allok; apply; rewrite -nthmap // mem_nth // size_map.
  rewrite (nth_map d) ?size_map // nthmap //.
  case ok0: (jok (nth d sts m)); first by have [_ ->] := jstep_fix jit jprev i (cons m lm) ok0.
  by rewrite okm.
- (* some member failed: next rung *)
  have := IH _ _ _ _ cons' H m; rewrite size_map => /(_ lm); rewrite /member_res nthmap //.
  case ok0: (jok (nth d sts m)).
  + have [ok1 e1] := jstep_fix jit jprev i (cons m lm) ok0.
    by rewrite ok1 e1.
  + by case: ifP => [ok1 ->|_ ->].
Qed.

(* THE THEOREM: in a batch that psd_safe_cholesky factorises, every member gets the factor it would get alone *)
Theorem psd_safe_batch_member jexp tries n (Ms : seq (mat F)) Ls m :
  psd_safe_batch FA jexp tries n Ms = Some Ls -> (m < size Ms)%N ->
  psd_safe_chol FA jexp tries n (nth [::] Ms m) = Some (nth [::] Ls m).
Proof.
rewrite /psd_safe_chol /psd_safe_batch => H lm.
set d := jinit FA n [::].
have lm' : (m < size [seq jinit FA n M | M <- Ms])%N by rewrite size_map.
have nm : nth d [seq jinit FA n M | M <- Ms] m = jinit FA n (nth [::] Ms m) by rewrite (nth_map [::]).
have cons k : (k < size [seq jinit FA n M | M <- Ms])%N -> consistent n (nth d [seq jinit FA n M | M <- Ms] k).
  by rewrite size_map => lk; rewrite (nth_map [::]) //; exact: jinit_consistent.
rewrite [map _ [:: _]]/= all1.
case: ifP H => [allok [<-]|notall H].
- have okm : jok (jinit FA n (nth [::] Ms m)) by move/allP: allok; apply; rewrite -nm mem_nth.
  by rewrite okm /= (nth_map d) // nm.
- have := jloop_member cons H lm'; rewrite /member_res nm.
  by case: ifP => [ok0 ->|_ ->].
Qed.

(* a matrix whose plain factorisation succeeds is returned without jitter, whatever the settings *)
Lemma psd_safe_nojitter jexp tries n (M L : mat F) :
  chol FA n M = (L, 0%N) -> psd_safe_chol FA jexp tries n M = Some L.
Proof. by move=> E; rewrite /psd_safe_chol /psd_safe_batch /= /jinit E. Qed.

End Ext.

(* ---------------------------------------------------------------- what comes back factorises M + sigma I *)
Section Rcf.
Variable F : rcfType.
Local Notation RA := (FA (@rsq F) (@rlt F)).
Local Notation mxo := (mx_of (@rsq F) (@rlt F)).
Local Notation get := (get RA).

Lemma add_diag_sym n (M : mat F) x : symmetric n M -> symmetric n (add_diag RA n M x).
Proof.
move=> sym i j li lj; rewrite !get_add_diag // eq_sym; case: eqP => [->|_] //.
exact: sym.
Qed.

Lemma mx_add_diag n (M : mat F) x : mxo n n (add_diag RA n M x) = mxo n n M + x%:M.
Proof.
apply/matrixP => i j; rewrite !mxE get_add_diag // -(inj_eq val_inj) /=.
by case: eqP => _; rewrite ?mulr1n ?mulr0n ?addr0.
Qed.

(* the loop for one member that has not factorised yet: the result factorises Ap + sigma I with
   sigma = jit * 10^j - jprev for a rung j of the remaining ladder *)
Lemma jloop1_correct n jit k : forall (Ap L0 : mat F) info0 jprev i L,
  symmetric n Ap -> info0 != 0%N ->
  jloop RA n jit [:: (Ap, L0, info0)] jprev i k = Some [:: L] ->
  exists j, [/\ (i <= j < i + k)%N, lower_tri (@rsq F) (@rlt F) n L, diag_nz (@rsq F) (@rlt F) n L
              & mxo n n L *m (mxo n n L)^T = mxo n n Ap + (jit * apow10 RA j - jprev)%:M].
Proof.
elim: k => [|k IH] Ap L0 info0 jprev i L sym nz //=.
rewrite /Model.jstep nz.
set Ap' := add_diag RA n Ap _.
have sym' : symmetric n Ap' by exact: add_diag_sym.
case E: (chol RA n Ap') => [L' info'] /=; rewrite /Model.jok /= andbT.
case: ifP => [/eqP e0 [<-]|ne0 H].
- rewrite e0 in E; have [lo dz HL] := chol_factor_correct E sym'.
  exists i; split=> //; first by rewrite leqnn addnS ltnS leq_addr.
  by rewrite HL mx_add_diag.
- have [j [/andP[l1 l2] lo dz HL]] := IH _ _ _ _ _ _ sym' (negbT ne0) H.
  exists j; split=> //; first by rewrite (ltnW l1) addnS -addSn.
  rewrite HL mx_add_diag -addrA -raddfD /=; congr (_ + _%:M).
  by rewrite addrC addrA subrK.
Qed.

Theorem psd_safe_chol_correct jexp tries n (M L : mat F) :
  psd_safe_chol RA jexp tries n M = Some L -> symmetric n M ->
  exists sigma, [/\ sigma = 0 \/ exists2 j, (j < tries)%N & sigma = 1 / apow10 RA jexp * apow10 RA j,
                    lower_tri (@rsq F) (@rlt F) n L, diag_nz (@rsq F) (@rlt F) n L
                  & mxo n n L *m (mxo n n L)^T = mxo n n M + sigma%:M].
Proof.
rewrite /psd_safe_chol /psd_safe_batch /= /jinit => H sym.
case E: (chol RA n M) H => [L0 info0] /=; rewrite /Model.jok /= andbT.
case: ifP => [/eqP e0|ne0].
- move=> [<-]; rewrite e0 in E; have [lo dz HL] := chol_factor_correct E sym.
  by exists 0; split=> //; [left | rewrite HL raddf0 addr0].
- case H: (jloop _ _ _ _ _ _) => [[|L1 [|? ?]]|] // [<-].
  have [j [/andP[_ lj] lo dz HL]] := jloop1_correct sym (negbT ne0) H.
  exists (1 / apow10 RA jexp * apow10 RA j); split=> //; first by right; exists j.
  by rewrite HL subr0.
Qed.

End Rcf.
