(* C04 — soundness of the WHOLE solve algorithm over every modelled positive-definite class, at any nesting depth:
     Dense-like / AddedDiag / Diag / Identity / Chol / LowRankRootAddedDiag leaves,
     Kron (per-factor solves through the rotation, and one Cholesky per factor),
     KronAddedDiag (constant diagonal: eigen-shift; Cholesky of the dense matrix),
     BlockDiag / BlockInterleaved (block-wise, structured and Cholesky), BatchRepeat —
   for EVERY settings record, whatever method select_solve picks: a returned value solves dense_of o * x = b
   column by column (with a left factor: L times such a solution); likewise for a solve routed through the
   factor operator of either orientation.  Hence: any two selectable routes give the same columns.
   The proofs assemble the kernel theorems (ProofsKron, ProofsKronTri, ProofsEigKron, ProofsBlock, ProofsStruct,
   ProofsChol, ProofsCholFactor, ProofsJitter) by induction over the operator tree. *)
From mathcomp Require Import all_ssreflect all_algebra.
Require Import C04.Model C04.ProofsBridge C04.ProofsTri C04.ProofsChol C04.ProofsStruct C04.ProofsCholFactor
               C04.ProofsKron C04.ProofsKronTri C04.ProofsEig C04.ProofsEigKron C04.ProofsBlock C04.ProofsAlg
               C04.ProofsJitter C04.ProofsSound C04.ProofsFactor C04.ProofsKronDiag C04.ProofsSumKron.
Set Implicit Arguments.
Unset Strict Implicit.
Unset Printing Implicit Defensive.
Import Order.Theory GRing.Theory Num.Theory.
Local Open Scope ring_scope.

Section All.
Variable F : rcfType.
Local Notation RA := (FA (@rsq F) (@rlt F)).
Local Notation mxo := (mx_of (@rsq F) (@rlt F)).
Local Notation cvo := (cv_of (@rsq F) (@rlt F)).
Local Notation get := (get RA).
Local Notation vget := (vget RA).
Local Notation opd := (opd F).

(* ---------------------------------------------------------------- induction over operator trees *)
Definition allc (P : opd -> Prop) (fs : seq opd) : Prop := foldr (fun f Q => P f /\ Q) True fs.

Lemma allc_nth (P : opd -> Prop) fs d i : allc P fs -> (i < size fs)%N -> P (nth d fs i).
Proof. by elim: fs i => [|f fs IH] [|i] //= [pf pfs] // /IH; apply. Qed.

Section OpdInd.
Variable P : opd -> Prop.
Hypothesis Hgen : forall n M, P (DGeneric n M).
Hypothesis Hadd : forall n M, P (DAddedDiag n M).
Hypothesis Hdiag : forall n d, P (DDiag n d).
Hypothesis Hid : forall n, P (DIdentity F n).
Hypothesis Hchol : forall up n T, P (DChol up n T).
Hypothesis Htri : forall up n T, P (DTriDense up n T).
Hypothesis Htriover : forall up b, P b -> P (DTriOver up b).
Hypothesis Hkron : forall fs, allc P fs -> P (DKron fs).
Hypothesis Hkad : forall fs dk d eig, allc P fs -> P (DKronAddedDiag fs dk d eig).
Hypothesis Hlr : forall n k U d, P (DLowRankRootAddedDiag n k U d).
Hypothesis Hbd : forall k bs, allc P bs -> P (DBlockDiag k bs).
Hypothesis Hbi : forall k bs, allc P bs -> P (DBlockInterleaved k bs).
Hypothesis Hrep : forall b, P b -> P (DBatchRepeat b).
Hypothesis Hperm : forall p, P (DPerm F p).
Hypothesis Hcholof : forall up b, P b -> P (DCholOf up b).
Hypothesis Hkkd : forall cf fs ds eig, allc P fs -> P (DKronAddedKronDiag cf fs ds eig).
Hypothesis Hsk : forall fs1 fs2 eig, allc P fs1 -> allc P fs2 -> P (DSumKron fs1 fs2 eig).

Fixpoint opd_ind' (o : opd) : P o :=
  let go := fix go (fs : seq opd) : allc P fs :=
    match fs with [::] => I | f :: fs' => conj (opd_ind' f) (go fs') end in
  match o with
  | DGeneric n M => Hgen n M
  | DAddedDiag n M => Hadd n M
  | DDiag n d => Hdiag n d
  | DIdentity n => Hid n
  | DChol up n T => Hchol up n T
  | DTriDense up n T => Htri up n T
  | DTriOver up b => Htriover up (opd_ind' b)
  | DKron fs => Hkron (go fs)
  | DKronAddedDiag fs dk d eig => Hkad dk d eig (go fs)
  | DLowRankRootAddedDiag n k U d => Hlr n k U d
  | DBlockDiag k bs => Hbd k (go bs)
  | DBlockInterleaved k bs => Hbi k (go bs)
  | DBatchRepeat b => Hrep (opd_ind' b)
  | DPerm p => Hperm p
  | DCholOf up b => Hcholof up (opd_ind' b)
  | DKronAddedKronDiag cf fs ds eig => Hkkd cf ds eig (go fs)
  | DSumKron fs1 fs2 eig => Hsk eig (go fs1) (go fs2)
  end.
End OpdInd.

(* ---------------------------------------------------------------- well-formed positive-definite operator trees *)
(* the dense matrix of o is symmetric and its plain factorisation succeeds (numerically positive definite) *)
Definition dense_wf (o : opd) : Prop :=
  [/\ symmetric (osize o) (dense_of RA o), (osize o = 1%N -> 0 < get (dense_of RA o) 0 0)
    & chol_ok (osize o) (dense_of RA o)].

(* per-factor eigh oracle specification: size, Q^T Q = I (eig_wf), Q diag(w) Q^T = the factor's matrix *)
Definition eig_spec (f : opd) (e : eigd F) : Prop :=
  [/\ e.1.1 = osize f, eig_wf e
    & forall i j, (i < osize f)%N -> (j < osize f)%N ->
        \sum_(a < osize f) get e.1.2 i a * (vget e.2 a * get e.1.2 j a) = get (dense_of RA f) i j].

Fixpoint all2P (T U : Type) (P : T -> U -> Prop) (a : seq T) (b : seq U) : Prop :=
  match a, b with
  | x :: a', y :: b' => P x y /\ all2P P a' b'
  | [::], [::] => True
  | _, _ => False
  end.

(* the inverse root root_inv_decomposition(method="cholesky") returns for a dense matrix whose plain factorisation succeeds:
   (L^-1)^T with L the Cholesky factor (size 1: 1 / sqrt) - independent of the settings *)
Definition inv_root_spec (m : nat) (C : mat F) : mat F :=
  if m == 1%N then [:: [:: 1 / Num.sqrt (get C 0 0)]]
  else tri_inv_t RA m (if m == 1%N then [::] else (chol RA m C).1).

(* one Kronecker position of a SumKronecker operator as the record ProofsSumKron works with *)
Definition skf_of (f1 f2 : opd) (e : eigd F) : skf F :=
  Skf (osize f2) (get (dense_of RA f1)) (get (dense_of RA f2)) (inv_root_spec (osize f2) (dense_of RA f2)) e.1.2 e.2.
Fixpoint skfs (fs1 fs2 : seq opd) (eig : seq (eigd F)) : seq (skf F) :=
  match fs1, fs2, eig with
  | f1 :: fs1', f2 :: fs2', e :: eig' => skf_of f1 f2 e :: skfs fs1' fs2' eig'
  | _, _, _ => [::]
  end.
(* per position: sizes agree, C_i symmetric with a successful plain Cholesky, the oracle's specification
   R_i^T A_i R_i = Q_i diag(w_i) Q_i^T *)
Definition sk_pos_ok (f1 f2 : opd) (e : eigd F) : Prop :=
  [/\ osize f1 = osize f2 /\ e.1.1 = osize f2, (0 < osize f2)%N, dense_wf f2, eig_wf e
    & forall i j, (i < osize f2)%N -> (j < osize f2)%N ->
        fe (mulfac (mulfac (rtfac (skf_of f1 f2 e)) (afac (skf_of f1 f2 e))) (rfac (skf_of f1 f2 e))) i j = qwq e i j].
Fixpoint all3P' (P : opd -> opd -> eigd F -> Prop) (a b : seq opd) (c : seq (eigd F)) : Prop :=
  match a, b, c with
  | x :: a', y :: b', z :: c' => P x y z /\ all3P' P a' b' c'
  | [::], [::], [::] => True
  | _, _, _ => False
  end.

Fixpoint wfpd (o : opd) : Prop :=
  match o with
  | DGeneric _ _ | DAddedDiag _ _ => dense_wf o
  | DDiag n d => forall i, (i < n)%N -> 0 < vget d i
  | DIdentity _ => True
  | DChol up n T => tri_flag (@rsq F) (@rlt F) up n T /\ diag_nz (@rsq F) (@rlt F) n T
  | DKron fs => allc wfpd fs /\ allc (fun f => (0 < osize f)%N /\ dense_wf f) fs
  | DKronAddedDiag fs dk d eig =>
      [/\ allc (fun f => (0 < osize f)%N) fs, dense_wf o,
          match dk with DConst | DGeneral => True | _ => False end   (* (a Kronecker-structured diagonal is DKronAddedKronDiag) *)
        & dk = DConst ->
          [/\ all2P eig_spec fs eig,
              (forall I, (I < osize o)%N -> vget d I = vget d 0)
            & forall J, (J < osize o)%N -> 0 < vget (kron_evals RA (map snd eig)) J + vget d 0]]
  | DLowRankRootAddedDiag n k U d =>
      [/\ all_nz (@rsq F) (@rlt F) n d, (k = 1%N -> 0 < get (cap_mat RA n k U d) 0 0),
          chol_ok k (cap_mat RA n k U d) & dense_wf o]
  | DBlockDiag k bs | DBlockInterleaved k bs =>
      let b0 := head (DIdentity F 0) bs in
      [/\ size bs = k, (0 < k)%N, (0 < osize b0)%N, allc wfpd bs & allc (fun b => cls_of b = cls_of b0) bs]
  | DBatchRepeat b => wfpd b
  | DKronAddedKronDiag cf fs ds eig =>
      (* Kronecker-structured diagonal: the eigh oracle's per-factor specification (of the K_i when every diagonal factor is
         constant, of the D_i^-1/2 K_i D_i^-1/2 otherwise), positive / non-zero diagonal factors, shifted eigenvalues non-zero *)
      [/\ allc (fun f => (0 < osize f)%N) fs, dense_wf o
        & if cf then
            all3P (@kc_spec F) (map (fun f => Fac (osize f) (osize f) (get (dense_of RA f))) fs) eig ds /\
            (forall J, (J < osize o)%N -> vget (kron_evals RA (map snd eig)) J / cprod ds + 1 != 0)
          else
            all3P (@kd_spec F) (map (fun f => Fac (osize f) (osize f) (get (dense_of RA f))) fs) eig ds /\
            (forall J, (J < osize o)%N -> vget (kron_evals RA (map snd eig)) J + 1 != 0)]
  | DSumKron fs1 fs2 eig =>
      [/\ dense_wf o, all3P' sk_pos_ok fs1 fs2 eig
        & forall J, (J < osize o)%N -> 0 < vget (kron_evals RA (map snd eig)) J + 1]
  | _ => False
  end.

(* ---------------------------------------------------------------- what "sound" means for a solver function *)
Definition sound_fn (o : opd) (g : cols F -> option (cols F)) : Prop :=
  forall B, exists X, [/\ g B = Some X, size X = size B
                        & forall j, (j < size B)%N -> solves o (nth [::] X j) (nth [::] B j)].

Lemma sound_map (o : opd) (f : vec F -> vec F) (g : cols F -> option (cols F)) :
  (forall v, solves o (f v) v) -> (forall B, g B = Some (map f B)) -> sound_fn o g.
Proof.
move=> sol H B; exists (map f B); split=> //; first by rewrite size_map.
by move=> j jB; rewrite (nth_map [::]).
Qed.

Lemma sound_one (o : opd) g v : sound_fn o g -> solves o (ohead (g [:: v])) v.
Proof.
move=> /(_ [:: v]) [X [-> sX /(_ 0%N isT)]] /=.
by case: X sX => [|x X'].
Qed.

Lemma sound_some (o : opd) g B : sound_fn o g -> isSome (g B).
Proof. by move=> /(_ B) [X [-> _ _]]. Qed.

(* entry-wise form of [solves] *)
Lemma solves_entry (o : opd) (x b : vec F) N (e : nat -> nat -> F) : osize o = N ->
  (forall I J, (I < N)%N -> (J < N)%N -> get (dense_of RA o) I J = e I J) ->
  (forall I, (I < N)%N -> \sum_(J < N) e I J * vget x J = vget b I) -> solves o x b.
Proof.
rewrite /solves => -> ee H; apply/colP => I; rewrite !mxE -H //.
by apply: eq_bigr => J _; rewrite !mxE ee.
Qed.

Lemma solves_entryE (o : opd) (x b : vec F) I : solves o x b -> (I < osize o)%N ->
  \sum_(J < osize o) get (dense_of RA o) I J * vget x J = vget b I.
Proof.
move=> /colP H lI; have := H (Ordinal lI); rewrite !mxE => <-.
by apply: eq_bigr => J _; rewrite !mxE.
Qed.

(* ---------------------------------------------------------------- dense factorisation under dense_wf *)
Lemma dense_cholesky_ex s n (M : mat F) : symmetric n M -> (n = 1%N -> 0 < get M 0 0) -> chol_ok n M ->
  exists L, [/\ dense_cholesky RA s n M = Some L, lower_tri (@rsq F) (@rlt F) n L, diag_nz (@rsq F) (@rlt F) n L
               & mxo n n L *m (mxo n n L)^T = mxo n n M].
Proof.
move=> sym p1 ok.
have [L E] : exists L, dense_cholesky RA s n M = Some L.
  rewrite /dense_cholesky; case: eqP => [_|/eqP ne1]; first by eexists.
  have := ok ne1; case E: (chol RA n M) => [L info] /= e0; rewrite e0 in E.
  by exists L; rewrite (psd_safe_nojitter _ _ E).
by exists L; have [lo nz HL] := dense_cholesky_correct sym p1 ok E.
Qed.

(* a class whose Cholesky plan is "densify + psd_safe_cholesky" *)
Lemma plan_dense_sound s up (o : opd) :
  cholesky_plan (cls_of o) = (if osize o == 1%N then PScalar else PDense (osize o)) -> dense_wf o ->
  sound_fn o (run_plan RA s up o (cholesky_plan (cls_of o))).
Proof.
move=> -> [sym p1 ok].
have [L [E lo nz HL]] := dense_cholesky_ex s sym p1 ok.
apply: (@sound_map o (dense_factor_solve up (osize o) L)) => [v|B].
- by rewrite /solves -HL; exact: dense_factor_solve_correct.
- by rewrite (@run_plan_dense F s up o (osize o) B erefl) E.
Qed.

(* ---------------------------------------------------------------- the matrix of a Kronecker product *)
Definition ofac (o : opd) : fac F := Fac (osize o) (osize o) (get (dense_of RA o)).
Definition kmats (fs : seq opd) := kron_mats RA (map (fun f => (csize (cls_of f), dense_of RA f)) fs).

Lemma kmats_size fs : (kmats fs).1 = prodm (map ofac fs).
Proof.
rewrite /kmats; elim: fs => [|f fs IH] /=; first by rewrite /prodm big_nil.
by move: IH; case: (kron_mats _ _) => m2 M2 /= ->; rewrite /prodm big_cons.
Qed.

Lemma prodmn_ofac fs : prodn (map ofac fs) = prodm (map ofac fs).
Proof. by rewrite /prodm /prodn !big_map. Qed.

Lemma allpos_ofac fs : allc (fun f => (0 < osize f)%N) fs -> allpos (map ofac fs).
Proof. by elim: fs => [|f fs IH] //= [p /IH ->]; rewrite p. Qed.

Lemma kmats_entry fs I J : allc (fun f => (0 < osize f)%N) fs ->
  (I < prodm (map ofac fs))%N -> (J < prodm (map ofac fs))%N ->
  get (kmats fs).2 I J = kron (map ofac fs) I J.
Proof.
rewrite /kmats; elim: fs I J => [|f fs IH] I J /=.
  by rewrite /prodm big_nil !ltnS !leqn0 => _ /eqP -> /eqP ->.
case=> pf pfs; rewrite /prodm big_cons -/(prodm (map ofac fs)) /= => IM JM.
have := kmats_size fs; rewrite /kmats.
case E: (kron_mats _ _) IH => [m2 M2] /= IH em2.
have p2 : (0 < prodm (map ofac fs))%N by apply: prodm_gt0; exact: allpos_ofac.
rewrite /kron2 get_mtab -/(osize f) ?em2 // prodmn_ofac; congr (_ * _).
by rewrite IH // ltn_mod.
Qed.

Lemma osize_kron fs : osize (DKron fs) = prodm (map ofac fs).
Proof.
rewrite /osize /=; elim: fs => [|f fs IH] /=; first by rewrite /prodm big_nil.
by rewrite IH /prodm big_cons.
Qed.

Lemma dense_kron fs I J : allc (fun f => (0 < osize f)%N) fs ->
  (I < prodm (map ofac fs))%N -> (J < prodm (map ofac fs))%N ->
  get (dense_of RA (DKron fs)) I J = kron (map ofac fs) I J.
Proof. exact: kmats_entry. Qed.

(* ---------------------------------------------------------------- a solver for all right-hand sides is multiplication by
   the inverse matrix *)
Lemma solver_unit m (A : 'M[F]_m) (act : vec F -> vec F) :
  (forall v, A *m cvo m (act v) = cvo m v) ->
  A \in unitmx /\ lin_act (@rsq F) (@rlt F) m act (mxfun (invmx A)).
Proof.
move=> H.
have un : A \in unitmx.
  pose e (j : nat) : vec F := mkseq (fun k => (k == j)%:R) m.
  pose X : 'M[F]_m := \matrix_(i, j) vget (act (e j)) i.
  suff HX : A *m X = 1%:M by case: (mulmx1_unit HX).
  apply/matrixP => i j.
  have /colP/(_ i) := H (e j).
  rewrite !mxE /e /Model.vget nth_mkseq // => <-.
  by apply: eq_bigr => k _; rewrite !mxE.
split=> // v i lim.
have /colP/(_ (Ordinal lim)) := solve_unique un (H v); rewrite !mxE /= => ->.
by apply: eq_bigr => a _; rewrite (mxfunE _ (Ordinal lim) a) !mxE.
Qed.

Definition invofac (o : opd) : fac F :=
  Fac (osize o) (osize o) (mxfun (invmx (mxo (osize o) (osize o) (dense_of RA o)))).

(* the per-factor actions the Kronecker rotation is run with *)
Fixpoint kacts s (fs : seq opd) (ms : seq method) : seq (nat * (vec F -> vec F)) :=
  match fs, ms with
  | f :: fs', m' :: ms' => (osize f, fun v => ohead (run_method RA s f m' [:: v])) :: kacts s fs' ms'
  | _, _ => [::]
  end.

Lemma run_method_kron s fs ms (X : cols F) :
  run_method RA s (DKron fs) (MKronFactors ms) X =
  if all direct ms then Some (kron_apply RA (kacts s fs ms) (size X) X) else None.
Proof.
rewrite /=; case: (all direct ms) => //=; congr (Some (kron_apply _ _ _ _)).
by elim: fs ms => [|f fs IH] [|m' ms'] //=; rewrite IH.
Qed.

Lemma kron_factors_lin s fs (sel : opd -> method) :
  allc (fun f => sound_fn f (run_method RA s f (sel f))) fs ->
  lin_acts (@rsq F) (@rlt F) (kacts s fs (map sel fs)) (map invofac fs) /\ inv_pairs (map ofac fs) (map invofac fs).
Proof.
elim: fs => [|f fs IH] //= [sf /IH [la ip]].
have H v : mxo (osize f) (osize f) (dense_of RA f) *m cvo (osize f) (ohead (run_method RA s f (sel f) [:: v])) = cvo (osize f) v.
  exact: (sound_one v sf).
have [un lin] := solver_unit H.
split; split=> // i l li ll.
have /matrixP/(_ (Ordinal li) (Ordinal ll)) := mulmxV un.
rewrite !mxE -(inj_eq val_inj) /= => <-.
by apply: eq_bigr => a _; rewrite (mxfunE _ a (Ordinal ll)) !mxE.
Qed.

(* KroneckerProductLinearOperator._solve: every factor solved by ITS selected method, through the rotation *)
Lemma kron_factors_sound s fs (sel : opd -> method) :
  allc (fun f => (0 < osize f)%N) fs -> all direct (map sel fs) ->
  allc (fun f => sound_fn f (run_method RA s f (sel f))) fs ->
  sound_fn (DKron fs) (run_method RA s (DKron fs) (MKronFactors (map sel fs))).
Proof.
move=> pos dir sf B; rewrite run_method_kron dir.
eexists; split; first by reflexivity.
  by rewrite /kron_apply /cols_of_flat size_mkseq.
move=> j jB.
have [la ip] := kron_factors_lin sf.
have pA := allpos_ofac pos.
apply: (@solves_entry _ _ _ (prodm (map ofac fs)) (kron (map ofac fs)) (osize_kron fs)).
  by move=> I J; exact: dense_kron.
move=> I IM.
have c0 : (0 < size B)%N by apply: leq_ltn_trans jB.
have := kron_apply_correct B la ip pA c0 IM jB.
by rewrite prodmn_ofac.
Qed.

(* ---------------------------------------------------------------- the Cholesky path of a Kronecker product:
   one psd_safe_cholesky per factor, then the two sweeps of KroneckerProductTriangular._cholesky_solve *)
Local Notation fac_of := (@fac_of F (@rsq F) (@rlt F)).
Local Notation act_of := (@act_of F (@rsq F) (@rlt F)).
Local Notation tr_of := (@tr_of F (@rsq F) (@rlt F)).
Local Notation all_tri := (@all_tri F (@rsq F) (@rlt F)).

Lemma kron_chol_factors s fs : allc (fun f => (0 < osize f)%N /\ dense_wf f) fs ->
  exists ts : seq (tfac F),
    [/\ map (fun f => (osize f, dense_cholesky RA s (osize f) (dense_of RA f))) fs = map (fun t => (t.1, Some t.2)) ts,
        all_tri false ts
      & same_on (zipmul (map fac_of ts) (map fac_of (map tr_of ts))) (map ofac fs)].
Proof.
elim: fs => [|f fs IH] /=; first by exists [::].
case=> [[pf [sym p1 ok]] /IH [ts [e1 tr so]]].
have [L [E lo nz HL]] := dense_cholesky_ex s sym p1 ok.
exists ((osize f, L) :: ts); split=> /=; first by rewrite E e1.
- by split.
- split=> // i j li lj.
  have := @mulfac_LLt F (@rsq F) (@rlt F) (osize f, L) (Ordinal li) (Ordinal lj).
  by rewrite /= => ->; rewrite HL !mxE.
Qed.

Lemma plan_kron_sound s up fs : allc (fun f => (0 < osize f)%N /\ dense_wf f) fs ->
  sound_fn (DKron fs) (run_plan RA s up (DKron fs) (cholesky_plan (cls_of (DKron fs)))).
Proof.
move=> wf B.
have [ts [e1 tr so]] := kron_chol_factors s wf.
have pos : allc (fun f => (0 < osize f)%N) fs by elim: (fs) wf => [|f l ih] //= [[p _] /ih].
have -> : run_plan RA s up (DKron fs) (cholesky_plan (cls_of (DKron fs))) B
        = Some (kron_apply RA (map (act_of true) (map tr_of ts)) (size B)
                  (kron_apply RA (map (act_of false) ts) (size B) B)).
  rewrite /= e1 -!map_comp.
  have -> : all (fun x : nat * option (mat F) => isSome x.2) [seq (t.1, Some t.2) | t <- ts] by rewrite all_map; apply/allP.
  by [].
eexists; split; first by reflexivity.
  by rewrite /kron_apply /cols_of_flat size_mkseq.
move=> j jB.
have pA := allpos_ofac pos.
have [sm sn] := same_on_prod so.
apply: (@solves_entry _ _ _ (prodm (map ofac fs)) (kron (map ofac fs)) (osize_kron fs)).
  by move=> I J; exact: dense_kron.
move=> I IM.
have c0 : (0 < size B)%N by apply: leq_ltn_trans jB.
have cmp := @compat_tr F (@rsq F) (@rlt F) ts.
have IM' : (I < prodm (map fac_of ts))%N by rewrite -(zipmul_prodm cmp) sm.
have := kron_chol_solve_correct B tr c0 IM' jB; rewrite /= => <-.
have en : prodn (map fac_of ts) = prodm (map ofac fs).
  by rewrite (@prod_sq F (@rsq F) (@rlt F)) -(zipmul_prodm cmp) sm.
rewrite en; apply: eq_bigr => J _; congr (_ * _).
have pZ : allpos (zipmul (map fac_of ts) (map fac_of (map tr_of ts))).
  apply: zipmul_allpos => //; first exact: (tri_allpos tr).
  exact: (tri_allpos (all_tri_tr tr)).
by rewrite (kron_ext so pZ) // ?sm ?sn ?prodmn_ofac.
Qed.

(* ---------------------------------------------------------------- Kron + constant diagonal: the eigen-shift *)
Lemma osize_kad fs dk d eig : osize (DKronAddedDiag fs dk d eig) = prodm (map ofac fs).
Proof.
rewrite /osize /=; elim: fs => [|f fs IH] /=; first by rewrite /prodm big_nil.
by rewrite IH /prodm big_cons.
Qed.

Lemma dense_kad fs dk d eig I J : allc (fun f => (0 < osize f)%N) fs ->
  (I < prodm (map ofac fs))%N -> (J < prodm (map ofac fs))%N ->
  get (dense_of RA (DKronAddedDiag fs dk d eig)) I J
  = if I == J then kron (map ofac fs) I J + vget d I else kron (map ofac fs) I J.
Proof.
move=> pos IM JM; rewrite /= -/(kmats fs).
have := kmats_size fs; have := @kmats_entry fs I J pos IM JM.
case: (kmats fs) => N K /= eK eN.
by rewrite get_mtab ?eN // eK.
Qed.

Lemma eig_spec_all fs eig : all2P eig_spec fs eig ->
  [/\ all_eig_wf eig, prodm (map (@qfac F) eig) = prodm (map ofac fs)
     & same_on (zipmul (zipmul (map (@qfac F) eig) (map (@dfac F) eig)) (map (@qtfac F) eig)) (map ofac fs)].
Proof.
elim: fs eig => [|f fs IH] [|e eig] //=.
case=> [[em wfe spec] /IH [wfa ep so]]; split=> //.
- by rewrite /prodm !big_cons -/(prodm _) -/(prodm (map ofac fs)) /= em; move: ep; rewrite /prodm => ->.
- split=> // i j li lj.
  rewrite em in li lj *; rewrite -(spec i j li lj); apply: eq_bigr => b _.
  rewrite get_mtab // (bigD1 b) //= eqxx big1 ?addr0 ?mulrA //.
  by move=> a /negbTE ne; rewrite -(inj_eq val_inj) /= in ne; rewrite ne mulr0.
Qed.

Lemma eigshift_sound s fs d eig :
  wfpd (DKronAddedDiag fs DConst d eig) ->
  sound_fn (DKronAddedDiag fs DConst d eig)
           (run_method RA s (DKronAddedDiag fs DConst d eig) (MEigShift (map csize (map (@cls_of F) fs)))).
Proof.
set o := DKronAddedDiag _ _ _ _.
move=> [pos dwf _ /(_ erefl) [spec dconst shift]] B.
have [wfe eN so] := eig_spec_all spec.
have eo : osize o = prodm (map (@qfac F) eig) by rewrite osize_kad eN.
exists (eigshift_solve RA eig (vget d 0) (size B) B); split=> //.
  by rewrite /eigshift_solve /kron_apply /cols_of_flat size_mkseq.
move=> j jB.
have c0 : (0 < size B)%N by apply: leq_ltn_trans jB.
set N := prodm (map (@qfac F) eig) in eo.
pose Qb : 'M[F]_N := \matrix_(I, J) kron (map (@qfac F) eig) I J.
pose Wb : 'rV[F]_N := \row_J vget (kron_evals RA (map snd eig)) J.
have posW : forall J : 'I_N, 0 < Wb 0 J + vget d 0.
  by move=> J; rewrite mxE; apply: shift; rewrite eo.
have H := eigshift_solve_correct B wfe c0 jB posW.
apply: (@solves_entry o _ _ N (mxfun (Qb *m diag_mx Wb *m Qb^T + (vget d 0)%:M)) eo).
- move=> I J IM JM.
  rewrite (mxfunE _ (Ordinal IM) (Ordinal JM)) mxE (kron_eig_decomp (Ordinal IM) (Ordinal JM) wfe).
  have pA := allpos_ofac pos.
  have [q1 [q2 _]] := prod_q eig.
  have pZ : allpos (zipmul (zipmul (map (@qfac F) eig) (map (@dfac F) eig)) (map (@qtfac F) eig)).
    have [pq pqt] := q_allpos wfe.
    have [sm sn] := same_on_prod so.
    by move: pA; rewrite /allpos; elim: (map ofac fs) (zipmul _ _) so => [|a l ih] [|b l'] //= [-> -> _ /ih h] /and3P[-> -> /h].
  have [sm sn] := same_on_prod so.
  rewrite (kron_ext so pZ) ?sm ?sn ?prodmn_ofac -?eN //.
  rewrite /o dense_kad -?eN // mxE -(inj_eq val_inj) [val _]/= [val (Ordinal JM)]/=.
  by case: eqP => _; rewrite ?mulr1n ?mulr0n ?addr0 //; congr (_ + _); rewrite dconst // eo.
- move=> I IM; have /colP/(_ (Ordinal IM)) := H; rewrite !mxE => <-.
  by apply: eq_bigr => J _; rewrite (mxfunE _ (Ordinal IM) J) !mxE.
Qed.

(* ---------------------------------------------------------------- Kron + Kronecker-structured diagonal *)
Lemma osize_kkd cf fs ds eig : osize (DKronAddedKronDiag cf fs ds eig) = prodm (map ofac fs).
Proof.
rewrite /osize /=; elim: fs => [|f fs IH] /=; first by rewrite /prodm big_nil.
by rewrite IH /prodm big_cons.
Qed.

Lemma dense_kkd cf fs ds eig I J : allc (fun f => (0 < osize f)%N) fs ->
  (I < prodm (map ofac fs))%N -> (J < prodm (map ofac fs))%N ->
  get (dense_of RA (DKronAddedKronDiag cf fs ds eig)) I J
  = if I == J then kron (map ofac fs) I J + vget (kron_evals RA ds) I else kron (map ofac fs) I J.
Proof.
move=> pos IM JM; rewrite /= -/(kmats fs).
have := kmats_size fs; have := @kmats_entry fs I J pos IM JM.
case: (kmats fs) => N K /= eK eN.
by rewrite get_mtab ?eN // eK.
Qed.

Lemma eigkron_sound_aux s cf fs ds eig :
  let N := prodm (map (@qfac F) eig) in
  let Kb : 'M[F]_N := \matrix_(I, J) kron (map ofac fs) I J in
  let Db : 'rV[F]_N := \row_J vget (kron_evals RA ds) J in
  allc (fun f => (0 < osize f)%N) fs -> prodm (map ofac fs) = N ->
  (forall (B : cols F) j, (j < size B)%N ->
     (Kb + diag_mx Db) *m cvo N (nth [::] (keig_solve RA cf eig ds (size B) B) j) = cvo N (nth [::] B j)) ->
  sound_fn (DKronAddedKronDiag cf fs ds eig)
           (run_method RA s (DKronAddedKronDiag cf fs ds eig) (MEigKron cf (map csize (map (@cls_of F) fs)))).
Proof.
move=> N Kb Db pos eN H B.
exists (keig_solve RA cf eig ds (size B) B); split=> //.
  by rewrite /keig_solve /qsq_solve; case: (cf); rewrite size_map /kron_apply /cols_of_flat size_mkseq.
move=> j jB.
have eo : osize (DKronAddedKronDiag cf fs ds eig) = N by rewrite osize_kkd.
apply: (@solves_entry _ _ _ N (mxfun (Kb + diag_mx Db)) eo).
- move=> I J IM JM.
  rewrite (mxfunE _ (Ordinal IM) (Ordinal JM)) dense_kkd ?eN // !mxE -(inj_eq val_inj) /=.
  by case: eqP => _; rewrite ?mulr1n ?mulr0n ?addr0.
- move=> I IM; have /colP/(_ (Ordinal IM)) := H B j jB; rewrite !mxE => <-.
  by apply: eq_bigr => J _; rewrite (mxfunE _ (Ordinal IM) J) !mxE.
Qed.

Lemma eigkron_sound s cf fs ds eig :
  wfpd (DKronAddedKronDiag cf fs ds eig) ->
  sound_fn (DKronAddedKronDiag cf fs ds eig)
           (run_method RA s (DKronAddedKronDiag cf fs ds eig) (MEigKron cf (map csize (map (@cls_of F) fs)))).
Proof.
case: cf => -[pos dwf [sp nzW]].
- have [_ [pKm _] _ _ _] := kc_global sp.
  apply: eigkron_sound_aux => // B j jB.
  have c0 : (0 < size B)%N by apply: leq_ltn_trans jB.
  apply: (keig_const_correct sp c0 jB erefl) => J.
  by rewrite mxE; apply: nzW; rewrite osize_kkd pKm.
- have [_ [pKm _] _ _ _] := kd_global sp.
  apply: eigkron_sound_aux => // B j jB.
  have c0 : (0 < size B)%N by apply: leq_ltn_trans jB.
  apply: (keig_diag_correct sp c0 jB erefl) => J.
  by rewrite mxE; apply: nzW; rewrite osize_kkd pKm.
Qed.

(* ---------------------------------------------------------------- sum of two Kronecker products *)
Lemma inv_root_some s m (C : mat F) : chol_ok m C ->
  (m == 1%N) || (m <= max_cholesky_size s)%N -> inv_root RA s m C = Some (inv_root_spec m C).
Proof.
move=> ok; rewrite /inv_root /inv_root_spec; case: eqP => [//|/eqP ne1] /= le.
rewrite /choose_root_method le /dense_cholesky (negbTE ne1).
have := ok ne1; case E: (chol RA m C) => [L info] /= e0; rewrite e0 in E.
by rewrite (psd_safe_nojitter _ _ E).
Qed.

Lemma get_tri_inv_t m (L : mat F) a i : (a < m)%N ->
  get (tri_inv_t RA m L) a i = vget (tri_solve RA false m L (unitv RA m a)) i.
Proof. by move=> la; rewrite /tri_inv_t /Model.get nth_mkseq. Qed.

Lemma inv_root_spec_ok m (C : mat F) : (0 < m)%N -> symmetric m C -> (m = 1%N -> 0 < get C 0 0) -> chol_ok m C ->
  let R := inv_root_spec m C in
  (mxo m m R)^T *m mxo m m C *m mxo m m R = 1%:M.
Proof.
move=> m0 sym p1 ok R; rewrite /R /inv_root_spec; case: eqP => [e1|/eqP ne1].
- move: (p1 e1) => c0; rewrite e1; apply/matrixP => i j; rewrite !ord1 !mxE big_ord_recl big_ord0 addr0 !mxE.
  rewrite big_ord_recl big_ord0 addr0 !mxE /Model.get /= -/(Model.get RA C 0 0).
  have sn : Num.sqrt (get C 0 0) != 0 by rewrite gt_eqF // sqrtr_gt0.
  by rewrite !div1r mulrAC -invfM -expr2 sqr_sqrtr ?(ltW c0) // mulVf // lt0r_neq0.
- have := ok ne1; case E: (chol RA m C) => [L info] /= e0; rewrite e0 in E.
  have [lo nz HL] := chol_factor_correct E sym.
  have un := @tri_unit F (@rsq F) (@rlt F) false m L lo nz.
  have eR : mxo m m (tri_inv_t RA m L) = (invmx (mxo m m L))^T.
    apply/matrixP => a i; rewrite !mxE get_tri_inv_t //.
    have /colP/(_ i) := @tri_solve_lin F (@rsq F) (@rlt F) false m L (unitv RA m a) lo nz.
    rewrite !mxE => ->; rewrite (bigD1 a) //= big1 ?addr0.
      by rewrite mxE /unitv /Model.vget nth_mkseq // eqxx mulr1.
    move=> k ne; rewrite mxE /unitv /Model.vget nth_mkseq //.
    by rewrite -(inj_eq val_inj) /= in ne; rewrite (negbTE ne) mulr0.
  by rewrite eR trmxK -HL !mulmxA mulVmx // mul1mx -trmx_mul mulVmx // trmx1.
Qed.

Lemma skfs_ok fs1 fs2 eig : all3P' sk_pos_ok fs1 fs2 eig ->
  [/\ all_sk (skfs fs1 fs2 eig), es_of (skfs fs1 fs2 eig) = eig,
      As_of (skfs fs1 fs2 eig) = map ofac fs1 /\ Cs_of (skfs fs1 fs2 eig) = map ofac fs2,
      allc (fun f => (0 < osize f)%N) fs1 /\ allc (fun f => (0 < osize f)%N) fs2
    & forall s, all (fun f => (osize f == 1%N) || (osize f <= max_cholesky_size s)%N) fs2 ->
        map (fun f => (osize f, inv_root RA s (osize f) (dense_of RA f))) fs2
        = map (fun p => (skm p, Some (skR p))) (skfs fs1 fs2 eig)].
Proof.
elim: fs1 fs2 eig => [|f1 fs1 IH] [|f2 fs2] [|e eig] //=.
case=> [[[es1 es2] p2 dwf wfe hA] /IH [ask ees [eA eC] [pos1 pos2] Hr]].
have [sym p1 ok] := dwf.
case: e es2 wfe hA => [[m Q] w] /= em; rewrite em => wfe hA.
split=> //.
- split=> //; split=> // i j li lj.
  have /matrixP/(_ (Ordinal li) (Ordinal lj)) := inv_root_spec_ok p2 sym p1 ok.
  rewrite !mxE -(inj_eq val_inj) /= => <-.
  apply: eq_bigr => b _; rewrite !mxE; congr (_ * _).
  by apply: eq_bigr => a _; rewrite !mxE get_mtab.
- by rewrite ees.
- by rewrite eA eC /ofac es1.
- by rewrite es1.
- move=> s /andP[l2 /Hr ->].
  by rewrite (inv_root_some ok l2).
Qed.

Lemma osize_sk fs1 fs2 eig : osize (DSumKron fs1 fs2 eig) = prodm (map ofac fs2).
Proof.
rewrite /osize /=; elim: fs2 => [|f fs IH] /=; first by rewrite /prodm big_nil.
by rewrite IH /prodm big_cons.
Qed.

Lemma dense_sk fs1 fs2 eig I J :
  allc (fun f => (0 < osize f)%N) fs1 -> allc (fun f => (0 < osize f)%N) fs2 ->
  prodm (map ofac fs1) = prodm (map ofac fs2) ->
  (I < prodm (map ofac fs2))%N -> (J < prodm (map ofac fs2))%N ->
  get (dense_of RA (DSumKron fs1 fs2 eig)) I J = kron (map ofac fs1) I J + kron (map ofac fs2) I J.
Proof.
move=> pos1 pos2 eN IM JM; rewrite /= -/(kmats fs1) -/(kmats fs2).
have := kmats_size fs1; have := @kmats_entry fs1 I J pos1; rewrite eN => /(_ IM JM).
have := @kmats_entry fs2 I J pos2 IM JM.
case: (kmats fs1) => N1 K1; case: (kmats fs2) => N2 K2 /= e2 e1 eN1.
by rewrite get_mtab ?eN1 ?eN // e1 e2.
Qed.

(* SumKroneckerLinearOperator._solve with exact (Cholesky) inverse roots *)
Lemma sumkron_sound s fs1 fs2 eig :
  wfpd (DSumKron fs1 fs2 eig) ->
  all (fun f => (osize f == 1%N) || (osize f <= max_cholesky_size s)%N) fs2 ->
  sound_fn (DSumKron fs1 fs2 eig) (run_method RA s (DSumKron fs1 fs2 eig) (MSumKron true (map csize (map (@cls_of F) fs2)))).
Proof.
move=> [dwf spec posW] small B.
have [ask ees [eA eC] [pos1 pos2] Hr] := skfs_ok spec.
set ps := skfs fs1 fs2 eig in ask ees eA eC Hr.
have [wfa [pa1 pa2 pc1 pc2] _ _ _] := sk_global ask.
have eN2 : prodm (map ofac fs2) = prodm (map (@qfac F) (es_of ps)) by rewrite -eC.
have eN1 : prodm (map ofac fs1) = prodm (map ofac fs2) by rewrite -eA -eC pa1 pc1.
have -> : run_method RA s (DSumKron fs1 fs2 eig) (MSumKron true (map csize (map (@cls_of F) fs2))) B
        = Some (sumkron_apply RA (map (fun p => (skm p, skR p)) ps) (es_of ps) (size B) B).
  rewrite ees /= (Hr s small) -!map_comp.
  have -> : all (fun x : nat * option (mat F) => isSome x.2) [seq (skm p, Some (skR p)) | p <- ps] by elim: (ps) => [|p l ih].
  by [].
eexists; split; first by reflexivity.
  by rewrite /sumkron_apply /kron_apply /cols_of_flat size_mkseq.
move=> j jB.
have c0 : (0 < size B)%N by apply: leq_ltn_trans jB.
set N := prodm (map (@qfac F) (es_of ps)) in eN2.
have posW' : forall J : 'I_N, 0 < (\row_J vget (kron_evals RA (map snd (es_of ps))) J) 0 J + 1.
  by move=> J; rewrite mxE ees; apply: posW; rewrite osize_sk eN2.
have H := sumkron_apply_correct B ask c0 jB posW'.
pose Ab : 'M[F]_N := \matrix_(I, J) kron (As_of ps) I J.
pose Cb : 'M[F]_N := \matrix_(I, J) kron (Cs_of ps) I J.
have eo : osize (DSumKron fs1 fs2 eig) = N by rewrite osize_sk.
apply: (@solves_entry _ _ _ N (mxfun (Ab + Cb)) eo).
- move=> I J IM JM.
  by rewrite (mxfunE _ (Ordinal IM) (Ordinal JM)) (@dense_sk fs1 fs2 eig I J pos1 pos2 eN1) ?eN2 // !mxE eA eC.
- move=> I IM; have /colP/(_ (Ordinal IM)) := H; rewrite !mxE => <-.
  by apply: eq_bigr => J _; rewrite (mxfunE _ (Ordinal IM) J) !mxE.
Qed.

(* ---------------------------------------------------------------- block-diagonal / block-interleaved, any block solver *)
Local Notation d0 := (DIdentity F 0).

Lemma blocks_sound inter k (bs : seq opd) (g : opd -> cols F -> option (cols F)) :
  size bs = k -> (0 < k)%N -> (0 < osize (head d0 bs))%N ->
  allc (fun b => cls_of b = cls_of (head d0 bs)) bs ->
  (forall i, (i < k)%N -> sound_fn (nth d0 bs i) (g (nth d0 bs i))) ->
  sound_fn (blocks_op inter k bs)
    (fun B => Some (map (block_solve RA inter k (osize (head d0 bs)) (map (fun b v => ohead (g b [:: v])) bs)) B)).
Proof.
move=> sz k0 m0 ecls sg B.
set m := osize (head d0 bs) in m0 *.
eexists; split; first by reflexivity.
  by rewrite size_map.
move=> j jB; rewrite (nth_map [::]) //.
set v := nth [::] B j.
set sv := map _ bs.
pose e b i l := get (dense_of RA (nth d0 bs b)) i l.
have Hsv b : (b < k)%N -> solves_block (@rsq F) (@rlt F) m (e b) (nth id sv b).
  move=> bk; have bsz : (b < size bs)%N by rewrite sz.
  have ec : cls_of (nth d0 bs b) = cls_of (head d0 bs) by exact: (allc_nth d0 ecls bsz).
  rewrite /sv (nth_map d0) ?sz // => u i im.
  have := sound_one u (sg b bk).
  rewrite /solves /osize ec -/(osize (head d0 bs)) -/m => /colP/(_ (Ordinal im)).
  rewrite !mxE => <-; apply: eq_bigr => l _.
  by rewrite !mxE.
apply: (@solves_entry _ _ _ (k * m)%N (blk_entry inter k m e)).
- by rewrite blocks_size // sz.
- by move=> I J IM JM; exact: (@dense_blocks F inter k bs I J sz IM JM).
- by move=> I IM; exact: (block_solve_correct inter v m0 k0 Hsv IM).
Qed.

Lemma run_method_blocks s inter k (bs : seq opd) m' (B : cols F) :
  run_method RA s (if inter then DBlockInterleaved k bs else DBlockDiag k bs) (MBlocks k m') B =
  if direct m' then
    Some (map (block_solve RA inter k (if bs is b :: _ then osize b else 0%N)
                 (map (fun b v => ohead (run_method RA s b m' [:: v])) bs)) B)
  else None.
Proof. by case: inter => /=; case: (direct m'). Qed.

Lemma sound_ext (o : opd) (g1 g2 : cols F -> option (cols F)) :
  (forall B, g1 B = g2 B) -> sound_fn o g2 -> sound_fn o g1.
Proof. by move=> e H B; rewrite e. Qed.

Lemma allc_imp (P Q : opd -> Prop) fs : allc (fun f => P f -> Q f) fs -> allc P fs -> allc Q fs.
Proof. by elim: fs => [|f fs IH] //= [h /IH hs] [/h q /hs]. Qed.

(* ---------------------------------------------------------------- THE CHOLESKY ROUTE, every class, either orientation:
   o.cholesky(upper=up)._cholesky_solve(., upper=up) solves the system of o *)
Lemma plan_sound s up (o : opd) : wfpd o -> sound_fn o (run_plan RA s up o (cholesky_plan (cls_of o))).
Proof.
elim/opd_ind': o => //.
- by move=> n M wf; exact: plan_dense_sound.
- by move=> n M wf; exact: plan_dense_sound.
- move=> n d pos; apply: (@sound_map _ (diag_chol_solve RA n (map (asqrt RA) d))) => // v.
  by rewrite /solves /osize /=; exact: diag_factor_solve_correct.
- move=> n _; apply: (@sound_map _ id) => [v|B]; last by rewrite map_id.
  rewrite /solves /osize /=.
  have -> : mxo n n (mtab n n (fun i j => if i == j then 1 else 0)) = 1%:M.
    by apply/matrixP => i k; rewrite !mxE get_mtab // -(inj_eq val_inj) /=; case: eqP.
  by rewrite mul1mx.
- move=> up0 n T [tr nz].
  apply: (@sound_map _ (chol_solve RA up n (if up == up0 then T else trm RA n T))) => // v.
  by rewrite /solves /osize dense_chol; exact: root_solve_correct.
- by move=> fs _ [_ wf]; exact: plan_kron_sound.
- by move=> fs dk d eig _ [_ wf _ _]; exact: plan_dense_sound.
- by move=> n k U d [_ _ _ wf]; exact: plan_dense_sound.
- move=> k bs IH [sz k0 m0 wfs ecls].
  have sg i : (i < k)%N -> sound_fn (nth d0 bs i) (run_plan RA s up (nth d0 bs i) (cholesky_plan (cls_of (head d0 bs)))).
    move=> ik; have isz : (i < size bs)%N by rewrite sz.
    rewrite -(allc_nth d0 ecls isz); exact: (allc_nth d0 (allc_imp IH wfs) isz).
  apply: sound_ext (@blocks_sound false k bs (fun b => run_plan RA s up b (cholesky_plan (cls_of (head d0 bs)))) sz k0 m0 ecls sg) => B.
  rewrite (@head_plan F false k bs) ?sz // (@run_plan_blocks F s up false k bs) head_size ?sz //.
  have -> // : all (fun b => isSome (run_plan RA s up b (cholesky_plan (cls_of (head d0 bs))) [::])) bs.
  by apply/(all_nthP d0) => i; rewrite sz => /sg /sound_some.
- move=> k bs IH [sz k0 m0 wfs ecls].
  have sg i : (i < k)%N -> sound_fn (nth d0 bs i) (run_plan RA s up (nth d0 bs i) (cholesky_plan (cls_of (head d0 bs)))).
    move=> ik; have isz : (i < size bs)%N by rewrite sz.
    rewrite -(allc_nth d0 ecls isz); exact: (allc_nth d0 (allc_imp IH wfs) isz).
  apply: sound_ext (@blocks_sound true k bs (fun b => run_plan RA s up b (cholesky_plan (cls_of (head d0 bs)))) sz k0 m0 ecls sg) => B.
  rewrite (@head_plan F true k bs) ?sz // (@run_plan_blocks F s up true k bs) head_size ?sz //.
  have -> // : all (fun b => isSome (run_plan RA s up b (cholesky_plan (cls_of (head d0 bs))) [::])) bs.
  by apply/(all_nthP d0) => i; rewrite sz => /sg /sound_some.
(* (BatchRepeat: the plan and the matrix are those of the base - closed by conversion) *)
- by move=> cf fs ds eig _ [_ wf _]; apply: plan_dense_sound => //; case: cf.
- by move=> fs1 fs2 eig _ _ [wf _ _]; exact: plan_dense_sound.
Qed.

(* ---------------------------------------------------------------- EVERY ROUTE the selector can take *)
Lemma run_method_chol s (o : opd) p (B : cols F) : run_method RA s o (MCholesky p) B = run_plan RA s false o p B.
Proof. by case: o. Qed.

(* functions/_solve.py for a class without its own `solve`: Cholesky below the threshold, else the class's _solve *)
Lemma solve_fn_sound s (o : opd) cs :
  solve_fn s (cls_of o) cs cs = (if ~~ fast_solves s || (csize (cls_of o) <= max_cholesky_size s)%N
                                 then MCholesky (cholesky_plan (cls_of o)) else cs) ->
  wfpd o -> (direct cs -> sound_fn o (run_method RA s o cs)) ->
  direct (solve_fn s (cls_of o) cs cs) -> sound_fn o (run_method RA s o (solve_fn s (cls_of o) cs cs)).
Proof.
move=> -> wf H; case: ifP => _ // _.
by apply: sound_ext (plan_sound s false wf) => B; rewrite run_method_chol.
Qed.

Definition sel1 s (f : opd) : method := (route s (cls_of f)).1.
Definition route_ok s (o : opd) : Prop :=
  (direct (route s (cls_of o)).1 -> sound_fn o (run_method RA s o (route s (cls_of o)).1)) /\
  (direct (route s (cls_of o)).2 -> sound_fn o (run_method RA s o (route s (cls_of o)).2)).

Lemma kron_route s fs : map (fun f => (route s f).1) (map (@cls_of F) fs) = map (sel1 s) fs.
Proof. by rewrite -map_comp. Qed.

Lemma allc_sel s fs : allc (fun f => wfpd f -> route_ok s f) fs -> allc wfpd fs -> all direct (map (sel1 s) fs) ->
  allc (fun f => sound_fn f (run_method RA s f (sel1 s f))) fs.
Proof. by elim: fs => [|f fs IH] //= [h /IH hs] [/h [h1 _] /hs hs'] /andP[/h1 ? /hs']. Qed.

Lemma wfpd_pos fs : allc (fun f => (0 < osize f)%N /\ dense_wf f) fs -> allc (fun f => (0 < osize f)%N) fs.
Proof. by elim: fs => [|f l ih] //= [[p _] /ih]. Qed.

Lemma route_sound s (o : opd) : wfpd o -> route_ok s o.
Proof.
elim/opd_ind': o => //.
- (* Dense-like *)
  move=> n M wf; split; last by [].
  exact: (@solve_fn_sound s (DGeneric n M) (MCG (default_preconditioner s) 0)).
- (* AddedDiag *)
  move=> n M wf; rewrite /route_ok /=; case: (added_diag_precond s n) => pc rk.
  split; last by case: pc.
  by apply: (@solve_fn_sound s (DAddedDiag n M)) => //; case: pc.
- (* Diag *)
  move=> n d pos.
  have nz : all_nz (@rsq F) (@rlt F) n d by move=> i li; rewrite gt_eqF // pos.
  suff H : sound_fn (DDiag n d) (run_method RA s (DDiag n d) MDiagDiv) by split.
  apply: (@sound_map _ (diag_solve RA n d)) => // v.
  by rewrite /solves /osize dense_diag; exact: diag_solve_correct.
- (* Identity *)
  move=> n _.
  suff H : sound_fn (DIdentity F n) (run_method RA s (DIdentity F n) MIdentity) by split.
  apply: (@sound_map _ id) => [v|B]; last by rewrite map_id.
  rewrite /solves /osize /=.
  have -> : mxo n n (mtab n n (fun i j => if i == j then 1 else 0)) = 1%:M.
    by apply/matrixP => i k; rewrite !mxE get_mtab // -(inj_eq val_inj) /=; case: eqP.
  by rewrite mul1mx.
- (* Chol *)
  move=> up n T [tr nz].
  suff H : sound_fn (DChol up n T) (run_method RA s (DChol up n T) MCholFactor) by split.
  apply: (@sound_map _ (chol_solve RA up n T)) => // v.
  by rewrite /solves /osize dense_chol; exact: chol_solve_correct.
- (* Kron: per-factor solves through the rotation *)
  move=> fs IH wf; have [wfs wfd] := wf.
  have Hcs : direct (MKronFactors (map (sel1 s) fs)) ->
             sound_fn (DKron fs) (run_method RA s (DKron fs) (MKronFactors (map (sel1 s) fs))).
    move=> /= dir; apply: kron_factors_sound => //; first exact: wfpd_pos.
    exact: allc_sel.
  rewrite /route_ok /= !kron_route; split=> //.
  exact: (@solve_fn_sound s (DKron fs) (MKronFactors (map (sel1 s) fs))).
- (* Kron + diagonal *)
  move=> fs dk d eig _ wf.
  case: dk wf => wf; rewrite /route_ok; try (by case: wf); split=> //.
  - apply: (@solve_fn_sound s (DKronAddedDiag fs DConst d eig) (MEigShift (map csize (map (@cls_of F) fs)))) => // _.
    exact: eigshift_sound.
  - by move=> _; exact: eigshift_sound.
  - exact: (@solve_fn_sound s (DKronAddedDiag fs DGeneral d eig) (MCG (default_preconditioner s) 0)).
- (* LowRankRootAddedDiag: Woodbury *)
  move=> n k U d [nz p1 ok dwf].
  suff H : sound_fn (DLowRankRootAddedDiag n k U d) (run_method RA s (DLowRankRootAddedDiag n k U d) (MWoodbury k)) by split.
  have [Lc [E lo dz HL]] := dense_cholesky_ex s (@cap_symmetric F n k U d) p1 ok.
  apply: (@sound_map _ (woodbury_solve RA n k U d Lc)) => [v|B]; last by rewrite run_wood E.
  by rewrite /solves /osize dense_lrrad; exact: woodbury_solve_correct.
- (* BlockDiag *)
  move=> k bs IH wf; have [sz k0 m0 wfs ecls] := wf.
  have eh : cls_of (DBlockDiag k bs) = CBlockDiag k (cls_of (head d0 bs)) by case: (bs) sz k0 => [<-|].
  set m' := (route s (cls_of (head d0 bs))).2.
  have Hcs : direct (MBlocks k m') -> sound_fn (DBlockDiag k bs) (run_method RA s (DBlockDiag k bs) (MBlocks k m')).
    move=> /= dir.
    have sg i : (i < k)%N -> sound_fn (nth d0 bs i) (run_method RA s (nth d0 bs i) m').
      move=> ik; have isz : (i < size bs)%N by rewrite sz.
      have [_] := allc_nth d0 (allc_imp IH wfs) isz.
      by rewrite (allc_nth d0 ecls isz); apply.
    apply: sound_ext (@blocks_sound false k bs (fun b => run_method RA s b m') sz k0 m0 ecls sg) => B.
    by rewrite dir /= /omap head_size ?sz.
  have er : route s (cls_of (DBlockDiag k bs))
            = (solve_fn s (cls_of (DBlockDiag k bs)) (MBlocks k m') (MBlocks k m'), MBlocks k m') by rewrite eh.
  rewrite /route_ok er; split=> //.
  by apply: (@solve_fn_sound s (DBlockDiag k bs) (MBlocks k m')) => //; rewrite eh.
- (* BlockInterleaved *)
  move=> k bs IH wf; have [sz k0 m0 wfs ecls] := wf.
  have eh : cls_of (DBlockInterleaved k bs) = CBlockInterleaved k (cls_of (head d0 bs)) by case: (bs) sz k0 => [<-|].
  set m' := (route s (cls_of (head d0 bs))).2.
  have Hcs : direct (MBlocks k m') ->
             sound_fn (DBlockInterleaved k bs) (run_method RA s (DBlockInterleaved k bs) (MBlocks k m')).
    move=> /= dir.
    have sg i : (i < k)%N -> sound_fn (nth d0 bs i) (run_method RA s (nth d0 bs i) m').
      move=> ik; have isz : (i < size bs)%N by rewrite sz.
      have [_] := allc_nth d0 (allc_imp IH wfs) isz.
      by rewrite (allc_nth d0 ecls isz); apply.
    apply: sound_ext (@blocks_sound true k bs (fun b => run_method RA s b m') sz k0 m0 ecls sg) => B.
    by rewrite dir /= /omap head_size ?sz.
  have er : route s (cls_of (DBlockInterleaved k bs))
            = (solve_fn s (cls_of (DBlockInterleaved k bs)) (MBlocks k m') (MBlocks k m'), MBlocks k m') by rewrite eh.
  rewrite /route_ok er; split=> //.
  by apply: (@solve_fn_sound s (DBlockInterleaved k bs) (MBlocks k m')) => //; rewrite eh.
- (* BatchRepeat *)
  move=> b IH wf; rewrite /route_ok /=; split=> //.
  exact: (@solve_fn_sound s (DBatchRepeat b)).
- (* Kron + Kronecker-structured diagonal *)
  move=> cf fs ds eig _ wf.
  have Hcs := eigkron_sound s wf.
  rewrite /route_ok; case: cf wf Hcs => wf Hcs; split=> //.
  + by apply: (@solve_fn_sound s (DKronAddedKronDiag true fs ds eig) (MEigKron true (map csize (map (@cls_of F) fs)))).
  + by apply: (@solve_fn_sound s (DKronAddedKronDiag false fs ds eig) (MEigKron false (map csize (map (@cls_of F) fs)))).
- (* SumKronecker: exact inverse roots + eigen-shift; a Lanczos root makes the route non-direct *)
  move=> fs1 fs2 eig _ _ wf.
  pose ex := all (fun f : cls => if choose_root_method s (csize f) is RootCholesky then true else csize f == 1%N) (map (@cls_of F) fs2).
  have Hcs : direct (MSumKron ex (map csize (map (@cls_of F) fs2))) ->
             sound_fn (DSumKron fs1 fs2 eig) (run_method RA s (DSumKron fs1 fs2 eig) (MSumKron ex (map csize (map (@cls_of F) fs2)))).
    rewrite /= => e; rewrite e; apply: sumkron_sound => //.
    move: e; rewrite /ex all_map; apply: sub_all => f /=.
    by rewrite /choose_root_method -/(osize f) orbC; case: (osize f <= _)%N.
  rewrite /route_ok; split=> //.
  exact: (@solve_fn_sound s (DSumKron fs1 fs2 eig) (MSumKron ex (map csize (map (@cls_of F) fs2)))).
Qed.

(* ---------------------------------------------------------------- THE THEOREMS *)
Lemma run_method_direct s (o : opd) m (B X : cols F) : run_method RA s o m B = Some X -> direct m.
Proof. by case: o => [??|??|??|?|???|???|??|?|????|????|??|??|?|?|????|??|???]; rewrite /=; case: (direct m). Qed.

(* what op.solve(B) runs, as a function of B (no left factor) *)
Lemma alg_solve_none s (o : opd) (B : cols F) :
  alg_solve RA s o B None = run_method RA s o (select_solve s (cls_of o)) B.
Proof. by rewrite /alg_solve; case: (own_solve _) => //; case: (run_method _ _ _ _ _). Qed.

(* every modelled positive-definite class, any nesting, EVERY settings record: a returned value solves the system *)
Theorem alg_solve_sound_all (s : settings) (o : opd) (B X : cols F) :
  wfpd o -> alg_solve RA s o B None = Some X ->
  size X = size B /\ forall j, (j < size B)%N -> solves o (nth [::] X j) (nth [::] B j).
Proof.
move=> wf; rewrite alg_solve_none => H.
have [/(_ (run_method_direct H)) /(_ B) [X' [e sX sol]] _] := route_sound s wf.
by move: H; rewrite /select_solve e => -[<-].
Qed.

(* with a left factor L (k x n): the result is L times such a solution *)
Theorem alg_solve_sound_all_left (s : settings) (o : opd) (B Y : cols F) k (L : mat F) :
  wfpd o -> alg_solve RA s o B (Some (k, L)) = Some Y ->
  exists X, [/\ size X = size B, forall j, (j < size B)%N -> solves o (nth [::] X j) (nth [::] B j)
              & Y = left_mul RA k (osize o) L X].
Proof.
move=> wf; rewrite /alg_solve.
have [rs _] := route_sound s wf.
case: (own_solve _).
- case H: (run_method _ _ _ _ _) => [X|//] [<-].
  have [X' [e sX sol]] := rs (run_method_direct H) B.
  by exists X; move: H; rewrite /select_solve e => -[<-].
- set lt := mkseq _ k.
  case H: (run_method _ _ _ _ _) => [Sol|//] [<-].
  have [X' [e sX sol]] := rs (run_method_direct H) (lt ++ B).
  move: H; rewrite /select_solve e => -[eS]; rewrite -eS.
  have slt : size lt = k by rewrite size_mkseq.
  exists (drop k X'); split=> //.
  + by rewrite size_drop sX size_cat slt addKn.
  + move=> j jB; rewrite nth_drop.
    have := sol (k + j)%N; rewrite size_cat slt ltn_add2l => /(_ jB).
    by rewrite nth_cat slt ltnNge leq_addr /= addKn.
Qed.

(* a solve routed through the factor operator of either orientation, ANY well-formed base (Kron, nested blocks,
   BatchRepeat, ... included) *)
Theorem alg_solve_sound_cholof_all (s : settings) up (o : opd) (B X : cols F) :
  wfpd o -> alg_solve RA s (DCholOf up o) B None = Some X ->
  size X = size B /\ forall j, (j < size B)%N -> solves o (nth [::] X j) (nth [::] B j).
Proof.
move=> wf; rewrite alg_solve_cholof.
by have [X' [-> sX sol]] := plan_sound s up wf B => -[<-].
Qed.

Theorem alg_solve_sound_cholof_all_left (s : settings) up (o : opd) (B Y : cols F) k (L : mat F) :
  wfpd o -> alg_solve RA s (DCholOf up o) B (Some (k, L)) = Some Y ->
  exists X, [/\ size X = size B, forall j, (j < size B)%N -> solves o (nth [::] X j) (nth [::] B j)
              & Y = left_mul RA k (osize o) L X].
Proof.
move=> wf; rewrite alg_solve_cholof.
by have [X' [-> sX sol]] := plan_sound s up wf B => -[<-]; exists X'.
Qed.

(* the matrix of a well-formed operator is invertible (its Cholesky route solves every right-hand side) *)
Lemma wfpd_unit (o : opd) : wfpd o -> mxo (osize o) (osize o) (dense_of RA o) \in unitmx.
Proof.
move=> wf; pose s0 := MkSettings 0 false 0 0 0 false false 0 0 0 false false.
have H v := sound_one v (plan_sound s0 false wf).
by have [] := solver_unit H.
Qed.

(* the routes solve can take: directly (whatever select_solve picks under the settings in force) or through the factor
   operator of an orientation *)
Inductive route_kind := RDirect | RFactor (upper : bool).
Definition solve_via (s : settings) (r : route_kind) (o : opd) (B : cols F) : option (cols F) :=
  match r with
  | RDirect => alg_solve RA s o B None
  | RFactor up => alg_solve RA s (DCholOf up o) B None
  end.

Lemma solve_via_sound s r (o : opd) (B X : cols F) : wfpd o -> solve_via s r o B = Some X ->
  size X = size B /\ forall j, (j < size B)%N -> solves o (nth [::] X j) (nth [::] B j).
Proof. by case: r => [|up] wf; [exact: alg_solve_sound_all | exact: alg_solve_sound_cholof_all]. Qed.

(* METHOD INDEPENDENCE over all modelled classes: any two selectable routes under any two settings records return
   the same columns *)
Theorem method_independent_all (s1 s2 : settings) (r1 r2 : route_kind) (o : opd) (B X1 X2 : cols F) :
  wfpd o -> solve_via s1 r1 o B = Some X1 -> solve_via s2 r2 o B = Some X2 ->
  forall j, (j < size B)%N -> cvo (osize o) (nth [::] X1 j) = cvo (osize o) (nth [::] X2 j).
Proof.
move=> wf H1 H2 j jB.
have [_ /(_ j jB) S1] := solve_via_sound wf H1.
have [_ /(_ j jB) S2] := solve_via_sound wf H2.
exact: (method_independent (wfpd_unit wf) S1 S2).
Qed.

(* ... and with a left factor the two answers are the same lists *)
Lemma matvec_ext k n (L : mat F) (x y : vec F) : cvo n x = cvo n y -> matvec RA k n L x = matvec RA k n L y.
Proof.
move=> /colP e; rewrite /matvec /vtab; apply: eq_mkseq => i.
rewrite !sumn_big; apply: eq_bigr => j _.
by have := e j; rewrite !mxE => ->.
Qed.

Theorem method_independent_all_left (s1 s2 : settings) (o : opd) (B Y1 Y2 : cols F) k (L : mat F) :
  wfpd o -> alg_solve RA s1 o B (Some (k, L)) = Some Y1 -> alg_solve RA s2 o B (Some (k, L)) = Some Y2 -> Y1 = Y2.
Proof.
move=> wf /(alg_solve_sound_all_left wf) [X1 [s1' sol1 ->]] /(alg_solve_sound_all_left wf) [X2 [s2' sol2 ->]].
rewrite /left_mul; apply: (@eq_from_nth _ [::]); first by rewrite !size_map s1' s2'.
move=> j; rewrite size_map s1' => jB.
rewrite !(nth_map [::]) ?s1' ?s2' //; apply: matvec_ext.
exact: (method_independent (wfpd_unit wf) (sol1 j jB) (sol2 j jB)).
Qed.

(* ---------------------------------------------------------------- the hypotheses are satisfiable on composites *)
Lemma dense_wf_diag2 : dense_wf (DDiag 2 [:: 1; 1 : F]).
Proof.
split=> [[|[|i]] [|[|j]]|//|_] //.
by rewrite /chol /= /Model.vget /= /rlt /rsq !(subr0, mulr0, mul0r, add0r, addr0, sqrtr1, divr1, ltr01, mulr1).
Qed.

Lemma wfpd_kron_sat : wfpd (DKron [:: DDiag 2 [:: 1; 1 : F]; DIdentity F 1]).
Proof.
split=> /=; first by split=> // -[|[|i]] //= _; rewrite /Model.vget /= ltr01.
split; first by split=> //; exact: dense_wf_diag2.
split=> //; split=> //; split=> [[|i] [|j]|_|] //.
by rewrite /Model.get /= ltr01.
Qed.

Lemma wfpd_blocks_sat : wfpd (DBlockDiag 2 [:: DDiag 1 [:: 1 : F]; DDiag 1 [:: 1 : F]]).
Proof. by split=> //=; split=> [[|i] //= _|]; rewrite /Model.vget /= ?ltr01 //; split=> // -[|i] //= _; rewrite ltr01. Qed.

End All.
