(* C04 — the structured solve formulas of the class overrides: diagonal, Woodbury (LowRankRootAddedDiag),
   eigen-shift (Kron + constant diagonal), permutation, BatchRepeat folding.  All sizes. *)
From mathcomp Require Import all_ssreflect all_algebra.
Require Import C04.Model C04.ProofsBridge C04.ProofsTri C04.ProofsChol.
Set Implicit Arguments.
Unset Strict Implicit.
Unset Printing Implicit Defensive.
Import GRing.Theory.
Local Open Scope ring_scope.

Section Struct.
Variable F : fieldType.
Variable sq : F -> F.
Variable lt : F -> F -> bool.
Local Notation FA := (FA sq lt).
Local Notation mx_of := (mx_of sq lt).
Local Notation cv_of := (cv_of sq lt).
Local Notation get := (get FA).
Local Notation vget := (vget FA).

(* ---------------------------------------------------------------- diagonal *)
Definition dmx n (d : vec F) : 'M[F]_n := \matrix_(i, j) (if i == j then vget d i else 0).

Lemma dmx_mul n (d : vec F) (x : 'cV[F]_n) : dmx n d *m x = \col_i (vget d i * x i 0).
Proof.
apply/colP => i; rewrite !mxE (bigD1 i) //= big1 ?addr0; last first.
  by move=> j ne; rewrite !mxE eq_sym (negbTE ne) mul0r.
by rewrite !mxE eqxx.
Qed.

Definition all_nz n (d : vec F) := forall i, (i < n)%N -> vget d i != 0.

Lemma cv_diag_solve n d b : cv_of n (diag_solve FA n d b) = \col_i ((vget d i)^-1 * vget b i).
Proof. by apply/colP => i; rewrite !mxE vget_vtab //= div1r. Qed.

Theorem diag_solve_correct n d b : all_nz n d ->
  dmx n d *m cv_of n (diag_solve FA n d b) = cv_of n b.
Proof.
move=> nz; rewrite dmx_mul cv_diag_solve; apply/colP => i; rewrite !mxE.
by rewrite mulrA divff ?mul1r // nz.
Qed.

(* DiagLinearOperator._cholesky_solve on the square root s of the diagonal: rhs / s^2 *)
Theorem diag_chol_solve_correct n s b : all_nz n s ->
  (dmx n s *m dmx n s) *m cv_of n (diag_chol_solve FA n s b) = cv_of n b.
Proof.
move=> nz; rewrite -mulmxA !dmx_mul; apply/colP => i; rewrite !mxE vget_vtab //=.
by rewrite mulrA mulrCA divff ?mulr1 // mulf_neq0 // nz.
Qed.

(* ---------------------------------------------------------------- Woodbury, matrix level
   D invertible, C r2 = U^T D^-1 b   ==>   (D + U U^T)(D^-1 b - D^-1 U r2) = b *)
Lemma woodbury_mx n k (D : 'M[F]_n) (U : 'M[F]_(n, k)) (b : 'cV[F]_n) (r2 : 'cV[F]_k) :
  D \in unitmx ->
  (1%:M + U^T *m invmx D *m U) *m r2 = U^T *m invmx D *m b ->
  (D + U *m U^T) *m (invmx D *m b - invmx D *m (U *m r2)) = b.
Proof.
move=> uD H.
rewrite mulmxBr !mulmxDl !mulmxA (mulmxV uD) !mul1mx.
have -> : U *m U^T *m invmx D *m U *m r2 = U *m (U^T *m invmx D *m b) - U *m r2.
  by rewrite -H mulmxDl mul1mx mulmxDr !mulmxA addrC addKr.
by rewrite !mulmxA [U *m r2 + _]addrC subrK addrK.
Qed.

Lemma dmx_unit n d : all_nz n d -> dmx n d \in unitmx.
Proof.
move=> nz.
have H : dmx n d *m dmx n (map (fun x => x^-1) d) = 1%:M.
  apply/matrixP => i j; rewrite !mxE (bigD1 i) //= big1 ?addr0; last first.
    by move=> l ne; rewrite !mxE eq_sym (negbTE ne) mul0r.
  rewrite !mxE eqxx; case: eqP => _; rewrite ?mulr0 //.
  case: (ltnP i (size d)) => sz; first by rewrite /Model.vget (nth_map 0) // divff // nz.
  by move: (nz i (ltn_ord i)); rewrite /Model.vget nth_default // eqxx.
by case: (mulmx1_unit H).
Qed.

Lemma dmx_mulE n m d (M : 'M[F]_(n, m)) i j : (dmx n d *m M) i j = vget d i * M i j.
Proof.
rewrite !mxE (bigD1 i) //= big1 ?addr0; last first.
  by move=> l ne; rewrite !mxE eq_sym (negbTE ne) mul0r.
by rewrite !mxE eqxx.
Qed.

Definition vinv (d : vec F) : vec F := map (fun x => x^-1) d.

Lemma vget_vinv n d i : all_nz n d -> (i < n)%N -> vget (vinv d) i = (vget d i)^-1.
Proof.
move=> nz lin; case: (ltnP i (size d)) => sz; first by rewrite /Model.vget (nth_map 0).
by move: (nz i lin); rewrite /Model.vget nth_default // eqxx.
Qed.

Lemma invmx_dmx n d : all_nz n d -> invmx (dmx n d) = dmx n (vinv d).
Proof.
move=> nz.
have H : dmx n d *m dmx n (vinv d) = 1%:M.
  apply/matrixP => i j; rewrite dmx_mulE !mxE; case: eqP => _; rewrite ?mulr0 //.
  by rewrite (vget_vinv nz) // divff // nz.
by rewrite -[dmx n (vinv d)]mul1mx -(mulVmx (dmx_unit nz)) -mulmxA H mulmx1.
Qed.

(* list level: LowRankRootAddedDiagLinearOperator._solve with the capacitance Cholesky factor Lc *)
Theorem woodbury_solve_correct n k (U : mat F) (d : vec F) (Lc : mat F) (b : vec F) :
  all_nz n d -> lower_tri sq lt k Lc -> diag_nz sq lt k Lc ->
  mx_of k k Lc *m (mx_of k k Lc)^T = mx_of k k (cap_mat FA n k U d) ->
  (dmx n d + mx_of n k U *m (mx_of n k U)^T) *m cv_of n (woodbury_solve FA n k U d Lc b) = cv_of n b.
Proof.
move=> nz lo dz HL.
set Um := mx_of n k U.
have cap : mx_of k k (cap_mat FA n k U d) = 1%:M + Um^T *m invmx (dmx n d) *m Um.
  rewrite invmx_dmx // -mulmxA.
  apply/matrixP => i j; rewrite !mxE get_mtab // sumn_big /=.
  congr (_ + _); first by rewrite -(inj_eq val_inj) /=; case: eqP.
  apply: eq_bigr => l _; rewrite dmx_mulE !mxE (vget_vinv nz) //= div1r.
  by [].
rewrite /woodbury_solve cv_of_vsub.
set ainvb := diag_solve FA n d b.
have e1 : cv_of n ainvb = invmx (dmx n d) *m cv_of n b.
  rewrite invmx_dmx // cv_diag_solve; apply/colP => i.
  by rewrite dmx_mulE !mxE (vget_vinv nz).
set r1 := vtab k _.
have e2 : cv_of k r1 = Um^T *m invmx (dmx n d) *m cv_of n b.
  rewrite -mulmxA -e1; apply/colP => i; rewrite !mxE vget_vtab // sumn_big.
  by apply: eq_bigr => l _; rewrite !mxE.
set r2 := chol_solve FA false k Lc r1.
have e3 : (1%:M + Um^T *m invmx (dmx n d) *m Um) *m cv_of k r2 = Um^T *m invmx (dmx n d) *m cv_of n b.
  by rewrite -cap -HL -e2; exact: (@chol_solve_correct _ sq lt false).
have e4 : cv_of n (diag_solve FA n d (matvec FA n k U r2)) = invmx (dmx n d) *m (Um *m cv_of k r2).
  rewrite invmx_dmx // cv_diag_solve -cv_of_matvec; apply/colP => i.
  by rewrite dmx_mulE !mxE (vget_vinv nz).
by rewrite e1 e4; apply: woodbury_mx e3; exact: dmx_unit.
Qed.

(* ---------------------------------------------------------------- permutation
   perm is a permutation of 0 … n-1; (P x)[i] = x[perm[i]]; the model solves with the position of i in perm *)
Theorem perm_solve_correct (perm : seq nat) (b : vec F) :
  uniq perm -> all (fun p => (p < size perm)%N) perm -> size b = size perm ->
  perm_matmul FA perm (perm_solve FA perm b) = b.
Proof.
move=> un bnd sb; apply: (@eq_from_nth _ 0); first by rewrite size_map.
move=> i; rewrite size_map => lin.
rewrite (nth_map 0%N) // /perm_solve /Model.vget nth_mkseq; last by rewrite (allP bnd) // mem_nth.
by rewrite index_uniq.
Qed.

End Struct.
