(* C04 — block-diagonal / block-interleaved block-wise solves and BatchRepeat column folding. Any number
   of blocks / repeats, any block size. *)
From mathcomp Require Import all_ssreflect all_algebra.
Require Import C04.Model C04.ProofsBridge C04.ProofsKron.
Set Implicit Arguments.
Unset Strict Implicit.
Unset Printing Implicit Defensive.
Import GRing.Theory.

Section Block.
Variable F : fieldType.
Variable sq : F -> F.
Variable lt : F -> F -> bool.
Local Notation FA := (FA sq lt).
Local Notation vget := (vget FA).

(* entries of the block-structured matrix, given the entries e b i j of block b *)
Definition blk_entry (inter : bool) (k m : nat) (e : nat -> nat -> nat -> F) (I J : nat) : F :=
  if inter then (if I %% k == J %% k then e (I %% k) (I %/ k) (J %/ k) else 0%R)
  else (if I %/ m == J %/ m then e (I %/ m) (I %% m) (J %% m) else 0%R).

(* solver b solves with block b *)
Definition solves_block (m : nat) (e : nat -> nat -> F) (sv : vec F -> vec F) : Prop :=
  forall u i, i < m -> (\sum_(j < m) e i j * vget (sv u) j)%R = vget u i.

Theorem block_solve_correct inter k m (e : nat -> nat -> nat -> F) (solvers : seq (vec F -> vec F)) (v : vec F) I :
  0 < m -> 0 < k -> (forall b, b < k -> solves_block m (e b) (nth id solvers b)) -> I < k * m ->
  (\sum_(J < k * m) blk_entry inter k m e I J * vget (block_solve FA inter k m solvers v) J)%R = vget v I.
Proof.
move=> m0 k0 H IM.
have join J : J < k * m -> vget (block_solve FA inter k m solvers v) J =
     if inter then vget (nth id solvers (J %% k) (block_rows FA true k m (J %% k) v)) (J %/ k)
     else vget (nth id solvers (J %/ m) (block_rows FA false k m (J %/ m) v)) (J %% m).
  move=> JM; rewrite /block_solve /block_join /Model.vget nth_mkseq //.
  case: inter; rewrite nth_mkseq //; first by rewrite ltn_mod.
  by rewrite ltn_divLR.
case: inter join => join.
- (* interleaved: J = r * k + b *)
  rewrite mulnC in IM *.
  rewrite (sum_split m k (fun J => blk_entry true k m e I J * vget (block_solve FA true k m solvers v) J)%R).
  rewrite exchange_big /=.
  have bk : I %% k < k by rewrite ltn_mod.
  rewrite (bigD1 (Ordinal bk)) //= [X in (_ + X)%R = _]big1 ?addr0; last first.
    move=> b ne; apply: big1 => r _; rewrite /blk_entry modnMDl (modn_small (ltn_ord b)).
    by rewrite -(inj_eq val_inj) /= eq_sym in ne; rewrite (negbTE ne) mul0r.
  rewrite -[RHS](_ : vget (block_rows FA true k m (I %% k) v) (I %/ k) = _); last first.
    by rewrite /block_rows /Model.vget nth_mkseq ?ltn_divLR // -divn_eq.
  rewrite -(H _ bk (block_rows FA true k m (I %% k) v) (I %/ k)); last by rewrite ltn_divLR.
  apply: eq_bigr => r _; rewrite /blk_entry modnMDl (modn_small bk) eqxx divnMDl // (divn_small bk) addn0.
  rewrite join ?modnMDl ?(modn_small bk) ?divnMDl // ?(divn_small bk) ?addn0 //.
  by rewrite [k * m]mulnC; apply: (@leq_trans (r.+1 * k)); [rewrite mulSn [k + _]addnC ltn_add2l | rewrite leq_mul2r ltn_ord orbT].
- (* block diagonal: J = b * m + r *)
  rewrite (sum_split k m (fun J => blk_entry false k m e I J * vget (block_solve FA false k m solvers v) J)%R).
  have bk : I %/ m < k by rewrite ltn_divLR.
  rewrite (bigD1 (Ordinal bk)) //= [X in (_ + X)%R = _]big1 ?addr0; last first.
    move=> b ne; apply: big1 => r _; rewrite /blk_entry divnMDl // (divn_small (ltn_ord r)) addn0.
    by rewrite -(inj_eq val_inj) /= eq_sym in ne; rewrite (negbTE ne) mul0r.
  rewrite -[RHS](_ : vget (block_rows FA false k m (I %/ m) v) (I %% m) = _); last first.
    by rewrite /block_rows /Model.vget nth_mkseq ?ltn_mod // -divn_eq.
  rewrite -(H _ bk (block_rows FA false k m (I %/ m) v) (I %% m)); last by rewrite ltn_mod.
  apply: eq_bigr => r _; rewrite /blk_entry divnMDl // (divn_small (ltn_ord r)) addn0 eqxx.
  rewrite modnMDl (modn_small (ltn_ord r)) join ?divnMDl // ?(divn_small (ltn_ord r)) ?addn0 ?modnMDl ?(modn_small (ltn_ord r)) //.
  by apply: (@leq_trans ((I %/ m).+1 * m)); [rewrite mulSn [m + _]addnC ltn_add2l | rewrite leq_mul2r bk orbT].
Qed.

End Block.

(* ---------------------------------------------------------------- BatchRepeat folding *)
Section Fold.
Variable T : Type.

Theorem batch_repeat_fold_correct (R c : nat) (f : seq T -> seq T) (Xs : seq (seq (seq T))) :
  size Xs = R -> all (fun X => size X == c) Xs ->
  batch_repeat_solve R c (map f) Xs = map (map f) Xs.
Proof.
move=> sX sc; rewrite /batch_repeat_solve /unfold_repeats /fold_repeats.
apply: (@eq_from_nth _ [::]); first by rewrite size_mkseq size_map sX.
move=> r; rewrite size_mkseq => rR; rewrite nth_mkseq // (nth_map [::]) ?sX //.
have /eqP sr : size (nth [::] Xs r) == c by apply: (all_nthP [::] sc); rewrite sX.
apply: (@eq_from_nth _ [::]); first by rewrite size_mkseq size_map sr.
move=> j; rewrite size_mkseq => jc; rewrite nth_mkseq //.
have lt_idx : j * R + r < c * R.
  by apply: (@leq_trans (j.+1 * R)); [rewrite mulSn [R + _]addnC ltn_add2l | rewrite leq_mul2r jc orbT].
rewrite (nth_map [::]) ?size_mkseq // nth_mkseq // [RHS](nth_map [::]) ?sr //.
by rewrite modnMDl modn_small // divnMDl ?(leq_trans _ rR) // divn_small // addn0.
Qed.

End Fold.
