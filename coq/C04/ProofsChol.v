(* C04 — cholesky_solve (potrs) is correct for either orientation, every size. *)
From mathcomp Require Import all_ssreflect all_algebra.
Require Import C04.Model C04.ProofsBridge C04.ProofsTri.
Set Implicit Arguments.
Unset Strict Implicit.
Unset Printing Implicit Defensive.
Import GRing.Theory.
Local Open Scope ring_scope.

Section Chol.
Variable F : fieldType.
Variable sq : F -> F.
Variable lt : F -> F -> bool.
Local Notation FA := (FA sq lt).
Local Notation mx_of := (mx_of sq lt).
Local Notation cv_of := (cv_of sq lt).

Lemma trm_upper n T : lower_tri sq lt n T -> upper_tri sq lt n (trm FA n T).
Proof. by move=> lo i j ji lin; rewrite get_mtab // ?(ltn_trans ji) //; apply: lo. Qed.
Lemma trm_lower n T : upper_tri sq lt n T -> lower_tri sq lt n (trm FA n T).
Proof. by move=> up i j ij jn; rewrite get_mtab // ?(ltn_trans ij) //; apply: up. Qed.
Lemma trm_diag n T : diag_nz sq lt n T -> diag_nz sq lt n (trm FA n T).
Proof. by move=> nz i lin; rewrite get_mtab //; apply: nz. Qed.

(* the matrix a Cholesky factor stands for *)
Definition chol_denote (upper : bool) n (Fm : mat F) : 'M[F]_n :=
  if upper then (mx_of n n Fm)^T *m mx_of n n Fm else mx_of n n Fm *m (mx_of n n Fm)^T.

Theorem chol_solve_correct upper n Fm b :
  tri_flag sq lt upper n Fm -> diag_nz sq lt n Fm ->
  chol_denote upper n Fm *m cv_of n (chol_solve FA upper n Fm b) = cv_of n b.
Proof.
case: upper => /= tr nz; rewrite /chol_denote /chol_solve -mulmxA.
- rewrite (@tri_solve_correct _ sq lt true n Fm) //= -mx_of_trm.
  by rewrite (@tri_solve_correct _ sq lt false) //=; [exact: trm_lower | exact: trm_diag].
- rewrite -mx_of_trm (@tri_solve_correct _ sq lt true) /=; [|exact: trm_upper|exact: trm_diag].
  exact: (@tri_solve_correct _ sq lt false).
Qed.

End Chol.
