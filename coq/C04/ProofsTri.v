(* C04 — forward / back substitution is correct for every size (induction on n). *)
From mathcomp Require Import all_ssreflect all_algebra.
Require Import C04.Model C04.ProofsBridge.
Set Implicit Arguments.
Unset Strict Implicit.
Unset Printing Implicit Defensive.
Import GRing.Theory.
Local Open Scope ring_scope.

Section Tri.
Variable F : fieldType.
Variable sq : F -> F.
Variable lt : F -> F -> bool.
Local Notation FA := (FA sq lt).
Local Notation get := (get FA).
Local Notation vget := (vget FA).
Local Notation fsub := (fsub FA).

(* triangularity as the kernels see it (entries are read through [get]) *)
Definition lower_tri n (T : mat F) := forall i j, (i < j)%N -> (j < n)%N -> get T i j = 0.
Definition upper_tri n (T : mat F) := forall i j, (j < i)%N -> (i < n)%N -> get T i j = 0.
Definition diag_nz n (T : mat F) := forall i, (i < n)%N -> get T i i != 0.

Lemma size_fsub T b k : size (fsub T b k) = k.
Proof. by elim: k => [|k IH] //=; rewrite size_rcons IH. Qed.

Lemma fsub_nth T b k j : (j < k)%N -> vget (fsub T b k) j = vget (fsub T b j.+1) j.
Proof.
elim: k => [|k IH] //; rewrite ltnS leq_eqVlt => /orP[/eqP -> //|jk].
by rewrite /= /Model.vget nth_rcons size_fsub jk; exact: IH.
Qed.

Lemma fsub_last T b k :
  vget (fsub T b k.+1) k =
  (vget b k - \sum_(j < k) get T k j * vget (fsub T b k) j) / get T k k.
Proof. by rewrite /= /Model.vget nth_rcons size_fsub ltnn eqxx /= sumn_big. Qed.

(* every entry of the result satisfies its row equation *)
Lemma fsub_row n T b i : (i < n)%N -> get T i i != 0 ->
  \sum_(j < i) get T i j * vget (fsub T b n) j + get T i i * vget (fsub T b n) i = vget b i.
Proof.
move=> lin nz; rewrite (fsub_nth T b lin) fsub_last.
have -> : \sum_(j < i) get T i j * vget (fsub T b n) j = \sum_(j < i) get T i j * vget (fsub T b i) j.
  apply: eq_bigr => j _; congr (_ * _).
  by rewrite (@fsub_nth T b n j) ?(@fsub_nth T b i j) // (ltn_trans _ lin).
by rewrite mulrC divfK // addrC subrK.
Qed.

Lemma sum_split3 n (f : nat -> F) i : (i < n)%N ->
  \sum_(j < n) f j = \sum_(j < i) f j + f i + \sum_(i.+1 <= j < n) f j.
Proof.
move=> lin; rewrite -(big_mkord xpredT f) (@big_cat_nat _ _ _ i) //=; last exact: ltnW.
by rewrite big_mkord big_ltn // addrA.
Qed.

Theorem fsub_correct n T b : lower_tri n T -> diag_nz n T ->
  mx_of sq lt n n T *m cv_of sq lt n (fsub T b n) = cv_of sq lt n b.
Proof.
move=> lo nz; apply/colP => i; rewrite !mxE.
under eq_bigr => j _ do rewrite !mxE.
rewrite (@sum_split3 n (fun j => get T i j * vget (fsub T b n) j) i) //.
have -> : \sum_(i.+1 <= j < n) get T i j * vget (fsub T b n) j = 0.
  by rewrite big_nat_cond big1 // => j /andP[/andP[ij jn] _]; rewrite lo // mul0r.
rewrite addr0.
exact: fsub_row (ltn_ord i) (nz _ (ltn_ord i)).
Qed.

(* ---- upper triangular through the index reversal *)
Lemma flip_lower n T : upper_tri n T -> lower_tri n (flip FA n T).
Proof.
move=> up i j ij jn; rewrite get_mtab //; last exact: ltn_trans jn.
apply: up; last by rewrite (leq_ltn_trans (leq_subr _ _)) // prednK // (leq_ltn_trans _ jn).
by rewrite ltn_sub2l // -ltnS prednK // (leq_ltn_trans _ jn).
Qed.

Lemma flip_diag n T : diag_nz n T -> diag_nz n (flip FA n T).
Proof.
move=> nz i lin; rewrite get_mtab //; apply: nz.
by rewrite (leq_ltn_trans (leq_subr _ _)) // prednK // (leq_ltn_trans _ lin).
Qed.

Lemma rev_ord_sub n (i : 'I_n) : (n.-1 - i = rev_ord i)%N.
Proof. by case: n i => [[]|n i] //=; rewrite subSS. Qed.

Theorem bsub_correct n T b : upper_tri n T -> diag_nz n T ->
  mx_of sq lt n n T *m cv_of sq lt n (vrev FA n (fsub (flip FA n T) (vrev FA n b) n)) = cv_of sq lt n b.
Proof.
move=> up nz.
have H := fsub_correct (vrev FA n b) (flip_lower up) (flip_diag nz).
apply/colP => i; rewrite !mxE.
move/colP/(_ (rev_ord i)): H; rewrite !mxE.
rewrite vget_vtab; last by rewrite ltn_ord.
rewrite rev_ord_sub rev_ordK => <-.
rewrite (reindex_inj rev_ord_inj) /=; apply: eq_bigr => j _; rewrite !mxE.
rewrite get_mtab ?ltn_ord // vget_vtab ?ltn_ord //.
by rewrite !rev_ord_sub !rev_ordK.
Qed.

(* torch.linalg.solve_triangular on one column: T triangular per the flag, non-zero diagonal *)
Definition tri_flag (upper : bool) n T := if upper then upper_tri n T else lower_tri n T.

Theorem tri_solve_correct upper n T b : tri_flag upper n T -> diag_nz n T ->
  mx_of sq lt n n T *m cv_of sq lt n (tri_solve FA upper n T b) = cv_of sq lt n b.
Proof. by case: upper => /= tr nz; [exact: bsub_correct | exact: fsub_correct]. Qed.

End Tri.
