(* C20 — utility kernels equal their dense definitions.
   ONLY theorem statements (the proof obligations the harness counts); each is closed by `exact`/`apply` of a lemma
   of Proofs*.v about the transcribed kernels of Model.v / ModelQR.v.

   Conventions (see Model.v): ring Z; a tensor is a shape and an index function, both LAST DIMENSION FIRST
   (torch shape (b1, b2, m, n) is [n; m; b2; b1] and entry [x1, x2, i, j] is `tat t [j; i; x2; x1]`), so a batch index is
   the tail `b` of a multi-index, `bcast_ix s b` reads a batch of shape `s` at the broadcast position `b`, and every
   theorem below quantifies over ALL sizes n and ALL batch shapes (lists of any length). *)
From Coq Require Import List ZArith Bool Arith Lia.
Import ListNotations.
Require Import C20.Model C20.ProofsBase C20.ProofsToeplitz C20.ProofsPerm C20.ProofsShape C20.ProofsInterp
  C20.ProofsSparse C20.ProofsRepeat C20.ProofsToSparse C20.ProofsGetitem C20.ProofsBdsmm C20.ProofsInterpT C20.ProofsMakeSparse C20.ProofsDQF.

(* ------------------------------------------------------------------------------------------------------------ *)
(* linear_operator/utils/toeplitz.py *)

(* toeplitz(c, r): for every n >= 1 the two fill loops produce exactly T[i,j] = c[i-j] (i >= j), r[j-i] (i < j),
   whatever torch.empty contained *)
Theorem C20_toeplitz_fill : forall g c r n,
  1 <= n -> tshape c = [n] -> tshape r = [n] -> tat c [0] = tat r [0] ->
  exists t, toeplitz g c r = Ok t /\ tshape t = [n; n] /\
            forall i j, i < n -> j < n -> tat t [j; i] = Tspec (vec c) (vec r) i j.
Proof. exact toeplitz_correct. Qed.

Theorem C20_sym_toeplitz_fill : forall g c n,
  1 <= n -> tshape c = [n] ->
  exists t, sym_toeplitz g c = Ok t /\ tshape t = [n; n] /\
            forall i j, i < n -> j < n -> tat t [j; i] = vec c (if j <=? i then i - j else j - i).
Proof. exact sym_toeplitz_correct. Qed.

(* the guards of toeplitz(): not vectors, T[0,0] ambiguous, different lengths -> raises *)
Theorem C20_toeplitz_guards : forall g c r,
  (ndim c <> 1 \/ ndim r <> 1 \/ tat c [0] <> tat r [0] \/ dim0 c <> dim0 r) -> toeplitz g c r = Err.
Proof. exact toeplitz_raises. Qed.

Theorem C20_toeplitz_getitem : forall c r n i j,
  tshape c = [n] -> tshape r = [n] -> i < n -> j < n ->
  toeplitz_getitem c r (Z.of_nat i) (Z.of_nat j) = Ok (Tspec (vec c) (vec r) i j).
Proof. exact toeplitz_getitem_correct. Qed.

Theorem C20_sym_toeplitz_getitem : forall c n i j,
  tshape c = [n] -> i < n -> j < n ->
  sym_toeplitz_getitem c (Z.of_nat i) (Z.of_nat j) = Ok (vec c (if j <=? i then i - j else j - i)).
Proof. exact sym_toeplitz_getitem_correct. Qed.

(* the circulant embedding: the circular convolution of [c ; reversed r[1:]] with the zero-padded column x,
   restricted to the first n entries, is the Toeplitz product (all n >= 1; length 2n - 1) *)
Theorem C20_circulant_embedding : forall n (cf rf x : nat -> Z) i, 1 <= n -> i < n ->
  zsum (2 * n - 1) (fun k => (crr n cf rf ((i + (2 * n - 1) - k) mod (2 * n - 1))%nat * (if (k <? n)%nat then x k else 0))%Z)
  = zsum n (fun k => (Tspec cf rf i k * x k)%Z).
Proof. exact circ_toeplitz. Qed.

(* zero padding of the circulant embedding (FFT length L, e.g. the next power of two): for ANY length L >= 2n - 1 the
   vector [c ; 0 ... 0 ; reversed r[1:]] - the reversed row placed at the END, position L - d holding r[d] - still
   reproduces the Toeplitz product; L = 2n - 1 is the unpadded embedding of the library *)
Theorem C20_circulant_embedding_padded : forall n L (cf rf x : nat -> Z) i, 1 <= n -> 2 * n - 1 <= L -> i < n ->
  zsum L (fun k => (crr_pad n L cf rf ((i + L - k) mod L)%nat * (if (k <? n)%nat then x k else 0))%Z)
  = zsum n (fun k => (Tspec cf rf i k * x k)%Z).
Proof. exact circ_toeplitz_padded. Qed.

Theorem C20_circulant_embedding_padded_exact : forall n cf rf m, 1 <= n -> m < 2 * n - 1 ->
  crr_pad n (2 * n - 1) cf rf m = crr n cf rf m.
Proof. exact crr_pad_exact. Qed.

(* ... and the padding is NOT harmless when the reversed row stays directly behind the column (positions n .. 2n-2):
   witness n = 2, L = 4, c = [1,2], r = [1,3], x = [0,1], i = 0 (evaluated) *)
Theorem C20_circulant_embedding_padded_row_at_n_refuted :
  exists n L (cf rf x : nat -> Z) i, 1 <= n /\ 2 * n - 1 <= L /\ i < n /\
  zsum L (fun k => (crr_pad_at_n n L cf rf ((i + L - k) mod L)%nat * (if (k <? n)%nat then x k else 0))%Z)
  <> zsum n (fun k => (Tspec cf rf i k * x k)%Z).
Proof. exact circ_toeplitz_padded_at_n_refuted. Qed.

(* toeplitz_matmul(c, r, M), matrix right-hand side, ANY batch shapes tb of (c, r) and mb of M that broadcast to bc:
   out[b, i, j] = sum_k T_b[i, k] * M_b[k, j] with T_b the Toeplitz matrix of batch member b (broadcast) *)
Theorem C20_toeplitz_matmul_matrix : forall vec_ok c r M n p tb mb bc,
  1 <= n ->
  tshape c = n :: tb -> tshape r = n :: tb -> tshape M = p :: n :: mb ->
  broadcast_shapes tb mb = Some bc ->
  (forall b, valid b tb -> tat c (0 :: b) = tat r (0 :: b)) ->
  exists out, toeplitz_matmul vec_ok c r M = Ok out /\ tshape out = p :: n :: bc /\
    forall j i b, j < p -> i < n -> valid b bc ->
      tat out (j :: i :: b) =
      zsum n (fun k => (Tspec (fun d => tat c (d :: bcast_ix tb b)) (fun d => tat r (d :: bcast_ix tb b)) i k
                        * tat M (j :: k :: bcast_ix mb b))%Z).
Proof. exact toeplitz_matmul_matrix_correct. Qed.

(* the documented 1-D right-hand side, repaired code (proposed_fixes/C20-toeplitz-matmul-vector.diff) *)
Theorem C20_toeplitz_matmul_vector : forall c r x n tb,
  1 <= n ->
  tshape c = n :: tb -> tshape r = n :: tb -> tshape x = [n] ->
  (forall b, valid b tb -> tat c (0 :: b) = tat r (0 :: b)) ->
  exists out, toeplitz_matmul true c r x = Ok out /\ tshape out = n :: tb /\
    forall i b, i < n -> valid b tb ->
      tat out (i :: b) =
      zsum n (fun k => (Tspec (fun d => tat c (d :: b)) (fun d => tat r (d :: b)) i k * tat x [k])%Z).
Proof. exact toeplitz_matmul_vector_correct. Qed.

(* KNOWN FINDING C20-toeplitz-matmul-vector: the pinned code rejects every 1-D right-hand side *)
Theorem C20_toeplitz_matmul_vector_refuted : exists c r x,
  tshape c = [3] /\ tshape r = [3] /\ tshape x = [3] /\ tat c [0] = tat r [0] /\
  toeplitz_matmul false c r x = Err /\ toeplitz_matmul true c r x <> Err.
Proof.
  exists (of_flat [3] [1; 2; 3]%Z), (of_flat [3] [1; 4; 5]%Z), (of_flat [3] [1; 0; 2]%Z).
  repeat split; try reflexivity. vm_compute. discriminate.
Qed.

Theorem C20_sym_toeplitz_matmul_matrix : forall vec_ok c M n p tb mb bc,
  1 <= n -> tshape c = n :: tb -> tshape M = p :: n :: mb -> broadcast_shapes tb mb = Some bc ->
  exists out, sym_toeplitz_matmul vec_ok c M = Ok out /\ tshape out = p :: n :: bc /\
    forall j i b, j < p -> i < n -> valid b bc ->
      tat out (j :: i :: b) =
      zsum n (fun k => (tat c ((if k <=? i then i - k else k - i)%nat :: bcast_ix tb b) * tat M (j :: k :: bcast_ix mb b))%Z).
Proof. exact sym_toeplitz_matmul_matrix_correct. Qed.

(* guards of toeplitz_matmul: T[0,0] ambiguous in ANY (broadcast) batch member, wrong number of rows -> raises *)
Theorem C20_toeplitz_matmul_guard_c0 : forall vec_ok c r M n p tb mb bc b,
  tshape c = n :: tb -> tshape r = n :: tb -> tshape M = p :: n :: mb ->
  broadcast_shapes tb mb = Some bc -> valid b bc ->
  tat c (0 :: bcast_ix tb b) <> tat r (0 :: bcast_ix tb b) ->
  toeplitz_matmul vec_ok c r M = Err.
Proof. exact toeplitz_matmul_c0_ne_r0_raises. Qed.

Theorem C20_toeplitz_matmul_guard_rows : forall vec_ok c r M n n' p tb mb,
  tshape c = n :: tb -> tshape r = n :: tb -> tshape M = p :: n' :: mb -> n <> n' ->
  toeplitz_matmul vec_ok c r M = Err.
Proof. exact toeplitz_matmul_rows_raises. Qed.

(* sym_toeplitz_derivative_quadratic_form(left, right), matrices (batch..., m, s) = s column vectors of length m:
   entry d of the result is  sum_j u_j^T (dT/dc_d) v_j,  dT/dc_d = ones on the d-th sub- and super-diagonal
   (the identity for d = 0): the two upper-triangular Toeplitz products through toeplitz_matmul (the second on the
   flipped vectors) and the diagonal correction — all m >= 1, any number s of vectors, any batch shape *)
Theorem C20_sym_toeplitz_derivative_quadratic_form : forall left right s m batch,
  tshape left = s :: m :: batch -> tshape right = s :: m :: batch -> 1 <= m ->
  exists out, sym_toeplitz_derivative_quadratic_form left right = Ok out /\ tshape out = m :: batch /\
    forall d b, d < m -> valid b batch ->
      tat out (d :: b) =
      zsum s (fun s' => if d =? 0 then zsum m (fun i => UV left right b s' i i)
                        else (zsum (m - d) (fun a => UV left right b s' a (a + d)) + zsum (m - d) (fun a => UV left right b s' (a + d) a))%Z).
Proof. exact dqf_matrix_correct'. Qed.

Theorem C20_sym_toeplitz_derivative_quadratic_form_vector : forall left right m,
  tshape left = [m] -> tshape right = [m] -> 1 <= m ->
  exists out, sym_toeplitz_derivative_quadratic_form left right = Ok out /\ tshape out = [m] /\
    forall d, d < m ->
      tat out [d] =
      if d =? 0 then zsum m (fun i => (tat left [i] * tat right [i])%Z)
      else (zsum (m - d) (fun a => (tat left [a] * tat right [(a + d)%nat])%Z) + zsum (m - d) (fun a => (tat left [(a + d)%nat] * tat right [a])%Z))%Z.
Proof. exact dqf_vector_correct. Qed.

(* non-vacuity: a batched, broadcasting instance satisfies the hypotheses of C20_toeplitz_matmul_matrix *)
Example C20_toeplitz_matmul_nonvacuous :
  let c := of_flat [3; 2] [1; 2; 3; 4; 5; 6]%Z in let r := of_flat [3; 2] [1; 7; 8; 4; 9; 0]%Z in
  let M := of_flat [2; 3; 1; 3] (map Z.of_nat (seq 0 18)) in
  broadcast_shapes [2] [1; 3] = Some [2; 3] /\ (forall b, valid b [2] -> tat c (0 :: b) = tat r (0 :: b)) /\
  match toeplitz_matmul false c r M with Ok out => tshape out = [2; 3; 2; 3] /\ tat out [1; 2; 0; 1] = 50%Z | Err => False end.
Proof.
  split; [reflexivity|]. split.
  - intros [|b0 [|b1 b]]; simpl; try tauto. intros [H _]. destruct b0 as [|[|b0]]; try lia; reflexivity.
  - vm_compute. split; reflexivity.
Qed.

(* ------------------------------------------------------------------------------------------------------------ *)
(* linear_operator/utils/permutation.py *)

(* inverse_permutation: for EVERY batch of permutations of {0..n-1} (any n, any batch shape) the scatter result is
   the two-sided inverse: inv[perm[k]] = k and perm[inv[i]] = i in every batch member *)
Theorem C20_inverse_permutation : forall perm n bs,
  is_perm_batch perm n bs ->
  exists inv, inverse_permutation perm = Ok inv /\ tshape inv = n :: bs /\
    (forall k b, k < n -> valid b bs -> tat inv (prow perm b k :: b) = Z.of_nat k) /\
    (forall i b, i < n -> valid b bs -> (0 <= tat inv (i :: b) < Z.of_nat n)%Z /\ prow perm b (idx_at inv (i :: b)) = i).
Proof. exact inverse_permutation_correct. Qed.

Theorem C20_inverse_permutation_guard : forall perm n bs ix,
  tshape perm = n :: bs -> valid ix (n :: bs) -> ~ (0 <= tat perm ix < Z.of_nat n)%Z ->
  inverse_permutation perm = Err.
Proof. exact inverse_permutation_raises. Qed.

Example C20_inverse_permutation_nonvacuous :
  is_perm_batch (of_flat [3; 2] [1; 2; 0; 2; 1; 0]%Z) 3 [2].
Proof.
  split; [reflexivity|]. split.
  - intros k [|b0 [|b1 b]]; simpl; try tauto. intros Hk [Hb _].
    destruct b0 as [|[|b0]]; try lia; destruct k as [|[|[|k]]]; try lia; vm_compute; split; congruence.
  - intros [|b0 [|b1 b]]; simpl; try tauto. intros [Hb _] k1 k2 H1 H2.
    destruct b0 as [|[|b0]]; try lia; destruct k1 as [|[|[|k1]]]; try lia; destruct k2 as [|[|[|k2]]]; try lia;
      vm_compute; congruence.
Qed.

(* apply_permutation (left / right / both, full or PARTIAL permutations of any lengths kl, kr, batched and
   broadcasting): whenever the library returns, entry (b, i, j) of the result is M_b[left_b[i], right_b[j]],
   i.e. Pi_left K Pi_right^T; a missing permutation acts as arange *)
Theorem C20_apply_permutation : forall M left right ncols nrows rbatch kl pbl kr pbr out,
  tshape M = ncols :: nrows :: rbatch ->
  (left <> None \/ right <> None) ->
  tshape (perm_or_arange left nrows) = kl :: pbl -> tshape (perm_or_arange right ncols) = kr :: pbr ->
  apply_permutation M left right = Ok out ->
  forall j i b, j < kr -> i < kl -> valid (j :: i :: b) (tshape out) ->
    tat out (j :: i :: b) =
    tat M (idx_at (perm_or_arange right ncols) (j :: bcast_ix pbr b) ::
           idx_at (perm_or_arange left nrows) (i :: bcast_ix pbl b) :: bcast_ix rbatch b).
Proof. exact apply_permutation_value. Qed.

(* ... and it does return on in-range (partial) permutations whose batch shapes broadcast, with the result shape
   (broadcast batch..., kl, kr) *)
Theorem C20_apply_permutation_total : forall M left right ncols nrows rbatch kl pbl kr pbr ob1 ob,
  tshape M = ncols :: nrows :: rbatch ->
  (left <> None \/ right <> None) ->
  let L := perm_or_arange left nrows in let R := perm_or_arange right ncols in
  tshape L = kl :: pbl -> tshape R = kr :: pbr ->
  (forall ix, valid ix (kl :: pbl) -> (0 <= tat L ix < Z.of_nat nrows)%Z) ->
  (forall ix, valid ix (kr :: pbr) -> (0 <= tat R ix < Z.of_nat ncols)%Z) ->
  broadcast_shapes pbl rbatch = Some ob1 -> broadcast_shapes pbr ob1 = Some ob ->
  exists out, apply_permutation M left right = Ok out /\ tshape out = kr :: kl :: ob.
Proof. exact apply_permutation_total. Qed.

Theorem C20_apply_permutation_none : forall M, apply_permutation M None None = Ok M.
Proof. exact apply_permutation_none. Qed.

(* ------------------------------------------------------------------------------------------------------------ *)
(* linear_operator/utils/broadcasting.py *)

(* broadcast_shapes IS torch.broadcast_shapes: align at the last dimension, pad the shorter shape with 1s, every pair of
   sizes equal or one of them 1, the result takes the other one (all ranks) *)
Theorem C20_broadcast_shapes_spec : forall a b r,
  broadcast_shapes a b = Some r <->
  (length r = Nat.max (length a) (length b) /\
   forall i, i < length r -> bdim_ok (nth i a 1) (nth i b 1) /\ nth i r 1 = bdim (nth i a 1) (nth i b 1)).
Proof. exact broadcast_shapes_spec. Qed.

Theorem C20_matmul_broadcast_shape_vector : forall n m abatch p,
  matmul_broadcast_shape (n :: m :: abatch) [p] = if n =? p then Ok (m :: abatch) else Err.
Proof. exact matmul_broadcast_shape_vector. Qed.

Theorem C20_matmul_broadcast_shape_matrix : forall n m abatch p n' bbatch r,
  matmul_broadcast_shape (n :: m :: abatch) (p :: n' :: bbatch) = Ok r <->
  n = n' /\ exists bc, r = p :: m :: bc /\
    length bc = Nat.max (length abatch) (length bbatch) /\
    forall i, i < length bc -> bdim_ok (nth i abatch 1) (nth i bbatch 1) /\ nth i bc 1 = bdim (nth i abatch 1) (nth i bbatch 1).
Proof. exact matmul_broadcast_shape_matrix. Qed.

Theorem C20_matmul_broadcast_shape_guard : forall a b, length a < 2 \/ b = [] -> matmul_broadcast_shape a b = Err.
Proof. exact matmul_broadcast_shape_short. Qed.

(* _pad_with_singletons: a view — shape [1]*before + shape + [1]*after, entries and row-major data untouched *)
Theorem C20_pad_with_singletons : forall t before after,
  tshape (pad_with_singletons t before after) = repeat 1 after ++ tshape t ++ repeat 1 before /\
  to_flat (pad_with_singletons t before after) = to_flat t /\
  forall ix, valid ix (tshape t) ->
    tat (pad_with_singletons t before after) (repeat 0 after ++ ix ++ repeat 0 before) = tat t ix.
Proof.
  intros t before after. split; [apply pad_with_singletons_shape|].
  split; [apply pad_with_singletons_data|apply pad_with_singletons_correct].
Qed.

(* ------------------------------------------------------------------------------------------------------------ *)
(* linear_operator/utils/interpolation.py: left_interp = W x, W[row, k] = sum_q [idx[row, q] = k] vals[row, q]
   (duplicate indices sum), any number q of coefficients, any sizes, any batch shapes *)

Theorem C20_interp_matrix_form : forall q n idx val (x : nat -> Z),
  (forall a, a < q -> idx a < n) ->
  zsum q (fun a => (x (idx a) * val a)%Z) = zsum n (fun k => (Wrow q idx val k * x k)%Z).
Proof. exact interp_matrix_form. Qed.

Theorem C20_left_interp_vector : forall idx vals rhs q s n,
  tshape idx = q :: s -> tshape vals = q :: s -> tshape rhs = [n] ->
  (forall ix, valid ix (q :: s) -> (0 <= tat idx ix < Z.of_nat n)%Z) ->
  exists out, left_interp idx vals rhs = Ok out /\ tshape out = s /\
    forall b, valid b s ->
      tat out b = zsum q (fun a => (tat rhs [idx_at idx (a :: b)] * tat vals (a :: b))%Z).
Proof. exact left_interp_vector_correct. Qed.

Theorem C20_left_interp_matrix : forall idx vals rhs q r ib c n rb bc,
  tshape idx = q :: r :: ib -> tshape vals = q :: r :: ib -> tshape rhs = c :: n :: rb ->
  broadcast_shapes ib rb = Some bc ->
  (forall ix, valid ix (q :: r :: ib) -> (0 <= tat idx ix < Z.of_nat n)%Z) ->
  exists out, left_interp idx vals rhs = Ok out /\ tshape out = c :: r :: bc /\
    forall col row b, col < c -> row < r -> valid b bc ->
      tat out (col :: row :: b) =
      zsum q (fun a => (tat rhs (col :: idx_at idx (a :: row :: bcast_ix ib b) :: bcast_ix rb b)
                        * tat vals (a :: row :: bcast_ix ib b))%Z).
Proof. exact left_interp_matrix_correct. Qed.

Theorem C20_left_interp_guard : forall idx vals rhs q r ib c n rb ix,
  tshape idx = q :: r :: ib -> tshape vals = q :: r :: ib -> tshape rhs = c :: n :: rb ->
  valid ix (q :: r :: ib) -> ~ (0 <= tat idx ix < Z.of_nat n)%Z ->
  left_interp idx vals rhs = Err.
Proof. exact left_interp_index_raises. Qed.

(* ------------------------------------------------------------------------------------------------------------ *)
(* linear_operator/utils/sparse.py, functions/_dsmm.py: a sparse COO tensor is an entry list, duplicates sum
   (`sdense`); all sizes, all ranks *)

Theorem C20_sparse_eye : forall n i j,
  sshape (sparse_eye n) = [n; n] /\ swf (sparse_eye n) = true /\
  tat (sdense (sparse_eye n)) [j; i] = if (i =? j) && (i <? n) then 1%Z else 0%Z.
Proof. intros n i j. split; [reflexivity|]. split; [apply sparse_eye_wf|apply sparse_eye_correct]. Qed.

(* sparse.mT as used by DSMM.backward: the dense value is the transpose, for every batch *)
Theorem C20_sparse_mT : forall s j i b,
  sshape (smT s) = swap01 (sshape s) /\ tat (sdense (smT s)) (j :: i :: b) = tat (sdense s) (i :: j :: b).
Proof. intros. split; [reflexivity|apply smT_correct]. Qed.

(* torch.dsmm as transcribed (plain branch of bdsmm): the dense matrix product, any entry order, duplicates *)
Theorem C20_dsmm2 : forall s d n m p,
  sshape s = [n; m] -> tshape d = [p; n] -> swf s = true ->
  exists out, dsmm2 s d = Ok out /\ tshape out = [p; m] /\
    forall j i, tat out [j; i] = zsum n (fun c => (tat (sdense s) [c; i] * tat d [j; c])%Z).
Proof. exact dsmm2_correct. Qed.

(* one repeated dimension p with the repaired stride: copy k is shifted by k * size *)
Theorem C20_sparse_repeat_dim : forall s p rep ix,
  swf s = true -> 1 <= rep -> p < length (sshape s) -> length ix = length (sshape s) ->
  nth p ix 0 < rep * nth p (sshape s) 0 ->
  sval (sent (sparse_repeat_dim stride_dense s p rep)) ix =
  sval (sent s) (upd_nth p (nth p ix 0 mod nth p (sshape s) 0) ix).
Proof. exact sparse_repeat_dim_value. Qed.

(* sparse_repeat (repaired, proposed_fixes/C20-sparse-repeat-stride.diff) = dense repeat for every rank, every shape
   and all repeat counts >= 1, with more repeat sizes than dimensions (new leading dimensions):
   out[ix] = in[ix mod shape] *)
Theorem C20_sparse_repeat : forall s reps,
  swf s = true -> length (sshape s) <= length reps -> (forall j, j < length reps -> 1 <= nth j reps 0) ->
  let n := length (sshape s) in let nd := length reps in
  let sh0 := sshape s ++ repeat 1 (nd - n) in
  let r := sparse_repeat stride_dense s reps in
  length (sshape r) = nd /\ swf r = true /\
  (forall p, p < nd -> nth p (sshape r) 0 = nth (nd - 1 - p) reps 0 * nth p sh0 0) /\
  (forall ix, valid ix (sshape r) ->
     tat (sdense r) ix = tat (sdense s) (firstn n (modfrom 0 ix sh0))).
Proof. exact sparse_repeat_correct. Qed.

(* the pinned stride coincides with the repaired one whenever only dimensions of size 1 are repeated (how bdsmm
   uses it) ... *)
Theorem C20_sparse_repeat_pinned_ok_on_size1 : forall s reps,
  swf s = true -> length (sshape s) <= length reps -> (forall j, j < length reps -> 1 <= nth j reps 0) ->
  let n := length (sshape s) in let nd := length reps in
  let sh0 := sshape s ++ repeat 1 (nd - n) in
  (forall j, j < nd -> 1 < nth j reps 0 -> nth (nd - 1 - j) sh0 0 = 1) ->
  sparse_repeat stride_pinned s reps = sparse_repeat stride_dense s reps.
Proof. exact sparse_repeat_pinned_ok_on_size1. Qed.

(* ... KNOWN FINDING C20-sparse-repeat-stride: and is wrong otherwise: sparse_repeat(diag(1,2), 2, 1) *)
Theorem C20_sparse_repeat_refuted : exists s reps ix,
  swf s = true /\ valid ix (sshape (sparse_repeat stride_dense s reps)) /\
  tat (sdense (sparse_repeat stride_pinned s reps)) ix <> tat (sdense (sparse_repeat stride_dense s reps)) ix.
Proof.
  exists (mkS [2; 2] [([0; 0], 1%Z); ([1; 1], 2%Z)]), [2; 1], [0; 1].
  split; [reflexivity|]. split; [vm_compute; lia|]. vm_compute. discriminate.
Qed.

(* KNOWN FINDING C20-sparse-repeat-single-int: the pinned argument test rejects a single int repeat count *)
Theorem C20_sparse_repeat_call : forall stride s r l,
  sparse_repeat_call false stride s (RVarargs [r]) = Err /\
  sparse_repeat_call true stride s (RVarargs [r]) = Ok (sparse_repeat stride s [r]) /\
  (forall b, sparse_repeat_call b stride s (RTuple l) = Ok (sparse_repeat stride s l)).
Proof. intros. repeat split. Qed.

(* to_sparse(dense) denotes the dense tensor (all ranks, all-zero special case included) *)
Theorem C20_to_sparse : forall d,
  0 < numel (tshape d) ->
  exists s, to_sparse d = Ok s /\ sshape s = tshape d /\ swf s = true /\
    forall ix, valid ix (tshape d) -> tat (sdense s) ix = tat d ix.
Proof. exact to_sparse_correct. Qed.

(* bdsmm, plain branch (both operands 2-D) and dense-batched branch (sparse 2-D, dense of any rank > 2: the batch is
   folded into the columns by view / transpose / reshape, one dsmm, and unfolded again): S @ D_b for every batch
   member b, all sizes, all batch shapes *)
Theorem C20_bdsmm_plain : forall stride s d n m p,
  sshape s = [n; m] -> tshape d = [p; n] -> swf s = true ->
  exists out, bdsmm stride s d = Ok out /\ tshape out = [p; m] /\
    forall j i, tat out [j; i] = zsum n (fun c => (tat (sdense s) [c; i] * tat d [j; c])%Z).
Proof. exact bdsmm_plain_correct. Qed.

Theorem C20_bdsmm_dense_batched : forall stride s d n m p b0 rb,
  sshape s = [n; m] -> tshape d = p :: n :: b0 :: rb -> swf s = true ->
  exists out, bdsmm stride s d = Ok out /\ tshape out = p :: m :: b0 :: rb /\
    forall j i b, j < p -> i < m -> valid b (b0 :: rb) ->
      tat out (j :: i :: b) = zsum n (fun c => (tat (sdense s) [c; i] * tat d (j :: c :: b))%Z).
Proof. exact bdsmm_dense_batched_correct. Qed.

(* sparse-batched branch (sparse of rank > 2): the sparse batch is first broadcast to the output batch by
   sparse_repeat (repeat sizes output // sparse), then every batch member is placed on the diagonal of ONE 2-D sparse
   matrix (entry (b, r, c) -> (r + beta*num_rows, c + beta*num_cols), beta = `indices[:-2].t() @
   batch_multiplication_factor` = row-major rank of b), the dense operand is expanded and reshaped to
   (batch*num_cols, -1), one dsmm, reshaped back.  Any sparse batch shape sb (rank >= 1) and dense batch shape db that
   broadcast to ob (BOTH operands may be broadcast), all sizes >= 1 *)
Theorem C20_bdsmm_sparse_batched : forall s d nc nr sb0 sbr p db ob,
  let sb := sb0 :: sbr in
  sshape s = nc :: nr :: sb -> swf s = true -> tshape d = p :: nc :: db ->
  broadcast_shapes sb db = Some ob ->
  Forall (fun x => 1 <= x) (nc :: nr :: ob) -> Forall (fun x => 1 <= x) sb ->
  exists out, bdsmm stride_dense s d = Ok out /\ tshape out = p :: nr :: ob /\
    forall j i b, j < p -> i < nr -> valid b ob ->
      tat out (j :: i :: b) =
      zsum nc (fun c => (tat (sdense s) (c :: i :: bcast_ix sb b) * tat d (j :: c :: bcast_ix db b))%Z).
Proof. exact bdsmm_sparse_batched_general. Qed.

(* ... and the pinned sparse_repeat stride gives the same bdsmm, because bdsmm only ever repeats size-1 dimensions *)
Theorem C20_bdsmm_sparse_batched_pinned_stride : forall s d nc nr sb0 sbr p db ob,
  let sb := sb0 :: sbr in
  sshape s = nc :: nr :: sb -> swf s = true -> tshape d = p :: nc :: db ->
  broadcast_shapes sb db = Some ob ->
  Forall (fun x => 1 <= x) (nc :: nr :: ob) -> Forall (fun x => 1 <= x) sb ->
  bdsmm stride_pinned s d = bdsmm stride_dense s d.
Proof. exact bdsmm_sparse_batched_pinned_eq. Qed.

(* the batch assignment dot product is the row-major rank of the (torch-order) batch index *)
Theorem C20_batch_assignment : forall rbatch bix, length bix = length rbatch ->
  fold_right Nat.add 0 (map (fun i => nth i (rev bix) 0 * numel (skipn (S i) (rev rbatch))) (seq 0 (length (rev rbatch))))
  = ravel rbatch bix.
Proof. exact batch_assign_ravel. Qed.

(* DSMM.backward = bdsmm(sparse.mT, grad_output): with C20_sparse_mT this is S^T @ G (2-D sparse) *)
Theorem C20_dsmm_backward_plain : forall stride s g n m p,
  sshape s = [n; m] -> tshape g = [p; m] -> swf s = true ->
  exists out, dsmm_backward stride s g = Ok out /\ tshape out = [p; n] /\
    forall j c, tat out [j; c] = zsum m (fun i => (tat (sdense s) [c; i] * tat g [j; i])%Z).
Proof. exact dsmm_backward_plain_correct. Qed.

Theorem C20_dsmm_backward_dense_batched : forall stride s g n m p b0 rb,
  sshape s = [n; m] -> tshape g = p :: m :: b0 :: rb -> swf s = true ->
  exists out, dsmm_backward stride s g = Ok out /\ tshape out = p :: n :: b0 :: rb /\
    forall j c b, j < p -> c < n -> valid b (b0 :: rb) ->
      tat out (j :: c :: b) = zsum m (fun i => (tat (sdense s) [c; i] * tat g (j :: i :: b))%Z).
Proof. exact dsmm_backward_dense_batched_correct. Qed.

Theorem C20_dsmm_backward_sparse_batched : forall s g nc nr sb0 sbr p gb ob,
  let sb := sb0 :: sbr in
  sshape s = nc :: nr :: sb -> swf s = true -> tshape g = p :: nr :: gb ->
  broadcast_shapes sb gb = Some ob ->
  Forall (fun x => 1 <= x) (nc :: nr :: ob) -> Forall (fun x => 1 <= x) sb ->
  exists out, dsmm_backward stride_dense s g = Ok out /\ tshape out = p :: nc :: ob /\
    forall j c b, j < p -> c < nc -> valid b ob ->
      tat out (j :: c :: b) =
      zsum nr (fun i => (tat (sdense s) (c :: i :: bcast_ix sb b) * tat g (j :: i :: bcast_ix gb b))%Z).
Proof. exact dsmm_backward_sparse_batched_correct. Qed.

(* sparse_getitem (repaired code, proposed_fixes/C20-sparse-getitem-*.diff) = dense basic indexing: every well-formed
   sparse tensor of rank <= 2 (any sizes, duplicate / unordered entries), index tuples of ints in range (negative = from
   the end) and unit-step slices with arbitrary bounds (negative, omitted, over-long, empty, reversed).
   Index tuples are in torch order here; `spec_ix idxs size jx` is the input position that dense indexing reads for the
   output position jx, `spec_size` the result size.  (The loop lemma ProofsGetitem.loop_correct holds for any rank.) *)
Theorem C20_sparse_getitem : forall s idxs,
  swf s = true -> length (sshape s) <= 2 -> length idxs <= length (sshape s) ->
  let size0 := map Z.of_nat (rev (sshape s)) in
  idxs_ok idxs size0 ->
  exists s', sparse_getitem true s idxs = Ok s' /\
    sshape s' = rev (map Z.to_nat (spec_size idxs size0)) /\ swf s' = true /\
    forall jx, valid jx (map Z.to_nat (spec_size idxs size0)) ->
      tat (sdense s') (rev jx) = tat (sdense s) (rev (spec_ix idxs size0 jx)).
Proof. exact sparse_getitem_correct. Qed.

Example C20_sparse_getitem_nonvacuous :
  let s := mkS [3; 2] [([0; 0], 1%Z); ([2; 0], 2%Z); ([1; 1], 3%Z); ([1; 1], 4%Z)] in
  let idxs := [IInt (-1); ISlice (Some (-2)%Z) None None] in
  swf s = true /\ idxs_ok idxs (map Z.of_nat (rev (sshape s))) /\
  spec_size idxs [2; 3]%Z = [2%Z] /\ spec_ix idxs [2; 3]%Z [0] = [1; 1] /\
  match sparse_getitem true s idxs with Ok s' => to_flat (sdense s') = [7; 0]%Z | Err => False end.
Proof.
  cbv zeta. split; [reflexivity|]. split; [simpl; repeat split; try lia; left; reflexivity|].
  split; [reflexivity|]. split; [reflexivity|]. vm_compute. reflexivity.
Qed.

(* KNOWN FINDINGS C20-sparse-getitem-negative-int / -empty-slice: the pinned code returns zeros for S[-1] and fails on
   an empty slice, where dense indexing gives the last row / an empty tensor *)
Theorem C20_sparse_getitem_pinned_refuted :
  let s := mkS [3; 2] [([0; 0], 1%Z); ([2; 0], 2%Z); ([1; 1], 3%Z)] in
  (exists s', sparse_getitem false s [IInt (-1)] = Ok s' /\ to_flat (sdense s') = [0; 0; 0]%Z) /\
  (exists s', sparse_getitem true s [IInt (-1)] = Ok s' /\ to_flat (sdense s') = [0; 3; 0]%Z) /\
  sparse_getitem false s [ISlice (Some 1%Z) (Some 1%Z) None] = Err /\
  sparse_getitem false s [ISlice (Some 2%Z) (Some 1%Z) None] = Err /\
  (exists s', sparse_getitem true s [ISlice (Some 2%Z) (Some 1%Z) None] = Ok s' /\ sshape s' = [3; 0]).
Proof.
  cbv zeta. split; [eexists; split; vm_compute; reflexivity|]. split; [eexists; split; vm_compute; reflexivity|].
  split; [vm_compute; reflexivity|]. split; [vm_compute; reflexivity|]. eexists; split; vm_compute; reflexivity.
Qed.

(* ------------------------------------------------------------------------------------------------------------ *)
(* left_t_interp = W^T x (placed here because it goes through the summing-matrix sparse product bdsmm): entry
   (b, k, j) of the result is  sum_r sum_a [idx_b[r, a] = k] * vals_b[r, a] * rhs_b[r, j]  — duplicate indices sum —
   for all sizes, any number of interpolation coefficients, any batch shapes ib of (idx, vals) and rb of rhs that
   broadcast to bc (all sizes >= 1: the library builds an (empty) sparse tensor otherwise) *)
Theorem C20_left_t_interp_matrix : forall stride idx vals rhs q n ib c rb bc m,
  tshape idx = q :: n :: ib -> tshape vals = q :: n :: ib -> tshape rhs = c :: n :: rb ->
  1 <= q -> 1 <= n -> 1 <= c -> 1 <= m -> 1 <= numel bc ->
  broadcast_shapes ib rb = Some bc ->
  (forall ix, valid ix (q :: n :: ib) -> (0 <= tat idx ix < Z.of_nat m)%Z) ->
  exists out, left_t_interp stride idx vals rhs m = Ok out /\ tshape out = c :: m :: bc /\
    forall j k b, j < c -> k < m -> valid b bc ->
      tat out (j :: k :: b) =
      zsum n (fun r => zsum q (fun a =>
        ((if (idx_at idx (a :: r :: bcast_ix ib b) =? k)%nat then 1 else 0)
         * (tat rhs (j :: r :: bcast_ix rb b) * tat vals (a :: r :: bcast_ix ib b)))%Z)).
Proof. exact left_t_interp_matrix_correct. Qed.

Theorem C20_left_t_interp_vector : forall stride idx vals rhs q n ib m,
  tshape idx = q :: n :: ib -> tshape vals = q :: n :: ib -> tshape rhs = [n] ->
  1 <= q -> 1 <= n -> 1 <= m -> 1 <= numel ib ->
  (forall ix, valid ix (q :: n :: ib) -> (0 <= tat idx ix < Z.of_nat m)%Z) ->
  exists out, left_t_interp stride idx vals rhs m = Ok out /\ tshape out = m :: ib /\
    forall k b, k < m -> valid b ib ->
      tat out (k :: b) =
      zsum n (fun r => zsum q (fun a =>
        ((if (idx_at idx (a :: r :: b) =? k)%nat then 1 else 0) * (tat rhs [r] * tat vals (a :: r :: b)))%Z)).
Proof. exact left_t_interp_vector_correct. Qed.

(* make_sparse_from_indices_and_values denotes the TRANSPOSED interpolation matrix W^T (shape batch x num_rows x
   n_target_points): entry (b, k, t) = sum_a [idx_b[t, a] = k] vals_b[t, a]; zero values are dropped, the all-zero
   special case yields one explicit zero; any batch rank (the per-dimension batch index tensors built by
   arange/repeat/view are the digits of the row-major position) *)
Theorem C20_make_sparse_from_indices_and_values : forall idx vals m nc nt rb,
  tshape idx = nc :: nt :: rb -> tshape vals = nc :: nt :: rb ->
  Forall (fun d => 1 <= d) (nc :: nt :: rb) -> 1 <= m ->
  (forall ix, valid ix (nc :: nt :: rb) -> (0 <= tat idx ix < Z.of_nat m)%Z) ->
  exists s, make_sparse_from_indices_and_values idx vals m = Ok s /\ sshape s = nt :: m :: rb /\ swf s = true /\
    forall t k b, t < nt -> k < m -> valid b rb ->
      tat (sdense s) (t :: k :: b) = zsum nc (fun a => if idx_at idx (a :: t :: b) =? k then tat vals (a :: t :: b) else 0%Z).
Proof. exact make_sparse_correct. Qed.

Theorem C20_broadcast_shapes_comm : forall a b, broadcast_shapes a b = broadcast_shapes b a.
Proof. exact broadcast_shapes_comm. Qed.

(* non-vacuity of the hypotheses of the batched / broadcasting theorems above: concrete instances, evaluated *)
Example C20_bdsmm_sparse_batched_nonvacuous :
  (* sparse (2,1,2,3) [batch (2,1)], dense (3,3,2) [batch (3,)]: both operands are broadcast to batch (2,3) *)
  let s := mkS [3; 2; 1; 2] [([0; 0; 0; 0], 1%Z); ([2; 1; 0; 0], 2%Z); ([1; 0; 0; 1], 3%Z); ([1; 0; 0; 1], 4%Z)] in
  let d := of_flat [2; 3; 3] (map Z.of_nat (seq 1 18)) in
  swf s = true /\ broadcast_shapes [1; 2] [3] = Some [3; 2] /\
  Forall (fun x => 1 <= x) [3; 2; 3; 2] /\ Forall (fun x => 1 <= x) [1; 2] /\
  match bdsmm stride_dense s d, bdsmm stride_pinned s d with
  | Ok o1, Ok o2 => tshape o1 = [2; 2; 3; 2] /\ to_flat o1 = to_flat o2 /\ tat o1 [1; 0; 2; 1] = (7 * 16)%Z
  | _, _ => False end.
Proof.
  cbv zeta. split; [reflexivity|]. split; [reflexivity|]. split; [repeat constructor|]. split; [repeat constructor|].
  vm_compute. repeat split.
Qed.

Example C20_left_t_interp_nonvacuous :
  let idx := of_flat [2; 2; 2] [0; 0; 2; 1; 1; 1; 0; 2]%Z in        (* batch (2,), 2 data points, 2 coefficients, duplicates *)
  let vals := of_flat [2; 2; 2] [1; 2; 3; 0; (-1); 1; 2; 2]%Z in
  let rhs := of_flat [1; 2; 1] [5; 7]%Z in                          (* batch (1,): broadcast *)
  broadcast_shapes [2] [1] = Some [2] /\
  (forall ix, valid ix [2; 2; 2] -> (0 <= tat idx ix < Z.of_nat 3)%Z) /\
  match left_t_interp stride_pinned idx vals rhs 3 with
  | Ok out => tshape out = [1; 3; 2] /\ to_flat out = [15; 0; 21; 14; 0; 14]%Z
  | Err => False end.
Proof.
  cbv zeta. split; [reflexivity|]. split.
  - intros [|a [|r [|b [|? ?]]]]; simpl; try tauto. intros [Ha [Hr [Hb _]]].
    destruct a as [|[|a]]; try lia; destruct r as [|[|r]]; try lia; destruct b as [|[|b]]; try lia; vm_compute; split; congruence.
  - vm_compute. split; reflexivity.
Qed.

(* ------------------------------------------------------------------------------------------------------------ *)
(* linear_operator/utils/qr.py, pinverse.py — the transcription ModelQR.v instantiated on an ARBITRARY real field F
   with an arbitrary threshold thr (the library: 1e-6); `oracle` is torch.linalg.qr (any function: only the stated
   contract is used); a batch is the list of its members; all sizes n, k and all batch lengths *)
From mathcomp Require Import all_ssreflect all_algebra.
Require Import C20.ModelQR C20.ProofsQR.
Import GRing.Theory Num.Theory.
Local Open Scope ring_scope.

(* no |R_ii| < thr anywhere in the batch: (Q, R) of the oracle is returned unchanged (any shapes) *)
Theorem C20_stable_qr_unchanged : forall (F : realFieldType) (thr : F) oracle mats,
  (forall b, (b < size (oracle mats))%N ->
     let R := (nth (dQR F) (oracle mats) b).2 in
     forall i, (i < minn (qnrows R) (qncols R))%N -> ~~ (`|qget (RA thr) R i i| < thr)) ->
  stable_qr (RA thr) oracle mats = Some (oracle mats).
Proof. exact: stable_qr_unchanged. Qed.

(* square R (tall or square input): Q untouched, R' = R + thr * sign(R_ii) on EXACTLY the diagonal entries with
   |R_ii| < thr (sign 0 := 1), member by member although torch.any is global *)
Theorem C20_stable_qr_jitter_exact : forall (F : realFieldType) (thr : F) oracle mats k,
  (forall b, (b < size (oracle mats))%N -> qwf k k (nth (dQR F) (oracle mats) b).2) ->
  exists QR', [/\ stable_qr (RA thr) oracle mats = Some QR', size QR' = size (oracle mats) &
    forall b, (b < size (oracle mats))%N ->
      let Q := (nth (dQR F) (oracle mats) b).1 in let R := (nth (dQR F) (oracle mats) b).2 in
      let Q' := (nth (dQR F) QR' b).1 in let R' := (nth (dQR F) QR' b).2 in
      [/\ Q' = Q, qwf k k R' &
          forall i j, (i < k)%N -> (j < k)%N ->
            qget (RA thr) R' i j = if (i == j) && (`|qget (RA thr) R i i| < thr)
                         then qget (RA thr) R i i + thr * sgn1 (qget (RA thr) R i i) else qget (RA thr) R i j]].
Proof. exact: stable_qr_jitter_exact. Qed.

Theorem C20_stable_qr_member_independent : forall (F : realFieldType) (thr : F) oracle mats k QR' b,
  (forall b, (b < size (oracle mats))%N -> qwf k k (nth (dQR F) (oracle mats) b).2) ->
  stable_qr (RA thr) oracle mats = Some QR' ->
  (b < size (oracle mats))%N ->
  zeroish_free thr k (nth (dQR F) (oracle mats) b).2 ->
  nth (dQR F) QR' b = nth (dQR F) (oracle mats) b.
Proof. exact: stable_qr_member_independent. Qed.

(* thr > 0: every diagonal entry of R' is at least thr in absolute value, and an upper-triangular R' is invertible *)
Theorem C20_stable_qr_diag_bounded : forall (F : realFieldType) (thr : F) oracle mats k QR' b i,
  0 < thr ->
  (forall b, (b < size (oracle mats))%N -> qwf k k (nth (dQR F) (oracle mats) b).2) ->
  stable_qr (RA thr) oracle mats = Some QR' ->
  (b < size (oracle mats))%N -> (i < k)%N ->
  thr <= `|qget (RA thr) (nth (dQR F) QR' b).2 i i|.
Proof. exact: stable_qr_diag_bounded. Qed.

Theorem C20_stable_qr_unit : forall (F : realFieldType) (thr : F) oracle mats k QR' b,
  0 < thr ->
  (forall b, (b < size (oracle mats))%N -> qwf k k (nth (dQR F) (oracle mats) b).2) ->
  stable_qr (RA thr) oracle mats = Some QR' ->
  (b < size (oracle mats))%N ->
  upper_tri thr k (nth (dQR F) (oracle mats) b).2 ->
  upper_tri thr k (nth (dQR F) QR' b).2 /\ mx_of thr k k (nth (dQR F) QR' b).2 \in unitmx.
Proof. exact: stable_qr_unit. Qed.

(* stable_qr called directly on a FAT matrix (R is k x n, k < n): a near-zero diagonal entry makes
   `R + diag_embed(jitter)` (k x n plus k x k) raise for k >= 2, and broadcasts the jitter over the row for k = 1 *)
Theorem C20_stable_qr_fat_raises : forall (F : realFieldType) (thr : F) oracle mats k n b i,
  (1 < k)%N -> (k < n)%N ->
  (forall b, (b < size (oracle mats))%N -> qwf k n (nth (dQR F) (oracle mats) b).2) ->
  (b < size (oracle mats))%N -> (i < k)%N -> `|qget (RA thr) (nth (dQR F) (oracle mats) b).2 i i| < thr ->
  stable_qr (RA thr) oracle mats = None.
Proof. exact: stable_qr_fat_raises. Qed.

Theorem C20_stable_qr_fat_row_broadcast : forall (F : realFieldType) (thr : F) oracle mats n b,
  (1 < n)%N ->
  (forall b, (b < size (oracle mats))%N -> qwf 1 n (nth (dQR F) (oracle mats) b).2) ->
  (b < size (oracle mats))%N -> `|qget (RA thr) (nth (dQR F) (oracle mats) b).2 0 0| < thr ->
  exists QR', [/\ stable_qr (RA thr) oracle mats = Some QR', size QR' = size (oracle mats) &
    forall c, (c < size (oracle mats))%N ->
      let R := (nth (dQR F) (oracle mats) c).2 in let R' := (nth (dQR F) QR' c).2 in
      forall j, (j < n)%N -> qget (RA thr) R' 0 j = qget (RA thr) R 0 j + jit thr (qget (RA thr) R 0 0)].
Proof. exact: stable_qr_fat_row_broadcast. Qed.

(* torch.linalg.solve_triangular(R, B, upper=True) as transcribed (back substitution reading only the upper
   triangle): X = triu(R)^-1 B whenever the diagonal has no zero *)
Theorem C20_solve_triangular_upper : forall (F : realFieldType) (thr : F) n p (R B : qmat F),
  (0 < n)%N -> qwf n n R -> qwf n p B -> (forall i, (i < n)%N -> qget (RA thr) R i i != 0) ->
  exists X, [/\ solve_triangular_upper (RA thr) R B = Some X, qwf n p X &
                mx_of thr n p X = invmx (triu_mx (mx_of thr n n R)) *m mx_of thr n p B].
Proof. exact: solve_triangular_upper_spec. Qed.

(* stable_pinverse, tall / square input (n x k, k <= n), thr > 0: for every batch member P = R'^-1 Q^T with
   R' = R + jitter invertible, whatever near-zero diagonal entries the oracle's R has *)
Theorem C20_stable_pinverse_tall : forall (F : realFieldType) (thr : F) oracle mats n k,
  0 < thr -> (0 < k)%N -> (k <= n)%N -> (0 < size mats)%N ->
  (forall b, (b < size mats)%N -> qwf n k (nth [::] mats b)) ->
  (forall b, (b < size (oracle mats))%N ->
     [/\ qwf n k (nth (dQR F) (oracle mats) b).1, qwf k k (nth (dQR F) (oracle mats) b).2 &
         upper_tri thr k (nth (dQR F) (oracle mats) b).2]) ->
  exists Ps, [/\ stable_pinverse (RA thr) oracle mats = Some Ps, size Ps = size (oracle mats) &
     forall b, (b < size (oracle mats))%N ->
       let Q := mx_of thr n k (nth (dQR F) (oracle mats) b).1 in
       let R' := mx_of thr k k (jittered thr k (nth (dQR F) (oracle mats) b).2) in
       [/\ qwf k n (nth [::] Ps b), R' \in unitmx & mx_of thr k n (nth [::] Ps b) = invmx R' *m Q^T]].
Proof. exact: stable_pinverse_tall. Qed.

(* fat input (k x n, k < n): by transposition *)
Theorem C20_stable_pinverse_fat : forall (F : realFieldType) (thr : F) oracle mats n k,
  0 < thr -> (0 < k)%N -> (k < n)%N -> (0 < size mats)%N ->
  (forall b, (b < size mats)%N -> qwf k n (nth [::] mats b)) ->
  let QR := oracle (List.map (qtranspose (RA thr)) mats) in
  (forall b, (b < size QR)%N ->
     [/\ qwf n k (nth (dQR F) QR b).1, qwf k k (nth (dQR F) QR b).2 & upper_tri thr k (nth (dQR F) QR b).2]) ->
  exists Ps, [/\ stable_pinverse (RA thr) oracle mats = Some Ps, size Ps = size QR &
     forall b, (b < size QR)%N ->
       let Q := mx_of thr n k (nth (dQR F) QR b).1 in let R' := mx_of thr k k (jittered thr k (nth (dQR F) QR b).2) in
       [/\ qwf n k (nth [::] Ps b), R' \in unitmx & mx_of thr n k (nth [::] Ps b) = (invmx R' *m Q^T)^T]].
Proof. exact: stable_pinverse_fat. Qed.

(* the algebra: A = Q R, Q^T Q = 1, R invertible  ==>  P = R^-1 Q^T is a left inverse, A P = Q Q^T, and P satisfies
   all four Moore-Penrose conditions, i.e. P is THE pseudo-inverse of A (any field, all sizes) *)
Theorem C20_pinverse_algebra_tall : forall (F : fieldType) (n k : nat) (A Q : 'M[F]_(n, k)) (R : 'M[F]_k),
  A = Q *m R -> Q^T *m Q = 1%:M -> R \in unitmx ->
  let P := invmx R *m Q^T in
  [/\ P *m A = 1%:M, A *m P = Q *m Q^T &
      [/\ A *m P *m A = A, P *m A *m P = P, (A *m P)^T = A *m P & (P *m A)^T = P *m A]].
Proof.
move=> F n k A Q R hA hQ hR P; split;
  [exact: pinv_left_inverse | exact: pinv_range_projector | exact: pinv_penrose].
Qed.

Theorem C20_pinverse_algebra_fat : forall (F : fieldType) (n k : nat) (A : 'M[F]_(k, n)) (Q : 'M[F]_(n, k)) (R : 'M[F]_k),
  A^T = Q *m R -> Q^T *m Q = 1%:M -> R \in unitmx ->
  let P := (invmx R *m Q^T)^T in
  A *m P = 1%:M /\
  [/\ A *m P *m A = A, P *m A *m P = P, (A *m P)^T = A *m P & (P *m A)^T = P *m A].
Proof.
move=> F n k A Q R hA hQ hR P; split; [exact: pinv_fat_right_inverse | exact: pinv_fat_penrose].
Qed.

(* non-vacuity of the hypotheses of the QR / pseudo-inverse theorems: over EVERY real field and threshold the batch
   consisting of the 2 x 1 matrix (1, 0)^T with the oracle answer Q = (1, 0)^T, R = (1) satisfies them *)
Example C20_stable_pinverse_nonvacuous : forall (F : realFieldType) (thr : F),
  let A : qmat F := [:: [:: 1]; [:: 0]] in
  let oracle : seq (qmat F) -> seq (qmat F * qmat F) := fun _ => [:: ([:: [:: 1]; [:: 0]], [:: [:: 1]])] in
  let mats := [:: A] in
  [/\ (0 < size mats)%N,
      (forall b, (b < size mats)%N -> qwf 2 1 (nth [::] mats b)) &
      (forall b, (b < size (oracle mats))%N ->
         [/\ qwf 2 1 (nth (dQR F) (oracle mats) b).1, qwf 1 1 (nth (dQR F) (oracle mats) b).2 &
             upper_tri thr 1 (nth (dQR F) (oracle mats) b).2])].
Proof.
move=> F thr A oracle mats; split=> //.
- by case.
- by case=> // _; split=> // i j; case: i => // i; rewrite ltnS ltn0.
Qed.
