(* C20 — placeholder, filled below *)
From Coq Require Import List ZArith Bool.
Require Import C20.Model.
