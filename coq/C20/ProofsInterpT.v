(* C20 — linear_operator/utils/interpolation.py: left_t_interp = W^T x through the summing-matrix sparse product *)
From Coq Require Import List ZArith Bool Arith Lia.
Import ListNotations.
Require Import C20.Model C20.ProofsBase C20.ProofsSparse C20.ProofsRepeat C20.ProofsBdsmm C20.ProofsPerm.

Lemma sval_map_seq (g : nat -> list nat * Z) N ix :
  sval (map g (seq 0 N)) ix = zsum N (fun p => if list_nat_eqb (fst (g p)) ix then snd (g p) else 0%Z).
Proof.
  induction N as [|N IH]; [reflexivity|]. rewrite seq_S, map_app, sval_app, IH. cbn [map plus].
  rewrite sval_cons, sval_nil. cbn [zsum]. ring.
Qed.

Lemma mod_block J K beta : J < K -> (J + K * beta) mod K = J.
Proof. intros H. replace (K * beta) with (beta * K) by lia. rewrite Nat.mod_add by lia. apply Nat.mod_small. lia. Qed.
Lemma div_block J K beta : J < K -> (J + K * beta) / K = beta.
Proof. intros H. replace (K * beta) with (beta * K) by lia. rewrite Nat.div_add by lia. rewrite Nat.div_small by lia. lia. Qed.

(* the summing matrix of left_t_interp: entry p = (batch p / K, row f p, column p mod K), value 1 *)
Lemma summing_matrix_value K B (f : nat -> nat) J k beta : J < K -> beta < B ->
  sval (map (fun p => ([p mod K; f p; p / K], 1%Z)) (seq 0 (B * K))) [J; k; beta] =
  if f (J + K * beta) =? k then 1%Z else 0%Z.
Proof.
  intros HJ Hb. rewrite sval_map_seq. cbn [fst snd].
  assert (Hp0 : J + K * beta < B * K) by (replace (J + K * beta) with (J + beta * K) by lia; apply block_lt; auto).
  rewrite (zsum_single (B * K) _ (J + K * beta) Hp0).
  - cbn [list_nat_eqb].
    rewrite mod_block, div_block by lia.
    rewrite !Nat.eqb_refl. cbn [andb]. rewrite andb_true_r. reflexivity.
  - intros p Hp Hne. cbn [list_nat_eqb].
    destruct (Nat.eqb_spec (p mod K) J) as [E1|]; [|reflexivity].
    destruct (Nat.eqb_spec (p / K) beta) as [E2|]; [|rewrite andb_false_r; reflexivity].
    exfalso. apply Hne. rewrite (Nat.div_mod p K) by lia. rewrite E1, E2. lia.
Qed.

Lemma broadcast_shapes_comm a b : broadcast_shapes a b = broadcast_shapes b a.
Proof.
  revert b; induction a as [|x a IH]; intros [|y b]; try reflexivity.
  cbn [broadcast_shapes]. rewrite (IH b). destruct (broadcast_shapes b a); [|reflexivity].
  destruct (Nat.eqb_spec x y) as [->|]; [rewrite Nat.eqb_refl; reflexivity|].
  destruct (Nat.eqb_spec y x); [congruence|].
  destruct (Nat.eqb_spec x 1) as [->|]; destruct (Nat.eqb_spec y 1) as [->|]; try reflexivity; congruence.
Qed.

Lemma bs_same_head n A B r : broadcast_shapes A B = Some r -> broadcast_shapes (n :: A) (n :: B) = Some (n :: r).
Proof. intros E. cbn [broadcast_shapes]. rewrite E, Nat.eqb_refl. reflexivity. Qed.

(* left_t_interp, matrix right-hand side: W^T x with W[r, k] = sum_a [idx[r, a] = k] vals[r, a] *)
Lemma left_t_interp_matrix_correct stride idx vals rhs q n ib c rb bc m :
  tshape idx = q :: n :: ib -> tshape vals = q :: n :: ib -> tshape rhs = c :: n :: rb ->
  1 <= q -> 1 <= n -> 1 <= c -> 1 <= m -> 1 <= numel bc ->
  broadcast_shapes ib rb = Some bc ->
  (forall ix, valid ix (q :: n :: ib) -> (0 <= tat idx ix < Z.of_nat m)%Z) ->
  exists out, left_t_interp stride idx vals rhs m = Ok out /\ tshape out = c :: m :: bc /\
    forall j k b, j < c -> k < m -> valid b bc ->
      tat out (j :: k :: b) =
      zsum n (fun r => zsum q (fun a =>
        ((if (idx_at idx (a :: r :: bcast_ix ib b) =? k)%nat then 1 else 0)
         * (tat rhs (j :: r :: bcast_ix rb b) * tat vals (a :: r :: bcast_ix ib b)))%Z)).
Proof.
  intros Hi Hv Hr Hq Hn Hc Hm HB Hb Hrange.
  assert (Hb' : broadcast_shapes rb ib = Some bc) by (rewrite broadcast_shapes_comm; exact Hb).
  unfold left_t_interp, ndim. rewrite Hr, Hi, Hv.
  replace (length (c :: n :: rb) =? 1) with false by reflexivity. cbv iota. rewrite Hr.
  rewrite (bs_dim_one c (1 :: n :: rb) (q :: n :: ib) (q :: n :: bc))
    by (apply bs_one_dim; apply bs_same_head; exact Hb').
  unfold matmul_broadcast_shape. rewrite Nat.eqb_refl, Hb. cbn [bind].
  change (skipn 2 (c :: m :: bc)) with bc.
  destruct (broadcast_shapes_expandable _ _ _ Hb) as [Ei Er].
  cbn [expandable]. rewrite !Nat.eqb_refl, Ei. cbn [orb andb negb].
  set (B := numel bc) in *. set (K := n * q).
  assert (HK : 1 <= K) by (unfold K; nia).
  cbn [tshape expand numel]. fold B.
  replace (q * (n * B) =? B * K) with true by (symmetry; apply Nat.eqb_eq; unfold K; ring).
  replace (c * (q * (n * B)) =? B * K * c) with true by (symmetry; apply Nat.eqb_eq; unfold K; ring).
  cbn [negb].
  set (idx' := expand idx (q :: n :: bc)).
  set (F := fun p => idx_at (reshape idx' [B * K]) [p]).
  assert (HNK : numel (q :: n :: bc) = B * K) by (cbn [numel]; fold B; unfold K; ring).
  assert (HF : forall p, p < B * K -> F p = idx_at idx (bcast_ix (q :: n :: ib) (unravel (q :: n :: bc) p)) /\ F p < m).
  { intros p Hp. unfold F, reshape, idx_at. cbn [tat tshape]. unfold idx', expand. cbn [tat tshape]. rewrite Hi.
    cbn [ravel]. rewrite Nat.mul_0_r, Nat.add_0_r. split; [reflexivity|].
    assert (Hvp : valid (unravel (q :: n :: bc) p) (q :: n :: bc)) by (apply unravel_valid; rewrite HNK; exact Hp).
    assert (Hvb : valid (bcast_ix (q :: n :: ib) (unravel (q :: n :: bc) p)) (q :: n :: ib)).
    { apply (bcast_ix_valid _ (q :: n :: bc)); [|exact Hvp]. cbn [expandable]. rewrite !Nat.eqb_refl, Ei. reflexivity. }
    specialize (Hrange _ Hvb). lia. }
  set (ents := map (fun p => ([p mod K; F p; p / K], 1%Z)) (seq 0 (B * K))).
  assert (Hwf : swf (mkS [K; m; B] ents) = true).
  { apply swf_spec. cbn [sent sshape]. intros e Hin. unfold ents in Hin. apply in_map_iff in Hin.
    destruct Hin as [p [<- Hp]]. apply in_seq in Hp. cbn [fst valid]. repeat split.
    - apply Nat.mod_upper_bound. lia.
    - apply HF. lia.
    - apply Nat.div_lt_upper_bound; lia. }
  change (map (fun p => ([p mod K; idx_at (reshape idx' [B * K]) [p]; p / K], 1%Z)) (seq 0 (B * K))) with ents.
  unfold mk_sparse. rewrite Hwf. cbn [bind].
  set (values := tmul (expand (unsqueeze1 rhs) (c :: q :: n :: bc)) (expand (unsqueeze0 vals) (c :: q :: n :: bc))).
  set (V := reshape values [c; K; B]).
  destruct (bdsmm_sparse_batched_correct stride (mkS [K; m; B] ents) V K m B [] c [B]) as [res [Eres [Hsres Hvres]]];
    try reflexivity; try exact Hwf.
  { repeat constructor; lia. }
  { apply broadcast_shapes_refl. }
  rewrite Eres. cbn [bind]. unfold dim0, dim1. rewrite Hsres. cbn [nth].
  eexists. split; [reflexivity|]. split; [reflexivity|].
  intros j k b Hj Hk Hvb.
  pose proof (ravel_lt _ _ Hvb) as Hbeta. fold B in Hbeta. set (beta := ravel bc b) in *.
  unfold reshape at 1. cbn [tat tshape]. rewrite Hsres.
  rewrite (unravel_of_ravel [c; m; B] _ [j; k; beta]).
  2:{ rewrite !ravel_cons, ravel_nil. fold beta. ring. }
  2:{ simpl. lia. }
  rewrite Hvres by (simpl; auto; lia).
  unfold K at 1. rewrite zsum_prod. apply zsum_ext. intros r Hr'. apply zsum_ext. intros a Ha.
  assert (HJ : a + q * r < K) by (replace (a + q * r) with (a + r * q) by lia; apply block_lt; auto).
  assert (Hix : valid (a :: r :: b) (q :: n :: bc)) by (simpl; auto).
  assert (Hrav : ravel (q :: n :: bc) (a :: r :: b) = (a + q * r) + K * beta).
  { rewrite !ravel_cons. fold beta. unfold K. ring. }
  f_equal.
  - rewrite sdense_at. cbn [sent]. unfold ents. rewrite summing_matrix_value by auto.
    destruct (HF ((a + q * r) + K * beta)) as [EF _].
    { rewrite <- Hrav. rewrite <- HNK. apply ravel_lt. exact Hix. }
    rewrite EF, <- Hrav, unravel_ravel by exact Hix. cbn [bcast_ix].
    replace (if q =? 1 then 0 else a) with a by (destruct (Nat.eqb_spec q 1); lia).
    replace (if n =? 1 then 0 else r) with r by (destruct (Nat.eqb_spec n 1); lia). reflexivity.
  - replace (bcast_ix [B] [beta]) with [beta] by (cbn [bcast_ix]; destruct (Nat.eqb_spec B 1); [f_equal; lia|reflexivity]).
    unfold V, reshape. cbn [tat tshape].
    rewrite (unravel_of_ravel (c :: q :: n :: bc) _ (j :: a :: r :: b)).
    + unfold values, tmul, tmap2, expand, unsqueeze1, unsqueeze0. cbn [tat tshape]. rewrite Hr, Hv. cbn [bcast_ix tl].
      replace (if c =? 1 then 0 else j) with j by (destruct (Nat.eqb_spec c 1); lia).
      replace (if q =? 1 then 0 else a) with a by (destruct (Nat.eqb_spec q 1); lia).
      replace (if n =? 1 then 0 else r) with r by (destruct (Nat.eqb_spec n 1); lia). reflexivity.
    + rewrite !ravel_cons, ravel_nil. fold beta. unfold K. ring.
    + simpl. simpl in Hix. tauto.
Qed.



(* left_t_interp, vector right-hand side *)
Lemma left_t_interp_vector_correct stride idx vals rhs q n ib m :
  tshape idx = q :: n :: ib -> tshape vals = q :: n :: ib -> tshape rhs = [n] ->
  1 <= q -> 1 <= n -> 1 <= m -> 1 <= numel ib ->
  (forall ix, valid ix (q :: n :: ib) -> (0 <= tat idx ix < Z.of_nat m)%Z) ->
  exists out, left_t_interp stride idx vals rhs m = Ok out /\ tshape out = m :: ib /\
    forall k b, k < m -> valid b ib ->
      tat out (k :: b) =
      zsum n (fun r => zsum q (fun a =>
        ((if (idx_at idx (a :: r :: b) =? k)%nat then 1 else 0) * (tat rhs [r] * tat vals (a :: r :: b)))%Z)).
Proof.
  intros Hi Hv Hr Hq Hn Hm HB Hrange.
  destruct (left_t_interp_matrix_correct stride idx vals (unsqueeze0 rhs) q n ib 1 [] ib m) as [out [E [Hs Hval]]]; auto.
  - unfold unsqueeze0. cbn [tshape]. rewrite Hr. reflexivity.
  - apply broadcast_shapes_nil_r.
  - assert (G : forall stride idx vals rhs m, ndim rhs = 1 ->
       left_t_interp stride idx vals rhs m =
       match left_t_interp stride idx vals (unsqueeze0 rhs) m with Ok res => Ok (squeeze0 res) | Err => Err end).
    { clear. intros stride idx vals rhs m H1. unfold left_t_interp. rewrite H1. cbn [Nat.eqb].
      replace (ndim (unsqueeze0 rhs) =? 1) with false by (unfold ndim, unsqueeze0 in *; cbn [tshape length]; rewrite H1; reflexivity).
      cbv iota.
      destruct (tshape vals) as [|? [|? ?]]; try reflexivity.
      destruct (tshape (unsqueeze0 rhs)) as [|? [|? ?]]; try reflexivity.
      destruct (tshape idx) as [|? [|? ?]]; try reflexivity.
      destruct (broadcast_shapes _ _); [|reflexivity].
      destruct (matmul_broadcast_shape _ _); [|reflexivity]. cbn [bind].
      destruct (negb _); [reflexivity|]. destruct (negb _); [reflexivity|].
      destruct (mk_sparse _ _); [|reflexivity]. cbn [bind].
      destruct (negb _); [reflexivity|]. destruct (bdsmm _ _ _); reflexivity. }
    rewrite G by (unfold ndim; rewrite Hr; reflexivity). rewrite E.
    eexists. split; [reflexivity|]. split; [unfold squeeze0; cbn [tshape]; rewrite Hs; reflexivity|].
    intros k b Hk Hvb. unfold squeeze0. cbn [tat]. rewrite Hval by (auto; lia).
    apply zsum_ext. intros r _. apply zsum_ext. intros a _.
    rewrite (bcast_ix_same ib b Hvb). reflexivity.
Qed.
