(* C20 — linear_operator/utils/toeplitz.py: sym_toeplitz_derivative_quadratic_form *)
From Coq Require Import List ZArith Bool Arith Lia.
Import ListNotations.
Require Import C20.Model C20.ProofsBase C20.ProofsToeplitz C20.ProofsBdsmm.

(* ---- reindexing finite sums ---- *)
Lemma zsum_shift m i (g : nat -> Z) : i <= m ->
  zsum m (fun k => if i <=? k then g k else 0%Z) = zsum (m - i) (fun a => g (a + i)).
Proof.
  intros Hi. replace m with (i + (m - i)) at 1 by lia. rewrite zsum_app.
  rewrite (zsum_zero i) by (intros k Hk; destruct (Nat.leb_spec i k); [lia|reflexivity]).
  rewrite Z.add_0_l. apply zsum_ext. intros a Ha.
  destruct (Nat.leb_spec i (i + a)); [|lia]. f_equal. lia.
Qed.

Lemma zsum_S n (f : nat -> Z) : zsum (S n) f = (zsum n f + f n)%Z.
Proof. reflexivity. Qed.

Lemma zsum_S_front m (g : nat -> Z) : zsum (S m) g = (g 0%nat + zsum m (fun a => g (S a)))%Z.
Proof.
  induction m as [|m IHm]; [simpl; ring|]. rewrite (zsum_S (S m) g), IHm, (zsum_S m (fun a => g (S a))). ring.
Qed.

Lemma zsum_rev n (f : nat -> Z) : zsum n f = zsum n (fun a => f (n - 1 - a)).
Proof.
  induction n as [|n IH]; [reflexivity|].
  rewrite (zsum_S n f), IH, (zsum_S_front n (fun a => f (S n - 1 - a))).
  replace (S n - 1 - 0) with n by lia.
  rewrite Z.add_comm. f_equal. apply zsum_ext. intros a Ha. f_equal. lia.
Qed.

Definition UV (left right : tensor) (b : list nat) (s' i k : nat) : Z :=
  (tat left (s' :: i :: b) * tat right (s' :: k :: b))%Z.

Lemma dqf_matrix_correct left right s m batch :
  tshape left = s :: m :: batch -> tshape right = s :: m :: batch -> 1 <= m ->
  exists out, sym_toeplitz_derivative_quadratic_form left right = Ok out /\ tshape out = m :: batch /\
    forall d b, d < m -> valid b batch ->
      tat out (d :: b) =
      (zsum s (fun s' => zsum (m - d)%nat (fun a => UV left right b s' a (a + d)%nat) + zsum (m - d)%nat (fun a => UV left right b s' (a + d)%nat a))
       - (if (d =? 0)%nat then zsum s (fun s' => zsum m (fun i => UV left right b s' i i)) else 0))%Z.
Proof.
  intros Hl Hr Hm. unfold sym_toeplitz_derivative_quadratic_form, ndim. rewrite Hl, Hr, list_nat_eqb_refl.
  cbn [negb length Nat.eqb]. unfold dim0, dim1. rewrite Hl. cbn [nth skipn].
  set (L := mT left). set (R := mT right).
  assert (HL : tshape L = m :: s :: batch) by (unfold L, mT; cbn [tshape]; rewrite Hl; reflexivity).
  assert (HR : tshape R = m :: s :: batch) by (unfold R, mT; cbn [tshape]; rewrite Hr; reflexivity).
  set (C1 := set_select0 (zeros (tshape L)) 0 (select0 L 0)).
  destruct (toeplitz_matmul_matrix_correct false C1 L (unsqueeze0 R) m 1 (s :: batch) (s :: batch) (s :: batch) Hm)
    as [res1 [E1 [Hs1 Hv1]]].
  { unfold C1, set_select0, zeros. cbn [tshape]. exact HL. }
  { exact HL. }
  { unfold unsqueeze0. cbn [tshape]. rewrite HR. reflexivity. }
  { apply broadcast_shapes_refl. }
  { intros b Hb. unfold C1, set_select0, select0. cbn [tat]. reflexivity. }
  rewrite E1. cbn [bind].
  set (rows := flip0 L).
  set (C2 := set_select0 C1 0 (select0 rows 0)).
  destruct (toeplitz_matmul_matrix_correct false C2 rows (unsqueeze0 (flip0 R)) m 1 (s :: batch) (s :: batch) (s :: batch) Hm)
    as [res2 [E2 [Hs2 Hv2]]].
  { unfold C2, C1, set_select0, zeros. cbn [tshape]. exact HL. }
  { unfold rows, flip0. cbn [tshape]. exact HL. }
  { unfold unsqueeze0, flip0. cbn [tshape]. rewrite HR. reflexivity. }
  { apply broadcast_shapes_refl. }
  { intros b Hb. unfold C2, set_select0, select0. cbn [tat]. reflexivity. }
  rewrite E2. cbn [bind].
  eexists. split; [reflexivity|]. split.
  { unfold sub_select0, sum1, reshape. cbn [tshape]. reflexivity. }
  intros d b Hd Hb.
  assert (HX : forall s', s' < s ->
     tat (reshape (tadd res1 res2) (m :: s :: batch)) (d :: s' :: b) =
     (zsum (m - d) (fun a => UV left right b s' a (a + d)) + zsum (m - d) (fun a => UV left right b s' (a + d) a))%Z).
  { intros s' Hs'. unfold reshape, tadd, tmap2. cbn [tat tshape]. rewrite Hs1.
    rewrite (unravel_of_ravel (1 :: m :: s :: batch) _ (0 :: d :: s' :: b)).
    2:{ rewrite !ravel_cons. ring. }
    2:{ simpl. repeat split; auto. }
    assert (Hvb : valid (s' :: b) (s :: batch)) by (simpl; auto).
    rewrite Hv1, Hv2 by (auto; lia). rewrite (bcast_ix_same (s :: batch) (s' :: b) Hvb). f_equal.
    - transitivity (zsum m (fun k => if d <=? k then UV left right b s' (k - d) k else 0%Z)).
      + apply zsum_ext. intros k Hk. unfold Tspec, UV, C1, set_select0, select0, zeros, unsqueeze0, L, R, mT. cbn [tat tl].
        destruct (Nat.leb_spec k d); destruct (Nat.leb_spec d k); try lia.
        * assert (k = d) by lia. subst k. rewrite Nat.sub_diag. cbn [Nat.eqb]. reflexivity.
        * destruct (Nat.eqb_spec (d - k) 0); [lia|]. ring.
      + rewrite zsum_shift by lia. apply zsum_ext. intros a Ha. replace (a + d - d) with a by lia. reflexivity.
    - transitivity (zsum m (fun k => if d <=? k then UV left right b s' (m - 1 - (k - d)) (m - 1 - k) else 0%Z)).
      + apply zsum_ext. intros k Hk.
        unfold Tspec, UV, C2, C1, rows, set_select0, select0, zeros, unsqueeze0, flip0, L, R, mT, dim0. cbn [tat tl tshape].
        rewrite Hl, Hr. cbn [nth].
        destruct (Nat.leb_spec k d); destruct (Nat.leb_spec d k); try lia.
        * assert (k = d) by lia. subst k. rewrite Nat.sub_diag. cbn [Nat.eqb]. rewrite Nat.sub_0_r. reflexivity.
        * destruct (Nat.eqb_spec (d - k) 0); [lia|]. ring.
      + rewrite zsum_shift by lia. rewrite (zsum_rev (m - d)). apply zsum_ext. intros a Ha.
        replace (m - 1 - (m - d - 1 - a + d - d)) with (a + d) by lia. replace (m - 1 - (m - d - 1 - a + d)) with a by lia. reflexivity. }
  assert (Hsum : tat (sum1 (reshape (tadd res1 res2) (m :: s :: batch))) (d :: b) =
     zsum s (fun s' => (zsum (m - d) (fun a => UV left right b s' a (a + d)) + zsum (m - d) (fun a => UV left right b s' (a + d) a))%Z)).
  { unfold sum1 at 1. cbn [tat]. unfold dim1, reshape at 1. cbn [tshape nth]. apply zsum_ext. intros s' Hs'. apply HX. exact Hs'. }
  assert (Hcorr : tat (sum0 (reshape (tmul L R) (s * m :: batch))) b =
     zsum s (fun s' => zsum m (fun i => UV left right b s' i i))).
  { unfold sum0 at 1. cbn [tat]. unfold dim0, reshape at 1. cbn [tshape nth]. rewrite zsum_prod.
    apply zsum_ext. intros s' Hs'. apply zsum_ext. intros i Hi.
    unfold reshape, tmul, tmap2. cbn [tat tshape]. rewrite HL.
    rewrite (unravel_of_ravel (m :: s :: batch) _ (i :: s' :: b)).
    - unfold UV, L, R, mT. cbn [tat]. reflexivity.
    - rewrite !ravel_cons. ring.
    - simpl. auto. }
  unfold sub_select0. cbn [tat]. rewrite Hsum, Hcorr.
  destruct (Nat.eqb_spec d 0); [reflexivity|ring].
Qed.

(* the statement in the docstring's form: entry d is  sum_j u_j^T (dT/dc_d) v_j  with dT/dc_d the matrix with ones on the
   d-th sub- and super-diagonal (d = 0: the identity) *)
Lemma dqf_matrix_correct' left right s m batch :
  tshape left = s :: m :: batch -> tshape right = s :: m :: batch -> 1 <= m ->
  exists out, sym_toeplitz_derivative_quadratic_form left right = Ok out /\ tshape out = m :: batch /\
    forall d b, d < m -> valid b batch ->
      tat out (d :: b) =
      zsum s (fun s' => if d =? 0 then zsum m (fun i => UV left right b s' i i)
                        else (zsum (m - d) (fun a => UV left right b s' a (a + d)) + zsum (m - d) (fun a => UV left right b s' (a + d) a))%Z).
Proof.
  intros Hl Hr Hm. destruct (dqf_matrix_correct left right s m batch Hl Hr Hm) as [out [E [Hs Hv]]].
  exists out. split; [exact E|]. split; [exact Hs|]. intros d b Hd Hb. rewrite Hv by auto.
  destruct (Nat.eqb_spec d 0) as [->|Hne]; [|ring].
  rewrite Nat.sub_0_r.
  rewrite (zsum_ext s _ (fun s' => (zsum m (fun i => UV left right b s' i i) + zsum m (fun i => UV left right b s' i i))%Z)).
  - rewrite zsum_add. ring.
  - intros s' _. f_equal; apply zsum_ext; intros a _; rewrite Nat.add_0_r; reflexivity.
Qed.

Lemma dqf_vector_unfold left right m :
  tshape left = [m] -> tshape right = [m] ->
  sym_toeplitz_derivative_quadratic_form left right =
  sym_toeplitz_derivative_quadratic_form (unsqueeze0 left) (unsqueeze0 right).
Proof.
  intros Hl Hr. unfold sym_toeplitz_derivative_quadratic_form, ndim. cbn [unsqueeze0 tshape]. rewrite Hl, Hr.
  cbn [list_nat_eqb length Nat.eqb negb andb]. rewrite !Nat.eqb_refl. cbn [andb negb]. reflexivity.
Qed.

Lemma dqf_vector_correct left right m :
  tshape left = [m] -> tshape right = [m] -> 1 <= m ->
  exists out, sym_toeplitz_derivative_quadratic_form left right = Ok out /\ tshape out = [m] /\
    forall d, d < m ->
      tat out [d] =
      if d =? 0 then zsum m (fun i => (tat left [i] * tat right [i])%Z)
      else (zsum (m - d) (fun a => (tat left [a] * tat right [(a + d)%nat])%Z) + zsum (m - d) (fun a => (tat left [(a + d)%nat] * tat right [a])%Z))%Z.
Proof.
  intros Hl Hr Hm. rewrite (dqf_vector_unfold left right m Hl Hr).
  destruct (dqf_matrix_correct' (unsqueeze0 left) (unsqueeze0 right) 1 m []) as [out [E [Hs Hv]]]; auto.
  - unfold unsqueeze0. cbn [tshape]. rewrite Hl. reflexivity.
  - unfold unsqueeze0. cbn [tshape]. rewrite Hr. reflexivity.
  - exists out. split; [exact E|]. split; [exact Hs|]. intros d Hd. rewrite (Hv d [] Hd I).
    cbn [zsum]. rewrite Z.add_0_l. unfold UV, unsqueeze0. cbn [tat tl]. reflexivity.
Qed.
