(* C20 — linear_operator/utils/sparse.py: sparse_getitem (repaired code) = dense basic indexing with ints and
   unit-step slices.  The loop is proved correct for tensors of ANY rank (the library restricts to rank <= 2). *)
From Coq Require Import List ZArith Bool Arith Lia.
Import ListNotations.
Require Import C20.Model C20.ProofsBase C20.ProofsSparse C20.ProofsRepeat.

(* ---- list surgery ---- *)
Definition ins {A} (i : nat) (v : A) (l : list A) : list A := firstn i l ++ v :: skipn i l.

Lemma del_nth_cons {A} (x : A) l i : del_nth (S i) (x :: l) = x :: del_nth i l.
Proof. reflexivity. Qed.
Lemma ins_cons {A} (x v : A) l i : ins (S i) v (x :: l) = x :: ins i v l.
Proof. reflexivity. Qed.
Lemma length_del_nth {A} (l : list A) i : i < length l -> length (del_nth i l) = length l - 1.
Proof. intros H. unfold del_nth. rewrite app_length, firstn_length, skipn_length. lia. Qed.
Lemma length_ins {A} (l : list A) i v : i <= length l -> length (ins i v l) = S (length l).
Proof.
  intros H. unfold ins. rewrite app_length. simpl. rewrite firstn_length, skipn_length. lia.
Qed.
Lemma ins_app_len {A} (pre l : list A) v : ins (length pre) v (pre ++ l) = (pre ++ [v]) ++ l.
Proof.
  unfold ins. rewrite firstn_app, Nat.sub_diag, firstn_all. simpl. rewrite app_nil_r.
  rewrite skipn_app, Nat.sub_diag, skipn_all. simpl. rewrite <- app_assoc. reflexivity.
Qed.
Lemma upd_nth_app_len {A} (pre l : list A) x v : upd_nth (length pre) v (pre ++ x :: l) = (pre ++ [v]) ++ l.
Proof. induction pre; simpl; [reflexivity|]. rewrite IHpre. reflexivity. Qed.
Lemma nth_app_len {A} (pre l : list A) x d : nth (length pre) (pre ++ x :: l) d = x.
Proof. induction pre; simpl; auto. Qed.

Lemma eqb_nth a b i : list_nat_eqb a b = true -> nth i a 0 = nth i b 0.
Proof. intros H. apply list_nat_eqb_eq in H. subst. reflexivity. Qed.

Lemma eqb_del_ins e jx i v : length e = S (length jx) -> i <= length jx ->
  list_nat_eqb (del_nth i e) jx && (nth i e 0 =? v) = list_nat_eqb e (ins i v jx).
Proof.
  revert e jx; induction i as [|i IH]; intros e jx Hl Hi.
  - destruct e as [|x e]; [discriminate|]. unfold del_nth, ins. simpl. apply andb_comm.
  - destruct e as [|x e]; [discriminate|]. destruct jx as [|y jx]; [simpl in Hi; lia|].
    rewrite del_nth_cons, ins_cons. cbn [list_nat_eqb nth].
    rewrite <- IH by (simpl in *; lia). rewrite andb_assoc. reflexivity.
Qed.

Lemma eqb_upd_sub e jx i a : length e = length jx -> i < length e -> a <= nth i e 0 ->
  list_nat_eqb (upd_nth i (nth i e 0 - a) e) jx = list_nat_eqb e (upd_nth i (a + nth i jx 0) jx).
Proof.
  revert jx i; induction e as [|x e IH]; intros [|y jx] [|i]; simpl; try lia; try discriminate.
  - intros _ _ Ha. destruct (Nat.eqb_spec (x - a) y); destruct (Nat.eqb_spec x (a + y)); try lia; reflexivity.
  - intros Hl Hi Ha. rewrite IH by lia. reflexivity.
Qed.

(* ---- the two kinds of steps, as operations on entry lists (index tuples in TORCH order) ---- *)
Definition zero_entry (k : nat) : list (list nat * Z) := [(repeat 0 k, 0%Z)].

Lemma sval_zero_entry k jx : sval (zero_entry k) jx = 0%Z.
Proof. unfold zero_entry. rewrite sval_cons, sval_nil. cbn [snd]. destruct (list_nat_eqb _ _); reflexivity. Qed.

Lemma or_zero_entry (hit : list (list nat * Z)) k (f : list (list nat * Z) -> list (list nat * Z)) jx :
  f [] = [] ->
  sval (match hit with [] => zero_entry k | _ :: _ => f hit end) jx = sval (f hit) jx.
Proof. intros Hf. destruct hit; [rewrite Hf, sval_zero_entry; reflexivity|reflexivity]. Qed.

Lemma step_int_value ents i v jx :
  (forall e, In e ents -> length (fst e) = S (length jx)) -> i <= length jx ->
  sval (map (fun e => (del_nth i (fst e), snd e)) (filter (fun e => Z.eqb (Z.of_nat (nth i (fst e) 0)) (Z.of_nat v)) ents)) jx
  = sval ents (ins i v jx).
Proof.
  intros Hl Hi. induction ents as [|e ents IH]; [reflexivity|].
  cbn [filter]. rewrite sval_cons. rewrite <- eqb_del_ins by (auto; apply Hl; simpl; auto).
  rewrite <- IH by (intros; apply Hl; simpl; auto).
  replace (Z.eqb (Z.of_nat (nth i (fst e) 0)) (Z.of_nat v)) with (Nat.eqb (nth i (fst e) 0) v)
    by (destruct (Nat.eqb_spec (nth i (fst e) 0) v) as [->|]; [symmetry; apply Z.eqb_refl|symmetry; apply Z.eqb_neq; lia]).
  destruct (nth i (fst e) 0 =? v).
  - cbn [map]. rewrite sval_cons. cbn [fst snd]. rewrite andb_true_r. reflexivity.
  - rewrite andb_false_r. ring.
Qed.

Lemma step_slice_value ents i a b jx :
  (forall e, In e ents -> length (fst e) = length jx) -> i < length jx -> a + nth i jx 0 < b ->
  sval (map (fun e => (upd_nth i (nth i (fst e) 0 - a) (fst e), snd e))
            (filter (fun e => let v := Z.of_nat (nth i (fst e) 0) in (v <? Z.of_nat b)%Z && (Z.of_nat a <=? v)%Z) ents)) jx
  = sval ents (upd_nth i (a + nth i jx 0) jx).
Proof.
  intros Hl Hi Hb. induction ents as [|e ents IH]; [reflexivity|].
  cbn [filter]. rewrite sval_cons. rewrite <- IH by (intros; apply Hl; simpl; auto). cbv zeta.
  destruct (Z.ltb_spec (Z.of_nat (nth i (fst e) 0)) (Z.of_nat b)); destruct (Z.leb_spec (Z.of_nat a) (Z.of_nat (nth i (fst e) 0)));
    cbn [andb].
  - cbn [map]. rewrite sval_cons. cbn [fst snd].
    rewrite eqb_upd_sub by (rewrite ?(Hl e) by (simpl; auto); auto; lia). reflexivity.
  - destruct (list_nat_eqb (fst e) (upd_nth i (a + nth i jx 0) jx)) eqn:E; [|ring].
    apply (eqb_nth _ _ i) in E. rewrite nth_upd_nth, Nat.eqb_refl in E.
    replace (i <? length jx) with true in E by (symmetry; apply Nat.ltb_lt; lia). cbn [andb] in E. lia.
  - destruct (list_nat_eqb (fst e) (upd_nth i (a + nth i jx 0) jx)) eqn:E; [|ring].
    apply (eqb_nth _ _ i) in E. rewrite nth_upd_nth, Nat.eqb_refl in E.
    replace (i <? length jx) with true in E by (symmetry; apply Nat.ltb_lt; lia). cbn [andb] in E. lia.
  - lia.
Qed.

(* ---- the dense definition of basic indexing (torch order): out[jx] = in[spec_ix idxs size jx] ---- *)
Definition norm_int (k n : Z) : Z := if (k <? 0)%Z then (k + n)%Z else k.

Fixpoint spec_size (idxs : list index) (size : list Z) : list Z :=
  match idxs, size with
  | IInt _ :: rest, _ :: size' => spec_size rest size'
  | ISlice a b _ :: rest, n :: size' =>
      (Z.max (snd (slice_indices a b n)) (fst (slice_indices a b n)) - fst (slice_indices a b n))%Z :: spec_size rest size'
  | _, _ => size
  end.
Fixpoint spec_ix (idxs : list index) (size : list Z) (jx : list nat) : list nat :=
  match idxs, size with
  | IInt k :: rest, n :: size' => Z.to_nat (norm_int k n) :: spec_ix rest size' jx
  | ISlice a b _ :: rest, n :: size' =>
      match jx with
      | j :: jx' => (Z.to_nat (fst (slice_indices a b n)) + j) :: spec_ix rest size' jx'
      | [] => []
      end
  | _, _ => jx
  end.
(* ints in range (negative ones count from the end), slices with step None or 1 *)
Fixpoint idxs_ok (idxs : list index) (size : list Z) : Prop :=
  match idxs, size with
  | [], _ => True
  | IInt k :: rest, n :: size' => (- n <= k < n)%Z /\ idxs_ok rest size'
  | ISlice _ _ st :: rest, _ :: size' => (st = None \/ st = Some 1%Z) /\ idxs_ok rest size'
  | _ :: _, [] => False
  end.

Definition st_ok (size : list Z) (ents : list (list nat * Z)) : Prop :=
  Forall (fun d => 0 <= d)%Z size /\
  (forall e, In e ents -> length (fst e) = length size) /\
  (Forall (fun d => d <> 0%Z) size -> forall e, In e ents -> valid (fst e) (map Z.to_nat size)).

Lemma slice_indices_range a b n : (0 <= n)%Z ->
  (0 <= fst (slice_indices a b n) <= n)%Z /\ (0 <= snd (slice_indices a b n) <= n)%Z.
Proof.
  intros Hn. unfold slice_indices. cbn [fst snd]. split.
  - destruct a as [v|]; [|lia]. destruct (Z.ltb_spec v 0); lia.
  - destruct b as [v|]; [|lia]. destruct (Z.ltb_spec v 0); lia.
Qed.

Lemma del_nth_app_len {A} (pre l : list A) x : del_nth (length pre) (pre ++ x :: l) = pre ++ l.
Proof.
  induction pre as [|a pre IH]; [reflexivity|]. cbn [length app]. rewrite del_nth_cons, IH. reflexivity.
Qed.

Lemma valid_del_nth e sh i : valid e sh -> valid (del_nth i e) (del_nth i sh).
Proof.
  revert e sh; induction i as [|i IH]; intros e sh H.
  - destruct e as [|x e], sh as [|d sh]; simpl in H; try tauto; unfold del_nth; simpl; tauto.
  - destruct e as [|x e], sh as [|d sh]; simpl in H; try tauto; try exact I.
    rewrite !del_nth_cons. simpl. split; [tauto|]. apply IH. tauto.
Qed.

Lemma map_del_nth {A B} (f : A -> B) l i : map f (del_nth i l) = del_nth i (map f l).
Proof. unfold del_nth. rewrite map_app, firstn_map, skipn_map. reflexivity. Qed.

Lemma Forall_del_nth {A} (P : A -> Prop) l i : Forall P l -> Forall P (del_nth i l).
Proof.
  intros H. revert i. induction H as [|x l Hx Hl IH]; intros i.
  - unfold del_nth. rewrite firstn_nil, skipn_nil. constructor.
  - destruct i as [|i]; [unfold del_nth; simpl; exact Hl|]. rewrite del_nth_cons. constructor; auto.
Qed.

Lemma valid_zeros_pos sh : Forall (fun d => 0 < d) sh -> valid (repeat 0 (length sh)) sh.
Proof. induction 1; simpl; auto. Qed.

(* ---- one step of the loop on the model ---- *)
Lemma step_int size ents pre n post k :
  size = pre ++ n :: post -> st_ok size ents -> (- n <= k < n)%Z ->
  exists ents', getitem_step true (length pre) (IInt k) (size, ents) = Ok (pre ++ post, ents') /\
    st_ok (pre ++ post) ents' /\
    forall jx, length jx = length (pre ++ post) ->
      sval ents' jx = sval ents (ins (length pre) (Z.to_nat (norm_int k n)) jx).
Proof.
  intros -> [Hnn [Hlen Hval]] Hk. set (i := length pre). set (size := pre ++ n :: post) in *.
  assert (Hn : nth i size 0%Z = n) by apply nth_app_len.
  assert (Hnpos : (0 < n)%Z) by lia.
  set (k' := norm_int k n).
  assert (Hk' : (0 <= k' < n)%Z) by (unfold k', norm_int; destruct (Z.ltb_spec k 0); lia).
  unfold getitem_step. cbn [andb]. rewrite Hn. fold (norm_int k n). fold k'.
  assert (Edel : del_nth i size = pre ++ post) by apply del_nth_app_len. rewrite Edel.
  eexists. split; [reflexivity|].
  assert (Hfilter : forall e : list nat * Z, Z.eqb (Z.of_nat (nth i (fst e) 0)) k' = Z.eqb (Z.of_nat (nth i (fst e) 0)) (Z.of_nat (Z.to_nat k'))).
  { intros e. rewrite Z2Nat.id by lia. reflexivity. }
  assert (Hisz : i < length size) by (unfold size, i; rewrite app_length; simpl; lia).
  assert (Hlsz : length size - 1 = length (pre ++ post)).
  { unfold size. rewrite !app_length. simpl. lia. }
  split.
  - (* invariant *)
    split; [|split].
    + rewrite <- Edel. apply Forall_del_nth. exact Hnn.
    + intros e Hin. rewrite <- Hlsz.
      destruct (filter _ ents) as [|h hit] eqn:Ef.
      * destruct Hin as [<-|[]]. cbn [fst]. apply repeat_length.
      * rewrite <- Ef in Hin. apply in_map_iff in Hin. destruct Hin as [e0 [<- Hin]]. cbn [fst].
        apply filter_In in Hin. destruct Hin as [Hin _]. rewrite length_del_nth by (rewrite Hlen by auto; auto).
        rewrite Hlen by auto. reflexivity.
    + intros Hnz e Hin.
      assert (Hnz' : Forall (fun d => d <> 0%Z) size).
      { unfold size. apply Forall_app in Hnz. destruct Hnz as [H1 H2]. apply Forall_app. split; [auto|].
        constructor; [lia|auto]. }
      destruct (filter _ ents) as [|h hit] eqn:Ef.
      * destruct Hin as [<-|[]]. cbn [fst]. rewrite Hlsz. rewrite <- (map_length Z.to_nat (pre ++ post)).
        apply valid_zeros_pos. apply Forall_forall. intros d Hd. apply in_map_iff in Hd. destruct Hd as [z [<- Hz]].
        rewrite <- Edel in Hz. pose proof (proj1 (Forall_forall _ _) (Forall_del_nth _ _ i Hnn) z Hz).
        rewrite Edel in Hz. pose proof (proj1 (Forall_forall _ _) Hnz z Hz). simpl in *. lia.
      * rewrite <- Ef in Hin. apply in_map_iff in Hin. destruct Hin as [e0 [<- Hin]]. cbn [fst].
        apply filter_In in Hin. destruct Hin as [Hin _]. rewrite <- Edel, map_del_nth. apply valid_del_nth.
        apply Hval; auto.
  - intros jx Hjx.
    rewrite (or_zero_entry _ (length size - 1) (map (fun e => (del_nth i (fst e), snd e)))) by reflexivity.
    rewrite (filter_ext _ _ Hfilter).
    apply step_int_value.
    + intros e Hin. rewrite Hlen by auto. rewrite Hjx, <- Hlsz. lia.
    + rewrite Hjx, <- Hlsz. lia.
Qed.

Lemma valid_upd_nth e sh i v d : valid e sh -> v < d -> valid (upd_nth i v e) (upd_nth i d sh).
Proof.
  revert e sh; induction i as [|i IH]; intros [|x e] [|y sh]; simpl; try tauto.
  intros [Hx H] Hv. split; auto.
Qed.

Lemma map_upd_nth {A B} (f : A -> B) l i v : map f (upd_nth i v l) = upd_nth i (f v) (map f l).
Proof. revert i; induction l as [|x l IH]; intros [|i]; simpl; auto. f_equal; auto. Qed.

Lemma Forall_upd_nth {A} (P : A -> Prop) l i v : Forall P l -> P v -> Forall P (upd_nth i v l).
Proof.
  intros H Hv. revert i. induction H as [|x l Hx Hl IH]; intros [|i]; simpl; constructor; auto.
Qed.

Lemma step_slice size ents pre n post a b st :
  size = pre ++ n :: post -> st_ok size ents -> (st = None \/ st = Some 1%Z) ->
  let lo := fst (slice_indices a b n) in let hi := Z.max (snd (slice_indices a b n)) lo in
  exists ents', getitem_step true (length pre) (ISlice a b st) (size, ents) = Ok (pre ++ (hi - lo)%Z :: post, ents') /\
    st_ok (pre ++ (hi - lo)%Z :: post) ents' /\
    forall jx : list nat, length jx = length size -> (Z.of_nat (nth (length pre) jx 0%nat) < hi - lo)%Z ->
      sval ents' jx = sval ents (upd_nth (length pre) (Z.to_nat lo + nth (length pre) jx 0)%nat jx).
Proof.
  intros -> [Hnn [Hlen Hval]] Hst lo hi. set (i := length pre). set (size := pre ++ n :: post) in *.
  assert (Hn : nth i size 0%Z = n) by apply nth_app_len.
  assert (Hn0 : (0 <= n)%Z).
  { apply (proj1 (Forall_forall _ _) Hnn). unfold size. apply in_or_app. right. left. reflexivity. }
  destruct (slice_indices_range a b n Hn0) as [Hlo Hhi]. fold lo in Hlo.
  assert (Hhi' : (lo <= hi <= n)%Z) by (unfold hi; lia).
  unfold getitem_step. rewrite Hn.
  destruct (slice_indices a b n) as [lo0 hi0] eqn:Esl. cbn [fst snd] in *. subst lo. fold hi.
  assert (Eupd : upd_nth i (hi - lo0)%Z size = pre ++ (hi - lo0)%Z :: post).
  { unfold size, i. rewrite upd_nth_app_len, <- app_assoc. reflexivity. }
  assert (Hisz : i < length size) by (unfold size, i; rewrite app_length; simpl; lia).
  set (hitf := fun e : list nat * Z => let v := Z.of_nat (nth i (fst e) 0) in (v <? hi)%Z && (lo0 <=? v)%Z).
  set (new := match filter hitf ents with
              | [] => [(repeat 0 (length size), 0%Z)]
              | _ :: _ => map (fun e => (upd_nth i (nth i (fst e) 0 - Z.to_nat lo0) (fst e), snd e)) (filter hitf ents)
              end).
  assert (Hgoal : (match st with
           | None | Some 1%Z => Ok (upd_nth i (hi - lo0)%Z size, new)
           | _ => Err end) = Ok (pre ++ (hi - lo0)%Z :: post, new)).
  { rewrite Eupd. destruct Hst as [-> | ->]; reflexivity. }
  exists new. split.
  { rewrite <- Hgoal. destruct Hst as [-> | ->]; reflexivity. }
  split.
  - split; [|split].
    + rewrite <- Eupd. apply Forall_upd_nth; [exact Hnn|lia].
    + intros e Hin. rewrite <- Eupd, length_upd_nth'. unfold new in Hin.
      destruct (filter hitf ents) as [|h hit] eqn:Ef.
      * destruct Hin as [<-|[]]. cbn [fst]. apply repeat_length.
      * rewrite <- Ef in Hin. apply in_map_iff in Hin. destruct Hin as [e0 [<- Hin]]. cbn [fst].
        apply filter_In in Hin. destruct Hin as [Hin _]. rewrite length_upd_nth'. apply Hlen. exact Hin.
    + intros Hnz e Hin.
      assert (Hd : (hi - lo0 <> 0)%Z).
      { apply (proj1 (Forall_forall _ _) Hnz). apply in_or_app. right. left. reflexivity. }
      assert (Hnz' : Forall (fun d => d <> 0%Z) size).
      { unfold size. apply Forall_app in Hnz. destruct Hnz as [H1 H2]. apply Forall_app. split; [auto|].
        inversion H2 as [|? ? Hh Ht]. constructor; [lia|exact Ht]. }
      rewrite <- Eupd, map_upd_nth. unfold new in Hin.
      destruct (filter hitf ents) as [|h hit] eqn:Ef.
      * destruct Hin as [<-|[]]. cbn [fst].
        replace (length size) with (length (upd_nth i (Z.to_nat (hi - lo0)) (map Z.to_nat size)))
          by (rewrite length_upd_nth', map_length; reflexivity).
        apply valid_zeros_pos. apply Forall_upd_nth; [|lia].
        apply Forall_forall. intros d Hdin. apply in_map_iff in Hdin. destruct Hdin as [z [<- Hz]].
        pose proof (proj1 (Forall_forall _ _) Hnn z Hz). pose proof (proj1 (Forall_forall _ _) Hnz' z Hz). simpl in *. lia.
      * rewrite <- Ef in Hin. apply in_map_iff in Hin. destruct Hin as [e0 [<- Hin]]. cbn [fst].
        apply filter_In in Hin. destruct Hin as [Hin Hf]. unfold hitf in Hf. cbv zeta in Hf.
        apply andb_true_iff in Hf. destruct Hf as [Hf1 Hf2]. apply Z.ltb_lt in Hf1. apply Z.leb_le in Hf2.
        apply valid_upd_nth; [apply Hval; auto|]. lia.
  - intros jx Hjx Hr. unfold new.
    rewrite (or_zero_entry _ (length size) (map (fun e => (upd_nth i (nth i (fst e) 0 - Z.to_nat lo0) (fst e), snd e)))) by reflexivity.
    assert (Hf : forall e : list nat * Z, hitf e =
       (let v := Z.of_nat (nth i (fst e) 0) in (v <? Z.of_nat (Z.to_nat hi))%Z && (Z.of_nat (Z.to_nat lo0) <=? v)%Z)).
    { intros e. unfold hitf. rewrite !Z2Nat.id by lia. reflexivity. }
    rewrite (filter_ext _ _ Hf).
    apply step_slice_value.
    + intros e Hin. rewrite Hlen by auto. auto.
    + lia.
    + lia.
Qed.

(* ---- the whole loop `for i, idx in reversed(list(enumerate(idxs)))`, tensors of any rank ---- *)
Lemma loop_correct idxs : forall pre_sz post_sz ents,
  st_ok (pre_sz ++ post_sz) ents -> idxs_ok idxs post_sz ->
  exists ents', getitem_loop true idxs (length pre_sz) (pre_sz ++ post_sz, ents) = Ok (pre_sz ++ spec_size idxs post_sz, ents') /\
    st_ok (pre_sz ++ spec_size idxs post_sz) ents' /\
    forall pre jx, length pre = length pre_sz -> valid jx (map Z.to_nat (spec_size idxs post_sz)) ->
      sval ents' (pre ++ jx) = sval ents (pre ++ spec_ix idxs post_sz jx).
Proof.
  induction idxs as [|ix rest IH]; intros pre_sz post_sz ents Hok Hidx.
  - exists ents. split; [reflexivity|]. split; [exact Hok|]. intros; reflexivity.
  - destruct post_sz as [|n post]; [destruct ix; simpl in Hidx; tauto|].
    assert (Hsplit : pre_sz ++ n :: post = (pre_sz ++ [n]) ++ post) by (rewrite <- app_assoc; reflexivity).
    assert (Hidx' : idxs_ok rest post) by (destruct ix; simpl in Hidx; tauto).
    rewrite Hsplit in Hok.
    destruct (IH (pre_sz ++ [n]) post ents Hok Hidx') as [ents1 [E1 [Hok1 Hv1]]].
    cbn [getitem_loop].
    replace (S (length pre_sz)) with (length (pre_sz ++ [n])) by (rewrite app_length; simpl; lia).
    rewrite Hsplit, E1. cbn [bind].
    assert (Hsz1 : (pre_sz ++ [n]) ++ spec_size rest post = pre_sz ++ n :: spec_size rest post)
      by (rewrite <- app_assoc; reflexivity).
    rewrite Hsz1 in *.
    destruct ix as [k|a b st].
    + (* integer index *)
      destruct Hidx as [Hk _].
      destruct (step_int _ ents1 pre_sz n (spec_size rest post) k eq_refl Hok1 Hk) as [ents' [E' [Hok' Hv']]].
      exists ents'. split; [exact E'|]. split; [exact Hok'|].
      intros pre jx Hpre Hjx. cbn [spec_size spec_ix] in *.
      rewrite Hv'.
      * rewrite <- Hpre, ins_app_len. rewrite Hv1.
        -- rewrite <- app_assoc. reflexivity.
        -- rewrite app_length. simpl. rewrite app_length. simpl. lia.
        -- exact Hjx.
      * rewrite !app_length. apply valid_length in Hjx. rewrite map_length in Hjx. lia.
    + (* slice *)
      destruct Hidx as [Hst _].
      destruct (step_slice _ ents1 pre_sz n (spec_size rest post) a b st eq_refl Hok1 Hst) as [ents' [E' [Hok' Hv']]].
      cbv zeta in E', Hok', Hv'.
      exists ents'. split; [exact E'|]. split; [exact Hok'|].
      intros pre jx Hpre Hjx. cbn [spec_size spec_ix map] in *.
      destruct jx as [|j jx]; [simpl in Hjx; tauto|]. destruct Hjx as [Hj Hjx].
      assert (Hlo := slice_indices_range a b n).
      assert (Hn0 : (0 <= n)%Z).
      { destruct Hok1 as [Hnn _]. apply (proj1 (Forall_forall _ _) Hnn). apply in_or_app. right. left. reflexivity. }
      specialize (Hlo Hn0).
      rewrite Hv'.
      * rewrite <- Hpre, nth_app_len, upd_nth_app_len. rewrite Hv1.
        -- rewrite <- app_assoc. reflexivity.
        -- rewrite app_length. simpl. rewrite app_length. simpl. lia.
        -- exact Hjx.
      * rewrite !app_length. simpl. apply valid_length in Hjx. rewrite map_length in Hjx. lia.
      * rewrite <- Hpre, nth_app_len. lia.
Qed.

Lemma eqb_rev a b : list_nat_eqb (rev a) (rev b) = list_nat_eqb a b.
Proof.
  destruct (list_nat_eqb a b) eqn:E.
  - apply list_nat_eqb_eq in E. subst. apply list_nat_eqb_refl.
  - destruct (list_nat_eqb (rev a) (rev b)) eqn:E'; [|reflexivity].
    apply list_nat_eqb_eq in E'. apply (f_equal (@rev nat)) in E'. rewrite !rev_involutive in E'. subst.
    rewrite list_nat_eqb_refl in E. discriminate.
Qed.

Lemma sval_rev ents jx : sval (map (fun e => (rev (fst e), snd e)) ents) (rev jx) = sval ents jx.
Proof.
  induction ents as [|e ents IH]; [reflexivity|]. cbn [map]. rewrite !sval_cons, IH. cbn [fst snd].
  rewrite eqb_rev. reflexivity.
Qed.

Lemma valid_rev a s : valid a s -> valid (rev a) (rev s).
Proof.
  revert s; induction a as [|x a IH]; intros [|d s]; simpl; try tauto.
  intros [Hx H]. apply valid_app; [apply IH; exact H|]. simpl. auto.
Qed.

(* sparse_getitem (repaired code) on a well-formed sparse tensor of rank <= 2, indices = ints in range (negative ints
   count from the end) and unit-step slices with arbitrary (negative, omitted, over-long, empty, reversed) bounds:
   the dense value of the result is dense basic indexing *)
Lemma sparse_getitem_correct s idxs :
  swf s = true -> length (sshape s) <= 2 -> length idxs <= length (sshape s) ->
  let size0 := map Z.of_nat (rev (sshape s)) in
  idxs_ok idxs size0 ->
  exists s', sparse_getitem true s idxs = Ok s' /\
    sshape s' = rev (map Z.to_nat (spec_size idxs size0)) /\ swf s' = true /\
    forall jx, valid jx (map Z.to_nat (spec_size idxs size0)) ->
      tat (sdense s') (rev jx) = tat (sdense s) (rev (spec_ix idxs size0 jx)).
Proof.
  intros Hw Hnd Hli size0 Hidx. unfold sparse_getitem.
  replace (2 <? length (sshape s)) with false by (symmetry; apply Nat.ltb_ge; lia).
  replace (length (sshape s) <? length idxs) with false by (symmetry; apply Nat.ltb_ge; lia).
  set (ents0 := map (fun e => (rev (fst e), snd e)) (sent s)). fold size0.
  assert (Hok0 : st_ok size0 ents0).
  { split; [|split].
    - apply Forall_forall. intros d Hd. unfold size0 in Hd. apply in_map_iff in Hd. destruct Hd as [x [<- _]]. lia.
    - intros e Hin. unfold ents0 in Hin. apply in_map_iff in Hin. destruct Hin as [e0 [<- Hin]]. cbn [fst].
      unfold size0. rewrite map_length, !rev_length. apply valid_length. apply (proj1 (swf_spec s) Hw e0 Hin).
    - intros _ e Hin. unfold ents0 in Hin. apply in_map_iff in Hin. destruct Hin as [e0 [<- Hin]]. cbn [fst].
      unfold size0. rewrite map_map. rewrite (map_ext _ (fun x => x)) by (intros; apply Nat2Z.id). rewrite map_id.
      apply valid_rev. apply (proj1 (swf_spec s) Hw e0 Hin). }
  destruct (loop_correct idxs [] size0 ents0 Hok0 Hidx) as [ents' [E [Hok' Hv']]].
  cbn [app length] in E, Hok', Hv'. rewrite E. cbn [bind].
  set (size' := spec_size idxs size0) in *.
  destruct Hok' as [Hnn [Hlen Hval]].
  assert (Hneg : existsb (fun d => (d <? 0)%Z) size' = false).
  { destruct (existsb (fun d => (d <? 0)%Z) size') eqn:Ex; [|reflexivity]. apply existsb_exists in Ex. destruct Ex as [d [Hd Hlt]].
    apply Z.ltb_lt in Hlt. pose proof (proj1 (Forall_forall _ _) Hnn d Hd). simpl in *. lia. }
  rewrite Hneg. cbn [andb].
  set (fents := if existsb (fun d => (d =? 0)%Z) size' then [] else ents').
  assert (Hwf' : swf (mkS (rev (map Z.to_nat size')) (map (fun e => (rev (fst e), snd e)) fents)) = true).
  { apply swf_spec. cbn [sent sshape]. intros e Hin. apply in_map_iff in Hin. destruct Hin as [e0 [<- Hin]]. cbn [fst].
    apply valid_rev. unfold fents in Hin. destruct (existsb (fun d => (d =? 0)%Z) size') eqn:Ez; [destruct Hin|].
    apply Hval; [|exact Hin]. apply Forall_forall. intros d Hd Hd0. subst d.
    assert (existsb (fun d => (d =? 0)%Z) size' = true) by (apply existsb_exists; exists 0%Z; split; [exact Hd|reflexivity]).
    congruence. }
  unfold mk_sparse. rewrite Hwf'. eexists. split; [reflexivity|]. split; [reflexivity|]. split; [exact Hwf'|].
  intros jx Hjx. rewrite !sdense_at. cbn [sent]. rewrite sval_rev.
  assert (Hnz : existsb (fun d => (d =? 0)%Z) size' = false).
  { destruct (existsb (fun d => (d =? 0)%Z) size') eqn:Ex; [|reflexivity]. apply existsb_exists in Ex. destruct Ex as [d [Hd Hd0]].
    apply Z.eqb_eq in Hd0. subst d. exfalso.
    apply valid_nth in Hjx. destruct Hjx as [Hl Hlt]. rewrite map_length in Hl, Hlt.
    apply In_nth with (d := 0%Z) in Hd. destruct Hd as [p [Hp Hnth]].
    specialize (Hlt p Hp). change 0 with (Z.to_nat 0%Z) in Hlt at 2.
    rewrite map_nth, Hnth in Hlt. simpl in Hlt. lia. }
  unfold fents. rewrite Hnz.
  specialize (Hv' [] jx eq_refl Hjx). cbn [app] in Hv'. rewrite Hv'.
  unfold ents0. rewrite <- (sval_rev (sent s)). rewrite rev_involutive. reflexivity.
Qed.
