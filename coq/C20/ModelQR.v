(* C20 / QR part — executable model of
     linear_operator/utils/qr.py        stable_qr
     linear_operator/utils/pinverse.py  stable_pinverse
   Definitions only (no proofs).  ONE definition, generic in a small arithmetic record
   [QRArith], instantiated
     - on PrimFloat binary64            (FA64, correspondence shards, float64 inputs)
     - on binary32 (SpecFloat 24/128)   (FA32, correspondence shards, float32 inputs)
     - on a MathComp realFieldType      (ProofsQR.v, theorems).

   Trusted primitives (modelled by their contract / mathematical meaning, not verified):
     * torch.linalg.qr  — an ORACLE: the model takes a function [oracle] from the batch of
       input matrices to the batch of (Q, R) pairs.  The CPU dispatch of stable_qr
       (`mat.cpu()` / `.to(device)` when shape[-1] <= stable_qr_cpu_threshold) is the same
       oracle on both branches (a device move does not change values).
     * torch.linalg.solve_triangular(R, B, upper=True) — modelled by back substitution that
       reads ONLY the upper triangle of R (ProofsQR.v proves it equals invmx (triu R) *m B
       over a field when the diagonal is non-zero); LAPACK/BLAS may order the floating point
       operations differently, hence stable_pinverse is compared through a residual
       invariant with a justified tolerance, not bit-exactly.
   Everything else (diagonal, abs, <, any, sign, masked assignment, *, diag_embed, the
   broadcasting +, .mT, the shape branch of stable_pinverse) is transcribed.

   A batched tensor is a flat list of members (batch dims flattened): every torch op used
   is per member EXCEPT `torch.any(zeroish)`, which is global — hence the explicit list. *)
From Coq Require Import List Bool Arith ZArith Floats.
Import ListNotations.
Set Implicit Arguments.

Record QRArith (T : Type) := MkQRArith {
  q0 : T; q1 : T;
  qadd : T -> T -> T; qsub : T -> T -> T; qmul : T -> T -> T; qdiv : T -> T -> T;
  qabs : T -> T; qltb : T -> T -> bool; qeqb : T -> T -> bool;
  qthr : T       (* the literal 1e-6 (in the dtype of the tensor it is combined with) *)
}.
Arguments q0 {T} _. Arguments q1 {T} _. Arguments qadd {T} _ _ _. Arguments qsub {T} _ _ _.
Arguments qmul {T} _ _ _. Arguments qdiv {T} _ _ _. Arguments qabs {T} _ _.
Arguments qltb {T} _ _ _. Arguments qeqb {T} _ _ _. Arguments qthr {T} _.

Section Model.
Variable T : Type.
Variable A : QRArith T.

Definition qmat := list (list T).

(* ---- list-matrix helpers (total; defaults are q0 / []) ---- *)
Fixpoint qnth (l : list T) (i : nat) : T :=
  match l, i with [], _ => q0 A | x :: _, O => x | _ :: r, S i' => qnth r i' end.
Fixpoint qrow (M : qmat) (i : nat) : list T :=
  match M, i with [], _ => [] | r :: _, O => r | _ :: s, S i' => qrow s i' end.
Definition qget (M : qmat) (i j : nat) : T := qnth (qrow M i) j.
(* [f s; f (s+1); ...; f (s+k-1)] *)
Fixpoint qtabl {X : Type} (f : nat -> X) (s k : nat) : list X :=
  match k with O => [] | S k' => f s :: qtabl f (S s) k' end.
Definition qtab (m n : nat) (f : nat -> nat -> T) : qmat :=
  qtabl (fun i => qtabl (fun j => f i j) 0 n) 0 m.
Definition qnrows (M : qmat) : nat := length M.
Definition qncols (M : qmat) : nat := match M with [] => 0 | r :: _ => length r end.
(* all options Some -> Some of the list; any None (a raise) -> None *)
Fixpoint opt_all {X : Type} (l : list (option X)) : option (list X) :=
  match l with
  | [] => Some []
  | None :: _ => None
  | Some x :: r => match opt_all r with Some s => Some (x :: s) | None => None end
  end.
Fixpoint qmap2 {X Y Z : Type} (f : X -> Y -> Z) (a : list X) (b : list Y) : list Z :=
  match a, b with x :: r, y :: s => f x y :: qmap2 f r s | _, _ => [] end.

(* ---- torch primitives used by stable_qr ---- *)
(* torch.diagonal(R, dim1=-2, dim2=-1) : min(rows, cols) entries *)
Definition qdiagonal (R : qmat) : list T :=
  qtabl (fun i => qget R i i) 0 (Nat.min (qnrows R) (qncols R)).
(* Rdiag.abs() < 1e-6 *)
Definition zeroish (d : list T) : list bool := map (fun x => qltb A (qabs A x) (qthr A)) d.
Definition anyb (l : list bool) : bool := existsb (fun b => b) l.
(* torch.sign : (0 < x) - (x < 0) *)
Definition qsign (x : T) : T :=
  if qltb A (q0 A) x then q1 A else if qltb A x (q0 A) then qsub A (q0 A) (q1 A) else q0 A.
(* Rdiag_sign[Rdiag_sign == 0] = 1.0 *)
Definition fix_zero_sign (s : T) : T := if qeqb A s (q0 A) then q1 A else s.
(* zeroish.to(Rdiag) *)
Definition of_bool (b : bool) : T := if b then q1 A else q0 A.
(* 1e-6 * Rdiag_sign * zeroish.to(Rdiag)      (left-associated, as Python evaluates it) *)
Definition jitter_diag (d : list T) : list T :=
  let Rdiag_sign := map qsign d in
  let Rdiag_sign := map fix_zero_sign Rdiag_sign in
  qmap2 (fun s z => qmul A (qmul A (qthr A) s) (of_bool z)) Rdiag_sign (zeroish d).
(* torch.diag_embed : k entries -> k x k matrix *)
Definition diag_embed (d : list T) : qmat :=
  qtab (length d) (length d) (fun i j => if Nat.eqb i j then qnth d i else q0 A).
(* torch broadcasting of one dimension pair: equal, or one of them is 1 *)
Definition bcompat (a b : nat) : bool := Nat.eqb a b || Nat.eqb a 1 || Nat.eqb b 1.
Definition bdim (a b : nat) : nat := if Nat.eqb a 1 then b else a.
Definition bidx (a i : nat) : nat := if Nat.eqb a 1 then 0 else i.
(* X + Y on the last two dims with torch broadcasting; None = RuntimeError (size mismatch) *)
Definition badd (X Y : qmat) : option qmat :=
  let rx := qnrows X in let cx := qncols X in let ry := qnrows Y in let cy := qncols Y in
  if bcompat rx ry && bcompat cx cy then
    Some (qtab (bdim rx ry) (bdim cx cy)
               (fun i j => qadd A (qget X (bidx rx i) (bidx cx j)) (qget Y (bidx ry i) (bidx cy j))))
  else None.

(* ---- stable_qr ---- *)
(* the body of `if torch.any(zeroish):` for one batch member *)
Definition add_jitter (QR : qmat * qmat) : option (qmat * qmat) :=
  let (Q, R) := QR in
  match badd R (diag_embed (jitter_diag (qdiagonal R))) with
  | Some R' => Some (Q, R')
  | None => None
  end.

Definition stable_qr (oracle : list qmat -> list (qmat * qmat)) (mats : list qmat)
  : option (list (qmat * qmat)) :=
  let QR := oracle mats in                                   (* Q, R = torch.linalg.qr(mat) *)
  let Rdiag := map (fun qr => qdiagonal (snd qr)) QR in      (* torch.diagonal(R, -2, -1)   *)
  let zs := map zeroish Rdiag in                             (* Rdiag.abs() < 1e-6           *)
  if existsb anyb zs then                                    (* torch.any: WHOLE batch       *)
    opt_all (map add_jitter QR)
  else Some QR.

(* ---- stable_pinverse ---- *)
(* X.mT *)
Definition qtranspose (X : qmat) : qmat := qtab (qncols X) (qnrows X) (fun i j => qget X j i).
(* sum_{j = lo}^{lo+k-1} f j *)
Fixpoint qsum_from (f : nat -> T) (lo k : nat) : T :=
  match k with O => q0 A | S k' => qadd A (f lo) (qsum_from f (S lo) k') end.
(* back substitution for one right-hand side b (length n): after k steps the function gives
   x_j for n-k <= j < n (q0 elsewhere).  Reads R only at i <= j. *)
Fixpoint backsub (R : qmat) (b : list T) (n k : nat) : nat -> T :=
  match k with
  | O => fun _ => q0 A
  | S k' =>
      let x := backsub R b n k' in
      let i := n - S k' in
      let xi := qdiv A (qsub A (qnth b i) (qsum_from (fun j => qmul A (qget R i j) (x j)) (S i) k'))
                     (qget R i i) in
      fun j => if Nat.eqb j i then xi else x j
  end.
(* torch.linalg.solve_triangular(R, B, upper=True), R n x n, B n x p; None = RuntimeError
   (shape mismatch).  *)
Definition solve_triangular_upper (R B : qmat) : option qmat :=
  let n := qnrows R in let p := qncols B in
  if Nat.eqb (qncols R) n && Nat.eqb (qnrows B) n then
    let Bt := qtranspose B in
    let cols := qtabl (fun c => qtabl (backsub R (qrow Bt c) n n) 0 n) 0 p in
    Some (qtab n p (fun i c => qnth (qrow cols c) i))
  else None.

Definition opt_map {X Y : Type} (f : X -> Y) (o : option X) : option Y :=
  match o with Some x => Some (f x) | None => None end.
Definition opt_bind {X Y : Type} (o : option X) (f : X -> option Y) : option Y :=
  match o with Some x => f x | None => None end.

Definition stable_pinverse (oracle : list qmat -> list (qmat * qmat)) (mats : list qmat)
  : option (list qmat) :=
  match mats with
  | [] => Some []
  | A0 :: _ =>
    if Nat.leb (qncols A0) (qnrows A0) then                  (* A.shape[-2] >= A.shape[-1] *)
      opt_bind (stable_qr oracle mats) (fun QR =>
        opt_all (map (fun qr => solve_triangular_upper (snd qr) (qtranspose (fst qr))) QR))
    else
      opt_bind (stable_qr oracle (map qtranspose mats)) (fun QR =>
        opt_all (map (fun qr => opt_map qtranspose
                                  (solve_triangular_upper (snd qr) (qtranspose (fst qr)))) QR))
  end.

End Model.

(* ---- arithmetic instances for the correspondence shards ---- *)
Definition FA64 : QRArith float :=
  MkQRArith 0%float 1%float PrimFloat.add PrimFloat.sub PrimFloat.mul PrimFloat.div
            PrimFloat.abs PrimFloat.ltb PrimFloat.eqb 0x1.0c6f7a0b5ed8dp-20%float.

(* binary32: every operation is the correctly rounded binary32 operation (SpecFloat with
   prec = 24, emax = 128) on binary64 carriers holding binary32 values.  torch casts the Python
   scalar 1e-6 to the tensor dtype: float32(1e-6) = 0x1.0c6f7ap-20 (checked by the harness). *)
Definition op32 (f : spec_float -> spec_float -> spec_float) (x y : float) : float :=
  SF2Prim (f (Prim2SF x) (Prim2SF y)).
Definition FA32 : QRArith float :=
  MkQRArith 0%float 1%float (op32 (SFadd 24 128)) (op32 (SFsub 24 128)) (op32 (SFmul 24 128))
            (op32 (SFdiv 24 128))
            PrimFloat.abs PrimFloat.ltb PrimFloat.eqb 0x1.0c6f7ap-20%float.
