(* C20 — comparators for the stable_qr / stable_pinverse correspondence shards (PrimFloat, binary64 and binary32).
   The oracle (torch.linalg.qr) output is a literal of the case; the model ModelQR.stable_qr is run on it with
   vm_compute and compared with what linear_operator.utils.qr.stable_qr returned:
     * stable_qr      : EXACT (PrimFloat.eqb on every entry: the only arithmetic is one multiplication chain and one
                        addition per entry, the same IEEE operations torch performs; -0 = +0, NaN never equal),
     * stable_pinverse: norm-wise |a - b| <= tol * max(1, max|a|, max|b|) per batch member, because LAPACK's
                        triangular solve may order the operations differently from the back substitution of the model. *)
From Coq Require Import List Bool Arith ZArith Floats.
Import ListNotations.
Require Import C20.ModelQR.

Definition fmat := list (list float).

Fixpoint all2 {X Y} (f : X -> Y -> bool) (a : list X) (b : list Y) : bool :=
  match a, b with
  | [], [] => true
  | x :: r, y :: s => f x y && all2 f r s
  | _, _ => false
  end.
Definition row_eqb (a b : list float) : bool := all2 PrimFloat.eqb a b.
Definition mat_eqb (a b : fmat) : bool := all2 row_eqb a b.
Definition pair_eqb (a b : fmat * fmat) : bool := mat_eqb (fst a) (fst b) && mat_eqb (snd a) (snd b).

Inductive obs_qr := ORaise | OQR (qr : list (fmat * fmat)).
Inductive obs_pinv := PRaise | OP (ps : list fmat).

(* stable_qr: model (on the oracle's literal output) = observation, exactly *)
Definition chk_qr (A : QRArith float) (oracle_out : list (fmat * fmat)) (mats : list fmat) (o : obs_qr) : bool :=
  match stable_qr A (fun _ => oracle_out) mats, o with
  | None, ORaise => true
  | Some QR, OQR obs => all2 pair_eqb QR obs
  | _, _ => false
  end.

Definition fmax (a b : float) : float := if PrimFloat.ltb a b then b else a.
Definition mat_maxabs (m : fmat) : float :=
  fold_left (fun acc r => fold_left (fun acc x => fmax acc (PrimFloat.abs x)) r acc) m 0%float.
Definition row_maxdiff (a b : list float) : float :=
  fold_left fmax (map (fun p => PrimFloat.abs (PrimFloat.sub (fst p) (snd p))) (combine a b)) 0%float.
Definition mat_maxdiff (a b : fmat) : float :=
  fold_left fmax (map (fun p => row_maxdiff (fst p) (snd p)) (combine a b)) 0%float.
Definition same_dims (a b : fmat) : bool :=
  all2 (fun r s => Nat.eqb (length r) (length s)) a b.
Definition mat_close (tol : float) (a b : fmat) : bool :=
  same_dims a b &&
  PrimFloat.leb (mat_maxdiff a b) (PrimFloat.mul tol (fmax 1%float (fmax (mat_maxabs a) (mat_maxabs b)))).

Definition chk_pinv (A : QRArith float) (tol : float) (oracle_out : list (fmat * fmat)) (mats : list fmat) (o : obs_pinv) : bool :=
  match stable_pinverse A (fun _ => oracle_out) mats, o with
  | None, PRaise => true
  | Some Ps, OP obs => all2 (mat_close tol) Ps obs
  | _, _ => false
  end.

Fixpoint bad_cases (cs : list bool) (i : nat) : list nat :=
  match cs with
  | [] => []
  | b :: r => if b then bad_cases r (S i) else i :: bad_cases r (S i)
  end.
