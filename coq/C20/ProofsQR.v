(* C20 / QR part — theorems about the transcribed model of stable_qr / stable_pinverse
   (ModelQR.v), instantiated on an arbitrary real field F with an arbitrary threshold thr
   (the theorems that need it assume 0 < thr; the library's thr is 1e-6). *)
From mathcomp Require Import all_ssreflect all_algebra.
Require Import C20.ModelQR.
Set Implicit Arguments. Unset Strict Implicit. Unset Printing Implicit Defensive.
Import Order.TTheory GRing.Theory Num.Theory.

(* ------------------------------------------------------------------------------------ *)
(* generic list-matrix facts (any carrier, any arithmetic)                                *)
Section ListFacts.
Variable T : Type.
Variable A : QRArith T.

Lemma length_size X (l : seq X) : length l = size l.
Proof. by elim: l => //= x l ->. Qed.

Lemma size_qtabl X (f : nat -> X) s k : size (qtabl f s k) = k.
Proof. by elim: k s => //= k IH s; rewrite IH. Qed.

Lemma qnth_qtabl (f : nat -> T) s k i : i < k -> qnth A (qtabl f s k) i = f (s + i).
Proof.
elim: k s i => // k IH s [|i] /=; first by rewrite addn0.
by rewrite ltnS => /IH ->; rewrite addSnnS.
Qed.

Lemma qrow_qtabl (f : nat -> seq T) s k i : i < k -> qrow (qtabl f s k) i = f (s + i).
Proof.
elim: k s i => // k IH s [|i] /=; first by rewrite addn0.
by rewrite ltnS => /IH ->; rewrite addSnnS.
Qed.

Lemma qrow_default (M : qmat T) i : size M <= i -> qrow M i = [::].
Proof. by elim: M i => [|r M IH] [|i] //= /IH. Qed.

Lemma qnth_default (l : seq T) i : size l <= i -> qnth A l i = q0 A.
Proof. by elim: l i => [|r M IH] [|i] //= /IH. Qed.

Lemma qget_qtab m n f i j : i < m -> j < n -> qget A (qtab m n f) i j = f i j.
Proof. by move=> hi hj; rewrite /qget /qtab qrow_qtabl // qnth_qtabl. Qed.

(* well-formed m x n list matrix *)
Definition qwf (m n : nat) (M : qmat T) : bool :=
  (size M == m) && all (fun r => size r == n) M.

Lemma all_qtabl X (p : pred X) (g : nat -> X) s k : (forall i, p (g i)) -> all p (qtabl g s k).
Proof. by move=> h; elim: k s => //= k IH s; rewrite h IH. Qed.

Lemma qwf_qtab m n f : qwf m n (qtab m n f).
Proof.
rewrite /qwf /qtab size_qtabl eqxx /=.
by apply: all_qtabl => i; rewrite size_qtabl.
Qed.

Lemma qwf_nrows m n M : qwf m n M -> qnrows M = m.
Proof. by case/andP => /eqP <- _; rewrite /qnrows length_size. Qed.

Lemma qwf_row m n M i : qwf m n M -> i < m -> size (qrow M i) = n.
Proof.
case/andP => /eqP <-; elim: M i => // r M IH [|i] /= /andP [/eqP hr hM] //.
by rewrite ltnS; apply: IH.
Qed.

Lemma qwf_ncols m n M : qwf m n M -> 0 < m -> qncols M = n.
Proof.
move=> h hm; have := qwf_row h hm; case: M h => [|r M] /=.
  by rewrite /qwf /= => /andP [/eqP h0]; rewrite -h0 in hm.
by move=> _; rewrite length_size.
Qed.

Lemma qrows_ext (r s : seq T) n :
  size r = n -> size s = n -> (forall j, j < n -> qnth A r j = qnth A s j) -> r = s.
Proof.
elim: n r s => [|n IH] [|x r] [|y s] //= [hr] [hs] h.
by rewrite (h 0 (ltn0Sn n)) (IH r s hr hs) // => j hj; apply: (h j.+1).
Qed.

Lemma qmat_ext m n (M N : qmat T) :
  qwf m n M -> qwf m n N ->
  (forall i j, i < m -> j < n -> qget A M i j = qget A N i j) -> M = N.
Proof.
elim: m M N => [|m IH] [|r M] [|s N] //; rewrite /qwf /= ?eqSS.
move=> /andP [hM /andP [/eqP hr hrM]] /andP [hN /andP [/eqP hs hsN]] h.
have -> : r = s by apply: (qrows_ext hr hs) => j hj; apply: (h 0 j).
congr (_ :: _); apply: IH; rewrite /qwf ?hM ?hN //.
by move=> i j hi hj; apply: (h i.+1 j).
Qed.

Lemma opt_all_map X Y (f : X -> option Y) (g : X -> Y) (l : seq X) :
  (forall x, List.In x l -> f x = Some (g x)) -> opt_all (List.map f l) = Some (List.map g l).
Proof.
elim: l => //= x l IH h; rewrite (h x (or_introl erefl)) IH // => y hy.
by apply: h; right.
Qed.

Lemma Lmap_map X Y (f : X -> Y) l : List.map f l = map f l.
Proof. by []. Qed.

Lemma existsbP X (p : X -> bool) l : List.existsb p l = has p l.
Proof. by elim: l => //= x l ->. Qed.

End ListFacts.

Arguments qwf {T} m n M.

(* ------------------------------------------------------------------------------------ *)
(* stable_qr over a real field                                                            *)
Section QRField.
Variable F : realFieldType.
Variable thr : F.
Local Open Scope ring_scope.

Definition RA : QRArith F :=
  MkQRArith 0 1 +%R (fun x y => x - y) *%R (fun x y => x / y)
            Num.norm (fun x y => x < y) (fun x y => x == y) thr.
Notation get := (qget RA).

(* sign with sign 0 = 1 (what `torch.sign` followed by `s[s == 0] = 1` computes) *)
Definition sgn1 (x : F) : F := if x < 0 then -1 else 1.

Lemma fix_sign x : fix_zero_sign RA (qsign RA x) = sgn1 x.
Proof.
rewrite /fix_zero_sign /qsign /sgn1 /=.
case: (ltrgt0P x) => _; rewrite ?oner_eq0 ?eqxx //.
by rewrite sub0r oppr_eq0 oner_eq0.
Qed.

(* the value the code adds to a diagonal entry x *)
Definition jit (x : F) : F := if `|x| < thr then thr * sgn1 x else 0.

Lemma qmap2_map X Y Z W (f : Y -> Z -> W) (g : X -> Y) (h : X -> Z) (d : seq X) :
  qmap2 f (List.map g d) (List.map h d) = map (fun x => f (g x) (h x)) d.
Proof. by elim: d => //= x d ->. Qed.

Lemma jitter_diagE d : jitter_diag RA d = map jit d.
Proof.
rewrite /jitter_diag /zeroish List.map_map qmap2_map.
apply: eq_map => x /=; rewrite fix_sign /jit /of_bool /=.
by case: ifP => _; rewrite ?mulr1 ?mulr0.
Qed.

Lemma qnth_map (f : F -> F) d i : (i < size d)%N -> qnth RA (map f d) i = f (qnth RA d i).
Proof. by elim: d i => // x d IH [|i] //=; rewrite ltnS => /IH. Qed.

Lemma anyb_zeroish d : anyb (zeroish RA d) = has (fun x => `|x| < thr) d.
Proof. by rewrite /anyb /zeroish existsbP Lmap_map has_map; apply: eq_has => x /=; case: (_ < _). Qed.

Lemma has_qtablF X (p : pred X) (f : nat -> X) s k :
  (has p (qtabl f s k) = false) <-> (forall i, (i < k)%N -> ~~ p (f (s + i)%N)).
Proof.
elim: k s => [|k IH] s /=; first by split.
split.
  move/norP => [h0 /negbTE /IH h] [|i]; first by rewrite addn0.
  by rewrite ltnS => /h; rewrite addSnnS.
move=> h; apply/norP; split; first by have := h 0%N (ltn0Sn k); rewrite addn0.
by apply/negbT/IH => i hi; rewrite addSnnS; apply: h.
Qed.

Lemma min_l k n : (k <= n)%N -> Nat.min k n = k.
Proof. by elim: k n => [|k IH] [|n] //=; rewrite ltnS => /IH ->. Qed.

Lemma qdiagonal_wf k n (R : qmat F) : qwf k n R -> (k <= n)%N ->
  qdiagonal RA R = qtabl (fun i => get R i i) 0 k.
Proof.
move=> h hk; rewrite /qdiagonal (qwf_nrows h).
case: k h hk => [|k] h hk //.
by rewrite (qwf_ncols h) // min_l.
Qed.

Lemma Neqb_refl a : Nat.eqb a a = true.
Proof. by elim: a. Qed.

Lemma Neqb_eq (a b : nat) : Nat.eqb a b = (a == b).
Proof. by elim: a b => [|a IH] [|b] //=; rewrite IH. Qed.

Lemma bidx_lt a i : (i < a)%N -> bidx a i = i.
Proof. by rewrite /bidx Neqb_eq; case: eqP => // ->; case: i. Qed.

Lemma bdim_same a : bdim a a = a.
Proof. by rewrite /bdim; case: ifP. Qed.

Lemma qtab_ext m n (f g : nat -> nat -> F) :
  (forall i j, (i < m)%N -> (j < n)%N -> f i j = g i j) -> qtab m n f = qtab m n g.
Proof.
move=> h; apply: (@qmat_ext _ RA m n); rewrite ?qwf_qtab // => i j hi hj.
by rewrite !qget_qtab // h.
Qed.

(* R with the jitter added, k x k *)
Definition jittered (k : nat) (R : qmat F) : qmat F :=
  qtab k k (fun i j => if (i == j) && (`|get R i i| < thr)
                       then get R i i + thr * sgn1 (get R i i) else get R i j).

Lemma add_jitter_square k Q (R : qmat F) :
  qwf k k R -> add_jitter RA (Q, R) = Some (Q, jittered k R).
Proof.
move=> h; rewrite /add_jitter (qdiagonal_wf h) // jitter_diagE /badd /diag_embed.
rewrite !length_size size_map size_qtabl (qwf_nrows h) (qwf_nrows (qwf_qtab _ _ _)).
have -> : qncols R = qncols (qtab k k (fun i j => if Nat.eqb i j
                  then qnth RA (map jit (qtabl (fun i => get R i i) 0 k)) i else q0 RA)).
  case: k h => [|k] h; last by rewrite !(@qwf_ncols _ k.+1 k.+1) ?qwf_qtab.
  by case: R h.
set c := qncols _.
have hc : bcompat c c by rewrite /bcompat Neqb_refl.
rewrite /bcompat !Neqb_refl /= !bdim_same.
have -> : c = k.
  by rewrite /c; case: k {h hc c} => [|k] //; rewrite (@qwf_ncols _ k.+1 k.+1) ?qwf_qtab.
congr (Some (_, _)); apply: qtab_ext => i j hi hj.
rewrite !bidx_lt // qget_qtab // Neqb_eq qnth_map ?size_qtabl // qnth_qtabl // add0n /jit /=.
by case: eqP => [<-|_] /=; [case: ifP => _; rewrite ?addr0 | rewrite addr0].
Qed.

(* no diagonal entry of the k x k matrix R is below the threshold *)
Definition zeroish_free (k : nat) (R : qmat F) : Prop :=
  forall i, (i < k)%N -> ~~ (`|get R i i| < thr).

Lemma jittered_free k R : qwf k k R -> zeroish_free k R -> jittered k R = R.
Proof.
move=> h hz; apply: (@qmat_ext _ RA k k); rewrite ?qwf_qtab // => i j hi hj.
by rewrite qget_qtab // (negbTE (hz i hi)) andbF.
Qed.

Lemma has_zeroishF k n (QR : seq (qmat F * qmat F)) : (k <= n)%N ->
  all (fun qr => qwf k n qr.2) QR ->
  (List.existsb anyb (List.map (zeroish RA) (List.map (fun qr => qdiagonal RA (snd qr)) QR)) = false)
  <-> (forall qr, List.In qr QR -> zeroish_free k qr.2).
Proof.
move=> hk; elim: QR => [|[Q R] QR IH] /=; first by split.
case/andP => hR hQR; rewrite anyb_zeroish (qdiagonal_wf hR hk); split.
  case/norP => /negbTE /has_qtablF h0 /negbTE /(IH hQR) h qr [<-|]; last exact: h.
  by move=> i hi; have := h0 i hi; rewrite add0n.
move=> h; apply/norP; split.
  by apply/negbT/has_qtablF => i hi; rewrite add0n; apply: (h (Q, R)) => //; left.
by apply/negbT/(IH hQR) => qr hqr; apply: h; right.
Qed.

Lemma all_In X (p : pred X) l : all p l -> forall x, List.In x l -> p x.
Proof. by elim: l => //= y l IH /andP [hy hl] x [<-|] //; apply: IH. Qed.

(* master lemma: on square R (tall or square input) the transcribed stable_qr is the
   member-wise map  (Q, R) |-> (Q, jittered R)  — whatever the global `any` decides *)
Lemma stable_qr_square k oracle mats :
  all (fun qr => qwf k k qr.2) (oracle mats) ->
  stable_qr RA oracle mats = Some (map (fun qr => (qr.1, jittered k qr.2)) (oracle mats)).
Proof.
move=> hwf; rewrite /stable_qr.
case hany: (List.existsb _ _).
  rewrite -Lmap_map; apply: opt_all_map => -[Q R] /(all_In hwf) /= hR.
  exact: add_jitter_square.
move/(has_zeroishF (leqnn k) hwf): hany => hfree.
congr Some; elim: (oracle mats) hwf hfree => //= -[Q R] QR IH /andP [hR hQR] h.
rewrite /= jittered_free //; last by apply: (h (Q, R)); left.
by rewrite -IH // => qr hqr; apply: h; right.
Qed.


(* ---- user-facing statements (batch members addressed by index) ---- *)
Definition dQR : qmat F * qmat F := ([::], [::]).

Lemma In_nth X (d : X) l x : List.In x l -> exists2 b, (b < size l)%N & nth d l b = x.
Proof.
elim: l => //= y l IH [->|/IH [b hb <-]]; first by exists 0%N.
by exists b.+1.
Qed.

Lemma nth_In X (d : X) l b : (b < size l)%N -> List.In (nth d l b) l.
Proof. by elim: l b => // y l IH [|b] /=; [left | rewrite ltnS => /IH; right]. Qed.

Lemma all_nthP X (d : X) (p : pred X) l :
  (forall b, (b < size l)%N -> p (nth d l b)) -> all p l.
Proof.
elim: l => //= y l IH h; rewrite (h 0%N (ltn0Sn _)) IH // => b hb; exact: (h b.+1).
Qed.

Lemma Nmin_minn a b : Nat.min a b = minn a b.
Proof.
elim: a b => [|a IH] [|b] //=; rewrite ?min0n ?minn0 //.
by rewrite IH minnSS.
Qed.

(* (1) no near-zero diagonal entry anywhere in the batch: the oracle's result is returned
       unchanged.  No shape assumption at all (tall, square, fat, ragged). *)
Theorem stable_qr_unchanged oracle mats :
  (forall b, (b < size (oracle mats))%N ->
     let R := (nth dQR (oracle mats) b).2 in
     forall i, (i < minn (qnrows R) (qncols R))%N -> ~~ (`|get R i i| < thr)) ->
  stable_qr RA oracle mats = Some (oracle mats).
Proof.
move=> h; rewrite /stable_qr; case hany: (List.existsb _ _) => //.
move: hany; rewrite existsbP !Lmap_map -!map_comp has_map => /negPn; case/negP.
rewrite -all_predC; apply: (@all_nthP _ dQR) => b hb /=.
rewrite anyb_zeroish /qdiagonal Nmin_minn.
by apply/negbT/has_qtablF => i hi; rewrite add0n; apply: h.
Qed.

Lemma wf_all k n (QR : seq (qmat F * qmat F)) :
  (forall b, (b < size QR)%N -> qwf k n (nth dQR QR b).2) -> all (fun qr => qwf k n qr.2) QR.
Proof. by move=> h; apply: (@all_nthP _ dQR (fun qr => qwf k n qr.2)). Qed.

(* (2) exact description of the result for square R (tall or square input), whether or not
       the global `any` fires: Q is returned untouched, R' differs from R exactly on the
       diagonal entries with |R_ii| < thr, where thr * sgn1(R_ii) is added.  In particular the
       result for member b depends on member b only. *)
Theorem stable_qr_jitter_exact oracle mats k :
  (forall b, (b < size (oracle mats))%N -> qwf k k (nth dQR (oracle mats) b).2) ->
  exists QR', [/\ stable_qr RA oracle mats = Some QR', size QR' = size (oracle mats) &
    forall b, (b < size (oracle mats))%N ->
      let Q := (nth dQR (oracle mats) b).1 in let R := (nth dQR (oracle mats) b).2 in
      let Q' := (nth dQR QR' b).1 in let R' := (nth dQR QR' b).2 in
      [/\ Q' = Q, qwf k k R' &
          forall i j, (i < k)%N -> (j < k)%N ->
            get R' i j = if (i == j) && (`|get R i i| < thr)
                         then get R i i + thr * sgn1 (get R i i) else get R i j]].
Proof.
move=> hwf; have hall := wf_all hwf.
exists (map (fun qr => (qr.1, jittered k qr.2)) (oracle mats)).
split; [exact: stable_qr_square | by rewrite size_map |] => b hb /=.
rewrite (nth_map dQR) //=; split=> //; first exact: qwf_qtab.
by move=> i j hi hj; rewrite qget_qtab.
Qed.

(* (2') the global `any` is equivalent to member-wise application: a member without near-zero
        diagonal entries is returned unchanged even when another member triggers the branch *)
Theorem stable_qr_member_independent oracle mats k QR' b :
  (forall b, (b < size (oracle mats))%N -> qwf k k (nth dQR (oracle mats) b).2) ->
  stable_qr RA oracle mats = Some QR' ->
  (b < size (oracle mats))%N ->
  zeroish_free k (nth dQR (oracle mats) b).2 ->
  nth dQR QR' b = nth dQR (oracle mats) b.
Proof.
move=> hwf; rewrite (stable_qr_square (wf_all hwf)) => -[<-] hb hz.
rewrite (nth_map dQR) // jittered_free //; last exact: hwf.
by case: (nth _ _ _).
Qed.

Lemma jit_bound x : 0 < thr -> `|x| < thr -> thr <= `|x + thr * sgn1 x|.
Proof.
move=> ht hx; rewrite /sgn1; case: ltrP => h0.
  rewrite mulrN1 -opprB normrN ger0_norm; last by rewrite subr_ge0 ltW // (lt_trans h0).
  by rewrite ler_addl oppr_ge0 ltW.
by rewrite mulr1 ger0_norm ?ler_addr // addr_ge0 // ltW.
Qed.

(* (3) for thr > 0 every diagonal entry of R' is at least thr in absolute value *)
Theorem stable_qr_diag_bounded oracle mats k QR' b i :
  0 < thr ->
  (forall b, (b < size (oracle mats))%N -> qwf k k (nth dQR (oracle mats) b).2) ->
  stable_qr RA oracle mats = Some QR' ->
  (b < size (oracle mats))%N -> (i < k)%N ->
  thr <= `|get (nth dQR QR' b).2 i i|.
Proof.
move=> ht hwf; rewrite (stable_qr_square (wf_all hwf)) => -[<-] hb hi.
rewrite (nth_map dQR) //= qget_qtab // eqxx /=.
by case: ifP => [|/negbT]; [apply: jit_bound | rewrite -leNgt].
Qed.

(* ---- the fat cell: R is k x n with k < n (stable_qr called directly on a fat matrix) ---- *)
Lemma opt_all_None X Y (f : X -> option Y) l :
  l <> [::] -> (forall x, List.In x l -> f x = None) -> opt_all (List.map f l) = None.
Proof. by case: l => //= x l _ h; rewrite (h x) //; left. Qed.

(* 2 <= k < n and some near-zero diagonal entry in some member: the broadcasting addition
   `R + diag_embed(jitter)` (k x n plus k x k) raises *)
Theorem stable_qr_fat_raises oracle mats k n b i :
  (1 < k)%N -> (k < n)%N ->
  (forall b, (b < size (oracle mats))%N -> qwf k n (nth dQR (oracle mats) b).2) ->
  (b < size (oracle mats))%N -> (i < k)%N -> `|get (nth dQR (oracle mats) b).2 i i| < thr ->
  stable_qr RA oracle mats = None.
Proof.
move=> hk hkn hwf hb hi hz; have hall := wf_all hwf; rewrite /stable_qr.
case hany: (List.existsb _ _); last first.
  move/(has_zeroishF (ltnW hkn) hall): hany => /(_ _ (nth_In dQR hb)) /(_ i hi).
  by rewrite hz.
apply: opt_all_None; first by case: (oracle mats) hb.
case=> Q R /(all_In hall) /= hR; rewrite /add_jitter (qdiagonal_wf hR (ltnW hkn)) jitter_diagE.
rewrite /badd /diag_embed !length_size size_map size_qtabl (qwf_nrows hR) (qwf_ncols hR) ?(ltnW hk) //.
rewrite (qwf_nrows (qwf_qtab _ _ _)) (qwf_ncols (qwf_qtab _ _ _)) ?(ltnW hk) //.
rewrite /bcompat !Neqb_eq eqxx /= (gtn_eqF hkn) (gtn_eqF hk) (gtn_eqF (ltn_trans hk hkn)).
by [].
Qed.

(* k = 1 < n: no raise; the 1 x 1 jitter is BROADCAST over the whole row *)
Theorem stable_qr_fat_row_broadcast oracle mats n b :
  (1 < n)%N ->
  (forall b, (b < size (oracle mats))%N -> qwf 1 n (nth dQR (oracle mats) b).2) ->
  (b < size (oracle mats))%N -> `|get (nth dQR (oracle mats) b).2 0 0| < thr ->
  exists QR', [/\ stable_qr RA oracle mats = Some QR', size QR' = size (oracle mats) &
    forall c, (c < size (oracle mats))%N ->
      let R := (nth dQR (oracle mats) c).2 in let R' := (nth dQR QR' c).2 in
      forall j, (j < n)%N -> get R' 0 j = get R 0 j + jit (get R 0 0)].
Proof.
move=> hn hwf hb hz; have hall := wf_all hwf.
pose g (qr : qmat F * qmat F) := (qr.1, qtab 1 n (fun i j => get qr.2 0 j + jit (get qr.2 0 0))).
exists (map g (oracle mats)); split; last 1 first.
- by move=> c hc /= j hj; rewrite (nth_map dQR) //= qget_qtab.
- rewrite /stable_qr; case hany: (List.existsb _ _); last first.
    move/(has_zeroishF (ltnW hn) hall): hany => /(_ _ (nth_In dQR hb)) /(_ 0%N (ltnSn 0)).
    by rewrite hz.
  rewrite -Lmap_map; apply: opt_all_map => -[Q R] /(all_In hall) /= hR.
  rewrite /add_jitter (qdiagonal_wf hR (ltnW hn)) jitter_diagE.
  rewrite /badd /diag_embed !length_size size_map size_qtabl (qwf_nrows hR) (qwf_ncols hR) //.
  rewrite /bcompat /bdim /bidx !Neqb_eq /= (gtn_eqF hn) orbT /=.
  by congr (Some (_, _)).
- by rewrite size_map.
Qed.

(* ---- bridge to MathComp matrices ---- *)
Definition mx_of (m n : nat) (M : qmat F) : 'M[F]_(m, n) := \matrix_(i < m, j < n) get M i j.

(* R is upper triangular (the contract of torch.linalg.qr) *)
Definition upper_tri (k : nat) (R : qmat F) : Prop :=
  forall i j, (j < i)%N -> (i < k)%N -> get R i j = 0.

(* what solve_triangular(..., upper=True) reads of its first argument *)
Definition triu_mx (n : nat) (M : 'M[F]_n) : 'M[F]_n :=
  \matrix_(i, j) if (i <= j)%N then M i j else 0.

Lemma triu_mx_id n (R : qmat F) : upper_tri n R -> triu_mx (mx_of n n R) = mx_of n n R.
Proof.
move=> hR; apply/matrixP => i j; rewrite !mxE; case: leqP => // hji.
by rewrite hR.
Qed.

Lemma upper_unit n (M : 'M[F]_n) :
  (forall i j : 'I_n, (j < i)%N -> M i j = 0) -> (forall i, M i i != 0) -> M \in unitmx.
Proof.
move=> hU hD; rewrite unitmxE unitfE -det_tr det_trig.
  by apply/prodf_neq0 => i _; rewrite mxE.
by apply/is_trig_mxP => i j hij; rewrite mxE hU.
Qed.

Lemma triu_unit n (M : 'M[F]_n) : (forall i, M i i != 0) -> triu_mx M \in unitmx.
Proof.
move=> hD; apply: upper_unit => [i j hji|i]; rewrite mxE ?leqnn //.
by rewrite leqNgt hji.
Qed.

Lemma thr_neq0 (x : F) : 0 < thr -> thr <= `|x| -> x != 0.
Proof. by move=> ht hx; rewrite -normr_gt0 (lt_le_trans ht). Qed.

(* (4) after stable_qr, an upper-triangular square R' is invertible *)
Theorem stable_qr_unit oracle mats k QR' b :
  0 < thr ->
  (forall b, (b < size (oracle mats))%N -> qwf k k (nth dQR (oracle mats) b).2) ->
  stable_qr RA oracle mats = Some QR' ->
  (b < size (oracle mats))%N ->
  upper_tri k (nth dQR (oracle mats) b).2 ->
  upper_tri k (nth dQR QR' b).2 /\ mx_of k k (nth dQR QR' b).2 \in unitmx.
Proof.
move=> ht hwf hs hb hU.
have hD i : (i < k)%N -> get (nth dQR QR' b).2 i i != 0.
  by move=> hi; apply: (thr_neq0 ht); apply: (stable_qr_diag_bounded ht hwf hs hb hi).
have hU' : upper_tri k (nth dQR QR' b).2.
  move: hs; rewrite (stable_qr_square (wf_all hwf)) => -[<-] i j hji hi.
  rewrite (nth_map dQR) //= qget_qtab ?(ltn_trans hji) //.
  by rewrite (gtn_eqF hji) /= hU.
split=> //; apply: upper_unit => [i j hji|i]; rewrite !mxE; [exact: hU' | exact: hD].
Qed.

(* ---- solve_triangular(R, B, upper=True): back substitution ---- *)
Lemma qsum_fromE (f : nat -> F) lo k : qsum_from RA f lo k = \sum_(lo <= j < lo + k) f j.
Proof.
elim: k lo => [|k IH] lo /=; first by rewrite addn0 big_geq.
rewrite IH addSnnS [RHS]big_ltn //.
by rewrite -addSnnS ltnS leq_addr.
Qed.
Lemma backsubS (R : qmat F) (b : seq F) n k j :
  backsub RA R b n k.+1 j =
  if j == (n - k.+1)%N
  then (qnth RA b (n - k.+1)%N -
        qsum_from RA (fun l => get R (n - k.+1)%N l * backsub RA R b n k l) (n - k.+1)%N.+1 k)
       / get R (n - k.+1)%N (n - k.+1)%N
  else backsub RA R b n k j.
Proof. by rewrite /= Neqb_eq. Qed.

(* x solves rows i >= n-k of the (upper part of the) system R x = b *)
Lemma backsub_spec (R : qmat F) (b : seq F) n k :
  (k <= n)%N -> (forall i, (i < n)%N -> get R i i != 0) ->
  forall i, (n - k <= i)%N -> (i < n)%N ->
    \sum_(i <= j < n) get R i j * backsub RA R b n k j = qnth RA b i.
Proof.
move=> hk hD; elim: k hk => [|k IH] hk i.
  by rewrite subn0 => h1 h2; move: (leq_ltn_trans h1 h2); rewrite ltnn.
move=> hlo hi; set i0 := (n - k.+1)%N.
have hi0 : (i0 < n)%N by rewrite /i0 -subSn // subSS leq_subr.
have hi0k : (i0.+1 + k = n)%N by rewrite /i0 addSnnS subnK.
have hnk : (n - k = i0.+1)%N by rewrite -hi0k addnK.
move: hlo; rewrite leq_eqVlt => /orP [/eqP hE | hlt].
  rewrite -hE -/i0 big_ltn // backsubS -/i0 eqxx qsum_fromE hi0k.
  rewrite (@eq_big_nat _ _ _ _ _ (fun j => get R i0 j * backsub RA R b n k.+1 j)
                                 (fun j => get R i0 j * backsub RA R b n k j)); last first.
    by move=> j /andP [hj _]; rewrite backsubS -/i0 (gtn_eqF hj).
  by rewrite mulrC divfK ?hD // subrK.
rewrite (@eq_big_nat _ _ _ _ _ _ (fun j => get R i j * backsub RA R b n k j)); last first.
  by move=> j /andP [hj _]; rewrite backsubS -/i0 (gtn_eqF (leq_trans hlt hj)).
by apply: IH => //; [apply: ltnW | rewrite hnk].
Qed.

Lemma qwf_transpose m n (B : qmat F) : (0 < m)%N -> qwf m n B ->
  qtranspose RA B = qtab n m (fun i j => get B j i).
Proof. by move=> hm h; rewrite /qtranspose (qwf_nrows h) (qwf_ncols h). Qed.

Theorem solve_triangular_upper_spec n p (R B : qmat F) :
  (0 < n)%N -> qwf n n R -> qwf n p B -> (forall i, (i < n)%N -> get R i i != 0) ->
  exists X, [/\ solve_triangular_upper RA R B = Some X, qwf n p X &
                mx_of n p X = invmx (triu_mx (mx_of n n R)) *m mx_of n p B].
Proof.
move=> hn hR hB hD.
rewrite /solve_triangular_upper (qwf_nrows hR) (qwf_ncols hR) // (qwf_nrows hB) (qwf_ncols hB) //.
rewrite !Neqb_refl /= (qwf_transpose hn hB).
eexists; split; [reflexivity | exact: qwf_qtab |].
have hT : triu_mx (mx_of n n R) \in unitmx by apply: triu_unit => i; rewrite mxE hD.
apply: (canRL (mulKmx hT)).
apply/matrixP => i c; rewrite !mxE; have hc := ltn_ord c; have hi := ltn_ord i.
rewrite (eq_bigr (fun j : 'I_n => (if (i <= j)%N then get R i j *
           backsub RA R (qtabl (fun j0 => get B j0 c) 0 n) n n j else 0))); last first.
  move=> j _; rewrite !mxE qget_qtab //.
  rewrite qrow_qtabl // qnth_qtabl // qrow_qtabl // !add0n.
  by case: ifP => _; rewrite ?mul0r.
rewrite -(big_mkord xpredT (fun j => if (i <= j)%N then get R i j *
           backsub RA R (qtabl (fun j0 => get B j0 c) 0 n) n n j else 0)).
rewrite (@big_cat_nat _ _ _ i) //=; last exact: ltnW.
rewrite big_nat_cond big1 ?add0r; last first.
  by move=> j /andP [/andP [_ hj] _]; rewrite leqNgt hj.
rewrite (@eq_big_nat _ _ _ _ _ _ (fun j => get R i j *
           backsub RA R (qtabl (fun j0 => get B j0 c) 0 n) n n j)); last first.
  by move=> j /andP [-> _].
by rewrite backsub_spec // ?subnn // qnth_qtabl.
Qed.


(* ---- stable_pinverse ---- *)
Lemma Nleb_leq (a b : nat) : Nat.leb a b = (a <= b)%N.
Proof. by elim: a b => [|a IH] [|b] //=; rewrite IH. Qed.

Lemma opt_all_ex X Y (d : X) (e : Y) (f : X -> option Y) (P : X -> Y -> Prop) (l : seq X) :
  (forall b, (b < size l)%N -> exists2 y, f (nth d l b) = Some y & P (nth d l b) y) ->
  exists ys, [/\ opt_all (List.map f l) = Some ys, size ys = size l &
                 forall b, (b < size l)%N -> P (nth d l b) (nth e ys b)].
Proof.
elim: l => [|x l IH] h; first by exists [::].
have [y hy hP] := h 0%N (ltn0Sn _).
have [ys [hys hs hPs]] : exists ys, [/\ opt_all (List.map f l) = Some ys, size ys = size l &
                 forall b, (b < size l)%N -> P (nth d l b) (nth e ys b)].
  by apply: IH => b hb; apply: (h b.+1).
exists (y :: ys); split; rewrite /= ?hy ?hys ?hs //.
by case=> [|b] //=; rewrite ltnS; apply: hPs.
Qed.

Lemma mx_of_transpose m n (B : qmat F) : (0 < m)%N -> qwf m n B ->
  mx_of n m (qtranspose RA B) = (mx_of m n B)^T.
Proof.
move=> hm h; rewrite (qwf_transpose hm h); apply/matrixP => i j.
by rewrite !mxE qget_qtab.
Qed.

Lemma qwf_qtranspose m n (B : qmat F) : (0 < m)%N -> qwf m n B -> qwf n m (qtranspose RA B).
Proof. by move=> hm h; rewrite (qwf_transpose hm h); apply: qwf_qtab. Qed.

Lemma upper_tri_jittered k (R : qmat F) : upper_tri k R -> upper_tri k (jittered k R).
Proof.
move=> hU i j hji hi; rewrite qget_qtab ?(ltn_trans hji) //.
by rewrite (gtn_eqF hji) /= hU.
Qed.

Lemma jittered_diag_neq0 k (R : qmat F) i : 0 < thr -> (i < k)%N -> get (jittered k R) i i != 0.
Proof.
move=> ht hi; apply: (thr_neq0 ht); rewrite qget_qtab // eqxx /=.
by case: ifP => [|/negbT]; [apply: jit_bound | rewrite -leNgt].
Qed.

(* the result of the shared part of both branches: for every (Q, R) delivered by the oracle (Q n x k, R k x k upper
   triangular), stable_qr followed by solve_triangular(R', Q^T) yields  P = R'^-1 Q^T  with R' = R + jitter invertible *)
Lemma qr_solve_members n k (QR : seq (qmat F * qmat F)) :
  0 < thr -> (0 < k)%N -> (0 < n)%N ->
  (forall b, (b < size QR)%N ->
     [/\ qwf n k (nth dQR QR b).1, qwf k k (nth dQR QR b).2 & upper_tri k (nth dQR QR b).2]) ->
  exists Ps, [/\ opt_all (List.map (fun qr => solve_triangular_upper RA (snd qr) (qtranspose RA (fst qr)))
                                   (map (fun qr => (qr.1, jittered k qr.2)) QR)) = Some Ps,
                 size Ps = size QR &
     forall b, (b < size QR)%N ->
       let Q := mx_of n k (nth dQR QR b).1 in let R' := mx_of k k (jittered k (nth dQR QR b).2) in
       [/\ qwf k n (nth [::] Ps b), R' \in unitmx & mx_of k n (nth [::] Ps b) = invmx R' *m Q^T]].
Proof.
move=> ht hk hn h.
have := @opt_all_ex _ _ dQR [::] (fun qr => solve_triangular_upper RA (snd qr) (qtranspose RA (fst qr)))
  (fun qr P => [/\ qwf k n P, mx_of k k qr.2 \in unitmx & mx_of k n P = invmx (mx_of k k qr.2) *m (mx_of k n (qtranspose RA qr.1))])
  (map (fun qr => (qr.1, jittered k qr.2)) QR).
rewrite size_map; case.
  move=> b hb; rewrite (nth_map dQR) //=; have [hQ hR hU] := h b hb.
  have hD i : (i < k)%N -> get (jittered k (nth dQR QR b).2) i i != 0 by apply: jittered_diag_neq0.
  have [X [hX hwX hmX]] := solve_triangular_upper_spec hk (qwf_qtab _ _ _) (qwf_qtranspose hn hQ) hD.
  exists X => //; split=> //.
    apply: upper_unit => [i j hji|i]; rewrite !mxE; [|exact: hD].
    exact: (upper_tri_jittered hU).
  by rewrite hmX triu_mx_id //; apply: upper_tri_jittered.
move=> Ps [hPs hs hP]; exists Ps; split=> // b hb.
have := hP b hb; rewrite (nth_map dQR) //=; case=> h1 h2 h3; split=> //.
by rewrite h3 mx_of_transpose //; have [] := h b hb.
Qed.

(* tall / square input (n x k, k <= n): P_b = R'_b^-1 Q_b^T for every batch member *)
Theorem stable_pinverse_tall oracle mats n k :
  0 < thr -> (0 < k)%N -> (k <= n)%N -> (0 < size mats)%N ->
  (forall b, (b < size mats)%N -> qwf n k (nth [::] mats b)) ->
  (forall b, (b < size (oracle mats))%N ->
     [/\ qwf n k (nth dQR (oracle mats) b).1, qwf k k (nth dQR (oracle mats) b).2 &
         upper_tri k (nth dQR (oracle mats) b).2]) ->
  exists Ps, [/\ stable_pinverse RA oracle mats = Some Ps, size Ps = size (oracle mats) &
     forall b, (b < size (oracle mats))%N ->
       let Q := mx_of n k (nth dQR (oracle mats) b).1 in
       let R' := mx_of k k (jittered k (nth dQR (oracle mats) b).2) in
       [/\ qwf k n (nth [::] Ps b), R' \in unitmx & mx_of k n (nth [::] Ps b) = invmx R' *m Q^T]].
Proof.
move=> ht hk hkn hs hA hO; have hn : (0 < n)%N by apply: leq_trans hkn.
rewrite /stable_pinverse; case: mats hs hA hO => // A0 mats _ hA hO.
have hA0 := hA 0%N (ltn0Sn _); rewrite /= in hA0.
rewrite (qwf_ncols hA0) // (qwf_nrows hA0); rewrite Nleb_leq hkn.
have hall : all (fun qr => qwf k k qr.2) (oracle (A0 :: mats)).
  by apply: wf_all => b hb; have [] := hO b hb.
rewrite (stable_qr_square hall) /opt_bind.
exact: (qr_solve_members ht hk hn hO).
Qed.

(* fat input (k x n, k < n): stable_qr runs on the transposes and P_b = (R'_b^-1 Q_b^T)^T *)
Theorem stable_pinverse_fat oracle mats n k :
  0 < thr -> (0 < k)%N -> (k < n)%N -> (0 < size mats)%N ->
  (forall b, (b < size mats)%N -> qwf k n (nth [::] mats b)) ->
  let QR := oracle (List.map (qtranspose RA) mats) in
  (forall b, (b < size QR)%N ->
     [/\ qwf n k (nth dQR QR b).1, qwf k k (nth dQR QR b).2 & upper_tri k (nth dQR QR b).2]) ->
  exists Ps, [/\ stable_pinverse RA oracle mats = Some Ps, size Ps = size QR &
     forall b, (b < size QR)%N ->
       let Q := mx_of n k (nth dQR QR b).1 in let R' := mx_of k k (jittered k (nth dQR QR b).2) in
       [/\ qwf n k (nth [::] Ps b), R' \in unitmx & mx_of n k (nth [::] Ps b) = (invmx R' *m Q^T)^T]].
Proof.
move=> ht hk hkn hs hA QR hO; have hn : (0 < n)%N by apply: leq_trans hkn.
rewrite /stable_pinverse; case: mats hs hA @QR hO => // A0 mats _ hA QR hO.
have hA0 := hA 0%N (ltn0Sn _); rewrite /= in hA0.
rewrite (qwf_ncols hA0) // (qwf_nrows hA0).
rewrite Nleb_leq leqNgt hkn /=.
have hall : all (fun qr => qwf k k qr.2) QR by apply: wf_all => b hb; have [] := hO b hb.
rewrite -/QR (stable_qr_square hall) /opt_bind.
have [Ps [hPs hsz hP]] := qr_solve_members ht hk hn hO.
have := @opt_all_ex _ _ dQR [::]
  (fun qr => opt_map (qtranspose RA) (solve_triangular_upper RA (snd qr) (qtranspose RA (fst qr))))
  (fun qr P => True) (map (fun qr => (qr.1, jittered k qr.2)) QR).
(* direct route: opt_all (map (opt_map g o f)) = opt_map (map g) (opt_all (map f)) *)
move=> _.
have hmap X Y Z (f : X -> option Y) (g : Y -> Z) (l : seq X) ys :
    opt_all (List.map f l) = Some ys ->
    opt_all (List.map (fun x => opt_map g (f x)) l) = Some (map g ys).
  elim: l ys => [|x l IH] ys /=; first by case=> <-.
  case: (f x) => // y; case hl: (opt_all _) => [zs|] // [<-] /=.
  by rewrite (IH zs hl).
exists (map (qtranspose RA) Ps); split; [exact: (hmap _ _ _ _ _ _ _ hPs) | by rewrite size_map |].
move=> b hb; have [h1 h2 h3] := hP b hb.
rewrite (nth_map [::]) ?hsz //; split=> //; first exact: (qwf_qtranspose hk h1).
by rewrite mx_of_transpose // h3.
Qed.

End QRField.

(* ---- the algebra behind "pseudo-inverse" (pure MathComp, any field): if A = Q R with orthonormal columns
        (Q^T Q = 1) and R invertible, then P = R^-1 Q^T satisfies all four Moore-Penrose conditions and P A = 1 ---- *)
Section PinvAlgebra.
Variable F : fieldType.
Local Open Scope ring_scope.
Variables (n k : nat) (A Q : 'M[F]_(n, k)) (R : 'M[F]_k).
Hypothesis hA : A = Q *m R.
Hypothesis hQ : Q^T *m Q = 1%:M.
Hypothesis hR : R \in unitmx.
Let P := invmx R *m Q^T.

Lemma pinv_left_inverse : P *m A = 1%:M.
Proof. by rewrite /P hA mulmxA -(mulmxA (invmx R)) hQ mulmx1 mulVmx. Qed.

Lemma pinv_range_projector : A *m P = Q *m Q^T.
Proof. by rewrite /P hA mulmxA -(mulmxA Q) mulmxV // mulmx1. Qed.

Lemma pinv_penrose :
  [/\ A *m P *m A = A, P *m A *m P = P, (A *m P)^T = A *m P & (P *m A)^T = P *m A].
Proof.
split.
- by rewrite -mulmxA pinv_left_inverse mulmx1.
- by rewrite pinv_left_inverse mul1mx.
- by rewrite pinv_range_projector trmx_mul trmxK.
- by rewrite pinv_left_inverse trmx1.
Qed.
End PinvAlgebra.

(* fat case by transposition: A^T = Q R  ==>  P = (R^-1 Q^T)^T is a right inverse and satisfies the four conditions *)
Section PinvAlgebraFat.
Variable F : fieldType.
Local Open Scope ring_scope.
Variables (n k : nat) (A : 'M[F]_(k, n)) (Q : 'M[F]_(n, k)) (R : 'M[F]_k).
Hypothesis hA : A^T = Q *m R.
Hypothesis hQ : Q^T *m Q = 1%:M.
Hypothesis hR : R \in unitmx.
Let P := (invmx R *m Q^T)^T.

Lemma pinv_fat_right_inverse : A *m P = 1%:M.
Proof.
by rewrite /P -[A]trmxK -trmx_mul (pinv_left_inverse hA hQ hR) trmx1.
Qed.

Lemma pinv_fat_penrose :
  [/\ A *m P *m A = A, P *m A *m P = P, (A *m P)^T = A *m P & (P *m A)^T = P *m A].
Proof.
have [h1 h2 h3 h4] := pinv_penrose hA hQ hR.
split.
- by rewrite pinv_fat_right_inverse mul1mx.
- by rewrite -mulmxA pinv_fat_right_inverse mulmx1.
- by rewrite pinv_fat_right_inverse trmx1.
- have hPA : P *m A = (A^T *m (invmx R *m Q^T))^T by rewrite trmx_mul trmxK.
  by rewrite hPA trmxK h3.
Qed.
End PinvAlgebraFat.
