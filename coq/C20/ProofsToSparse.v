(* C20 — linear_operator/utils/sparse.py: to_sparse(dense) denotes the dense tensor *)
From Coq Require Import List ZArith Bool Arith Lia.
Import ListNotations.
Require Import C20.Model C20.ProofsBase C20.ProofsSparse.

Lemma eqb_unravel sh a ix : a < numel sh -> valid ix sh ->
  list_nat_eqb (unravel sh a) ix = (a =? ravel sh ix).
Proof.
  intros Ha Hv. destruct (Nat.eqb_spec a (ravel sh ix)) as [->|Hne].
  - rewrite unravel_ravel by auto. apply list_nat_eqb_refl.
  - destruct (list_nat_eqb (unravel sh a) ix) eqn:E; [|reflexivity].
    apply list_nat_eqb_eq in E. exfalso. apply Hne. rewrite <- E. symmetry. apply ravel_unravel. exact Ha.
Qed.

Lemma sval_filter_seq sh (f : nat -> bool) (v : nat -> Z) ix a m :
  a + m <= numel sh -> valid ix sh ->
  sval (map (fun p => (unravel sh p, v p)) (filter f (seq a m))) ix =
  let k := ravel sh ix in if (a <=? k) && (k <? a + m) && f k then v k else 0%Z.
Proof.
  intros Hle Hv. cbv zeta. set (k := ravel sh ix). revert a Hle. induction m as [|m IH]; intros a Hle.
  - simpl. replace (a + 0) with a by lia.
    destruct (Nat.leb_spec a k); destruct (Nat.ltb_spec k a); try lia; reflexivity.
  - cbn [seq filter]. destruct (f a) eqn:Efa.
    + cbn [map]. rewrite sval_cons, IH by lia. cbn [fst snd]. rewrite eqb_unravel by (auto; lia). fold k.
      destruct (Nat.eqb_spec a k) as [Hak|Hne].
      * rewrite <- Hak. rewrite Efa. replace (a <=? a) with true by (symmetry; apply Nat.leb_le; lia).
        replace (a <? a + S m) with true by (symmetry; apply Nat.ltb_lt; lia).
        replace (S a <=? a) with false by (symmetry; apply Nat.leb_gt; lia). cbn [andb]. ring.
      * destruct (Nat.leb_spec a k); destruct (Nat.leb_spec (S a) k); try lia;
          destruct (Nat.ltb_spec k (a + S m)); destruct (Nat.ltb_spec k (S a + m)); try lia; cbn [andb]; ring.
    + rewrite IH by lia.
      destruct (Nat.eqb_spec a k) as [Hak|Hne].
      * rewrite <- Hak. rewrite Efa, !andb_false_r. reflexivity.
      * destruct (Nat.leb_spec a k); destruct (Nat.leb_spec (S a) k); try lia;
          destruct (Nat.ltb_spec k (a + S m)); destruct (Nat.ltb_spec k (S a + m)); try lia; reflexivity.
Qed.

Lemma valid_zeros sh : 0 < numel sh -> valid (repeat 0 (length sh)) sh.
Proof.
  induction sh as [|d sh IH]; simpl; [auto|]. intros H. assert (0 < d /\ 0 < numel sh) by nia. tauto.
Qed.

Lemma to_sparse_correct d :
  0 < numel (tshape d) ->
  exists s, to_sparse d = Ok s /\ sshape s = tshape d /\ swf s = true /\
    forall ix, valid ix (tshape d) -> tat (sdense s) ix = tat d ix.
Proof.
  intros Hpos. unfold to_sparse, mk_sparse, ndim.
  set (sh := tshape d). set (N := numel sh) in *.
  set (f := fun p => negb (Z.eqb (tat d (unravel sh p)) 0)).
  set (nz := filter f (seq 0 N)).
  set (ents := match nz with [] => [(repeat 0 (length sh), 0%Z)] | _ :: _ => map (fun p => (unravel sh p, tat d (unravel sh p))) nz end).
  assert (Hwf : swf (mkS sh ents) = true).
  { apply swf_spec. cbn [sent sshape]. intros e Hin. unfold ents in Hin. destruct nz as [|p0 nz'] eqn:Enz.
    - destruct Hin as [<-|[]]. cbn [fst]. apply valid_zeros. exact Hpos.
    - apply in_map_iff in Hin. destruct Hin as [p [<- Hp]]. cbn [fst]. apply unravel_valid.
      rewrite <- Enz in Hp. apply filter_In in Hp. destruct Hp as [Hp _]. apply in_seq in Hp. lia. }
  rewrite Hwf. eexists. split; [reflexivity|]. split; [reflexivity|]. split; [exact Hwf|].
  intros ix Hv. rewrite sdense_at. cbn [sent].
  pose proof (sval_filter_seq sh f (fun p => tat d (unravel sh p)) ix 0 N (le_n _) Hv) as Hs. cbv zeta in Hs.
  fold nz in Hs. pose proof (ravel_lt _ _ Hv) as Hlt. fold N in Hlt.
  replace (0 <=? ravel sh ix) with true in Hs by reflexivity.
  replace (ravel sh ix <? 0 + N) with true in Hs by (symmetry; apply Nat.ltb_lt; lia). cbn [andb] in Hs.
  rewrite unravel_ravel in Hs by auto.
  assert (Hval : sval (map (fun p => (unravel sh p, tat d (unravel sh p))) nz) ix = tat d ix).
  { rewrite Hs. unfold f. rewrite unravel_ravel by auto. destruct (Z.eqb_spec (tat d ix) 0); cbn [negb]; auto. }
  unfold ents. destruct nz as [|p0 nz']; [|exact Hval].
  cbn [map] in Hval. rewrite sval_nil in Hval. rewrite sval_cons, sval_nil. cbn [snd].
  destruct (list_nat_eqb _ _); rewrite <- Hval; reflexivity.
Qed.
