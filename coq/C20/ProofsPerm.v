(* C20 — linear_operator/utils/permutation.py *)
From Coq Require Import List ZArith Bool Arith Lia.
Import ListNotations.
Require Import C20.Model C20.ProofsBase C20.ProofsSparse C20.ProofsRepeat.

(* ------------------------------------------------------------------------------------------ *)
(* inverse_permutation: zeros_like(perm).scatter_(-1, perm, arange) *)

(* the scatter loop on one batch member: for k = 0..n-1: res[p k] = k *)
Definition scat (n : nat) (p : nat -> nat) : nat -> Z :=
  loop n (fun k (res : nat -> Z) => fun i' => if i' =? p k then Z.of_nat k else res i') (fun _ => 0%Z).

Definition inj_on (n : nat) (p : nat -> nat) : Prop := forall k1 k2, k1 < n -> k2 < n -> p k1 = p k2 -> k1 = k2.

Lemma scat_hit n p k : inj_on n p -> k < n -> scat n p (p k) = Z.of_nat k.
Proof.
  unfold scat. induction n; intros Hinj Hk; [lia|]. rewrite loop_S.
  destruct (Nat.eqb_spec (p k) (p n)) as [E|E].
  - f_equal. apply Hinj; auto.
  - apply IHn.
    + intros a b Ha Hb. apply Hinj; lia.
    + destruct (Nat.eq_dec k n); [subst; congruence|lia].
Qed.

Lemma scat_miss n p i : (forall k, k < n -> p k <> i) -> scat n p i = 0%Z.
Proof.
  unfold scat. induction n; intros H; [reflexivity|]. rewrite loop_S.
  destruct (Nat.eqb_spec i (p n)) as [E|E].
  - exfalso. apply (H n); auto.
  - apply IHn. intros; apply H; lia.
Qed.

Lemma scat_range n p i : (0 <= scat n p i < Z.of_nat (S n))%Z.
Proof.
  unfold scat. induction n; [simpl; lia|]. rewrite loop_S.
  destruct (i =? p n); lia.
Qed.

(* an injective map of {0..n-1} into itself is onto (pigeonhole) *)
Lemma inj_on_surj n p : inj_on n p -> (forall k, k < n -> p k < n) -> forall i, i < n -> exists k, k < n /\ p k = i.
Proof.
  intros Hinj Hr i Hi.
  assert (Hnd : NoDup (map p (seq 0 n))).
  { assert (G : forall m s, s + m <= n -> NoDup (map p (seq s m))).
    { induction m; intros s Hs; simpl; constructor.
      - intros Hin. apply in_map_iff in Hin. destruct Hin as [x [Hx Hin]]. apply in_seq in Hin.
        assert (x = s) by (apply Hinj; lia). lia.
      - apply IHm. lia. }
    apply G. lia. }
  assert (Hincl : incl (map p (seq 0 n)) (seq 0 n)).
  { intros x Hin. apply in_map_iff in Hin. destruct Hin as [k [<- Hk]]. apply in_seq in Hk. apply in_seq.
    specialize (Hr k). lia. }
  assert (Hrev : incl (seq 0 n) (map p (seq 0 n))).
  { apply NoDup_length_incl; auto. rewrite map_length. lia. }
  specialize (Hrev i). destruct (proj1 (in_map_iff _ _ _) (Hrev (proj2 (in_seq _ _ _) (conj (Nat.le_0_l i) Hi)))) as [k [E Hk]].
  apply in_seq in Hk. exists k. split; [lia|auto].
Qed.

Definition prow (perm : tensor) (b : list nat) (k : nat) : nat := idx_at perm (k :: b).

(* `perm` is a batch of permutations of {0..n-1}: every entry in range, every row injective *)
Definition is_perm_batch (perm : tensor) (n : nat) (bs : shape) : Prop :=
  tshape perm = n :: bs /\
  (forall k b, k < n -> valid b bs -> (0 <= tat perm (k :: b) < Z.of_nat n)%Z) /\
  (forall b, valid b bs -> inj_on n (prow perm b)).

Lemma inverse_permutation_correct perm n bs :
  is_perm_batch perm n bs ->
  exists inv, inverse_permutation perm = Ok inv /\ tshape inv = n :: bs /\
    (forall k b, k < n -> valid b bs -> tat inv (prow perm b k :: b) = Z.of_nat k) /\
    (forall i b, i < n -> valid b bs -> (0 <= tat inv (i :: b) < Z.of_nat n)%Z /\ prow perm b (idx_at inv (i :: b)) = i).
Proof.
  intros [Hs [Hr Hinj]]. unfold inverse_permutation, ndim, dim0. rewrite Hs. cbn [length nth Nat.eqb].
  assert (Hall : all_lt perm n = true).
  { apply all_lt_spec. rewrite Hs. intros [|k b]; cbn [valid]; [tauto|]. intros [Hk Hb]. apply Hr; auto. }
  rewrite Hall. cbn [negb].
  eexists. split; [reflexivity|]. split; [reflexivity|]. split.
  - intros k b Hk Hb. cbn [tat]. apply (scat_hit n (prow perm b) k); auto.
  - intros i b Hi Hb. cbn [tat].
    assert (Hrange : forall k, k < n -> prow perm b k < n).
    { intros k Hk. unfold prow. apply idx_at_lt. apply Hr; auto. }
    destruct (inj_on_surj n (prow perm b) (Hinj b Hb) Hrange i Hi) as [k [Hk E]].
    change (loop n _ _ i) with (scat n (prow perm b) i).
    rewrite <- E. rewrite (scat_hit n (prow perm b) k); auto. split; [lia|].
    unfold idx_at at 1. cbn [tat]. change (loop n _ _ (prow perm b k)) with (scat n (prow perm b) (prow perm b k)).
    rewrite (scat_hit n (prow perm b) k); auto. rewrite Nat2Z.id. reflexivity.
Qed.

(* an index outside [0, n) makes scatter_ raise *)
Lemma inverse_permutation_raises perm n bs ix :
  tshape perm = n :: bs -> valid ix (n :: bs) -> ~ (0 <= tat perm ix < Z.of_nat n)%Z ->
  inverse_permutation perm = Err.
Proof.
  intros Hs Hv Hbad. unfold inverse_permutation, ndim, dim0. rewrite Hs. cbn [length nth Nat.eqb].
  destruct (all_lt perm n) eqn:E; [|reflexivity].
  exfalso. apply Hbad. apply (proj1 (all_lt_spec perm n) E). rewrite Hs. exact Hv.
Qed.

(* ------------------------------------------------------------------------------------------ *)
(* apply_permutation: batch-aware advanced indexing  M[batch_idx..., left.unsqueeze(-1), right.unsqueeze(-2)] *)

Lemma nth_bcast_ix s ix p :
  p < length s -> p < length ix -> nth p (bcast_ix s ix) 0 = if nth p s 0 =? 1 then 0 else nth p ix 0.
Proof.
  revert ix p; induction s as [|d s IH]; intros [|i ix] [|p]; simpl; try lia; auto.
  intros H1 H2. apply IH; lia.
Qed.

Lemma bcast_ix_length s ix : length s <= length ix -> length (bcast_ix s ix) = length s.
Proof. revert ix; induction s; intros [|i ix]; simpl; try lia. intros; f_equal; apply IHs; lia. Qed.

Lemma nth_upd_nth_same {A} (l : list A) p v d : p < length l -> nth p (upd_nth p v l) d = v.
Proof. revert p; induction l; intros [|p]; simpl; try lia; auto. intros; apply IHl; lia. Qed.

Lemma length_upd_nth {A} (l : list A) p v : length (upd_nth p v l) = length l.
Proof. revert p; induction l; intros [|p]; simpl; auto. Qed.

(* the k batch index tensors select, at an output position ix = j :: i :: b, the batch entry of M that
   broadcasting assigns to b *)
Lemma batch_idx_select (Mshape : shape) ncols nrows rbatch j i b :
  Mshape = ncols :: nrows :: rbatch -> length rbatch <= length b ->
  map (fun I => idx_at I (bcast_ix (tshape I) (j :: i :: b)))
      (map (fun pos => mkT (upd_nth pos (nth pos Mshape 0) (repeat 1 (length rbatch + 2)))
                           (fun ix => Z.of_nat (nth pos ix 0)))
           (seq 2 (length rbatch)))
  = bcast_ix rbatch b.
Proof.
  intros -> Hl. rewrite map_map. apply (nth_ext _ _ 0 0).
  - rewrite map_length, seq_length, bcast_ix_length; auto.
  - intros p Hp. rewrite map_length, seq_length in Hp.
    rewrite nth_map_seq by auto. unfold idx_at. cbn [tat tshape]. rewrite Nat2Z.id.
    rewrite nth_bcast_ix.
    + rewrite nth_upd_nth_same by (rewrite repeat_length; lia).
      rewrite nth_bcast_ix by lia. reflexivity.
    + rewrite length_upd_nth, repeat_length. lia.
    + simpl. lia.
Qed.

Lemma broadcast_shapes_length a b r : broadcast_shapes a b = Some r -> length r = Nat.max (length a) (length b).
Proof.
  revert b r; induction a as [|x a IH]; intros b r; simpl.
  - intros E; inversion E; reflexivity.
  - destruct b as [|y b]; [intros E; inversion E; reflexivity|].
    destruct (broadcast_shapes a b) as [r'|] eqn:E'; [|discriminate].
    specialize (IH _ _ E').
    destruct (x =? y); [intros E; inversion E; simpl; auto|].
    destruct (x =? 1); [intros E; inversion E; simpl; auto|].
    destruct (y =? 1); [intros E; inversion E; simpl; auto|discriminate].
Qed.

Lemma broadcast_all_length l r s : broadcast_all l = Some r -> In s l -> length s <= length r.
Proof.
  revert r; induction l as [|s0 l IH]; intros r; simpl; [tauto|].
  destruct (broadcast_all l) as [r'|] eqn:E; [|discriminate].
  intros Hb [->|Hin]; apply broadcast_shapes_length in Hb.
  - lia.
  - specialize (IH _ eq_refl Hin). lia.
Qed.

(* value of apply_permutation; `left` is (pbl..., kl), `right` is (pbr..., kr), M is (rbatch..., nrows, ncols);
   the batch shapes broadcast (right-aligned) against each other *)
Definition perm_or_arange (p : option tensor) (n : nat) : tensor := match p with Some t => t | None => arange n end.

Lemma apply_permutation_value M left right ncols nrows rbatch kl pbl kr pbr out :
  tshape M = ncols :: nrows :: rbatch ->
  (left <> None \/ right <> None) ->
  tshape (perm_or_arange left nrows) = kl :: pbl -> tshape (perm_or_arange right ncols) = kr :: pbr ->
  apply_permutation M left right = Ok out ->
  forall j i b, j < kr -> i < kl -> valid (j :: i :: b) (tshape out) ->
    tat out (j :: i :: b) =
    tat M (idx_at (perm_or_arange right ncols) (j :: bcast_ix pbr b) ::
           idx_at (perm_or_arange left nrows) (i :: bcast_ix pbl b) :: bcast_ix rbatch b).
Proof.
  intros HM Hsome Hl Hr. unfold apply_permutation. rewrite HM.
  set (L := perm_or_arange left nrows) in *. set (R := perm_or_arange right ncols) in *.
  assert (E0 : forall X : result tensor,
     match left, right with None, None => Ok M | _, _ => X end = X).
  { intros X. destruct left, right; try reflexivity. destruct Hsome; congruence. }
  rewrite E0. clear E0.
  change (match left with Some l => l | None => arange nrows end) with L.
  change (match right with Some r => r | None => arange ncols end) with R.
  destruct ((ndim L =? 0) || (ndim R =? 0)); [discriminate|].
  unfold adv_index.
  match goal with |- context [negb ?c] => destruct c; cbn [negb]; [|discriminate] end.
  match goal with |- context [broadcast_all ?l] => destruct (broadcast_all l) as [os|] eqn:Eb; [|discriminate] end.
  match goal with |- context [negb ?c] => destruct c; cbn [negb]; [|discriminate] end.
  intros E; inversion E; subst out; clear E. intros j i b Hj Hi Hv. cbn [tshape] in Hv. cbn [tat map].
  assert (Hlen : length rbatch <= length b).
  { pose proof (valid_length _ _ Hv) as Hlv. cbn [map] in Eb.
    destruct rbatch as [|d0 rb']; [simpl; lia|].
    assert (Hin : In (upd_nth 2 (nth 2 (ncols :: nrows :: d0 :: rb') 0) (repeat 1 (length (d0 :: rb') + 2)))
                     (tshape (unsqueeze1 R) :: tshape (unsqueeze0 L) ::
                      map tshape (map (fun pos => mkT (upd_nth pos (nth pos (ncols :: nrows :: d0 :: rb') 0) (repeat 1 (length (d0 :: rb') + 2)))
                           (fun ix => Z.of_nat (nth pos ix 0))) (seq 2 (length (d0 :: rb')))))).
    { right. right. simpl. left. reflexivity. }
    pose proof (broadcast_all_length _ _ _ Eb Hin) as Hle. rewrite length_upd_nth, repeat_length in Hle.
    simpl in Hlv, Hle |- *. lia. }
  f_equal. f_equal; [|f_equal].
  - unfold unsqueeze1, idx_at. rewrite Hr. cbn [tshape tat bcast_ix].
    destruct (Nat.eqb_spec kr 1); [|reflexivity]. replace j with 0 by lia. reflexivity.
  - unfold unsqueeze0, idx_at. rewrite Hl. cbn [tshape tat bcast_ix tl].
    destruct (Nat.eqb_spec kl 1); [|reflexivity]. replace i with 0 by lia. reflexivity.
  - exact (batch_idx_select (ncols :: nrows :: rbatch) ncols nrows rbatch j i b eq_refl Hlen).
Qed.

(* no permutation at all: the matrix itself *)
Lemma apply_permutation_none M : apply_permutation M None None = Ok M.
Proof. reflexivity. Qed.

(* ---- broadcasting the k batch-index shapes (all ones except one position) gives (1, 1, batch...) ---- *)
Lemma bs_ones_prefix q X Y :
  broadcast_shapes (repeat 1 q ++ X) (repeat 1 q ++ Y) =
  match broadcast_shapes X Y with Some r => Some (repeat 1 q ++ r) | None => None end.
Proof.
  induction q as [|q IH]; [simpl; destruct (broadcast_shapes X Y); reflexivity|].
  cbn [repeat app broadcast_shapes]. rewrite IH. destruct (broadcast_shapes X Y); reflexivity.
Qed.

Lemma bs_ones_left Y : broadcast_shapes (repeat 1 (length Y)) Y = Some Y.
Proof.
  induction Y as [|y Y IH]; [reflexivity|]. cbn [length repeat broadcast_shapes]. rewrite IH.
  destruct (Nat.eqb_spec 1 y) as [<-|]; reflexivity.
Qed.

Lemma bs_dim_one d A B r : broadcast_shapes A B = Some r -> broadcast_shapes (d :: A) (1 :: B) = Some (d :: r).
Proof.
  intros E. cbn [broadcast_shapes]. rewrite E. destruct (Nat.eqb_spec d 1) as [->|]; reflexivity.
Qed.

Lemma bs_one_dim d A B r : broadcast_shapes A B = Some r -> broadcast_shapes (1 :: A) (d :: B) = Some (d :: r).
Proof.
  intros E. cbn [broadcast_shapes]. rewrite E. destruct (Nat.eqb_spec 1 d) as [<-|]; reflexivity.
Qed.

Lemma upd_nth_ones p d t : upd_nth p d (repeat 1 (p + S t)) = repeat 1 p ++ d :: repeat 1 t.
Proof. induction p as [|p IH]; [reflexivity|]. cbn [plus repeat upd_nth app]. rewrite IH. reflexivity. Qed.

Lemma skipn_nth_cons {A} (l : list A) a d : a < length l -> skipn a l = nth a l d :: skipn (S a) l.
Proof.
  revert a; induction l as [|x l IH]; intros [|a] H; simpl in *; try lia; [reflexivity|]. apply IH. lia.
Qed.

Lemma batch_idx_shapes ncols nrows rbatch : forall m a, a + m = length rbatch ->
  broadcast_all (map (fun pos => upd_nth pos (nth pos (ncols :: nrows :: rbatch) 0) (repeat 1 (length rbatch + 2)))
                     (seq (2 + a) m))
  = Some (if m =? 0 then [] else repeat 1 (2 + a) ++ skipn a rbatch).
Proof.
  induction m as [|m IH]; intros a Ha; [reflexivity|].
  cbn [seq map broadcast_all]. change (S (2 + a)) with (2 + S a). rewrite (IH (S a)) by lia. clear IH.
  change (nth (2 + a) (ncols :: nrows :: rbatch) 0) with (nth a rbatch 0).
  replace (length rbatch + 2) with ((2 + a) + S m) by lia. rewrite upd_nth_ones.
  rewrite (skipn_nth_cons rbatch a 0) by lia. cbn [Nat.eqb].
  destruct m as [|m]; cbn [Nat.eqb].
  - rewrite broadcast_shapes_nil_r. cbn [repeat]. rewrite skipn_all2 by lia. reflexivity.
  - replace (repeat 1 (2 + S a)) with (repeat 1 (2 + a) ++ [1]) by (rewrite <- repeat_cons; reflexivity).
    rewrite <- app_assoc. cbn [app]. rewrite bs_ones_prefix.
    rewrite (bs_dim_one _ _ _ (skipn (S a) rbatch)); [reflexivity|].
    replace (S m) with (length (skipn (S a) rbatch)) by (rewrite skipn_length; lia). apply bs_ones_left.
Qed.

Lemma bidx_all_lt pos d n : pos < n ->
  all_lt (mkT (upd_nth pos d (repeat 1 n)) (fun ix => Z.of_nat (nth pos ix 0))) d = true.
Proof.
  intros Hp. apply all_lt_spec. cbn [tshape tat]. intros ix Hv. apply valid_nth in Hv.
  rewrite length_upd_nth', repeat_length in Hv. destruct Hv as [_ Hv]. specialize (Hv pos Hp).
  rewrite nth_upd_nth, Nat.eqb_refl, repeat_length in Hv.
  replace (pos <? n) with true in Hv by (symmetry; apply Nat.ltb_lt; lia). cbn [andb] in Hv. lia.
Qed.

Lemma bidx_forallb ncols nrows rbatch : forall l a, l = skipn a rbatch -> a + length l = length rbatch ->
  forallb (fun p : tensor * nat => all_lt (fst p) (snd p))
    (combine (map (fun pos => mkT (upd_nth pos (nth pos (ncols :: nrows :: rbatch) 0) (repeat 1 (length rbatch + 2)))
                                  (fun ix => Z.of_nat (nth pos ix 0))) (seq (2 + a) (length l))) l) = true.
Proof.
  induction l as [|d l IH]; intros a Hl Hlen; [reflexivity|].
  cbn [length seq map combine forallb fst snd]. simpl in Hlen.
  rewrite (skipn_nth_cons rbatch a 0) in Hl by lia. inversion Hl as [[Hd Hl']].
  change (nth (2 + a) (ncols :: nrows :: rbatch) 0) with (nth a rbatch 0).
  rewrite bidx_all_lt by lia. cbn [andb]. change (S (2 + a)) with (2 + S a). rewrite <- Hl'. apply IH; [exact Hl'|lia].
Qed.

(* apply_permutation is total on in-range (partial) permutations whose batch shapes broadcast; the result shape *)
Lemma apply_permutation_total M left right ncols nrows rbatch kl pbl kr pbr ob1 ob :
  tshape M = ncols :: nrows :: rbatch ->
  (left <> None \/ right <> None) ->
  let L := perm_or_arange left nrows in let R := perm_or_arange right ncols in
  tshape L = kl :: pbl -> tshape R = kr :: pbr ->
  (forall ix, valid ix (kl :: pbl) -> (0 <= tat L ix < Z.of_nat nrows)%Z) ->
  (forall ix, valid ix (kr :: pbr) -> (0 <= tat R ix < Z.of_nat ncols)%Z) ->
  broadcast_shapes pbl rbatch = Some ob1 -> broadcast_shapes pbr ob1 = Some ob ->
  exists out, apply_permutation M left right = Ok out /\ tshape out = kr :: kl :: ob.
Proof.
  intros HM Hsome L R Hl Hr HLr HRr Hb1 Hb2. unfold apply_permutation. rewrite HM.
  assert (E0 : forall X : result tensor,
     match left, right with None, None => Ok M | _, _ => X end = X).
  { intros X. destruct left, right; try reflexivity. destruct Hsome; congruence. }
  rewrite E0. clear E0.
  change (match left with Some l => l | None => arange nrows end) with L.
  change (match right with Some r => r | None => arange ncols end) with R.
  unfold ndim. rewrite Hl, Hr. cbn [length Nat.eqb orb].
  unfold adv_index. cbn [length]. rewrite map_length, seq_length. unfold ndim. rewrite HM. cbn [length].
  rewrite Nat.eqb_refl. cbn [negb map].
  set (k := length rbatch).
  pose proof (batch_idx_shapes ncols nrows rbatch k 0 ltac:(unfold k; lia)) as HBA.
  rewrite map_map. cbn [tshape].
  change (2 + 0) with 2 in HBA. fold k in HBA.
  assert (Hsh : broadcast_all (tshape (unsqueeze1 R) :: tshape (unsqueeze0 L) ::
             map (fun pos => upd_nth pos (nth pos (ncols :: nrows :: rbatch) 0) (repeat 1 (k + 2))) (seq 2 k))
             = Some (kr :: kl :: ob)).
  { cbn [broadcast_all]. rewrite HBA. unfold unsqueeze1, unsqueeze0. cbn [tshape]. rewrite Hl, Hr.
    destruct (Nat.eqb_spec k 0) as [Hk0|Hk0].
    - assert (rbatch = []) by (destruct rbatch; [reflexivity|unfold k in Hk0; simpl in Hk0; lia]). subst rbatch.
      rewrite broadcast_shapes_nil_r in Hb1. inversion Hb1; subst ob1.
      rewrite broadcast_shapes_nil_r.
      apply bs_dim_one. apply bs_one_dim. exact Hb2.
    - cbn [repeat app skipn plus].
      rewrite (bs_one_dim 1 (kl :: pbl) (1 :: rbatch) (kl :: ob1)) by (apply bs_dim_one; exact Hb1).
      apply bs_dim_one. apply bs_one_dim. exact Hb2. }
  match goal with |- context [broadcast_all ?l] => replace (broadcast_all l) with (Some (kr :: kl :: ob)) by (symmetry; exact Hsh) end.
  assert (Hchk : forallb (fun p : tensor * nat => all_lt (fst p) (snd p))
              (combine (unsqueeze1 R :: unsqueeze0 L ::
                 map (fun pos => mkT (upd_nth pos (nth pos (ncols :: nrows :: rbatch) 0) (repeat 1 (k + 2)))
                                     (fun ix => Z.of_nat (nth pos ix 0))) (seq 2 k)) (ncols :: nrows :: rbatch)) = true).
  { cbn [combine forallb fst snd]. apply andb_true_iff. split; [|apply andb_true_iff; split].
    - apply all_lt_spec. unfold unsqueeze1. cbn [tshape tat]. rewrite Hr. intros ix Hv.
      destruct ix as [|j [|x b]]; simpl in Hv; try tauto. apply HRr. simpl. tauto.
    - apply all_lt_spec. unfold unsqueeze0. cbn [tshape tat]. rewrite Hl. intros ix Hv.
      destruct ix as [|x b]; simpl in Hv; try tauto. apply HLr. simpl. tauto.
    - exact (bidx_forallb ncols nrows rbatch rbatch 0 eq_refl eq_refl). }
  rewrite Hchk. cbn [negb]. eexists. split; reflexivity.
Qed.
