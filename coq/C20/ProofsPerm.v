(* C20 — linear_operator/utils/permutation.py *)
From Coq Require Import List ZArith Bool Arith Lia.
Import ListNotations.
Require Import C20.Model C20.ProofsBase.

(* ------------------------------------------------------------------------------------------ *)
(* inverse_permutation: zeros_like(perm).scatter_(-1, perm, arange) *)

(* the scatter loop on one batch member: for k = 0..n-1: res[p k] = k *)
Definition scat (n : nat) (p : nat -> nat) : nat -> Z :=
  loop n (fun k (res : nat -> Z) => fun i' => if i' =? p k then Z.of_nat k else res i') (fun _ => 0%Z).

Definition inj_on (n : nat) (p : nat -> nat) : Prop := forall k1 k2, k1 < n -> k2 < n -> p k1 = p k2 -> k1 = k2.

Lemma scat_hit n p k : inj_on n p -> k < n -> scat n p (p k) = Z.of_nat k.
Proof.
  unfold scat. induction n; intros Hinj Hk; [lia|]. rewrite loop_S.
  destruct (Nat.eqb_spec (p k) (p n)) as [E|E].
  - f_equal. apply Hinj; auto.
  - apply IHn.
    + intros a b Ha Hb. apply Hinj; lia.
    + destruct (Nat.eq_dec k n); [subst; congruence|lia].
Qed.

Lemma scat_miss n p i : (forall k, k < n -> p k <> i) -> scat n p i = 0%Z.
Proof.
  unfold scat. induction n; intros H; [reflexivity|]. rewrite loop_S.
  destruct (Nat.eqb_spec i (p n)) as [E|E].
  - exfalso. apply (H n); auto.
  - apply IHn. intros; apply H; lia.
Qed.

Lemma scat_range n p i : (0 <= scat n p i < Z.of_nat (S n))%Z.
Proof.
  unfold scat. induction n; [simpl; lia|]. rewrite loop_S.
  destruct (i =? p n); lia.
Qed.

(* an injective map of {0..n-1} into itself is onto (pigeonhole) *)
Lemma inj_on_surj n p : inj_on n p -> (forall k, k < n -> p k < n) -> forall i, i < n -> exists k, k < n /\ p k = i.
Proof.
  intros Hinj Hr i Hi.
  assert (Hnd : NoDup (map p (seq 0 n))).
  { assert (G : forall m s, s + m <= n -> NoDup (map p (seq s m))).
    { induction m; intros s Hs; simpl; constructor.
      - intros Hin. apply in_map_iff in Hin. destruct Hin as [x [Hx Hin]]. apply in_seq in Hin.
        assert (x = s) by (apply Hinj; lia). lia.
      - apply IHm. lia. }
    apply G. lia. }
  assert (Hincl : incl (map p (seq 0 n)) (seq 0 n)).
  { intros x Hin. apply in_map_iff in Hin. destruct Hin as [k [<- Hk]]. apply in_seq in Hk. apply in_seq.
    specialize (Hr k). lia. }
  assert (Hrev : incl (seq 0 n) (map p (seq 0 n))).
  { apply NoDup_length_incl; auto. rewrite map_length. lia. }
  specialize (Hrev i). destruct (proj1 (in_map_iff _ _ _) (Hrev (proj2 (in_seq _ _ _) (conj (Nat.le_0_l i) Hi)))) as [k [E Hk]].
  apply in_seq in Hk. exists k. split; [lia|auto].
Qed.

Definition prow (perm : tensor) (b : list nat) (k : nat) : nat := idx_at perm (k :: b).

(* `perm` is a batch of permutations of {0..n-1}: every entry in range, every row injective *)
Definition is_perm_batch (perm : tensor) (n : nat) (bs : shape) : Prop :=
  tshape perm = n :: bs /\
  (forall k b, k < n -> valid b bs -> (0 <= tat perm (k :: b) < Z.of_nat n)%Z) /\
  (forall b, valid b bs -> inj_on n (prow perm b)).

Lemma inverse_permutation_correct perm n bs :
  is_perm_batch perm n bs ->
  exists inv, inverse_permutation perm = Ok inv /\ tshape inv = n :: bs /\
    (forall k b, k < n -> valid b bs -> tat inv (prow perm b k :: b) = Z.of_nat k) /\
    (forall i b, i < n -> valid b bs -> (0 <= tat inv (i :: b) < Z.of_nat n)%Z /\ prow perm b (idx_at inv (i :: b)) = i).
Proof.
  intros [Hs [Hr Hinj]]. unfold inverse_permutation, ndim, dim0. rewrite Hs. cbn [length nth Nat.eqb].
  assert (Hall : all_lt perm n = true).
  { apply all_lt_spec. rewrite Hs. intros [|k b]; cbn [valid]; [tauto|]. intros [Hk Hb]. apply Hr; auto. }
  rewrite Hall. cbn [negb].
  eexists. split; [reflexivity|]. split; [reflexivity|]. split.
  - intros k b Hk Hb. cbn [tat]. apply (scat_hit n (prow perm b) k); auto.
  - intros i b Hi Hb. cbn [tat].
    assert (Hrange : forall k, k < n -> prow perm b k < n).
    { intros k Hk. unfold prow. apply idx_at_lt. apply Hr; auto. }
    destruct (inj_on_surj n (prow perm b) (Hinj b Hb) Hrange i Hi) as [k [Hk E]].
    change (loop n _ _ i) with (scat n (prow perm b) i).
    rewrite <- E. rewrite (scat_hit n (prow perm b) k); auto. split; [lia|].
    unfold idx_at at 1. cbn [tat]. change (loop n _ _ (prow perm b k)) with (scat n (prow perm b) (prow perm b k)).
    rewrite (scat_hit n (prow perm b) k); auto. rewrite Nat2Z.id. reflexivity.
Qed.

(* an index outside [0, n) makes scatter_ raise *)
Lemma inverse_permutation_raises perm n bs ix :
  tshape perm = n :: bs -> valid ix (n :: bs) -> ~ (0 <= tat perm ix < Z.of_nat n)%Z ->
  inverse_permutation perm = Err.
Proof.
  intros Hs Hv Hbad. unfold inverse_permutation, ndim, dim0. rewrite Hs. cbn [length nth Nat.eqb].
  destruct (all_lt perm n) eqn:E; [|reflexivity].
  exfalso. apply Hbad. apply (proj1 (all_lt_spec perm n) E). rewrite Hs. exact Hv.
Qed.

(* ------------------------------------------------------------------------------------------ *)
(* apply_permutation: batch-aware advanced indexing  M[batch_idx..., left.unsqueeze(-1), right.unsqueeze(-2)] *)

Lemma nth_bcast_ix s ix p :
  p < length s -> p < length ix -> nth p (bcast_ix s ix) 0 = if nth p s 0 =? 1 then 0 else nth p ix 0.
Proof.
  revert ix p; induction s as [|d s IH]; intros [|i ix] [|p]; simpl; try lia; auto.
  intros H1 H2. apply IH; lia.
Qed.

Lemma bcast_ix_length s ix : length s <= length ix -> length (bcast_ix s ix) = length s.
Proof. revert ix; induction s; intros [|i ix]; simpl; try lia. intros; f_equal; apply IHs; lia. Qed.

Lemma nth_upd_nth_same {A} (l : list A) p v d : p < length l -> nth p (upd_nth p v l) d = v.
Proof. revert p; induction l; intros [|p]; simpl; try lia; auto. intros; apply IHl; lia. Qed.

Lemma length_upd_nth {A} (l : list A) p v : length (upd_nth p v l) = length l.
Proof. revert p; induction l; intros [|p]; simpl; auto. Qed.

(* the k batch index tensors select, at an output position ix = j :: i :: b, the batch entry of M that
   broadcasting assigns to b *)
Lemma batch_idx_select (Mshape : shape) ncols nrows rbatch j i b :
  Mshape = ncols :: nrows :: rbatch -> length rbatch <= length b ->
  map (fun I => idx_at I (bcast_ix (tshape I) (j :: i :: b)))
      (map (fun pos => mkT (upd_nth pos (nth pos Mshape 0) (repeat 1 (length rbatch + 2)))
                           (fun ix => Z.of_nat (nth pos ix 0)))
           (seq 2 (length rbatch)))
  = bcast_ix rbatch b.
Proof.
  intros -> Hl. rewrite map_map. apply (nth_ext _ _ 0 0).
  - rewrite map_length, seq_length, bcast_ix_length; auto.
  - intros p Hp. rewrite map_length, seq_length in Hp.
    rewrite nth_map_seq by auto. unfold idx_at. cbn [tat tshape]. rewrite Nat2Z.id.
    rewrite nth_bcast_ix.
    + rewrite nth_upd_nth_same by (rewrite repeat_length; lia).
      rewrite nth_bcast_ix by lia. reflexivity.
    + rewrite length_upd_nth, repeat_length. lia.
    + simpl. lia.
Qed.

Lemma broadcast_shapes_length a b r : broadcast_shapes a b = Some r -> length r = Nat.max (length a) (length b).
Proof.
  revert b r; induction a as [|x a IH]; intros b r; simpl.
  - intros E; inversion E; reflexivity.
  - destruct b as [|y b]; [intros E; inversion E; reflexivity|].
    destruct (broadcast_shapes a b) as [r'|] eqn:E'; [|discriminate].
    specialize (IH _ _ E').
    destruct (x =? y); [intros E; inversion E; simpl; auto|].
    destruct (x =? 1); [intros E; inversion E; simpl; auto|].
    destruct (y =? 1); [intros E; inversion E; simpl; auto|discriminate].
Qed.

Lemma broadcast_all_length l r s : broadcast_all l = Some r -> In s l -> length s <= length r.
Proof.
  revert r; induction l as [|s0 l IH]; intros r; simpl; [tauto|].
  destruct (broadcast_all l) as [r'|] eqn:E; [|discriminate].
  intros Hb [->|Hin]; apply broadcast_shapes_length in Hb.
  - lia.
  - specialize (IH _ eq_refl Hin). lia.
Qed.

(* value of apply_permutation; `left` is (pbl..., kl), `right` is (pbr..., kr), M is (rbatch..., nrows, ncols);
   the batch shapes broadcast (right-aligned) against each other *)
Definition perm_or_arange (p : option tensor) (n : nat) : tensor := match p with Some t => t | None => arange n end.

Lemma apply_permutation_value M left right ncols nrows rbatch kl pbl kr pbr out :
  tshape M = ncols :: nrows :: rbatch ->
  (left <> None \/ right <> None) ->
  tshape (perm_or_arange left nrows) = kl :: pbl -> tshape (perm_or_arange right ncols) = kr :: pbr ->
  apply_permutation M left right = Ok out ->
  forall j i b, j < kr -> i < kl -> valid (j :: i :: b) (tshape out) ->
    tat out (j :: i :: b) =
    tat M (idx_at (perm_or_arange right ncols) (j :: bcast_ix pbr b) ::
           idx_at (perm_or_arange left nrows) (i :: bcast_ix pbl b) :: bcast_ix rbatch b).
Proof.
  intros HM Hsome Hl Hr. unfold apply_permutation. rewrite HM.
  set (L := perm_or_arange left nrows) in *. set (R := perm_or_arange right ncols) in *.
  assert (E0 : forall X : result tensor,
     match left, right with None, None => Ok M | _, _ => X end = X).
  { intros X. destruct left, right; try reflexivity. destruct Hsome; congruence. }
  rewrite E0. clear E0.
  change (match left with Some l => l | None => arange nrows end) with L.
  change (match right with Some r => r | None => arange ncols end) with R.
  destruct ((ndim L =? 0) || (ndim R =? 0)); [discriminate|].
  unfold adv_index.
  match goal with |- context [negb ?c] => destruct c; cbn [negb]; [|discriminate] end.
  match goal with |- context [broadcast_all ?l] => destruct (broadcast_all l) as [os|] eqn:Eb; [|discriminate] end.
  match goal with |- context [negb ?c] => destruct c; cbn [negb]; [|discriminate] end.
  intros E; inversion E; subst out; clear E. intros j i b Hj Hi Hv. cbn [tshape] in Hv. cbn [tat map].
  assert (Hlen : length rbatch <= length b).
  { pose proof (valid_length _ _ Hv) as Hlv. cbn [map] in Eb.
    destruct rbatch as [|d0 rb']; [simpl; lia|].
    assert (Hin : In (upd_nth 2 (nth 2 (ncols :: nrows :: d0 :: rb') 0) (repeat 1 (length (d0 :: rb') + 2)))
                     (tshape (unsqueeze1 R) :: tshape (unsqueeze0 L) ::
                      map tshape (map (fun pos => mkT (upd_nth pos (nth pos (ncols :: nrows :: d0 :: rb') 0) (repeat 1 (length (d0 :: rb') + 2)))
                           (fun ix => Z.of_nat (nth pos ix 0))) (seq 2 (length (d0 :: rb')))))).
    { right. right. simpl. left. reflexivity. }
    pose proof (broadcast_all_length _ _ _ Eb Hin) as Hle. rewrite length_upd_nth, repeat_length in Hle.
    simpl in Hlv, Hle |- *. lia. }
  f_equal. f_equal; [|f_equal].
  - unfold unsqueeze1, idx_at. rewrite Hr. cbn [tshape tat bcast_ix].
    destruct (Nat.eqb_spec kr 1); [|reflexivity]. replace j with 0 by lia. reflexivity.
  - unfold unsqueeze0, idx_at. rewrite Hl. cbn [tshape tat bcast_ix tl].
    destruct (Nat.eqb_spec kl 1); [|reflexivity]. replace i with 0 by lia. reflexivity.
  - exact (batch_idx_select (ncols :: nrows :: rbatch) ncols nrows rbatch j i b eq_refl Hlen).
Qed.

(* no permutation at all: the matrix itself *)
Lemma apply_permutation_none M : apply_permutation M None None = Ok M.
Proof. reflexivity. Qed.
