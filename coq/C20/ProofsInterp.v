(* C20 — linear_operator/utils/interpolation.py: left_interp = W x *)
From Coq Require Import List ZArith Bool Arith Lia.
Import ListNotations.
Require Import C20.Model C20.ProofsBase.

(* the dense interpolation matrix of one row: W[row, k] = sum_q [idx[row, q] = k] * vals[row, q]
   (duplicate indices SUM) *)
Definition Wrow (q : nat) (idx : nat -> nat) (val : nat -> Z) (k : nat) : Z :=
  zsum q (fun a => if idx a =? k then val a else 0%Z).

(* gather form = matrix form: sum_a val a * x (idx a) = sum_k W[k] * x k, provided every index is < n *)
Lemma interp_matrix_form q n idx val (x : nat -> Z) :
  (forall a, a < q -> idx a < n) ->
  zsum q (fun a => (x (idx a) * val a)%Z) = zsum n (fun k => (Wrow q idx val k * x k)%Z).
Proof.
  intros Hr. unfold Wrow.
  transitivity (zsum n (fun k => zsum q (fun a => ((if (idx a =? k)%nat then val a else 0) * x k)%Z))).
  - rewrite zsum_swap. apply zsum_ext. intros a Ha.
    rewrite (zsum_onehot n (idx a) x (val a)) by auto. ring.
  - apply zsum_ext. intros k Hk. rewrite zsum_mul_r. reflexivity.
Qed.

(* ---- vector right-hand side: rhs.index_select(0, idx.view(-1)).view(vals.size()).mul(vals).sum(-1) ---- *)
Lemma left_interp_vector_correct idx vals rhs q s n :
  tshape idx = q :: s -> tshape vals = q :: s -> tshape rhs = [n] ->
  (forall ix, valid ix (q :: s) -> (0 <= tat idx ix < Z.of_nat n)%Z) ->
  exists out, left_interp idx vals rhs = Ok out /\ tshape out = s /\
    forall b, valid b s ->
      tat out b = zsum q (fun a => (tat rhs [idx_at idx (a :: b)] * tat vals (a :: b))%Z).
Proof.
  intros Hi Hv Hr Hrange. unfold left_interp, ndim, dim0. rewrite Hr, Hi, Hv. cbn [length Nat.eqb nth].
  rewrite Nat.eqb_refl. cbn [negb].
  assert (Hall : all_lt idx n = true) by (apply all_lt_spec; rewrite Hi; exact Hrange).
  rewrite Hall. cbn [negb].
  eexists. split; [reflexivity|]. split; [reflexivity|].
  intros b Hb. unfold sum0, tmul, tmap2, reshape, index_select0, dim0. cbn [tat tshape nth].
  apply zsum_ext. intros a Ha. f_equal. f_equal. f_equal.
  assert (Hva : valid (a :: b) (q :: s)) by (split; auto).
  pose proof (ravel_lt _ _ Hva) as Hlt.
  unfold idx_at. cbn [tat tshape]. rewrite Hi. f_equal. f_equal.
  set (N := numel (q :: s)) in *. set (k := ravel (q :: s) (a :: b)) in *.
  assert (E : ravel [N] (unravel [N] k) = k).
  { cbn [unravel ravel]. rewrite Nat.mod_small by exact Hlt. lia. }
  rewrite E. apply unravel_ravel. exact Hva.
Qed.

(* ---- matrix right-hand side (gather along dim -3), batch shapes ib of (idx, vals) and rb of rhs broadcast to bc ---- *)
Lemma left_interp_matrix_correct idx vals rhs q r ib c n rb bc :
  tshape idx = q :: r :: ib -> tshape vals = q :: r :: ib -> tshape rhs = c :: n :: rb ->
  broadcast_shapes ib rb = Some bc ->
  (forall ix, valid ix (q :: r :: ib) -> (0 <= tat idx ix < Z.of_nat n)%Z) ->
  exists out, left_interp idx vals rhs = Ok out /\ tshape out = c :: r :: bc /\
    forall col row b, col < c -> row < r -> valid b bc ->
      tat out (col :: row :: b) =
      zsum q (fun a => (tat rhs (col :: idx_at idx (a :: row :: bcast_ix ib b) :: bcast_ix rb b)
                        * tat vals (a :: row :: bcast_ix ib b))%Z).
Proof.
  intros Hi Hv Hr Hb Hrange. unfold left_interp, ndim. rewrite Hr, Hi, Hv. cbn [length Nat.eqb].
  unfold matmul_broadcast_shape. rewrite Nat.eqb_refl, Hb. cbn [bind skipn].
  destruct (broadcast_shapes_expandable _ _ _ Hb) as [Ei Er].
  cbn [expandable]. rewrite !Nat.eqb_refl, Ei. cbn [orb andb negb]. rewrite orb_true_r. cbn [andb negb].
  assert (Hall : all_lt idx n = true) by (apply all_lt_spec; rewrite Hi; exact Hrange).
  rewrite Hall. cbn [negb].
  eexists. split; [reflexivity|]. split; [reflexivity|].
  intros col row b Hc Hrow Hvb.
  unfold sum1, tmul, tmap2, gather2, expand, unsqueeze0, unsqueeze1, dim1, idx_at. cbn [tat tshape nth bcast_ix tl].
  rewrite Hi, Hv, Hr. cbn [tat tshape nth bcast_ix tl].
  apply zsum_ext. intros a Ha.
  assert (Hvalid : valid (a :: row :: bcast_ix ib b) (q :: r :: ib)).
  { split; [auto|]. split; [auto|]. apply (bcast_ix_valid ib bc); auto. }
  pose proof (Hrange _ Hvalid) as Hrg.
  replace (if q =? 1 then 0 else a) with a by (destruct (Nat.eqb_spec q 1); lia).
  replace (if r =? 1 then 0 else row) with row by (destruct (Nat.eqb_spec r 1); lia).
  replace (if c =? 1 then 0 else col) with col by (destruct (Nat.eqb_spec c 1); lia).
  set (V := tat idx (a :: row :: bcast_ix ib b)) in *.
  replace (if n =? 1 then 0 else Z.to_nat V) with (Z.to_nat V) by (destruct (Nat.eqb_spec n 1); lia).
  reflexivity.
Qed.

(* an index >= num_data: index_select / gather raise *)
Lemma left_interp_index_raises idx vals rhs q r ib c n rb ix :
  tshape idx = q :: r :: ib -> tshape vals = q :: r :: ib -> tshape rhs = c :: n :: rb ->
  valid ix (q :: r :: ib) -> ~ (0 <= tat idx ix < Z.of_nat n)%Z ->
  left_interp idx vals rhs = Err.
Proof.
  intros Hi Hv Hr Hvx Hbad. unfold left_interp, ndim. rewrite Hr, Hi, Hv. cbn [length Nat.eqb].
  destruct (matmul_broadcast_shape (n :: r :: ib) (c :: n :: rb)); [|reflexivity]. cbn [bind].
  match goal with |- context [negb ?c] => destruct c; cbn [negb]; [|reflexivity] end.
  destruct (all_lt idx n) eqn:E; [|reflexivity].
  exfalso. apply Hbad. apply (proj1 (all_lt_spec idx n) E). rewrite Hi. exact Hvx.
Qed.
