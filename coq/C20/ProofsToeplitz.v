(* C20 — linear_operator/utils/toeplitz.py: the transcribed kernels equal the dense Toeplitz definition *)
From Coq Require Import List ZArith Bool Arith Lia.
Import ListNotations.
Require Import C20.Model C20.ProofsBase.

(* ------------------------------------------------------------------------------------------ *)
(* toeplitz / sym_toeplitz: the two fill loops *)

Lemma mset_shape t i j v : tshape (mset t i j v) = tshape t.
Proof. reflexivity. Qed.

Lemma mset_at t i j v a b :
  tat (mset t i j v) [b; a] = if (a =? i) && (b =? j) then v else tat t [b; a].
Proof. reflexivity. Qed.

(* an inner loop writes the same value v at the positions (fa j, fb j), j < m *)
Lemma inner_shape m fa fb v t :
  tshape (loop m (fun j res => mset res (fa j) (fb j) v) t) = tshape t.
Proof. induction m; simpl; auto. Qed.

Lemma inner_hit m (fa fb : nat -> nat) v t a b :
  (exists j, j < m /\ fa j = a /\ fb j = b) ->
  tat (loop m (fun j res => mset res (fa j) (fb j) v) t) [b; a] = v.
Proof.
  induction m; intros [j [Hj [Ha Hb]]]; [lia|]. rewrite loop_S, mset_at.
  destruct ((a =? fa m) && (b =? fb m)) eqn:E; [reflexivity|].
  apply IHm. exists j. repeat split; auto.
  destruct (Nat.eq_dec j m) as [->|]; [|lia].
  subst. rewrite !Nat.eqb_refl in E. discriminate.
Qed.

Lemma inner_miss m (fa fb : nat -> nat) v t a b :
  (forall j, j < m -> ~ (fa j = a /\ fb j = b)) ->
  tat (loop m (fun j res => mset res (fa j) (fb j) v) t) [b; a] = tat t [b; a].
Proof.
  induction m; intros H; [reflexivity|]. rewrite loop_S, mset_at.
  destruct (Nat.eqb_spec a (fa m)); destruct (Nat.eqb_spec b (fb m)); simpl;
    try (apply IHm; intros; apply H; lia).
  exfalso. apply (H m); auto.
Qed.

(* first loop nest: for i < k, for j < n - i: res[j + i, j] = c i *)
Definition fill_lower (n k : nat) (c : nat -> Z) (t : tensor) : tensor :=
  loop k (fun i res => loop (n - i) (fun j res => mset res (j + i) j (c i)) res) t.

Lemma fill_lower_shape n k c t : tshape (fill_lower n k c t) = tshape t.
Proof. unfold fill_lower. induction k; simpl; auto. rewrite inner_shape. auto. Qed.

Lemma fill_lower_at n k c t a b :
  tat (fill_lower n k c t) [b; a] =
  if (b <=? a) && (a - b <? k) && (a <? n) then c (a - b) else tat t [b; a].
Proof.
  unfold fill_lower. induction k; simpl.
  - rewrite andb_false_r. reflexivity.
  - destruct (Nat.leb_spec b a); destruct (Nat.ltb_spec a n); simpl.
    + destruct (Nat.eq_dec (a - b) k) as [E|E].
      * rewrite (inner_hit (n - k) (fun j => j + k) (fun j => j)).
        -- replace (a - b <? S k) with true by (symmetry; apply Nat.ltb_lt; lia). subst; reflexivity.
        -- exists b. lia.
      * rewrite (inner_miss (n - k) (fun j => j + k) (fun j => j)) by (intros; lia).
        rewrite IHk. replace (b <=? a) with true by (symmetry; apply Nat.leb_le; lia).
        replace (a <? n) with true by (symmetry; apply Nat.ltb_lt; lia). simpl.
        destruct (Nat.ltb_spec (a - b) k); destruct (Nat.ltb_spec (a - b) (S k)); try reflexivity; lia.
    + rewrite (inner_miss (n - k) (fun j => j + k) (fun j => j)) by (intros; lia).
      rewrite IHk. replace (a <? n) with false by (symmetry; apply Nat.ltb_ge; lia).
      rewrite !andb_false_r. reflexivity.
    + rewrite (inner_miss (n - k) (fun j => j + k) (fun j => j)) by (intros; lia).
      rewrite IHk. replace (b <=? a) with false by (symmetry; apply Nat.leb_gt; lia). reflexivity.
    + rewrite (inner_miss (n - k) (fun j => j + k) (fun j => j)) by (intros; lia).
      rewrite IHk. replace (b <=? a) with false by (symmetry; apply Nat.leb_gt; lia). reflexivity.
Qed.

(* second loop nest: for i = 1 .. k, for j < n - i: res[j, j + i] = r i *)
Definition fill_upper (n k : nat) (r : nat -> Z) (t : tensor) : tensor :=
  loop k (fun i' res => let i := S i' in loop (n - i) (fun j res => mset res j (j + i) (r i)) res) t.

Lemma fill_upper_shape n k r t : tshape (fill_upper n k r t) = tshape t.
Proof. unfold fill_upper. induction k; simpl; auto. rewrite inner_shape. auto. Qed.

Lemma fill_upper_at n k r t a b :
  tat (fill_upper n k r t) [b; a] =
  if (a <? b) && (b - a <=? k) && (b <? n) then r (b - a) else tat t [b; a].
Proof.
  unfold fill_upper. induction k; simpl.
  - destruct (Nat.ltb_spec a b); simpl; [|reflexivity].
    replace (b - a <=? 0) with false by (symmetry; apply Nat.leb_gt; lia). reflexivity.
  - destruct (Nat.ltb_spec a b); destruct (Nat.ltb_spec b n); simpl.
    + destruct (Nat.eq_dec (b - a) (S k)) as [E|E].
      * rewrite (inner_hit (n - S k) (fun j => j) (fun j => j + S k)).
        -- replace (b - a <=? S k) with true by (symmetry; apply Nat.leb_le; lia). rewrite E; reflexivity.
        -- exists a. lia.
      * rewrite (inner_miss (n - S k) (fun j => j) (fun j => j + S k)) by (intros; lia).
        rewrite IHk. replace (a <? b) with true by (symmetry; apply Nat.ltb_lt; lia).
        replace (b <? n) with true by (symmetry; apply Nat.ltb_lt; lia). simpl.
        destruct (Nat.leb_spec (b - a) k); destruct (Nat.leb_spec (b - a) (S k)); try reflexivity; lia.
    + rewrite (inner_miss (n - S k) (fun j => j) (fun j => j + S k)) by (intros; lia).
      rewrite IHk. replace (b <? n) with false by (symmetry; apply Nat.ltb_ge; lia).
      rewrite !andb_false_r. reflexivity.
    + rewrite (inner_miss (n - S k) (fun j => j) (fun j => j + S k)) by (intros; lia).
      rewrite IHk. replace (a <? b) with false by (symmetry; apply Nat.ltb_ge; lia). reflexivity.
    + rewrite (inner_miss (n - S k) (fun j => j) (fun j => j + S k)) by (intros; lia).
      rewrite IHk. replace (a <? b) with false by (symmetry; apply Nat.ltb_ge; lia). reflexivity.
Qed.

Definition vec (t : tensor) (k : nat) : Z := tat t [k].

(* toeplitz(c, r) = the dense Toeplitz matrix, whatever torch.empty contained (g) *)
Lemma toeplitz_correct g c r n :
  1 <= n -> tshape c = [n] -> tshape r = [n] -> tat c [0] = tat r [0] ->
  exists t, toeplitz g c r = Ok t /\ tshape t = [n; n] /\
            forall i j, i < n -> j < n -> tat t [j; i] = Tspec (vec c) (vec r) i j.
Proof.
  intros Hn Hc Hr H0. unfold toeplitz, ndim, dim0. rewrite Hc, Hr. simpl.
  destruct n as [|n]; [lia|]. simpl.
  rewrite H0, Z.eqb_refl, Nat.eqb_refl. simpl.
  destruct n as [|n].
  - simpl. eexists; split; [reflexivity|]. split; [reflexivity|].
    intros i j Hi Hj. assert (i = 0) by lia. assert (j = 0) by lia. subst. simpl.
    rewrite Hc. reflexivity.
  - change (S (S n) =? 1) with false. cbv iota.
    set (N := S (S n)).
    exists (fill_upper N (N - 1) (vec r) (fill_lower N N (vec c) (full [N; N] g))).
    split; [reflexivity|]. split.
    + rewrite fill_upper_shape, fill_lower_shape. reflexivity.
    + intros i j Hi Hj. rewrite fill_upper_at, fill_lower_at. unfold Tspec.
      destruct (Nat.leb_spec j i).
      * replace (i <? j) with false by (symmetry; apply Nat.ltb_ge; lia). simpl.
        replace (i - j <? N) with true by (symmetry; apply Nat.ltb_lt; lia).
        replace (i <? N) with true by (symmetry; apply Nat.ltb_lt; lia). reflexivity.
      * replace (i <? j) with true by (symmetry; apply Nat.ltb_lt; lia).
        replace (j - i <=? N - 1) with true by (symmetry; apply Nat.leb_le; lia).
        replace (j <? N) with true by (symmetry; apply Nat.ltb_lt; lia). reflexivity.
Qed.

Lemma sym_toeplitz_correct g c n :
  1 <= n -> tshape c = [n] ->
  exists t, sym_toeplitz g c = Ok t /\ tshape t = [n; n] /\
            forall i j, i < n -> j < n -> tat t [j; i] = vec c (if j <=? i then i - j else j - i).
Proof.
  intros Hn Hc. destruct (toeplitz_correct g c c n Hn Hc Hc eq_refl) as [t [E [Hs Hv]]].
  exists t. split; [exact E|]. split; [exact Hs|].
  intros i j Hi Hj. rewrite Hv by auto. unfold Tspec. destruct (j <=? i); reflexivity.
Qed.

(* the guards: T[0,0] ambiguous, or different lengths -> the library raises *)
Lemma toeplitz_raises g c r :
  (ndim c <> 1 \/ ndim r <> 1 \/ tat c [0] <> tat r [0] \/ dim0 c <> dim0 r) -> toeplitz g c r = Err.
Proof.
  unfold toeplitz. intros H.
  destruct (Nat.eqb_spec (ndim c) 1); simpl; [|reflexivity].
  destruct (Nat.eqb_spec (ndim r) 1); simpl; [|reflexivity].
  destruct ((dim0 c =? 0) || (dim0 r =? 0)); [reflexivity|].
  destruct (Z.eqb_spec (tat c [0]) (tat r [0])); simpl; [|reflexivity].
  destruct (Nat.eqb_spec (dim0 c) (dim0 r)); simpl; [|reflexivity].
  exfalso. tauto.
Qed.

(* ------------------------------------------------------------------------------------------ *)
(* toeplitz_getitem / sym_toeplitz_getitem *)
Lemma toeplitz_getitem_correct c r n i j :
  tshape c = [n] -> tshape r = [n] -> i < n -> j < n ->
  toeplitz_getitem c r (Z.of_nat i) (Z.of_nat j) = Ok (Tspec (vec c) (vec r) i j).
Proof.
  intros Hc Hr Hi Hj. unfold toeplitz_getitem, py_getitem1, dim0, Tspec, vec. rewrite Hc, Hr. simpl.
  destruct (Nat.leb_spec j i).
  - replace (Z.of_nat i - Z.of_nat j <? 0)%Z with false by (symmetry; apply Z.ltb_ge; lia).
    replace (0 <=? Z.of_nat i - Z.of_nat j)%Z with true by (symmetry; apply Z.leb_le; lia).
    replace (Z.of_nat i - Z.of_nat j <? Z.of_nat n)%Z with true by (symmetry; apply Z.ltb_lt; lia).
    simpl. do 3 f_equal. lia.
  - replace (Z.of_nat i - Z.of_nat j <? 0)%Z with true by (symmetry; apply Z.ltb_lt; lia).
    replace (0 <=? Z.abs (Z.of_nat i - Z.of_nat j))%Z with true by (symmetry; apply Z.leb_le; lia).
    replace (Z.abs (Z.of_nat i - Z.of_nat j) <? Z.of_nat n)%Z with true by (symmetry; apply Z.ltb_lt; lia).
    simpl. do 3 f_equal. lia.
Qed.

Lemma sym_toeplitz_getitem_correct c n i j :
  tshape c = [n] -> i < n -> j < n ->
  sym_toeplitz_getitem c (Z.of_nat i) (Z.of_nat j) = Ok (vec c (if j <=? i then i - j else j - i)).
Proof.
  intros Hc Hi Hj. unfold sym_toeplitz_getitem. rewrite (toeplitz_getitem_correct c c n) by auto.
  unfold Tspec. destruct (j <=? i); reflexivity.
Qed.

(* ------------------------------------------------------------------------------------------ *)
(* the circulant embedding: circular convolution with [c ; reversed r] = Toeplitz product *)
Definition crr (n : nat) (cf rf : nat -> Z) (m : nat) : Z :=
  if (n <=? m) && (m <? n + (n - 1)) then rf (1 + (n - 1 - 1 - (m - n)))
  else if m <? n then cf m else 0%Z.

Lemma circ_toeplitz n (cf rf x : nat -> Z) i : 1 <= n -> i < n ->
  zsum (2 * n - 1) (fun k => (crr n cf rf ((i + (2 * n - 1) - k) mod (2 * n - 1))%nat * (if (k <? n)%nat then x k else 0))%Z)
  = zsum n (fun k => (Tspec cf rf i k * x k)%Z).
Proof.
  intros Hn Hi. replace (2 * n - 1) with (n + (n - 1)) by lia. rewrite zsum_app.
  rewrite (zsum_zero (n - 1)).
  2:{ intros k Hk. replace (n + k <? n) with false by (symmetry; apply Nat.ltb_ge; lia). ring. }
  rewrite Z.add_0_r. apply zsum_ext. intros k Hk.
  replace (k <? n) with true by (symmetry; apply Nat.ltb_lt; lia). f_equal.
  unfold Tspec, crr. destruct (Nat.leb_spec k i).
  - replace (i + (n + (n - 1)) - k) with ((i - k) + 1 * (n + (n - 1))) by lia.
    rewrite Nat.mod_add by lia. rewrite Nat.mod_small by lia.
    replace (n <=? i - k) with false by (symmetry; apply Nat.leb_gt; lia). simpl.
    replace (i - k <? n) with true by (symmetry; apply Nat.ltb_lt; lia). reflexivity.
  - rewrite Nat.mod_small by lia.
    replace (n <=? i + (n + (n - 1)) - k) with true by (symmetry; apply Nat.leb_le; lia).
    replace (i + (n + (n - 1)) - k <? n + (n - 1)) with true by (symmetry; apply Nat.ltb_lt; lia).
    simpl. f_equal. lia.
Qed.


Lemma toeplitz_matmul_core_correct c r M n p tb mb bc :
  1 <= n ->
  tshape c = n :: tb -> tshape r = n :: tb -> tshape M = p :: n :: mb ->
  broadcast_shapes tb mb = Some bc ->
  (forall b, valid b tb -> tat c (0 :: b) = tat r (0 :: b)) ->
  exists out, toeplitz_matmul_core c r M = Ok out /\ tshape out = p :: n :: bc /\
    forall j i b, j < p -> i < n -> valid b bc ->
      tat out (j :: i :: b) =
      zsum n (fun k => (Tspec (fun d => tat c (d :: bcast_ix tb b)) (fun d => tat r (d :: bcast_ix tb b)) i k
                        * tat M (j :: k :: bcast_ix mb b))%Z).
Proof.
  intros Hn Hc Hr HM Hb H0.
  unfold toeplitz_matmul_core. rewrite Hc, Hr, HM, list_nat_eqb_refl. cbn [negb].
  unfold matmul_broadcast_shape. rewrite Nat.eqb_refl, Hb. cbn [bind tl].
  destruct (broadcast_shapes_expandable _ _ _ Hb) as [Et Em].
  cbn [expandable]. rewrite Nat.eqb_refl, Et. cbn [orb andb negb].
  assert (Heq : tequal (select0 (expand c (n :: bc)) 0) (select0 (expand r (n :: bc)) 0) = true).
  { apply tequal_spec. split; [reflexivity|]. intros b Hv. cbn in Hv |- *. rewrite Hc, Hr. cbn.
    replace (if n =? 1 then 0 else 0) with 0 by (destruct (n =? 1); reflexivity).
    apply H0. apply (bcast_ix_valid tb bc); auto. }
  rewrite Heq. cbn [negb].
  eexists. split; [reflexivity|]. split; [reflexivity|].
  intros j i b Hj Hi Hv.
  unfold narrow1, mT, circ_conv0, expand, unsqueeze1, assign0, assign1, zeros, flip0, narrow0, dim0, dim1.
  cbn [tat tshape nth bcast_ix tl]. rewrite Hr, Hc, HM. cbn [tat tshape nth bcast_ix tl].
  rewrite (bcast_ix_same bc b Hv).
  set (B := bcast_ix tb b). set (B' := bcast_ix mb b).
  rewrite <- (circ_toeplitz n (fun d => tat c (d :: B)) (fun d => tat r (d :: B)) (fun k => tat M (j :: k :: B')) i Hn Hi).
  apply zsum_ext. intros k Hk. simpl (0 + _).
  assert (Hm : (i + (2 * n - 1) - k) mod (2 * n - 1) < 2 * n - 1) by (apply Nat.mod_upper_bound; lia).
  set (m := (i + (2 * n - 1) - k) mod (2 * n - 1)) in *.
  replace (if n + (n - 1) =? 1 then 0 else m) with m by (destruct (Nat.eqb_spec (n + (n - 1)) 1); lia).
  unfold crr.
  repeat match goal with
  | |- context [Nat.leb ?a ?b] => destruct (Nat.leb_spec a b)
  | |- context [Nat.ltb ?a ?b] => destruct (Nat.ltb_spec a b)
  | |- context [Nat.eqb ?a ?b] => destruct (Nat.eqb_spec a b)
  end; cbn [andb]; try lia; try reflexivity; repeat (f_equal; try lia).
Qed.

(* ------------------------------------------------------------------------------------------ *)
(* toeplitz_matmul / sym_toeplitz_matmul, any batch shapes of (c, r) and of the right-hand side, broadcasting *)

(* matrix right-hand side: M is (mb..., n, p) *)
Lemma toeplitz_matmul_matrix_correct vec_ok c r M n p tb mb bc :
  1 <= n ->
  tshape c = n :: tb -> tshape r = n :: tb -> tshape M = p :: n :: mb ->
  broadcast_shapes tb mb = Some bc ->
  (forall b, valid b tb -> tat c (0 :: b) = tat r (0 :: b)) ->
  exists out, toeplitz_matmul vec_ok c r M = Ok out /\ tshape out = p :: n :: bc /\
    forall j i b, j < p -> i < n -> valid b bc ->
      tat out (j :: i :: b) =
      zsum n (fun k => (Tspec (fun d => tat c (d :: bcast_ix tb b)) (fun d => tat r (d :: bcast_ix tb b)) i k
                        * tat M (j :: k :: bcast_ix mb b))%Z).
Proof.
  intros Hn Hc Hr HM Hb H0. unfold toeplitz_matmul, ndim. rewrite HM. cbn [length Nat.eqb].
  apply (toeplitz_matmul_core_correct c r M n p tb mb bc); auto.
Qed.

(* the documented 1-D right-hand side (repaired code: unsqueeze, multiply, squeeze) *)
Lemma toeplitz_matmul_vector_correct c r x n tb :
  1 <= n ->
  tshape c = n :: tb -> tshape r = n :: tb -> tshape x = [n] ->
  (forall b, valid b tb -> tat c (0 :: b) = tat r (0 :: b)) ->
  exists out, toeplitz_matmul true c r x = Ok out /\ tshape out = n :: tb /\
    forall i b, i < n -> valid b tb ->
      tat out (i :: b) =
      zsum n (fun k => (Tspec (fun d => tat c (d :: b)) (fun d => tat r (d :: b)) i k * tat x [k])%Z).
Proof.
  intros Hn Hc Hr Hx H0. unfold toeplitz_matmul, ndim. rewrite Hx. cbn [length Nat.eqb].
  destruct (toeplitz_matmul_core_correct c r (unsqueeze0 x) n 1 tb [] tb Hn Hc Hr) as [out [E [Hs Hv]]]; auto.
  - unfold unsqueeze0. cbn. rewrite Hx. reflexivity.
  - apply broadcast_shapes_nil_r.
  - rewrite E. cbn [bind]. eexists. split; [reflexivity|]. split.
    + unfold squeeze0. cbn. rewrite Hs. reflexivity.
    + intros i b Hi Hb. unfold squeeze0. cbn [tat]. rewrite Hv by (auto; lia).
      rewrite (bcast_ix_same tb b Hb). apply zsum_ext. intros k Hk. reflexivity.
Qed.

(* the pinned code: every 1-D right-hand side is rejected although the docstring allows it *)
Lemma toeplitz_matmul_vector_pinned_raises c r x : ndim x = 1 -> toeplitz_matmul false c r x = Err.
Proof. intros H. unfold toeplitz_matmul. rewrite H. reflexivity. Qed.

Lemma toeplitz_matmul_scalar_raises vec_ok c r x : ndim x = 0 -> toeplitz_matmul vec_ok c r x = Err.
Proof. intros H. unfold toeplitz_matmul. rewrite H. reflexivity. Qed.

(* T[0,0] ambiguous in some batch member / wrong inner size: the library raises *)
Lemma toeplitz_matmul_c0_ne_r0_raises vec_ok c r M n p tb mb bc b :
  tshape c = n :: tb -> tshape r = n :: tb -> tshape M = p :: n :: mb ->
  broadcast_shapes tb mb = Some bc -> valid b bc ->
  tat c (0 :: bcast_ix tb b) <> tat r (0 :: bcast_ix tb b) ->
  toeplitz_matmul vec_ok c r M = Err.
Proof.
  intros Hc Hr HM Hb Hv Hne. unfold toeplitz_matmul, ndim. rewrite HM. cbn [length Nat.eqb].
  unfold toeplitz_matmul_core. rewrite Hc, Hr, HM, list_nat_eqb_refl. cbn [negb].
  unfold matmul_broadcast_shape. rewrite Nat.eqb_refl, Hb. cbn [bind tl].
  destruct (broadcast_shapes_expandable _ _ _ Hb) as [Et Em].
  cbn [expandable]. rewrite Nat.eqb_refl, Et. cbn [orb andb negb].
  destruct (tequal (select0 (expand c (n :: bc)) 0) (select0 (expand r (n :: bc)) 0)) eqn:E; [|reflexivity].
  exfalso. apply tequal_spec in E. destruct E as [_ E]. specialize (E b Hv). cbn in E. rewrite Hc, Hr in E. cbn in E.
  replace (if n =? 1 then 0 else 0) with 0 in E by (destruct (n =? 1); reflexivity). auto.
Qed.

Lemma toeplitz_matmul_rows_raises vec_ok c r M n n' p tb mb :
  tshape c = n :: tb -> tshape r = n :: tb -> tshape M = p :: n' :: mb -> n <> n' ->
  toeplitz_matmul vec_ok c r M = Err.
Proof.
  intros Hc Hr HM Hne. unfold toeplitz_matmul, ndim. rewrite HM. cbn [length Nat.eqb].
  unfold toeplitz_matmul_core. rewrite Hc, Hr, HM, list_nat_eqb_refl. cbn [negb].
  unfold matmul_broadcast_shape. destruct (Nat.eqb_spec n n'); [contradiction|]. reflexivity.
Qed.

Lemma sym_toeplitz_matmul_matrix_correct vec_ok c M n p tb mb bc :
  1 <= n -> tshape c = n :: tb -> tshape M = p :: n :: mb -> broadcast_shapes tb mb = Some bc ->
  exists out, sym_toeplitz_matmul vec_ok c M = Ok out /\ tshape out = p :: n :: bc /\
    forall j i b, j < p -> i < n -> valid b bc ->
      tat out (j :: i :: b) =
      zsum n (fun k => (tat c ((if k <=? i then i - k else k - i)%nat :: bcast_ix tb b) * tat M (j :: k :: bcast_ix mb b))%Z).
Proof.
  intros Hn Hc HM Hb. unfold sym_toeplitz_matmul.
  destruct (toeplitz_matmul_matrix_correct vec_ok c c M n p tb mb bc) as [out [E [Hs Hv]]]; auto.
  exists out. split; [exact E|]. split; [exact Hs|].
  intros j i b Hj Hi Hvb. rewrite Hv by auto. apply zsum_ext. intros k Hk. unfold Tspec.
  destruct (k <=? i); reflexivity.
Qed.

(* ------------------------------------------------------------------------------------------ *)
(* zero-padded circulant embeddings (an FFT length L >= 2n - 1, e.g. the next power of two) *)

(* zero-padded circulant embedding of length L: the column at [0, n), zeros, the reversed row r[1:] at the END
   (position L - d holds r[d], d = 1 .. n-1) *)
Definition crr_pad (n L : nat) (cf rf : nat -> Z) (m : nat) : Z :=
  if m <? n then cf m
  else if (L - (n - 1) <=? m) && (m <? L) then rf (L - m) else 0%Z.

(* the WRONG placement: the reversed row directly behind the column (positions n .. 2n-2), zeros after it *)
Definition crr_pad_at_n (n L : nat) (cf rf : nat -> Z) (m : nat) : Z :=
  if m <? n then cf m
  else if (n <=? m) && (m <? n + (n - 1)) then rf (n + (n - 1) - m) else 0%Z.

Lemma circ_toeplitz_padded n L (cf rf x : nat -> Z) i : 1 <= n -> 2 * n - 1 <= L -> i < n ->
  zsum L (fun k => (crr_pad n L cf rf ((i + L - k) mod L)%nat * (if (k <? n)%nat then x k else 0))%Z)
  = zsum n (fun k => (Tspec cf rf i k * x k)%Z).
Proof.
  intros Hn HL Hi. replace L with (n + (L - n)) at 1 by lia. rewrite zsum_app.
  rewrite (zsum_zero (L - n)).
  2:{ intros k Hk. replace (n + k <? n) with false by (symmetry; apply Nat.ltb_ge; lia). ring. }
  rewrite Z.add_0_r. apply zsum_ext. intros k Hk.
  replace (k <? n) with true by (symmetry; apply Nat.ltb_lt; lia). f_equal.
  unfold Tspec, crr_pad. destruct (Nat.leb_spec k i).
  - replace (i + L - k) with ((i - k) + 1 * L) by lia.
    rewrite Nat.mod_add by lia. rewrite Nat.mod_small by lia.
    replace (i - k <? n) with true by (symmetry; apply Nat.ltb_lt; lia). reflexivity.
  - rewrite Nat.mod_small by lia.
    replace (i + L - k <? n) with false by (symmetry; apply Nat.ltb_ge; lia).
    replace (L - (n - 1) <=? i + L - k) with true by (symmetry; apply Nat.leb_le; lia).
    replace (i + L - k <? L) with true by (symmetry; apply Nat.ltb_lt; lia).
    simpl. f_equal. lia.
Qed.

(* with L = 2n - 1 the padded embedding is the unpadded one *)
Lemma crr_pad_exact n cf rf m : 1 <= n -> m < 2 * n - 1 -> crr_pad n (2 * n - 1) cf rf m = crr n cf rf m.
Proof.
  intros Hn Hm. unfold crr_pad, crr.
  repeat match goal with
  | |- context [Nat.leb ?a ?b] => destruct (Nat.leb_spec a b)
  | |- context [Nat.ltb ?a ?b] => destruct (Nat.ltb_spec a b)
  end; cbn [andb]; try lia; try reflexivity; f_equal; lia.
Qed.

Lemma circ_toeplitz_padded_at_n_refuted :
  exists n L (cf rf x : nat -> Z) i, 1 <= n /\ 2 * n - 1 <= L /\ i < n /\
  zsum L (fun k => (crr_pad_at_n n L cf rf ((i + L - k) mod L)%nat * (if (k <? n)%nat then x k else 0))%Z)
  <> zsum n (fun k => (Tspec cf rf i k * x k)%Z).
Proof.
  exists 2, 4, (fun d => if d =? 0 then 1%Z else 2%Z), (fun d => if d =? 0 then 1%Z else 3%Z),
         (fun k => if k =? 0 then 0%Z else 1%Z), 0.
  repeat split; try lia. vm_compute. discriminate.
Qed.
