(* C20 — comparators used by the generated correspondence shards (gen/cases_*.v).
   A case is a boolean term: model output (computed by vm_compute) vs the implementation's observed output. *)
From Coq Require Import List ZArith Bool Arith.
Import ListNotations.
Require Import C20.Model.

(* tensor literal: shape LAST DIMENSION FIRST, data row-major as torch's .reshape(-1) gives it *)
Definition T (s : shape) (d : list Z) : tensor := of_flat s d.

Inductive expect := EErr | EOut (s : shape) (d : list Z).

Definition chk (r : result tensor) (e : expect) : bool :=
  match r, e with
  | Err, EErr => true
  | Ok t, EOut s d => list_nat_eqb (tshape t) s && list_Z_eqb (to_flat t) d
  | _, _ => false
  end.
Definition chkZ (r : result Z) (e : expect) : bool :=
  match r, e with
  | Err, EErr => true
  | Ok v, EOut [] [d] => Z.eqb v d
  | _, _ => false
  end.
Definition chk_shape (r : result shape) (e : expect) : bool :=
  match r, e with
  | Err, EErr => true
  | Ok s, EOut s' _ => list_nat_eqb s s'
  | _, _ => false
  end.

(* sparse literal and comparison of the DENSE meaning (entry order / coalescing are not observable) *)
Definition SP (sh : shape) (ents : list (list nat * Z)) : sparse := mkS sh ents.
Definition chkS (r : result sparse) (e : expect) : bool :=
  match r, e with
  | Err, EErr => true
  | Ok s, EOut sh d => list_nat_eqb (sshape s) sh && swf s && list_Z_eqb (to_flat (sdense s)) d
  | _, _ => false
  end.

(* all n*n entries looked up one by one *)
Definition chk_getitem (f : Z -> Z -> result Z) (n : nat) (e : expect) : bool :=
  match e with
  | EOut _ d => list_Z_eqb (flat_map (fun i => map (fun j => match f (Z.of_nat i) (Z.of_nat j) with
                                        | Ok v => v | Err => (-999999)%Z end) (seq 0 n)) (seq 0 n)) d
  | EErr => false
  end.

Fixpoint bad_cases (cs : list bool) (i : nat) : list nat :=
  match cs with
  | [] => []
  | b :: r => if b then bad_cases r (S i) else i :: bad_cases r (S i)
  end.
