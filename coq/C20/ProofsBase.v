(* C20 — basic facts about the tensor model of Model.v: sums, row-major ravel/unravel, tensor equality,
   broadcasting.  Used by the other Proofs*.v files. *)
From Coq Require Import List ZArith Bool Arith Lia.
Import ListNotations.
Require Import C20.Model.

(* ------------------------------------------------------------------------------------------ *)
(* zsum *)
Lemma zsum_ext n f g : (forall k, k < n -> f k = g k) -> zsum n f = zsum n g.
Proof. induction n; simpl; intros H; [reflexivity|]. rewrite IHn, H; auto. Qed.

Lemma zsum_zero n f : (forall k, k < n -> f k = 0%Z) -> zsum n f = 0%Z.
Proof. induction n; simpl; intros H; [reflexivity|]. rewrite IHn, H; auto. Qed.

Lemma zsum_add n f g : zsum n (fun k => (f k + g k)%Z) = (zsum n f + zsum n g)%Z.
Proof. induction n; simpl; [reflexivity|]. rewrite IHn. ring. Qed.

Lemma zsum_mul_l n c f : zsum n (fun k => (c * f k)%Z) = (c * zsum n f)%Z.
Proof. induction n; simpl; [ring|]. rewrite IHn. ring. Qed.

Lemma zsum_mul_r n c f : zsum n (fun k => (f k * c)%Z) = (zsum n f * c)%Z.
Proof. induction n; simpl; [ring|]. rewrite IHn. ring. Qed.

Lemma zsum_app n m f : zsum (n + m) f = (zsum n f + zsum m (fun k => f (n + k)%nat))%Z.
Proof.
  induction m; simpl.
  - rewrite Nat.add_0_r. ring.
  - rewrite Nat.add_succ_r. simpl. rewrite IHm. ring.
Qed.

(* only the term at a contributes *)
Lemma zsum_single n f a : a < n -> (forall k, k < n -> k <> a -> f k = 0%Z) -> zsum n f = f a.
Proof.
  induction n; intros Ha H; [lia|]. simpl.
  destruct (Nat.eq_dec a n) as [->|Hne].
  - rewrite zsum_zero; [ring|]. intros k Hk. apply H; lia.
  - rewrite IHn; [|lia|intros; apply H; lia]. rewrite (H n); [ring|lia|lia].
Qed.

(* exchange of two finite sums *)
Lemma zsum_swap n m (f : nat -> nat -> Z) :
  zsum n (fun i => zsum m (fun j => f i j)) = zsum m (fun j => zsum n (fun i => f i j)).
Proof.
  induction n; simpl.
  - symmetry. apply zsum_zero. reflexivity.
  - rewrite IHn. rewrite <- zsum_add. reflexivity.
Qed.

(* sum over k < n of [k = a] * v  (the one-hot row of an interpolation / permutation matrix) *)
Lemma zsum_onehot n a (x : nat -> Z) v : a < n ->
  zsum n (fun k => ((if (a =? k)%nat then v else 0) * x k)%Z) = (v * x a)%Z.
Proof.
  intros Ha. rewrite (zsum_single n _ a Ha).
  - rewrite Nat.eqb_refl. reflexivity.
  - intros k _ Hk. destruct (Nat.eqb_spec a k); [congruence|ring].
Qed.

(* ------------------------------------------------------------------------------------------ *)
(* loop *)
Lemma loop_S {S} n (body : nat -> S -> S) s : loop (Datatypes.S n) body s = body n (loop n body s).
Proof. reflexivity. Qed.

Lemma loop_inv {S} (P : nat -> S -> Prop) n (body : nat -> S -> S) s :
  P 0 s -> (forall k s, k < n -> P k s -> P (Datatypes.S k) (body k s)) -> P n (loop n body s).
Proof.
  intros H0 Hs. induction n; simpl; [exact H0|]. apply Hs; [lia|]. apply IHn. intros; apply Hs; auto.
Qed.

(* ------------------------------------------------------------------------------------------ *)
(* valid multi-indices, row-major positions *)
Lemma validb_valid ix s : validb ix s = true <-> valid ix s.
Proof.
  revert s; induction ix as [|i ix IH]; intros [|d s]; simpl; try tauto; try (split; [discriminate|tauto]).
  rewrite andb_true_iff, Nat.ltb_lt, IH. tauto.
Qed.

Lemma valid_length ix s : valid ix s -> length ix = length s.
Proof. revert s; induction ix; intros [|d s]; simpl; try tauto. intros [_ H]. f_equal; auto. Qed.

Lemma ravel_lt s ix : valid ix s -> ravel s ix < numel s.
Proof.
  revert ix; induction s as [|d s IH]; intros [|i ix]; simpl; try tauto; try lia.
  intros [Hi H]. specialize (IH _ H). nia.
Qed.

Lemma unravel_ravel s ix : valid ix s -> unravel s (ravel s ix) = ix.
Proof.
  revert ix; induction s as [|d s IH]; intros [|i ix]; simpl; try tauto.
  intros [Hi H]. replace (i + d * ravel s ix) with (i + ravel s ix * d) by lia. f_equal.
  - rewrite Nat.mod_add by lia. apply Nat.mod_small; lia.
  - rewrite Nat.div_add by lia. rewrite Nat.div_small by lia. simpl. auto.
Qed.

Lemma numel_pos_of_valid ix s : valid ix s -> 0 < numel s.
Proof. intros H. pose proof (ravel_lt _ _ H). lia. Qed.

Lemma unravel_valid s k : k < numel s -> valid (unravel s k) s.
Proof.
  revert k; induction s as [|d s IH]; intros k; simpl; [tauto|].
  intros Hk. assert (d <> 0) by (intro; subst; simpl in Hk; lia). split.
  - apply Nat.mod_upper_bound; auto.
  - apply IH. apply Nat.div_lt_upper_bound; auto.
Qed.

Lemma ravel_unravel s k : k < numel s -> ravel s (unravel s k) = k.
Proof.
  revert k; induction s as [|d s IH]; intros k; simpl; [lia|].
  intros Hk. assert (d <> 0) by (intro; subst; simpl in Hk; lia).
  rewrite IH by (apply Nat.div_lt_upper_bound; auto).
  rewrite (Nat.div_mod k d) at 3 by auto. lia.
Qed.

Lemma unravel_length s k : length (unravel s k) = length s.
Proof. revert k; induction s; simpl; intros; auto. Qed.

(* ------------------------------------------------------------------------------------------ *)
(* list comparisons, tensor equality *)
Lemma list_nat_eqb_eq a b : list_nat_eqb a b = true <-> a = b.
Proof.
  revert b; induction a as [|x a IH]; intros [|y b]; simpl; split; try discriminate; try reflexivity.
  - rewrite andb_true_iff, Nat.eqb_eq, IH. intros [-> ->]; reflexivity.
  - intros E; inversion E; subst. rewrite Nat.eqb_refl. simpl. apply IH. reflexivity.
Qed.
Lemma list_nat_eqb_refl a : list_nat_eqb a a = true.
Proof. apply list_nat_eqb_eq; reflexivity. Qed.

Lemma list_Z_eqb_eq a b : list_Z_eqb a b = true <-> a = b.
Proof.
  revert b; induction a as [|x a IH]; intros [|y b]; simpl; split; try discriminate; try reflexivity.
  - rewrite andb_true_iff, Z.eqb_eq, IH. intros [-> ->]; reflexivity.
  - intros E; inversion E; subst. rewrite Z.eqb_refl. simpl. apply IH. reflexivity.
Qed.

Lemma map_seq_ext {A} (f g : nat -> A) s n :
  map f (seq s n) = map g (seq s n) <-> (forall k, s <= k < s + n -> f k = g k).
Proof.
  revert s; induction n; intros s; simpl.
  - split; [intros _ k; lia|reflexivity].
  - split.
    + intros E k Hk. inversion E as [[E0 E1]]. destruct (Nat.eq_dec k s) as [->|]; [exact E0|].
      apply (proj1 (IHn (S s)) E1). lia.
    + intros H. f_equal; [apply H; lia|]. apply IHn. intros; apply H; lia.
Qed.

Lemma nth_map_seq {A} (f : nat -> A) s n p d : p < n -> nth p (map f (seq s n)) d = f (s + p).
Proof.
  revert s p; induction n; intros s p Hp; [lia|]. destruct p; simpl.
  - f_equal; lia.
  - rewrite IHn by lia. f_equal; lia.
Qed.

Lemma to_flat_eq a b : tshape a = tshape b ->
  (to_flat a = to_flat b <-> forall ix, valid ix (tshape a) -> tat a ix = tat b ix).
Proof.
  intros Hs. unfold to_flat. rewrite <- Hs. rewrite map_seq_ext. split.
  - intros H ix Hv. specialize (H (ravel (tshape a) ix)). rewrite unravel_ravel in H by auto.
    apply H. pose proof (ravel_lt _ _ Hv). lia.
  - intros H k Hk. apply H. apply unravel_valid. lia.
Qed.

Lemma tequal_spec a b :
  tequal a b = true <-> tshape a = tshape b /\ forall ix, valid ix (tshape a) -> tat a ix = tat b ix.
Proof.
  unfold tequal. rewrite andb_true_iff, list_nat_eqb_eq, list_Z_eqb_eq. split.
  - intros [Hs Hf]. split; auto. apply to_flat_eq; auto.
  - intros [Hs Hf]. split; auto. apply to_flat_eq; auto.
Qed.

(* the literals of the correspondence shards: of_flat / to_flat are inverse *)
Lemma to_flat_of_flat s d : length d = numel s -> to_flat (of_flat s d) = d.
Proof.
  intros Hl. unfold to_flat, of_flat; simpl.
  apply (nth_ext _ _ 0%Z 0%Z).
  - rewrite map_length, seq_length. auto.
  - intros k Hk. rewrite map_length, seq_length in Hk.
    rewrite (nth_indep _ 0%Z (nth (ravel s (unravel s 0)) d 0%Z)) by (rewrite map_length, seq_length; auto).
    rewrite (map_nth (fun k => nth (ravel s (unravel s k)) d 0%Z) (seq 0 (numel s)) 0 k).
    rewrite seq_nth by auto. simpl. rewrite ravel_unravel by auto. reflexivity.
Qed.

(* ------------------------------------------------------------------------------------------ *)
(* all_lt : every entry of an index tensor is a legal index *)
Lemma all_lt_spec t bound :
  all_lt t bound = true <-> forall ix, valid ix (tshape t) -> (0 <= tat t ix < Z.of_nat bound)%Z.
Proof.
  unfold all_lt, to_flat. rewrite forallb_forall. split.
  - intros H ix Hv. specialize (H (tat t ix)).
    rewrite andb_true_iff, Z.leb_le, Z.ltb_lt in H. apply H.
    apply in_map_iff. exists (ravel (tshape t) ix). rewrite unravel_ravel by auto. split; auto.
    apply in_seq. pose proof (ravel_lt _ _ Hv). lia.
  - intros H v Hin. apply in_map_iff in Hin. destruct Hin as [k [<- Hk]]. apply in_seq in Hk.
    rewrite andb_true_iff, Z.leb_le, Z.ltb_lt. apply H. apply unravel_valid. lia.
Qed.

Lemma idx_at_lt t bound ix : (0 <= tat t ix < Z.of_nat bound)%Z -> idx_at t ix < bound.
Proof. unfold idx_at. lia. Qed.

(* ------------------------------------------------------------------------------------------ *)
(* broadcasting *)
Lemma broadcast_shapes_expandable a b r :
  broadcast_shapes a b = Some r -> expandable a r = true /\ expandable b r = true.
Proof.
  revert b r; induction a as [|x a IH]; intros b r.
  - simpl. intros E; inversion E; subst. split; auto.
    clear. induction r; simpl; auto. rewrite Nat.eqb_refl. simpl. auto.
  - destruct b as [|y b]; simpl.
    + intros E; inversion E; subst. split; auto. simpl. rewrite Nat.eqb_refl. simpl.
      clear. induction a; simpl; auto. rewrite Nat.eqb_refl. simpl. auto.
    + destruct (broadcast_shapes a b) as [r'|] eqn:E'; [|discriminate].
      destruct (IH _ _ E') as [Ha Hb].
      destruct (Nat.eqb_spec x y) as [->|Hxy].
      * intros E; inversion E; subst. simpl. rewrite Nat.eqb_refl. simpl. auto.
      * destruct (Nat.eqb_spec x 1) as [->|Hx1].
        -- intros E; inversion E; subst. simpl. rewrite Nat.eqb_refl, Ha, Hb. simpl. rewrite orb_true_r. auto.
        -- destruct (Nat.eqb_spec y 1) as [->|Hy1]; [|discriminate].
           intros E; inversion E; subst. simpl. rewrite Nat.eqb_refl, Ha, Hb. simpl. rewrite orb_true_r. auto.
Qed.

Lemma broadcast_shapes_nil_r a : broadcast_shapes a [] = Some a.
Proof. destruct a; reflexivity. Qed.

Lemma broadcast_shapes_refl a : broadcast_shapes a a = Some a.
Proof. induction a; simpl; auto. rewrite IHa, Nat.eqb_refl. reflexivity. Qed.

(* reading an expanded tensor: positions of size 1 are read at 0, the others unchanged *)
Lemma bcast_ix_same s ix : valid ix s -> bcast_ix s ix = ix.
Proof.
  revert ix; induction s as [|d s IH]; intros [|i ix]; simpl; try tauto.
  intros [Hi H]. rewrite IH by auto. destruct (Nat.eqb_spec d 1); [f_equal; lia|reflexivity].
Qed.

Lemma bcast_ix_valid from to ix :
  expandable from to = true -> valid ix to -> valid (bcast_ix from ix) from.
Proof.
  revert to ix; induction from as [|x f IH]; intros [|y t] [|i ix]; simpl; try tauto; try discriminate.
  rewrite andb_true_iff, orb_true_iff, !Nat.eqb_eq. intros [Hx He] [Hi Hv].
  split.
  - destruct (Nat.eqb_spec x 1); lia.
  - apply (IH t); auto.
Qed.
