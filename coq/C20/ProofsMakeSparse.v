(* C20 — linear_operator/utils/sparse.py: make_sparse_from_indices_and_values denotes W^T *)
From Coq Require Import List ZArith Bool Arith Lia.
Import ListNotations.
Require Import C20.Model C20.ProofsBase C20.ProofsSparse C20.ProofsRepeat C20.ProofsBdsmm C20.ProofsToSparse C20.ProofsInterpT.

(* the per-dimension batch index tensors of make_sparse_from_indices_and_values are the digits of the row-major rank *)
Lemma numel_pos sh : Forall (fun d => 1 <= d) sh -> 1 <= numel sh.
Proof. induction 1; simpl; nia. Qed.

Lemma Forall_skipn {A} (P : A -> Prop) l n : Forall P l -> Forall P (skipn n l).
Proof. intros H. revert n. induction H; intros [|n]; simpl; auto. Qed.

Lemma Forall_rev' {A} (P : A -> Prop) l : Forall P l -> Forall P (rev l).
Proof. intros H. apply Forall_forall. intros x Hx. apply in_rev in Hx. exact (proj1 (Forall_forall P l) H x Hx). Qed.

Lemma batch_digits rb : Forall (fun d => 1 <= d) rb -> forall beta,
  rev (map (fun i => (beta / numel (skipn (S i) (rev rb))) mod nth i (rev rb) 0) (seq 0 (length (rev rb)))) = unravel rb beta.
Proof.
  induction 1 as [|d rb Hd Hrb IH]; intros beta; [reflexivity|].
  cbn [rev]. rewrite app_length. cbn [length]. rewrite Nat.add_1_r, seq_S, map_app, rev_app_distr. cbn [map rev app plus unravel].
  assert (Hk : length (rev rb) = length rb) by apply rev_length.
  f_equal.
  - rewrite skipn_all2 by (rewrite app_length; simpl; lia). cbn [numel]. rewrite Nat.div_1_r.
    rewrite app_nth2 by lia. rewrite Nat.sub_diag. reflexivity.
  - rewrite <- IH. f_equal. apply map_ext_in. intros i Hi. apply in_seq in Hi.
    rewrite app_nth1 by lia. rewrite skipn_app. replace (S i - length (rev rb)) with 0 by lia. change (skipn 0 [d]) with [d].
    rewrite numel_app_. cbn [numel]. rewrite Nat.mul_1_r.
    pose proof (numel_pos _ (Forall_skipn _ _ (S i) (Forall_rev' _ _ Hrb))).
    rewrite (Nat.mul_comm _ d), <- Nat.div_div by lia. reflexivity.
Qed.

(* filtering out positions whose value is 0 does not change the dense value *)
Lemma sval_filter_nz (col : nat -> list nat) (v : nat -> Z) l ix :
  sval (map (fun p => (col p, v p)) (filter (fun p => negb (Z.eqb (v p) 0)) l)) ix = sval (map (fun p => (col p, v p)) l) ix.
Proof.
  induction l as [|p l IH]; [reflexivity|]. cbn [filter map]. destruct (Z.eqb_spec (v p) 0) as [E|E]; cbn [negb].
  - rewrite IH. cbn [map]. rewrite sval_cons. cbn [fst snd]. rewrite E. destruct (list_nat_eqb _ _); ring.
  - cbn [map]. rewrite !sval_cons, IH. reflexivity.
Qed.

Lemma make_sparse_correct idx vals m nc nt rb :
  tshape idx = nc :: nt :: rb -> tshape vals = nc :: nt :: rb ->
  Forall (fun d => 1 <= d) (nc :: nt :: rb) -> 1 <= m ->
  (forall ix, valid ix (nc :: nt :: rb) -> (0 <= tat idx ix < Z.of_nat m)%Z) ->
  exists s, make_sparse_from_indices_and_values idx vals m = Ok s /\ sshape s = nt :: m :: rb /\ swf s = true /\
    forall t k b, t < nt -> k < m -> valid b rb ->
      tat (sdense s) (t :: k :: b) = zsum nc (fun a => if idx_at idx (a :: t :: b) =? k then tat vals (a :: t :: b) else 0%Z).
Proof.
  intros Hi Hv Hpos Hm Hrange. unfold make_sparse_from_indices_and_values. rewrite Hv, Hi, Nat.eqb_refl. cbn [negb].
  set (sh := nc :: nt :: rb). set (N := numel sh). set (B := numel rb).
  assert (Hnc : 1 <= nc) by (inversion Hpos; auto).
  assert (Hnt : 1 <= nt) by (inversion Hpos as [|? ? _ H1]; inversion H1; auto).
  assert (Hrb : Forall (fun d => 1 <= d) rb) by (inversion Hpos as [|? ? _ H1]; inversion H1; auto).
  assert (HB : 1 <= B) by (apply numel_pos; exact Hrb).
  assert (HN : N = (B * nt) * nc) by (unfold N, sh; cbn [numel]; fold B; ring).
  set (value := fun p => tat (reshape vals [N]) [p]).
  set (column := fun p => (p / nc) mod nt :: idx_at (reshape idx [N]) [p]
       :: rev (map (fun i => (p / (numel (skipn (S i) (rev rb)) * nt * nc)) mod nth i (rev rb) 0) (seq 0 (length (rev rb))))).
  (* what the flat position p = ravel (a, t, b) denotes *)
  assert (Hcol : forall a t b, a < nc -> t < nt -> valid b rb ->
            let p := ravel sh (a :: t :: b) in
            column p = t :: idx_at idx (a :: t :: b) :: b /\ value p = tat vals (a :: t :: b)).
  { intros a t b Ha Ht Hb p.
    assert (Hvix : valid (a :: t :: b) sh) by (unfold sh; simpl; auto).
    assert (Hp : p < N) by (apply ravel_lt; exact Hvix).
    assert (Ep : p = a + nc * (t + nt * ravel rb b)) by reflexivity.
    assert (E1 : p / nc = t + nt * ravel rb b) by (rewrite Ep; apply div_block; lia).
    assert (Eflat : unravel sh (ravel [N] [p]) = a :: t :: b).
    { cbn [ravel]. rewrite Nat.mul_0_r, Nat.add_0_r. apply unravel_ravel. exact Hvix. }
    split.
    - unfold column. rewrite E1, mod_block by lia. f_equal. f_equal.
      + unfold idx_at, reshape. cbn [tat tshape]. rewrite Hi. fold sh. rewrite Eflat. reflexivity.
      + transitivity (unravel rb (ravel rb b)); [|apply unravel_ravel; exact Hb].
        rewrite <- (batch_digits rb Hrb). f_equal. apply map_ext_in. intros i Hiin.
        f_equal. apply in_seq in Hiin.
        pose proof (numel_pos _ (Forall_skipn _ _ (S i) (Forall_rev' _ _ Hrb))) as HX.
        replace (numel (skipn (S i) (rev rb)) * nt * nc) with (nc * (nt * numel (skipn (S i) (rev rb)))) by ring.
        rewrite <- !Nat.div_div by lia. rewrite E1, div_block by lia. reflexivity.
    - unfold value, reshape. cbn [tat tshape]. rewrite Hv. fold sh. rewrite Eflat. reflexivity. }
  set (nzs := filter (fun p => negb (Z.eqb (value p) 0)) (seq 0 N)).
  set (ents := match nzs with [] => [(repeat 0 (ndim idx), 0%Z)] | _ :: _ => map (fun p => (column p, value p)) nzs end).
  assert (Hvalid_col : forall p, p < N -> valid (column p) (nt :: m :: rb)).
  { intros p Hp. pose proof (unravel_valid sh p Hp) as Hu. rewrite <- (ravel_unravel sh p Hp).
    destruct (unravel sh p) as [|a [|t b]] eqn:Eu; unfold sh in Hu; simpl in Hu; try tauto.
    destruct Hu as [Ha [Ht Hb]]. destruct (Hcol a t b Ha Ht Hb) as [-> _]. simpl. repeat split; auto.
    apply idx_at_lt. apply Hrange. simpl. auto. }
  assert (Hwf : swf (mkS (nt :: m :: rb) ents) = true).
  { apply swf_spec. cbn [sent sshape]. intros e Hin. unfold ents in Hin. destruct nzs as [|p0 nz'] eqn:Enz.
    - destruct Hin as [<-|[]]. cbn [fst]. unfold ndim. rewrite Hi.
      change (length (nc :: nt :: rb)) with (length (nt :: m :: rb)). apply valid_zeros.
      cbn [numel]. fold B. nia.
    - rewrite <- Enz in Hin. apply in_map_iff in Hin. destruct Hin as [p [<- Hp]]. cbn [fst].
      unfold nzs in Hp. apply filter_In in Hp. destruct Hp as [Hp _]. apply in_seq in Hp. apply Hvalid_col. lia. }
  match goal with |- exists s, mk_sparse _ ?E = _ /\ _ => change E with ents end.
  unfold mk_sparse. rewrite Hwf.
  eexists. split; [reflexivity|]. split; [reflexivity|]. split; [exact Hwf|].
  intros t k b Ht Hk Hb. rewrite sdense_at. cbn [sent].
  assert (Hsv : sval ents (t :: k :: b) = sval (map (fun p => (column p, value p)) (seq 0 N)) (t :: k :: b)).
  { rewrite <- (sval_filter_nz column value). fold nzs. unfold ents. destruct nzs; [|reflexivity].
    cbn [map]. rewrite sval_cons. cbn [snd]. unfold sval at 1 2. cbn [fold_right]. destruct (list_nat_eqb _ _); ring. }
  rewrite Hsv, sval_map_seq. cbn [fst snd]. rewrite HN, zsum_prod, zsum_prod.
  set (beta := ravel rb b). assert (Hbeta : beta < B) by (apply ravel_lt; exact Hb).
  rewrite (zsum_single B _ beta Hbeta).
  - rewrite (zsum_single nt _ t Ht).
    + apply zsum_ext. intros a Ha.
      replace (a + nc * (t + nt * beta)) with (ravel sh (a :: t :: b)) by reflexivity.
      destruct (Hcol a t b Ha Ht Hb) as [-> ->]. cbn [list_nat_eqb].
      rewrite !Nat.eqb_refl, list_nat_eqb_refl. cbn [andb]. rewrite andb_true_r. reflexivity.
    + intros t' Ht' Hne. apply zsum_zero. intros a Ha.
      replace (a + nc * (t' + nt * beta)) with (ravel sh (a :: t' :: b)) by reflexivity.
      destruct (Hcol a t' b Ha Ht' Hb) as [-> _]. cbn [list_nat_eqb].
      destruct (Nat.eqb_spec t' t); [contradiction|reflexivity].
  - intros beta' Hb' Hne. apply zsum_zero. intros t' Ht'. apply zsum_zero. intros a Ha.
    pose proof (unravel_valid rb beta' Hb') as Hvb'.
    replace (a + nc * (t' + nt * beta')) with (ravel sh (a :: t' :: unravel rb beta'))
      by (unfold sh; rewrite !ravel_cons, ravel_unravel by exact Hb'; reflexivity).
    destruct (Hcol a t' (unravel rb beta') Ha Ht' Hvb') as [-> _]. cbn [list_nat_eqb].
    destruct (list_nat_eqb (unravel rb beta') b) eqn:E; [|rewrite !andb_false_r; reflexivity].
    exfalso. apply Hne. apply list_nat_eqb_eq in E. unfold beta. rewrite <- E. symmetry. apply ravel_unravel. exact Hb'.
Qed.
