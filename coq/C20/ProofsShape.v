(* C20 — linear_operator/utils/broadcasting.py: _matmul_broadcast_shape, _pad_with_singletons *)
From Coq Require Import List ZArith Bool Arith Lia.
Import ListNotations.
Require Import C20.Model C20.ProofsBase.

(* torch's broadcasting rule for one pair of sizes *)
Definition bdim_ok (x y : nat) : Prop := x = y \/ x = 1 \/ y = 1.
Definition bdim (x y : nat) : nat := if x =? 1 then y else x.

(* broadcast_shapes computes exactly torch.broadcast_shapes: shapes aligned at the last dimension (= at the head of
   the reversed lists), the shorter one padded with 1s, every pair of sizes equal or 1, result = the non-1 size *)
Lemma broadcast_shapes_spec a b r :
  broadcast_shapes a b = Some r <->
  (length r = Nat.max (length a) (length b) /\
   forall i, i < length r -> bdim_ok (nth i a 1) (nth i b 1) /\ nth i r 1 = bdim (nth i a 1) (nth i b 1)).
Proof.
  assert (nth_nil : forall i, nth i (@nil nat) 1 = 1) by (intros [|i]; reflexivity).
  revert b r; induction a as [|x a IH]; intros b r.
  - cbn [broadcast_shapes length]. split.
    + intros E; inversion E; subst. split; [reflexivity|]. intros i Hi. unfold bdim_ok, bdim.
      rewrite !nth_nil. simpl. split; [right; left; reflexivity|reflexivity].
    + intros [Hl H]. f_equal. symmetry. apply (nth_ext _ _ 1 1); [auto|]. intros i Hi.
      destruct (H i Hi) as [_ E]. rewrite E. unfold bdim.
      rewrite !nth_nil. reflexivity.
  - destruct b as [|y b].
    + cbn [broadcast_shapes]. split.
      * intros E; inversion E; subst. split; [simpl; lia|]. intros i Hi. unfold bdim_ok, bdim.
        rewrite !nth_nil.
        split; [auto|]. destruct (Nat.eqb_spec (nth i (x :: a) 1) 1); auto.
      * intros [Hl H]. f_equal. symmetry. apply (nth_ext _ _ 1 1); [simpl in *; lia|]. intros i Hi.
        destruct (H i Hi) as [_ E]. rewrite E. unfold bdim.
        rewrite !nth_nil.
        destruct (Nat.eqb_spec (nth i (x :: a) 1) 1); auto.
    + cbn [broadcast_shapes]. split.
      * destruct (broadcast_shapes a b) as [r'|] eqn:E'; [|discriminate].
        destruct (proj1 (IH b r') E') as [Hl H].
        assert (G : forall z, bdim_ok x y -> z = bdim x y -> Some (z :: r') = Some r ->
                    length r = Nat.max (length (x :: a)) (length (y :: b)) /\
                    forall i, i < length r -> bdim_ok (nth i (x :: a) 1) (nth i (y :: b) 1) /\
                                              nth i r 1 = bdim (nth i (x :: a) 1) (nth i (y :: b) 1)).
        { intros z Hok Hz E; inversion E; subst r. split; [simpl; lia|].
          intros [|i] Hi; simpl; [auto|]. apply H. simpl in Hi. lia. }
        unfold bdim_ok, bdim in *.
        destruct (Nat.eqb_spec x y) as [->|Hxy]; [apply G; auto; destruct (y =? 1) eqn:E1; auto; apply Nat.eqb_eq in E1; auto|].
        destruct (Nat.eqb_spec x 1) as [->|Hx1]; [apply G; auto|].
        destruct (Nat.eqb_spec y 1) as [->|Hy1]; [apply G; auto|discriminate].
      * intros [Hl H]. destruct r as [|z r]; [simpl in Hl; lia|].
        destruct (H 0 ltac:(simpl; lia)) as [Hok Hz]. simpl in Hok, Hz.
        assert (E' : broadcast_shapes a b = Some r).
        { apply IH. split; [simpl in Hl; lia|]. intros i Hi. apply (H (S i)). simpl; lia. }
        rewrite E'. unfold bdim_ok, bdim in *. subst z.
        destruct (Nat.eqb_spec x y); destruct (Nat.eqb_spec x 1); destruct (Nat.eqb_spec y 1);
          try reflexivity; try (f_equal; f_equal; lia); exfalso; lia.
Qed.

(* _matmul_broadcast_shape against a 1-D right-hand side: inner sizes must agree; the last dimension is dropped *)
Lemma matmul_broadcast_shape_vector n m abatch p :
  matmul_broadcast_shape (n :: m :: abatch) [p] = if n =? p then Ok (m :: abatch) else Err.
Proof. reflexivity. Qed.

(* ... against a (batched) matrix: Ok (bc..., m, p) iff the inner sizes agree and the batch shapes broadcast to bc *)
Lemma matmul_broadcast_shape_matrix n m abatch p n' bbatch r :
  matmul_broadcast_shape (n :: m :: abatch) (p :: n' :: bbatch) = Ok r <->
  n = n' /\ exists bc, r = p :: m :: bc /\
    length bc = Nat.max (length abatch) (length bbatch) /\
    forall i, i < length bc -> bdim_ok (nth i abatch 1) (nth i bbatch 1) /\ nth i bc 1 = bdim (nth i abatch 1) (nth i bbatch 1).
Proof.
  unfold matmul_broadcast_shape. destruct (Nat.eqb_spec n n') as [->|Hne].
  - destruct (broadcast_shapes abatch bbatch) as [bc|] eqn:E.
    + split.
      * intros E'; inversion E'; subst. split; [reflexivity|]. exists bc. split; [reflexivity|].
        apply broadcast_shapes_spec. exact E.
      * intros [_ [bc' [-> Hs]]]. apply broadcast_shapes_spec in Hs. rewrite E in Hs. inversion Hs. reflexivity.
    + split; [discriminate|]. intros [_ [bc' [-> Hs]]]. apply broadcast_shapes_spec in Hs. rewrite E in Hs. discriminate.
  - split; [discriminate|]. intros [H _]. contradiction.
Qed.

(* fewer than two dimensions on the left (or a 0-dim right-hand side): the library raises (IndexError) *)
Lemma matmul_broadcast_shape_short a b : length a < 2 \/ b = [] -> matmul_broadcast_shape a b = Err.
Proof.
  intros [H| ->].
  - destruct a as [|x [|y a]]; simpl in H; try lia; reflexivity.
  - destruct a as [|x [|y a]]; reflexivity.
Qed.

(* ------------------------------------------------------------------------------------------ *)
(* _pad_with_singletons: a view with `before` leading and `after` trailing singleton dimensions *)
Lemma ravel_ones_front a s ix : ravel (repeat 1 a ++ s) (repeat 0 a ++ ix) = ravel s ix.
Proof. induction a; simpl; auto. rewrite IHa. lia. Qed.

Lemma ravel_ones_back s ix b : valid ix s -> ravel (s ++ repeat 1 b) (ix ++ repeat 0 b) = ravel s ix.
Proof.
  revert ix; induction s as [|d s IH]; intros [|i ix]; simpl; try tauto.
  - intros _. induction b; simpl; auto. rewrite IHb. lia.
  - intros [_ H]. rewrite IH by auto. reflexivity.
Qed.

Lemma pad_with_singletons_shape t before after :
  tshape (pad_with_singletons t before after) = repeat 1 after ++ tshape t ++ repeat 1 before.
Proof. reflexivity. Qed.

Lemma pad_with_singletons_correct t before after ix :
  valid ix (tshape t) ->
  tat (pad_with_singletons t before after) (repeat 0 after ++ ix ++ repeat 0 before) = tat t ix.
Proof.
  intros Hv. unfold pad_with_singletons, reshape. cbn [tat].
  rewrite ravel_ones_front, ravel_ones_back by auto. rewrite unravel_ravel by auto. reflexivity.
Qed.

Lemma numel_app a b : numel (a ++ b) = numel a * numel b.
Proof. induction a; simpl; [lia|]. rewrite IHa. lia. Qed.
Lemma numel_ones k : numel (repeat 1 k) = 1.
Proof. induction k; simpl; lia. Qed.

(* the data (row-major) is untouched: what `.view` means *)
Lemma reshape_to_flat t s : numel s = numel (tshape t) -> to_flat (reshape t s) = to_flat t.
Proof.
  intros Hn. unfold to_flat, reshape. cbn [tshape tat]. rewrite Hn. apply map_seq_ext. intros k Hk.
  rewrite ravel_unravel by lia. reflexivity.
Qed.

Lemma pad_with_singletons_data t before after :
  to_flat (pad_with_singletons t before after) = to_flat t.
Proof.
  apply reshape_to_flat. rewrite !numel_app, !numel_ones. lia.
Qed.
