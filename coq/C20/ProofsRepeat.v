(* C20 — linear_operator/utils/sparse.py: sparse_repeat = dense repeat (repaired stride); the pinned stride is
   correct exactly where only dimensions of size 1 are repeated *)
From Coq Require Import List ZArith Bool Arith Lia.
Import ListNotations.
Require Import C20.Model C20.ProofsBase C20.ProofsSparse.

(* ---- list helpers ---- *)
Lemma length_upd_nth' {A} (l : list A) p v : length (upd_nth p v l) = length l.
Proof. revert p; induction l; intros [|p]; simpl; auto. Qed.

Lemma nth_upd_nth {A} (l : list A) p q v d :
  nth q (upd_nth p v l) d = if (q =? p) && (p <? length l) then v else nth q l d.
Proof.
  revert p q; induction l as [|x l IH]; intros [|p] [|q]; simpl; try reflexivity.
  - destruct (q =? p); reflexivity.
  - rewrite IH. destruct (q =? p); simpl; try reflexivity.
Qed.

Lemma upd_nth_same {A} (l : list A) p d : upd_nth p (nth p l d) l = l.
Proof. revert p; induction l; intros [|p]; simpl; auto. f_equal; auto. Qed.

Lemma valid_nth ix sh :
  valid ix sh <-> length ix = length sh /\ forall p, p < length sh -> nth p ix 0 < nth p sh 0.
Proof.
  revert sh; induction ix as [|i ix IH]; intros [|d sh]; simpl.
  - split; [intros _; split; [reflexivity|intros; lia]|tauto].
  - split; [tauto|intros [H _]; discriminate].
  - split; [tauto|intros [H _]; discriminate].
  - rewrite IH. split.
    + intros [Hi [Hl H]]. split; [lia|]. intros [|p] Hp; [auto|]. apply H. lia.
    + intros [Hl H]. split; [apply (H 0); lia|]. split; [lia|]. intros p Hp. apply (H (S p)). lia.
Qed.

(* comparing an entry index shifted by d at position p with ix *)
Lemma eqb_upd_shift e ix p d : length e = length ix -> p < length e ->
  list_nat_eqb (upd_nth p (nth p e 0 + d) e) ix =
  (d <=? nth p ix 0) && list_nat_eqb e (upd_nth p (nth p ix 0 - d) ix).
Proof.
  revert ix p; induction e as [|x e IH]; intros [|y ix] [|p]; simpl; try lia; try discriminate.
  - intros _ _. destruct (Nat.leb_spec d y).
    + simpl. destruct (Nat.eqb_spec (x + d) y); destruct (Nat.eqb_spec x (y - d)); try lia; reflexivity.
    + simpl. destruct (Nat.eqb_spec (x + d) y); [lia|reflexivity].
  - intros Hl Hp. rewrite IH by lia. destruct (x =? y); simpl; [reflexivity|]. rewrite andb_false_r. reflexivity.
Qed.

Lemma sval_shift ents ix p d :
  (forall e, In e ents -> length (fst e) = length ix) -> p < length ix ->
  sval (map (fun e => (upd_nth p (nth p (fst e) 0 + d) (fst e), snd e)) ents) ix =
  if d <=? nth p ix 0 then sval ents (upd_nth p (nth p ix 0 - d) ix) else 0%Z.
Proof.
  intros Hl Hp. induction ents as [|e ents IH].
  - simpl. destruct (d <=? nth p ix 0); reflexivity.
  - cbn [map]. rewrite !sval_cons, IH by (intros; apply Hl; simpl; auto). cbn [fst snd].
    rewrite eqb_upd_shift by (rewrite ?(Hl e) by (simpl; auto); auto).
    destruct (d <=? nth p ix 0); simpl; [reflexivity|ring].
Qed.

(* ---- one repeated dimension ---- *)
Lemma sparse_repeat_dim_shape stride s p rep :
  1 <= rep -> sshape (sparse_repeat_dim stride s p rep) = upd_nth p (rep * nth p (sshape s) 0) (sshape s).
Proof.
  intros Hr. unfold sparse_repeat_dim. destruct (Nat.ltb_spec 1 rep); [reflexivity|].
  assert (rep = 1) by lia. subst. rewrite Nat.mul_1_l. symmetry. apply upd_nth_same.
Qed.

Lemma sparse_repeat_dim_value s p rep ix :
  swf s = true -> 1 <= rep -> p < length (sshape s) -> length ix = length (sshape s) ->
  nth p ix 0 < rep * nth p (sshape s) 0 ->
  sval (sent (sparse_repeat_dim stride_dense s p rep)) ix =
  sval (sent s) (upd_nth p (nth p ix 0 mod nth p (sshape s) 0) ix).
Proof.
  intros Hw Hr Hp Hl Hlt. unfold sparse_repeat_dim, stride_dense.
  set (sz := nth p (sshape s) 0) in *.
  assert (Hsz : 0 < sz) by (destruct sz; lia).
  destruct (Nat.ltb_spec 1 rep) as [Hgt|Hle].
  - cbn [sent]. rewrite sval_flat_map_seq.
    assert (Hlen : forall e, In e (sent s) -> length (fst e) = length ix).
    { intros e Hin. rewrite Hl. apply valid_length. apply (proj1 (swf_spec s) Hw e Hin). }
    rewrite (zsum_ext rep _ (fun k => if k * sz <=? nth p ix 0
                                      then sval (sent s) (upd_nth p (nth p ix 0 - k * sz) ix) else 0%Z))
      by (intros k _; apply sval_shift; [exact Hlen|lia]).
    set (k0 := nth p ix 0 / sz).
    assert (Hdm : nth p ix 0 = sz * k0 + nth p ix 0 mod sz) by (apply Nat.div_mod; lia).
    assert (Hmod : nth p ix 0 mod sz < sz) by (apply Nat.mod_upper_bound; lia).
    rewrite (zsum_single rep _ k0).
    + replace (k0 * sz <=? nth p ix 0) with true by (symmetry; apply Nat.leb_le; nia).
      do 2 f_equal. nia.
    + apply Nat.div_lt_upper_bound; lia.
    + intros k Hk Hne. destruct (Nat.leb_spec (k * sz) (nth p ix 0)); [|reflexivity].
      apply sval_outside; [exact Hw|]. intros Hv. apply valid_nth in Hv. destruct Hv as [_ Hv].
      specialize (Hv p Hp). rewrite nth_upd_nth in Hv. rewrite Nat.eqb_refl in Hv.
      replace (p <? length ix) with true in Hv by (symmetry; apply Nat.ltb_lt; lia). cbn [andb] in Hv.
      fold sz in Hv. assert (k < k0) by nia. nia.
  - assert (rep = 1) by lia. subst rep. rewrite Nat.mod_small by lia. rewrite upd_nth_same. reflexivity.
Qed.

Lemma sparse_repeat_dim_wf s p rep :
  swf s = true -> 1 <= rep -> p < length (sshape s) -> swf (sparse_repeat_dim stride_dense s p rep) = true.
Proof.
  intros Hw Hr Hp. unfold sparse_repeat_dim, stride_dense. destruct (Nat.ltb_spec 1 rep); [|exact Hw].
  apply swf_spec. cbn [sent sshape]. intros e Hin. apply in_flat_map in Hin. destruct Hin as [k [Hk Hin]].
  apply in_seq in Hk. apply in_map_iff in Hin. destruct Hin as [e0 [<- Hin0]]. cbn [fst].
  pose proof (proj1 (swf_spec s) Hw e0 Hin0) as Hv. apply valid_nth in Hv. destruct Hv as [Hl Hv].
  apply valid_nth. rewrite !length_upd_nth'. split; [exact Hl|]. intros q Hq.
  rewrite !nth_upd_nth. rewrite Hl.
  destruct (Nat.eqb_spec q p) as [->|Hne]; cbn [andb].
  - replace (p <? length (sshape s)) with true by (symmetry; apply Nat.ltb_lt; lia).
    specialize (Hv p Hp). nia.
  - apply Hv. exact Hq.
Qed.

(* the stride only matters through its value at the size of the dimension that is actually repeated *)
Lemma sparse_repeat_dim_stride s1 s2 s p rep :
  (1 < rep -> s1 (nth p (sshape s) 0) = s2 (nth p (sshape s) 0)) ->
  sparse_repeat_dim s1 s p rep = sparse_repeat_dim s2 s p rep.
Proof.
  intros H. unfold sparse_repeat_dim. destruct (Nat.ltb_spec 1 rep); [|reflexivity]. rewrite H by lia. reflexivity.
Qed.

(* ---- all dimensions: reading position p modulo the original size for every p >= a ---- *)
Fixpoint modfrom (a : nat) (ix sh : list nat) : list nat :=
  match ix, sh with
  | i :: ix', d :: sh' => (match a with 0 => i mod d | S _ => i end) :: modfrom (pred a) ix' sh'
  | _, _ => ix
  end.

Lemma modfrom_length a ix sh : length (modfrom a ix sh) = length ix.
Proof. revert a sh; induction ix as [|i ix IH]; intros a [|d sh]; simpl; auto. Qed.

Lemma modfrom_nth a ix sh p : length ix = length sh ->
  nth p (modfrom a ix sh) 0 = if a <=? p then nth p ix 0 mod nth p sh 0 else nth p ix 0.
Proof.
  revert a sh p; induction ix as [|i ix IH]; intros a [|d sh] p; simpl; try discriminate.
  - intros _. destruct p; destruct (a <=? _); reflexivity.
  - intros Hl. destruct p as [|p].
    + destruct a; reflexivity.
    + rewrite IH by lia. destruct a as [|a']; simpl; [reflexivity|].
      destruct (Nat.leb_spec a' p); destruct (Nat.leb_spec (S a') (S p)); try lia; reflexivity.
Qed.

Lemma modfrom_all ix sh : length ix = length sh -> modfrom (length ix) ix sh = ix.
Proof.
  intros Hl. apply (nth_ext _ _ 0 0); [apply modfrom_length|]. intros p Hp. rewrite modfrom_length in Hp.
  rewrite modfrom_nth by auto. destruct (Nat.leb_spec (length ix) p); [lia|reflexivity].
Qed.

(* the loop of sparse_repeat over the first i repeat sizes (positions nd-1, nd-2, ..., nd-i) *)
Definition rep_loop (stride : nat -> nat) (reps : list nat) (nd i : nat) (s : sparse) : sparse :=
  loop i (fun i s => sparse_repeat_dim stride s (nd - 1 - i) (nth i reps 0)) s.

Lemma rep_loop_inv reps s0 i :
  let nd := length (sshape s0) in
  swf s0 = true -> length reps = nd -> (forall j, j < nd -> 1 <= nth j reps 0) -> i <= nd ->
  let si := rep_loop stride_dense reps nd i s0 in
  length (sshape si) = nd /\ swf si = true /\
  (forall p, p < nd -> nth p (sshape si) 0 =
                       if nd - i <=? p then nth (nd - 1 - p) reps 0 * nth p (sshape s0) 0 else nth p (sshape s0) 0) /\
  (forall ix, valid ix (sshape si) -> sval (sent si) ix = sval (sent s0) (modfrom (nd - i) ix (sshape s0))).
Proof.
  intros nd Hw Hlr Hr. induction i as [|i IH]; intros Hi si.
  - subst si. unfold rep_loop. cbn [loop]. split; [reflexivity|]. split; [exact Hw|]. split.
    + intros p Hp. rewrite Nat.sub_0_r. destruct (Nat.leb_spec nd p); [lia|reflexivity].
    + intros ix Hv. rewrite Nat.sub_0_r. pose proof (valid_length _ _ Hv) as Hl. fold nd in Hl.
      rewrite <- Hl. rewrite modfrom_all by (rewrite Hl; reflexivity). reflexivity.
  - destruct (IH ltac:(lia)) as [Hlen [Hwf [Hsh Hval]]]. clear IH.
    set (sp := rep_loop stride_dense reps nd i s0) in *.
    assert (Esi : si = sparse_repeat_dim stride_dense sp (nd - 1 - i) (nth i reps 0)) by reflexivity.
    set (p0 := nd - 1 - i) in *. set (rep := nth i reps 0) in *.
    assert (Hp0 : p0 < nd) by (unfold p0; lia).
    assert (Hrep : 1 <= rep) by (apply Hr; lia).
    assert (Hsz : nth p0 (sshape sp) 0 = nth p0 (sshape s0) 0).
    { rewrite Hsh by auto. destruct (Nat.leb_spec (nd - i) p0); [unfold p0 in *; lia|reflexivity]. }
    assert (Hshape : sshape si = upd_nth p0 (rep * nth p0 (sshape s0) 0) (sshape sp)).
    { rewrite Esi, sparse_repeat_dim_shape by auto. rewrite Hsz. reflexivity. }
    split; [rewrite Hshape, length_upd_nth'; exact Hlen|].
    split; [rewrite Esi; apply sparse_repeat_dim_wf; auto; lia|].
    split.
    + intros p Hp. rewrite Hshape, nth_upd_nth, Hlen.
      replace (p0 <? nd) with true by (symmetry; apply Nat.ltb_lt; lia).
      destruct (Nat.eqb_spec p p0) as [->|Hne]; cbn [andb].
      * replace (nd - S i <=? p0) with true by (symmetry; apply Nat.leb_le; unfold p0; lia).
        unfold rep, p0. f_equal. f_equal. lia.
      * rewrite Hsh by auto. unfold p0 in Hne.
        destruct (Nat.leb_spec (nd - i) p); destruct (Nat.leb_spec (nd - S i) p); try lia; reflexivity.
    + intros ix Hv. rewrite Hshape in Hv. apply valid_nth in Hv. rewrite length_upd_nth' in Hv.
      destruct Hv as [Hl Hv].
      assert (Hlt : nth p0 ix 0 < rep * nth p0 (sshape sp) 0).
      { specialize (Hv p0 ltac:(lia)). rewrite nth_upd_nth, Nat.eqb_refl in Hv.
        replace (p0 <? length (sshape sp)) with true in Hv by (symmetry; apply Nat.ltb_lt; lia).
        cbn [andb] in Hv. rewrite Hsz. exact Hv. }
      rewrite Esi, sparse_repeat_dim_value by (auto; lia).
      assert (Hszpos : 0 < nth p0 (sshape sp) 0) by (destruct (nth p0 (sshape sp) 0); lia).
      rewrite Hval.
      * f_equal. apply (nth_ext _ _ 0 0).
        -- rewrite !modfrom_length, length_upd_nth'. reflexivity.
        -- intros q Hq. rewrite modfrom_length, length_upd_nth' in Hq.
           rewrite !modfrom_nth by (rewrite ?length_upd_nth'; lia).
           rewrite nth_upd_nth. replace (p0 <? length ix) with true by (symmetry; apply Nat.ltb_lt; lia).
           destruct (Nat.eqb_spec q p0) as [->|Hne]; cbn [andb].
           ++ replace (nd - i <=? p0) with false by (symmetry; apply Nat.leb_gt; unfold p0; lia).
              replace (nd - S i <=? p0) with true by (symmetry; apply Nat.leb_le; unfold p0; lia).
              rewrite Hsz. reflexivity.
           ++ unfold p0 in Hne.
              destruct (Nat.leb_spec (nd - i) q); destruct (Nat.leb_spec (nd - S i) q); try lia; reflexivity.
      * apply valid_nth. rewrite length_upd_nth'. split; [lia|]. intros q Hq. rewrite nth_upd_nth.
        replace (p0 <? length ix) with true by (symmetry; apply Nat.ltb_lt; lia).
        destruct (Nat.eqb_spec q p0) as [->|Hne]; cbn [andb].
        -- apply Nat.mod_upper_bound. lia.
        -- specialize (Hv q Hq). rewrite nth_upd_nth in Hv.
           destruct (Nat.eqb_spec q p0); [contradiction|]. exact Hv.
Qed.

(* ---- padding with leading (torch) dimensions of size 1 ---- *)
Definition pad_sparse (s : sparse) (k : nat) : sparse :=
  mkS (sshape s ++ repeat 1 k) (map (fun e => (fst e ++ repeat 0 k, snd e)) (sent s)).

Lemma eqb_app_same a b z : length a = length b -> list_nat_eqb (a ++ z) (b ++ z) = list_nat_eqb a b.
Proof.
  revert b; induction a as [|x a IH]; intros [|y b]; simpl; try discriminate.
  - intros _. apply list_nat_eqb_refl.
  - intros Hl. rewrite IH by lia. reflexivity.
Qed.

Lemma pad_sparse_value s k jx : swf s = true -> length jx = length (sshape s) ->
  sval (sent (pad_sparse s k)) (jx ++ repeat 0 k) = sval (sent s) jx.
Proof.
  intros Hw Hl. unfold pad_sparse. cbn [sent].
  assert (Hlen : forall e, In e (sent s) -> length (fst e) = length jx).
  { intros e Hin. rewrite Hl. apply valid_length. apply (proj1 (swf_spec s) Hw e Hin). }
  induction (sent s) as [|e ents IH]; [reflexivity|].
  cbn [map]. rewrite !sval_cons, IH by (intros; apply Hlen; simpl; auto). cbn [fst snd].
  rewrite eqb_app_same by (apply Hlen; simpl; auto). reflexivity.
Qed.

Lemma valid_app a b sa sb : valid a sa -> valid b sb -> valid (a ++ b) (sa ++ sb).
Proof.
  revert sa; induction a as [|x a IH]; intros [|d sa]; simpl; try tauto.
  intros [Hx Ha] Hb. split; auto.
Qed.

Lemma valid_zeros_ones k : valid (repeat 0 k) (repeat 1 k).
Proof. induction k; simpl; auto. Qed.

Lemma pad_sparse_wf s k : swf s = true -> swf (pad_sparse s k) = true.
Proof.
  intros Hw. apply swf_spec. unfold pad_sparse. cbn [sent sshape]. intros e Hin.
  apply in_map_iff in Hin. destruct Hin as [e0 [<- Hin]]. cbn [fst].
  apply valid_app; [apply (proj1 (swf_spec s) Hw e0 Hin)|apply valid_zeros_ones].
Qed.

Lemma pad_sparse_0 s : pad_sparse s 0 = s.
Proof.
  destruct s as [sh ents]. unfold pad_sparse. cbn [sshape sent repeat]. rewrite app_nil_r. f_equal.
  induction ents as [|[i v] ents IH]; [reflexivity|]. cbn [map fst snd]. rewrite app_nil_r, IH. reflexivity.
Qed.

Lemma sparse_repeat_unfold stride s reps :
  sparse_repeat stride s reps =
  let s0 := if length (sshape s) <? length reps then pad_sparse s (length reps - length (sshape s)) else s in
  rep_loop stride reps (length (sshape s0)) (length reps) s0.
Proof. reflexivity. Qed.

(* a valid index of a shape ending in k ones ends in k zeros *)
Lemma valid_ones_tail ix sh k : valid ix (sh ++ repeat 1 k) ->
  ix = firstn (length sh) ix ++ repeat 0 k /\ valid (firstn (length sh) ix) sh.
Proof.
  revert ix; induction sh as [|d sh IH]; intros ix; simpl.
  - revert ix; induction k; intros [|i ix]; simpl; try tauto; try (intros _; split; [reflexivity|exact I]).
    intros [Hi Hv]. destruct (IHk _ Hv) as [E _]. split; [|exact I]. f_equal; [lia|]. simpl in E. exact E.
  - destruct ix as [|i ix]; simpl; [tauto|]. intros [Hi Hv]. destruct (IH _ Hv) as [E Hv']. split.
    + f_equal. exact E.
    + split; auto.
Qed.

(* ---- sparse_repeat (repaired stride) = dense repeat: out[ix] = in[ix mod shape], new leading dims of size 1 ---- *)
Lemma sparse_repeat_correct s reps :
  swf s = true -> length (sshape s) <= length reps -> (forall j, j < length reps -> 1 <= nth j reps 0) ->
  let n := length (sshape s) in let nd := length reps in
  let sh0 := sshape s ++ repeat 1 (nd - n) in
  let r := sparse_repeat stride_dense s reps in
  length (sshape r) = nd /\ swf r = true /\
  (forall p, p < nd -> nth p (sshape r) 0 = nth (nd - 1 - p) reps 0 * nth p sh0 0) /\
  (forall ix, valid ix (sshape r) ->
     tat (sdense r) ix = tat (sdense s) (firstn n (modfrom 0 ix sh0))).
Proof.
  intros Hw Hle Hr n nd sh0 r.
  set (s0 := pad_sparse s (nd - n)).
  assert (Hs0 : sshape s0 = sh0) by reflexivity.
  assert (Hw0 : swf s0 = true) by (apply pad_sparse_wf; exact Hw).
  assert (Hn0 : length (sshape s0) = nd).
  { rewrite Hs0. unfold sh0. rewrite app_length, repeat_length. unfold n, nd in *. lia. }
  assert (Er : r = rep_loop stride_dense reps nd nd s0).
  { unfold r. rewrite sparse_repeat_unfold. fold n nd. destruct (Nat.ltb_spec n nd) as [Hlt|Hge].
    - cbv zeta. fold s0. rewrite Hn0. reflexivity.
    - assert (E : nd - n = 0) by lia. cbv zeta.
      assert (Es' : s0 = s) by (unfold s0; rewrite E; apply pad_sparse_0).
      rewrite Es'. fold n. replace n with nd by (unfold n, nd in *; lia). reflexivity. }
  pose proof (rep_loop_inv reps s0 nd Hw0) as Hinv. cbv zeta in Hinv. rewrite Hn0 in Hinv.
  destruct (Hinv eq_refl Hr (le_n _)) as [Hlen [Hwf [Hsh Hval]]]. rewrite <- Er in *.
  split; [exact Hlen|]. split; [exact Hwf|]. split.
  - intros p Hp. rewrite Hsh by auto. rewrite Nat.sub_diag. cbn [Nat.leb]. rewrite Hs0. reflexivity.
  - intros ix Hv. rewrite !sdense_at, Hval by auto. rewrite Nat.sub_diag, Hs0.
    (* the modded index is valid in sh0 = shape ++ ones, hence ends in zeros *)
    assert (Hvm : valid (modfrom 0 ix sh0) sh0).
    { pose proof (valid_length _ _ Hv) as Hl. rewrite Hlen in Hl.
      apply valid_nth. rewrite modfrom_length. assert (Hl0 : length sh0 = nd) by (rewrite <- Hs0; exact Hn0).
      split; [lia|]. intros p Hp. rewrite modfrom_nth by lia. cbn [Nat.leb].
      apply Nat.mod_upper_bound.
      apply valid_nth in Hv. destruct Hv as [_ Hv]. specialize (Hv p ltac:(lia)).
      rewrite Hsh in Hv by lia. rewrite Nat.sub_diag in Hv. cbn [Nat.leb] in Hv. rewrite Hs0 in Hv.
      destruct (nth p sh0 0); lia. }
    destruct (valid_ones_tail _ _ _ Hvm) as [E Hvf]. fold n in E, Hvf.
    rewrite E at 1. unfold s0. rewrite pad_sparse_value; [reflexivity|exact Hw|].
    apply valid_length in Hvf. exact Hvf.
Qed.

(* the pinned stride (copy k shifted by k instead of k * size) gives the same result whenever every repeated
   dimension has size 1 — the only way the library's own callers (bdsmm broadcasting) use it *)
Lemma sparse_repeat_pinned_ok_on_size1 s reps :
  swf s = true -> length (sshape s) <= length reps -> (forall j, j < length reps -> 1 <= nth j reps 0) ->
  let n := length (sshape s) in let nd := length reps in
  let sh0 := sshape s ++ repeat 1 (nd - n) in
  (forall j, j < nd -> 1 < nth j reps 0 -> nth (nd - 1 - j) sh0 0 = 1) ->
  sparse_repeat stride_pinned s reps = sparse_repeat stride_dense s reps.
Proof.
  intros Hw Hle Hr n nd sh0 H1. rewrite !sparse_repeat_unfold. cbv zeta. fold n nd.
  set (s0 := if n <? nd then pad_sparse s (nd - n) else s).
  assert (Hs0 : sshape s0 = sh0).
  { unfold s0. destruct (Nat.ltb_spec n nd); [reflexivity|]. unfold sh0.
    replace (nd - n) with 0 by lia. cbn [repeat]. rewrite app_nil_r. reflexivity. }
  assert (Hw0 : swf s0 = true) by (unfold s0; destruct (n <? nd); [apply pad_sparse_wf|]; exact Hw).
  assert (Hn0 : length (sshape s0) = nd).
  { rewrite Hs0. unfold sh0. rewrite app_length, repeat_length. unfold n, nd in *. lia. }
  rewrite Hn0.
  assert (G : forall i, i <= nd -> rep_loop stride_pinned reps nd i s0 = rep_loop stride_dense reps nd i s0).
  { induction i as [|i IH]; intros Hi; [reflexivity|].
    unfold rep_loop in *. rewrite !loop_S. rewrite IH by lia.
    apply sparse_repeat_dim_stride. intros Hgt.
    pose proof (rep_loop_inv reps s0 i Hw0) as Hinv. cbv zeta in Hinv. rewrite Hn0 in Hinv.
    destruct (Hinv eq_refl Hr ltac:(lia)) as [_ [_ [Hsh _]]].
    unfold rep_loop in Hsh. rewrite Hsh by lia.
    destruct (Nat.leb_spec (nd - i) (nd - 1 - i)); [lia|]. rewrite Hs0, (H1 i) by (auto; lia). reflexivity. }
  apply G. lia.
Qed.
