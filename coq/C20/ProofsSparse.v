(* C20 — linear_operator/utils/sparse.py, functions/_dsmm.py: sparse COO tensors as entry lists (duplicates sum) *)
From Coq Require Import List ZArith Bool Arith Lia.
Import ListNotations.
Require Import C20.Model C20.ProofsBase.

(* the dense value of an entry list at a multi-index *)
Definition sval (ents : list (list nat * Z)) (ix : list nat) : Z :=
  fold_right (fun e acc => if list_nat_eqb (fst e) ix then (snd e + acc)%Z else acc) 0%Z ents.

Lemma sdense_at s ix : tat (sdense s) ix = sval (sent s) ix.
Proof. reflexivity. Qed.

Lemma sval_nil ix : sval [] ix = 0%Z.
Proof. reflexivity. Qed.

Lemma sval_cons e ents ix :
  sval (e :: ents) ix = ((if list_nat_eqb (fst e) ix then snd e else 0) + sval ents ix)%Z.
Proof. unfold sval; simpl. destruct (list_nat_eqb (fst e) ix); ring. Qed.

Lemma sval_app a b ix : sval (a ++ b) ix = (sval a ix + sval b ix)%Z.
Proof. induction a as [|e a IH]; [simpl; ring|]. simpl app. rewrite !sval_cons, IH. ring. Qed.

Lemma sval_flat_map_seq (f : nat -> list (list nat * Z)) n ix :
  sval (flat_map f (seq 0 n)) ix = zsum n (fun k => sval (f k) ix).
Proof.
  induction n; [reflexivity|]. rewrite seq_S, flat_map_app, sval_app, IHn. simpl. rewrite app_nil_r. reflexivity.
Qed.

(* no entry at ix -> 0 *)
Lemma sval_none ents ix : (forall e, In e ents -> fst e <> ix) -> sval ents ix = 0%Z.
Proof.
  induction ents as [|e ents IH]; intros H; [reflexivity|]. rewrite sval_cons, IH.
  - destruct (list_nat_eqb (fst e) ix) eqn:E; [|ring]. apply list_nat_eqb_eq in E. exfalso. apply (H e); simpl; auto.
  - intros e' Hin. apply H. simpl; auto.
Qed.

(* entries of a well-formed sparse tensor lie inside its shape: outside the shape the dense value is 0 *)
Lemma swf_spec s : swf s = true <-> forall e, In e (sent s) -> valid (fst e) (sshape s).
Proof.
  unfold swf. rewrite forallb_forall. split; intros H e Hin; specialize (H e Hin); apply validb_valid; auto.
Qed.

Lemma sval_outside s ix : swf s = true -> ~ valid ix (sshape s) -> sval (sent s) ix = 0%Z.
Proof.
  intros Hw Hn. apply sval_none. intros e Hin E. apply Hn. rewrite <- E. apply (proj1 (swf_spec s) Hw e Hin).
Qed.

(* ------------------------------------------------------------------------------------------ *)
(* sparse_eye *)
Lemma sparse_eye_correct n i j :
  tat (sdense (sparse_eye n)) [j; i] = if (i =? j) && (i <? n) then 1%Z else 0%Z.
Proof.
  rewrite sdense_at. unfold sparse_eye. cbn [sent]. induction n.
  - simpl. destruct (i =? j); reflexivity.
  - rewrite seq_S, map_app, sval_app, IHn. cbn [map plus]. rewrite sval_cons, sval_nil. cbn [fst snd list_nat_eqb].
    destruct (Nat.eqb_spec i j) as [->|Hij]; cbn [andb].
    + destruct (Nat.eqb_spec n j) as [->|Hn]; cbn [andb].
      * replace (j <? j) with false by (symmetry; apply Nat.ltb_irrefl).
        replace (j <? S j) with true by (symmetry; apply Nat.ltb_lt; lia). reflexivity.
      * destruct (Nat.ltb_spec j n); destruct (Nat.ltb_spec j (S n)); try lia; reflexivity.
    + destruct (Nat.eqb_spec n j) as [->|Hn]; cbn [andb].
      * destruct (Nat.eqb_spec j i); [congruence|]. reflexivity.
      * reflexivity.
Qed.

Lemma sparse_eye_shape n : sshape (sparse_eye n) = [n; n].
Proof. reflexivity. Qed.

Lemma sparse_eye_wf n : swf (sparse_eye n) = true.
Proof.
  apply swf_spec. unfold sparse_eye. cbn [sent sshape]. intros e Hin. apply in_map_iff in Hin.
  destruct Hin as [k [<- Hk]]. apply in_seq in Hk. simpl. lia.
Qed.

(* ------------------------------------------------------------------------------------------ *)
(* sparse.mT (DSMM.backward uses bdsmm(sparse.mT, grad)): the dense value is the transpose *)
Lemma smT_correct s j i b :
  tat (sdense (smT s)) (j :: i :: b) = tat (sdense s) (i :: j :: b).
Proof.
  rewrite !sdense_at. unfold smT. cbn [sent]. induction (sent s) as [|e ents IH]; [reflexivity|].
  cbn [map]. rewrite !sval_cons, IH. cbn [fst snd]. f_equal.
  destruct (fst e) as [|x [|y l]]; cbn [swap01 list_nat_eqb]; try reflexivity.
  - destruct (x =? j), (x =? i); reflexivity.
  - rewrite !andb_assoc. rewrite (andb_comm (y =? j)). reflexivity.
Qed.

Lemma smT_shape s : sshape (smT s) = swap01 (sshape s).
Proof. reflexivity. Qed.

(* ------------------------------------------------------------------------------------------ *)
(* torch.dsmm on 2-D operands as transcribed (sum over the entries) = dense matrix product *)
Lemma dsmm2_correct s d n m p :
  sshape s = [n; m] -> tshape d = [p; n] -> swf s = true ->
  exists out, dsmm2 s d = Ok out /\ tshape out = [p; m] /\
    forall j i, tat out [j; i] = zsum n (fun c => (tat (sdense s) [c; i] * tat d [j; c])%Z).
Proof.
  intros Hs Hd Hw. unfold dsmm2. rewrite Hs, Hd, Nat.eqb_refl. cbn [negb].
  eexists. split; [reflexivity|]. split; [reflexivity|].
  intros j i. cbn [tat].
  assert (Hv : forall e, In e (sent s) -> valid (fst e) [n; m]).
  { intros e Hin. rewrite <- Hs. apply (proj1 (swf_spec s) Hw e Hin). }
  transitivity (zsum n (fun c => (sval (sent s) [c; i] * tat d [j; c])%Z)); [|reflexivity].
  induction (sent s) as [|e ents IH].
  - simpl. symmetry. apply zsum_zero. intros; ring.
  - cbn [fold_right]. rewrite IH by (intros; apply Hv; simpl; auto).
    rewrite (zsum_ext n (fun c => (sval (e :: ents) [c; i] * tat d [j; c])%Z)
                        (fun c => ((if list_nat_eqb (fst e) [c; i] then snd e else 0) * tat d [j; c]
                                   + sval ents [c; i] * tat d [j; c])%Z))
      by (intros; rewrite sval_cons; ring).
    rewrite zsum_add. specialize (Hv e (or_introl eq_refl)).
    destruct (fst e) as [|c0 [|r0 [|x l]]]; cbn [valid] in Hv; try tauto. destruct Hv as [Hc [Hr _]].
    cbn [list_nat_eqb]. destruct (Nat.eqb_spec r0 i) as [->|Hne].
    + f_equal. symmetry.
      rewrite (zsum_ext n _ (fun c => ((if (c0 =? c)%nat then snd e else 0) * tat d [j; c])%Z)).
      * rewrite zsum_onehot by auto. reflexivity.
      * intros c _. cbn [andb]. rewrite andb_true_r. reflexivity.
    + rewrite (zsum_zero n (fun c => ((if ((c0 =? c) && (false && true))%nat then snd e else 0) * tat d [j; c])%Z)).
      * ring.
      * intros c _. rewrite andb_false_r. ring.
Qed.
