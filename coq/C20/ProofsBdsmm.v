(* C20 — linear_operator/utils/sparse.py: bdsmm (batched sparse @ dense); functions/_dsmm.py *)
From Coq Require Import List ZArith Bool Arith Lia.
Import ListNotations.
Require Import C20.Model C20.ProofsBase C20.ProofsSparse C20.ProofsRepeat C20.ProofsShape C20.ProofsPerm.

Lemma unravel_of_ravel sh k ix : k = ravel sh ix -> valid ix sh -> unravel sh k = ix.
Proof. intros -> Hv. apply unravel_ravel. exact Hv. Qed.

Lemma ravel_cons d sh i ix : ravel (d :: sh) (i :: ix) = i + d * ravel sh ix.
Proof. reflexivity. Qed.
Lemma ravel_nil ix : ravel [] ix = 0.
Proof. reflexivity. Qed.

(* ---- the plain branch: both operands 2-D ---- *)
Lemma bdsmm_plain_correct stride s d n m p :
  sshape s = [n; m] -> tshape d = [p; n] -> swf s = true ->
  exists out, bdsmm stride s d = Ok out /\ tshape out = [p; m] /\
    forall j i, tat out [j; i] = zsum n (fun c => (tat (sdense s) [c; i] * tat d [j; c])%Z).
Proof.
  intros Hs Hd Hw. unfold bdsmm, ndim. rewrite Hs, Hd. cbn [length Nat.ltb Nat.leb].
  apply dsmm2_correct; auto.
Qed.

(* ---- the dense-batched branch: sparse 2-D (m x n), dense (batch..., n, p) of rank > 2:
        the batch is folded into the columns (view / transpose / reshape), one dsmm, unfolded again ---- *)
Lemma bdsmm_dense_batched_correct stride s d n m p b0 rb :
  sshape s = [n; m] -> tshape d = p :: n :: b0 :: rb -> swf s = true ->
  exists out, bdsmm stride s d = Ok out /\ tshape out = p :: m :: b0 :: rb /\
    forall j i b, j < p -> i < m -> valid b (b0 :: rb) ->
      tat out (j :: i :: b) = zsum n (fun c => (tat (sdense s) [c; i] * tat d (j :: c :: b))%Z).
Proof.
  intros Hs Hd Hw. unfold bdsmm, ndim. rewrite Hs, Hd. cbn [length Nat.ltb Nat.leb].
  set (rbatch := b0 :: rb). set (B := numel rbatch).
  set (d3 := reshape d [p; n; B]).
  set (x := reshape (swap12 d3) [B * p; n]).
  destruct (dsmm2_correct s x n m (B * p) Hs eq_refl Hw) as [res [Eres [Hsres Hvres]]].
  rewrite Eres. cbn [bind]. unfold dim1. rewrite Hsres. cbn [nth].
  eexists. split; [reflexivity|]. split; [reflexivity|].
  intros j i b Hj Hi Hb.
  pose proof (ravel_lt _ _ Hb) as Hbeta. fold B in Hbeta. set (beta := ravel rbatch b) in *.
  (* output side *)
  unfold reshape at 1. cbn [tat tshape].
  assert (E1 : unravel [p; m; B] (ravel (p :: m :: rbatch) (j :: i :: b)) = [j; beta; i] -> True) by auto.
  rewrite (unravel_of_ravel [p; m; B] _ [j; i; beta]).
  2:{ rewrite !ravel_cons, ravel_nil. fold beta. ring. }
  2:{ simpl. lia. }
  unfold swap12 at 1. cbn [tat tshape]. unfold reshape at 1. cbn [tat tshape]. rewrite Hsres.
  rewrite (unravel_of_ravel [B * p; m] _ [j + p * beta; i]).
  2:{ rewrite !ravel_cons, ravel_nil. ring. }
  2:{ simpl. split; [nia|lia]. }
  rewrite Hvres. apply zsum_ext. intros c Hc. f_equal.
  (* input side *)
  unfold x, reshape at 1. cbn [tat tshape].
  rewrite (unravel_of_ravel [p; B; n] _ [j; beta; c]).
  2:{ unfold swap12, d3, reshape. cbn [tshape]. rewrite !ravel_cons, ravel_nil. ring. }
  2:{ simpl. lia. }
  unfold swap12 at 1. cbn [tat tshape]. unfold d3, reshape. cbn [tat tshape]. rewrite Hd.
  rewrite (unravel_of_ravel (p :: n :: rbatch) _ (j :: c :: b)); [reflexivity| |].
  - rewrite !ravel_cons, ravel_nil. fold beta. ring.
  - simpl. simpl in Hb. tauto.
Qed.

(* ---- DSMM.backward = bdsmm(sparse.mT, grad_output) = S^T @ G ---- *)
Lemma smT_wf s n m : sshape s = [n; m] -> swf s = true -> swf (smT s) = true.
Proof.
  intros Hs Hw. apply swf_spec. intros e Hin. unfold smT in *. cbn [sent sshape] in *. apply in_map_iff in Hin.
  destruct Hin as [e0 [<- Hin]]. cbn [fst]. pose proof (proj1 (swf_spec s) Hw e0 Hin) as Hv. rewrite Hs in *.
  destruct (fst e0) as [|x [|y [|z l]]]; simpl in *; tauto.
Qed.

Lemma dsmm_backward_plain_correct stride s g n m p :
  sshape s = [n; m] -> tshape g = [p; m] -> swf s = true ->
  exists out, dsmm_backward stride s g = Ok out /\ tshape out = [p; n] /\
    forall j c, tat out [j; c] = zsum m (fun i => (tat (sdense s) [c; i] * tat g [j; i])%Z).
Proof.
  intros Hs Hg Hw. unfold dsmm_backward.
  destruct (bdsmm_plain_correct stride (smT s) g m n p) as [out [E [Hsh Hv]]]; auto.
  { unfold smT. cbn [sshape]. rewrite Hs. reflexivity. }
  { apply (smT_wf s n m); auto. }
  exists out. split; [exact E|]. split; [exact Hsh|]. intros j c. rewrite Hv. apply zsum_ext. intros i _.
  f_equal. apply (smT_correct s i c []).
Qed.

(* ------------------------------------------------------------------------------------------ *)
(* the sparse-batched branch: block-diagonal flattening `row + b * num_rows`, `col + b * num_cols` *)
Lemma numel_app_ a b : numel (a ++ b) = numel a * numel b.
Proof. induction a; simpl; [lia|]. rewrite IHa. lia. Qed.

(* ---- sums over a block-structured index ---- *)
Lemma zsum_prod B nc f : zsum (B * nc) f = zsum B (fun beta => zsum nc (fun c => f (c + nc * beta))).
Proof.
  induction B as [|B IH]; [reflexivity|].
  replace (S B * nc) with (B * nc + nc) by lia. rewrite zsum_app, IH. simpl. f_equal.
  apply zsum_ext. intros c _. f_equal. lia.
Qed.

Lemma block_lt n B c beta : c < n -> beta < B -> c + beta * n < B * n.
Proof.
  intros Hc Hb. apply Nat.lt_le_trans with (S beta * n); [simpl; lia|]. apply Nat.mul_le_mono_r. lia.
Qed.

Lemma divmod_unique n a b a' b' : a < n -> a' < n -> a + b * n = a' + b' * n -> a = a' /\ b = b'.
Proof.
  intros Ha Ha' E. assert (b = b').
  { destruct (Nat.lt_trichotomy b b') as [H|[H|H]]; [|exact H|]; exfalso; nia. }
  subst. split; [nia|reflexivity].
Qed.

(* ---- the batch assignment `indices[:-2].t() @ batch_multiplication_factor` is the row-major rank of the batch index ---- *)
Lemma fold_add_app l t : fold_right Nat.add 0 (l ++ [t]) = fold_right Nat.add 0 l + t.
Proof. induction l; simpl; lia. Qed.

Lemma batch_assign_ravel rbatch bix : length bix = length rbatch ->
  fold_right Nat.add 0 (map (fun i => nth i (rev bix) 0 * numel (skipn (S i) (rev rbatch))) (seq 0 (length (rev rbatch))))
  = ravel rbatch bix.
Proof.
  revert bix; induction rbatch as [|d rb IH]; intros [|x bix] Hl; simpl in Hl; try lia; [reflexivity|].
  cbn [rev]. rewrite app_length. cbn [length]. rewrite Nat.add_1_r, seq_S, map_app. cbn [map plus]. rewrite fold_add_app. cbn [ravel].
  assert (Hk : length (rev rb) = length (rev bix)) by (rewrite !rev_length; lia).
  rewrite app_nth2 by lia. rewrite <- Hk, Nat.sub_diag. cbn [nth].
  rewrite skipn_all2 by (rewrite app_length; simpl; lia). cbn [numel]. rewrite Nat.mul_1_r.
  rewrite (map_ext_in _ (fun i => (nth i (rev bix) 0 * numel (skipn (S i) (rev rb))) * d)).
  - rewrite <- (IH bix) by lia.
    assert (G : forall l, fold_right Nat.add 0 (map (fun i => nth i (rev bix) 0 * numel (skipn (S i) (rev rb)) * d) l)
                        = d * fold_right Nat.add 0 (map (fun i => nth i (rev bix) 0 * numel (skipn (S i) (rev rb))) l)).
    { induction l as [|a l IHl]; cbn [map fold_right]; [lia|]. rewrite IHl. ring. }
    rewrite G. lia.
  - intros i Hi. apply in_seq in Hi. rewrite app_nth1 by lia.
    rewrite skipn_app. replace (S i - length (rev rb)) with 0 by lia. cbn [skipn].
    rewrite numel_app_. simpl. lia.
Qed.

(* ---- repeat sizes that are all <= 1: sparse_repeat is the identity ---- *)
Lemma rep_loop_ones stride reps nd i s : (forall j, j < i -> nth j reps 0 <= 1) -> rep_loop stride reps nd i s = s.
Proof.
  unfold rep_loop. induction i as [|i IH]; intros H; [reflexivity|]. rewrite loop_S, IH by (intros; apply H; lia).
  unfold sparse_repeat_dim. specialize (H i ltac:(lia)). destruct (Nat.ltb_spec 1 (nth i reps 0)); [lia|reflexivity].
Qed.

Lemma sparse_repeat_ones stride s reps :
  length reps = length (sshape s) -> (forall j, j < length reps -> nth j reps 0 <= 1) -> sparse_repeat stride s reps = s.
Proof.
  intros Hl H. rewrite sparse_repeat_unfold. cbv zeta. rewrite Hl, Nat.ltb_irrefl. apply rep_loop_ones. rewrite <- Hl. exact H.
Qed.

Lemma map2_div_self l : Forall (fun d => 1 <= d) l -> map2 Nat.div l (l ++ []) = repeat 1 (length l).
Proof.
  induction 1 as [|d l Hd Hl IH]; [reflexivity|]. cbn [app map2 length repeat]. rewrite IH. f_equal.
  apply Nat.div_same. lia.
Qed.

Lemma nth_rev_repeat_1 k i : nth i (rev (repeat 1 k)) 0 <= 1.
Proof.
  destruct (Nat.lt_ge_cases i (length (rev (repeat 1 k)))) as [H|H].
  - rewrite rev_nth by (rewrite rev_length in H; exact H). clear H. generalize (length (repeat 1 k) - S i) as j.
    induction k; intros [|j]; simpl; auto.
  - rewrite nth_overflow by exact H. lia.
Qed.

(* ---- the block-diagonal flattening: entry (c, r, batch b) goes to (c + beta*nc, r + beta*nr), beta = rank of b ---- *)
Definition flat_ix (nc nr : nat) (ob : shape) (e : list nat) : list nat :=
  [nth 0 e 0 + ravel ob (skipn 2 e) * nc; nth 1 e 0 + ravel ob (skipn 2 e) * nr].

Lemma flat_match nc nr ob e c0 r0 b0 :
  valid e (nc :: nr :: ob) -> c0 < nc -> r0 < nr -> valid b0 ob ->
  list_nat_eqb (flat_ix nc nr ob e) [c0 + ravel ob b0 * nc; r0 + ravel ob b0 * nr] = list_nat_eqb e (c0 :: r0 :: b0).
Proof.
  intros Hv Hc Hr Hb. destruct e as [|c [|r bix]]; simpl in Hv; try tauto. destruct Hv as [Hc' [Hr' Hbix]].
  unfold flat_ix. cbn [nth skipn].
  destruct (list_nat_eqb (c :: r :: bix) (c0 :: r0 :: b0)) eqn:E.
  - apply list_nat_eqb_eq in E. inversion E; subst. apply list_nat_eqb_refl.
  - match goal with |- ?x = false => destruct x eqn:E'; [|reflexivity] end. apply list_nat_eqb_eq in E'. inversion E' as [[E1 E2]].
    destruct (divmod_unique nr r (ravel ob bix) r0 (ravel ob b0) Hr' Hr E2) as [-> Hbeta].
    rewrite Hbeta in E1. assert (c = c0) by lia. subst c.
    assert (bix = b0).
    { rewrite <- (unravel_ravel ob bix Hbix), <- (unravel_ravel ob b0 Hb), Hbeta. reflexivity. }
    subst. rewrite list_nat_eqb_refl in E. discriminate.
Qed.

Lemma flat_block_miss nc nr ob e c' beta' r0 b0 :
  valid e (nc :: nr :: ob) -> c' < nc -> r0 < nr -> beta' <> ravel ob b0 ->
  list_nat_eqb (flat_ix nc nr ob e) [c' + nc * beta'; r0 + ravel ob b0 * nr] = false.
Proof.
  intros Hv Hc Hr Hne. destruct e as [|c [|r bix]]; simpl in Hv; try tauto. destruct Hv as [Hc' [Hr' Hbix]].
  unfold flat_ix. cbn [nth skipn].
  match goal with |- ?x = false => destruct x eqn:E'; [|reflexivity] end. apply list_nat_eqb_eq in E'. inversion E' as [[E1 E2]].
  destruct (divmod_unique nr r (ravel ob bix) r0 (ravel ob b0) Hr' Hr E2) as [-> Hbeta].
  replace (c' + nc * beta') with (c' + beta' * nc) in E1 by lia.
  destruct (divmod_unique nc c (ravel ob bix) c' beta' Hc' Hc E1) as [_ Hb']. congruence.
Qed.

Lemma sval_flat nc nr ob ents c0 r0 b0 :
  (forall e, In e ents -> valid (fst e) (nc :: nr :: ob)) -> c0 < nc -> r0 < nr -> valid b0 ob ->
  sval (map (fun e => (flat_ix nc nr ob (fst e), snd e)) ents) [c0 + ravel ob b0 * nc; r0 + ravel ob b0 * nr]
  = sval ents (c0 :: r0 :: b0).
Proof.
  intros Hv Hc Hr Hb. induction ents as [|e ents IH]; [reflexivity|].
  cbn [map]. rewrite !sval_cons, IH by (intros; apply Hv; simpl; auto). cbn [fst snd].
  rewrite flat_match by (auto; apply Hv; simpl; auto). reflexivity.
Qed.

Lemma sval_flat_miss nc nr ob ents c' beta' r0 b0 :
  (forall e, In e ents -> valid (fst e) (nc :: nr :: ob)) -> c' < nc -> r0 < nr -> beta' <> ravel ob b0 ->
  sval (map (fun e => (flat_ix nc nr ob (fst e), snd e)) ents) [c' + nc * beta'; r0 + ravel ob b0 * nr] = 0%Z.
Proof.
  intros Hv Hc Hr Hne. induction ents as [|e ents IH]; [reflexivity|].
  cbn [map]. rewrite !sval_cons, IH by (intros; apply Hv; simpl; auto). cbn [fst snd].
  rewrite flat_block_miss by (auto; apply Hv; simpl; auto). reflexivity.
Qed.

(* ---- the sparse-batched branch of bdsmm, sparse batch shape = output batch shape (the dense operand may broadcast) ---- *)
Lemma bdsmm_sparse_batched_correct stride s d nc nr o0 orest p db :
  let ob := o0 :: orest in
  sshape s = nc :: nr :: ob -> swf s = true -> Forall (fun x => 1 <= x) (nc :: nr :: ob) ->
  tshape d = p :: nc :: db -> broadcast_shapes ob db = Some ob ->
  exists out, bdsmm stride s d = Ok out /\ tshape out = p :: nr :: ob /\
    forall j i b, j < p -> i < nr -> valid b ob ->
      tat out (j :: i :: b) = zsum nc (fun c => (tat (sdense s) (c :: i :: b) * tat d (j :: c :: bcast_ix db b))%Z).
Proof.
  intros ob Hs Hw Hpos Hd Hb. unfold bdsmm, ndim. rewrite Hs, Hd.
  replace (2 <? length (nc :: nr :: ob)) with true by reflexivity.
  unfold matmul_broadcast_shape. rewrite Nat.eqb_refl, Hb. cbn [bind].
  replace (length (p :: nc :: db) <? 2) with false by reflexivity.
  change (skipn 2 (p :: nr :: ob)) with ob. change (firstn 2 (nc :: nr :: ob)) with [nc; nr].
  replace (length (p :: nr :: ob) - length (nc :: nr :: ob)) with 0 by (simpl; lia).
  change ([nc; nr] ++ ob) with (nc :: nr :: ob). cbn [repeat].
  rewrite (map2_div_self _ Hpos).
  rewrite sparse_repeat_ones.
  2:{ rewrite rev_length, repeat_length, Hs. reflexivity. }
  2:{ intros j _. apply nth_rev_repeat_1. }
  rewrite Hs. unfold dim0, dim1. rewrite Hd. cbn [nth].
  set (B := numel ob).
  assert (HB : 0 < B).
  { unfold B. inversion Hpos as [|? ? _ H1]. inversion H1 as [|? ? _ H2]. clear - H2.
    induction H2; simpl; nia. }
  assert (Hnc : 1 <= nc) by (inversion Hpos; auto).
  assert (Hnr : 1 <= nr) by (inversion Hpos as [|? ? _ H1]; inversion H1; auto).
  (* entries of the block-diagonal 2-D tensor *)
  assert (Hents : map (fun e : list nat * Z =>
              ([nth 0 (fst e) 0 + fold_right Nat.add 0 (map (fun i => nth i (rev (skipn 2 (fst e))) 0 * numel (skipn (S i) (rev ob))) (seq 0 (length (rev ob)))) * nc;
                nth 1 (fst e) 0 + fold_right Nat.add 0 (map (fun i => nth i (rev (skipn 2 (fst e))) 0 * numel (skipn (S i) (rev ob))) (seq 0 (length (rev ob)))) * nr], snd e)) (sent s)
           = map (fun e => (flat_ix nc nr ob (fst e), snd e)) (sent s)).
  { apply map_ext_in. intros e Hin. unfold flat_ix. pose proof (proj1 (swf_spec s) Hw e Hin) as Hv. rewrite Hs in Hv.
    rewrite batch_assign_ravel; [reflexivity|].
    destruct (fst e) as [|c [|r bix]]; simpl in Hv; try tauto. cbn [skipn]. apply valid_length. tauto. }
  rewrite Hents. clear Hents.
  assert (Hoc : numel (tshape (expand d (p :: nc :: ob))) / (B * nc) = p).
  { cbn [tshape expand numel]. fold B. replace (p * (nc * B)) with (p * (B * nc)) by ring. apply Nat.div_mul. nia. }
  rewrite Hoc.
  set (ents2 := map (fun e : list nat * Z => (flat_ix nc nr ob (fst e), snd e)) (sent s)).
  assert (Hvs : forall e, In e (sent s) -> valid (fst e) (nc :: nr :: ob)).
  { intros e Hin. rewrite <- Hs. apply (proj1 (swf_spec s) Hw e Hin). }
  assert (Hwf2 : swf (mkS [B * nc; B * nr] ents2) = true).
  { apply swf_spec. cbn [sent sshape]. intros e Hin. unfold ents2 in Hin. apply in_map_iff in Hin.
    destruct Hin as [e0 [<- Hin]]. cbn [fst]. specialize (Hvs e0 Hin).
    destruct (fst e0) as [|c [|r bix]]; simpl in Hvs; try tauto. destruct Hvs as [Hc [Hr Hbix]].
    unfold flat_ix. cbn [nth skipn]. pose proof (ravel_lt _ _ Hbix) as Hlt. fold B in Hlt. simpl. repeat split; apply block_lt; auto. }
  unfold mk_sparse. rewrite Hwf2. cbn [bind].
  set (d2 := reshape (expand d (p :: nc :: ob)) [p; B * nc]).
  destruct (dsmm2_correct (mkS [B * nc; B * nr] ents2) d2 (B * nc) (B * nr) p eq_refl eq_refl Hwf2) as [res [Eres [Hsres Hvres]]].
  rewrite Eres. cbn [bind].
  eexists. split; [reflexivity|]. split; [reflexivity|].
  intros j i b Hj Hi Hvb.
  pose proof (ravel_lt _ _ Hvb) as Hbeta. fold B in Hbeta. set (beta := ravel ob b) in *.
  unfold reshape at 1. cbn [tat tshape]. rewrite Hsres.
  rewrite (unravel_of_ravel [p; B * nr] _ [j; i + beta * nr]).
  2:{ rewrite !ravel_cons, ravel_nil. fold beta. ring. }
  2:{ simpl. repeat split; [lia|apply block_lt; auto]. }
  rewrite Hvres. rewrite zsum_prod.
  rewrite (zsum_single B _ beta Hbeta).
  - apply zsum_ext. intros c Hc. f_equal.
    + rewrite sdense_at. cbn [sent]. unfold ents2.
      replace (c + nc * beta) with (c + beta * nc) by lia. unfold beta.
      rewrite (sval_flat nc nr ob (sent s) c i b Hvs Hc Hi Hvb). rewrite sdense_at. reflexivity.
    + unfold d2, reshape. cbn [tat tshape].
      rewrite (unravel_of_ravel (p :: nc :: ob) _ (j :: (c + 0) :: b)).
      * unfold expand. cbn [tat]. rewrite Hd. cbn [bcast_ix].
        replace (if p =? 1 then 0 else j) with j by (destruct (Nat.eqb_spec p 1); lia).
        replace (if nc =? 1 then 0 else c + 0) with c by (destruct (Nat.eqb_spec nc 1); lia). reflexivity.
      * rewrite !ravel_cons, ravel_nil. fold beta. ring.
      * simpl. repeat split; try lia. exact Hvb.
  - intros beta' Hb' Hne. apply zsum_zero. intros c Hc.
    rewrite sdense_at. cbn [sent]. unfold ents2, beta.
    rewrite (sval_flat_miss nc nr ob (sent s) c beta' i b Hvs Hc Hi Hne). ring.
Qed.

(* the sparse-batched branch after the broadcasting step: whatever `sparse_repeat` returned (s'), provided it is
   well formed with the output batch shape ob *)
Lemma bdsmm_sparse_batched_core stride s d nc nr sb0 sbr p db o0 orest s' :
  let sb := sb0 :: sbr in let ob := o0 :: orest in
  sshape s = nc :: nr :: sb -> tshape d = p :: nc :: db -> broadcast_shapes sb db = Some ob ->
  sparse_repeat stride s (rev (map2 Nat.div ([nc; nr] ++ ob) ((nc :: nr :: sb) ++ repeat 1 (length (p :: nr :: ob) - length (nc :: nr :: sb))))) = s' ->
  sshape s' = nc :: nr :: ob -> swf s' = true -> Forall (fun x => 1 <= x) (nc :: nr :: ob) ->
  exists out, bdsmm stride s d = Ok out /\ tshape out = p :: nr :: ob /\
    forall j i b, j < p -> i < nr -> valid b ob ->
      tat out (j :: i :: b) = zsum nc (fun c => (tat (sdense s') (c :: i :: b) * tat d (j :: c :: bcast_ix db b))%Z).
Proof.
  intros sb ob Hs Hd Hb Hrep Hs' Hw Hpos. unfold bdsmm, ndim. rewrite Hs, Hd.
  replace (2 <? length (nc :: nr :: sb)) with true by reflexivity.
  unfold matmul_broadcast_shape. rewrite Nat.eqb_refl. fold sb. rewrite Hb. cbn [bind].
  replace (length (p :: nc :: db) <? 2) with false by reflexivity.
  change (skipn 2 (p :: nr :: ob)) with ob. change (firstn 2 (nc :: nr :: sb)) with [nc; nr].
  rewrite Hrep. clear Hrep.
  rewrite Hs'. unfold dim0, dim1. rewrite Hd. cbn [nth].
  set (B := numel ob).
  assert (HB : 0 < B).
  { unfold B. inversion Hpos as [|? ? _ H1]. inversion H1 as [|? ? _ H2]. clear - H2.
    induction H2; simpl; nia. }
  assert (Hnc : 1 <= nc) by (inversion Hpos; auto).
  assert (Hnr : 1 <= nr) by (inversion Hpos as [|? ? _ H1]; inversion H1; auto).
  assert (Hents : map (fun e : list nat * Z =>
              ([nth 0 (fst e) 0 + fold_right Nat.add 0 (map (fun i => nth i (rev (skipn 2 (fst e))) 0 * numel (skipn (S i) (rev ob))) (seq 0 (length (rev ob)))) * nc;
                nth 1 (fst e) 0 + fold_right Nat.add 0 (map (fun i => nth i (rev (skipn 2 (fst e))) 0 * numel (skipn (S i) (rev ob))) (seq 0 (length (rev ob)))) * nr], snd e)) (sent s')
           = map (fun e => (flat_ix nc nr ob (fst e), snd e)) (sent s')).
  { apply map_ext_in. intros e Hin. unfold flat_ix. pose proof (proj1 (swf_spec s') Hw e Hin) as Hv. rewrite Hs' in Hv.
    rewrite batch_assign_ravel; [reflexivity|].
    destruct (fst e) as [|c [|r bix]]; simpl in Hv; try tauto. cbn [skipn]. apply valid_length. tauto. }
  rewrite Hents. clear Hents.
  assert (Hoc : numel (tshape (expand d (p :: nc :: ob))) / (B * nc) = p).
  { cbn [tshape expand numel]. fold B. replace (p * (nc * B)) with (p * (B * nc)) by ring. apply Nat.div_mul. nia. }
  rewrite Hoc.
  set (ents2 := map (fun e : list nat * Z => (flat_ix nc nr ob (fst e), snd e)) (sent s')).
  assert (Hvs : forall e, In e (sent s') -> valid (fst e) (nc :: nr :: ob)).
  { intros e Hin. rewrite <- Hs'. apply (proj1 (swf_spec s') Hw e Hin). }
  assert (Hwf2 : swf (mkS [B * nc; B * nr] ents2) = true).
  { apply swf_spec. cbn [sent sshape]. intros e Hin. unfold ents2 in Hin. apply in_map_iff in Hin.
    destruct Hin as [e0 [<- Hin]]. cbn [fst]. specialize (Hvs e0 Hin).
    destruct (fst e0) as [|c [|r bix]]; simpl in Hvs; try tauto. destruct Hvs as [Hc [Hr Hbix]].
    unfold flat_ix. cbn [nth skipn]. pose proof (ravel_lt _ _ Hbix) as Hlt. fold B in Hlt. simpl. repeat split; apply block_lt; auto. }
  unfold mk_sparse. rewrite Hwf2. cbn [bind].
  set (d2 := reshape (expand d (p :: nc :: ob)) [p; B * nc]).
  destruct (dsmm2_correct (mkS [B * nc; B * nr] ents2) d2 (B * nc) (B * nr) p eq_refl eq_refl Hwf2) as [res [Eres [Hsres Hvres]]].
  rewrite Eres. cbn [bind].
  eexists. split; [reflexivity|]. split; [reflexivity|].
  intros j i b Hj Hi Hvb.
  pose proof (ravel_lt _ _ Hvb) as Hbeta. fold B in Hbeta. set (beta := ravel ob b) in *.
  unfold reshape at 1. cbn [tat tshape]. rewrite Hsres.
  rewrite (unravel_of_ravel [p; B * nr] _ [j; i + beta * nr]).
  2:{ rewrite !ravel_cons, ravel_nil. fold beta. ring. }
  2:{ simpl. repeat split; [lia|apply block_lt; auto]. }
  rewrite Hvres. rewrite zsum_prod.
  rewrite (zsum_single B _ beta Hbeta).
  - apply zsum_ext. intros c Hc. f_equal.
    + rewrite sdense_at. cbn [sent]. unfold ents2.
      replace (c + nc * beta) with (c + beta * nc) by lia. unfold beta.
      rewrite (sval_flat nc nr ob (sent s') c i b Hvs Hc Hi Hvb). rewrite sdense_at. reflexivity.
    + unfold d2, reshape. cbn [tat tshape].
      rewrite (unravel_of_ravel (p :: nc :: ob) _ (j :: (c + 0) :: b)).
      * unfold expand. cbn [tat]. rewrite Hd. cbn [bcast_ix].
        replace (if p =? 1 then 0 else j) with j by (destruct (Nat.eqb_spec p 1); lia).
        replace (if nc =? 1 then 0 else c + 0) with c by (destruct (Nat.eqb_spec nc 1); lia). reflexivity.
      * rewrite !ravel_cons, ravel_nil. fold beta. ring.
      * simpl. repeat split; try lia. exact Hvb.
  - intros beta' Hb' Hne. apply zsum_zero. intros c Hc.
    rewrite sdense_at. cbn [sent]. unfold ents2, beta.
    rewrite (sval_flat_miss nc nr ob (sent s') c beta' i b Hvs Hc Hi Hne). ring.
Qed.

(* ---- the broadcasting step: repeat sizes computed by bdsmm, and what sparse_repeat makes of them ---- *)
Lemma nth_map2 {A B C} (f : A -> B -> C) la lb p da db dc :
  p < length la -> p < length lb -> nth p (map2 f la lb) dc = f (nth p la da) (nth p lb db).
Proof.
  revert lb p; induction la as [|a la IH]; intros [|b lb] [|p]; simpl; try lia; auto. intros; apply IH; lia.
Qed.
Lemma map2_length {A B C} (f : A -> B -> C) la lb : length (map2 f la lb) = Nat.min (length la) (length lb).
Proof. revert lb; induction la; intros [|b lb]; simpl; auto. Qed.

(* `expandable sb ob` (the sparse batch broadcasts to ob): padded with ones, every size divides the output size *)
Lemma div_mul_expandable sb : forall ob k, expandable sb ob = true -> length ob = length sb + k ->
  Forall (fun x => 1 <= x) sb ->
  forall p, p < length ob ->
    nth p ob 0 / nth p (sb ++ repeat 1 k) 0 * nth p (sb ++ repeat 1 k) 0 = nth p ob 0 /\
    (1 <= nth p ob 0 -> 1 <= nth p ob 0 / nth p (sb ++ repeat 1 k) 0) /\
    (1 < nth p ob 0 / nth p (sb ++ repeat 1 k) 0 -> nth p (sb ++ repeat 1 k) 0 = 1).
Proof.
  induction sb as [|x sb IH]; intros ob k He Hl Hpos p Hp.
  - cbn [app]. simpl in Hl. subst k.
    assert (E : nth p (repeat 1 (length ob)) 0 = 1).
    { clear - Hp. revert p Hp. induction (length ob); intros [|p] Hp; simpl; try lia; auto. apply IHn; lia. }
    rewrite E, Nat.div_1_r. lia.
  - destruct ob as [|y ob]; [discriminate|]. cbn [expandable] in He. apply andb_true_iff in He. destruct He as [Hxy He].
    inversion Hpos as [|? ? Hx Hpos']. subst. destruct p as [|p]; cbn [app nth].
    + apply orb_true_iff in Hxy. destruct Hxy as [E|E]; apply Nat.eqb_eq in E; subst.
      * rewrite Nat.div_same by lia. lia.
      * rewrite Nat.div_1_r. lia.
    + apply (IH ob k); auto; simpl in *; lia.
Qed.

Lemma firstn_modfrom_bcast sb : forall ob b tail, expandable sb ob = true -> valid b ob -> Forall (fun x => 1 <= x) sb ->
  firstn (length sb) (modfrom 0 b (sb ++ tail)) = bcast_ix sb b.
Proof.
  induction sb as [|x sb IH]; intros ob b tail He Hv Hpos; [reflexivity|].
  destruct ob as [|y ob]; [discriminate|]. destruct b as [|i b]; [simpl in Hv; tauto|].
  cbn [expandable] in He. apply andb_true_iff in He. destruct He as [Hxy He]. destruct Hv as [Hi Hv].
  inversion Hpos as [|? ? Hx Hpos']. subst.
  cbn [app modfrom length firstn bcast_ix pred]. f_equal.
  - apply orb_true_iff in Hxy. destruct Hxy as [E|E]; apply Nat.eqb_eq in E; subst.
    + rewrite Nat.mod_small by lia. destruct (Nat.eqb_spec y 1); [lia|reflexivity].
    + reflexivity.
  - apply (IH ob); auto.
Qed.

Lemma Forall_nth_ge1 l p : Forall (fun x => 1 <= x) l -> p < length l -> 1 <= nth p l 0.
Proof. intros H. revert p. induction H; intros [|p] Hp; simpl in *; try lia; auto. apply IHForall; lia. Qed.

(* ---- bdsmm, sparse-batched branch, FULL broadcasting (repaired stride) ---- *)
Lemma bdsmm_sparse_batched_general s d nc nr sb0 sbr p db ob :
  let sb := sb0 :: sbr in
  sshape s = nc :: nr :: sb -> swf s = true -> tshape d = p :: nc :: db ->
  broadcast_shapes sb db = Some ob ->
  Forall (fun x => 1 <= x) (nc :: nr :: ob) -> Forall (fun x => 1 <= x) sb ->
  exists out, bdsmm stride_dense s d = Ok out /\ tshape out = p :: nr :: ob /\
    forall j i b, j < p -> i < nr -> valid b ob ->
      tat out (j :: i :: b) =
      zsum nc (fun c => (tat (sdense s) (c :: i :: bcast_ix sb b) * tat d (j :: c :: bcast_ix db b))%Z).
Proof.
  intros sb Hs Hw Hd Hb Hpos Hsbpos.
  pose proof (broadcast_shapes_length _ _ _ Hb) as Hlob.
  destruct (broadcast_shapes_expandable _ _ _ Hb) as [Hexp _].
  assert (Hls : length sb <= length ob) by lia.
  destruct ob as [|o0 orest]; [simpl in Hls; lia|]. set (ob := o0 :: orest) in *.
  set (k := length ob - length sb).
  assert (Hk : length ob = length sb + k) by (unfold k; lia).
  set (U := nc :: nr :: (sb ++ repeat 1 k)). set (E := nc :: nr :: ob).
  assert (HU : (nc :: nr :: sb) ++ repeat 1 (length (p :: nr :: ob) - length (nc :: nr :: sb)) = U) by reflexivity.
  set (L := map2 Nat.div E U).
  assert (Hnc : 1 <= nc) by (inversion Hpos; auto).
  assert (Hnr : 1 <= nr) by (inversion Hpos as [|? ? _ H1]; inversion H1; auto).
  assert (Hobpos : Forall (fun x => 1 <= x) ob) by (inversion Hpos as [|? ? _ H1]; inversion H1; auto).
  assert (HlenE : length E = 2 + length ob) by reflexivity.
  assert (HlenU : length U = 2 + length ob).
  { unfold U. cbn [length]. rewrite app_length, repeat_length. lia. }
  assert (HlenL : length L = 2 + length ob) by (unfold L; rewrite map2_length; lia).
  assert (HL : forall q, q < 2 + length ob ->
     nth q L 0 * nth q U 0 = nth q E 0 /\ 1 <= nth q L 0 /\ (1 < nth q L 0 -> nth q U 0 = 1)).
  { intros q Hq. unfold L. rewrite (nth_map2 Nat.div E U q 0 0 0) by lia.
    destruct q as [|[|q]]; cbn [nth E U].
    - rewrite Nat.div_same by lia. lia.
    - rewrite Nat.div_same by lia. lia.
    - destruct (div_mul_expandable sb ob k Hexp Hk Hsbpos q ltac:(lia)) as [H1 [H2 H3]].
      split; [exact H1|]. split; [apply H2; apply Forall_nth_ge1; auto; lia|exact H3]. }
  set (reps := rev L).
  assert (Hlreps : length reps = 2 + length ob) by (unfold reps; rewrite rev_length; exact HlenL).
  assert (Hnthreps : forall j, j < 2 + length ob -> nth j reps 0 = nth (2 + length ob - 1 - j) L 0).
  { intros j Hj. unfold reps. rewrite rev_nth by lia. rewrite HlenL. f_equal; lia. }
  pose proof (sparse_repeat_correct s reps Hw) as Hrep. cbv zeta in Hrep.
  rewrite Hs, Hlreps in Hrep. change (length (nc :: nr :: sb)) with (2 + length sb) in Hrep.
  replace (2 + length ob - (2 + length sb)) with k in Hrep by lia.
  change ((nc :: nr :: sb) ++ repeat 1 k) with U in Hrep.
  destruct Hrep as [Hrlen [Hrwf [Hrsh Hrval]]]; [lia| |].
  { intros j Hj. rewrite Hnthreps by lia. apply HL. lia. }
  set (r := sparse_repeat stride_dense s reps) in *.
  assert (Hrshape : sshape r = E).
  { apply (nth_ext _ _ 0 0); [rewrite Hrlen, HlenE; reflexivity|]. intros q Hq. rewrite Hrlen in Hq.
    rewrite Hrsh by lia. rewrite Hnthreps by lia. replace (2 + length ob - 1 - (2 + length ob - 1 - q)) with q by lia.
    apply HL. lia. }
  destruct (bdsmm_sparse_batched_core stride_dense s d nc nr sb0 sbr p db o0 orest r) as [out [Eo [Hso Hvo]]]; auto.
  exists out. split; [exact Eo|]. split; [exact Hso|].
  intros j i b Hj Hi Hvb. rewrite Hvo by auto. apply zsum_ext. intros c Hc. f_equal.
  rewrite Hrval by (rewrite Hrshape; simpl; auto).
  f_equal. change (2 + length sb) with (S (S (length sb))). cbn [modfrom pred firstn U].
  rewrite !Nat.mod_small by lia. f_equal. f_equal.
  apply (firstn_modfrom_bcast sb ob b (repeat 1 k)); auto.
Qed.

(* the pinned stride gives the same bdsmm: the batch dimensions bdsmm repeats all have size 1 *)
Lemma bdsmm_sparse_batched_pinned_eq s d nc nr sb0 sbr p db ob :
  let sb := sb0 :: sbr in
  sshape s = nc :: nr :: sb -> swf s = true -> tshape d = p :: nc :: db ->
  broadcast_shapes sb db = Some ob ->
  Forall (fun x => 1 <= x) (nc :: nr :: ob) -> Forall (fun x => 1 <= x) sb ->
  bdsmm stride_pinned s d = bdsmm stride_dense s d.
Proof.
  intros sb Hs Hw Hd Hb Hpos Hsbpos.
  pose proof (broadcast_shapes_length _ _ _ Hb) as Hlob.
  destruct (broadcast_shapes_expandable _ _ _ Hb) as [Hexp _].
  assert (Hls : length sb <= length ob) by lia.
  set (k := length ob - length sb).
  assert (Hk : length ob = length sb + k) by (unfold k; lia).
  set (U := nc :: nr :: (sb ++ repeat 1 k)). set (E := nc :: nr :: ob).
  set (L := map2 Nat.div E U).
  assert (Hnc : 1 <= nc) by (inversion Hpos; auto).
  assert (Hnr : 1 <= nr) by (inversion Hpos as [|? ? _ H1]; inversion H1; auto).
  assert (Hobpos : Forall (fun x => 1 <= x) ob) by (inversion Hpos as [|? ? _ H1]; inversion H1; auto).
  assert (HlenU : length U = 2 + length ob).
  { unfold U. cbn [length]. rewrite app_length, repeat_length. lia. }
  assert (HlenL : length L = 2 + length ob) by (unfold L; rewrite map2_length; unfold E; cbn [length]; lia).
  assert (HL : forall q, q < 2 + length ob -> 1 <= nth q L 0 /\ (1 < nth q L 0 -> nth q U 0 = 1)).
  { intros q Hq. unfold L. rewrite (nth_map2 Nat.div E U q 0 0 0) by (unfold E; cbn [length]; lia).
    destruct q as [|[|q]]; cbn [nth E U].
    - rewrite Nat.div_same by lia. lia.
    - rewrite Nat.div_same by lia. lia.
    - destruct (div_mul_expandable sb ob k Hexp Hk Hsbpos q ltac:(lia)) as [H1 [H2 H3]].
      split; [apply H2; apply Forall_nth_ge1; auto; lia|exact H3]. }
  assert (Hnthreps : forall j, j < 2 + length ob -> nth j (rev L) 0 = nth (2 + length ob - 1 - j) L 0).
  { intros j Hj. rewrite rev_nth by lia. rewrite HlenL. f_equal; lia. }
  assert (Epin : sparse_repeat stride_pinned s (rev L) = sparse_repeat stride_dense s (rev L)).
  { apply sparse_repeat_pinned_ok_on_size1; auto.
    - rewrite rev_length, HlenL, Hs. cbn [length]. lia.
    - intros j Hj. rewrite rev_length, HlenL in Hj. rewrite Hnthreps by lia. apply HL. lia.
    - cbv zeta. rewrite rev_length, HlenL, Hs. intros j Hj Hgt. rewrite Hnthreps in Hgt by lia.
      change (length (nc :: nr :: sb)) with (2 + length sb). replace (2 + length ob - (2 + length sb)) with k by lia.
      change ((nc :: nr :: sb) ++ repeat 1 k) with U. apply HL; [lia|exact Hgt]. }
  unfold bdsmm, ndim. rewrite Hs, Hd. replace (2 <? length (nc :: nr :: sb)) with true by reflexivity.
  unfold matmul_broadcast_shape. rewrite Nat.eqb_refl. fold sb. rewrite Hb. cbn [bind].
  change (skipn 2 (p :: nr :: ob)) with ob. change (firstn 2 (nc :: nr :: sb)) with [nc; nr].
  change ([nc; nr] ++ ob) with E.
  replace ((nc :: nr :: sb) ++ repeat 1 (length (p :: nr :: ob) - length (nc :: nr :: sb))) with U.
  - fold L. rewrite Epin. reflexivity.
  - unfold U. cbn [app length]. replace (S (S (length ob)) - S (S (length sb))) with k by (unfold k; lia). reflexivity.
Qed.

(* ---- DSMM.backward for a batched sparse operand: bdsmm(sparse.mT, grad) = S_b^T G_b ---- *)
Lemma smT_wf_batched s nc nr sb : sshape s = nc :: nr :: sb -> swf s = true -> swf (smT s) = true.
Proof.
  intros Hs Hw. apply swf_spec. intros e Hin. unfold smT in *. cbn [sent sshape] in *. apply in_map_iff in Hin.
  destruct Hin as [e0 [<- Hin]]. cbn [fst]. pose proof (proj1 (swf_spec s) Hw e0 Hin) as Hv. rewrite Hs in *.
  destruct (fst e0) as [|x [|y l]]; simpl in *; tauto.
Qed.

Lemma dsmm_backward_sparse_batched_correct s g nc nr sb0 sbr p gb ob :
  let sb := sb0 :: sbr in
  sshape s = nc :: nr :: sb -> swf s = true -> tshape g = p :: nr :: gb ->
  broadcast_shapes sb gb = Some ob ->
  Forall (fun x => 1 <= x) (nc :: nr :: ob) -> Forall (fun x => 1 <= x) sb ->
  exists out, dsmm_backward stride_dense s g = Ok out /\ tshape out = p :: nc :: ob /\
    forall j c b, j < p -> c < nc -> valid b ob ->
      tat out (j :: c :: b) =
      zsum nr (fun i => (tat (sdense s) (c :: i :: bcast_ix sb b) * tat g (j :: i :: bcast_ix gb b))%Z).
Proof.
  intros sb Hs Hw Hg Hb Hpos Hsb. unfold dsmm_backward.
  destruct (bdsmm_sparse_batched_general (smT s) g nr nc sb0 sbr p gb ob) as [out [E [Hsh Hv]]]; auto.
  - unfold smT. cbn [sshape]. rewrite Hs. reflexivity.
  - apply (smT_wf_batched s nc nr sb); auto.
  - inversion Hpos as [|? ? H1 H2]. inversion H2 as [|? ? H3 H4]. repeat constructor; auto.
  - exists out. split; [exact E|]. split; [exact Hsh|]. intros j c b Hj Hc Hvb. rewrite Hv by auto.
    apply zsum_ext. intros i _. f_equal. apply smT_correct.
Qed.

Lemma dsmm_backward_dense_batched_correct stride s g n m p b0 rb :
  sshape s = [n; m] -> tshape g = p :: m :: b0 :: rb -> swf s = true ->
  exists out, dsmm_backward stride s g = Ok out /\ tshape out = p :: n :: b0 :: rb /\
    forall j c b, j < p -> c < n -> valid b (b0 :: rb) ->
      tat out (j :: c :: b) = zsum m (fun i => (tat (sdense s) [c; i] * tat g (j :: i :: b))%Z).
Proof.
  intros Hs Hg Hw. unfold dsmm_backward.
  destruct (bdsmm_dense_batched_correct stride (smT s) g m n p b0 rb) as [out [E [Hsh Hv]]]; auto.
  - unfold smT. cbn [sshape]. rewrite Hs. reflexivity.
  - apply (smT_wf s n m); auto.
  - exists out. split; [exact E|]. split; [exact Hsh|]. intros j c b Hj Hc Hvb. rewrite Hv by auto.
    apply zsum_ext. intros i _. f_equal. apply (smT_correct s i c []).
Qed.
